(* CssParse/Model.v — executable model of the CSS parser (/repo/css/parse.go) on top of the lexer model
   Css/Model.v, and of ToHash (/repo/css/hash.go) over the generated table Gen/Tables.v.  Definitions only.

   The state stack is a list of an enumerated state type with the TOP FIRST (Go appends at the end).
   Go panics (index/slice out of range) are PPanic.  Every loop of parse.go pops at least one token per
   iteration; loops are recursions on a fuel that Next sets to the number of unread bytes + 2; running out
   of fuel is the distinct result PFuel (CssParse/Proofs.v shows it never happens).
   Not modelled: errPos / the error message (only "a parse error is pending" is kept: p.err != ""). *)
From Verif Require Import Common.Base Common.Lx Css.Model Gen.Tables.

Inductive pstate := SStylesheet | SDeclarationList | SAtRuleRuleList | SAtRuleDeclarationList
                  | SAtRuleUnknown | SQualifiedRuleDeclarationList.

Inductive gtype := GError | GComment | GAtRule | GBeginAtRule | GEndAtRule | GQualifiedRule
                 | GBeginRuleset | GEndRuleset | GDeclaration | GToken | GCustomProperty.

Definition gt_code (g : gtype) : Z :=
  match g with
  | GError => 0 | GComment => 1 | GAtRule => 2 | GBeginAtRule => 3 | GEndAtRule => 4 | GQualifiedRule => 5
  | GBeginRuleset => 6 | GEndRuleset => 7 | GDeclaration => 8 | GToken => 9 | GCustomProperty => 10
  end.

Definition tok := (ttype * list Z)%type.

Record parser := mkP {
  pl : lx;                 (* the lexer's cursor *)
  pst : list pstate;       (* state stack, top first *)
  perr : bool;             (* p.err != "" *)
  pbuf : list tok;         (* Values() *)
  plevel : Z;
  ptt : ttype; pdata : list Z;
  keepws : bool; prevws : bool; prevend : bool; prevcomment : bool; isstyle : bool
}.

Inductive pres (A : Type) := POk (a : A) | PPanic | PFuel.
Arguments POk {A} a. Arguments PPanic {A}. Arguments PFuel {A}.

Definition pbind {A B} (r : pres A) (f : A -> pres B) : pres B :=
  match r with POk a => f a | PPanic => PPanic | PFuel => PFuel end.
Notation "x <-- e ;; k" := (pbind e (fun x => k)) (at level 61, e at next level, right associativity).

Definition of_opt {A} (o : option A) : pres A := match o with Some a => POk a | None => PPanic end.

(* --- field updates ---------------------------------------------------------------------------------- *)
Definition set_pl p z := mkP z (pst p) (perr p) (pbuf p) (plevel p) (ptt p) (pdata p) (keepws p) (prevws p) (prevend p) (prevcomment p) (isstyle p).
Definition set_st p s := mkP (pl p) s (perr p) (pbuf p) (plevel p) (ptt p) (pdata p) (keepws p) (prevws p) (prevend p) (prevcomment p) (isstyle p).
Definition set_err p e := mkP (pl p) (pst p) e (pbuf p) (plevel p) (ptt p) (pdata p) (keepws p) (prevws p) (prevend p) (prevcomment p) (isstyle p).
Definition set_buf p b := mkP (pl p) (pst p) (perr p) b (plevel p) (ptt p) (pdata p) (keepws p) (prevws p) (prevend p) (prevcomment p) (isstyle p).
Definition set_level p n := mkP (pl p) (pst p) (perr p) (pbuf p) n (ptt p) (pdata p) (keepws p) (prevws p) (prevend p) (prevcomment p) (isstyle p).
Definition set_tok p t d := mkP (pl p) (pst p) (perr p) (pbuf p) (plevel p) t d (keepws p) (prevws p) (prevend p) (prevcomment p) (isstyle p).
Definition set_keepws p b := mkP (pl p) (pst p) (perr p) (pbuf p) (plevel p) (ptt p) (pdata p) b (prevws p) (prevend p) (prevcomment p) (isstyle p).
Definition set_prevws p b := mkP (pl p) (pst p) (perr p) (pbuf p) (plevel p) (ptt p) (pdata p) (keepws p) b (prevend p) (prevcomment p) (isstyle p).
Definition set_prevend p b := mkP (pl p) (pst p) (perr p) (pbuf p) (plevel p) (ptt p) (pdata p) (keepws p) (prevws p) b (prevcomment p) (isstyle p).
Definition set_prevcomment p b := mkP (pl p) (pst p) (perr p) (pbuf p) (plevel p) (ptt p) (pdata p) (keepws p) (prevws p) (prevend p) b (isstyle p).

Definition push_buf p (t : ttype) (d : list Z) := set_buf p (pbuf p ++ [(t, d)]).
Definition push_st p s := set_st p (s :: pst p).
(* p.state = p.state[:len(p.state)-1] *)
Definition pop_st p : pres parser := match pst p with [] => PPanic | _ :: t => POk (set_st p t) end.
(* if 1 < len(p.state) { pop } *)
Definition pop_st_if_gt1 p : parser := match pst p with _ :: (_ :: _) as t => set_st p t | _ => p end.

Definition is_t (a b : ttype) : bool := tt_eqb a b.
Definition opens (t : ttype) : bool := is_t t TLeftParenthesis || is_t t TLeftBrace || is_t t TLeftBracket || is_t t TFunction.
Definition closes (t : ttype) : bool := is_t t TRightParenthesis || is_t t TRightBrace || is_t t TRightBracket.
(* (tt == Semicolon || tt == RightBrace) && p.level == 0 || tt == Error *)
Definition ends_unit p (t : ttype) : bool := ((is_t t TSemicolon || is_t t TRightBrace) && (plevel p =? 0)) || is_t t TError.
(* len(data) == 1 && data[0] is one of cs *)
Definition one_of (cs : list Z) (d : list Z) : bool :=
  match d with [c] => existsb (Z.eqb c) cs | _ => false end.

Definition to_lower (b : list Z) : list Z := map (fun c => if (65 <=? c) && (c <=? 90) then c + 32 else c) b.
Fixpoint index_byte (l : list Z) (b : Z) : option Z :=
  match l with [] => None | c :: t => if c =? b then Some 0 else match index_byte t b with Some i => Some (1 + i) | None => None end end.
Fixpoint list_eqb (a b : list Z) : bool :=
  match a, b with [], [] => true | x :: a', y :: b' => (x =? y) && list_eqb a' b' | _, _ => false end.

(* --- css.ToHash (hash.go), over the generated table --------------------------------------------------- *)
Definition u32 (x : Z) : Z := x mod 4294967296.
Definition hash_step (h c : Z) : Z := u32 (Z.lxor h c * 16777619).
(* the text of table entry i, if its length is len s: Some (Some eq) ; Some None = other length; None = panic *)
Definition hash_entry (i : Z) (s : list Z) : option (option bool) :=
  if Z.land i 255 =? len s then
    let lo := Z.shiftr i 8 in let hi := lo + Z.land i 255 in
    if slice_ok lo hi (len css_hash_text) then Some (Some (list_eqb (slice css_hash_text lo hi) s)) else None
  else Some None.
Definition to_hash (s : list Z) : option Z :=
  if (len s =? 0) || (css_hash_maxlen <? len s) then Some 0 else
  let h := fold_left hash_step s css_hash_hash0 in
  let mask := len css_hash_table - 1 in
  i1 <- peekz css_hash_table (Z.land h mask) ;;
  e1 <- hash_entry i1 s ;;
  match e1 with
  | Some true => Some i1
  | _ =>
      i2 <- peekz css_hash_table (Z.land (Z.shiftr h 16) mask) ;;
      e2 <- hash_entry i2 s ;;
      match e2 with Some true => Some i2 | _ => Some 0 end
  end.

(* --- popToken ------------------------------------------------------------------------------------------------ *)
Definition lex_next (p : parser) : pres (ttype * list Z * parser) :=
  match css_next (pl p) with
  | None => PPanic
  | Some (ty, b, z') => POk (ty, b, set_pl p z')
  end.

Fixpoint pop_loop (fuel : nat) (allow : bool) (p : parser) (t : ttype) (d : list Z) : pres (ttype * list Z * parser) :=
  if (negb (keepws p) && is_t t TWhitespace) || is_t t TComment then
    match fuel with
    | O => PFuel
    | S f =>
        let p1 := if is_t t TWhitespace then set_prevws p true else set_prevcomment p true in
        if is_t t TComment && allow && (len (pst p) =? 1) then POk (t, d, p1)
        else r <-- lex_next p1 ;; pop_loop f allow (snd r) (fst (fst r)) (snd (fst r))
    end
  else POk (t, d, p).

Definition pop_token (F : nat) (allow : bool) (p : parser) : pres (ttype * list Z * parser) :=
  r <-- lex_next (set_prevcomment (set_prevws p false) false) ;;
  pop_loop F allow (snd r) (fst (fst r)) (snd (fst r)).

(* level bookkeeping shared by the collecting loops: None = "return an error now" (a closer at level 0) *)
Definition adjust_level p (t : ttype) : parser :=
  if opens t then set_level p (plevel p + 1) else if closes t then set_level p (plevel p - 1) else p.

(* --- parseAtRule ----------------------------------------------------------------------------------------------- *)
Definition at_state (h : Z) : pstate :=
  if (h =? css_hash_Font_Face) || (h =? css_hash_Page) then SAtRuleDeclarationList
  else if (h =? css_hash_Document) || (h =? css_hash_Keyframes) || (h =? css_hash_Layer) || (h =? css_hash_Media)
          || (h =? css_hash_Supports) then SAtRuleRuleList
  else SAtRuleUnknown.

Fixpoint at_rule_loop (fuel F : nat) (p : parser) (h : Z) (first skipws : bool) : pres (gtype * parser) :=
  match fuel with
  | O => PFuel
  | S f =>
      r <-- pop_token F false p ;;
      let t := fst (fst r) in let d := snd (fst r) in let p := snd r in
      if is_t t TLeftBrace && (plevel p =? 0) then POk (GBeginAtRule, push_st p (at_state h))
      else if ends_unit p t then POk (GAtRule, set_prevend p (is_t t TRightBrace))
      else if closes t && (plevel p =? 0) then
        POk (GError, set_err (pop_st_if_gt1 (push_buf p t d)) true)
      else
        let p := adjust_level p t in
        let p := if first && (is_t t TLeftParenthesis || is_t t TLeftBracket) then set_prevws p false else p in
        let special := one_of [44; 58] d in
        let addws := negb special && prevws p && negb skipws && negb (is_t t TRightParenthesis) in
        let skipws := if special then true else if addws then skipws else false in
        let p := if addws then push_buf p TWhitespace [32] else p in
        let skipws := if is_t t TLeftParenthesis then true else skipws in
        at_rule_loop f F (push_buf p t d) h false skipws
  end.

Definition parse_at_rule (F : nat) (p : parser) : pres (gtype * parser) :=
  let p := set_buf p [] in
  let name0 := to_lower (pdata p) in
  let p := set_tok p (ptt p) name0 in
  name <-- (if 0 <? len name0 then
              c1 <-- of_opt (peekz name0 1) ;;
              if c1 =? 45 then
                match index_byte (skipz 2 name0) 45 with
                | Some i => POk (skipz (i + 2) name0)
                | None => POk name0
                end
              else POk name0
            else POk name0) ;;
  if len name <? 1 then PPanic else                     (* atRuleName[1:] *)
  h <-- of_opt (to_hash (skipz 1 name)) ;;
  at_rule_loop F F p h true false.

(* --- parseQualifiedRule ---------------------------------------------------------------------------------------- *)
Fixpoint qualified_loop (fuel F : nat) (p : parser) (first inattr skipws : bool) : pres (gtype * parser) :=
  match fuel with
  | O => PFuel
  | S f =>
      r <-- (if first then POk (ptt p, pdata p, set_tok p TWhitespace []) else pop_token F false p) ;;
      let t := fst (fst r) in let d := snd (fst r) in let p := snd r in
      if is_t t TLeftBrace && (plevel p =? 0) then POk (GBeginRuleset, push_st p SQualifiedRuleDeclarationList)
      else if is_t t TError then POk (GError, set_err p true)
      else if closes t && (plevel p =? 0) then
        POk (GError, set_err (pop_st_if_gt1 (push_buf p t d)) true)
      else
        let p := adjust_level p t in
        let special := one_of [44; 62; 43; 126] d in
        let addws := negb special && prevws p && negb skipws && negb inattr in
        let skipws := if special then true else if addws then skipws else false in
        let p := if addws then push_buf p TWhitespace [32] else p in
        let inattr := if is_t t TLeftBracket then true else if is_t t TRightBracket then false else inattr in
        qualified_loop f F (push_buf p t d) false inattr skipws
  end.

Definition parse_qualified_rule (F : nat) (p : parser) : pres (gtype * parser) :=
  qualified_loop F F (set_buf p []) true false true.

(* --- parseDeclarationError ------------------------------------------------------------------------------------- *)
Fixpoint decl_error_loop (fuel F : nat) (p : parser) (t : ttype) (d : list Z) : pres (gtype * parser) :=
  if ends_unit p t then
    let p := set_prevend p (is_t t TRightBrace) in
    POk (GError, if is_t t TSemicolon then push_buf p t d else p)
  else
    match fuel with
    | O => PFuel
    | S f =>
        let p := adjust_level p t in
        let p := if prevws p then push_buf p TWhitespace [32] else p in
        let p := push_buf p t d in
        r <-- pop_token F false p ;;
        decl_error_loop f F (snd r) (fst (fst r)) (snd (fst r))
    end.

Definition parse_declaration_error (F : nat) (p : parser) (t : ttype) (d : list Z) : pres (gtype * parser) :=
  decl_error_loop F F (set_tok p t d) t d.

(* --- parseDeclaration -------------------------------------------------------------------------------------------- *)
Definition is_wstok (t : tok) : bool := is_t (fst t) TWhitespace.
Fixpoint drop_ws (b : list tok) : list tok :=
  match b with t :: r => if is_wstok t then drop_ws r else b | [] => [] end.
Definition punct (t : tok) : bool := one_of [44; 47; 58; 33; 61] (snd t).

(* the in-place whitespace removal of parseDeclaration: out = buf[:j] reversed, rest = buf[i:] *)
Fixpoint compact (out : list tok) (rest : list tok) : list tok :=
  match rest with
  | [] => rev out
  | t :: rest' =>
      if is_wstok t then
        if match out with last :: _ => punct last | [] => false end then compact out rest'
        else match rest' with
             | nxt :: rest'' => if punct nxt then compact out rest' else compact (nxt :: t :: out) rest''
             | [] => compact (t :: out) rest'
             end
      else compact (t :: out) rest'
  end.

(* the selector of a nested ruleset (fix dd2c98e): whitespace is dropped inside an attribute selector, after a kept
   combinator and before a combinator; out = buf[:j] reversed *)
Definition is_combinator (d : list Z) : bool := one_of [44; 62; 43; 126] d.
Fixpoint sel_compact (out : list tok) (inattr : bool) (rest : list tok) : list tok :=
  match rest with
  | [] => rev out
  | t :: rest' =>
      if is_wstok t && (inattr || match out with last :: _ => is_combinator (snd last) | [] => false end
                               || match rest' with nxt :: _ => is_combinator (snd nxt) | [] => false end)
      then sel_compact out inattr rest'
      else sel_compact (t :: out)
             (if is_t (fst t) TLeftBracket then true else if is_t (fst t) TRightBracket then false else inattr) rest'
  end.

Fixpoint declaration_loop (fuel F : nat) (p : parser) : pres (gtype * parser) :=
  match fuel with
  | O => PFuel
  | S f =>
      r <-- pop_token F false p ;;
      let t := fst (fst r) in let d := snd (fst r) in let p := snd r in
      if ends_unit p t then
        (* buf[0] is the property name; skip whitespace, expect ':' *)
        match pbuf p with
        | [] => PPanic
        | _ :: after =>
            match drop_ws after with
            | c :: vals =>
                if is_t (fst c) TColon then
                  let p := set_buf p (compact [] (drop_ws vals)) in
                  let p := set_tok p (ptt p) (to_lower (pdata p)) in
                  POk (GDeclaration, set_prevend p (is_t t TRightBrace))
                else parse_declaration_error F (set_err p true) t d
            | [] => parse_declaration_error F (set_err p true) t d
            end
        end
      else if is_t t TLeftBrace && (plevel p =? 0) && isstyle p then
        POk (GBeginRuleset, push_st (set_tok (set_buf p (sel_compact [] false (pbuf p))) TWhitespace []) SQualifiedRuleDeclarationList)
      else if closes t && (plevel p =? 0) then parse_declaration_error F (set_err p true) t d
      else
        let p := adjust_level p t in
        lastt <-- of_opt (match rev (pbuf p) with x :: _ => Some x | [] => None end) ;;
        let p := if (prevws p || prevcomment p) && negb (is_wstok lastt) then push_buf p TWhitespace [32] else p in
        declaration_loop f F (push_buf p t d)
  end.

Definition parse_declaration (F : nat) (p : parser) : pres (gtype * parser) :=
  let p := set_buf p [(ptt p, pdata p)] in
  let p := if is_t (ptt p) TLeftBracket then set_level p (plevel p + 1) else p in
  declaration_loop F F p.

(* --- parseCustomProperty ----------------------------------------------------------------------------------------- *)
Fixpoint custom_loop (fuel : nat) (p : parser) (val : list Z) : pres (gtype * parser) :=
  match fuel with
  | O => PFuel
  | S f =>
      r <-- lex_next p ;;
      let t := fst (fst r) in let d := snd (fst r) in let p := snd r in
      if ends_unit p t then
        POk (GCustomProperty, push_buf (set_prevend p (is_t t TRightBrace)) TCustomPropertyValue val)
      else if closes t && (plevel p =? 0) then POk (GError, set_err (push_buf p t d) true)
      else custom_loop f (adjust_level p t) (val ++ d)
  end.

Definition parse_custom_property (F : nat) (p : parser) : pres (gtype * parser) :=
  let p := set_buf p [] in
  r <-- pop_token F false p ;;
  let t := fst (fst r) in let p := snd r in
  if negb (is_t t TColon) then POk (GError, set_err p true)
  else custom_loop F p [].

(* --- the state functions ----------------------------------------------------------------------------------------- *)
(* for p.tt == SemicolonToken { p.tt, p.data = p.popToken(false) } *)
Fixpoint skip_semicolons (fuel F : nat) (p : parser) : pres parser :=
  if is_t (ptt p) TSemicolon then
    match fuel with
    | O => PFuel
    | S f => r <-- pop_token F false p ;; skip_semicolons f F (set_tok (snd r) (fst (fst r)) (snd (fst r)))
    end
  else POk p.

Definition parse_declaration_list (F : nat) (p : parser) : pres (gtype * parser) :=
  p <-- (if is_t (ptt p) TComment then
           r <-- pop_token F false p ;; POk (set_tok (snd r) (fst (fst r)) (snd (fst r)))
         else POk p) ;;
  p <-- skip_semicolons F F p ;;
  (* IE hack: *color:red; *)
  p <-- (if is_t (ptt p) TDelim then
           c0 <-- of_opt (peekz (pdata p) 0) ;;
           if c0 =? 42 then
             r <-- pop_token F false p ;;
             let t := fst (fst r) in let d := snd (fst r) in let p' := snd r in
             if negb (is_t t TError) then POk (set_tok p' t (pdata p' ++ d)) else POk p'
           else POk p
         else POk p) ;;
  let t := ptt p in
  if is_t t TError then POk (GError, p)
  else if is_t t TAtKeyword then parse_at_rule F p
  else if is_t t TIdent || is_t t TDelim
          || (isstyle p && (is_t t THash || is_t t TColon || is_t t TLeftBracket)) then
    parse_declaration F p     (* or a nested ruleset whose selector starts with #id, :pseudo or [attr] *)
  else if is_t t TCustomPropertyName then parse_custom_property F p
  else
    let p := set_err (set_buf p []) true in
    if is_t t TRightBrace then POk (GError, push_buf p t (pdata p))
    else parse_declaration_error F p t (pdata p).

Definition parse_stylesheet (F : nat) (p : parser) : pres (gtype * parser) :=
  let t := ptt p in
  if is_t t TCDO || is_t t TCDC then POk (GToken, p)
  else if is_t t TAtKeyword then parse_at_rule F p
  else if is_t t TComment then POk (GComment, p)
  else if is_t t TCustomPropertyName then parse_custom_property F p
  else if is_t t TError then POk (GError, p)
  else parse_qualified_rule F p.

Definition parse_at_rule_rule_list (F : nat) (p : parser) : pres (gtype * parser) :=
  let t := ptt p in
  if is_t t TRightBrace || is_t t TError then p' <-- pop_st p ;; POk (GEndAtRule, p')
  else if is_t t TAtKeyword then parse_at_rule F p
  else parse_qualified_rule F p.

Definition parse_at_rule_declaration_list (F : nat) (p : parser) : pres (gtype * parser) :=
  p <-- skip_semicolons F F p ;;
  let t := ptt p in
  if is_t t TRightBrace || is_t t TError then p' <-- pop_st p ;; POk (GEndAtRule, p')
  else parse_declaration_list F p.

Definition parse_at_rule_unknown (p : parser) : pres (gtype * parser) :=
  let p := set_keepws p true in
  let t := ptt p in
  if (is_t t TRightBrace && (plevel p =? 0)) || is_t t TError then
    p' <-- pop_st p ;; POk (GEndAtRule, set_keepws p' false)
  else POk (GToken, adjust_level p t).

Definition parse_qualified_rule_declaration_list (F : nat) (p : parser) : pres (gtype * parser) :=
  p <-- skip_semicolons F F p ;;
  let t := ptt p in
  if is_t t TRightBrace || is_t t TError then p' <-- pop_st p ;; POk (GEndRuleset, p')
  else parse_declaration_list F p.

(* --- Parser.Next ---------------------------------------------------------------------------------------------------- *)
Definition next_fuel (p : parser) : nat := Z.to_nat (lx_len (pl p) - lpos (pl p)) + 2.

Definition parse_next (p : parser) : pres (gtype * parser) :=
  let F := next_fuel p in
  let p := set_buf (set_err p false) [] in                   (* p.err = ""; p.initBuf() (fix ef9c484) *)
  p <-- (if prevend p then POk (set_prevend (set_tok p TRightBrace [125]) false)
         else r <-- pop_token F true p ;; POk (set_tok (snd r) (fst (fst r)) (snd (fst r)))) ;;
  match pst p with
  | [] => PPanic                                            (* p.state[len(p.state)-1] *)
  | SStylesheet :: _ => parse_stylesheet F p
  | SDeclarationList :: _ => parse_declaration_list F p
  | SAtRuleRuleList :: _ => parse_at_rule_rule_list F p
  | SAtRuleDeclarationList :: _ => parse_at_rule_declaration_list F p
  | SAtRuleUnknown :: _ => parse_at_rule_unknown p
  | SQualifiedRuleDeclarationList :: _ => parse_qualified_rule_declaration_list F p
  end.

Definition new_parser (d : list Z) (inline : bool) : parser :=
  mkP (lx_init d) [if inline then SDeclarationList else SStylesheet] false [] 0 TError [] false false false false
      (negb inline).

(* Err(): 2 = a parse error, 1 = io.EOF (from the lexer), 0 = nil *)
Definition perr_code (p : parser) : Z := if perr p then 2 else if at_end (pl p) then 1 else 0.
