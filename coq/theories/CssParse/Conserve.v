(* CssParse/Conserve.v — token conservation (C08): every token the parser reports through data or Values() is a
   token the lexer returns on the input, or one of the synthesised forms. *)
From Verif Require Import Common.Base Common.Tactics Common.Lx Css.Model Css.Basics Css.Bounds Css.Proofs Css.Agree.
From Verif Require Import CssParse.Model CssParse.Proofs CssParse.Trace.
From Coq Require Import ZifyBool.

(* lexer states reachable on input D by calling Next *)
Inductive lex_reach (D : list Z) : lx -> Prop :=
| LR_init : lex_reach D (lx_init D)
| LR_step z t b z' : lex_reach D z -> css_next z = Some (t, b, z') -> lex_reach D z'.

(* (t, b) is returned by the lexer on D *)
Definition lexer_tok (D : list Z) (t : ttype) (b : list Z) : Prop :=
  exists z z', lex_reach D z /\ css_next z = Some (t, b, z') /\ t <> TError.

(* what the parser may report *)
Inductive rep_tok (D : list Z) : ttype -> list Z -> Prop :=
| RT_lex t d : lexer_tok D t d -> rep_tok D t d
| RT_space : rep_tok D TWhitespace [32]                 (* wsBytes *)
| RT_empty : rep_tok D TWhitespace []                   (* emptyBytes of a ruleset *)
| RT_brace : rep_tok D TRightBrace [125]                (* endBytes: the '}' that ended the previous unit *)
| RT_err : rep_tok D TError []                          (* ErrorToken, nil *)
| RT_glued t d0 d : rep_tok D TDelim d0 -> lexer_tok D t d -> rep_tok D t (d0 ++ d)   (* the IE '*' hack *)
| RT_lower t d : rep_tok D t d -> rep_tok D t (to_lower d)  (* at-rule and property names *)
| RT_custom a b : rep_tok D TCustomPropertyValue (slice D a b).   (* exact source text *)

Definition buf_ok (D : list Z) (b : list tok) : Prop := Forall (fun x => rep_tok D (fst x) (snd x)) b.

Definition cinv (D : list Z) (p : parser) : Prop :=
  lex_reach D (pl p) /\ rep_tok D (ptt p) (pdata p) /\ buf_ok D (pbuf p).

Lemma lex_reach_inv D z : lex_reach D z -> css_inv z /\ lx_data z = D.
Proof.
  induction 1 as [|z t b z' Hr (Hi & Hd) Hn].
  - split; [apply css_inv_init|]. apply lx_init_data.
  - destruct (css_total_proof z Hi) as (t2 & b2 & z2 & Hn2 & Hi2). rewrite Hn in Hn2.
    assert (z2 = z') by congruence. subst z2. split; [exact Hi2|].
    destruct (css_no_overread_proof z t b z' Hi Hn) as (_ & _ & Hd'). congruence.
Qed.

(* inversion of the result monad *)
Ltac pinv_bind H :=
  match type of H with
  | pbind ?e _ = POk _ =>
      let r := fresh "r" in let E := fresh "E" in
      destruct e as [r| |] eqn:E; [cbn [pbind] in H|discriminate H|discriminate H]
  end.
Ltac pif H :=
  match type of H with
  | (if ?b then _ else _) = POk _ => let E := fresh "E" in destruct b eqn:E
  end.
Lemma POk_inj {A} (a b : A) : POk a = POk b -> a = b.
Proof. congruence. Qed.

Definition tok_res (D : list Z) (t : ttype) (d : list Z) : Prop := (t = TError /\ d = []) \/ lexer_tok D t d.

Lemma tok_res_rep D t d : tok_res D t d -> rep_tok D t d.
Proof. intros [(-> & ->)|H]; [apply RT_err|apply RT_lex; exact H]. Qed.

Lemma lex_next_c D p t d p' : lex_next p = POk (t, d, p') -> lex_reach D (pl p) ->
  p' = set_pl p (pl p') /\ lex_reach D (pl p') /\ tok_res D t d /\
  d = slice D (lpos (pl p)) (lpos (pl p')) /\ lpos (pl p) <= lpos (pl p') <= len D.
Proof.
  unfold lex_next. intros H Hr. destruct (css_next (pl p)) as [[[ty b] z']|] eqn:En; [|discriminate].
  apply POk_inj in H. assert (ty = t) by congruence. assert (b = d) by congruence. assert (p' = set_pl p z') by congruence.
  subst ty b p'. cbn [set_pl pl]. split; [reflexivity|]. split; [eapply LR_step; eassumption|].
  destruct (lex_reach_inv D _ Hr) as (Hi & Hd).
  destruct (css_no_overread_proof _ _ _ _ Hi En) as (Hpos & Hb & _). rewrite Hd in Hb.
  split.
  - destruct (ttype_eq_dec t TError) as [->|Hne]; [|right; exists (pl p), z'; auto].
    left. split; [reflexivity|]. destruct (css_eof_sticky_proof (pl p) Hi) as (_ & H2). destruct (H2 _ _ En) as (_ & Hb' & _). exact Hb'.
  - split; [exact Hb|]. destruct (inv_data _ Hi) as (_ & Hl & _). rewrite Hd in Hl. lia.
Qed.

Lemma cinv_relex D p z ws cm : cinv D p -> lex_reach D z -> cinv D (relex p z ws cm).
Proof. intros (_ & Ht & Hb) Hr. split; [exact Hr|]. split; assumption. Qed.

Lemma pop_loop_c D : forall fuel allow p t d t' d' p', pop_loop fuel allow p t d = POk (t', d', p') ->
  cinv D p -> tok_res D t d ->
  tok_res D t' d' /\ exists z ws cm, p' = relex p z ws cm /\ lex_reach D z.
Proof.
  induction fuel as [|fuel IH]; intros allow p t d t' d' p' H Hc Ht; cbn [pop_loop] in H.
  - pif H; [discriminate H|]. apply POk_inj in H. assert (t' = t) by congruence. assert (d' = d) by congruence.
    assert (p' = p) by congruence. subst t' d' p'. split; [exact Ht|]. exists (pl p), (prevws p), (prevcomment p).
    split; [destruct p; reflexivity|apply Hc].
  - pif H.
    + set (p1 := if is_t t TWhitespace then set_prevws p true else set_prevcomment p true) in *.
      assert (Hp1 : exists ws cm, p1 = relex p (pl p) ws cm).
      { subst p1. destruct (is_t t TWhitespace); destruct p; do 2 eexists; reflexivity. }
      destruct Hp1 as (ws1 & cm1 & Hp1).
      pif H.
      * apply POk_inj in H. assert (t' = t) by congruence. assert (d' = d) by congruence. assert (p' = p1) by congruence.
        subst t' d' p'. split; [exact Ht|]. exists (pl p), ws1, cm1. split; [exact Hp1|apply Hc].
      * pinv_bind H. destruct r as [[t2 d2] p2]. cbn [fst snd] in H.
        assert (Hr1 : lex_reach D (pl p1)) by (rewrite Hp1; apply Hc).
        destruct (lex_next_c D _ _ _ _ E1 Hr1) as (Hp2 & Hr2 & Ht2 & _).
        assert (Hc2 : cinv D p2).
        { rewrite Hp2, Hp1. cbn [set_pl relex pl pst perr pbuf plevel ptt pdata keepws prevws prevend prevcomment isstyle].
          split; [exact Hr2|]. split; apply Hc. }
        destruct (IH _ _ _ _ _ _ _ H Hc2 Ht2) as (Hres & z & ws & cm & Hp' & Hz).
        split; [exact Hres|]. exists z, ws, cm. split; [|exact Hz]. rewrite Hp', Hp2, Hp1. reflexivity.
    + apply POk_inj in H. assert (t' = t) by congruence. assert (d' = d) by congruence.
      assert (p' = p) by congruence. subst t' d' p'. split; [exact Ht|]. exists (pl p), (prevws p), (prevcomment p).
      split; [destruct p; reflexivity|apply Hc].
Qed.

Lemma pop_token_c D F allow p t d p' : pop_token F allow p = POk (t, d, p') -> cinv D p ->
  tok_res D t d /\ exists z ws cm, p' = relex p z ws cm /\ lex_reach D z.
Proof.
  unfold pop_token. intros H Hc. pinv_bind H. destruct r as [[t1 d1] p1]. cbn [fst snd] in H.
  set (p0 := set_prevcomment (set_prevws p false) false) in *.
  assert (Hp0 : p0 = relex p (pl p) false false) by (destruct p; reflexivity).
  assert (Hr0 : lex_reach D (pl p0)) by (rewrite Hp0; apply Hc).
  destruct (lex_next_c D _ _ _ _ E Hr0) as (Hp1 & Hr1 & Ht1 & _).
  assert (Hc1 : cinv D p1).
  { rewrite Hp1, Hp0. split; [exact Hr1|]. split; apply Hc. }
  destruct (pop_loop_c D _ _ _ _ _ _ _ _ H Hc1 Ht1) as (Hres & z & ws & cm & Hp' & Hz).
  split; [exact Hres|]. exists z, ws, cm. split; [|exact Hz]. rewrite Hp', Hp1, Hp0. reflexivity.
Qed.

(* --- operations that keep the invariant ------------------------------------------------------------------------------ *)
Lemma cinv_fields D p q : pl q = pl p -> ptt q = ptt p -> pdata q = pdata p -> pbuf q = pbuf p -> cinv D p -> cinv D q.
Proof. intros H1 H2 H3 H4 (Hr & Ht & Hb). unfold cinv. rewrite H1, H2, H3, H4. auto. Qed.

Lemma cinv_push_buf D p t d : cinv D p -> rep_tok D t d -> cinv D (push_buf p t d).
Proof.
  intros (Hr & Ht & Hb) Hrep. split; [exact Hr|]. split; [exact Ht|]. unfold buf_ok, push_buf. cbn [set_buf pbuf].
  apply Forall_app. split; [exact Hb|]. constructor; [exact Hrep|constructor].
Qed.
Lemma cinv_set_buf D p b : cinv D p -> buf_ok D b -> cinv D (set_buf p b).
Proof. intros (Hr & Ht & _) Hb. split; [exact Hr|]. split; assumption. Qed.
Lemma cinv_set_tok D p t d : cinv D p -> rep_tok D t d -> cinv D (set_tok p t d).
Proof. intros (Hr & _ & Hb) Ht. split; [exact Hr|]. split; assumption. Qed.
Lemma cinv_adjust_level D p t : cinv D p -> cinv D (adjust_level p t).
Proof. intros H. unfold adjust_level. destruct (opens t); [exact H|]. destruct (closes t); exact H. Qed.
Lemma cinv_pop_if D p : cinv D p -> cinv D (pop_st_if_gt1 p).
Proof. intros H. unfold pop_st_if_gt1. destruct (pst p) as [|s [|s2 r]]; exact H. Qed.

Ltac cinv_step :=
  first [ assumption
        | apply cinv_adjust_level
        | apply cinv_pop_if
        | match goal with
          | |- cinv _ (if ?b then _ else _) => destruct b
          | |- cinv _ (set_err ?p _) => apply (cinv_fields _ p); [reflexivity|reflexivity|reflexivity|reflexivity|]
          | |- cinv _ (set_prevws ?p _) => apply (cinv_fields _ p); [reflexivity|reflexivity|reflexivity|reflexivity|]
          | |- cinv _ (set_prevend ?p _) => apply (cinv_fields _ p); [reflexivity|reflexivity|reflexivity|reflexivity|]
          | |- cinv _ (set_level ?p _) => apply (cinv_fields _ p); [reflexivity|reflexivity|reflexivity|reflexivity|]
          | |- cinv _ (set_keepws ?p _) => apply (cinv_fields _ p); [reflexivity|reflexivity|reflexivity|reflexivity|]
          | |- cinv _ (push_st ?p _) => apply (cinv_fields _ p); [reflexivity|reflexivity|reflexivity|reflexivity|]
          | |- cinv _ (set_st ?p _) => apply (cinv_fields _ p); [reflexivity|reflexivity|reflexivity|reflexivity|]
          | |- cinv _ (push_buf _ TWhitespace [32]) => apply cinv_push_buf; [|apply RT_space]
          | |- cinv _ (push_buf _ _ _) => apply cinv_push_buf; [|try (apply tok_res_rep; assumption)]
          | |- cinv _ (set_buf _ []) => apply cinv_set_buf; [|constructor]
          end ].
Ltac cinv_solve := repeat cinv_step.

(* the result of a function call that returns (g, p') *)
Ltac ret_inv H := apply POk_inj in H; apply pair_eq_inv in H; let H' := fresh H in destruct H as [H H']; subst.

Lemma pop_token_cinv D F allow p t d p' : pop_token F allow p = POk (t, d, p') -> cinv D p ->
  cinv D p' /\ tok_res D t d /\ ptt p' = ptt p /\ pdata p' = pdata p /\ pbuf p' = pbuf p.
Proof.
  intros H Hc. destruct (pop_token_c D _ _ _ _ _ _ H Hc) as (Ht & z & ws & cm & -> & Hz).
  split; [apply cinv_relex; assumption|]. auto.
Qed.

Lemma at_rule_loop_c D : forall fuel F p h fst_it sk g p', at_rule_loop fuel F p h fst_it sk = POk (g, p') ->
  cinv D p -> cinv D p'.
Proof.
  induction fuel as [|fuel IH]; intros F p h fst_it sk g p' H Hc; cbn [at_rule_loop] in H; [discriminate|].
  pinv_bind H. destruct r as [[t d] p1]. cbn [fst snd] in H.
  destruct (pop_token_cinv D _ _ _ _ _ _ E Hc) as (Hc1 & Ht & _).
  pif H; [ret_inv H; cinv_solve|]. pif H; [ret_inv H; cinv_solve|]. pif H; [ret_inv H; cinv_solve|].
  eapply IH; [exact H|]. cinv_solve.
Qed.

Lemma parse_at_rule_c D F p g p' : parse_at_rule F p = POk (g, p') -> cinv D p -> cinv D p'.
Proof.
  unfold parse_at_rule. intros H Hc. pinv_bind H. pif H; [discriminate|]. pinv_bind H.
  eapply at_rule_loop_c; [exact H|]. apply cinv_set_tok; [cinv_solve|].
  cbn [set_buf ptt pdata]. apply RT_lower. apply Hc.
Qed.

Lemma qualified_loop_c D : forall fuel F p (fst_it : bool) ia sk g p', qualified_loop fuel F p fst_it ia sk = POk (g, p') ->
  cinv D p -> cinv D p'.
Proof.
  induction fuel as [|fuel IH]; intros F p fst_it ia sk g p' H Hc; cbn [qualified_loop] in H; [discriminate|].
  pinv_bind H. destruct r as [[t d] p1]. cbn [fst snd] in H.
  assert (Hx : cinv D p1 /\ rep_tok D t d).
  { destruct fst_it.
    - apply POk_inj in E. assert (t = ptt p) by congruence. assert (d = pdata p) by congruence.
      assert (p1 = set_tok p TWhitespace []) by congruence. subst. split; [apply cinv_set_tok; [exact Hc|apply RT_empty]|apply Hc].
    - destruct (pop_token_cinv D _ _ _ _ _ _ E Hc) as (Hc1 & Ht & _). split; [exact Hc1|apply tok_res_rep; exact Ht]. }
  destruct Hx as (Hc1 & Hrep).
  pif H; [ret_inv H; cinv_solve|]. pif H; [ret_inv H; cinv_solve|]. pif H; [ret_inv H; cinv_solve|].
  eapply IH; [exact H|]. cinv_solve.
Qed.

Lemma decl_error_loop_c D : forall fuel F p t d g p', decl_error_loop fuel F p t d = POk (g, p') ->
  cinv D p -> rep_tok D t d -> cinv D p'.
Proof.
  induction fuel as [|fuel IH]; intros F p t d g p' H Hc Hrep; rewrite decl_error_loop_eq in H.
  - pif H; [|discriminate]. cbv zeta in H. ret_inv H. cinv_solve.
  - pif H; [cbv zeta in H; ret_inv H; cinv_solve|]. cbv zeta in H. pinv_bind H. destruct r as [[t2 d2] p2]. cbn [fst snd] in H.
    match type of E0 with pop_token _ _ ?q = _ => assert (Hcq : cinv D q) by cinv_solve end.
    destruct (pop_token_cinv D _ _ _ _ _ _ E0 Hcq) as (Hc2 & Ht2 & _).
    eapply IH; [exact H|exact Hc2|apply tok_res_rep; exact Ht2].
Qed.

Lemma parse_declaration_error_c D F p t d g p' : parse_declaration_error F p t d = POk (g, p') ->
  cinv D p -> rep_tok D t d -> cinv D p'.
Proof.
  unfold parse_declaration_error. intros H Hc Hrep. eapply decl_error_loop_c; [exact H| |exact Hrep].
  apply cinv_set_tok; assumption.
Qed.

Lemma drop_ws_ok D b : buf_ok D b -> buf_ok D (drop_ws b).
Proof. induction 1 as [|x b Hx Hb IH]; cbn [drop_ws]; [constructor|]. destruct (is_wstok x); [exact IH|constructor; assumption]. Qed.

Lemma compact_ok D : forall rest out, buf_ok D out -> buf_ok D rest -> buf_ok D (compact out rest).
Proof.
  assert (Hrev : forall l, buf_ok D l -> buf_ok D (rev l)).
  { intros l Hl. unfold buf_ok in *. rewrite Forall_forall in *. intros x Hx. apply Hl. apply in_rev. exact Hx. }
  assert (Hn : forall n rest out, (length rest <= n)%nat -> buf_ok D out -> buf_ok D rest -> buf_ok D (compact out rest)).
  { induction n as [|n IH]; intros rest out Hl Ho Hr.
    - destruct rest; [cbn [compact]; apply Hrev; exact Ho|cbn in Hl; lia].
    - destruct rest as [|t rest']; cbn [compact]; [apply Hrev; exact Ho|]. cbn [length] in Hl.
      inversion Hr as [|? ? Ht Hr']; subst.
      destruct (is_wstok t).
      + destruct (match out with last :: _ => punct last | [] => false end); [apply IH; [lia|assumption|assumption]|].
        destruct rest' as [|nxt rest''].
        * apply IH; [cbn; lia|constructor; assumption|constructor].
        * inversion Hr' as [|? ? Hnx Hr'']; subst. cbn [length] in Hl.
          destruct (punct nxt); [apply IH; [cbn [length]; lia|assumption|assumption]|].
          apply IH; [lia|constructor; [exact Hnx|constructor; assumption]|exact Hr''].
      + apply IH; [lia|constructor; assumption|exact Hr']. }
  intros rest out. apply (Hn (length rest)). lia.
Qed.

Lemma sel_compact_ok D : forall rest out ia, buf_ok D out -> buf_ok D rest -> buf_ok D (sel_compact out ia rest).
Proof.
  induction rest as [|t rest IH]; intros out ia Ho Hr; cbn [sel_compact].
  - unfold buf_ok in *. rewrite Forall_forall in *. intros x Hx. apply Ho. apply in_rev. exact Hx.
  - inversion Hr as [|? ? Ht Hr']; subst.
    destruct (is_wstok t && _); [apply IH; assumption|apply IH; [constructor; assumption|exact Hr']].
Qed.

Lemma declaration_loop_c D : forall fuel F p g p', declaration_loop fuel F p = POk (g, p') -> cinv D p -> cinv D p'.
Proof.
  induction fuel as [|fuel IH]; intros F p g p' H Hc; cbn [declaration_loop] in H; [discriminate|].
  pinv_bind H. destruct r as [[t d] p1]. cbn [fst snd] in H.
  destruct (pop_token_cinv D _ _ _ _ _ _ E Hc) as (Hc1 & Ht & _).
  pose proof (tok_res_rep _ _ _ Ht) as Hrep.
  assert (Herr : forall g p', parse_declaration_error F (set_err p1 true) t d = POk (g, p') -> cinv D p').
  { intros g0 p0 H0. eapply parse_declaration_error_c; [exact H0| |exact Hrep]. cinv_solve. }
  pif H.
  - destruct (pbuf p1) as [|b0 after] eqn:Eb; [discriminate|].
    assert (Hbo : buf_ok D after) by (destruct Hc1 as (_ & _ & Hb); rewrite Eb in Hb; inversion Hb; assumption).
    pose proof (drop_ws_ok D _ Hbo) as Hd.
    destruct (drop_ws after) as [|c vals]; [eapply Herr; exact H|].
    pif H; [|eapply Herr; exact H]. ret_inv H.
    inversion Hd as [|? ? Hcx Hvals]; subst.
    apply (cinv_fields D (set_tok (set_buf p1 (compact [] (drop_ws vals))) (ptt p1) (to_lower (pdata p1)))); try reflexivity.
    apply cinv_set_tok; [apply cinv_set_buf; [exact Hc1|]|apply RT_lower; apply Hc1].
    apply compact_ok; [constructor|apply drop_ws_ok; exact Hvals].
  - pif H; [ret_inv H; apply (cinv_fields D (set_tok (set_buf p1 (sel_compact [] false (pbuf p1))) TWhitespace [])); try reflexivity;
            apply cinv_set_tok; [apply cinv_set_buf; [exact Hc1|apply sel_compact_ok; [constructor|apply Hc1]]|apply RT_empty]|].
    pif H; [eapply Herr; exact H|].
    pinv_bind H. eapply IH; [exact H|]. cinv_solve.
Qed.

Lemma parse_declaration_c D F p g p' : parse_declaration F p = POk (g, p') -> cinv D p -> cinv D p'.
Proof.
  unfold parse_declaration. cbv zeta. intros H Hc. eapply declaration_loop_c; [exact H|].
  assert (Hc0 : cinv D (set_buf p [(ptt p, pdata p)])).
  { apply cinv_set_buf; [exact Hc|]. constructor; [apply Hc|constructor]. }
  destruct (is_t _ TLeftBracket); [|exact Hc0].
  eapply cinv_fields; [| | | |exact Hc0]; reflexivity.
Qed.

Lemma firstn_skipn_app {A} (L : list A) : forall x y, firstn x L ++ firstn y (skipn x L) = firstn (x + y) L.
Proof.
  induction L as [|h L IH]; intros x y.
  - rewrite skipn_nil, !firstn_nil. reflexivity.
  - destruct x as [|x]; [reflexivity|]. cbn [firstn skipn Nat.add app]. rewrite IH. reflexivity.
Qed.

Lemma slice_app {A} (l : list A) a m n : 0 <= a <= m -> m <= n -> slice l a m ++ slice l m n = slice l a n.
Proof.
  intros Ha Hm. unfold slice. replace (skipz m l) with (skipz (m - a) (skipz a l)) by (rewrite skipz_skipz by lia; f_equal; lia).
  unfold firstz. generalize (skipz a l). intros L. unfold skipz.
  rewrite firstn_skipn_app. f_equal. lia.
Qed.

Lemma slice_empty {A} (l : list A) a : slice l a a = [].
Proof. unfold slice. rewrite Z.sub_diag. reflexivity. Qed.

Lemma custom_loop_c D : forall fuel p val g p', custom_loop fuel p val = POk (g, p') -> cinv D p ->
  (exists a, 0 <= a <= lpos (pl p) /\ val = slice D a (lpos (pl p))) -> cinv D p'.
Proof.
  induction fuel as [|fuel IH]; intros p val g p' H Hc (a & Ha & Hval); cbn [custom_loop] in H; [discriminate|].
  pinv_bind H. destruct r as [[t d] p1]. cbn [fst snd] in H.
  destruct (lex_next_c D _ _ _ _ E ltac:(apply Hc)) as (Hp1 & Hr1 & Ht & Hd & Hpos).
  assert (Hc1 : cinv D p1) by (rewrite Hp1; split; [exact Hr1|split; apply Hc]).
  pif H.
  - ret_inv H. apply cinv_push_buf; [cinv_solve|]. apply RT_custom.
  - pif H; [ret_inv H; cinv_solve|].
    eapply IH; [exact H|cinv_solve|].
    exists a. assert (Hpl : pl (adjust_level p1 t) = pl p1).
    { unfold adjust_level. destruct (opens t); [reflexivity|]. destruct (closes t); reflexivity. }
    rewrite Hpl. split; [lia|]. rewrite Hval, Hd. apply slice_app; lia.
Qed.

Lemma parse_custom_property_c D F p g p' : parse_custom_property F p = POk (g, p') -> cinv D p -> cinv D p'.
Proof.
  unfold parse_custom_property. intros H Hc. pinv_bind H. destruct r as [[t d] p1]. cbn [fst snd] in H.
  assert (Hc0 : cinv D (set_buf p [])) by cinv_solve.
  destruct (pop_token_cinv D _ _ _ _ _ _ E Hc0) as (Hc1 & Ht & _).
  pif H; [ret_inv H; cinv_solve|].
  eapply custom_loop_c; [exact H|exact Hc1|].
  destruct (lex_reach_inv D _ ltac:(apply Hc1)) as (Hi & _). destruct (inv_data _ Hi) as (_ & _ & Hp).
  exists (lpos (pl p1)). split; [lia|]. symmetry. apply slice_empty.
Qed.

Lemma skip_semicolons_c D : forall fuel F p p', skip_semicolons fuel F p = POk p' -> cinv D p -> cinv D p'.
Proof.
  induction fuel as [|fuel IH]; intros F p p' H Hc; rewrite skip_semicolons_eq in H.
  - pif H; [discriminate|]. apply POk_inj in H. subst. exact Hc.
  - pif H; [|apply POk_inj in H; subst; exact Hc].
    pinv_bind H. destruct r as [[t d] p1]. cbn [fst snd] in H.
    destruct (pop_token_cinv D _ _ _ _ _ _ E0 Hc) as (Hc1 & Ht & _).
    eapply IH; [exact H|]. apply cinv_set_tok; [exact Hc1|apply tok_res_rep; exact Ht].
Qed.

Lemma parse_declaration_list_c D F p g p' : parse_declaration_list F p = POk (g, p') -> cinv D p -> cinv D p'.
Proof.
  unfold parse_declaration_list. intros H Hc.
  pinv_bind H. rename r into q1.
  assert (Hc1 : cinv D q1).
  { pif E.
    - pinv_bind E. destruct r as [[t d] p1]. cbn [fst snd] in E. apply POk_inj in E. subst q1.
      destruct (pop_token_cinv D _ _ _ _ _ _ E1 Hc) as (Hcp & Ht & _).
      apply cinv_set_tok; [exact Hcp|apply tok_res_rep; exact Ht].
    - apply POk_inj in E. subst. exact Hc. }
  pinv_bind H. rename r into q2. pose proof (skip_semicolons_c D _ _ _ _ E0 Hc1) as Hc2.
  pinv_bind H. rename r into q3.
  assert (Hc3 : cinv D q3).
  { pif E1; [|apply POk_inj in E1; subst; exact Hc2].
    pinv_bind E1. pif E1; [|apply POk_inj in E1; subst; exact Hc2].
    pinv_bind E1. destruct r0 as [[t d] p1]. cbn [fst snd] in E1. cbv zeta in E1.
    destruct (pop_token_cinv D _ _ _ _ _ _ E5 Hc2) as (Hcp & Ht & Htt & Hdd & _).
    pif E1; apply POk_inj in E1; subst q3; [|exact Hcp].
    apply cinv_set_tok; [exact Hcp|].
    destruct Ht as [(-> & _)|Hlex]; [discriminate E6|].
    apply RT_glued; [|exact Hlex]. rewrite Hdd. apply is_t_eq in E2. rewrite <- E2. apply Hc2. }
  cbv zeta in H.
  pif H; [ret_inv H; exact Hc3|].
  pif H; [eapply parse_at_rule_c; eassumption|].
  pif H; [eapply parse_declaration_c; eassumption|].
  pif H; [eapply parse_custom_property_c; eassumption|].
  pif H; [ret_inv H; apply cinv_push_buf; [cinv_solve|apply Hc3]|].
  eapply parse_declaration_error_c; [exact H|cinv_solve|apply Hc3].
Qed.

Lemma parse_qualified_rule_c D F p g p' : parse_qualified_rule F p = POk (g, p') -> cinv D p -> cinv D p'.
Proof. unfold parse_qualified_rule. intros H Hc. eapply qualified_loop_c; [exact H|]. cinv_solve. Qed.

Lemma pop_st_c D p p' : pop_st p = POk p' -> cinv D p -> cinv D p'.
Proof. unfold pop_st. intros H Hc. destruct (pst p); [discriminate|]. apply POk_inj in H. subst. cinv_solve. Qed.

Lemma parse_next_c D p g p' : parse_next p = POk (g, p') -> cinv D p -> cinv D p'.
Proof.
  unfold parse_next. cbv zeta. intros H Hc. pinv_bind H. rename r into p1.
  assert (Hc0 : cinv D (set_buf (set_err p false) [])) by cinv_solve.
  assert (Hc1 : cinv D p1).
  { pif E.
    - apply POk_inj in E. subst p1. apply (cinv_fields D (set_tok (set_buf (set_err p false) []) TRightBrace [125])); try reflexivity.
      apply cinv_set_tok; [exact Hc0|apply RT_brace].
    - pinv_bind E. destruct r as [[t d] q]. cbn [fst snd] in E. apply POk_inj in E. subst p1.
      destruct (pop_token_cinv D _ _ _ _ _ _ E1 Hc0) as (Hcq & Ht & _).
      apply cinv_set_tok; [exact Hcq|apply tok_res_rep; exact Ht]. }
  destruct (pst p1) as [|s rest]; [discriminate|]. destruct s.
  - unfold parse_stylesheet in H. pif H; [ret_inv H; exact Hc1|]. pif H; [eapply parse_at_rule_c; eassumption|].
    pif H; [ret_inv H; exact Hc1|]. pif H; [eapply parse_custom_property_c; eassumption|].
    pif H; [ret_inv H; exact Hc1|]. eapply parse_qualified_rule_c; eassumption.
  - eapply parse_declaration_list_c; eassumption.
  - unfold parse_at_rule_rule_list in H. pif H.
    + pinv_bind H. ret_inv H. eapply pop_st_c; eassumption.
    + pif H; [eapply parse_at_rule_c; eassumption|eapply parse_qualified_rule_c; eassumption].
  - unfold parse_at_rule_declaration_list in H. pinv_bind H. pose proof (skip_semicolons_c D _ _ _ _ E0 Hc1) as Hc2.
    cbv zeta in H. pif H.
    + pinv_bind H. ret_inv H. eapply pop_st_c; eassumption.
    + eapply parse_declaration_list_c; eassumption.
  - unfold parse_at_rule_unknown in H. cbv zeta in H. pif H.
    + pinv_bind H. ret_inv H. apply (cinv_fields D r); try reflexivity. eapply pop_st_c; [exact E1|]. cinv_solve.
    + ret_inv H. cinv_solve.
  - unfold parse_qualified_rule_declaration_list in H. pinv_bind H. pose proof (skip_semicolons_c D _ _ _ _ E0 Hc1) as Hc2.
    cbv zeta in H. pif H.
    + pinv_bind H. ret_inv H. eapply pop_st_c; eassumption.
    + eapply parse_declaration_list_c; eassumption.
Qed.

Lemma cinv_new d inline : cinv d (new_parser d inline).
Proof. split; [apply LR_init|]. split; [apply RT_err|constructor]. Qed.

(* what one call reports: the token of the unit (data) and Values() *)
Definition reported_ok (D : list Z) (p' : parser) : Prop :=
  rep_tok D (ptt p') (pdata p') /\ buf_ok D (pbuf p').

Lemma conservation_run D : forall n p tr, parse_run n p = POk tr -> cinv D p ->
  Forall (fun r => reported_ok D (snd r)) tr.
Proof.
  induction n as [|n IH]; intros p tr H Hc; cbn [parse_run] in H.
  - apply POk_inj in H. subst. constructor.
  - pinv_bind H. destruct r as [g p1]. cbn [snd] in H. pinv_bind H. apply POk_inj in H. subst tr.
    pose proof (parse_next_c D _ _ _ E Hc) as Hc1.
    constructor; [split; apply Hc1|]. eapply IH; eassumption.
Qed.

(* C08 (partial): on every input, in both modes and for every number of calls, every token reported through data
   or Values() is a token the lexer returns on the input (same type, same bytes), or one of the synthesised
   forms: a single space, the empty token of a ruleset, the '}' that ended the previous unit, ErrorToken/nil,
   a lower-cased copy, the IE-hack token ('*' glued to the following lexer token), or - for a custom
   property - a value that is an exact slice of the source text. *)
Lemma cssparse_conservation_proof : forall d inline n tr, parse_run n (new_parser d inline) = POk tr ->
  Forall (fun r => reported_ok d (snd r)) tr.
Proof. intros d inline n tr H. eapply conservation_run; [exact H|apply cinv_new]. Qed.

(* --- a token the lexer returns on D is one of the tokens of D ------------------------------------------------------ *)
Lemma css_lex_from_mono : forall f z ts, css_lex_from f z = LexDone ts -> css_lex_from (S f) z = LexDone ts.
Proof.
  induction f as [|f IH]; intros z ts H; [discriminate H|].
  change (css_lex_from (S (S f)) z) with
    (match css_next z with
     | None => LexPanic
     | Some (ty, b, z') => if is_err ty then LexDone [] else
         match css_lex_from (S f) z' with LexDone ts => LexDone ((ty, b) :: ts) | o => o end
     end).
  cbn [css_lex_from] in H. destruct (css_next z) as [[[ty b] z']|]; [|exact H].
  destruct (is_err ty); [exact H|].
  destruct (css_lex_from f z') as [ts'| |] eqn:E; try discriminate H. rewrite (IH _ _ E). exact H.
Qed.

Lemma css_lex_from_mono_le f g z ts : (f <= g)%nat -> css_lex_from f z = LexDone ts -> css_lex_from g z = LexDone ts.
Proof. intros Hle H. induction Hle; [exact H|]. apply css_lex_from_mono. exact IHHle. Qed.

Lemma lex_reach_suffix D z : lex_reach D z ->
  exists pre suf f, css_lex D = LexDone (pre ++ suf) /\ css_lex_from f z = LexDone suf.
Proof.
  induction 1 as [|z t b z' Hr (pre & suf & f & Hlex & Hf) Hn].
  - destruct (css_lex_done_proof D) as (toks & Ht & _). exists [], toks, (S (length D)). split; [exact Ht|exact Ht].
  - destruct f as [|f]; [discriminate Hf|]. cbn [css_lex_from] in Hf. rewrite Hn in Hf.
    destruct (is_err t) eqn:Et.
    + (* the end: the state does not change *)
      destruct (lex_reach_inv D z Hr) as (Hi & _). destruct t; try discriminate Et.
      destruct (css_eof_sticky_proof z Hi) as (_ & H2). destruct (H2 _ _ Hn) as (_ & _ & -> & _).
      exists pre, suf, (S f). split; [exact Hlex|]. cbn [css_lex_from]. rewrite Hn. exact Hf.
    + destruct (css_lex_from f z') as [ts| |] eqn:E; try discriminate Hf.
      assert (suf = (t, b) :: ts) by congruence. subst suf.
      exists (pre ++ [(t, b)]), ts, f. split; [rewrite <- app_assoc; exact Hlex|exact E].
Qed.

Lemma lexer_tok_in_lex D t b : lexer_tok D t b -> exists toks, css_lex D = LexDone toks /\ In (t, b) toks.
Proof.
  intros (z & z' & Hr & Hn & Hne). destruct (lex_reach_suffix D z Hr) as (pre & suf & f & Hlex & Hf).
  destruct f as [|f]; [discriminate Hf|]. cbn [css_lex_from] in Hf. rewrite Hn in Hf.
  assert (Et : is_err t = false) by (destruct t; try reflexivity; congruence). rewrite Et in Hf.
  destruct (css_lex_from f z') as [ts| |]; try discriminate Hf.
  assert (suf = (t, b) :: ts) by congruence. subst suf.
  exists (pre ++ (t, b) :: ts). split; [exact Hlex|]. apply in_or_app. right. left. reflexivity.
Qed.

Example conservation_example :
  exists tr, parse_run 3 (new_parser [97; 123; 66; 58; 49; 125] false) = POk tr /\
    map (fun r => (fst r, ptt (snd r), pdata (snd r), pbuf (snd r))) tr =
      [ (GBeginRuleset, TWhitespace, [], [(TIdent, [97])]);
        (GDeclaration, TIdent, [98], [(TNumber, [49])]);
        (GEndRuleset, TRightBrace, [125], []) ].
Proof. eexists. split; [vm_compute; reflexivity|reflexivity]. Qed.
