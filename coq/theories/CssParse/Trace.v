(* CssParse/Trace.v — driving Parser.Next: totality, the linear bound on the number of calls, the sticky
   end-of-input report, and the nesting of the Begin/End stream (C01, C08). *)
From Verif Require Import Common.Base Common.Tactics Common.Lx Css.Model Css.Basics Css.Bounds Css.Proofs.
From Verif Require Import CssParse.Model CssParse.Proofs.
From Coq Require Import ZifyBool.

(* n successive calls of Next, whatever they return (the caller goes on after parse errors and after the
   end-of-input report) *)
Fixpoint parse_run (n : nat) (p : parser) : pres (list (gtype * parser)) :=
  match n with
  | O => POk []
  | S k => r <-- parse_next p ;; rs <-- parse_run k (snd r) ;; POk (r :: rs)
  end.

Lemma pinv_new d inline : pinv (new_parser d inline).
Proof.
  split; [apply css_inv_init|]. unfold new_parser. cbn [pst stack_ok]. destruct inline; reflexivity.
Qed.

Lemma phi_pos p : pinv p -> 1 <= phi p.
Proof.
  intros (Hi & Hok). pose proof (rem_nonneg p Hi). unfold phi.
  destruct (pst p) as [|s r]; [discriminate Hok|]. rewrite len_cons. pose proof (len_nonneg r).
  destruct (prevend p); lia.
Qed.

(* C01: every call returns; the state stack is never empty; invariants kept *)
Lemma cssparse_total_proof : forall p, pinv p ->
  exists g p', parse_next p = POk (g, p') /\ pinv p' /\ pst p' <> [] /\ lbuf (pl p') = lbuf (pl p).
Proof.
  intros p H. destruct (parse_next_spec p H) as (g & p' & Hn & (Hi' & Hb & _)).
  exists g, p'. split; [exact Hn|]. split; [exact Hi'|]. split; [|exact Hb].
  destruct Hi' as (_ & Hok). destruct (pst p'); [discriminate Hok|discriminate].
Qed.

Lemma parse_run_total : forall n p, pinv p -> exists tr, parse_run n p = POk tr /\ length tr = n /\
  Forall (fun r => pinv (snd r)) tr.
Proof.
  induction n as [|n IH]; intros p H; cbn [parse_run]; [exists []; auto|].
  destruct (parse_next_spec p H) as (g & p' & Hn & (Hi' & _)). rewrite Hn. cbn [pbind snd].
  destruct (IH p' Hi') as (tr & -> & Hl & Hall). cbn [pbind]. eexists. split; [reflexivity|]. cbn [length].
  split; [lia|]. constructor; [exact Hi'|exact Hall].
Qed.

(* the end-of-input report as the caller sees it *)
Definition eof_report (g : gtype) (p' : parser) : Prop := g = GError /\ perr p' = false /\ perr_code p' = 1.

Lemma terminal_eof p g p' : pinv p -> next_post p g p' -> terminal p g p' -> eof_report g p'.
Proof.
  intros (Hi & _) (_ & Hb & _) (Hg & Hpe & Hr & Hpos & _). split; [exact Hg|]. split; [exact Hpe|].
  unfold perr_code. rewrite Hpe. unfold at_end. unfold rem in Hr. rewrite (lx_len_eq _ _ Hb).
  replace (lx_len (pl p) <=? lpos (pl p')) with true by lia. reflexivity.
Qed.

(* C01: the end-of-input report is reached within 2*len+1 calls, also when the caller goes on after errors *)
Lemma reach_terminal : forall m p, pinv p -> phi p <= Z.of_nat m + 1 ->
  exists k tr g p', (k <= m)%nat /\ parse_run (S k) p = POk (tr ++ [(g, p')]) /\ length tr = k /\
    eof_report g p' /\ pinv p' /\ phi p' = 1 /\ rem p' = 0 /\ prevend p' = false.
Proof.
  induction m as [|m IH]; intros p H Hphi; destruct (parse_next_spec p H) as (g & p' & Hn & Hpost);
    pose proof Hpost as (Hi' & Hb & Hsty & Hpos & Hor & _).
  - destruct Hor as [Hlt|Ht]; [pose proof (phi_pos p' Hi'); lia|].
    exists O, [], g, p'. split; [lia|]. cbn [parse_run app]. rewrite Hn. cbn [pbind]. split; [reflexivity|]. split; [reflexivity|].
    split; [exact (terminal_eof p g p' H Hpost Ht)|]. split; [exact Hi'|].
    destruct Ht as (_ & _ & Hr & Hp & _ & Hpe' & Hst & Hlen). unfold phi, rem in *. rewrite Hpe', Hst, Hlen.
    rewrite (lx_len_eq _ _ Hb). split; [lia|]. split; [lia|reflexivity].
  - destruct Hor as [Hlt|Ht].
    + destruct (IH p' Hi' ltac:(lia)) as (k & tr & g2 & p2 & Hk & Hrun & Hlen & Hrest).
      exists (S k), ((g, p') :: tr), g2, p2. split; [lia|]. split; [|split; [cbn [length]; lia|exact Hrest]].
      change (parse_run (S (S k)) p) with (r <-- parse_next p ;; rs <-- parse_run (S k) (snd r) ;; POk (r :: rs)).
      rewrite Hn. cbn [pbind snd]. rewrite Hrun. reflexivity.
    + exists O, [], g, p'. split; [lia|]. cbn [parse_run app]. rewrite Hn. cbn [pbind]. split; [reflexivity|]. split; [reflexivity|].
      split; [exact (terminal_eof p g p' H Hpost Ht)|]. split; [exact Hi'|].
      destruct Ht as (_ & _ & Hr & Hp & _ & Hpe' & Hst & Hlen). unfold phi, rem in *. rewrite Hpe', Hst, Hlen.
      rewrite (lx_len_eq _ _ Hb). split; [lia|]. split; [lia|reflexivity].
Qed.

Lemma phi_new d inline : phi (new_parser d inline) = 2 * len d + 1.
Proof.
  unfold phi, rem, new_parser. cbn [pl pst prevend]. destruct (lx_init_data d) as (_ & Hl). rewrite Hl.
  change (lpos (lx_init d)) with 0. rewrite len_cons. change (len (@nil pstate)) with 0. lia.
Qed.

Lemma cssparse_progress_proof : forall d inline,
  exists k tr g p', (k <= 2 * length d)%nat /\ parse_run (S k) (new_parser d inline) = POk (tr ++ [(g, p')]) /\
    length tr = k /\ eof_report g p'.
Proof.
  intros d inline. destruct (reach_terminal (2 * length d) (new_parser d inline) (pinv_new d inline)) as (k & tr & g & p' & Hk & Hrun & Hlen & Heof & _).
  - rewrite phi_new. unfold len. lia.
  - exists k, tr, g, p'. auto.
Qed.

(* once the end has been reported, every further call reports it again, from an unchanged position *)
Lemma cssparse_eof_sticky_proof : forall p, pinv p -> phi p = 1 ->
  exists p', parse_next p = POk (GError, p') /\ eof_report GError p' /\ pinv p' /\ phi p' = 1 /\
    lpos (pl p') = lpos (pl p) /\ pst p' = pst p.
Proof.
  intros p H Hphi. destruct (parse_next_spec p H) as (g & p' & Hn & Hpost).
  pose proof Hpost as (Hi' & Hb & _ & _ & Hor & _).
  destruct Hor as [Hlt|Ht]; [pose proof (phi_pos p' Hi'); lia|].
  pose proof (terminal_eof p g p' H Hpost Ht) as Heof.
  destruct Ht as (-> & _ & Hr & Hp & _ & Hpe' & Hst & Hlen).
  exists p'. split; [exact Hn|]. split; [exact Heof|]. split; [exact Hi'|].
  unfold phi, rem in *. rewrite Hpe', Hst, Hlen, Hp. rewrite (lx_len_eq _ _ Hb). repeat split; lia.
Qed.

(* --- nesting ---------------------------------------------------------------------------------------------------- *)
(* check a Begin/End stream against a stack of open unit kinds (true = at-rule, false = ruleset);
   None = an End without matching Begin *)
Fixpoint nest (stack : list bool) (evs : list gtype) : option (list bool) :=
  match evs with
  | [] => Some stack
  | g :: r =>
      match g with
      | GBeginAtRule => nest (true :: stack) r
      | GBeginRuleset => nest (false :: stack) r
      | GEndAtRule => match stack with true :: s => nest s r | _ => None end
      | GEndRuleset => match stack with false :: s => nest s r | _ => None end
      | _ => nest stack r
      end
  end.

(* the kinds of the open units of a state stack: everything above the bottom state *)
Definition kinds (st : list pstate) : list bool := map at_kind (removelast st).

Lemma kinds_push s st : st <> [] -> kinds (s :: st) = at_kind s :: kinds st.
Proof. intros H. unfold kinds. destruct st; [congruence|reflexivity]. Qed.

Lemma kinds_single st : len st = 1 -> kinds st = [].
Proof. destruct st as [|s [|s2 r]]; cbn; intros H; try reflexivity; lens; lia. Qed.

Lemma stack_ok_ne st : stack_ok st = true -> st <> [].
Proof. destruct st; [discriminate|discriminate]. Qed.

Lemma nest_step p g p' : pinv p -> next_post p g p' -> perr p' = false ->
  nest (kinds (pst p)) [g] = Some (kinds (pst p')) /\ (g = GError -> kinds (pst p) = []).
Proof.
  intros (_ & Hok) ((_ & Hok') & _ & _ & _ & _ & Hrel) Hpe. specialize (Hrel Hpe).
  pose proof (stack_ok_ne _ Hok) as Hne. pose proof (stack_ok_ne _ Hok') as Hne'.
  destruct g; cbn [stack_rel nest] in *; try (rewrite Hrel; split; [reflexivity|discriminate]).
  - destruct Hrel as (Hs & Hl). rewrite Hs. split; [reflexivity|]. intros _. apply kinds_single. exact Hl.
  - destruct Hrel as (s & -> & Hk). rewrite kinds_push by exact Hne. rewrite Hk. split; [reflexivity|discriminate].
  - destruct Hrel as (s & Hs & Hk). rewrite Hs. rewrite kinds_push by exact Hne'. rewrite Hk. split; [reflexivity|discriminate].
  - rewrite Hrel. rewrite kinds_push by exact Hne. split; [reflexivity|discriminate].
  - rewrite Hrel. rewrite kinds_push by exact Hne'. split; [reflexivity|discriminate].
Qed.

Lemma nest_app st a b : nest st (a ++ b) = match nest st a with Some st' => nest st' b | None => None end.
Proof.
  revert st. induction a as [|g a IH]; intros st; [reflexivity|]. cbn [app nest].
  destruct g; try apply IH; destruct st as [|[|] s]; try reflexivity; apply IH.
Qed.

Lemma nesting_run : forall n p tr, pinv p -> parse_run n p = POk tr -> Forall (fun r => perr (snd r) = false) tr ->
  exists stk, nest (kinds (pst p)) (map fst tr) = Some stk /\
    (forall tr1 g p' tr2, tr = tr1 ++ (g, p') :: tr2 -> g = GError -> nest (kinds (pst p)) (map fst tr1) = Some []).
Proof.
  induction n as [|n IH]; intros p tr H Hrun Hall; cbn [parse_run] in Hrun.
  - assert (tr = []) by congruence. subst tr. exists (kinds (pst p)). split; [reflexivity|].
    intros tr1 g p' tr2 E. destruct tr1; discriminate E.
  - destruct (parse_next_spec p H) as (g & p' & Hn & Hpost). rewrite Hn in Hrun. cbn [pbind snd] in Hrun.
    destruct (parse_run n p') as [tr'| |] eqn:Er; try discriminate. cbn [pbind] in Hrun.
    assert (tr = (g, p') :: tr') by congruence. subst tr. inversion Hall as [|x l Hpe Hall']; subst. cbn [snd] in Hpe.
    pose proof Hpost as (Hi' & _).
    destruct (nest_step p g p' H Hpost Hpe) as (Hstep & Hge).
    destruct (IH p' tr' Hi' Er Hall') as (stk & Hnest & Hclosed).
    exists stk. split.
    + change (map fst ((g, p') :: tr')) with ([g] ++ map fst tr'). rewrite nest_app, Hstep. exact Hnest.
    + intros tr1 g2 p2 tr2 E Hg2. destruct tr1 as [|x tr1]; cbn [app] in E.
      * assert (Eg : g = g2) by congruence. rewrite <- Eg in Hg2. cbn [map nest]. f_equal. apply Hge. exact Hg2.
      * assert (x = (g, p')) by congruence. subst x. assert (E' : tr' = tr1 ++ (g2, p2) :: tr2) by congruence.
        change (map fst ((g, p') :: tr1)) with ([g] ++ map fst tr1). rewrite nest_app, Hstep.
        eapply Hclosed; eassumption.
Qed.

(* C08: on every input and in both modes, while no parse error has been reported, the Begin/End stream is a
   prefix of a well-nested stream with matching kinds (an End always closes the innermost open unit of its
   kind; the depth never becomes negative), and at every end-of-input report (ErrorGrammar) all units are closed *)
Lemma cssparse_nesting_proof : forall d inline n tr, parse_run n (new_parser d inline) = POk tr ->
  Forall (fun r => perr (snd r) = false) tr ->
  (exists stk, nest [] (map fst tr) = Some stk) /\
  (forall tr1 g p' tr2, tr = tr1 ++ (g, p') :: tr2 -> g = GError -> nest [] (map fst tr1) = Some []).
Proof.
  intros d inline n tr Hrun Hall.
  destruct (nesting_run n _ tr (pinv_new d inline) Hrun Hall) as (stk & Hn & Hc).
  assert (Hk : kinds (pst (new_parser d inline)) = []) by (destruct inline; reflexivity).
  rewrite Hk in *. split; [eauto|exact Hc].
Qed.

(* "a{b{c:d}}" in a stylesheet: BeginRuleset BeginRuleset Declaration EndRuleset EndRuleset Error(EOF) *)
Example parse_run_example :
  exists tr, parse_run 6 (new_parser [97; 123; 98; 123; 99; 58; 100; 125; 125] false) = POk tr /\
    map fst tr = [GBeginRuleset; GBeginRuleset; GDeclaration; GEndRuleset; GEndRuleset; GError] /\
    Forall (fun r => perr (snd r) = false) tr /\ nest [] (map fst tr) = Some [].
Proof. eexists. split; [vm_compute; reflexivity|]. split; [reflexivity|]. split; [repeat constructor|reflexivity]. Qed.
