(* CssParse/Proofs.v — the CSS parser model: no panic, no fuel exhaustion, the state stack is never empty,
   every call makes progress (C01), and the Begin/End stream is well nested while no parse error is pending (C08). *)
From Verif Require Import Common.Base Common.Tactics Common.Lx Css.Model Css.Basics Css.Bounds Css.Proofs Css.Agree.
From Verif Require Import CssParse.Model CssParse.Hash Gen.Tables.
From Coq Require Import ZifyBool.


(* --- what the parser needs to know about one lexer step -------------------------------------------------- *)
Lemma consume_at_keyword_lb l n : consume_at_keyword l = Some n -> n = 0 \/ 2 <= n.
Proof.
  unfold consume_at_keyword. intros H. bind_inv H. destruct (0 <? x) eqn:Ex; some_inv H; [right; lia|left; reflexivity].
Qed.

Lemma css_scan_at_keyword l n : css_scan l = Some (TAtKeyword, n) -> 2 <= n.
Proof.
  unfold css_scan. intros H. bind_inv H. unfold or_delim, pos_tok in H.
  inv_all H; apply Some_inj in H;
  (match type of H with
   | (_, _) = (_, _) => apply pair_eq_inv in H; destruct H as [H H']; subst
   | ?x = (_, _) => subst x
   end);
  try discriminate; cbn [fst snd] in *;
  first [ match goal with E : consume_at_keyword _ = Some _ |- _ => apply consume_at_keyword_lb in E; lia end
        | match goal with E : consume_bracket _ = Some _ |- _ => unfold consume_bracket in E; inv_all E; some_inv E; discriminate end
        | match goal with E : consume_match _ = Some _ |- _ => unfold consume_match in E; inv_all E; some_inv E; discriminate end
        | match goal with E : consume_string _ = _ |- _ => apply consume_string_ty in E; destruct E; discriminate end
        | match goal with E : consume_numeric _ = Some (TAtKeyword, _) |- _ => apply consume_numeric_ty in E; destruct E as [?|[?|[?|?]]]; discriminate end
        | match goal with E : consume_identlike _ = Some (TAtKeyword, _) |- _ => apply consume_identlike_ty in E; destruct E as [[? ?]|[?|[?|[?|?]]]]; discriminate end ].
Qed.

Lemma css_next_step z : css_inv z ->
  (lpos z = lx_len z /\ css_next z = Some (TError, [], z)) \/
  (exists ty b z', css_next z = Some (ty, b, z') /\ is_err ty = false /\ css_inv z' /\ lbuf z' = lbuf z /\
     lpos z < lpos z' <= lx_len z /\ len b = lpos z' - lpos z /\ (ty = TAtKeyword -> 2 <= len b)).
Proof.
  intros H. destruct (css_next_spec z H) as [[E Hn]|[E (ty & n & Hs & Hty & Hn1 & Hn2 & Hn)]]; [left; auto|right].
  destruct (inv_data z H) as (_ & Hl & Hp).
  do 3 eexists. split; [exact Hn|]. split; [exact Hty|]. split; [apply inv_after; [exact H|lia|lia]|].
  cbn [lbuf lpos]. split; [reflexivity|]. split; [lia|].
  rewrite len_slice by lia. split; [lia|]. intros ->. apply css_scan_at_keyword in Hs. lia.
Qed.

(* --- parser invariants ---------------------------------------------------------------------------------------- *)
Definition rem (p : parser) : Z := lx_len (pl p) - lpos (pl p).
Definition linv (p : parser) : Prop := css_inv (pl p).

Definition at_kind (s : pstate) : bool :=
  match s with SAtRuleRuleList | SAtRuleDeclarationList | SAtRuleUnknown => true | _ => false end.
Definition pushed_kind (s : pstate) : bool := at_kind s || match s with SQualifiedRuleDeclarationList => true | _ => false end.
Definition bottom_kind (s : pstate) : bool := match s with SStylesheet | SDeclarationList => true | _ => false end.

(* the stack is a bottom state under the states pushed by Begin units *)
Fixpoint stack_ok (s : list pstate) : bool :=
  match s with
  | [] => false
  | [b] => bottom_kind b
  | x :: r => pushed_kind x && stack_ok r
  end.

Lemma rem_nonneg p : linv p -> 0 <= rem p.
Proof. intros H. destruct (inv_data _ H) as (_ & _ & Hp). unfold rem. lia. Qed.

(* token data facts the parse functions rely on: an at-keyword has at least two bytes, a delimiter one *)
Definition tokd (t : ttype) (d : list Z) : Prop := (t = TAtKeyword -> 2 <= len d) /\ (t = TDelim -> 1 <= len d).

(* p' is p with another lexer position and other prevWS / prevComment flags *)
Definition relex (p : parser) (z : lx) (ws cm : bool) : parser :=
  mkP z (pst p) (perr p) (pbuf p) (plevel p) (ptt p) (pdata p) (keepws p) ws (prevend p) cm (isstyle p).

Lemma lex_next_spec p : linv p ->
  exists t d z', lex_next p = POk (t, d, set_pl p z') /\ css_inv z' /\ lbuf z' = lbuf (pl p) /\
    lpos (pl p) <= lpos z' /\
    ((t = TError /\ z' = pl p /\ rem p = 0 /\ d = []) \/
     (is_err t = false /\ lpos (pl p) < lpos z' /\ 1 <= len d /\ (t = TAtKeyword -> 2 <= len d))).
Proof.
  intros H. unfold lex_next. destruct (css_next_step (pl p) H) as [[E Hn]|(ty & b & z' & Hn & Hty & Hi & Hb & Hp & Hl & Ha)]; rewrite Hn.
  - exists TError, [], (pl p). split; [reflexivity|]. split; [exact H|]. split; [reflexivity|]. split; [lia|].
    left. unfold rem. repeat split; lia.
  - exists ty, b, z'. split; [reflexivity|]. split; [exact Hi|]. split; [exact Hb|]. split; [lia|]. right.
    split; [exact Hty|]. split; [lia|]. split; [lia|exact Ha].
Qed.

Lemma is_t_eq a b : is_t a b = true <-> a = b.
Proof. unfold is_t, tt_eqb. split; [|intros ->; apply Z.eqb_refl]. intros H. destruct a, b; try reflexivity; cbn in H; discriminate. Qed.
Lemma is_t_neq a b : is_t a b = false <-> a <> b.
Proof. rewrite <- is_t_eq. destruct (is_t a b); split; congruence. Qed.

(* popToken: never panics, never runs out of fuel, consumes at least one byte unless the input is at its end *)
Definition tok_fact (z : lx) (t : ttype) (d : list Z) : Prop :=
  (t = TError /\ lx_len z - lpos z = 0 /\ d = []) \/ (is_err t = false /\ 1 <= len d /\ (t = TAtKeyword -> 2 <= len d)).

Lemma pop_loop_spec : forall fuel allow p t d, linv p -> (rem p < Z.of_nat fuel \/ t = TError) ->
  tok_fact (pl p) t d ->
  exists t' d' z' ws cm, pop_loop fuel allow p t d = POk (t', d', relex p z' ws cm) /\
    css_inv z' /\ lbuf z' = lbuf (pl p) /\ lpos (pl p) <= lpos z' /\ tok_fact z' t' d' /\
    (t' = TComment -> allow = true /\ len (pst p) = 1) /\
    (t' = TWhitespace -> keepws p = true) /\ (t = TError -> t' = TError).
Proof.
  induction fuel as [|fuel IH]; intros allow p t d Hi Hf Ht.
  - destruct Hf as [Hf|Hf]; [pose proof (rem_nonneg p Hi); lia|]. subst t.
    cbn [pop_loop]. change (is_t TError TWhitespace) with false. change (is_t TError TComment) with false. rewrite andb_false_r. cbn [orb].
    exists TError, d, (pl p), (prevws p), (prevcomment p). split; [destruct p; reflexivity|].
    split; [exact Hi|]. split; [reflexivity|]. split; [lia|]. split; [exact Ht|]. split; [intros; discriminate|]. split; [intros; discriminate|reflexivity].
  - cbn [pop_loop].
    destruct ((negb (keepws p) && is_t t TWhitespace) || is_t t TComment) eqn:Ec.
    + set (p1 := if is_t t TWhitespace then set_prevws p true else set_prevcomment p true).
      assert (Hp1 : exists ws cm, p1 = relex p (pl p) ws cm).
      { subst p1. destruct (is_t t TWhitespace); destruct p; do 2 eexists; reflexivity. }
      destruct Hp1 as (ws1 & cm1 & Hp1).
      destruct (is_t t TComment && allow && (len (pst p) =? 1)) eqn:Eb.
      * exists t, d, (pl p), ws1, cm1. rewrite Hp1. split; [reflexivity|]. split; [exact Hi|]. split; [reflexivity|].
        split; [lia|]. split; [exact Ht|].
        apply andb_true_iff in Eb. destruct Eb as [Eb E1]. apply andb_true_iff in Eb. destruct Eb as [Eb1 Eb2].
        split; [intros _; split; [exact Eb2|lia]|].
        split; [intros ->; apply is_t_eq in Eb1; discriminate|]. intros ->. cbn in Eb1. discriminate.
      * assert (Hne : t <> TError).
        { intros ->. cbn in Ec. rewrite andb_false_r in Ec. discriminate. }
        destruct Hf as [Hf|?]; [|congruence].
        assert (Hi1 : linv p1) by (rewrite Hp1; exact Hi).
        destruct (lex_next_spec p1 Hi1) as (t2 & d2 & z2 & Hn & Hz2 & Hb2 & Hp2 & Hc2). rewrite Hn. cbn [pbind fst snd].
        rewrite Hp1 in *. cbn [relex pl set_pl] in *.
        set (p2 := set_pl (relex p (pl p) ws1 cm1) z2) in *.
        assert (Hp2' : p2 = relex p z2 ws1 cm1) by reflexivity.
        destruct (IH allow p2 t2 d2) as (t' & d' & z' & ws & cm & Hl & Hz' & Hb' & Hp' & Hf' & Hc' & Hw' & _).
        -- rewrite Hp2'. exact Hz2.
        -- rewrite Hp2'. unfold rem in *. cbn [relex pl] in *.
           destruct Hc2 as [(-> & _)|(_ & Hlt & _)]; [right; reflexivity|left].
           assert (lx_len z2 = lx_len (pl p)) by (unfold lx_len; rewrite Hb2; reflexivity). lia.
        -- rewrite Hp2'. cbn [relex pl]. destruct Hc2 as [(-> & -> & Hr & ->)|(Hty & _ & Hd & Ha)].
           ++ left. unfold rem in Hr. cbn [relex pl] in Hr. auto.
           ++ right. auto.
        -- exists t', d', z', ws, cm. rewrite Hl. rewrite Hp2' in *. split; [reflexivity|].
           split; [exact Hz'|]. cbn [relex pl pst keepws] in *. split; [congruence|]. split; [lia|].
           split; [exact Hf'|]. split; [assumption|]. split; [assumption|]. intros ->. congruence.
    + exists t, d, (pl p), (prevws p), (prevcomment p).
      split; [destruct p; reflexivity|]. split; [exact Hi|]. split; [reflexivity|]. split; [lia|].
      split; [exact Ht|].
      apply orb_false_iff in Ec. destruct Ec as [Ec1 Ec2].
      split; [intros ->; cbn in Ec2; discriminate|]. split; [|auto].
      intros ->. cbn in Ec1. rewrite andb_true_r in Ec1. destruct (keepws p); [reflexivity|discriminate].
Qed.

Lemma pop_token_spec F allow p : linv p -> rem p < Z.of_nat F ->
  exists t d z' ws cm, pop_token F allow p = POk (t, d, relex p z' ws cm) /\
    css_inv z' /\ lbuf z' = lbuf (pl p) /\ lpos (pl p) <= lpos z' /\ tok_fact z' t d /\
    (t <> TError -> lpos (pl p) < lpos z') /\
    (t = TComment -> allow = true /\ len (pst p) = 1) /\
    (t = TWhitespace -> keepws p = true).
Proof.
  intros Hi Hf. unfold pop_token.
  set (p0 := set_prevcomment (set_prevws p false) false).
  assert (Hp0 : p0 = relex p (pl p) false false) by (destruct p; reflexivity).
  assert (Hi0 : linv p0) by (rewrite Hp0; exact Hi).
  destruct (lex_next_spec p0 Hi0) as (t1 & d1 & z1 & Hn & Hz1 & Hb1 & Hp1 & Hc1). rewrite Hn. cbn [pbind fst snd].
  rewrite Hp0 in *. cbn [relex pl set_pl] in *.
  set (p1 := set_pl (relex p (pl p) false false) z1).
  assert (Hp1' : p1 = relex p z1 false false) by reflexivity.
  assert (Hlen : lx_len z1 = lx_len (pl p)) by (unfold lx_len; rewrite Hb1; reflexivity).
  destruct (pop_loop_spec F allow p1 t1 d1) as (t' & d' & z' & ws & cm & Hl & Hz' & Hb' & Hp' & Hf' & Hc' & Hw' & He').
  - rewrite Hp1'. exact Hz1.
  - left. rewrite Hp1'. unfold rem in *. cbn [relex pl] in *. lia.
  - rewrite Hp1'. cbn [relex pl]. destruct Hc1 as [(-> & -> & Hr & ->)|(Hty & _ & Hd & Ha)].
    + left. unfold rem in Hr. cbn [relex pl] in Hr. auto.
    + right. auto.
  - exists t', d', z', ws, cm. rewrite Hl. rewrite Hp1' in *. cbn [relex pl pst keepws] in *.
    split; [reflexivity|]. split; [exact Hz'|]. split; [congruence|]. split; [lia|]. split; [exact Hf'|].
    split; [|split; assumption].
    intros Hne. destruct Hc1 as [(-> & _)|(_ & Hlt & _)]; [exfalso; apply Hne, He'; reflexivity|lia].
Qed.

(* --- what a call of a parse function may do ----------------------------------------------------------------------- *)
Definition frame (p p' : parser) : Prop :=
  linv p' /\ lbuf (pl p') = lbuf (pl p) /\ lpos (pl p) <= lpos (pl p') /\ isstyle p' = isstyle p.

Definition is_begin_end (g : gtype) : bool :=
  match g with GBeginAtRule | GBeginRuleset | GEndAtRule | GEndRuleset => true | _ => false end.

Definition outcomeT (T : parser -> Prop) (p : parser) (g : gtype) (p' : parser) : Prop :=
  frame p p' /\
  (prevend p' = true -> prevend p = true \/ lpos (pl p) < lpos (pl p')) /\
  (perr p' = perr p \/ perr p' = true) /\
  ( (pst p' = pst p /\ is_begin_end g = false /\
       (g = GError -> perr p' = true \/ T p'))
    \/ (g = GBeginAtRule /\ perr p' = perr p /\ exists s, pst p' = s :: pst p /\ at_kind s = true /\ lpos (pl p) < lpos (pl p'))
    \/ (g = GBeginRuleset /\ perr p' = perr p /\ pst p' = SQualifiedRuleDeclarationList :: pst p /\
          (lpos (pl p) < lpos (pl p') \/ ptt p = TLeftBrace))
    \/ (g = GEndAtRule /\ perr p' = perr p /\ exists s, pst p = s :: pst p' /\ at_kind s = true)
    \/ (g = GEndRuleset /\ perr p' = perr p /\ pst p = SQualifiedRuleDeclarationList :: pst p')
    \/ (g = GError /\ perr p' = true /\ exists s, pst p = s :: pst p' /\ pst p' <> []) ).

(* GError without a pending parse error only as the end-of-input report *)
Definition outcome (p : parser) : gtype -> parser -> Prop :=
  outcomeT (fun p' => lx_len (pl p') - lpos (pl p') = 0 /\ (ptt p = TError \/ ptt p = TComment \/ ptt p = TSemicolon)) p.
(* ... and never from the collecting loops *)
Definition outcomeS : parser -> gtype -> parser -> Prop := outcomeT (fun _ => False).

(* p2 is an intermediate state of a function entered at p: same control fields, lexer not behind *)
Definition same_ctl (p p2 : parser) : Prop :=
  pst p2 = pst p /\ prevend p2 = prevend p /\ isstyle p2 = isstyle p /\ perr p2 = perr p /\
  (ptt p2 = TLeftBrace -> ptt p = TLeftBrace \/ lpos (pl p) < lpos (pl p2)) /\
  lbuf (pl p2) = lbuf (pl p) /\ lpos (pl p) <= lpos (pl p2).

Lemma same_ctl_refl p : same_ctl p p.
Proof. unfold same_ctl. repeat split; auto; lia. Qed.

Lemma outcome_pre T p p2 g p' : same_ctl p p2 -> outcomeT T p2 g p' -> outcomeT T p g p'.
Proof.
  intros (Hst & Hpe & Hsty & Her & Hlb & Hb & Hpos) ((Hi & Hb' & Hpos' & Hsty') & Hpe' & Herr' & Hc).
  split; [split; [exact Hi|split; [congruence|split; [clear - Hpos Hpos'; lia|congruence]]]|].
  split; [intros H; destruct (Hpe' H) as [H'|H']; [left; congruence|right; clear - H' Hpos; lia]|].
  split; [destruct Herr' as [?|?]; [left; congruence|right; assumption]|].
  destruct Hc as [(Hs & Hg & He)|[(Hg & He & s & Hs & Hk & Hl)|[(Hg & He & Hs & Hl)|[(Hg & He & s & Hs & Hk)|[(Hg & He & Hs)|(Hg & He & s & Hs & Hn)]]]]].
  - left. split; [congruence|]. split; [exact Hg|]. exact He.
  - right; left. split; [exact Hg|]. split; [congruence|]. exists s. repeat split; try assumption; [congruence|clear - Hl Hpos; lia].
  - right; right; left. split; [exact Hg|]. split; [congruence|]. split; [congruence|].
    destruct Hl as [Hl|Hl]; [left; clear - Hl Hpos; lia|]. destruct (Hlb Hl) as [?|Hx]; [right; assumption|left; clear - Hx Hpos'; lia].
  - right; right; right; left. split; [exact Hg|]. split; [congruence|]. exists s. split; [congruence|exact Hk].
  - right; right; right; right; left. repeat split; try assumption; congruence.
  - right; right; right; right; right. split; [exact Hg|]. split; [exact He|]. exists s. split; [congruence|exact Hn].
Qed.

Lemma rem_relex p z ws cm : lbuf z = lbuf (pl p) -> rem (relex p z ws cm) = lx_len (pl p) - lpos z.
Proof. intros H. unfold rem, lx_len. cbn [relex pl]. rewrite H. reflexivity. Qed.

Lemma lx_len_eq z z' : lbuf z' = lbuf z -> lx_len z' = lx_len z.
Proof. intros H. unfold lx_len. rewrite H. reflexivity. Qed.

(* a token that is not the end of input and not skipped was read: the usual facts about the state after popToken *)
Ltac pop_tok allow H Hi HF :=
  let t := fresh "t" in let d := fresh "d" in let z1 := fresh "z" in let ws := fresh "ws" in let cm := fresh "cm" in
  let Hz := fresh "Hz" in let Hb := fresh "Hb" in let Hp := fresh "Hp" in let Hf := fresh "Hfact" in
  let Hlt := fresh "Hlt" in let Hc := fresh "Hcom" in let Hw := fresh "Hws" in
  destruct (pop_token_spec _ allow _ Hi HF) as (t & d & z1 & ws & cm & H & Hz & Hb & Hp & Hf & Hlt & Hc & Hw).

(* the control part of the state; the collecting loops only touch buf / level / prevWS in between *)
Definition ctl (p : parser) := (pl p, pst p, prevend p, ptt p, pdata p, isstyle p, perr p, keepws p).

Lemma ctl_push_buf p t d : ctl (push_buf p t d) = ctl p.
Proof. reflexivity. Qed.
Lemma ctl_set_buf p b : ctl (set_buf p b) = ctl p.
Proof. reflexivity. Qed.
Lemma ctl_set_prevws p b : ctl (set_prevws p b) = ctl p.
Proof. reflexivity. Qed.
Lemma ctl_set_level p n : ctl (set_level p n) = ctl p.
Proof. reflexivity. Qed.
Lemma ctl_adjust_level p t : ctl (adjust_level p t) = ctl p.
Proof. unfold adjust_level. destruct (opens t); [reflexivity|]. destruct (closes t); reflexivity. Qed.
Lemma ctl_if (b : bool) p q : ctl p = ctl q -> ctl (if b then p else q) = ctl q.
Proof. destruct b; auto. Qed.

Lemma ctl_proj a b : ctl a = ctl b ->
  pl a = pl b /\ pst a = pst b /\ prevend a = prevend b /\ isstyle a = isstyle b /\ perr a = perr b /\ ptt a = ptt b /\
  pdata a = pdata b /\ keepws a = keepws b.
Proof. unfold ctl. intros H. inversion H as [[H1 H2 H3 H4 H5 H6 H7 H8]]. repeat split; assumption. Qed.

Lemma ctl_same p z ws cm p2 : ctl p2 = ctl (relex p z ws cm) -> lbuf z = lbuf (pl p) -> lpos (pl p) <= lpos z ->
  same_ctl p p2 /\ pl p2 = z.
Proof.
  unfold ctl. cbn [relex pl pst prevend ptt pdata isstyle perr keepws]. intros H Hb Hp.
  inversion H as [[H1 H2 H3 H4 H5 H6 H7 H8]]. unfold same_ctl. rewrite H1. repeat split; try assumption; try congruence.
  intros Hx. left. congruence.
Qed.

Ltac ctl_solve :=
  repeat first [ rewrite ctl_push_buf | rewrite ctl_set_buf | rewrite ctl_set_prevws | rewrite ctl_set_level
               | rewrite ctl_adjust_level | reflexivity
               | match goal with |- ctl (if ?b then _ else _) = _ => destruct b end ].

Lemma frame_of p q z : pl q = z -> css_inv z -> lbuf z = lbuf (pl p) -> lpos (pl p) <= lpos z ->
  isstyle q = isstyle p -> frame p q.
Proof. intros H1 H2 H3 H4 H5. unfold frame, linv. rewrite H1. auto. Qed.

Lemma tok_fact_nonerr z t d : tok_fact z t d -> t <> TError -> 1 <= len d /\ (t = TAtKeyword -> 2 <= len d).
Proof. intros [(? & _)|(_ & H)] Hne; [congruence|exact H]. Qed.

Lemma ends_unit_error p : ends_unit p TError = true.
Proof. unfold ends_unit. rewrite orb_true_r. reflexivity. Qed.

Lemma outcome_plain T p g p' : frame p p' -> pst p' = pst p -> is_begin_end g = false ->
  (prevend p' = true -> prevend p = true \/ lpos (pl p) < lpos (pl p')) ->
  (perr p' = perr p \/ perr p' = true) ->
  (g = GError -> perr p' = true) -> outcomeT T p g p'.
Proof.
  intros Hf Hs Hg Hpe Her Hge. split; [exact Hf|]. split; [exact Hpe|]. split; [exact Her|].
  left. split; [exact Hs|]. split; [exact Hg|]. intros E. left. apply Hge. exact E.
Qed.

Lemma pop_st_if_gt1_cases p : pst (pop_st_if_gt1 p) = pst p \/ (exists s, pst p = s :: pst (pop_st_if_gt1 p) /\ pst (pop_st_if_gt1 p) <> []).
Proof.
  unfold pop_st_if_gt1. destruct (pst p) as [|s [|s2 r]] eqn:E; [left; exact E|left; exact E|].
  right. exists s. cbn [set_st pst]. split; [reflexivity|discriminate].
Qed.

Lemma pop_st_if_gt1_ctl p : pl (pop_st_if_gt1 p) = pl p /\ isstyle (pop_st_if_gt1 p) = isstyle p /\
  prevend (pop_st_if_gt1 p) = prevend p /\ perr (pop_st_if_gt1 p) = perr p.
Proof. unfold pop_st_if_gt1. destruct (pst p) as [|s [|s2 r]]; repeat split. Qed.

(* the "unexpected ending" return of parseAtRule / parseQualifiedRule *)
Lemma outcome_error_pop T p p1 t d : same_ctl p p1 -> linv p1 ->
  outcomeT T p GError (set_err (pop_st_if_gt1 (push_buf p1 t d)) true).
Proof.
  intros (Hst & Hpe & Hsty & Her & Hlb & Hb & Hpos) Hi.
  set (q := push_buf p1 t d). destruct (pop_st_if_gt1_ctl q) as (Hpl & His & Hpv & Hpr).
  assert (Hf : frame p (set_err (pop_st_if_gt1 q) true)).
  { unfold frame, linv. cbn [set_err pl isstyle]. rewrite Hpl, His. subst q. cbn [push_buf set_buf pl isstyle].
    split; [exact Hi|]. split; [exact Hb|]. split; [exact Hpos|exact Hsty]. }
  split; [exact Hf|]. split.
  { cbn [set_err prevend]. rewrite Hpv. subst q. cbn [push_buf set_buf prevend]. intros H. left. congruence. }
  split; [right; reflexivity|].
  destruct (pop_st_if_gt1_cases q) as [Hs|(s & Hs & Hn)].
  - left. cbn [set_err pst]. split; [rewrite Hs; subst q; cbn [push_buf set_buf pst]; exact Hst|].
    split; [reflexivity|]. intros _. left. reflexivity.
  - right; right; right; right; right. split; [reflexivity|]. split; [reflexivity|]. exists s.
    cbn [set_err pst]. split; [|exact Hn]. rewrite <- Hs. subst q. cbn [push_buf set_buf pst]. congruence.
Qed.

(* lia after dropping the boolean facts about token types / flags (zify would try to digest them: minutes) *)
Ltac blia :=
  repeat match goal with
  | H : is_t _ _ = _ |- _ => clear H
  | H : ends_unit _ _ = _ |- _ => clear H
  | H : andb _ _ = _ |- _ => clear H
  | H : orb _ _ = _ |- _ => clear H
  | H : negb _ = _ |- _ => clear H
  | H : prevend _ = _ |- _ => clear H
  | H : perr _ = _ |- _ => clear H
  | H : isstyle _ = _ |- _ => clear H
  | H : keepws _ = _ |- _ => clear H
  | H : stack_ok _ = _ |- _ => clear H
  | H : at_kind _ = _ |- _ => clear H
  | H : pushed_kind _ = _ |- _ => clear H
  | H : bottom_kind _ = _ |- _ => clear H
  | H : tok_fact _ _ _ |- _ => clear H
  | H : tokd _ _ |- _ => clear H
  | H : _ -> _ |- _ => clear H
  | H : pop_token _ _ _ = _ |- _ => clear H
  | H : ctl _ = ctl _ |- _ => clear H
  | H : _ \/ _ |- _ => clear H
  end; lia.

Lemma at_rule_loop_spec : forall fuel F p h first skipws, linv p -> rem p < Z.of_nat fuel -> rem p < Z.of_nat F ->
  exists g p', at_rule_loop fuel F p h first skipws = POk (g, p') /\ outcomeS p g p'.
Proof.
  induction fuel as [|fuel IH]; intros F p h first skipws Hi Hfu HF.
  { pose proof (rem_nonneg p Hi). blia. }
  cbn [at_rule_loop]. pop_tok false Hpop Hi HF. rewrite Hpop. cbn [pbind fst snd].
  set (p1 := relex p z ws cm) in *.
  destruct (ctl_same p z ws cm p1 eq_refl Hb Hp) as (Hsc1 & Hpl1).
  assert (Hi1 : linv p1) by exact Hz.
  destruct (is_t t TLeftBrace && (plevel p1 =? 0)) eqn:E1.
  { (* BeginAtRule *)
    apply andb_true_iff in E1. destruct E1 as [E1 _]. apply is_t_eq in E1. subst t.
    do 2 eexists. split; [reflexivity|].
    split; [apply (frame_of p _ z); [reflexivity|exact Hz|exact Hb|exact Hp|reflexivity]|].
    split; [cbn [push_st set_st prevend relex]; intros H; left; exact H|]. split; [left; reflexivity|].
    right; left. split; [reflexivity|]. split; [reflexivity|]. exists (at_state h). cbn [push_st set_st pst pl relex].
    split; [reflexivity|]. split; [|apply Hlt; discriminate].
    unfold at_state. destruct ((h =? css_hash_Font_Face) || (h =? css_hash_Page)); [reflexivity|].
    destruct ((h =? css_hash_Document) || _ || _ || _ || _); reflexivity. }
  destruct (ends_unit p1 t) eqn:E2.
  { do 2 eexists. split; [reflexivity|]. apply outcome_plain.
    - apply (frame_of p _ z); [reflexivity|exact Hz|exact Hb|exact Hp|reflexivity].
    - reflexivity.
    - reflexivity.
    - cbn [set_prevend prevend pl relex]. intros H. right. apply Hlt. intros ->. cbn in H. discriminate.
    - left. reflexivity.
    - discriminate. }
  assert (Hne : t <> TError) by (intros ->; rewrite ends_unit_error in E2; discriminate).
  destruct (closes t && (plevel p1 =? 0)) eqn:E3.
  { do 2 eexists. split; [reflexivity|]. apply outcome_error_pop; assumption. }
  (* collect the token and go on *)
  match goal with |- exists g p', at_rule_loop fuel F ?q h false ?sk = _ /\ _ => set (p2 := q); set (sk2 := sk) end.
  assert (Hc2 : ctl p2 = ctl p1) by (subst p2; ctl_solve).
  destruct (ctl_same p z ws cm p2 Hc2 Hb Hp) as (Hsc2 & Hpl2).
  assert (Hi2 : linv p2) by (unfold linv; rewrite Hpl2; exact Hz).
  assert (Hr2 : rem p2 < rem p).
  { unfold rem. rewrite Hpl2. rewrite (lx_len_eq _ _ Hb). specialize (Hlt Hne). blia. }
  destruct (IH F p2 h false sk2 Hi2 ltac:(blia) ltac:(blia)) as (g & p' & Hl & Ho).
  exists g, p'. split; [exact Hl|]. eapply outcome_pre; eassumption.
Qed.

Lemma index_byte_range l b i : index_byte l b = Some i -> 0 <= i < len l.
Proof.
  revert i. induction l as [|c t IH]; intros i H; cbn [index_byte] in H; [discriminate|].
  rewrite len_cons. destruct (c =? b); [some_inv H; pose proof (len_nonneg t); blia|].
  destruct (index_byte t b) as [j|]; [|discriminate]. some_inv H. specialize (IH j eq_refl). blia.
Qed.

Lemma len_to_lower b : len (to_lower b) = len b.
Proof. unfold to_lower, len. rewrite map_length. reflexivity. Qed.

Lemma parse_at_rule_spec F p : linv p -> rem p < Z.of_nat F -> 2 <= len (pdata p) ->
  exists g p', parse_at_rule F p = POk (g, p') /\ outcomeS p g p'.
Proof.
  intros Hi HF Hd. unfold parse_at_rule.
  set (name0 := to_lower (pdata (set_buf p []))). assert (Hl0 : len name0 = len (pdata p)) by apply len_to_lower.
  replace (0 <? len name0) with true by blia.
  destruct (peekz_in_range name0 1) as (c1 & Hc1); [blia|]. rewrite Hc1. cbn [of_opt pbind].
  assert (Hname : exists name, (if c1 =? 45 then match index_byte (skipz 2 name0) 45 with
                                                   | Some i => POk (skipz (i + 2) name0) | None => POk name0 end
                                else POk name0) = POk name /\ 1 <= len name).
  { destruct (c1 =? 45); [|exists name0; split; [reflexivity|blia]].
    destruct (index_byte (skipz 2 name0) 45) as [i|] eqn:Ei; [|exists name0; split; [reflexivity|blia]].
    apply index_byte_range in Ei. rewrite len_skipz in Ei by blia.
    eexists; split; [reflexivity|]. rewrite len_skipz by blia. blia. }
  destruct Hname as (name & -> & Hn). cbn [pbind]. replace (len name <? 1) with false by blia.
  destruct (to_hash_total (skipz 1 name)) as (h & ->). cbn [of_opt pbind].
  set (p1 := set_tok (set_buf p []) (ptt (set_buf p [])) name0).
  destruct (at_rule_loop_spec F F p1 h true false) as (g & p' & Hl & Ho); [exact Hi|exact HF|exact HF|].
  exists g, p'. split; [exact Hl|]. eapply outcome_pre; [|exact Ho].
  unfold same_ctl. subst p1. cbn [set_tok set_buf pst prevend isstyle perr pl ptt]. repeat split; auto; blia.
Qed.

Lemma qualified_loop_spec : forall fuel F p (fst_it : bool) inattr skipws, linv p ->
  rem p + (if fst_it then 1 else 0) < Z.of_nat fuel -> rem p < Z.of_nat F ->
  (fst_it = false -> ptt p <> TLeftBrace) ->
  exists g p', qualified_loop fuel F p fst_it inattr skipws = POk (g, p') /\ outcomeS p g p'.
Proof.
  induction fuel as [|fuel IH]; intros F p fst_it inattr skipws Hi Hfu HF Hnlb.
  { pose proof (rem_nonneg p Hi). destruct fst_it; blia. }
  cbn [qualified_loop].
  assert (Htok : exists t d p1, (if fst_it then POk (ptt p, pdata p, set_tok p TWhitespace []) else pop_token F false p) = POk (t, d, p1) /\
            pst p1 = pst p /\ prevend p1 = prevend p /\ isstyle p1 = isstyle p /\ perr p1 = perr p /\
            lbuf (pl p1) = lbuf (pl p) /\ lpos (pl p) <= lpos (pl p1) /\ linv p1 /\ ptt p1 <> TLeftBrace /\
            (if fst_it then t = ptt p else t <> TError -> lpos (pl p) < lpos (pl p1))).
  { destruct fst_it.
    - do 3 eexists. split; [reflexivity|]. cbn [set_tok pst prevend isstyle perr pl ptt].
      split; [reflexivity|]. split; [reflexivity|]. split; [reflexivity|]. split; [reflexivity|]. split; [reflexivity|].
      split; [blia|]. split; [exact Hi|]. split; [discriminate|reflexivity].
    - pop_tok false Hpop Hi HF. rewrite Hpop. do 3 eexists. split; [reflexivity|]. cbn [relex pst prevend isstyle perr pl ptt].
      split; [reflexivity|]. split; [reflexivity|]. split; [reflexivity|]. split; [reflexivity|]. split; [exact Hb|].
      split; [exact Hp|]. split; [exact Hz|]. split; [apply Hnlb; reflexivity|exact Hlt]. }
  destruct Htok as (t & d & p1 & -> & Hst & Hpe & Hsty & Her & Hb & Hpos & Hi1 & Hn1 & Hadv). cbn [pbind fst snd].
  assert (Hsc1 : same_ctl p p1).
  { unfold same_ctl. repeat split; try assumption. intros Hx. congruence. }
  destruct (is_t t TLeftBrace && (plevel p1 =? 0)) eqn:E1.
  { apply andb_true_iff in E1. destruct E1 as [E1 _]. apply is_t_eq in E1. subst t.
    do 2 eexists. split; [reflexivity|].
    split; [unfold frame, linv; cbn [push_st set_st pl isstyle]; auto|].
    split; [cbn [push_st set_st prevend]; intros H; left; congruence|]. split; [left; exact Her|].
    right; right; left. split; [reflexivity|]. split; [exact Her|]. cbn [push_st set_st pst pl]. split; [congruence|].
    destruct fst_it; [right; congruence|left; apply Hadv; discriminate]. }
  destruct (is_t t TError) eqn:E2.
  { do 2 eexists. split; [reflexivity|]. apply outcome_plain.
    - unfold frame, linv. cbn [set_err pl isstyle]. auto.
    - exact Hst.
    - reflexivity.
    - cbn [set_err prevend]. intros H. left. congruence.
    - right. reflexivity.
    - reflexivity. }
  apply is_t_neq in E2.
  destruct (closes t && (plevel p1 =? 0)) eqn:E3.
  { do 2 eexists. split; [reflexivity|]. apply outcome_error_pop; assumption. }
  match goal with |- exists g p', qualified_loop fuel F ?q false ?ia ?sk = _ /\ _ => set (p2 := q); set (ia2 := ia); set (sk2 := sk) end.
  assert (Hc2 : ctl p2 = ctl p1) by (subst p2; ctl_solve).
  clearbody p2 ia2 sk2.
  assert (Hpl2 : pl p2 = pl p1 /\ pst p2 = pst p1 /\ prevend p2 = prevend p1 /\ isstyle p2 = isstyle p1 /\ perr p2 = perr p1 /\ ptt p2 = ptt p1).
  { destruct (ctl_proj _ _ Hc2) as (? & ? & ? & ? & ? & ? & _). repeat split; assumption. }
  destruct Hpl2 as (Hpl2 & Hst2 & Hpe2 & Hsty2 & Her2 & Htt2).
  assert (Hi2 : linv p2) by (unfold linv; rewrite Hpl2; exact Hi1).
  assert (Hr2 : rem p2 + 0 < Z.of_nat fuel).
  { unfold rem in *. rewrite Hpl2. rewrite (lx_len_eq _ _ Hb). destruct fst_it; [blia|]. specialize (Hadv E2). blia. }
  destruct (IH F p2 false ia2 sk2 Hi2 Hr2) as (g & p' & Hl & Ho).
  - unfold rem in *. rewrite Hpl2. rewrite (lx_len_eq _ _ Hb). blia.
  - intros _. congruence.
  - exists g, p'. split; [exact Hl|]. eapply outcome_pre; [|exact Ho].
    unfold same_ctl. rewrite Hpl2, Hst2, Hpe2, Hsty2, Her2, Htt2. repeat split; try assumption; try congruence.
Qed.

Lemma parse_qualified_rule_spec F p : linv p -> rem p + 1 < Z.of_nat F ->
  exists g p', parse_qualified_rule F p = POk (g, p') /\ outcomeS p g p'.
Proof.
  intros Hi HF. unfold parse_qualified_rule.
  destruct (qualified_loop_spec F F (set_buf p []) true false true) as (g & p' & Hl & Ho);
    [exact Hi|exact HF|unfold rem in *; cbn [set_buf pl]; blia|discriminate|].
  exists g, p'. split; [exact Hl|]. eapply outcome_pre; [|exact Ho].
  unfold same_ctl. cbn [set_buf pst prevend isstyle perr pl ptt]. repeat split; auto; blia.
Qed.

Lemma outcomeT_weaken (T T' : parser -> Prop) p g p' : (forall q, T q -> T' q) -> outcomeT T p g p' -> outcomeT T' p g p'.
Proof.
  intros HT (Hf & Hpe & Her & Hc). split; [exact Hf|]. split; [exact Hpe|]. split; [exact Her|].
  destruct Hc as [(Hs & Hg & He)|Hc]; [|right; exact Hc].
  left. split; [exact Hs|]. split; [exact Hg|]. intros E. destruct (He E) as [?|?]; [left; assumption|right; auto].
Qed.

Lemma outcomeS_any T p g p' : outcomeS p g p' -> outcomeT T p g p'.
Proof. apply outcomeT_weaken. intros q []. Qed.

Lemma ttype_eq_dec : forall a b : ttype, {a = b} + {a <> b}.
Proof. decide equality. Defined.

(* --- parseDeclarationError ------------------------------------------------------------------------------------------ *)
Lemma decl_error_loop_eq fuel F p t d : decl_error_loop fuel F p t d =
  if ends_unit p t then
    let p := set_prevend p (is_t t TRightBrace) in POk (GError, if is_t t TSemicolon then push_buf p t d else p)
  else match fuel with
       | O => PFuel
       | S f =>
           let p := adjust_level p t in
           let p := if prevws p then push_buf p TWhitespace [32] else p in
           let p := push_buf p t d in
           r <-- pop_token F false p ;; decl_error_loop f F (snd r) (fst (fst r)) (snd (fst r))
       end.
Proof. destruct fuel; reflexivity. Qed.

Lemma decl_error_loop_spec : forall fuel F p t d, linv p -> (rem p < Z.of_nat fuel \/ t = TError) -> rem p < Z.of_nat F ->
  exists p', decl_error_loop fuel F p t d = POk (GError, p') /\ frame p p' /\ pst p' = pst p /\ perr p' = perr p /\
    (prevend p' = true -> t = TRightBrace \/ lpos (pl p) < lpos (pl p')).
Proof.
  induction fuel as [|fuel IH]; intros F p t d Hi Hfu HF; rewrite decl_error_loop_eq.
  - destruct Hfu as [Hfu|Hfu]; [pose proof (rem_nonneg p Hi); blia|]. subst t. rewrite ends_unit_error. cbv zeta.
    change (is_t TError TSemicolon) with false. cbv beta iota.
    eexists. split; [reflexivity|]. cbn [set_prevend pst perr prevend pl isstyle].
    split; [apply (frame_of p _ (pl p)); [reflexivity|exact Hi|reflexivity|blia|reflexivity]|].
    split; [reflexivity|]. split; [reflexivity|]. discriminate.
  - destruct (ends_unit p t) eqn:E.
    + cbv zeta. eexists. split; [reflexivity|].
      assert (Hx : forall q, pl q = pl p -> isstyle q = isstyle p -> frame p q).
      { intros q H1 H2. apply (frame_of p q (pl p)); [exact H1|exact Hi|reflexivity|blia|exact H2]. }
      destruct (is_t t TSemicolon); cbn [push_buf set_buf set_prevend pst perr prevend pl isstyle];
        (split; [apply Hx; reflexivity|]); (split; [reflexivity|]); (split; [reflexivity|]); intros H; left; apply is_t_eq; exact H.
    + assert (Hne : t <> TError) by (intros ->; rewrite ends_unit_error in E; discriminate).
      destruct Hfu as [Hfu|?]; [|congruence]. cbv zeta.
      match goal with |- context [pop_token F false ?q] => set (p2 := q) end.
      assert (Hc2 : ctl p2 = ctl p) by (subst p2; ctl_solve). clearbody p2.
      destruct (ctl_proj _ _ Hc2) as (Hpl2 & Hst2 & Hpe2 & Hsty2 & Her2 & _).
      assert (Hi2 : linv p2) by (unfold linv; rewrite Hpl2; exact Hi).
      assert (HF2 : rem p2 < Z.of_nat F) by (unfold rem in *; rewrite Hpl2; exact HF).
      pop_tok false Hpop Hi2 HF2. rewrite Hpop. cbn [pbind fst snd].
      set (p3 := relex p2 z ws cm) in *.
      destruct (IH F p3 t0 d0) as (p' & Hl & (Hi' & Hb' & Hp' & Hs') & Hst' & Her' & Hpe').
      * exact Hz.
      * destruct (ttype_eq_dec t0 TError) as [->|Hn0]; [right; reflexivity|left].
        unfold rem, p3. cbn [relex pl]. rewrite (lx_len_eq _ _ Hb). rewrite Hpl2 in *. specialize (Hlt Hn0). unfold rem in Hfu. blia.
      * unfold rem, p3. cbn [relex pl]. rewrite (lx_len_eq _ _ Hb). rewrite Hpl2 in *. unfold rem in HF. blia.
      * exists p'. split; [exact Hl|]. subst p3. cbn [relex pl pst perr isstyle] in *. rewrite Hpl2 in *.
        split; [unfold frame; split; [exact Hi'|split; [congruence|split; [blia|congruence]]]|].
        split; [congruence|]. split; [congruence|]. intros H. right.
        destruct (Hpe' H) as [->|Hx]; [specialize (Hlt ltac:(discriminate)); blia|blia].
Qed.

(* the error return of parseDeclaration *)
Lemma decl_error_outcome F p p1 t d : same_ctl p p1 -> linv p1 -> rem p1 < Z.of_nat F ->
  (t <> TError -> lpos (pl p) < lpos (pl p1)) ->
  exists g p', parse_declaration_error F (set_err p1 true) t d = POk (g, p') /\ outcomeS p g p'.
Proof.
  intros (Hst & Hpe & Hsty & Her & Hlb & Hb & Hpos) Hi1 HF Hadv. unfold parse_declaration_error.
  set (q := set_tok (set_err p1 true) t d).
  destruct (decl_error_loop_spec F F q t d) as (p' & Hl & (Hi' & Hb' & Hp' & Hs') & Hst' & Her' & Hpe').
  - exact Hi1.
  - left. exact HF.
  - exact HF.
  - exists GError, p'. split; [exact Hl|]. subst q. cbn [set_tok set_err pl pst perr isstyle] in *.
    apply outcome_plain.
    + unfold frame. split; [exact Hi'|]. split; [congruence|]. split; [blia|congruence].
    + congruence.
    + reflexivity.
    + intros H. right. destruct (Hpe' H) as [->|Hx]; [specialize (Hadv ltac:(discriminate)); blia|blia].
    + right. exact Her'.
    + intros _. exact Her'.
Qed.

Lemma declaration_loop_spec : forall fuel F p, linv p -> pbuf p <> [] -> rem p < Z.of_nat fuel -> rem p < Z.of_nat F ->
  exists g p', declaration_loop fuel F p = POk (g, p') /\ outcomeS p g p'.
Proof.
  induction fuel as [|fuel IH]; intros F p Hi Hbuf Hfu HF.
  { pose proof (rem_nonneg p Hi). blia. }
  cbn [declaration_loop]. pop_tok false Hpop Hi HF. rewrite Hpop. cbn [pbind fst snd].
  set (p1 := relex p z ws cm) in *.
  destruct (ctl_same p z ws cm p1 eq_refl Hb Hp) as (Hsc1 & Hpl1).
  assert (Hi1 : linv p1) by exact Hz.
  assert (Hr1 : rem p1 <= rem p) by (unfold rem, p1; cbn [relex pl]; rewrite (lx_len_eq _ _ Hb); blia).
  assert (Hadv : t <> TError -> lpos (pl p) < lpos (pl p1)) by exact Hlt.
  assert (Hbuf1 : pbuf p1 = pbuf p) by reflexivity.
  destruct (ends_unit p1 t) eqn:E1.
  { rewrite Hbuf1. destruct (pbuf p) as [|b0 after] eqn:Eb; [congruence|].
    assert (Herrcase : exists g p', parse_declaration_error F (set_err p1 true) t d = POk (g, p') /\ outcomeS p g p').
    { apply decl_error_outcome; try assumption. blia. }
    destruct (drop_ws after) as [|c vals]; [exact Herrcase|].
    destruct (is_t (fst c) TColon); [|exact Herrcase].
    do 2 eexists. split; [reflexivity|]. apply outcome_plain.
    - apply (frame_of p _ z); [reflexivity|exact Hz|exact Hb|exact Hp|reflexivity].
    - reflexivity.
    - reflexivity.
    - cbn [set_prevend prevend pl set_tok set_buf relex]. intros H. right. apply Hlt. intros ->. cbn in H. discriminate.
    - left. reflexivity.
    - discriminate. }
  assert (Hne : t <> TError) by (intros ->; rewrite ends_unit_error in E1; discriminate).
  destruct (is_t t TLeftBrace && (plevel p1 =? 0) && isstyle p1) eqn:E2.
  { do 2 eexists. split; [reflexivity|].
    split; [apply (frame_of p _ z); [reflexivity|exact Hz|exact Hb|exact Hp|reflexivity]|].
    split; [cbn [push_st set_st set_tok prevend relex]; intros H; left; exact H|]. split; [left; reflexivity|].
    right; right; left. split; [reflexivity|]. split; [reflexivity|]. cbn [push_st set_st set_tok pst pl relex].
    split; [reflexivity|]. left. apply Hlt. exact Hne. }
  destruct (closes t && (plevel p1 =? 0)) eqn:E3.
  { apply decl_error_outcome; try assumption. blia. }
  assert (Hlast : exists x, (match rev (pbuf (adjust_level p1 t)) with x :: _ => Some x | [] => None end) = Some x).
  { assert (Hb' : pbuf (adjust_level p1 t) = pbuf p).
    { unfold adjust_level. destruct (opens t); [reflexivity|]. destruct (closes t); reflexivity. }
    rewrite Hb'. destruct (rev (pbuf p)) as [|x r] eqn:Er; [|eauto].
    apply (f_equal (@rev tok)) in Er. rewrite rev_involutive in Er. cbn in Er. congruence. }
  destruct Hlast as (lastt & ->). cbn [of_opt pbind].
  match goal with |- exists g p', declaration_loop fuel F ?q = _ /\ _ => set (p2 := q) end.
  assert (Hc2 : ctl p2 = ctl p1) by (subst p2; ctl_solve).
  assert (Hbuf2 : pbuf p2 <> []).
  { subst p2. unfold push_buf at 1. cbn [set_buf pbuf]. intros Hx. apply app_eq_nil in Hx. destruct Hx; discriminate. }
  clearbody p2.
  destruct (ctl_same p z ws cm p2 Hc2 Hb Hp) as (Hsc2 & Hpl2).
  assert (Hi2 : linv p2) by (unfold linv; rewrite Hpl2; exact Hz).
  assert (Hr2 : rem p2 < rem p).
  { unfold rem. rewrite Hpl2. rewrite (lx_len_eq _ _ Hb). specialize (Hlt Hne). blia. }
  destruct (IH F p2 Hi2 Hbuf2 ltac:(blia) ltac:(blia)) as (g & p' & Hl & Ho).
  exists g, p'. split; [exact Hl|]. eapply outcome_pre; eassumption.
Qed.

Lemma parse_declaration_spec F p : linv p -> rem p < Z.of_nat F ->
  exists g p', parse_declaration F p = POk (g, p') /\ outcomeS p g p'.
Proof.
  intros Hi HF. unfold parse_declaration. cbv zeta.
  set (q0 := set_buf p [(ptt p, pdata p)]).
  set (q := if is_t (ptt q0) TLeftBracket then set_level q0 (plevel q0 + 1) else q0).
  assert (Hq : pl q = pl p /\ pst q = pst p /\ prevend q = prevend p /\ isstyle q = isstyle p /\ perr q = perr p /\
               ptt q = ptt p /\ pbuf q = [(ptt p, pdata p)]).
  { subst q. destruct (is_t (ptt q0) TLeftBracket); repeat split. }
  destruct Hq as (Hpl & Hst & Hpe & Hsty & Her & Htt & Hbuf). clearbody q. clear q0.
  destruct (declaration_loop_spec F F q) as (g & p' & Hl & Ho).
  - unfold linv. rewrite Hpl. exact Hi.
  - rewrite Hbuf. discriminate.
  - unfold rem in *. rewrite Hpl. exact HF.
  - unfold rem in *. rewrite Hpl. exact HF.
  - exists g, p'. split; [exact Hl|]. eapply outcome_pre; [|exact Ho].
    unfold same_ctl. rewrite Hpl, Hst, Hpe, Hsty, Her, Htt. repeat split; auto. lia.
Qed.

(* --- parseCustomProperty ---------------------------------------------------------------------------------------------- *)
Lemma custom_loop_spec : forall fuel p val, linv p -> rem p < Z.of_nat fuel ->
  exists g p', custom_loop fuel p val = POk (g, p') /\ outcomeS p g p'.
Proof.
  induction fuel as [|fuel IH]; intros p val Hi Hfu.
  { pose proof (rem_nonneg p Hi). blia. }
  cbn [custom_loop].
  destruct (lex_next_spec p Hi) as (t & d & z & Hn & Hz & Hb & Hp & Hc). rewrite Hn. cbn [pbind fst snd].
  set (p1 := set_pl p z).
  assert (Hadv : t <> TError -> lpos (pl p) < lpos z).
  { intros Hne. destruct Hc as [(? & _)|(_ & Hlt & _)]; [congruence|exact Hlt]. }
  destruct (ends_unit p1 t) eqn:E1.
  { do 2 eexists. split; [reflexivity|]. apply outcome_plain.
    - apply (frame_of p _ z); [reflexivity|exact Hz|exact Hb|exact Hp|reflexivity].
    - reflexivity.
    - reflexivity.
    - cbn [push_buf set_buf set_prevend prevend pl set_pl]. intros H. right. apply Hadv. intros ->. cbn in H. discriminate.
    - left. reflexivity.
    - discriminate. }
  assert (Hne : t <> TError) by (intros ->; rewrite ends_unit_error in E1; discriminate).
  destruct (closes t && (plevel p1 =? 0)) eqn:E2.
  { do 2 eexists. split; [reflexivity|]. apply outcome_plain.
    - apply (frame_of p _ z); [reflexivity|exact Hz|exact Hb|exact Hp|reflexivity].
    - reflexivity.
    - reflexivity.
    - cbn [push_buf set_buf set_err prevend set_pl]. intros H. left. exact H.
    - right. reflexivity.
    - reflexivity. }
  set (p2 := adjust_level p1 t).
  assert (Hc2 : ctl p2 = ctl p1) by (subst p2; ctl_solve). clearbody p2.
  destruct (ctl_proj _ _ Hc2) as (Hpl2 & Hst2 & Hpe2 & Hsty2 & Her2 & Htt2 & _).
  subst p1. cbn [set_pl pl pst prevend isstyle perr ptt] in *.
  assert (Hi2 : linv p2) by (unfold linv; rewrite Hpl2; exact Hz).
  assert (Hr2 : rem p2 < Z.of_nat fuel).
  { unfold rem in *. rewrite Hpl2. rewrite (lx_len_eq _ _ Hb). specialize (Hadv Hne). blia. }
  destruct (IH p2 (val ++ d) Hi2 Hr2) as (g & p' & Hl & Ho).
  exists g, p'. split; [exact Hl|]. eapply outcome_pre; [|exact Ho].
  unfold same_ctl. rewrite Hpl2, Hst2, Hpe2, Hsty2, Her2, Htt2. repeat split; auto.
Qed.

Lemma parse_custom_property_spec F p : linv p -> rem p < Z.of_nat F ->
  exists g p', parse_custom_property F p = POk (g, p') /\ outcomeS p g p'.
Proof.
  intros Hi HF. unfold parse_custom_property.
  assert (Hi0 : linv (set_buf p [])) by exact Hi.
  assert (HF0 : rem (set_buf p []) < Z.of_nat F) by exact HF.
  pop_tok false Hpop Hi0 HF0. rewrite Hpop. cbn [pbind fst snd].
  set (p1 := relex (set_buf p []) z ws cm) in *.
  assert (Hsc : same_ctl p p1).
  { unfold same_ctl, p1. cbn [relex set_buf pst prevend isstyle perr pl ptt]. repeat split; auto. }
  destruct (negb (is_t t TColon)).
  - do 2 eexists. split; [reflexivity|]. apply outcome_plain.
    + apply (frame_of p _ z); [reflexivity|exact Hz|exact Hb|exact Hp|reflexivity].
    + reflexivity.
    + reflexivity.
    + cbn [set_err prevend relex set_buf]. intros H. left. exact H.
    + right. reflexivity.
    + reflexivity.
  - destruct (custom_loop_spec F p1 [] Hz) as (g & p' & Hl & Ho).
    + unfold rem, p1. cbn [relex pl]. rewrite (lx_len_eq _ _ Hb). unfold rem in HF0. cbn [set_buf pl] in *. blia.
    + exists g, p'. split; [exact Hl|]. eapply outcome_pre; eassumption.
Qed.

(* --- the state functions ------------------------------------------------------------------------------------------------- *)
Lemma tok_fact_tokd z t d : tok_fact z t d -> tokd t d.
Proof.
  intros [(-> & _)|(He & Hl & Ha)]; split; try discriminate; try assumption. intros _. exact Hl.
Qed.

(* q is p with the lexer possibly further and possibly another current token; nothing else changed *)
Definition fr2 (p q : parser) : Prop :=
  linv q /\ pst q = pst p /\ prevend q = prevend p /\ isstyle q = isstyle p /\ perr q = perr p /\ keepws q = keepws p /\
  lbuf (pl q) = lbuf (pl p) /\ lpos (pl p) <= lpos (pl q).

Lemma fr2_refl p : linv p -> fr2 p p.
Proof. intros H. unfold fr2. split; [exact H|]. repeat split; try reflexivity; blia. Qed.

Lemma fr2_trans p q r : fr2 p q -> fr2 q r -> fr2 p r.
Proof.
  intros (_ & H1 & H2 & H3 & H4 & H5 & H6 & H7) (Hi & G1 & G2 & G3 & G4 & G5 & G6 & G7).
  unfold fr2. split; [exact Hi|]. repeat split; try congruence; blia.
Qed.

(* where the current token of q comes from: it is still p's, or it was popped after a comment / semicolons *)
Definition prov (p q : parser) : Prop :=
  (ptt q = ptt p /\ pdata q = pdata p /\ lpos (pl q) = lpos (pl p)) \/
  (tok_fact (pl q) (ptt q) (pdata q) /\ ptt q <> TComment /\ (ptt q <> TError -> lpos (pl p) < lpos (pl q)) /\
   (ptt p = TComment \/ ptt p = TSemicolon)).

Lemma fr2_pop F q : linv q -> rem q < Z.of_nat F ->
  exists t d z ws cm, pop_token F false q = POk (t, d, relex q z ws cm) /\
    fr2 q (set_tok (relex q z ws cm) t d) /\ fr2 q (relex q z ws cm) /\ tok_fact z t d /\ t <> TComment /\
    (t <> TError -> lpos (pl q) < lpos z).
Proof.
  intros Hi HF. pop_tok false Hpop Hi HF. exists t, d, z, ws, cm. split; [exact Hpop|].
  assert (Hnc : t <> TComment) by (intros ->; destruct (Hcom eq_refl); discriminate).
  split; [|split; [|split; [exact Hfact|split; [exact Hnc|exact Hlt]]]];
    unfold fr2; cbn [set_tok relex pl pst prevend isstyle perr keepws]; (split; [exact Hz|]); repeat split; assumption.
Qed.

Lemma skip_semicolons_eq fuel F p : skip_semicolons fuel F p =
  if is_t (ptt p) TSemicolon then
    match fuel with
    | O => PFuel
    | S f => r <-- pop_token F false p ;; skip_semicolons f F (set_tok (snd r) (fst (fst r)) (snd (fst r)))
    end
  else POk p.
Proof. destruct fuel; reflexivity. Qed.

Lemma skip_semicolons_spec : forall fuel F p, linv p -> (rem p < Z.of_nat fuel \/ ptt p <> TSemicolon) -> rem p < Z.of_nat F ->
  exists p', skip_semicolons fuel F p = POk p' /\ fr2 p p' /\ ptt p' <> TSemicolon /\
    (p' = p \/ (ptt p = TSemicolon /\ tok_fact (pl p') (ptt p') (pdata p') /\ ptt p' <> TComment /\
                (ptt p' <> TError -> lpos (pl p) < lpos (pl p')))).
Proof.
  induction fuel as [|fuel IH]; intros F p Hi Hfu HF; rewrite skip_semicolons_eq.
  - destruct (is_t (ptt p) TSemicolon) eqn:E.
    + apply is_t_eq in E. destruct Hfu as [Hfu|Hfu]; [pose proof (rem_nonneg p Hi); blia|congruence].
    + apply is_t_neq in E. exists p. split; [reflexivity|]. split; [apply fr2_refl; exact Hi|]. split; [exact E|left; reflexivity].
  - destruct (is_t (ptt p) TSemicolon) eqn:E.
    + apply is_t_eq in E.
      destruct (fr2_pop F p Hi HF) as (t & d & z & ws & cm & Hpop & Hf2 & _ & Hfact & Hnc & Hlt).
      rewrite Hpop. cbn [pbind fst snd].
      set (q := set_tok (relex p z ws cm) t d) in *.
      assert (Hiq : linv q) by apply Hf2.
      assert (Hlb : lbuf (pl q) = lbuf (pl p)) by apply Hf2.
      destruct (IH F q Hiq) as (p' & Hl & Hf' & Hns & Hc).
      * destruct (ttype_eq_dec t TError) as [->|Hne]; [right; subst q; cbn; discriminate|left].
        unfold rem. rewrite (lx_len_eq _ _ Hlb). subst q. cbn [set_tok relex pl] in *. specialize (Hlt Hne).
        destruct Hfu as [Hfu|Hfu]; [unfold rem in Hfu; blia|congruence].
      * unfold rem. rewrite (lx_len_eq _ _ Hlb). subst q. cbn [set_tok relex pl] in *.
        destruct Hf2 as (_ & _ & _ & _ & _ & _ & _ & Hpos). cbn [set_tok relex pl] in Hpos. unfold rem in HF. blia.
      * exists p'. split; [exact Hl|]. split; [eapply fr2_trans; eassumption|]. split; [exact Hns|]. right.
        split; [exact E|]. destruct Hc as [->|(_ & Hfact' & Hnc' & Hlt')].
        -- subst q. cbn [set_tok relex pl ptt pdata]. split; [exact Hfact|]. split; [exact Hnc|exact Hlt].
        -- split; [exact Hfact'|]. split; [exact Hnc'|]. intros Hne. specialize (Hlt' Hne).
           destruct Hf2 as (_ & _ & _ & _ & _ & _ & _ & Hpos). blia.
    + apply is_t_neq in E. exists p. split; [reflexivity|]. split; [apply fr2_refl; exact Hi|]. split; [exact E|left; reflexivity].
Qed.

Lemma fr2_frame p q : fr2 p q -> frame p q.
Proof. intros (Hi & _ & _ & Hs & _ & _ & Hb & Hp). unfold frame. auto. Qed.

Lemma fr2_rem p q : fr2 p q -> rem q <= rem p.
Proof. intros (_ & _ & _ & _ & _ & _ & Hb & Hp). unfold rem. rewrite (lx_len_eq _ _ Hb). blia. Qed.

Lemma fr2_same_ctl p q : fr2 p q -> (ptt q = TLeftBrace -> ptt p = TLeftBrace \/ lpos (pl p) < lpos (pl q)) -> same_ctl p q.
Proof. intros (_ & H1 & H2 & H3 & H4 & _ & H6 & H7) Hlb. unfold same_ctl. repeat split; assumption. Qed.

Lemma parse_declaration_list_spec F p : linv p -> rem p + 1 < Z.of_nat F -> tokd (ptt p) (pdata p) ->
  (ptt p = TError -> rem p = 0) ->
  exists g p', parse_declaration_list F p = POk (g, p') /\ outcome p g p'.
Proof.
  intros Hi HF Htk Herr0. unfold parse_declaration_list.
  (* a leading comment *)
  assert (HA : exists q1, (if is_t (ptt p) TComment
                           then r <-- pop_token F false p;; POk (set_tok (snd r) (fst (fst r)) (snd (fst r)))
                           else POk p) = POk q1 /\ fr2 p q1 /\ prov p q1).
  { destruct (is_t (ptt p) TComment) eqn:E.
    - apply is_t_eq in E. destruct (fr2_pop F p Hi ltac:(blia)) as (t & d & z & ws & cm & Hpop & Hf2 & _ & Hfact & Hnc & Hlt).
      rewrite Hpop. cbn [pbind fst snd]. eexists. split; [reflexivity|]. split; [exact Hf2|].
      right. cbn [set_tok relex pl ptt pdata]. auto.
    - exists p. split; [reflexivity|]. split; [apply fr2_refl; exact Hi|]. left. auto. }
  destruct HA as (q1 & -> & Hf1 & Hpv1). cbn [pbind].
  (* semicolons *)
  pose proof (fr2_rem _ _ Hf1) as Hr1.
  destruct (skip_semicolons_spec F F q1 ltac:(apply Hf1) ltac:(left; blia) ltac:(blia)) as (q2 & -> & Hf12 & Hns2 & Hc2).
  cbn [pbind].
  pose proof (fr2_trans _ _ _ Hf1 Hf12) as Hf2. pose proof (fr2_rem _ _ Hf2) as Hr2.
  assert (Hpv2 : prov p q2).
  { destruct Hc2 as [->|(Hsemi & Hfact & Hnc & Hlt)]; [exact Hpv1|]. right.
    split; [exact Hfact|]. split; [exact Hnc|]. split.
    - intros Hne. specialize (Hlt Hne). destruct Hf1 as (_ & _ & _ & _ & _ & _ & _ & Hp1). blia.
    - destruct Hpv1 as [(Ht & _)|(_ & _ & _ & Hor)]; [right; congruence|exact Hor]. }
  assert (Htk2 : tokd (ptt q2) (pdata q2)).
  { destruct Hpv2 as [(Ht & Hd & _)|(Hfact & _)]; [rewrite Ht, Hd; exact Htk|eapply tok_fact_tokd; exact Hfact]. }
  assert (Hi2 : linv q2) by apply Hf2.
  (* the IE hack *)
  assert (HC : exists q3, (if is_t (ptt q2) TDelim
                           then c0 <-- of_opt (peekz (pdata q2) 0);;
                                (if c0 =? 42
                                 then r <-- pop_token F false q2;;
                                      (let t := fst (fst r) in let d := snd (fst r) in let p' := snd r in
                                       if negb (is_t t TError) then POk (set_tok p' t (pdata p' ++ d)) else POk p')
                                 else POk q2)
                           else POk q2) = POk q3 /\ fr2 p q3 /\ tokd (ptt q3) (pdata q3) /\
             (ptt q3 = TLeftBrace -> ptt p = TLeftBrace \/ lpos (pl p) < lpos (pl q3)) /\
             (ptt q3 = TError -> lx_len (pl q3) - lpos (pl q3) = 0 /\ (ptt p = TError \/ ptt p = TComment \/ ptt p = TSemicolon))).
  { assert (Hsame : fr2 p q2 /\ tokd (ptt q2) (pdata q2) /\
             (ptt q2 = TLeftBrace -> ptt p = TLeftBrace \/ lpos (pl p) < lpos (pl q2)) /\
             (ptt q2 = TError -> lx_len (pl q2) - lpos (pl q2) = 0 /\ (ptt p = TError \/ ptt p = TComment \/ ptt p = TSemicolon))).
    { split; [exact Hf2|]. split; [exact Htk2|]. split.
      - intros Hx. destruct Hpv2 as [(Ht & _)|(_ & _ & Hl & _)]; [left; congruence|right; apply Hl; rewrite Hx; discriminate].
      - intros Hx. destruct Hpv2 as [(Ht & _ & Hpos)|(Hfact & _ & _ & Hor)].
        + assert (ptt p = TError) by congruence. split; [|auto]. specialize (Herr0 H). unfold rem in Herr0.
          destruct Hf2 as (_ & _ & _ & _ & _ & _ & Hb & _). rewrite (lx_len_eq _ _ Hb). blia.
        + split; [|right; exact Hor]. destruct Hfact as [(_ & Hr & _)|(He & _)]; [exact Hr|rewrite Hx in He; discriminate]. }
    destruct (is_t (ptt q2) TDelim) eqn:Ed; [|exists q2; split; [reflexivity|exact Hsame]].
    apply is_t_eq in Ed. destruct Htk2 as (_ & Hd1). specialize (Hd1 Ed).
    destruct (peekz_in_range (pdata q2) 0) as (c0 & ->); [blia|]. cbn [of_opt pbind].
    destruct (c0 =? 42); [|exists q2; split; [reflexivity|exact Hsame]].
    destruct (fr2_pop F q2 Hi2 ltac:(blia)) as (t & d & z & ws & cm & Hpop & Hfa & Hfb & Hfact & Hnc & Hlt).
    rewrite Hpop. cbn [pbind fst snd]. cbv zeta.
    destruct (is_t t TError) eqn:Et; cbn [negb].
    - (* the '*' stays a delimiter *)
      eexists. split; [reflexivity|]. split; [eapply fr2_trans; eassumption|]. cbn [relex ptt pdata].
      split; [split; [intros Hx; congruence|intros _; exact Hd1]|]. rewrite Ed.
      split; discriminate.
    - apply is_t_neq in Et. eexists. split; [reflexivity|].
      assert (Hfa' : fr2 q2 (set_tok (relex q2 z ws cm) t (pdata (relex q2 z ws cm) ++ d))) by exact Hfa.
      split; [eapply fr2_trans; eassumption|]. cbn [set_tok relex ptt pdata pl].
      destruct (tok_fact_nonerr _ _ _ Hfact Et) as (Hl1 & Hl2).
      split; [split; intros Hx; rewrite len_app; pose proof (len_nonneg (pdata q2)); [specialize (Hl2 Hx)|]; blia|].
      split; [intros _; right; specialize (Hlt Et); destruct Hf2 as (_ & _ & _ & _ & _ & _ & _ & Hp2); blia|].
      congruence. }
  destruct HC as (q3 & HC & Hf3 & Htk3 & Hlb3 & Herr3). cbv zeta in HC. rewrite HC. clear HC. cbn [pbind]. cbv zeta.
  pose proof (fr2_rem _ _ Hf3) as Hr3. assert (Hi3 : linv q3) by apply Hf3.
  pose proof (fr2_same_ctl _ _ Hf3 Hlb3) as Hsc3.
  destruct (is_t (ptt q3) TError) eqn:E1.
  { apply is_t_eq in E1. do 2 eexists. split; [reflexivity|].
    split; [apply fr2_frame; exact Hf3|].
    destruct Hf3 as (_ & Hst & Hpe & Hsty & Her & _).
    split; [intros H; left; congruence|]. split; [left; exact Her|].
    left. split; [exact Hst|]. split; [reflexivity|]. intros _. right. apply Herr3. exact E1. }
  destruct (is_t (ptt q3) TAtKeyword) eqn:E2.
  { apply is_t_eq in E2. destruct Htk3 as (Ha & _).
    destruct (parse_at_rule_spec F q3 Hi3 ltac:(blia) (Ha E2)) as (g & p' & Hl & Ho).
    exists g, p'. split; [exact Hl|]. eapply outcome_pre; [exact Hsc3|]. apply outcomeS_any. exact Ho. }
  destruct (is_t (ptt q3) TIdent || is_t (ptt q3) TDelim
            || (isstyle q3 && (is_t (ptt q3) THash || is_t (ptt q3) TColon || is_t (ptt q3) TLeftBracket))) eqn:E3.
  { destruct (parse_declaration_spec F q3 Hi3 ltac:(blia)) as (g & p' & Hl & Ho).
    exists g, p'. split; [exact Hl|]. eapply outcome_pre; [exact Hsc3|]. apply outcomeS_any. exact Ho. }
  destruct (is_t (ptt q3) TCustomPropertyName) eqn:E4.
  { destruct (parse_custom_property_spec F q3 Hi3 ltac:(blia)) as (g & p' & Hl & Ho).
    exists g, p'. split; [exact Hl|]. eapply outcome_pre; [exact Hsc3|]. apply outcomeS_any. exact Ho. }
  (* a parse error *)
  set (q4 := set_err (set_buf q3 []) true).
  assert (Hsc4 : pl q4 = pl q3 /\ pst q4 = pst q3 /\ prevend q4 = prevend q3 /\ isstyle q4 = isstyle q3 /\ perr q4 = true) by (repeat split).
  destruct Hsc4 as (Hpl4 & Hst4 & Hpe4 & Hsty4 & Her4).
  destruct Hf3 as (_ & Hst & Hpe & Hsty & Her & _ & Hb3 & Hp3).
  destruct (is_t (ptt q3) TRightBrace) eqn:E5.
  { do 2 eexists. split; [reflexivity|]. apply outcome_plain.
    - apply (frame_of p _ (pl q3)); [reflexivity|exact Hi3|exact Hb3|exact Hp3|exact Hsty].
    - exact Hst.
    - reflexivity.
    - intros H. left. cbn [push_buf set_buf set_err prevend] in H. congruence.
    - right. reflexivity.
    - reflexivity. }
  apply is_t_neq in E5. unfold parse_declaration_error.
  destruct (decl_error_loop_spec F F (set_tok q4 (ptt q3) (pdata q4)) (ptt q3) (pdata q4)) as (p' & Hl & (Hi' & Hb' & Hp' & Hs') & Hst' & Her' & Hpe').
  - exact Hi3.
  - left. unfold rem in *. cbn [set_tok pl]. rewrite Hpl4. blia.
  - unfold rem in *. cbn [set_tok pl]. rewrite Hpl4. blia.
  - exists GError, p'. split; [exact Hl|]. cbn [set_tok pl pst perr isstyle] in *. rewrite Hpl4 in *.
    apply outcome_plain.
    + unfold frame. split; [exact Hi'|]. split; [congruence|]. split; [blia|congruence].
    + congruence.
    + reflexivity.
    + intros H. right. destruct (Hpe' H) as [Hx|Hx]; [congruence|blia].
    + right. congruence.
    + intros _. congruence.
Qed.

Lemma outcome_conv (T T' : parser -> Prop) p q g p' : same_ctl p q -> (forall x, T x -> T' x) ->
  outcomeT T q g p' -> outcomeT T' p g p'.
Proof. intros Hs HT Ho. eapply outcome_pre; [exact Hs|]. eapply outcomeT_weaken; eassumption. Qed.

Definition entry_ok (p : parser) : Prop :=
  linv p /\ tokd (ptt p) (pdata p) /\ (ptt p = TError -> rem p = 0).

Lemma parse_stylesheet_spec F p : entry_ok p -> rem p + 1 < Z.of_nat F ->
  exists g p', parse_stylesheet F p = POk (g, p') /\ outcome p g p'.
Proof.
  intros (Hi & (Ha & _) & Herr0) HF. unfold parse_stylesheet.
  assert (Hplain : forall g, is_begin_end g = false -> (g = GError -> ptt p = TError) -> outcome p g p).
  { intros g Hg He. split; [apply fr2_frame, fr2_refl; exact Hi|]. split; [auto|]. split; [auto|].
    left. split; [reflexivity|]. split; [exact Hg|]. intros E. right. specialize (He E). split; [|auto].
    specialize (Herr0 He). unfold rem in Herr0. exact Herr0. }
  destruct (is_t (ptt p) TCDO || is_t (ptt p) TCDC). { do 2 eexists. split; [reflexivity|]. apply Hplain; [reflexivity|discriminate]. }
  destruct (is_t (ptt p) TAtKeyword) eqn:E1.
  { apply is_t_eq in E1. destruct (parse_at_rule_spec F p Hi ltac:(blia) (Ha E1)) as (g & p' & Hl & Ho).
    exists g, p'. split; [exact Hl|]. apply outcomeS_any. exact Ho. }
  destruct (is_t (ptt p) TComment). { do 2 eexists. split; [reflexivity|]. apply Hplain; [reflexivity|discriminate]. }
  destruct (is_t (ptt p) TCustomPropertyName).
  { destruct (parse_custom_property_spec F p Hi ltac:(blia)) as (g & p' & Hl & Ho).
    exists g, p'. split; [exact Hl|]. apply outcomeS_any. exact Ho. }
  destruct (is_t (ptt p) TError) eqn:E2.
  { apply is_t_eq in E2. do 2 eexists. split; [reflexivity|]. apply Hplain; [reflexivity|auto]. }
  destruct (parse_qualified_rule_spec F p Hi HF) as (g & p' & Hl & Ho).
  exists g, p'. split; [exact Hl|]. apply outcomeS_any. exact Ho.
Qed.

(* the end of a block: the state pops itself *)
Lemma outcome_pop p s rest g : linv p -> pst p = s :: rest ->
  (g = GEndAtRule /\ at_kind s = true \/ g = GEndRuleset /\ s = SQualifiedRuleDeclarationList) ->
  forall kw, outcomeS p g (set_keepws (set_st p rest) kw).
Proof.
  intros Hi Hs Hg kw.
  split; [apply (frame_of p _ (pl p)); [reflexivity|exact Hi|reflexivity|blia|reflexivity]|].
  split; [intros H; left; exact H|]. split; [left; reflexivity|].
  destruct Hg as [(-> & Hk)|(-> & ->)].
  - right; right; right; left. split; [reflexivity|]. split; [reflexivity|]. exists s. cbn [set_keepws set_st pst]. auto.
  - right; right; right; right; left. split; [reflexivity|]. split; [reflexivity|]. cbn [set_keepws set_st pst]. exact Hs.
Qed.

Lemma set_keepws_id p : set_keepws p (keepws p) = p.
Proof. destruct p; reflexivity. Qed.

Lemma parse_at_rule_rule_list_spec F p rest : entry_ok p -> rem p + 1 < Z.of_nat F -> pst p = SAtRuleRuleList :: rest ->
  exists g p', parse_at_rule_rule_list F p = POk (g, p') /\ outcomeS p g p'.
Proof.
  intros (Hi & (Ha & _) & _) HF Hs. unfold parse_at_rule_rule_list.
  destruct (is_t (ptt p) TRightBrace || is_t (ptt p) TError).
  { unfold pop_st. rewrite Hs. cbn [pbind]. do 2 eexists. split; [reflexivity|].
    rewrite <- (set_keepws_id (set_st p rest)). apply (outcome_pop p SAtRuleRuleList rest); auto. }
  destruct (is_t (ptt p) TAtKeyword) eqn:E1.
  { apply is_t_eq in E1. apply parse_at_rule_spec; [exact Hi|blia|exact (Ha E1)]. }
  apply parse_qualified_rule_spec; assumption.
Qed.

Lemma parse_at_rule_unknown_spec p rest : linv p -> pst p = SAtRuleUnknown :: rest ->
  exists g p', parse_at_rule_unknown p = POk (g, p') /\ outcomeS p g p'.
Proof.
  intros Hi Hs. unfold parse_at_rule_unknown.
  set (p0 := set_keepws p true).
  destruct ((is_t (ptt p0) TRightBrace && (plevel p0 =? 0)) || is_t (ptt p0) TError).
  - unfold pop_st. change (pst p0) with (pst p). rewrite Hs. cbn [pbind]. do 2 eexists. split; [reflexivity|].
    assert (E : set_keepws (set_st p0 rest) false = set_keepws (set_st p rest) false) by reflexivity. rewrite E.
    apply (outcome_pop p SAtRuleUnknown rest); auto.
  - do 2 eexists. split; [reflexivity|]. apply outcome_plain.
    + apply (frame_of p _ (pl p)); [|exact Hi|reflexivity|blia|].
      * unfold adjust_level. destruct (opens _); [reflexivity|]. destruct (closes _); reflexivity.
      * unfold adjust_level. destruct (opens _); [reflexivity|]. destruct (closes _); reflexivity.
    + unfold adjust_level. destruct (opens _); [reflexivity|]. destruct (closes _); reflexivity.
    + reflexivity.
    + intros H. left. revert H. unfold adjust_level. destruct (opens _); [auto|]. destruct (closes _); auto.
    + left. unfold adjust_level. destruct (opens _); [reflexivity|]. destruct (closes _); reflexivity.
    + discriminate.
Qed.

(* the two declaration-list states: semicolons, the end of the block, or a declaration *)
Lemma decl_list_state_spec F p s rest gend :
  entry_ok p -> rem p + 1 < Z.of_nat F -> pst p = s :: rest ->
  (gend = GEndAtRule /\ at_kind s = true \/ gend = GEndRuleset /\ s = SQualifiedRuleDeclarationList) ->
  exists g p',
    (p1 <-- skip_semicolons F F p ;;
     let t := ptt p1 in
     if is_t t TRightBrace || is_t t TError then p' <-- pop_st p1 ;; POk (gend, p')
     else parse_declaration_list F p1) = POk (g, p') /\
    outcomeT (fun _ => ptt p = TComment) p g p'.
Proof.
  intros (Hi & Htk & Herr0) HF Hs Hg.
  destruct (skip_semicolons_spec F F p Hi ltac:(left; blia) ltac:(blia)) as (q & -> & Hf & Hns & Hc). cbn [pbind]. cbv zeta.
  assert (Hlb : ptt q = TLeftBrace -> ptt p = TLeftBrace \/ lpos (pl p) < lpos (pl q)).
  { intros Hx. destruct Hc as [->|(_ & _ & _ & Hl)]; [left; exact Hx|right; apply Hl; rewrite Hx; discriminate]. }
  pose proof (fr2_same_ctl _ _ Hf Hlb) as Hsc. pose proof (fr2_rem _ _ Hf) as Hr.
  assert (Hiq : linv q) by apply Hf.
  assert (Hsq : pst q = s :: rest) by (destruct Hf as (_ & H1 & _); congruence).
  destruct (is_t (ptt q) TRightBrace || is_t (ptt q) TError) eqn:E.
  - unfold pop_st. rewrite Hsq. cbn [pbind]. do 2 eexists. split; [reflexivity|].
    eapply (outcome_conv (fun _ => False)); [exact Hsc|intros x []|].
    rewrite <- (set_keepws_id (set_st q rest)). apply (outcome_pop q s rest); auto.
  - apply orb_false_iff in E. destruct E as [E1 E2]. apply is_t_neq in E1. apply is_t_neq in E2.
    assert (Heq : entry_ok q).
    { split; [exact Hiq|]. split; [|intros Hx; congruence].
      destruct Hc as [->|(_ & Hfact & _)]; [exact Htk|eapply tok_fact_tokd; exact Hfact]. }
    destruct Heq as (_ & Htkq & Herrq).
    destruct (parse_declaration_list_spec F q Hiq ltac:(blia) Htkq Herrq) as (g & p' & Hl & Ho).
    exists g, p'. split; [exact Hl|]. eapply outcome_conv; [exact Hsc| |exact Ho].
    intros x (_ & [Hx|[Hx|Hx]]); [congruence| |congruence].
    destruct Hc as [->|(_ & _ & Hnc & _)]; [exact Hx|congruence].
Qed.

(* --- Parser.Next ------------------------------------------------------------------------------------------------------------ *)
Definition pinv (p : parser) : Prop := linv p /\ stack_ok (pst p) = true.

(* the potential that every call but the end-of-input report decreases *)
Definition phi (p : parser) : Z := 2 * rem p + len (pst p) + (if prevend p then 1 else 0).

Definition stack_rel (g : gtype) (st st' : list pstate) : Prop :=
  match g with
  | GBeginAtRule => exists s, st' = s :: st /\ at_kind s = true
  | GBeginRuleset => st' = SQualifiedRuleDeclarationList :: st
  | GEndAtRule => exists s, st = s :: st' /\ at_kind s = true
  | GEndRuleset => st = SQualifiedRuleDeclarationList :: st'
  | GError => st' = st /\ len st = 1
  | _ => st' = st
  end.

(* the end-of-input report: ErrorGrammar, no parse error pending, nothing consumed, nothing open *)
Definition terminal (p : parser) (g : gtype) (p' : parser) : Prop :=
  g = GError /\ perr p' = false /\ rem p = 0 /\ lpos (pl p') = lpos (pl p) /\ prevend p = false /\ prevend p' = false /\
  pst p' = pst p /\ len (pst p) = 1.

Lemma stack_ok_cons s r : stack_ok (s :: r) = true ->
  (r = [] /\ bottom_kind s = true) \/ (r <> [] /\ pushed_kind s = true /\ stack_ok r = true).
Proof.
  cbn [stack_ok]. destruct r as [|s2 r]; [auto|]. intros H. apply andb_true_iff in H. right. split; [discriminate|exact H].
Qed.

Lemma kinds_disjoint s : bottom_kind s = true -> pushed_kind s = true -> False.
Proof. destruct s; cbn; discriminate. Qed.

Lemma stack_ok_push s st : stack_ok st = true -> pushed_kind s = true -> stack_ok (s :: st) = true.
Proof. intros H Hs. destruct st as [|x r]; [discriminate H|]. cbn [stack_ok] in *. rewrite Hs. exact H. Qed.

Lemma at_kind_pushed s : at_kind s = true -> pushed_kind s = true.
Proof. unfold pushed_kind. intros ->. reflexivity. Qed.

Lemma skip_semicolons_none F p : ptt p <> TSemicolon -> skip_semicolons F F p = POk p.
Proof. intros H. rewrite skip_semicolons_eq. apply is_t_neq in H. rewrite H. reflexivity. Qed.

(* at the end of the input every state function reports the end or closes its block *)
Lemma eof_dispatch F p s rest : ptt p = TError -> pst p = s :: rest ->
  match s with
  | SStylesheet => parse_stylesheet F p = POk (GError, p)
  | SDeclarationList => parse_declaration_list F p = POk (GError, p)
  | SAtRuleRuleList => parse_at_rule_rule_list F p = POk (GEndAtRule, set_st p rest)
  | SAtRuleDeclarationList => parse_at_rule_declaration_list F p = POk (GEndAtRule, set_st p rest)
  | SAtRuleUnknown => parse_at_rule_unknown p = POk (GEndAtRule, set_keepws (set_st p rest) false)
  | SQualifiedRuleDeclarationList => parse_qualified_rule_declaration_list F p = POk (GEndRuleset, set_st p rest)
  end.
Proof.
  intros Ht Hs.
  assert (Hev : forall x, is_t (ptt p) x = is_t TError x) by (intros x; rewrite Ht; reflexivity).
  assert (Hne : ptt p <> TSemicolon) by (rewrite Ht; discriminate).
  destruct s; unfold parse_stylesheet, parse_declaration_list, parse_at_rule_rule_list, parse_at_rule_declaration_list,
    parse_at_rule_unknown, parse_qualified_rule_declaration_list, pop_st;
    cbn [set_keepws ptt pst plevel];
    rewrite ?(skip_semicolons_none F p Hne); cbn [pbind]; rewrite ?Hev, ?Hs;
    repeat (match goal with |- context [is_t TError ?x] =>
              let v := eval vm_compute in (is_t TError x) in change (is_t TError x) with v end);
    cbv beta iota; cbn [orb andb pbind];
    rewrite ?(skip_semicolons_none F p Hne); cbn [pbind]; rewrite ?Hev;
    repeat (match goal with |- context [is_t TError ?x] =>
              let v := eval vm_compute in (is_t TError x) in change (is_t TError x) with v end);
    cbv beta iota; cbn [orb andb pbind]; try reflexivity.
  rewrite Hev. reflexivity.
Qed.


Definition next_post (p : parser) (g : gtype) (p' : parser) : Prop :=
  pinv p' /\ lbuf (pl p') = lbuf (pl p) /\ isstyle p' = isstyle p /\ lpos (pl p) <= lpos (pl p') /\
  (phi p' < phi p \/ terminal p g p') /\
  (perr p' = false -> stack_rel g (pst p) (pst p')).

Lemma next_finish p p1 g p' :
  pinv p -> pst p1 = pst p -> perr p1 = false -> prevend p1 = false -> isstyle p1 = isstyle p ->
  lbuf (pl p1) = lbuf (pl p) -> lpos (pl p) <= lpos (pl p1) ->
  ((prevend p = true /\ ptt p1 = TRightBrace) \/ (prevend p = false /\ lpos (pl p) < lpos (pl p1))) ->
  outcomeT (fun x => lx_len (pl x) - lpos (pl x) = 0 /\ len (pst p) = 1) p1 g p' ->
  next_post p g p'.
Proof.
  intros (Hi & Hok) Hst Her1 Hpe1 Hsty Hb Hpos Hpath ((Hi' & Hb' & Hp' & Hs') & Hpe' & Herr' & Hc).
  assert (HL : lx_len (pl p') = lx_len (pl p)) by (rewrite (lx_len_eq _ _ Hb'); apply lx_len_eq; exact Hb).
  assert (Hpe'' : prevend p' = true -> lpos (pl p1) < lpos (pl p')).
  { intros H. destruct (Hpe' H) as [Hx|Hx]; [congruence|exact Hx]. }
  unfold next_post, pinv, phi, rem. rewrite HL.
  destruct Hc as [(Hs & Hg & He)|[(Hg & He & s & Hs & Hk & Hl)|[(Hg & He & Hs & Hl)|[(Hg & He & s & Hs & Hk)|[(Hg & He & Hs)|(Hg & He & s & Hs & Hn)]]]]].
  - (* no stack change *)
    split; [split; [exact Hi'|congruence]|]. split; [congruence|]. split; [congruence|]. split; [blia|]. split.
    + left. rewrite Hs, Hst. destruct (prevend p') eqn:E; [specialize (Hpe'' eq_refl)|]; destruct Hpath as [(-> & _)|(-> & Hlt)]; blia.
    + intros Hperr. rewrite Hs, Hst.
      destruct g; cbn [stack_rel]; try reflexivity; try discriminate Hg.
      destruct (He eq_refl) as [Hx|(_ & Hlen)]; [congruence|]. auto.
  - (* BeginAtRule *)
    assert (Hok' : stack_ok (pst p') = true) by (rewrite Hs, Hst; apply stack_ok_push; [exact Hok|apply at_kind_pushed; exact Hk]).
    split; [split; assumption|]. split; [congruence|]. split; [congruence|]. split; [blia|]. split.
    + left. rewrite Hs, Hst, len_cons. destruct (prevend p') eqn:E; [specialize (Hpe'' eq_refl)|]; destruct Hpath as [(-> & _)|(-> & Hlt)]; blia.
    + intros _. subst g. cbn [stack_rel]. exists s. split; [congruence|exact Hk].
  - (* BeginRuleset *)
    assert (Hok' : stack_ok (pst p') = true) by (rewrite Hs, Hst; apply stack_ok_push; [exact Hok|reflexivity]).
    split; [split; assumption|]. split; [congruence|]. split; [congruence|]. split; [blia|]. split.
    + left. rewrite Hs, Hst, len_cons.
      assert (Hadv : lpos (pl p) < lpos (pl p')).
      { destruct Hl as [Hl|Hl]; [blia|]. destruct Hpath as [(_ & Hx)|(_ & Hlt)]; [congruence|blia]. }
      destruct (prevend p') eqn:E; [specialize (Hpe'' eq_refl)|]; destruct Hpath as [(-> & Hx)|(-> & Hlt)]; blia.
    + intros _. subst g. cbn [stack_rel]. congruence.
  - (* EndAtRule *)
    rewrite Hst in Hs. rewrite Hs in Hok.
    destruct (stack_ok_cons _ _ Hok) as [(_ & Hbk)|(Hne & _ & Hok')]; [exfalso; eapply kinds_disjoint; [exact Hbk|apply at_kind_pushed; exact Hk]|].
    split; [split; assumption|]. split; [congruence|]. split; [congruence|]. split; [blia|]. split.
    + left. rewrite Hs, len_cons. destruct (prevend p') eqn:E; [specialize (Hpe'' eq_refl)|]; destruct Hpath as [(-> & _)|(-> & Hlt)]; blia.
    + intros _. subst g. cbn [stack_rel]. exists s. auto.
  - (* EndRuleset *)
    rewrite Hst in Hs. rewrite Hs in Hok.
    destruct (stack_ok_cons _ _ Hok) as [(_ & Hbk)|(Hne & _ & Hok')]; [discriminate Hbk|].
    split; [split; assumption|]. split; [congruence|]. split; [congruence|]. split; [blia|]. split.
    + left. rewrite Hs, len_cons. destruct (prevend p') eqn:E; [specialize (Hpe'' eq_refl)|]; destruct Hpath as [(-> & _)|(-> & Hlt)]; blia.
    + intros _. subst g. cbn [stack_rel]. exact Hs.
  - (* a parse error that pops a state *)
    rewrite Hst in Hs. rewrite Hs in Hok.
    destruct (stack_ok_cons _ _ Hok) as [(Hx & _)|(Hne & _ & Hok')]; [congruence|].
    split; [split; assumption|]. split; [congruence|]. split; [congruence|]. split; [blia|]. split.
    + left. rewrite Hs, len_cons. destruct (prevend p') eqn:E; [specialize (Hpe'' eq_refl)|]; destruct Hpath as [(-> & _)|(-> & Hlt)]; blia.
    + intros Hx. congruence.
Qed.

(* the state function of the top state, on an entry state that is not at the end of input (or comes from a
   pending '}'), satisfies the common outcome *)
Lemma dispatch_spec F p s rest : entry_ok p -> rem p + 1 < Z.of_nat F -> pst p = s :: rest -> stack_ok (pst p) = true ->
  (ptt p = TComment -> rest = []) ->
  exists g p',
    match s with
    | SStylesheet => parse_stylesheet F p
    | SDeclarationList => parse_declaration_list F p
    | SAtRuleRuleList => parse_at_rule_rule_list F p
    | SAtRuleDeclarationList => parse_at_rule_declaration_list F p
    | SAtRuleUnknown => parse_at_rule_unknown p
    | SQualifiedRuleDeclarationList => parse_qualified_rule_declaration_list F p
    end = POk (g, p') /\
    outcomeT (fun x => lx_len (pl x) - lpos (pl x) = 0 /\ len (pst p) = 1) p g p'.
Proof.
  intros He HF Hs Hok Hcom. pose proof He as (Hi & Htk & Herr0).
  rewrite Hs in Hok. destruct (stack_ok_cons _ _ Hok) as [(Hr & Hbk)|(Hne & Hpk & _)].
  - (* a bottom state *)
    assert (Hlen : len (pst p) = 1) by (rewrite Hs, Hr; reflexivity).
    destruct s; try discriminate Hbk.
    + destruct (parse_stylesheet_spec F p He HF) as (g & p' & Hl & Ho). exists g, p'. split; [exact Hl|].
      eapply outcomeT_weaken; [|exact Ho]. intros x (Hx & _). auto.
    + destruct (parse_declaration_list_spec F p Hi HF Htk Herr0) as (g & p' & Hl & Ho). exists g, p'. split; [exact Hl|].
      eapply outcomeT_weaken; [|exact Ho]. intros x (Hx & _). auto.
  - destruct s; try discriminate Hpk.
    + destruct (parse_at_rule_rule_list_spec F p rest He HF Hs) as (g & p' & Hl & Ho). exists g, p'. split; [exact Hl|].
      apply outcomeS_any. exact Ho.
    + destruct (decl_list_state_spec F p SAtRuleDeclarationList rest GEndAtRule He HF Hs ltac:(left; auto)) as (g & p' & Hl & Ho).
      exists g, p'. split; [exact Hl|]. eapply outcomeT_weaken; [|exact Ho]. intros x Hx. specialize (Hcom Hx). congruence.
    + destruct (parse_at_rule_unknown_spec p rest Hi Hs) as (g & p' & Hl & Ho). exists g, p'. split; [exact Hl|].
      apply outcomeS_any. exact Ho.
    + destruct (decl_list_state_spec F p SQualifiedRuleDeclarationList rest GEndRuleset He HF Hs ltac:(right; auto)) as (g & p' & Hl & Ho).
      exists g, p'. split; [exact Hl|]. eapply outcomeT_weaken; [|exact Ho]. intros x Hx. specialize (Hcom Hx). congruence.
Qed.

Lemma next_fuel_val p : linv p -> Z.of_nat (next_fuel p) = rem p + 2.
Proof. intros H. pose proof (rem_nonneg p H). unfold next_fuel. fold (rem p). lia. Qed.

(* C01 + C08: one call of Parser.Next *)
Lemma parse_next_spec p : pinv p -> exists g p', parse_next p = POk (g, p') /\ next_post p g p'.
Proof.
  intros Hpinv. pose proof Hpinv as (Hi & Hok). unfold parse_next.
  pose proof (next_fuel_val p Hi) as HFv. set (F := next_fuel p) in *.
  destruct (pst p) as [|s rest] eqn:Hs; [discriminate Hok|].
  cbv zeta. change (prevend (set_buf (set_err p false) [])) with (prevend p).
  destruct (prevend p) eqn:Epe.
  - (* the pending '}' of the previous unit *)
    cbn [pbind].
    set (p1 := set_prevend (set_tok (set_buf (set_err p false) []) TRightBrace [125]) false).
    assert (He1 : entry_ok p1).
    { split; [exact Hi|]. split; [split; discriminate|discriminate]. }
    change (pst p1) with (pst p). rewrite Hs.
    destruct (dispatch_spec F p1 s rest He1) as (g & p' & Hl & Ho).
    + unfold rem in *. cbn [p1 set_prevend set_tok set_err set_buf pl]. lia.
    + exact Hs.
    + change (pst p1) with (pst p). rewrite Hs. exact Hok.
    + discriminate.
    + exists g, p'. split; [exact Hl|].
      apply (next_finish p p1); try reflexivity; try assumption. left. split; [exact Epe|reflexivity].
  - cbn [set_err prevend].
    assert (Hi0 : linv (set_buf (set_err p false) [])) by exact Hi.
    assert (HF0 : rem (set_buf (set_err p false) []) < Z.of_nat F) by (unfold rem in *; cbn [set_err set_buf pl]; lia).
    pop_tok true Hpop Hi0 HF0. rewrite Hpop. cbn [pbind fst snd].
    set (p1 := set_tok (relex (set_buf (set_err p false) []) z ws cm) t d).
    assert (He1 : entry_ok p1).
    { split; [exact Hz|]. split; [eapply tok_fact_tokd; exact Hfact|].
      intros Hx. cbn [p1 set_tok ptt] in Hx. subst t. destruct Hfact as [(_ & Hr & _)|(He & _)]; [|discriminate].
      unfold rem. cbn [p1 set_tok relex pl]. exact Hr. }
    change (pst p1) with (pst p). rewrite Hs.
    destruct (ttype_eq_dec t TError) as [Et|Et].
    + (* the end of the input *)
      subst t. pose proof (eof_dispatch F p1 s rest eq_refl Hs) as Hd.
      assert (Hrem1 : lx_len z - lpos z = 0) by (destruct Hfact as [(_ & Hr & _)|(He & _)]; [exact Hr|discriminate]).
      assert (HL : lx_len z = lx_len (pl p)) by (apply lx_len_eq; exact Hb).
      assert (Hcommon : forall g q, pl q = z -> isstyle q = isstyle p -> perr q = false -> prevend q = false ->
                (pst q = s :: rest /\ g = GError /\ rest = [] \/
                 pst q = rest /\ rest <> [] /\ stack_ok rest = true /\
                 (g = GEndAtRule /\ at_kind s = true \/ g = GEndRuleset /\ s = SQualifiedRuleDeclarationList)) ->
                next_post p g q).
      { intros g q Hpl Hsty Hper Hpre Hcase. unfold next_post, pinv, linv, phi, rem. rewrite Hpl, Hpre, Epe, HL.
        destruct Hcase as [(Hsq & -> & ->)|(Hsq & Hne & Hokr & Hg)].
        - rewrite Hsq, Hs. split; [split; [exact Hz|exact Hok]|]. split; [exact Hb|]. split; [exact Hsty|]. split; [exact Hp|].
          split.
          + destruct (Z.eq_dec (lpos z) (lpos (pl p))) as [E|E]; [right|left; cbn [set_err set_buf pl] in Hp; lia].
            unfold terminal, rem. rewrite Hpl, Hsq, Hs, E. repeat split; try assumption; lia.
          + intros _. cbn [stack_rel]. auto.
        - rewrite Hsq, Hs. split; [split; [exact Hz|exact Hokr]|]. split; [exact Hb|]. split; [exact Hsty|]. split; [exact Hp|].
          split; [left; rewrite len_cons; cbn [set_err set_buf pl] in Hp; lia|].
          intros _. destruct Hg as [(-> & Hk)|(-> & ->)]; cbn [stack_rel]; [exists s; auto|reflexivity]. }
      destruct (stack_ok_cons _ _ Hok) as [(Hr & Hbk)|(Hne & Hpk & Hokr)].
      * destruct s; try discriminate Hbk; rewrite Hd; do 2 eexists; (split; [reflexivity|]);
          (apply Hcommon; [reflexivity|reflexivity|reflexivity|exact Epe|left; auto]).
      * destruct s; try discriminate Hpk; rewrite Hd; do 2 eexists; (split; [reflexivity|]);
          (apply Hcommon; [reflexivity|reflexivity|reflexivity|exact Epe|right; (split; [reflexivity|]); (split; [exact Hne|]); (split; [exact Hokr|]); auto]).
    + destruct (dispatch_spec F p1 s rest He1) as (g & p' & Hl & Ho).
      * unfold rem in *. cbn [p1 set_tok relex pl set_err set_buf] in *. rewrite (lx_len_eq _ _ Hb). cbn [set_err set_buf pl]. lia.
      * exact Hs.
      * change (pst p1) with (pst p). rewrite Hs. exact Hok.
      * intros Hx. cbn [p1 set_tok ptt] in Hx. destruct (Hcom Hx) as (_ & Hlen). cbn [set_err set_buf pst] in Hlen. rewrite Hs, len_cons in Hlen.
        destruct rest; [reflexivity|rewrite len_cons in Hlen; pose proof (len_nonneg rest); lia].
      * exists g, p'. split; [exact Hl|].
        apply (next_finish p p1); try reflexivity; try assumption.
        right. split; [exact Epe|]. specialize (Hlt Et). cbn [set_err set_buf pl] in Hlt. exact Hlt.
Qed.
