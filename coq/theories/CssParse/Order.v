(* CssParse/Order.v — token conservation, source order (C08): the tokens a run reports through data and Values(),
   mapped back to the source intervals they stem from, appear in source order and no source token is reported twice. *)
From Verif Require Import Common.Base Common.Tactics Common.Lx Css.Model Css.Basics Css.Bounds Css.Proofs Css.Agree.
From Verif Require Import CssParse.Model CssParse.Proofs CssParse.Trace CssParse.Conserve.
From Coq Require Import ZifyBool.

(* src D t d a b : the reported token (t, d) stems from the source bytes [a, b) of D *)
Inductive src (D : list Z) : ttype -> list Z -> Z -> Z -> Prop :=
| S_lex z z' t d : lex_reach D z -> css_next z = Some (t, d, z') -> t <> TError ->
    src D t d (lpos z) (lpos z')                                  (* the lexer token that starts at lpos z *)
| S_glued t d0 d a m m' b : src D TDelim d0 a m -> src D t d m' b -> m <= m' ->
    src D t (d0 ++ d) a b                                         (* the IE '*' hack: two source tokens as one *)
| S_lower t d a b : src D t d a b -> src D t (to_lower d) a b      (* a lower-cased copy *)
| S_custom a b : a <= b -> src D TCustomPropertyValue (slice D a b) a b.   (* the text of a custom property value *)

(* tokens that stand for no source bytes of their own *)
Definition synth (t : ttype) (d : list Z) : Prop :=
  (t = TWhitespace /\ (d = [32] \/ d = [])) \/ (t = TRightBrace /\ d = [125]) \/ (t = TError /\ d = []).

(* chain D lo toks hi : the tokens, in this order, stem from disjoint increasing intervals inside [lo, hi] *)
Inductive chain (D : list Z) : Z -> list tok -> Z -> Prop :=
| CH_nil lo hi : lo <= hi -> chain D lo [] hi
| CH_synth lo t d rest hi : synth t d -> chain D lo rest hi -> chain D lo ((t, d) :: rest) hi
| CH_src lo t d a b rest hi : lo <= a -> src D t d a b -> chain D b rest hi -> chain D lo ((t, d) :: rest) hi.

Lemma src_le D t d a b : src D t d a b -> a <= b.
Proof.
  induction 1 as [z z' t d Hr Hn Ht|t d0 d a m m' b _ IH1 _ IH2 Hm|t d a b _ IH|a b Hab]; try lia.
  destruct (lex_reach_inv D z Hr) as (Hi & _). destruct (css_no_overread_proof _ _ _ _ Hi Hn) as (Hpos & _). lia.
Qed.

Lemma chain_le D lo toks hi : chain D lo toks hi -> lo <= hi.
Proof.
  induction 1 as [lo hi H|lo t d rest hi _ _ IH|lo t d a b rest hi Ha Hs _ IH]; [exact H|exact IH|].
  pose proof (src_le _ _ _ _ _ Hs). lia.
Qed.

Lemma chain_lo D lo lo' toks hi : chain D lo toks hi -> lo' <= lo -> chain D lo' toks hi.
Proof.
  induction 1 as [lo hi H|lo t d rest hi Hs _ IH|lo t d a b rest hi Ha Hs Hc _]; intros Hl.
  - constructor. lia.
  - apply CH_synth; [exact Hs|apply IH; exact Hl].
  - eapply CH_src; [|exact Hs|exact Hc]. lia.
Qed.

Lemma chain_hi D lo toks hi hi' : chain D lo toks hi -> hi <= hi' -> chain D lo toks hi'.
Proof.
  induction 1 as [lo hi H|lo t d rest hi Hs _ IH|lo t d a b rest hi Ha Hs _ IH]; intros Hl.
  - constructor. lia.
  - apply CH_synth; [exact Hs|apply IH; exact Hl].
  - eapply CH_src; [exact Ha|exact Hs|apply IH; exact Hl].
Qed.

Lemma chain_app D lo a m b hi : chain D lo a m -> chain D m b hi -> chain D lo (a ++ b) hi.
Proof.
  induction 1 as [lo m H|lo t d rest m Hs _ IH|lo t d x y rest m Ha Hs _ IH]; intros Hb; cbn [app].
  - eapply chain_lo; [exact Hb|exact H].
  - apply CH_synth; [exact Hs|apply IH; exact Hb].
  - eapply CH_src; [exact Ha|exact Hs|apply IH; exact Hb].
Qed.

(* taking a token out keeps the order *)
Lemma chain_tail D lo x rest hi : chain D lo (x :: rest) hi -> chain D lo rest hi.
Proof.
  intros H. inversion H as [|? ? ? ? ? Hs Hc|? ? ? a b ? ? Ha Hs Hc]; subst; [exact Hc|].
  eapply chain_lo; [exact Hc|]. pose proof (src_le _ _ _ _ _ Hs). lia.
Qed.

Lemma chain_remove D : forall a lo x b hi, chain D lo (a ++ x :: b) hi -> chain D lo (a ++ b) hi.
Proof.
  induction a as [|y a IH]; intros lo x b hi H; cbn [app] in *.
  - eapply chain_tail; exact H.
  - inversion H as [|? ? ? ? ? Hs Hc|? ? ? u v ? ? Ha Hs Hc]; subst.
    + apply CH_synth; [exact Hs|eapply IH; exact Hc].
    + eapply CH_src; [exact Ha|exact Hs|eapply IH; exact Hc].
Qed.

(* the end of a chain that starts with a source token *)
Lemma chain_split D : forall a lo b hi, chain D lo (a ++ b) hi -> exists m, chain D lo a m /\ chain D m b hi.
Proof.
  induction a as [|y a IH]; intros lo b hi H; cbn [app] in *.
  - exists lo. split; [constructor; lia|exact H].
  - inversion H as [|? ? ? ? ? Hs Hc|? ? ? u v ? ? Ha Hs Hc]; subst.
    + destruct (IH _ _ _ Hc) as (m & H1 & H2). exists m. split; [apply CH_synth; assumption|exact H2].
    + destruct (IH _ _ _ Hc) as (m & H1 & H2). exists m. split; [eapply CH_src; eassumption|exact H2].
Qed.

(* a freshly popped token: the end of input (ErrorToken, nil) or a source token that ends at hi *)
Definition tok_at (D : list Z) (lo : Z) (t : ttype) (d : list Z) (hi : Z) : Prop :=
  (t = TError /\ d = [] /\ lo <= hi) \/ (exists a, lo <= a /\ src D t d a hi).

Lemma tok_at_le D lo t d hi : tok_at D lo t d hi -> lo <= hi.
Proof. intros [(_ & _ & H)|(a & Ha & Hs)]; [exact H|]. pose proof (src_le _ _ _ _ _ Hs). lia. Qed.

Lemma tok_at_lo D lo lo' t d hi : tok_at D lo t d hi -> lo' <= lo -> tok_at D lo' t d hi.
Proof. intros [(H1 & H2 & H)|(a & Ha & Hs)] Hl; [left; repeat split; try assumption; lia|right; exists a; split; [lia|exact Hs]]. Qed.

Lemma chain_one D lo t d hi : tok_at D lo t d hi -> chain D lo [(t, d)] hi.
Proof.
  intros [(-> & -> & H)|(a & Ha & Hs)].
  - apply CH_synth; [right; right; split; reflexivity|constructor; exact H].
  - eapply CH_src; [exact Ha|exact Hs|constructor; lia].
Qed.

Lemma chain_snoc D lo L m t d hi : chain D lo L m -> tok_at D m t d hi -> chain D lo (L ++ [(t, d)]) hi.
Proof. intros H Ht. eapply chain_app; [exact H|apply chain_one; exact Ht]. Qed.

Lemma chain_snoc_ws D lo L m (w : bool) t d hi : chain D lo L m -> tok_at D m t d hi ->
  chain D lo ((L ++ (if w then [(TWhitespace, [32])] else [])) ++ [(t, d)]) hi.
Proof.
  intros H Ht. eapply chain_snoc; [|exact Ht]. destruct w; [|rewrite app_nil_r; exact H].
  eapply chain_app; [exact H|]. apply CH_synth; [left; split; [reflexivity|left; reflexivity]|constructor; lia].
Qed.

Lemma synth_one D lo t d hi : synth t d -> lo <= hi -> chain D lo [(t, d)] hi.
Proof. intros Hs H. apply CH_synth; [exact Hs|constructor; exact H]. Qed.

(* a one-token chain of a non-synthesised type is a source token *)
Lemma chain_one_src D lo t d hi : chain D lo [(t, d)] hi -> t <> TWhitespace -> t <> TRightBrace -> t <> TError ->
  exists a b, lo <= a /\ src D t d a b /\ b <= hi.
Proof.
  intros H H1 H2 H3. inversion H as [|? ? ? ? ? Hs Hc|? ? ? a b ? ? Ha Hs Hc]; subst.
  - destruct Hs as [(E & _)|[(E & _)|(E & _)]]; congruence.
  - exists a, b. split; [exact Ha|]. split; [exact Hs|]. eapply chain_le; exact Hc.
Qed.

Lemma chain_lower_one D lo t d hi : chain D lo [(t, d)] hi -> chain D lo [(t, to_lower d)] hi.
Proof.
  intros H. inversion H as [|? ? ? ? ? Hs Hc|? ? ? a b ? ? Ha Hs Hc]; subst.
  - apply CH_synth; [|exact Hc].
    destruct Hs as [(E & [->| ->])|[(E & ->)|(E & ->)]]; subst; cbn; [left; auto|left; auto|right; left; auto|right; right; auto].
  - eapply CH_src; [exact Ha|apply S_lower; exact Hs|exact Hc].
Qed.

(* --- the lexer under the parser --------------------------------------------------------------------------------------- *)
Lemma lex_next_o D p t d p' : lex_next p = POk (t, d, p') -> lex_reach D (pl p) ->
  p' = set_pl p (pl p') /\ lex_reach D (pl p') /\ tok_at D (lpos (pl p)) t d (lpos (pl p')) /\
  d = slice D (lpos (pl p)) (lpos (pl p')) /\ lpos (pl p) <= lpos (pl p') <= len D.
Proof.
  intros H Hr. destruct (lex_next_c D _ _ _ _ H Hr) as (Hp & Hr' & Ht & Hd & Hpos).
  split; [exact Hp|]. split; [exact Hr'|]. split; [|split; assumption].
  destruct Ht as [(-> & ->)|_]; [left; repeat split; lia|].
  destruct (ttype_eq_dec t TError) as [->|Hne].
  - left. split; [reflexivity|]. split; [|lia].
    unfold lex_next in H. destruct (css_next (pl p)) as [[[ty b] z']|] eqn:En; [|discriminate].
    destruct (lex_reach_inv D _ Hr) as (Hi & _). destruct (css_eof_sticky_proof (pl p) Hi) as (_ & H2).
    assert (ty = TError) by congruence. subst ty. destruct (H2 _ _ En) as (_ & Hb' & _). congruence.
  - right. exists (lpos (pl p)). split; [lia|].
    unfold lex_next in H. destruct (css_next (pl p)) as [[[ty b] z']|] eqn:En; [|discriminate].
    assert (ty = t) by congruence. assert (b = d) by congruence. assert (p' = set_pl p z') by congruence. subst ty b p'.
    cbn [set_pl pl]. apply (S_lex D (pl p) z'); assumption.
Qed.

Lemma pop_loop_o D : forall fuel allow p t d t' d' p', pop_loop fuel allow p t d = POk (t', d', p') ->
  lex_reach D (pl p) -> forall lo, tok_at D lo t d (lpos (pl p)) ->
  tok_at D lo t' d' (lpos (pl p')) /\ exists z ws cm, p' = relex p z ws cm /\ lex_reach D z.
Proof.
  induction fuel as [|fuel IH]; intros allow p t d t' d' p' H Hc lo Ht; cbn [pop_loop] in H.
  - pif H; [discriminate H|]. apply POk_inj in H. assert (t' = t) by congruence. assert (d' = d) by congruence.
    assert (p' = p) by congruence. subst t' d' p'. split; [exact Ht|]. exists (pl p), (prevws p), (prevcomment p).
    split; [destruct p; reflexivity|apply Hc].
  - pif H.
    + set (p1 := if is_t t TWhitespace then set_prevws p true else set_prevcomment p true) in *.
      assert (Hp1 : exists ws cm, p1 = relex p (pl p) ws cm).
      { subst p1. destruct (is_t t TWhitespace); destruct p; do 2 eexists; reflexivity. }
      destruct Hp1 as (ws1 & cm1 & Hp1).
      pif H.
      * apply POk_inj in H. assert (t' = t) by congruence. assert (d' = d) by congruence. assert (p' = p1) by congruence.
        subst t' d' p'. rewrite Hp1. cbn [relex pl]. split; [exact Ht|]. exists (pl p), ws1, cm1. split; [reflexivity|apply Hc].
      * pinv_bind H. destruct r as [[t2 d2] p2]. cbn [fst snd] in H.
        assert (Hr1 : lex_reach D (pl p1)) by (rewrite Hp1; apply Hc).
        destruct (lex_next_o D _ _ _ _ E1 Hr1) as (Hp2 & Hr2 & Ht2 & _).
        assert (Hpl1 : pl p1 = pl p) by (rewrite Hp1; reflexivity). rewrite Hpl1 in Ht2.
        pose proof (tok_at_le _ _ _ _ _ Ht) as Hle.
        destruct (IH _ _ _ _ _ _ _ H Hr2 lo (tok_at_lo _ _ _ _ _ _ Ht2 Hle)) as (Hres & z & ws & cm & Hp' & Hz).
        split; [exact Hres|]. exists z, ws, cm. split; [|exact Hz]. rewrite Hp', Hp2, Hp1. reflexivity.
    + apply POk_inj in H. assert (t' = t) by congruence. assert (d' = d) by congruence.
      assert (p' = p) by congruence. subst t' d' p'. split; [exact Ht|]. exists (pl p), (prevws p), (prevcomment p).
      split; [destruct p; reflexivity|apply Hc].
Qed.

(* popToken: the parser's fields stay, the lexer moves on, and the token it returns ends where the lexer now stands *)
Lemma pop_token_o D F allow p t d p' : pop_token F allow p = POk (t, d, p') -> lex_reach D (pl p) ->
  lex_reach D (pl p') /\ tok_at D (lpos (pl p)) t d (lpos (pl p')) /\
  ptt p' = ptt p /\ pdata p' = pdata p /\ pbuf p' = pbuf p.
Proof.
  unfold pop_token. intros H Hc. pinv_bind H. destruct r as [[t1 d1] p1]. cbn [fst snd] in H.
  set (p0 := set_prevcomment (set_prevws p false) false) in *.
  assert (Hp0 : p0 = relex p (pl p) false false) by (destruct p; reflexivity).
  assert (Hr0 : lex_reach D (pl p0)) by (rewrite Hp0; apply Hc).
  destruct (lex_next_o D _ _ _ _ E Hr0) as (Hp1 & Hr1 & Ht1 & _).
  assert (Hpl0 : pl p0 = pl p) by (rewrite Hp0; reflexivity). rewrite Hpl0 in Ht1.
  destruct (pop_loop_o D _ _ _ _ _ _ _ _ H Hr1 _ Ht1) as (Hres & z & ws & cm & Hp' & Hz).
  assert (Hz' : pl p' = z) by (rewrite Hp'; reflexivity). rewrite Hz' in *.
  split; [exact Hz|]. split; [exact Hres|]. rewrite Hp', Hp1, Hp0. cbn [relex set_pl pl ptt pdata pbuf]. auto.
Qed.

(* --- what one call reports ---------------------------------------------------------------------------------------------- *)
(* data and Values() of every unit (Next clears the buffer first, fix ef9c484, so Values() are the unit's own).  The exact
   exception: for an ErrorGrammar unit only Values() are taken - when a declaration is in error, parseDeclarationError
   sets p.tt, p.data to the offending token and also appends that token to the buffer, so data repeats a token of
   Values(); for the other ErrorGrammar units data is ErrorToken/nil, the empty token of a ruleset, or the name of the
   at-rule / custom property that is in error. *)
Definition reported (r : gtype * parser) : list tok :=
  match fst r with
  | GError => pbuf (snd r)
  | _ => (ptt (snd r), pdata (snd r)) :: pbuf (snd r)
  end.

(* the result of a parser function that was entered when the lexer stood at s *)
Definition unit_ok (D : list Z) (s : Z) (g : gtype) (p' : parser) : Prop :=
  lex_reach D (pl p') /\ chain D s (reported (g, p')) (lpos (pl p')).

Lemma unit_err D s p' : lex_reach D (pl p') -> chain D s (pbuf p') (lpos (pl p')) -> unit_ok D s GError p'.
Proof. intros H1 H2. split; [exact H1|exact H2]. Qed.

Lemma chain_prefix D lo a b hi : chain D lo (a ++ b) hi -> chain D lo a hi.
Proof. intros H. destruct (chain_split D a lo b hi H) as (m & H1 & H2). eapply chain_hi; [exact H1|eapply chain_le; exact H2]. Qed.

Lemma chain_insert_ws D lo a b hi (w : bool) : chain D lo (a ++ b) hi ->
  chain D lo ((a ++ (if w then [(TWhitespace, [32])] else [])) ++ b) hi.
Proof.
  intros H. destruct w; [|rewrite app_nil_r; exact H]. destruct (chain_split D a lo b hi H) as (m & H1 & H2).
  rewrite <- app_assoc. eapply chain_app; [exact H1|]. cbn [app]. apply CH_synth; [left; split; [reflexivity|left; reflexivity]|exact H2].
Qed.

Ltac flds := unfold adjust_level, push_buf, push_st, pop_st_if_gt1;
  repeat match goal with |- context [if ?b then _ else _] => destruct b end;
  repeat match goal with |- context [match pst ?p with _ => _ end] => destruct (pst p) as [|? [|? ?]] end;
  cbn [set_st set_err set_buf set_level set_tok set_keepws set_prevws set_prevend set_prevcomment set_pl
       pl pst perr pbuf plevel ptt pdata].

Lemma at_rule_loop_o D s : forall fuel F p h fst_it sk g p', at_rule_loop fuel F p h fst_it sk = POk (g, p') ->
  lex_reach D (pl p) -> chain D s ((ptt p, pdata p) :: pbuf p) (lpos (pl p)) -> unit_ok D s g p'.
Proof.
  induction fuel as [|fuel IH]; intros F p h fst_it sk g p' H Hr Hc; cbn [at_rule_loop] in H; [discriminate|].
  pinv_bind H. destruct r as [[t d] p1]. cbn [fst snd] in H.
  destruct (pop_token_o D _ _ _ _ _ _ E Hr) as (Hr1 & Ht & Htt & Hdd & Hbb).
  pose proof (tok_at_le _ _ _ _ _ Ht) as Hle.
  assert (Hc1 : chain D s ((ptt p1, pdata p1) :: pbuf p1) (lpos (pl p1))) by (rewrite Htt, Hdd, Hbb; eapply chain_hi; eassumption).
  pif H; [ret_inv H; split; [exact Hr1|exact Hc1]|].
  pif H; [ret_inv H; split; [exact Hr1|exact Hc1]|].
  assert (Hc' : chain D s ((ptt p, pdata p) :: pbuf p) (lpos (pl p))) by exact Hc.
  pif H.
  { ret_inv H. apply unit_err; [flds; exact Hr1|].
    pose proof (chain_snoc D s _ _ _ _ _ Hc' Ht) as Hx. cbn [app] in Hx. apply chain_tail in Hx.
    flds; rewrite ?Hbb; exact Hx. }
  eapply IH; [exact H|flds; exact Hr1|].
  match goal with |- chain _ _ _ (lpos (pl ?q)) => assert (Hq : pl q = pl p1) by (flds; reflexivity); rewrite Hq end.
  flds; rewrite ?Htt, ?Hdd, ?Hbb;
    first [ exact (chain_snoc_ws D s (_ :: _) _ true _ _ _ Hc' Ht)
          | pose proof (chain_snoc_ws D s (_ :: _) _ false _ _ _ Hc' Ht) as Hx; rewrite app_nil_r in Hx; exact Hx ].
Qed.

Lemma parse_at_rule_o D s F p g p' : parse_at_rule F p = POk (g, p') ->
  lex_reach D (pl p) -> chain D s [(ptt p, pdata p)] (lpos (pl p)) -> unit_ok D s g p'.
Proof.
  unfold parse_at_rule. intros H Hr Hc. pinv_bind H. pif H; [discriminate|]. pinv_bind H.
  eapply at_rule_loop_o; [exact H|exact Hr|]. cbn [set_tok set_buf ptt pdata pbuf pl]. apply chain_lower_one. exact Hc.
Qed.

Lemma qualified_loop_o D s : forall fuel F p (fst_it : bool) ia sk g p', qualified_loop fuel F p fst_it ia sk = POk (g, p') ->
  lex_reach D (pl p) ->
  (if fst_it then pbuf p = [] /\ chain D s [(ptt p, pdata p)] (lpos (pl p))
   else synth (ptt p) (pdata p) /\ chain D s (pbuf p) (lpos (pl p))) -> unit_ok D s g p'.
Proof.
  induction fuel as [|fuel IH]; intros F p fst_it ia sk g p' H Hr Hc; cbn [qualified_loop] in H; [discriminate|].
  pinv_bind H. destruct r as [[t d] p1]. cbn [fst snd] in H.
  assert (Hx : lex_reach D (pl p1) /\ synth (ptt p1) (pdata p1) /\ exists m, chain D s (pbuf p1) m /\ chain D m [(t, d)] (lpos (pl p1))).
  { destruct fst_it.
    - apply POk_inj in E. assert (t = ptt p) by congruence. assert (d = pdata p) by congruence.
      assert (p1 = set_tok p TWhitespace []) by congruence. subst. cbn [set_tok pl ptt pdata pbuf]. destruct Hc as (Hb & Hc).
      split; [exact Hr|]. split; [left; split; [reflexivity|right; reflexivity]|]. exists s. rewrite Hb.
      split; [constructor; lia|exact Hc].
    - destruct (pop_token_o D _ _ _ _ _ _ E Hr) as (Hr1 & Ht & Htt & Hdd & Hbb). destruct Hc as (Hs & Hc).
      split; [exact Hr1|]. split; [rewrite Htt, Hdd; exact Hs|]. exists (lpos (pl p)). rewrite Hbb. split; [exact Hc|].
      apply chain_one. exact Ht. }
  destruct Hx as (Hr1 & Hs1 & m & Hb1 & Ht).
  assert (Hm : chain D s (pbuf p1) (lpos (pl p1))).
  { eapply chain_hi; [exact Hb1|]. eapply chain_le; exact Ht. }
  pif H; [ret_inv H; split; [exact Hr1|]; unfold reported; cbn [fst snd]; flds; apply CH_synth; assumption|].
  pif H; [ret_inv H; apply unit_err; [exact Hr1|cbn [set_err pbuf pl]; exact Hm]|].
  pif H.
  { ret_inv H. apply unit_err; [flds; exact Hr1|]. flds; (eapply chain_app; [exact Hb1|exact Ht]). }
  eapply IH; [exact H|flds; exact Hr1|]. cbv beta iota.
  match goal with |- _ /\ chain _ _ _ (lpos (pl ?q)) => assert (Hq : pl q = pl p1) by (flds; reflexivity); rewrite Hq end.
  split; [flds; exact Hs1|].
  flds; first [ eapply chain_app; [|exact Ht]; eapply chain_app; [exact Hb1|];
                apply synth_one; [left; split; [reflexivity|left; reflexivity]|lia]
              | eapply chain_app; [exact Hb1|exact Ht] ].
Qed.

Lemma decl_error_loop_o D s : forall fuel F p t d g p', decl_error_loop fuel F p t d = POk (g, p') ->
  lex_reach D (pl p) -> chain D s (pbuf p ++ [(t, d)]) (lpos (pl p)) -> unit_ok D s g p'.
Proof.
  induction fuel as [|fuel IH]; intros F p t d g p' H Hr Hc; rewrite decl_error_loop_eq in H.
  - pif H; [|discriminate]. cbv zeta in H. ret_inv H. apply unit_err; [flds; exact Hr|].
    flds; first [exact Hc|eapply chain_prefix; exact Hc].
  - pif H; [cbv zeta in H; ret_inv H; apply unit_err; [flds; exact Hr|flds; first [exact Hc|eapply chain_prefix; exact Hc]]|].
    cbv zeta in H. pinv_bind H. destruct r as [[t2 d2] p2]. cbn [fst snd] in H.
    match type of E0 with pop_token _ _ ?q = _ =>
      assert (Hq : pl q = pl p /\ pbuf q = (pbuf p ++ (if prevws (adjust_level p t) then [(TWhitespace, [32])] else [])) ++ [(t, d)])
        by (flds; rewrite ?app_nil_r; split; reflexivity) end.
    destruct Hq as (Hq1 & Hq2).
    destruct (pop_token_o D _ _ _ _ _ _ E0 ltac:(rewrite Hq1; exact Hr)) as (Hr2 & Ht2 & _ & _ & Hb2).
    rewrite Hq1 in Ht2.
    eapply IH; [exact H|exact Hr2|]. rewrite Hb2, Hq2. eapply chain_snoc; [|exact Ht2]. apply chain_insert_ws. exact Hc.
Qed.

Lemma parse_declaration_error_o D s F p t d g p' : parse_declaration_error F p t d = POk (g, p') ->
  lex_reach D (pl p) -> chain D s (pbuf p ++ [(t, d)]) (lpos (pl p)) -> unit_ok D s g p'.
Proof. unfold parse_declaration_error. intros H Hr Hs. eapply decl_error_loop_o; [exact H|exact Hr|exact Hs]. Qed.

Lemma drop_ws_chain D lo hi : forall b, chain D lo b hi -> chain D lo (drop_ws b) hi.
Proof.
  induction b as [|x b IH]; intros H; cbn [drop_ws]; [exact H|].
  destruct (is_wstok x); [apply IH; eapply chain_tail; exact H|exact H].
Qed.

Lemma compact_chain D lo hi : forall rest out, chain D lo (rev out ++ rest) hi -> chain D lo (compact out rest) hi.
Proof.
  assert (Hn : forall n rest out, (length rest <= n)%nat -> chain D lo (rev out ++ rest) hi -> chain D lo (compact out rest) hi).
  { induction n as [|n IH]; intros rest out Hl Hc.
    - destruct rest; [cbn [compact]; rewrite app_nil_r in Hc; exact Hc|cbn in Hl; lia].
    - destruct rest as [|t rest']; cbn [compact]; [rewrite app_nil_r in Hc; exact Hc|]. cbn [length] in Hl.
      assert (Hkeep : chain D lo (rev (t :: out) ++ rest') hi) by (cbn [rev]; rewrite <- app_assoc; exact Hc).
      assert (Hdrop : chain D lo (rev out ++ rest') hi) by (eapply chain_remove; exact Hc).
      destruct (is_wstok t).
      + destruct (match out with last :: _ => punct last | [] => false end); [apply IH; [lia|exact Hdrop]|].
        destruct rest' as [|nxt rest''].
        * apply IH; [cbn; lia|exact Hkeep].
        * cbn [length] in Hl. destruct (punct nxt); [apply IH; [cbn [length]; lia|exact Hdrop]|].
          apply IH; [lia|]. cbn [rev]. rewrite <- !app_assoc. cbn [app]. exact Hc.
      + apply IH; [lia|exact Hkeep]. }
  intros rest out. apply (Hn (length rest)). lia.
Qed.

Lemma sel_compact_chain D lo hi : forall rest out ia, chain D lo (rev out ++ rest) hi -> chain D lo (sel_compact out ia rest) hi.
Proof.
  induction rest as [|t rest IH]; intros out ia Hc; cbn [sel_compact].
  - rewrite app_nil_r in Hc. exact Hc.
  - destruct (is_wstok t && _).
    + apply IH. eapply chain_remove; exact Hc.
    + apply IH. cbn [rev]. rewrite <- app_assoc. exact Hc.
Qed.

Lemma chain_cons_sub D lo x A A' hi : chain D lo (x :: A) hi ->
  (forall lo', chain D lo' A hi -> chain D lo' A' hi) -> chain D lo (x :: A') hi.
Proof.
  intros H Hsub. inversion H as [|? ? ? ? ? Hs Hc|? ? ? a b ? ? Ha Hs Hc]; subst.
  - apply CH_synth; [exact Hs|apply Hsub; exact Hc].
  - eapply CH_src; [exact Ha|exact Hs|apply Hsub; exact Hc].
Qed.

Lemma chain_lower_hd D lo t d A hi : chain D lo ((t, d) :: A) hi -> chain D lo ((t, to_lower d) :: A) hi.
Proof.
  intros H. change ((t, d) :: A) with ([(t, d)] ++ A) in H. destruct (chain_split D _ _ _ _ H) as (m & H1 & H2).
  change ((t, to_lower d) :: A) with ([(t, to_lower d)] ++ A). eapply chain_app; [apply chain_lower_one; exact H1|exact H2].
Qed.

Lemma declaration_loop_o D s : forall fuel F p g p', declaration_loop fuel F p = POk (g, p') ->
  lex_reach D (pl p) -> (exists rest, pbuf p = (ptt p, pdata p) :: rest) -> chain D s (pbuf p) (lpos (pl p)) ->
  unit_ok D s g p'.
Proof.
  induction fuel as [|fuel IH]; intros F p g p' H Hr (rest & Hb) Hc; cbn [declaration_loop] in H; [discriminate|].
  pinv_bind H. destruct r as [[t d] p1]. cbn [fst snd] in H.
  destruct (pop_token_o D _ _ _ _ _ _ E Hr) as (Hr1 & Ht & Htt & Hdd & Hbb).
  pose proof (tok_at_le _ _ _ _ _ Ht) as Hle. pose proof (chain_le _ _ _ _ Hc) as Hsle.
  assert (Hc1 : chain D s (pbuf p1) (lpos (pl p1))) by (rewrite Hbb; eapply chain_hi; eassumption).
  assert (Herr : forall g p', parse_declaration_error F (set_err p1 true) t d = POk (g, p') -> unit_ok D s g p').
  { intros g0 p0 H0. eapply parse_declaration_error_o; [exact H0|exact Hr1|].
    cbn [set_err pbuf pl]. rewrite Hbb. eapply chain_snoc; [exact Hc|exact Ht]. }
  pif H.
  - rewrite Hbb, Hb in H. rewrite Hbb, Hb in Hc1.
    destruct (drop_ws rest) as [|c vals] eqn:Edw; [eapply Herr; exact H|].
    pif H; [|eapply Herr; exact H]. ret_inv H.
    split; [exact Hr1|]. unfold reported. cbn [fst snd set_prevend set_tok set_buf ptt pdata pbuf pl].
    rewrite Htt, Hdd. apply chain_lower_hd. eapply chain_cons_sub; [exact Hc1|].
    intros lo' Hx. apply (compact_chain D lo' _ (drop_ws vals) []). cbn [rev app]. apply drop_ws_chain.
    apply drop_ws_chain in Hx. rewrite Edw in Hx. eapply chain_tail; exact Hx.
  - pif H.
    { ret_inv H. split; [exact Hr1|]. unfold reported. cbn [fst snd push_st set_st set_tok set_buf ptt pdata pbuf pl].
      apply CH_synth; [left; split; [reflexivity|right; reflexivity]|]. apply sel_compact_chain. exact Hc1. }
    pif H; [eapply Herr; exact H|].
    pinv_bind H. eapply IH; [exact H|flds; exact Hr1| |].
    + exists (rest ++ (if (prevws (adjust_level p1 t) || prevcomment (adjust_level p1 t)) && negb (is_wstok r) then [(TWhitespace, [32])] else []) ++ [(t, d)]).
      flds; rewrite ?Htt, ?Hdd, ?Hbb, Hb; cbn [app]; rewrite <- ?app_assoc; reflexivity.
    + match goal with |- chain _ _ _ (lpos (pl ?q)) => assert (Hq : pl q = pl p1) by (flds; reflexivity); rewrite Hq end.
      flds; rewrite ?Hbb;
        first [ exact (chain_snoc_ws D s _ _ true _ _ _ Hc Ht)
              | pose proof (chain_snoc_ws D s _ _ false _ _ _ Hc Ht) as Hx; rewrite app_nil_r in Hx; exact Hx ].
Qed.

Lemma parse_declaration_o D s F p g p' : parse_declaration F p = POk (g, p') ->
  lex_reach D (pl p) -> chain D s [(ptt p, pdata p)] (lpos (pl p)) -> unit_ok D s g p'.
Proof.
  unfold parse_declaration. cbv zeta. intros H Hr Hc. eapply declaration_loop_o; [exact H| | |]; flds; eauto.
Qed.

Lemma reach_pos D z : lex_reach D z -> 0 <= lpos z <= len D.
Proof. intros H. destruct (lex_reach_inv D z H) as (Hi & Hd). destruct (inv_data _ Hi) as (_ & Hl & Hp). rewrite Hd in Hl. lia. Qed.

Lemma custom_loop_o D s : forall fuel p val g p', custom_loop fuel p val = POk (g, p') -> lex_reach D (pl p) ->
  pbuf p = [] -> forall m, chain D s [(ptt p, pdata p)] m ->
  (exists a, 0 <= a /\ m <= a <= lpos (pl p) /\ val = slice D a (lpos (pl p))) -> unit_ok D s g p'.
Proof.
  induction fuel as [|fuel IH]; intros p val g p' H Hr Hb m Hc (a & Ha0 & Ha & Hval); cbn [custom_loop] in H; [discriminate|].
  pinv_bind H. destruct r as [[t d] p1]. cbn [fst snd] in H.
  destruct (lex_next_o D _ _ _ _ E Hr) as (Hp1 & Hr1 & Ht & Hd & Hpos).
  pose proof (chain_le _ _ _ _ Hc) as Hsm.
  pif H.
  - ret_inv H. split; [flds; exact Hr1|]. unfold reported. cbn [fst snd]. rewrite Hp1. flds. rewrite Hb. cbn [app].
    match goal with |- chain _ _ (?x :: ?y :: nil) _ => change (x :: y :: nil) with ([x] ++ [y]) end.
    eapply chain_app; [exact Hc|]. try rewrite Hval. eapply CH_src; [|apply S_custom|constructor]; lia.
  - pif H.
    { ret_inv H. apply unit_err; [flds; exact Hr1|]. rewrite Hp1. flds. rewrite Hb. cbn [app]. apply chain_one.
      eapply tok_at_lo; [exact Ht|lia]. }
    assert (Hpl : pl (adjust_level p1 t) = pl p1) by (flds; reflexivity).
    eapply (IH _ _ _ _ H); [rewrite Hpl; exact Hr1| | |].
    + rewrite Hp1. flds; exact Hb.
    + rewrite Hp1. flds; exact Hc.
    + exists a. rewrite Hpl. split; [lia|]. split; [lia|]. rewrite Hval, Hd. apply slice_app; lia.
Qed.

Lemma parse_custom_property_o D s F p g p' : parse_custom_property F p = POk (g, p') ->
  lex_reach D (pl p) -> chain D s [(ptt p, pdata p)] (lpos (pl p)) -> unit_ok D s g p'.
Proof.
  unfold parse_custom_property. intros H Hr Hc. pinv_bind H. destruct r as [[t d] p1]. cbn [fst snd] in H.
  destruct (pop_token_o D _ _ _ _ _ _ E Hr) as (Hr1 & Ht & Htt & Hdd & Hbb). cbn [set_buf pl ptt pdata pbuf] in *.
  pose proof (tok_at_le _ _ _ _ _ Ht) as Hle. pose proof (chain_le _ _ _ _ Hc) as Hsle.
  pif H; [ret_inv H; apply unit_err; [exact Hr1|cbn [set_err pl pbuf]; rewrite Hbb; constructor; lia]|].
  eapply (custom_loop_o D s _ _ _ _ _ H Hr1 Hbb (lpos (pl p))); [rewrite Htt, Hdd; exact Hc|].
  exists (lpos (pl p1)). pose proof (reach_pos D _ Hr1). split; [lia|]. split; [lia|]. symmetry. apply slice_empty.
Qed.

(* the data token after re-reading it *)
Definition dat (D : list Z) (s : Z) (p : parser) : Prop :=
  lex_reach D (pl p) /\ chain D s [(ptt p, pdata p)] (lpos (pl p)) /\ pbuf p = [].

Lemma dat_pop D s F allow p t d p' : pop_token F allow p = POk (t, d, p') -> dat D s p -> dat D s (set_tok p' t d).
Proof.
  intros H (Hr & Hc & Hb). destruct (pop_token_o D _ _ _ _ _ _ H Hr) as (Hr1 & Ht & _ & _ & Hbb).
  split; [exact Hr1|]. cbn [set_tok ptt pdata pl pbuf]. split; [|rewrite Hbb; exact Hb].
  apply chain_one. eapply tok_at_lo; [exact Ht|]. eapply chain_le; exact Hc.
Qed.

Lemma skip_semicolons_o D s : forall fuel F p p', skip_semicolons fuel F p = POk p' -> dat D s p -> dat D s p'.
Proof.
  induction fuel as [|fuel IH]; intros F p p' H Hc; rewrite skip_semicolons_eq in H.
  - pif H; [discriminate|]. apply POk_inj in H. subst. exact Hc.
  - pif H; [|apply POk_inj in H; subst; exact Hc].
    pinv_bind H. destruct r as [[t d] p1]. cbn [fst snd] in H.
    eapply IH; [exact H|]. eapply dat_pop; eassumption.
Qed.

Lemma parse_declaration_list_o D s F p g p' : parse_declaration_list F p = POk (g, p') -> dat D s p -> unit_ok D s g p'.
Proof.
  unfold parse_declaration_list. intros H Hc.
  pinv_bind H. rename r into q1.
  assert (Hc1 : dat D s q1).
  { pif E.
    - pinv_bind E. destruct r as [[t d] p1]. cbn [fst snd] in E. apply POk_inj in E. subst q1. eapply dat_pop; eassumption.
    - apply POk_inj in E. subst. exact Hc. }
  pinv_bind H. rename r into q2. pose proof (skip_semicolons_o D s _ _ _ _ E0 Hc1) as Hc2.
  pinv_bind H. rename r into q3.
  assert (Hc3 : dat D s q3).
  { pif E1; [|apply POk_inj in E1; subst; exact Hc2].
    pinv_bind E1. pif E1; [|apply POk_inj in E1; subst; exact Hc2].
    pinv_bind E1. destruct r0 as [[t d] p1]. cbn [fst snd] in E1. cbv zeta in E1.
    destruct Hc2 as (Hr2 & Hch2 & Hb2).
    destruct (pop_token_o D _ _ _ _ _ _ E5 Hr2) as (Hr1 & Ht & Htt & Hdd & Hbb).
    pif E1; apply POk_inj in E1; subst q3.
    - split; [exact Hr1|]. cbn [set_tok ptt pdata pl pbuf]. split; [|rewrite Hbb; exact Hb2]. rewrite Hdd.
      apply is_t_eq in E2.
      destruct (chain_one_src D s _ _ _ Hch2) as (a & b & Ha & Hs & Hb); try (rewrite E2; discriminate).
      destruct Ht as [(-> & _)|(a' & Ha' & Hs')]; [discriminate E6|].
      eapply CH_src; [exact Ha| |].
      { eapply S_glued; [rewrite <- E2; exact Hs|exact Hs'|lia]. }
      apply CH_nil. lia.
    - split; [exact Hr1|]. split; [|rewrite Hbb; exact Hb2]. rewrite Htt, Hdd. eapply chain_hi; [exact Hch2|]. eapply tok_at_le; exact Ht. }
  cbv zeta in H. destruct Hc3 as (Hr3 & Hch3 & Hb3). pose proof (chain_le _ _ _ _ Hch3) as Hs3.
  pif H; [ret_inv H; apply unit_err; [exact Hr3|rewrite Hb3; constructor; exact Hs3]|].
  pif H; [eapply parse_at_rule_o; eassumption|].
  pif H; [eapply parse_declaration_o; eassumption|].
  pif H; [eapply parse_custom_property_o; eassumption|].
  pif H; [ret_inv H; apply unit_err; [flds; exact Hr3|flds; exact Hch3]|].
  eapply parse_declaration_error_o; [exact H|flds; exact Hr3|flds; exact Hch3].
Qed.

Lemma parse_qualified_rule_o D s F p g p' : parse_qualified_rule F p = POk (g, p') -> dat D s p -> unit_ok D s g p'.
Proof.
  unfold parse_qualified_rule. intros H (Hr & Hc & _). eapply qualified_loop_o; [exact H|exact Hr|]. cbn [set_buf pbuf ptt pdata pl].
  split; [reflexivity|exact Hc].
Qed.

(* a unit that reports its token only: Values() are empty *)
Lemma unit_data D s g p p' : dat D s p -> pl p' = pl p -> ptt p' = ptt p -> pdata p' = pdata p -> pbuf p' = pbuf p ->
  g <> GError -> unit_ok D s g p'.
Proof.
  intros (Hr & Hc & Hb) H1 H2 H3 H4 Hg. split; [rewrite H1; exact Hr|].
  assert (E : reported (g, p') = [(ptt p', pdata p')]) by (unfold reported; destruct g; cbn [fst snd]; try congruence; rewrite H4, Hb; reflexivity).
  rewrite E, H1, H2, H3. exact Hc.
Qed.

Lemma pop_st_f p p' : pop_st p = POk p' -> pl p' = pl p /\ ptt p' = ptt p /\ pdata p' = pdata p /\ pbuf p' = pbuf p.
Proof. unfold pop_st. intros H. destruct (pst p); [discriminate|]. apply POk_inj in H. subst. repeat split. Qed.

(* one call of Next: the tokens it reports lie, in order, between the lexer positions before and after the call *)
Lemma parse_next_o D p g p' : parse_next p = POk (g, p') -> lex_reach D (pl p) -> unit_ok D (lpos (pl p)) g p'.
Proof.
  unfold parse_next. cbv zeta. intros H Hr. pinv_bind H. rename r into p1.
  set (s := lpos (pl p)) in *.
  assert (Hc1 : dat D s p1).
  { pif E.
    - apply POk_inj in E. subst p1. split; [exact Hr|]. cbn [set_prevend set_tok set_err set_buf ptt pdata pl pbuf].
      split; [|reflexivity]. apply synth_one; [right; left; split; reflexivity|unfold s; lia].
    - pinv_bind E. destruct r as [[t d] q]. cbn [fst snd] in E. apply POk_inj in E. subst p1.
      destruct (pop_token_o D _ _ _ _ _ _ E1 Hr) as (Hrq & Ht & _ & _ & Hbq). split; [exact Hrq|]. cbn [set_tok ptt pdata pl pbuf].
      split; [|rewrite Hbq; reflexivity]. apply chain_one. exact Ht. }
  pose proof Hc1 as (Hr1 & Hch1 & Hb1).
  destruct (pst p1) as [|st rest]; [discriminate|]. destruct st.
  - unfold parse_stylesheet in H.
    pif H; [ret_inv H; eapply unit_data; [exact Hc1| | | | |discriminate]; reflexivity|]. pif H; [eapply parse_at_rule_o; eassumption|].
    pif H; [ret_inv H; eapply unit_data; [exact Hc1| | | | |discriminate]; reflexivity|]. pif H; [eapply parse_custom_property_o; eassumption|].
    pif H; [ret_inv H; apply unit_err; [exact Hr1|rewrite Hb1; constructor; eapply chain_le; exact Hch1]|]. eapply parse_qualified_rule_o; eassumption.
  - eapply parse_declaration_list_o; eassumption.
  - unfold parse_at_rule_rule_list in H. pif H.
    + pinv_bind H. ret_inv H. destruct (pop_st_f _ _ E1) as (F1 & F2 & F3 & F4). eapply unit_data; [exact Hc1| | | | |discriminate]; assumption.
    + pif H; [eapply parse_at_rule_o; eassumption|eapply parse_qualified_rule_o; eassumption].
  - unfold parse_at_rule_declaration_list in H. pinv_bind H. pose proof (skip_semicolons_o D s _ _ _ _ E0 Hc1) as Hc2.
    cbv zeta in H. pif H.
    + pinv_bind H. ret_inv H. destruct (pop_st_f _ _ E2) as (F1 & F2 & F3 & F4). eapply unit_data; [exact Hc2| | | | |discriminate]; assumption.
    + eapply parse_declaration_list_o; eassumption.
  - unfold parse_at_rule_unknown in H. cbv zeta in H. pif H.
    + pinv_bind H. ret_inv H. destruct (pop_st_f _ _ E1) as (F1 & F2 & F3 & F4).
      eapply unit_data; [exact Hc1| | | | |discriminate]; cbn [set_keepws pl ptt pdata pbuf] in *; assumption.
    + ret_inv H. eapply unit_data; [exact Hc1| | | | |discriminate]; flds; reflexivity.
  - unfold parse_qualified_rule_declaration_list in H. pinv_bind H. pose proof (skip_semicolons_o D s _ _ _ _ E0 Hc1) as Hc2.
    cbv zeta in H. pif H.
    + pinv_bind H. ret_inv H. destruct (pop_st_f _ _ E2) as (F1 & F2 & F3 & F4). eapply unit_data; [exact Hc2| | | | |discriminate]; assumption.
    + eapply parse_declaration_list_o; eassumption.
Qed.

Lemma order_run D : forall n p tr, parse_run n p = POk tr -> lex_reach D (pl p) ->
  chain D (lpos (pl p)) (concat (map reported tr)) (len D).
Proof.
  induction n as [|n IH]; intros p tr H Hr; cbn [parse_run] in H.
  - apply POk_inj in H. subst. constructor. apply (reach_pos D _ Hr).
  - pinv_bind H. destruct r as [g p1]. cbn [snd] in H. pinv_bind H. apply POk_inj in H. subst tr.
    destruct (parse_next_o D _ _ _ E Hr) as (Hr1 & Hc1). cbn [map concat].
    eapply chain_app; [exact Hc1|]. eapply IH; eassumption.
Qed.

(* C08 (source order): along every run, in both modes, the tokens reported through data and Values() - the
   synthesised ones dropped, lower-cased copies and custom-property values mapped to the source bytes they stem from,
   the IE-hack token mapped to the span of its two source tokens - stem from pairwise disjoint, increasing intervals
   of the input: they are reported in source order and none twice. *)
Lemma cssparse_source_order_proof : forall d inline n tr, parse_run n (new_parser d inline) = POk tr ->
  chain d 0 (concat (map reported tr)) (len d).
Proof.
  intros d inline n tr H. pose proof (order_run d n _ _ H (LR_init d)) as Hc.
  replace (lpos (pl (new_parser d inline))) with 0 in Hc by reflexivity. exact Hc.
Qed.

