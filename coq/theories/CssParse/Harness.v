(* CssParse/Harness.v — correspondence driver for the CSS parser model (C08). *)
From Verif Require Import Common.Base Common.Codec Common.Lx Css.Model CssParse.Model.

Fixpoint enc_toks (l : list tok) : list Z :=
  match l with
  | [] => []
  | (t, d) :: r => tt_code t :: len d :: d ++ enc_toks r
  end.

(* per Next call: grammar type, token type, len(data), data, number of Values(), the values, Err() kind,
   Offset().  The driver goes on after parse errors; it stops [extra] calls after the first ErrorGrammar
   without a pending parse error (-2).  -1 = panic, -4 = the model ran out of fuel, -3 = call budget exhausted. *)
Fixpoint parse_enc (fuel : nat) (p : parser) (extra : nat) : list Z :=
  match fuel with
  | O => [-3]
  | S f =>
      match parse_next p with
      | PPanic => [-1]
      | PFuel => [-4]
      | POk (g, p') =>
          gt_code g :: tt_code (ptt p') :: len (pdata p') :: pdata p' ++
          len (pbuf p') :: enc_toks (pbuf p') ++ perr_code p' :: lpos (pl p') ::
          (if (gt_code g =? 0) && negb (perr p') then
             match extra with O => [-2] | S e => parse_enc f p' e end
           else parse_enc f p' extra)
      end
  end.

(* case: inline |d| d *)
Definition run_cssparse (l : list Z) : list Z :=
  let inline := negb (hdz l =? 0) in
  let '(d, _) := take_list (tlz l) in
  parse_enc (2 * length d + 8) (new_parser d inline) 2.

(* case: |s| s -> ToHash(s) *)
Definition run_csshash (l : list Z) : list Z :=
  let '(s, _) := take_list l in
  match to_hash s with Some h => [h] | None => [-1] end.
