(* CssParse/WellFormed.v — C08 (partial): for stylesheets of a small well-formed grammar the parser yields exactly
   the units of the source.  Grammar (on the lexer's token list, no whitespace or comments):
       stylesheet ::= rule*        rule ::= Ident '{' decl* '}'        decl ::= Ident ':' value ';'
   where value is one token of type Ident / Number / Dimension / Percentage / Hash / String. *)
From Verif Require Import Common.Base Common.Tactics Common.Lx Css.Model Css.Basics Css.Bounds Css.Proofs Css.Agree.
From Verif Require Import CssParse.Model CssParse.Hash CssParse.Proofs CssParse.Trace CssParse.Conserve.
From Coq Require Import ZifyBool.

(* the lexer, started at z, returns exactly the tokens toks and then the end of input *)
Definition lexes (z : lx) (toks : list tok) : Prop := exists f, css_lex_from f z = LexDone toks.

Lemma lexes_cons z t b ts : lexes z ((t, b) :: ts) ->
  exists z', css_next z = Some (t, b, z') /\ lexes z' ts /\ is_err t = false.
Proof.
  intros (f & Hf). destruct f as [|f]; [discriminate|]. cbn [css_lex_from] in Hf.
  destruct (css_next z) as [[[ty b'] z']|]; [|discriminate]. destruct (is_err ty) eqn:E; [discriminate|].
  destruct (css_lex_from f z') as [ts'| |] eqn:E2; try discriminate.
  assert (ty = t) by congruence. assert (b' = b) by congruence. assert (ts' = ts) by congruence. subst.
  exists z'. split; [reflexivity|]. split; [exists f; exact E2|exact E].
Qed.

Lemma lexes_nil z : lexes z [] -> exists b z', css_next z = Some (TError, b, z').
Proof.
  intros (f & Hf). destruct f as [|f]; [discriminate|]. cbn [css_lex_from] in Hf.
  destruct (css_next z) as [[[ty b'] z']|]; [|discriminate]. destruct (is_err ty) eqn:E.
  - destruct ty; try discriminate E. eauto.
  - destruct (css_lex_from f z'); discriminate.
Qed.

Lemma pop_loop_eq fuel allow p t d : pop_loop fuel allow p t d =
  if (negb (keepws p) && is_t t TWhitespace) || is_t t TComment then
    match fuel with
    | O => PFuel
    | S f =>
        let p1 := if is_t t TWhitespace then set_prevws p true else set_prevcomment p true in
        if is_t t TComment && allow && (len (pst p) =? 1) then POk (t, d, p1)
        else r <-- lex_next p1 ;; pop_loop f allow (snd r) (fst (fst r)) (snd (fst r))
    end
  else POk (t, d, p).
Proof. destruct fuel; reflexivity. Qed.

Definition plain_tok (t : ttype) : bool := negb (is_t t TWhitespace) && negb (is_t t TComment).

(* popToken on a token that is neither whitespace nor a comment *)
Lemma pop_token_plain F allow p t b ts : lexes (pl p) ((t, b) :: ts) -> plain_tok t = true ->
  exists z', pop_token F allow p = POk (t, b, relex p z' false false) /\ lexes z' ts /\ css_next (pl p) = Some (t, b, z').
Proof.
  intros Hl Hp. destruct (lexes_cons _ _ _ _ Hl) as (z' & Hn & Hl' & _).
  exists z'. split; [|split; assumption]. unfold pop_token, lex_next. cbn [set_prevcomment set_prevws pl]. rewrite Hn.
  cbn [pbind fst snd]. rewrite pop_loop_eq. unfold plain_tok in Hp. apply andb_true_iff in Hp. destruct Hp as [H1 H2].
  apply negb_true_iff in H1. apply negb_true_iff in H2. rewrite H1, H2. rewrite andb_false_r. cbn [orb].
  destruct p; reflexivity.
Qed.

Lemma pop_token_eof F allow p : lexes (pl p) [] ->
  exists b z', pop_token F allow p = POk (TError, b, relex p z' false false).
Proof.
  intros Hl. destruct (lexes_nil _ Hl) as (b & z' & Hn). exists b, z'.
  unfold pop_token, lex_next. cbn [set_prevcomment set_prevws pl]. rewrite Hn. cbn [pbind fst snd]. rewrite pop_loop_eq.
  change (is_t TError TWhitespace) with false. change (is_t TError TComment) with false. rewrite andb_false_r. cbn [orb].
  destruct p; reflexivity.
Qed.

(* --- the parser between two units of the grammar ----------------------------------------------------------------- *)
Definition wf_state (p : parser) (st : list pstate) (toks : list tok) : Prop :=
  css_inv (pl p) /\ lexes (pl p) toks /\ pst p = st /\ plevel p = 0 /\ prevend p = false /\ keepws p = false /\
  isstyle p = true.

(* ... when the previous unit has already read the '}' that closes the innermost block (p.prevEnd) *)
Definition wf_pend (p : parser) (st : list pstate) (toks : list tok) : Prop :=
  css_inv (pl p) /\ lexes (pl p) toks /\ pst p = st /\ plevel p = 0 /\ prevend p = true /\ keepws p = false /\
  isstyle p = true.
(* a unit is ended by ';' or by the '}' of its block *)
Definition term_ok (tb : tok) : Prop := fst tb = TSemicolon \/ fst tb = TRightBrace.
Definition wf_after (tb : tok) (p : parser) (st : list pstate) (toks : list tok) : Prop :=
  if is_t (fst tb) TRightBrace then wf_pend p st toks else wf_state p st toks.

Definition is_val (t : ttype) : bool :=
  match t with TIdent | TNumber | TDimension | TPercentage | THash | TString => true | _ => false end.

Ltac evis :=
  repeat match goal with
  | |- context [is_t ?a ?b] =>
      let v := eval vm_compute in (is_t a b) in
      match v with true => idtac | false => idtac end; change (is_t a b) with v
  end.

Lemma next_fuel_S p t b z' : css_inv (pl p) -> css_next (pl p) = Some (t, b, z') -> is_err t = false ->
  exists k, next_fuel p = S (S (S k)) /\ css_inv z'.
Proof.
  intros Hi Hn Ht. destruct (css_next_step _ Hi) as [(_ & Hn')|(ty & b' & z2 & Hn' & _ & Hi2 & _ & Hp & _)]; rewrite Hn in Hn'.
  - assert (t = TError) by congruence. subst. discriminate.
  - assert (z2 = z') by congruence. subst z2. split with (Z.to_nat (lx_len (pl p) - lpos (pl p)) - 1)%nat.
    split; [unfold next_fuel; lia|exact Hi2].
Qed.

Lemma relex_fields p z ws cm : pst (relex p z ws cm) = pst p /\ plevel (relex p z ws cm) = plevel p /\
  prevend (relex p z ws cm) = prevend p /\ keepws (relex p z ws cm) = keepws p /\ isstyle (relex p z ws cm) = isstyle p /\
  pl (relex p z ws cm) = z /\ prevws (relex p z ws cm) = ws /\ prevcomment (relex p z ws cm) = cm /\
  pbuf (relex p z ws cm) = pbuf p /\ ptt (relex p z ws cm) = ptt p /\ pdata (relex p z ws cm) = pdata p /\
  perr (relex p z ws cm) = perr p.
Proof. repeat split. Qed.

Lemma css_inv_next z t b z' : css_inv z -> css_next z = Some (t, b, z') -> css_inv z'.
Proof.
  intros Hi Hn. destruct (css_total_proof z Hi) as (t2 & b2 & z2 & Hn2 & Hi2). rewrite Hn in Hn2.
  assert (z2 = z') by congruence. subst. exact Hi2.
Qed.

(* a gap between two tokens of the grammar: whitespace and comment tokens (true = comment) *)
Definition ws_t := list (bool * list Z).
Definition gtok (x : bool * list Z) : tok := (if fst x then TComment else TWhitespace, snd x).
Definition optws (o : ws_t) : list tok := map gtok o.
Definition isws (o : ws_t) : bool := existsb (fun x => negb (fst x)) o.       (* it contains whitespace *)
Definition iscm (o : ws_t) : bool := existsb (fun x => fst x) o.              (* it contains a comment *)
Definition issp (o : ws_t) : bool := isws o || iscm o.                        (* it is not empty *)

(* enough fuel for the loop of popToken: one unit per token that is left *)
Definition fuel_ok (F : nat) (z : lx) : Prop := (Z.to_nat (lx_len z - lpos z) < F)%nat.
Definition cinv (F : nat) (z : lx) : Prop := css_inv z /\ fuel_ok F z.

Lemma cinv_next F z t b z' : cinv F z -> css_next z = Some (t, b, z') -> is_err t = false ->
  cinv F z' /\ (Z.to_nat (lx_len z' - lpos z') < Z.to_nat (lx_len z - lpos z))%nat.
Proof.
  intros (Hi & Hf) Hn He. destruct (css_next_step z Hi) as [(_ & Hn')|(ty & b' & z2 & Hn' & _ & Hi2 & Hbuf & Hp & _)]; rewrite Hn in Hn'.
  - assert (t = TError) by congruence. subst. discriminate.
  - assert (z2 = z') by congruence. subst z2. assert (Hlen : lx_len z' = lx_len z) by (unfold lx_len; rewrite Hbuf; reflexivity).
    split; [split; [exact Hi2|]|]; unfold fuel_ok in *; rewrite Hlen; lia.
Qed.

(* comments are handed out only by popToken(true) at the top level; everywhere else they are skipped *)
Definition cm_out (allow : bool) (p : parser) : bool := allow && (len (pst p) =? 1).

(* lex one token, then the loop of popToken *)
Definition pop_from (f : nat) (allow : bool) (p : parser) : pres (ttype * list Z * parser) :=
  r <-- lex_next p ;; pop_loop f allow (snd r) (fst (fst r)) (snd (fst r)).

Lemma pop_from_gap F allow t b ts : forall g f p w c,
  css_inv (pl p) -> (Z.to_nat (lx_len (pl p) - lpos (pl p)) <= f)%nat -> fuel_ok F (pl p) ->
  prevws p = w -> prevcomment p = c -> lexes (pl p) (optws g ++ (t, b) :: ts) ->
  (isws g = true -> keepws p = false) -> (iscm g = true -> cm_out allow p = false) ->
  negb (keepws p) && is_t t TWhitespace = false -> (is_t t TComment = true -> cm_out allow p = true) ->
  exists z', pop_from f allow p = POk (t, b, relex p z' (w || isws g) (c || iscm g || is_t t TComment)) /\
    lexes z' ts /\ cinv F z'.
Proof.
  induction g as [|[cx bx] g IH]; intros f p w c Hi Hf HF Hw Hc Hl Hsk Hcm Hrw Hrc; cbn [optws map app] in Hl.
  - destruct (lexes_cons _ _ _ _ Hl) as (z' & Hn & Hl' & He).
    destruct (cinv_next F _ _ _ _ (conj Hi HF) Hn He) as (Hi' & Hlt).
    exists z'. split; [|split; assumption]. unfold pop_from, lex_next. rewrite Hn. cbn [pbind fst snd]. rewrite pop_loop_eq.
    cbn [set_pl keepws]. rewrite Hrw. cbn [orb isws iscm existsb]. rewrite !orb_false_r.
    destruct (is_t t TComment) eqn:Et.
    + assert (Hco : cm_out allow p = true) by (apply Hrc; reflexivity). unfold cm_out in Hco.
      apply is_t_eq in Et. subst t. cbn [orb]. destruct f as [|f']; [lia|].
      change (is_t TComment TComment) with true. change (is_t TComment TWhitespace) with false. cbn [andb set_pl pst]. rewrite Hco.
      rewrite orb_true_r. subst w c. destruct p; reflexivity.
    + cbn [orb]. rewrite orb_false_r. subst w c. destruct p; reflexivity.
  - destruct (lexes_cons _ _ _ _ Hl) as (z1 & Hn & Hl1 & He).
    destruct (cinv_next F _ _ _ _ (conj Hi HF) Hn He) as ((Hi1 & HF1) & Hlt).
    unfold pop_from, lex_next. rewrite Hn. cbn [pbind fst snd gtok]. rewrite pop_loop_eq. cbn [set_pl keepws].
    destruct f as [|f']; [lia|].
    destruct cx; cbn [fst snd].
    + (* a comment *)
      change (is_t TComment TWhitespace) with false. change (is_t TComment TComment) with true. rewrite andb_false_r. cbn [orb andb].
      assert (Hco : cm_out allow p = false) by (apply Hcm; reflexivity). unfold cm_out in Hco. cbn [set_pl pst]. rewrite Hco.
      set (p1 := set_prevcomment (set_pl p z1) true).
      assert (A2 : (Z.to_nat (lx_len (pl p1) - lpos (pl p1)) <= f')%nat) by (change (pl p1) with z1; lia).
      assert (A4 : prevws p1 = w) by exact Hw.
      assert (A7 : isws g = true -> keepws p1 = false) by (intros H; apply Hsk; exact H).
      assert (A8 : iscm g = true -> cm_out allow p1 = false) by (intros _; unfold cm_out; exact Hco).
      destruct (IH f' p1 w true Hi1 A2 HF1 A4 eq_refl Hl1 A7 A8 Hrw Hrc) as (z' & Hrun & Hl' & Hi').
      exists z'. split; [|split; assumption]. fold (pop_from f' allow p1). rewrite Hrun.
      cbn [isws iscm existsb fst negb orb]. rewrite !orb_true_r. cbn [orb]. destruct p; reflexivity.
    + (* whitespace *)
      assert (Hk : keepws p = false) by (apply Hsk; reflexivity). rewrite Hk.
      change (is_t TWhitespace TWhitespace) with true. change (is_t TWhitespace TComment) with false. cbn [negb andb orb].
      set (p1 := set_prevws (set_pl p z1) true).
      assert (A2 : (Z.to_nat (lx_len (pl p1) - lpos (pl p1)) <= f')%nat) by (change (pl p1) with z1; lia).
      assert (A5 : prevcomment p1 = c) by exact Hc.
      assert (A7 : isws g = true -> keepws p1 = false) by (intros _; exact Hk).
      assert (A8 : iscm g = true -> cm_out allow p1 = false) by (intros H; apply Hcm; exact H).
      destruct (IH f' p1 true c Hi1 A2 HF1 eq_refl A5 Hl1 A7 A8 Hrw Hrc) as (z' & Hrun & Hl' & Hi').
      exists z'. split; [|split; assumption]. fold (pop_from f' allow p1). rewrite Hrun.
      cbn [isws iscm existsb fst negb orb]. rewrite !orb_true_r. cbn [orb]. destruct p; reflexivity.
Qed.

Lemma lexes_fuel F z L : cinv F z -> lexes z L -> (Z.to_nat (lx_len z - lpos z) <= F)%nat.
Proof. intros (_ & HF) _. unfold fuel_ok in HF. lia. Qed.

(* popToken on a gap followed by a token that it hands out *)
Lemma pop_token_gap F allow p g t b ts : cinv F (pl p) -> lexes (pl p) (optws g ++ (t, b) :: ts) ->
  (isws g = true -> keepws p = false) -> (iscm g = true -> cm_out allow p = false) ->
  negb (keepws p) && is_t t TWhitespace = false -> (is_t t TComment = true -> cm_out allow p = true) ->
  exists z', pop_token F allow p = POk (t, b, relex p z' (isws g) (iscm g || is_t t TComment)) /\ lexes z' ts /\ cinv F z'.
Proof.
  intros (Hi & HF) Hl Hsk Hcm Hrw Hrc.
  destruct (pop_from_gap F allow t b ts g F (set_prevcomment (set_prevws p false) false) false false) as (z' & Hrun & Hl' & Hi');
    try assumption; try reflexivity.
  - cbn [set_prevcomment set_prevws pl]. unfold fuel_ok in HF. lia.
  - exists z'. split; [|split; assumption]. unfold pop_token. fold (pop_from F allow (set_prevcomment (set_prevws p false) false)).
    rewrite Hrun. cbn [orb]. destruct p; reflexivity.
Qed.

(* ... the usual case: whitespace is skipped, the token is neither whitespace nor a comment *)
Lemma pop_token_ows F allow p o t b ts : cinv F (pl p) -> keepws p = false ->
  lexes (pl p) (optws o ++ (t, b) :: ts) -> plain_tok t = true -> (iscm o = true -> cm_out allow p = false) ->
  exists z', pop_token F allow p = POk (t, b, relex p z' (isws o) (iscm o)) /\ lexes z' ts /\ cinv F z'.
Proof.
  intros Hi Hkw Hl Hp Hcm. unfold plain_tok in Hp. apply andb_true_iff in Hp. destruct Hp as [H1 H2].
  apply negb_true_iff in H1. apply negb_true_iff in H2.
  destruct (pop_token_gap F allow p o t b ts Hi Hl (fun _ => Hkw) Hcm) as (z' & Hpop & Hl' & Hi').
  - rewrite H1. apply andb_false_r.
  - rewrite H2. discriminate.
  - exists z'. rewrite H2, orb_false_r in Hpop. auto.
Qed.

Lemma pop_from_eof F allow : forall g f p w c,
  css_inv (pl p) -> (Z.to_nat (lx_len (pl p) - lpos (pl p)) <= f)%nat -> fuel_ok F (pl p) ->
  prevws p = w -> prevcomment p = c -> lexes (pl p) (optws g) -> keepws p = false -> (iscm g = true -> cm_out allow p = false) ->
  exists b z', pop_from f allow p = POk (TError, b, relex p z' (w || isws g) (c || iscm g)).
Proof.
  induction g as [|[cx bx] g IH]; intros f p w c Hi Hf HF Hw Hc Hl Hk Hcm; cbn [optws map] in Hl.
  - destruct (lexes_nil _ Hl) as (b & z' & Hn). exists b, z'. unfold pop_from, lex_next. rewrite Hn. cbn [pbind fst snd].
    rewrite pop_loop_eq. change (is_t TError TWhitespace) with false. change (is_t TError TComment) with false. rewrite andb_false_r.
    cbn [orb isws iscm existsb]. rewrite !orb_false_r. subst w c. destruct p; reflexivity.
  - destruct (lexes_cons _ _ _ _ Hl) as (z1 & Hn & Hl1 & He).
    destruct (cinv_next F _ _ _ _ (conj Hi HF) Hn He) as ((Hi1 & HF1) & Hlt).
    unfold pop_from, lex_next. rewrite Hn. cbn [pbind fst snd gtok]. rewrite pop_loop_eq. cbn [set_pl keepws]. rewrite Hk.
    destruct f as [|f']; [lia|].
    destruct cx; cbn [fst snd].
    + change (is_t TComment TWhitespace) with false. change (is_t TComment TComment) with true. cbn [negb orb andb].
      assert (Hco : cm_out allow p = false) by (apply Hcm; reflexivity). unfold cm_out in Hco. cbn [set_pl pst]. rewrite Hco.
      set (p1 := set_prevcomment (set_pl p z1) true).
      assert (A2 : (Z.to_nat (lx_len (pl p1) - lpos (pl p1)) <= f')%nat) by (change (pl p1) with z1; lia).
      assert (A4 : prevws p1 = w) by exact Hw.
      assert (A8 : iscm g = true -> cm_out allow p1 = false) by (intros _; unfold cm_out; exact Hco).
      destruct (IH f' p1 w true Hi1 A2 HF1 A4 eq_refl Hl1 Hk A8) as (b & z' & Hrun).
      exists b, z'. fold (pop_from f' allow p1). rewrite Hrun.
      cbn [isws iscm existsb fst negb orb]. rewrite !orb_true_r. destruct p; reflexivity.
    + change (is_t TWhitespace TWhitespace) with true. change (is_t TWhitespace TComment) with false. cbn [negb andb orb].
      set (p1 := set_prevws (set_pl p z1) true).
      assert (A2 : (Z.to_nat (lx_len (pl p1) - lpos (pl p1)) <= f')%nat) by (change (pl p1) with z1; lia).
      assert (A5 : prevcomment p1 = c) by exact Hc.
      assert (A8 : iscm g = true -> cm_out allow p1 = false) by (intros H; apply Hcm; exact H).
      destruct (IH f' p1 true c Hi1 A2 HF1 eq_refl A5 Hl1 Hk A8) as (b & z' & Hrun).
      exists b, z'. fold (pop_from f' allow p1). rewrite Hrun.
      cbn [isws iscm existsb fst negb orb]. rewrite !orb_true_r. destruct p; reflexivity.
Qed.

Lemma pop_token_eof_ows F allow p o : cinv F (pl p) -> keepws p = false -> lexes (pl p) (optws o) ->
  (iscm o = true -> cm_out allow p = false) ->
  exists b z', pop_token F allow p = POk (TError, b, relex p z' (isws o) (iscm o)).
Proof.
  intros (Hi & HF) Hkw Hl Hcm.
  destruct (pop_from_eof F allow o F (set_prevcomment (set_prevws p false) false) false false) as (b & z' & Hrun);
    try assumption; try reflexivity.
  - cbn [set_prevcomment set_prevws pl]. unfold fuel_ok in HF. lia.
  - exists b, z'. unfold pop_token. fold (pop_from F allow (set_prevcomment (set_prevws p false) false)). rewrite Hrun.
    cbn [orb]. destruct p; reflexivity.
Qed.

Lemma next_fuel_ok p : css_inv (pl p) -> cinv (next_fuel p) (pl p).
Proof. intros H. split; [exact H|]. unfold fuel_ok, next_fuel. lia. Qed.

(* a gap with a comment can only be skipped inside a block: at the top level popToken(true) hands the comment out *)
Definition gap_at (st : list pstate) (o : ws_t) : Prop := iscm o = true -> len st <> 1.
Lemma cm_out_no st o allow q : gap_at st o -> pst q = st -> iscm o = true -> cm_out allow q = false.
Proof. intros H E Hc. unfold cm_out. rewrite E. destruct allow; [|reflexivity]. cbn [andb]. apply Z.eqb_neq. apply H. exact Hc. Qed.
Lemma gap_at_cons s s2 st o : gap_at (s :: s2 :: st) o.
Proof. intros _. rewrite !len_cons. pose proof (len_nonneg st). lia. Qed.

Lemma lexes_skip : forall g z L, css_inv z -> lexes z (optws g ++ L) -> exists z', css_inv z' /\ lexes z' L.
Proof.
  induction g as [|x g IH]; intros z L Hi Hl; cbn [optws map app] in Hl; [eauto|].
  destruct (lexes_cons _ _ _ _ Hl) as (z1 & Hn & Hl1 & _). apply (IH z1 L); [eapply css_inv_next; eassumption|exact Hl1].
Qed.

Lemma next_fuel_lexes p t b ts : css_inv (pl p) -> lexes (pl p) ((t, b) :: ts) -> exists k, next_fuel p = S (S (S k)).
Proof.
  intros Hi Hl. destruct (lexes_cons _ _ _ _ Hl) as (z' & Hn & _ & He).
  destruct (next_fuel_S p _ _ _ Hi Hn He) as (k & HF & _). eauto.
Qed.

(* the end of the input at the top level *)
Lemma step_eof p o : wf_state p [SStylesheet] (optws o) -> iscm o = false ->
  exists p', parse_next p = POk (GError, p') /\ perr p' = false /\ ptt p' = TError.
Proof.
  intros (Hi & Hl & Hst & Hlv & Hpe & Hkw & Hsty) Hnc.
  unfold parse_next. cbv zeta. change (prevend (set_buf (set_err p false) [])) with (prevend p). rewrite Hpe.
  destruct (pop_token_eof_ows (next_fuel p) true (set_buf (set_err p false) []) o (next_fuel_ok p Hi) Hkw Hl ltac:(intros H; congruence)) as (b & z' & Hpop).
  rewrite Hpop. cbn [pbind fst snd].
  cbn [set_tok relex set_err pst set_buf]. rewrite Hst. unfold parse_stylesheet. cbn [set_tok ptt]. evis. cbn [orb].
  eexists. split; [reflexivity|]. split; reflexivity.
Qed.

Lemma declaration_loop_S f F p : declaration_loop (S f) F p =
  (r <-- pop_token F false p ;;
   let t := fst (fst r) in let d := snd (fst r) in let p := snd r in
   if ends_unit p t then
     match pbuf p with
     | [] => PPanic
     | _ :: after =>
         match drop_ws after with
         | c :: vals =>
             if is_t (fst c) TColon then
               let p := set_buf p (compact [] (drop_ws vals)) in
               let p := set_tok p (ptt p) (to_lower (pdata p)) in
               POk (GDeclaration, set_prevend p (is_t t TRightBrace))
             else parse_declaration_error F (set_err p true) t d
         | [] => parse_declaration_error F (set_err p true) t d
         end
     end
   else if is_t t TLeftBrace && (plevel p =? 0) && isstyle p then
     POk (GBeginRuleset, push_st (set_tok (set_buf p (sel_compact [] false (pbuf p))) TWhitespace []) SQualifiedRuleDeclarationList)
   else if closes t && (plevel p =? 0) then parse_declaration_error F (set_err p true) t d
   else
     let p := adjust_level p t in
     lastt <-- of_opt (match rev (pbuf p) with x :: _ => Some x | [] => None end) ;;
     let p := if (prevws p || prevcomment p) && negb (is_wstok lastt) then push_buf p TWhitespace [32] else p in
     declaration_loop f F (push_buf p t d)).
Proof. reflexivity. Qed.

(* --- multi-token values and selectors ------------------------------------------------------------------------------- *)
Definition sp : tok := (TWhitespace, [32]).
Definition wtok := (ws_t * tok)%type.                      (* a token and the whitespace before it *)
Definition src_toks (l : list wtok) : list tok := flat_map (fun x => optws (fst x) ++ [snd x]) l.
Definition buf_toks (l : list wtok) : list tok := flat_map (fun x => (if issp (fst x) then [sp] else []) ++ [snd x]) l.

(* the bracket level after a token, and the tokens a value or selector may contain at level lv: no whitespace or
   comment (they are the ws_t), no '{' '}' ';', and a closing bracket only inside an open one *)
Definition tok_lv (lv : Z) (t : ttype) : Z := if opens t then lv + 1 else if closes t then lv - 1 else lv.
Definition vtok_ok (lv : Z) (t : ttype) : bool :=
  plain_tok t && negb (is_t t TError) && negb (is_t t TLeftBrace) && negb (is_t t TRightBrace) && negb (is_t t TSemicolon)
  && (negb (closes t) || (0 <? lv)).
Fixpoint toks_ok (lv : Z) (l : list wtok) : Prop :=
  match l with [] => True | x :: r => vtok_ok lv (fst (snd x)) = true /\ toks_ok (tok_lv lv (fst (snd x))) r end.
Fixpoint lv_after (lv : Z) (l : list wtok) : Z :=
  match l with [] => lv | x :: r => lv_after (tok_lv lv (fst (snd x))) r end.

Lemma vtok_ok_inv lv t : vtok_ok lv t = true ->
  plain_tok t = true /\ is_t t TError = false /\ is_t t TLeftBrace = false /\ is_t t TRightBrace = false /\
  is_t t TSemicolon = false /\ (closes t = true -> 0 < lv) /\ is_t t TWhitespace = false.
Proof.
  unfold vtok_ok. intros H. repeat (apply andb_true_iff in H; destruct H as [H ?]).
  repeat match goal with X : negb _ = true |- _ => apply negb_true_iff in X end.
  repeat split; try assumption.
  - unfold plain_tok. rewrite H, H5. reflexivity.
  - intros Hc. rewrite Hc in H0. cbn in H0. lia.
Qed.

Lemma adjust_level_f p t : pbuf (adjust_level p t) = pbuf p /\ prevws (adjust_level p t) = prevws p /\
  prevcomment (adjust_level p t) = prevcomment p /\ plevel (adjust_level p t) = tok_lv (plevel p) t.
Proof. unfold adjust_level, tok_lv. destruct (opens t); [repeat split|]. destruct (closes t); repeat split. Qed.

(* the parser after one more token (t, b) of a value: lexer at z', w = whitespace was skipped before the token *)
Definition after_tok (p : parser) (z' : lx) (o : ws_t) (t : ttype) (b : list Z) : parser :=
  push_buf (let q := adjust_level (relex p z' (isws o) (iscm o)) t in if issp o then push_buf q TWhitespace [32] else q) t b.

Definition rest_same (p p' : parser) : Prop :=
  keepws p' = keepws p /\ pst p' = pst p /\ ptt p' = ptt p /\ pdata p' = pdata p /\ perr p' = perr p /\
  prevend p' = prevend p /\ isstyle p' = isstyle p.

Lemma rest_same_trans p q r : rest_same p q -> rest_same q r -> rest_same p r.
Proof. unfold rest_same. intros (A1 & A2 & A3 & A4 & A5 & A6 & A7) (B1 & B2 & B3 & B4 & B5 & B6 & B7). repeat split; congruence. Qed.

Lemma after_tok_f p z' w t b : pl (after_tok p z' w t b) = z' /\
  pbuf (after_tok p z' w t b) = pbuf p ++ (if issp w then [sp] else []) ++ [(t, b)] /\
  plevel (after_tok p z' w t b) = tok_lv (plevel p) t /\ rest_same p (after_tok p z' w t b).
Proof.
  unfold after_tok, adjust_level, tok_lv, rest_same, sp.
  destruct (issp w), (opens t), (closes t); cbn; rewrite <- ?app_assoc; repeat split.
Qed.

(* one iteration of the loop of parseDeclaration on a value token *)
Lemma decl_iter f F p o t b ts : cinv F (pl p) -> keepws p = false ->
  lexes (pl p) (optws o ++ (t, b) :: ts) -> vtok_ok (plevel p) t = true ->
  (exists B x, pbuf p = B ++ [x] /\ is_wstok x = false) ->
  exists z', cinv F z' /\ lexes z' ts /\
    declaration_loop (S f) F p = declaration_loop f F (after_tok p z' o t b).
Proof.
  intros Hi Hkw Hl Hv (B & x & Hb & Hx).
  destruct (vtok_ok_inv _ _ Hv) as (Hp & Herr & Hlb & Hrb & Hsemi & Hcl & _).
  destruct (pop_token_ows F false p o t b ts Hi Hkw Hl Hp (fun _ => eq_refl)) as (z' & Hpop & Hl' & Hi').
  exists z'. split; [exact Hi'|]. split; [exact Hl'|].
  rewrite declaration_loop_S, Hpop. cbn [pbind fst snd]. unfold ends_unit. rewrite Hsemi, Hrb, Herr, Hlb. cbn [orb andb].
  assert (Hc0 : closes t && (plevel (relex p z' (isws o) (iscm o)) =? 0) = false).
  { cbn [relex plevel]. destruct (closes t); [|reflexivity]. specialize (Hcl eq_refl). cbn [andb]. lia. }
  rewrite Hc0. cbv zeta.
  destruct (adjust_level_f (relex p z' (isws o) (iscm o)) t) as (F1 & F2 & F3 & _). rewrite F1, F2, F3.
  cbn [relex pbuf prevws prevcomment]. rewrite Hb, rev_app_distr. cbn [rev app of_opt pbind]. rewrite Hx.
  cbn [negb]. rewrite andb_true_r. reflexivity.
Qed.

Lemma src_toks_cons o tk r ts : src_toks ((o, tk) :: r) ++ ts = optws o ++ tk :: (src_toks r ++ ts).
Proof. unfold src_toks. cbn [flat_map fst snd]. rewrite <- !app_assoc. reflexivity. Qed.

Lemma buf_toks_cons o tk r : buf_toks ((o, tk) :: r) = (if issp o then [sp] else []) ++ tk :: buf_toks r.
Proof. unfold buf_toks. cbn [flat_map fst snd]. rewrite <- !app_assoc. reflexivity. Qed.

(* ... and on all tokens of a value *)
Lemma decl_values F ts : forall vl f p, cinv F (pl p) -> keepws p = false ->
  lexes (pl p) (src_toks vl ++ ts) -> toks_ok (plevel p) vl ->
  (exists B x, pbuf p = B ++ [x] /\ is_wstok x = false) ->
  exists p', declaration_loop (length vl + f) F p = declaration_loop f F p' /\ cinv F (pl p') /\ lexes (pl p') ts /\
    pbuf p' = pbuf p ++ buf_toks vl /\ plevel p' = lv_after (plevel p) vl /\ rest_same p p'.
Proof.
  induction vl as [|[o [t b]] vl IH]; intros f p Hi Hkw Hl Hok Hb.
  - exists p. cbn [length Nat.add src_toks buf_toks flat_map app lv_after] in *. rewrite app_nil_r.
    split; [reflexivity|]. split; [exact Hi|]. split; [exact Hl|]. split; [reflexivity|]. split; [reflexivity|].
    unfold rest_same. repeat split.
  - rewrite src_toks_cons in Hl. cbn [toks_ok fst snd] in Hok. destruct Hok as (Hv & Hok).
    destruct (decl_iter (length vl + f) F p o t b _ Hi Hkw Hl Hv Hb) as (z' & Hi' & Hl' & Heq).
    destruct (after_tok_f p z' o t b) as (G1 & G2 & G3 & G4).
    set (p1 := after_tok p z' o t b) in *.
    destruct (vtok_ok_inv _ _ Hv) as (_ & _ & _ & _ & _ & _ & Hws).
    destruct (IH f p1) as (p' & Hrun & Hi2 & Hl2 & Hb2 & Hlv2 & Hs2).
    + rewrite G1. exact Hi'.
    + destruct G4 as (G4 & _). rewrite G4. exact Hkw.
    + rewrite G1. exact Hl'.
    + rewrite G3. exact Hok.
    + exists (pbuf p ++ (if issp o then [sp] else [])), (t, b). split; [rewrite G2, app_assoc; reflexivity|exact Hws].
    + exists p'. cbn [length Nat.add]. rewrite Heq, Hrun. split; [reflexivity|]. split; [exact Hi2|]. split; [exact Hl2|].
      split; [rewrite Hb2, G2, buf_toks_cons, <- !app_assoc; reflexivity|]. split; [rewrite Hlv2, G3; reflexivity|].
      eapply rest_same_trans; eassumption.
Qed.

(* the ';' that ends the declaration *)
Lemma decl_end f F p o tb ts b0 after c vals : cinv F (pl p) -> keepws p = false -> plevel p = 0 ->
  term_ok tb -> lexes (pl p) (optws o ++ tb :: ts) -> pbuf p = b0 :: after -> drop_ws after = (TColon, c) :: vals ->
  exists z', cinv F z' /\ lexes z' ts /\
    declaration_loop (S f) F p =
      POk (GDeclaration, set_prevend (set_tok (set_buf (relex p z' (isws o) (iscm o)) (compact [] (drop_ws vals)))
                                              (ptt p) (to_lower (pdata p))) (is_t (fst tb) TRightBrace)).
Proof.
  intros Hi Hkw Hlv Hterm Hl Hb Hd. destruct tb as [tt bb]. unfold term_ok in Hterm. cbn [fst] in *.
  assert (Hp : plain_tok tt = true) by (destruct Hterm as [->| ->]; reflexivity).
  destruct (pop_token_ows F false p o tt bb ts Hi Hkw Hl Hp (fun _ => eq_refl)) as (z' & Hpop & Hl' & Hi').
  exists z'. split; [exact Hi'|]. split; [exact Hl'|].
  rewrite declaration_loop_S, Hpop. cbn [pbind fst snd]. unfold ends_unit. cbn [relex plevel pbuf]. rewrite Hlv, Hb, Hd.
  destruct Hterm as [->| ->]; cbn [fst]; evis; cbn [Z.eqb orb andb]; reflexivity.
Qed.

(* the expected Values(): a single space where the source has whitespace between two tokens neither of which is one
   of the punctuation bytes , / : ! = *)
Fixpoint join (prev : tok) (l : list wtok) : list tok :=
  match l with
  | [] => []
  | x :: r => (if issp (fst x) && negb (punct prev) && negb (punct (snd x)) then [sp] else []) ++ snd x :: join (snd x) r
  end.
Definition expected_vals (vl : list wtok) : list tok :=
  match vl with x :: r => snd x :: join (snd x) r | [] => [] end.

Lemma compact_sp last out nxt rest : compact (last :: out) (sp :: nxt :: rest) =
  if punct last then compact (last :: out) (nxt :: rest)
  else if punct nxt then compact (last :: out) (nxt :: rest) else compact (nxt :: sp :: last :: out) rest.
Proof. reflexivity. Qed.

Lemma compact_join : forall r t out, is_wstok t = false -> Forall (fun x => is_wstok (snd x) = false) r ->
  compact (t :: out) (buf_toks r) = rev out ++ t :: join t r.
Proof.
  induction r as [|[o [tt bb]] r IH]; intros t out Ht Hr.
  - cbn [buf_toks flat_map compact join rev]. reflexivity.
  - inversion Hr as [|? ? Hx Hr']; subst. cbn [snd] in Hx. rewrite buf_toks_cons. cbn [join fst snd].
    assert (Hnext : compact (t :: out) ((tt, bb) :: buf_toks r) = rev out ++ t :: (tt, bb) :: join (tt, bb) r).
    { cbn [compact]. rewrite Hx. rewrite (IH (tt, bb) (t :: out) Hx Hr'). cbn [rev]. rewrite <- app_assoc. reflexivity. }
    destruct (issp o); cbn [app andb]; [|exact Hnext].
    rewrite compact_sp.
    destruct (punct t); cbn [negb andb app]; [exact Hnext|].
    destruct (punct (tt, bb)); cbn [negb app]; [exact Hnext|].
    rewrite (IH (tt, bb) (sp :: t :: out) Hx Hr'). cbn [rev]. rewrite <- !app_assoc. reflexivity.
Qed.

Lemma toks_ok_nonws : forall vl lv, toks_ok lv vl -> Forall (fun x => is_wstok (snd x) = false) vl.
Proof.
  induction vl as [|x vl IH]; intros lv H; [constructor|]. cbn [toks_ok] in H. destruct H as (Hv & H).
  constructor; [|eapply IH; exact H]. destruct (vtok_ok_inv _ _ Hv) as (_ & _ & _ & _ & _ & _ & Hws). exact Hws.
Qed.

Lemma compact_expected vl lv : toks_ok lv vl -> compact [] (drop_ws (buf_toks vl)) = expected_vals vl.
Proof.
  intros Hok. destruct vl as [|[o [t b]] r]; [reflexivity|].
  pose proof (toks_ok_nonws _ _ Hok) as Hall. inversion Hall as [|? ? Hx Hr]; subst. cbn [snd] in Hx.
  rewrite buf_toks_cons. unfold expected_vals. cbn [snd].
  assert (Hc : compact [] ((t, b) :: buf_toks r) = (t, b) :: join (t, b) r).
  { cbn [compact]. rewrite Hx. rewrite (compact_join r (t, b) [] Hx Hr). reflexivity. }
  destruct (issp o); cbn [app drop_ws]; [change (is_wstok sp) with true; cbv beta iota; cbn [drop_ws]|]; rewrite Hx; exact Hc.
Qed.

(* the number of tokens left bounds the fuel *)
Lemma lexes_len : forall toks z, css_inv z -> lexes z toks -> Z.of_nat (length toks) <= lx_len z - lpos z.
Proof.
  induction toks as [|[t b] toks IH]; intros z Hi Hl.
  - destruct (inv_data z Hi) as (_ & _ & Hp). cbn [length]. lia.
  - destruct (lexes_cons _ _ _ _ Hl) as (z' & Hn & Hl' & He).
    destruct (css_next_step z Hi) as [(_ & Hn')|(ty & b' & z2 & Hn' & _ & Hi2 & Hbuf & Hp & _)]; rewrite Hn in Hn'.
    + assert (t = TError) by congruence. subst. discriminate.
    + assert (z2 = z') by congruence. subst z2. specialize (IH z' Hi2 Hl').
      assert (lx_len z' = lx_len z) by (unfold lx_len; rewrite Hbuf; reflexivity). cbn [length]. lia.
Qed.

Lemma src_toks_len vl : (length vl <= length (src_toks vl))%nat.
Proof.
  induction vl as [|[o tk] vl IH]; [cbn; lia|]. unfold src_toks in *. cbn [flat_map fst snd]. rewrite !app_length. cbn [length]. lia.
Qed.

Lemma fuel_split p n m : Z.of_nat m <= lx_len (pl p) - lpos (pl p) -> (n + 2 <= m)%nat ->
  exists f', next_fuel p = S (n + S f').
Proof. intros H1 H2. exists (next_fuel p - n - 2)%nat. unfold next_fuel. lia. Qed.

(* --- selectors ------------------------------------------------------------------------------------------------------ *)
Definition combinator (b : list Z) : bool := one_of [44; 62; 43; 126] b.          (* , > + ~ *)
Definition ia_next (ia : bool) (t : ttype) : bool :=
  if is_t t TLeftBracket then true else if is_t t TRightBracket then false else ia.
Definition addws_sel (w sk ia : bool) (b : list Z) : bool := negb (combinator b) && w && negb sk && negb ia.
Definition after_sel (p : parser) (z' : lx) (o : ws_t) (t : ttype) (b : list Z) (ia sk : bool) : parser :=
  push_buf (let q := adjust_level (relex p z' (isws o) (iscm o)) t in
            if addws_sel (isws o) sk ia b then push_buf q TWhitespace [32] else q) t b.

(* the expected Values() of a selector: a single space exactly where the source has whitespace between two tokens
   neither of which is a combinator , > + ~ and that are not inside [ ]; sk = the previous token was a combinator
   (or there is none), ia = inside an attribute selector *)
Fixpoint sel_buf (spf : ws_t -> bool) (sk ia : bool) (l : list wtok) : list tok :=
  match l with
  | [] => []
  | x :: r => (if addws_sel (spf (fst x)) sk ia (snd (snd x)) then [sp] else []) ++ snd x ::
              sel_buf spf (combinator (snd (snd x))) (ia_next ia (fst (snd x))) r
  end.
(* spf = what counts as a separating gap: for a top-level selector only whitespace (a comment alone gives no space); for
   the selector of a nested ruleset, which is collected by parseDeclaration, whitespace or a comment *)
Definition expected_sel (nested : bool) (l : list wtok) : list tok := sel_buf (if nested then issp else isws) true false l.

Lemma after_sel_f p z' w t b ia sk : pl (after_sel p z' w t b ia sk) = z' /\
  pbuf (after_sel p z' w t b ia sk) = pbuf p ++ (if addws_sel (isws w) sk ia b then [sp] else []) ++ [(t, b)] /\
  plevel (after_sel p z' w t b ia sk) = tok_lv (plevel p) t /\ rest_same p (after_sel p z' w t b ia sk).
Proof.
  unfold after_sel, adjust_level, tok_lv, rest_same, sp.
  destruct (addws_sel (isws w) sk ia b), (opens t), (closes t); cbn; rewrite <- ?app_assoc; repeat split.
Qed.

(* one iteration of the loop of parseQualifiedRule on a selector token *)
Lemma qual_iter f F p o t b ts ia sk : cinv F (pl p) -> keepws p = false ->
  lexes (pl p) (optws o ++ (t, b) :: ts) -> vtok_ok (plevel p) t = true ->
  exists z', cinv F z' /\ lexes z' ts /\
    qualified_loop (S f) F p false ia sk =
    qualified_loop f F (after_sel p z' o t b ia sk) false (ia_next ia t) (combinator b).
Proof.
  intros Hi Hkw Hl Hv.
  destruct (vtok_ok_inv _ _ Hv) as (Hp & Herr & Hlb & Hrb & Hsemi & Hcl & _).
  destruct (pop_token_ows F false p o t b ts Hi Hkw Hl Hp (fun _ => eq_refl)) as (z' & Hpop & Hl' & Hi').
  exists z'. split; [exact Hi'|]. split; [exact Hl'|].
  cbn [qualified_loop]. rewrite Hpop. cbn [pbind fst snd]. rewrite Hlb, Herr. cbn [andb].
  assert (Hc0 : closes t && (plevel (relex p z' (isws o) (iscm o)) =? 0) = false).
  { cbn [relex plevel]. destruct (closes t); [|reflexivity]. specialize (Hcl eq_refl). cbn [andb]. lia. }
  rewrite Hc0. cbv zeta.
  destruct (adjust_level_f (relex p z' (isws o) (iscm o)) t) as (_ & F2 & _). rewrite F2. cbn [relex prevws].
  unfold after_sel, addws_sel, ia_next, combinator.
  destruct (one_of [44; 62; 43; 126] b), (isws o), sk, ia; reflexivity.
Qed.

Lemma qual_tokens F ts : forall sl f p ia sk, cinv F (pl p) -> keepws p = false ->
  lexes (pl p) (src_toks sl ++ ts) -> toks_ok (plevel p) sl ->
  exists p' ia' sk', qualified_loop (length sl + f) F p false ia sk = qualified_loop f F p' false ia' sk' /\
    cinv F (pl p') /\ lexes (pl p') ts /\ pbuf p' = pbuf p ++ sel_buf isws sk ia sl /\
    plevel p' = lv_after (plevel p) sl /\ rest_same p p'.
Proof.
  induction sl as [|[o [t b]] sl IH]; intros f p ia sk Hi Hkw Hl Hok.
  - exists p, ia, sk. cbn [length Nat.add src_toks sel_buf flat_map app lv_after] in *. rewrite app_nil_r.
    split; [reflexivity|]. split; [exact Hi|]. split; [exact Hl|]. split; [reflexivity|]. split; [reflexivity|].
    unfold rest_same. repeat split.
  - rewrite src_toks_cons in Hl. cbn [toks_ok fst snd] in Hok. destruct Hok as (Hv & Hok).
    destruct (qual_iter (length sl + f) F p o t b _ ia sk Hi Hkw Hl Hv) as (z' & Hi' & Hl' & Heq).
    destruct (after_sel_f p z' o t b ia sk) as (G1 & G2 & G3 & G4).
    set (p1 := after_sel p z' o t b ia sk) in *.
    destruct (IH f p1 (ia_next ia t) (combinator b)) as (p' & ia' & sk' & Hrun & Hi2 & Hl2 & Hb2 & Hlv2 & Hs2).
    + rewrite G1. exact Hi'.
    + destruct G4 as (G4 & _). rewrite G4. exact Hkw.
    + rewrite G1. exact Hl'.
    + rewrite G3. exact Hok.
    + exists p', ia', sk'. cbn [length Nat.add]. rewrite Heq, Hrun. split; [reflexivity|]. split; [exact Hi2|]. split; [exact Hl2|].
      split; [rewrite Hb2, G2; cbn [sel_buf fst snd]; rewrite <- !app_assoc; reflexivity|]. split; [rewrite Hlv2, G3; reflexivity|].
      eapply rest_same_trans; eassumption.
Qed.

(* the first iteration takes the token Next has already read *)
Definition after_first (p : parser) : parser :=
  push_buf (adjust_level (set_tok p TWhitespace []) (ptt p)) (ptt p) (pdata p).

Lemma qual_first f F p : vtok_ok (plevel p) (ptt p) = true ->
  qualified_loop (S f) F p true false true =
  qualified_loop f F (after_first p) false (ia_next false (ptt p)) (combinator (pdata p)).
Proof.
  intros Hv. destruct (vtok_ok_inv _ _ Hv) as (Hp & Herr & Hlb & Hrb & Hsemi & Hcl & _).
  cbn [qualified_loop pbind fst snd]. rewrite Hlb, Herr. cbn [andb].
  assert (Hc0 : closes (ptt p) && (plevel (set_tok p TWhitespace []) =? 0) = false).
  { cbn [set_tok plevel]. destruct (closes (ptt p)); [|reflexivity]. specialize (Hcl eq_refl). cbn [andb]. lia. }
  rewrite Hc0. cbv zeta.
  destruct (adjust_level_f (set_tok p TWhitespace []) (ptt p)) as (_ & F2 & _). rewrite F2. cbn [set_tok prevws].
  unfold after_first, ia_next, combinator.
  destruct (one_of [44; 62; 43; 126] (pdata p)), (prevws p); reflexivity.
Qed.

Lemma after_first_f p : pl (after_first p) = pl p /\ pbuf (after_first p) = pbuf p ++ [(ptt p, pdata p)] /\
  plevel (after_first p) = tok_lv (plevel p) (ptt p) /\ ptt (after_first p) = TWhitespace /\ pdata (after_first p) = [] /\
  keepws (after_first p) = keepws p /\ pst (after_first p) = pst p /\ perr (after_first p) = perr p /\
  prevend (after_first p) = prevend p /\ isstyle (after_first p) = isstyle p.
Proof. unfold after_first, adjust_level, tok_lv. destruct (opens (ptt p)), (closes (ptt p)); cbn; repeat split. Qed.

(* the '{' that ends the selector *)
Lemma qual_end f F p o lb ts ia sk : cinv F (pl p) -> keepws p = false -> plevel p = 0 ->
  lexes (pl p) (optws o ++ (TLeftBrace, lb) :: ts) ->
  exists z', cinv F z' /\ lexes z' ts /\
    qualified_loop (S f) F p false ia sk = POk (GBeginRuleset, push_st (relex p z' (isws o) (iscm o)) SQualifiedRuleDeclarationList).
Proof.
  intros Hi Hkw Hlv Hl.
  destruct (pop_token_ows F false p o TLeftBrace lb ts Hi Hkw Hl eq_refl (fun _ => eq_refl)) as (z' & Hpop & Hl' & Hi').
  exists z'. split; [exact Hi'|]. split; [exact Hl'|].
  cbn [qualified_loop]. rewrite Hpop. cbn [pbind fst snd relex plevel]. rewrite Hlv. evis. reflexivity.
Qed.

(* the first token of a selector: not one of the tokens the stylesheet state handles itself *)
Definition sel_first (t : ttype) : bool :=
  vtok_ok 0 t && negb (is_t t TCDO) && negb (is_t t TCDC) && negb (is_t t TAtKeyword) && negb (is_t t TCustomPropertyName).

(* the states in which rulesets and at-rules are read: the stylesheet and the block of @media, @supports, ... *)
Definition rule_ctx (s : pstate) : Prop := s = SStylesheet \/ s = SAtRuleRuleList.

Lemma rule_dispatch s st0 F q : rule_ctx s ->
  is_t (ptt q) TCDO = false -> is_t (ptt q) TCDC = false -> is_t (ptt q) TAtKeyword = false -> is_t (ptt q) TComment = false ->
  is_t (ptt q) TCustomPropertyName = false -> is_t (ptt q) TError = false -> is_t (ptt q) TRightBrace = false ->
  match s :: st0 with
  | [] => PPanic
  | SStylesheet :: _ => parse_stylesheet F q
  | SDeclarationList :: _ => parse_declaration_list F q
  | SAtRuleRuleList :: _ => parse_at_rule_rule_list F q
  | SAtRuleDeclarationList :: _ => parse_at_rule_declaration_list F q
  | SAtRuleUnknown :: _ => parse_at_rule_unknown q
  | SQualifiedRuleDeclarationList :: _ => parse_qualified_rule_declaration_list F q
  end = parse_qualified_rule F q.
Proof.
  intros [->| ->] H1 H2 H3 H4 H5 H6 H7.
  - unfold parse_stylesheet. rewrite H1, H2, H3, H4, H5, H6. reflexivity.
  - unfold parse_at_rule_rule_list. rewrite H7, H6, H3. reflexivity.
Qed.

Lemma at_dispatch s st0 F q : s <> SAtRuleUnknown -> s <> SDeclarationList -> ptt q = TAtKeyword ->
  match s :: st0 with
  | [] => PPanic
  | SStylesheet :: _ => parse_stylesheet F q
  | SDeclarationList :: _ => parse_declaration_list F q
  | SAtRuleRuleList :: _ => parse_at_rule_rule_list F q
  | SAtRuleDeclarationList :: _ => parse_at_rule_declaration_list F q
  | SAtRuleUnknown :: _ => parse_at_rule_unknown q
  | SQualifiedRuleDeclarationList :: _ => parse_qualified_rule_declaration_list F q
  end = parse_at_rule F q.
Proof.
  intros H1 H2 H.
  assert (Hdl : parse_declaration_list F q = parse_at_rule F q).
  { unfold parse_declaration_list. rewrite H. evis. cbn [pbind]. rewrite skip_semicolons_none by (rewrite H; discriminate).
    cbn [pbind]. rewrite H. evis. cbn [pbind]. cbv zeta. rewrite H. evis. reflexivity. }
  destruct s; try congruence.
  - unfold parse_stylesheet. rewrite H. reflexivity.
  - unfold parse_at_rule_rule_list. rewrite H. reflexivity.
  - unfold parse_at_rule_declaration_list. rewrite skip_semicolons_none by (rewrite H; discriminate). cbn [pbind]. cbv zeta.
    rewrite H. evis. cbn [orb]. exact Hdl.
  - unfold parse_qualified_rule_declaration_list. rewrite skip_semicolons_none by (rewrite H; discriminate). cbn [pbind]. cbv zeta.
    rewrite H. evis. cbn [orb]. exact Hdl.
Qed.

(* a ruleset: selector tokens, '{' *)
Lemma step_begin p s st0 o1 t1 b1 (sl : list wtok) o2 lb ts : rule_ctx s -> gap_at (s :: st0) o1 ->
  wf_state p (s :: st0) (src_toks ((o1, (t1, b1)) :: sl) ++ optws o2 ++ (TLeftBrace, lb) :: ts) ->
  sel_first t1 = true -> toks_ok 0 ((o1, (t1, b1)) :: sl) -> lv_after 0 ((o1, (t1, b1)) :: sl) = 0 ->
  exists p', parse_next p = POk (GBeginRuleset, p') /\ ptt p' = TWhitespace /\ pdata p' = [] /\
    pbuf p' = expected_sel false ((o1, (t1, b1)) :: sl) /\ perr p' = false /\
    wf_state p' (SQualifiedRuleDeclarationList :: s :: st0) ts.
Proof.
  intros Hctx Hg (Hi & Hl & Hst & Hlv & Hpe & Hkw & Hsty) Hfirst Hok Hlv0.
  rewrite src_toks_cons in Hl. cbn [toks_ok fst snd] in Hok. destruct Hok as (Hv1 & Hok). cbn [lv_after fst snd] in Hlv0.
  unfold sel_first in Hfirst. repeat (apply andb_true_iff in Hfirst; destruct Hfirst as [Hfirst ?]).
  repeat match goal with X : negb _ = true |- _ => apply negb_true_iff in X end.
  destruct (vtok_ok_inv _ _ Hv1) as (Hp1 & Herr1 & Hlb1 & Hrb1 & Hsemi1 & Hcl1 & Hws1).
  assert (Hcm1 : is_t t1 TComment = false).
  { unfold plain_tok in Hp1. apply andb_true_iff in Hp1. destruct Hp1 as [_ Hx]. apply negb_true_iff in Hx. exact Hx. }
  assert (HN : exists f', next_fuel p = S (length sl + S f')).
  { pose proof (lexes_len _ _ Hi Hl) as Hlen. eapply fuel_split; [exact Hlen|].
    rewrite app_length. cbn [length]. rewrite app_length. rewrite app_length. cbn [length]. pose proof (src_toks_len sl) as Hsl.
    clear - Hsl. unfold wtok, tok in *. lia. }
  destruct HN as (f' & HN). pose proof (next_fuel_ok p Hi) as HF.
  unfold parse_next. cbv zeta. change (prevend (set_buf (set_err p false) [])) with (prevend p). rewrite Hpe.
  destruct (pop_token_ows (next_fuel p) true (set_buf (set_err p false) []) o1 t1 b1 _ HF Hkw Hl Hp1 (cm_out_no _ _ true (set_buf (set_err p false) []) Hg Hst)) as (z1 & Hpop & Hl1 & Hi1).
  rewrite Hpop. cbn [pbind fst snd]. cbn [set_tok relex set_err pst set_buf]. rewrite Hst.
  rewrite (rule_dispatch s st0 _ _ Hctx) by (cbn [set_tok ptt]; assumption).
  unfold parse_qualified_rule.
  assert (Hq : forall q, qualified_loop (next_fuel p) (next_fuel p) q true false true =
                         qualified_loop (S (length sl + S f')) (next_fuel p) q true false true)
    by (intros q; rewrite HN at 1; reflexivity).
  rewrite Hq. clear Hq.
  match goal with |- context [qualified_loop _ _ ?q true false true] => set (q0 := q) end.
  assert (Hv0 : vtok_ok (plevel q0) (ptt q0) = true) by (subst q0; cbn [set_buf set_tok relex set_err plevel ptt]; rewrite Hlv; exact Hv1).
  rewrite (qual_first _ _ q0 Hv0).
  destruct (after_first_f q0) as (A1 & A2 & A3 & A4 & A5 & A6 & A7 & A8 & A9 & A10).
  set (q1 := after_first q0) in *.
  assert (Hq0 : pl q0 = z1 /\ pbuf q0 = [] /\ plevel q0 = 0 /\ ptt q0 = t1 /\ pdata q0 = b1 /\ keepws q0 = false /\
                pst q0 = s :: st0 /\ perr q0 = false /\ prevend q0 = false /\ isstyle q0 = true).
  { subst q0. cbn [set_buf set_tok relex set_err pl pbuf plevel ptt pdata keepws pst perr prevend isstyle]. repeat split; assumption. }
  destruct Hq0 as (B1 & B2 & B3 & B4 & B5 & B6 & B7 & B8 & B9 & B10).
  destruct (qual_tokens (next_fuel p) (optws o2 ++ (TLeftBrace, lb) :: ts) sl (S f') q1
              (ia_next false (ptt q0)) (combinator (pdata q0))) as (q2 & ia' & sk' & Hrun & Hi2 & Hl2 & Hb2 & Hlv2 & Hs2).
  { rewrite A1, B1. exact Hi1. }
  { rewrite A6. exact B6. }
  { rewrite A1, B1. exact Hl1. }
  { rewrite A3, B3, B4. exact Hok. }
  rewrite Hrun. destruct Hs2 as (S1 & S2 & S3 & S4 & S5 & S6 & S7).
  destruct (qual_end f' (next_fuel p) q2 o2 lb ts ia' sk' Hi2) as (z3 & Hi3 & Hl3 & Heq3).
  { rewrite S1, A6. exact B6. }
  { rewrite Hlv2, A3, B3, B4. exact Hlv0. }
  { exact Hl2. }
  rewrite Heq3. eexists. split; [reflexivity|].
  cbn [push_st set_st relex ptt pdata pbuf perr].
  split; [rewrite S3; exact A4|]. split; [rewrite S4; exact A5|].
  split.
  { rewrite Hb2, A2, B2, B4, B5. unfold expected_sel. cbn [sel_buf fst snd app].
    assert (Hno : addws_sel (isws o1) true false b1 = false) by (unfold addws_sel; destruct (combinator b1), (isws o1); reflexivity).
    rewrite Hno. reflexivity. }
  split; [rewrite S5, A8; exact B8|].
  unfold wf_state. cbn [push_st set_st relex pl pst plevel prevend keepws isstyle].
  split; [exact (proj1 Hi3)|]. split; [exact Hl3|]. split; [rewrite S2, A7, B7; reflexivity|].
  split; [rewrite Hlv2, A3, B3, B4; exact Hlv0|]. split; [rewrite S6, A9; exact B9|]. split; [rewrite S1, A6; exact B6|].
  rewrite S7, A10. exact B10.
Qed.

(* the states in which declarations are read: the block of a ruleset and of @font-face / @page *)
Definition decl_ctx (s : pstate) : Prop := s = SQualifiedRuleDeclarationList \/ s = SAtRuleDeclarationList.

Lemma decl_dispatch s st0 F q : decl_ctx s -> ptt q <> TSemicolon -> is_t (ptt q) TRightBrace = false -> is_t (ptt q) TError = false ->
  match s :: st0 with
  | [] => PPanic
  | SStylesheet :: _ => parse_stylesheet F q
  | SDeclarationList :: _ => parse_declaration_list F q
  | SAtRuleRuleList :: _ => parse_at_rule_rule_list F q
  | SAtRuleDeclarationList :: _ => parse_at_rule_declaration_list F q
  | SAtRuleUnknown :: _ => parse_at_rule_unknown q
  | SQualifiedRuleDeclarationList :: _ => parse_qualified_rule_declaration_list F q
  end = parse_declaration_list F q.
Proof.
  intros [->| ->] H1 H2 H3.
  - unfold parse_qualified_rule_declaration_list. rewrite skip_semicolons_none by exact H1. cbn [pbind]. cbv zeta. rewrite H2, H3. reflexivity.
  - unfold parse_at_rule_declaration_list. rewrite skip_semicolons_none by exact H1. cbn [pbind]. cbv zeta. rewrite H2, H3. reflexivity.
Qed.

(* --- stray semicolons ----------------------------------------------------------------------------------------------- *)
(* what comes before the first token of a unit in a declaration block: any number of ';' , each after a gap, then a gap;
   parseQualifiedRuleDeclarationList / parseAtRuleDeclarationList skip the semicolons without reporting a unit *)
Definition semi : tok := (TSemicolon, [59]).
Definition semis (gs : list ws_t) : list tok := flat_map (fun g => optws g ++ [semi]) gs.
Definition stream (gs : list ws_t) (o : ws_t) : list tok := semis gs ++ optws o.
Definition first_gap (gs : list ws_t) (o : ws_t) : ws_t := match gs with g :: _ => g | [] => o end.

Definition dispatch (st : list pstate) (F : nat) (q : parser) : pres (gtype * parser) :=
  match st with
  | [] => PPanic
  | SStylesheet :: _ => parse_stylesheet F q
  | SDeclarationList :: _ => parse_declaration_list F q
  | SAtRuleRuleList :: _ => parse_at_rule_rule_list F q
  | SAtRuleDeclarationList :: _ => parse_at_rule_declaration_list F q
  | SAtRuleUnknown :: _ => parse_at_rule_unknown q
  | SQualifiedRuleDeclarationList :: _ => parse_qualified_rule_declaration_list F q
  end.

Lemma stream_len gs o : (length gs <= length (stream gs o))%nat.
Proof.
  unfold stream, semis. rewrite app_length. induction gs as [|g gs IH]; cbn [flat_map length]; [lia|].
  rewrite !app_length. cbn [length]. lia.
Qed.

(* the loop that skips semicolons *)
Lemma skip_run F t b ts o : plain_tok t = true -> t <> TSemicolon -> forall gs f q, cinv F (pl q) -> keepws q = false ->
  ptt q = TSemicolon -> lexes (pl q) (stream gs o ++ (t, b) :: ts) -> (length gs < f)%nat ->
  exists z' w c, skip_semicolons f F q = POk (set_tok (relex q z' w c) t b) /\ lexes z' ts /\ cinv F z'.
Proof.
  intros Hp Hns. induction gs as [|g gs IH]; intros f q Hi Hkw Hsemi Hl Hf; (destruct f as [|f]; [lia|]);
    rewrite skip_semicolons_eq, Hsemi; change (is_t TSemicolon TSemicolon) with true; cbv beta iota.
  - unfold stream, semis in Hl. cbn [flat_map app] in Hl.
    destruct (pop_token_ows F false q o t b ts Hi Hkw Hl Hp (fun _ => eq_refl)) as (z' & Hpop & Hl' & Hi').
    rewrite Hpop. cbn [pbind fst snd]. rewrite skip_semicolons_eq. cbn [set_tok ptt].
    replace (is_t t TSemicolon) with false by (symmetry; apply is_t_neq; exact Hns).
    exists z', (isws o), (iscm o). auto.
  - unfold stream, semis in Hl. cbn [flat_map] in Hl. repeat (rewrite <- app_assoc in Hl; cbn [app] in Hl).
    destruct (pop_token_ows F false q g TSemicolon [59] _ Hi Hkw Hl eq_refl (fun _ => eq_refl)) as (z1 & Hpop & Hl1 & Hi1).
    rewrite Hpop. cbn [pbind fst snd].
    set (q1 := set_tok (relex q z1 (isws g) (iscm g)) TSemicolon [59]).
    destruct (IH f q1) as (z' & w & c & Hrun & Hl' & Hi'); [exact Hi1|exact Hkw|reflexivity|unfold stream, semis; rewrite <- app_assoc; exact Hl1|cbn [length] in Hf; lia|].
    exists z', w, c. rewrite Hrun. split; [|split; assumption]. destruct q; reflexivity.
Qed.

(* the first pop of Next in any state, with stray semicolons (gs) only in a declaration block *)
Lemma first_pop p s st0 gs o t b ts : wf_state p (s :: st0) (stream gs o ++ (t, b) :: ts) -> (gs = [] \/ decl_ctx s) ->
  gap_at (s :: st0) (first_gap gs o) -> plain_tok t = true -> t <> TSemicolon ->
  exists z' w c, parse_next p = dispatch (s :: st0) (next_fuel p) (set_tok (relex (set_buf (set_err p false) []) z' w c) t b) /\
    lexes z' ts /\ cinv (next_fuel p) z'.
Proof.
  intros (Hi & Hl & Hst & Hlv & Hpe & Hkw & Hsty) Hgs Hg Hp Hns.
  unfold parse_next. cbv zeta. change (prevend (set_buf (set_err p false) [])) with (prevend p). rewrite Hpe.
  destruct gs as [|g gs].
  - unfold stream, semis in Hl. cbn [flat_map app first_gap] in *.
    destruct (pop_token_ows (next_fuel p) true (set_buf (set_err p false) []) o t b ts (next_fuel_ok p Hi) Hkw Hl Hp
                (cm_out_no _ _ true (set_buf (set_err p false) []) Hg Hst)) as (z1 & Hpop & Hl1 & Hi1).
    rewrite Hpop. cbn [pbind fst snd]. cbn [set_tok relex set_err pst set_buf]. rewrite Hst.
    exists z1, (isws o), (iscm o). split; [reflexivity|split; assumption].
  - destruct Hgs as [Hgs|Hctx]; [discriminate Hgs|]. cbn [first_gap] in Hg.
    pose proof (lexes_len _ _ Hi Hl) as Hlen.
    unfold stream, semis in Hl. cbn [flat_map] in Hl. repeat (rewrite <- app_assoc in Hl; cbn [app] in Hl).
    destruct (pop_token_ows (next_fuel p) true (set_buf (set_err p false) []) g TSemicolon [59] _ (next_fuel_ok p Hi) Hkw Hl eq_refl
                (cm_out_no _ _ true (set_buf (set_err p false) []) Hg Hst)) as (z1 & Hpop & Hl1 & Hi1).
    rewrite Hpop. cbn [pbind fst snd]. cbn [set_tok relex set_err pst set_buf]. rewrite Hst.
    set (q1 := set_tok (relex (set_buf (set_err p false) []) z1 (isws g) (iscm g)) TSemicolon [59]).
    assert (Hf : (length gs < next_fuel p)%nat).
    { rewrite app_length in Hlen. pose proof (stream_len (g :: gs) o) as Hs. cbn [length] in Hs. unfold next_fuel. clear - Hlen Hs. lia. }
    assert (Hl1' : lexes (pl q1) (stream gs o ++ (t, b) :: ts)) by (unfold stream, semis; rewrite <- app_assoc; exact Hl1).
    destruct (skip_run (next_fuel p) t b ts o Hp Hns gs (next_fuel p) q1 Hi1 Hkw eq_refl Hl1' Hf) as (z' & w & c & Hrun & Hl' & Hi').
    exists z', w, c. split; [|split; assumption].
    assert (Hskip2 : skip_semicolons (next_fuel p) (next_fuel p) (set_tok (relex (set_buf (set_err p false) []) z' w c) t b) =
                     POk (set_tok (relex (set_buf (set_err p false) []) z' w c) t b)) by (apply skip_semicolons_none; exact Hns).
    assert (Hq : set_tok (relex q1 z' w c) t b = set_tok (relex (set_buf (set_err p false) []) z' w c) t b) by reflexivity.
    rewrite Hq in Hrun. unfold dispatch.
    destruct Hctx as [-> | ->]; [unfold parse_qualified_rule_declaration_list|unfold parse_at_rule_declaration_list];
      rewrite Hrun, Hskip2; reflexivity.
Qed.

(* Next in a declaration list, on a property name: everything up to the loop of parseDeclaration *)
Lemma decl_head p s st0 gs o1 prop ts : decl_ctx s -> gap_at (s :: st0) (first_gap gs o1) ->
  wf_state p (s :: st0) (stream gs o1 ++ (TIdent, prop) :: ts) ->
  exists p0, parse_next p = declaration_loop (next_fuel p) (next_fuel p) p0 /\ cinv (next_fuel p) (pl p0) /\ lexes (pl p0) ts /\
    pbuf p0 = [(TIdent, prop)] /\ ptt p0 = TIdent /\ pdata p0 = prop /\ pst p0 = s :: st0 /\
    plevel p0 = 0 /\ prevend p0 = false /\ keepws p0 = false /\ isstyle p0 = true /\ perr p0 = false.
Proof.
  intros Hctx Hg Hw. pose proof Hw as (Hi & Hl & Hst & Hlv & Hpe & Hkw & Hsty).
  destruct (first_pop p s st0 gs o1 TIdent prop ts Hw (or_intror Hctx) Hg eq_refl ltac:(discriminate)) as (z1 & w & c & Hfp & Hl1 & Hi1).
  rewrite Hfp. unfold dispatch.
  rewrite (decl_dispatch s st0 _ _ Hctx) by (cbn [set_tok ptt]; first [discriminate|reflexivity]).
  unfold parse_declaration_list. cbn [set_tok ptt]. evis. cbn [pbind].
  rewrite skip_semicolons_none by (cbn; discriminate). cbn [pbind set_tok ptt]. evis. cbn [pbind orb]. cbv zeta. cbn [set_tok ptt]. evis.
  cbn [orb]. unfold parse_declaration. cbn [set_tok ptt pdata]. evis. cbv beta iota.
  eexists. split; [reflexivity|].
  cbn [set_buf set_tok relex set_err pl pbuf ptt pdata pst plevel prevend keepws isstyle perr].
  split; [exact Hi1|]. split; [exact Hl1|]. repeat split; assumption.
Qed.

(* a declaration  ident ':' value-tokens ';'  inside a ruleset, with optional whitespace before each of its tokens *)
Lemma step_decl p s st0 gs o1 prop o2 c vl o4 tb ts : decl_ctx s -> gap_at (s :: st0) (first_gap gs o1) -> term_ok tb ->
  wf_state p (s :: st0)
           (stream gs o1 ++ (TIdent, prop) :: optws o2 ++ (TColon, c) :: src_toks vl ++ optws o4 ++ tb :: ts) ->
  toks_ok 0 vl -> lv_after 0 vl = 0 ->
  exists p', parse_next p = POk (GDeclaration, p') /\ ptt p' = TIdent /\ pdata p' = to_lower prop /\
    pbuf p' = expected_vals vl /\ perr p' = false /\ wf_after tb p' (s :: st0) ts.
Proof.
  intros Hctx Hg Hterm Hw Hok Hlv0. pose proof Hw as (Hi & Hl & _).
  destruct (decl_head p s st0 gs o1 prop _ Hctx Hg Hw) as (p0 & Hpn & Hi0 & Hl0 & Hb0 & Ht0 & Hd0 & Hst0 & Hlv & Hpe0 & Hkw0 & Hsty0 & Herr0).
  (* fuel *)
  assert (HN : exists f', next_fuel p = S (length vl + S f')).
  { pose proof (lexes_len _ _ Hi Hl) as Hlen. eapply fuel_split; [exact Hlen|].
    rewrite app_length. cbn [length]. rewrite app_length. cbn [length]. rewrite app_length. pose proof (src_toks_len vl) as Hsl.
    clear - Hsl. unfold wtok, tok in *. lia. }
  destruct HN as (f' & HN). pose proof (next_fuel_ok p Hi) as HF.
  rewrite HN in Hpn at 1. rewrite Hpn.
  (* ':' *)
  destruct (decl_iter (length vl + S f') (next_fuel p) p0 o2 TColon c _ Hi0 Hkw0 Hl0) as (z1 & Hi1 & Hl1 & Heq1).
  { rewrite Hlv. reflexivity. }
  { exists [], (TIdent, prop). split; [rewrite Hb0; reflexivity|reflexivity]. }
  rewrite Heq1. destruct (after_tok_f p0 z1 o2 TColon c) as (G1 & G2 & G3 & G4).
  set (p1 := after_tok p0 z1 o2 TColon c) in *.
  (* the value *)
  destruct (decl_values (next_fuel p) (optws o4 ++ tb :: ts) vl (S f') p1) as (p2 & Hrun & Hi2 & Hl2 & Hb2 & Hlv2 & Hs2).
  { rewrite G1. exact Hi1. }
  { destruct G4 as (G4 & _). rewrite G4. exact Hkw0. }
  { rewrite G1. exact Hl1. }
  { rewrite G3, Hlv. exact Hok. }
  { exists (pbuf p0 ++ (if issp o2 then [sp] else [])), (TColon, c). split; [rewrite G2, app_assoc; reflexivity|reflexivity]. }
  rewrite Hrun.
  pose proof (rest_same_trans _ _ _ G4 Hs2) as (S1 & S2 & S3 & S4 & S5 & S6 & S7).
  (* ';' *)
  destruct (decl_end f' (next_fuel p) p2 o4 tb ts (TIdent, prop)
              ((if issp o2 then [sp] else []) ++ (TColon, c) :: buf_toks vl) c (buf_toks vl) Hi2) as (z3 & Hi3 & Hl3 & Heq3).
  { rewrite S1. exact Hkw0. }
  { rewrite Hlv2, G3, Hlv. exact Hlv0. }
  { exact Hterm. }
  { exact Hl2. }
  { rewrite Hb2, G2, Hb0. cbn [app]. rewrite <- app_assoc. reflexivity. }
  { destruct (issp o2); cbn [app drop_ws]; [change (is_wstok sp) with true; cbv beta iota; cbn [drop_ws]|]; reflexivity. }
  rewrite Heq3. eexists. split; [reflexivity|].
  cbn [set_prevend set_tok set_buf relex ptt pdata pbuf perr].
  split; [rewrite S3; exact Ht0|]. split; [rewrite S4, Hd0; reflexivity|].
  split; [eapply compact_expected; eassumption|]. split; [rewrite S5; exact Herr0|].
  unfold wf_after, wf_state, wf_pend. destruct (is_t (fst tb) TRightBrace);
    cbn [set_prevend set_tok set_buf relex pl pst plevel prevend keepws isstyle];
    (split; [exact (proj1 Hi3)|]; split; [exact Hl3|]; split; [rewrite S2; exact Hst0|]; split; [rewrite Hlv2, G3, Hlv; exact Hlv0|];
     split; [reflexivity|]; split; [rewrite S1; exact Hkw0|rewrite S7; exact Hsty0]).
Qed.

(* --- nested rulesets -------------------------------------------------------------------------------------------------- *)
(* the selector compaction of a nested ruleset gives the same Values() as the loop of a top-level selector *)
Lemma sel_compact_sp last out ia nxt rest : sel_compact (last :: out) ia (sp :: nxt :: rest) =
  if ia || is_combinator (snd last) || is_combinator (snd nxt) then sel_compact (last :: out) ia (nxt :: rest)
  else sel_compact (sp :: last :: out) ia (nxt :: rest).
Proof. reflexivity. Qed.

Lemma sel_compact_buf : forall r t out ia, is_wstok t = false -> Forall (fun x => is_wstok (snd x) = false) r ->
  sel_compact (t :: out) ia (buf_toks r) = rev out ++ t :: sel_buf issp (combinator (snd t)) ia r.
Proof.
  induction r as [|[o [tt bb]] r IH]; intros t out ia Ht Hr.
  - cbn [buf_toks flat_map sel_compact sel_buf rev]. reflexivity.
  - inversion Hr as [|? ? Hx Hr']; subst. cbn [snd] in Hx. rewrite buf_toks_cons. cbn [sel_buf fst snd].
    assert (Hnext : forall out', sel_compact out' ia ((tt, bb) :: buf_toks r) =
                                 rev out' ++ (tt, bb) :: sel_buf issp (combinator bb) (ia_next ia tt) r).
    { intros out'. cbn [sel_compact]. rewrite Hx. cbn [andb fst]. rewrite (IH (tt, bb) out' _ Hx Hr'). reflexivity. }
    destruct (issp o); cbn [app].
    + rewrite sel_compact_sp. cbn [snd]. unfold addws_sel.
      change (is_combinator (snd t)) with (combinator (snd t)). change (is_combinator bb) with (combinator bb).
      destruct (ia || combinator (snd t) || combinator bb) eqn:Ec; rewrite Hnext; cbn [rev];
        destruct ia, (combinator (snd t)), (combinator bb); try discriminate Ec; cbn [negb andb app]; rewrite <- ?app_assoc; reflexivity.
    + unfold addws_sel. rewrite andb_false_r. cbn [andb app]. rewrite Hnext. cbn [rev]. rewrite <- app_assoc. reflexivity.
Qed.

Lemma sel_compact_expected o1 t1 b1 sl : is_wstok (t1, b1) = false -> Forall (fun x => is_wstok (snd x) = false) sl ->
  sel_compact [] false ((t1, b1) :: buf_toks sl) = expected_sel true ((o1, (t1, b1)) :: sl).
Proof.
  intros H1 Hs. cbn [sel_compact]. rewrite H1. cbn [andb fst]. rewrite (sel_compact_buf sl (t1, b1) [] _ H1 Hs).
  unfold expected_sel. cbn [sel_buf fst snd rev app].
  assert (Hno : addws_sel (issp o1) true false b1 = false) by (unfold addws_sel; destruct (combinator b1), (issp o1); reflexivity).
  rewrite Hno. reflexivity.
Qed.

(* the '{' of a nested ruleset in the loop of parseDeclaration *)
Lemma decl_begin f F p o lb ts : cinv F (pl p) -> keepws p = false -> plevel p = 0 -> isstyle p = true ->
  lexes (pl p) (optws o ++ (TLeftBrace, lb) :: ts) ->
  exists z', cinv F z' /\ lexes z' ts /\
    declaration_loop (S f) F p =
      POk (GBeginRuleset, push_st (set_tok (set_buf (relex p z' (isws o) (iscm o)) (sel_compact [] false (pbuf p))) TWhitespace [])
                                  SQualifiedRuleDeclarationList).
Proof.
  intros Hi Hkw Hlv Hsty Hl.
  destruct (pop_token_ows F false p o TLeftBrace lb ts Hi Hkw Hl eq_refl (fun _ => eq_refl)) as (z' & Hpop & Hl' & Hi').
  exists z'. split; [exact Hi'|]. split; [exact Hl'|].
  rewrite declaration_loop_S, Hpop. cbn [pbind fst snd]. unfold ends_unit. cbn [relex plevel pbuf isstyle]. rewrite Hlv, Hsty.
  evis. cbn [Z.eqb orb andb]. reflexivity.
Qed.

(* the first token of the selector of a nested ruleset: an identifier, a hash, ':' , '[' or a delimiter other than
   '*' ('*' takes the IE-hack path of parseDeclarationList, the known finding conservation-iehack) *)
Definition nest_first (x : tok) : bool :=
  is_t (fst x) TIdent || is_t (fst x) THash || is_t (fst x) TColon || is_t (fst x) TLeftBracket
  || (is_t (fst x) TDelim && negb (hd0 (snd x) =? 42)).

Lemma lexes_nonempty z t b ts : css_inv z -> lexes z ((t, b) :: ts) -> exists c b', b = c :: b'.
Proof.
  intros Hi Hl. destruct (lexes_cons _ _ _ _ Hl) as (z' & Hn & _ & He).
  destruct (css_next_step z Hi) as [(_ & Hn')|(ty & b0 & z2 & Hn' & _ & _ & _ & Hp & Hlen & _)]; rewrite Hn in Hn'.
  - assert (t = TError) by congruence. subst. discriminate.
  - assert (b0 = b) by congruence. subst b0. destruct b as [|c b']; [|eauto]. change (len (@nil Z)) with 0 in Hlen. lia.
Qed.

Lemma nest_head p s st0 gs o1 t1 b1 ts : decl_ctx s -> gap_at (s :: st0) (first_gap gs o1) ->
  wf_state p (s :: st0) (stream gs o1 ++ (t1, b1) :: ts) ->
  nest_first (t1, b1) = true ->
  exists p0, parse_next p = declaration_loop (next_fuel p) (next_fuel p) p0 /\ cinv (next_fuel p) (pl p0) /\ lexes (pl p0) ts /\
    pbuf p0 = [(t1, b1)] /\ ptt p0 = t1 /\ pdata p0 = b1 /\ pst p0 = s :: st0 /\
    plevel p0 = tok_lv 0 t1 /\ prevend p0 = false /\ keepws p0 = false /\ isstyle p0 = true /\ perr p0 = false.
Proof.
  intros Hctx Hg Hw Hfirst. pose proof Hw as (Hi & Hl & Hst & Hlv & Hpe & Hkw & Hsty). unfold nest_first in Hfirst. cbn [fst snd] in Hfirst.
  assert (Hp1 : plain_tok t1 = true) by (destruct t1; try discriminate Hfirst; reflexivity).
  assert (Hns1 : t1 <> TSemicolon) by (destruct t1; try discriminate Hfirst; discriminate).
  destruct (first_pop p s st0 gs o1 t1 b1 ts Hw (or_intror Hctx) Hg Hp1 Hns1) as (z1 & w & cf & Hfp & Hl1 & Hi1).
  assert (Hne : exists c b', b1 = c :: b').
  { unfold stream, semis in Hl. rewrite <- app_assoc in Hl.
    assert (Hsk : forall gs0 z0 L, css_inv z0 -> lexes z0 (flat_map (fun g => optws g ++ [semi]) gs0 ++ L) -> exists z', css_inv z' /\ lexes z' L).
    { induction gs0 as [|g0 gs0 IHg]; intros z0 L Hi0 Hl0; cbn [flat_map app] in Hl0; [eauto|].
      rewrite <- !app_assoc in Hl0. destruct (lexes_skip g0 _ _ Hi0 Hl0) as (z2 & Hi2 & Hl2). cbn [app] in Hl2.
      destruct (lexes_cons _ _ _ _ Hl2) as (z3 & Hn3 & Hl3 & _). apply (IHg z3 L); [eapply css_inv_next; eassumption|exact Hl3]. }
    destruct (Hsk gs _ _ Hi Hl) as (z2 & Hi2 & Hl2). destruct (lexes_skip o1 _ _ Hi2 Hl2) as (z0 & Hi0 & Hl0).
    apply (lexes_nonempty z0 t1 b1 ts Hi0 Hl0). }
  rewrite Hfp. unfold dispatch.
  rewrite (decl_dispatch s st0 _ _ Hctx) by (cbn [set_tok ptt]; destruct t1; try discriminate Hfirst; first [discriminate|reflexivity]).
  destruct (is_t t1 TDelim) eqn:Ed.
  - apply is_t_eq in Ed. subst t1. cbn in Hfirst. apply negb_true_iff in Hfirst. destruct Hne as (c & b' & ->). cbn [hd0] in Hfirst.
    unfold parse_declaration_list; cbn [set_tok ptt]; evis; cbn [pbind];
    (rewrite skip_semicolons_none by (cbn; discriminate)); cbn [pbind set_tok ptt pdata]; evis. rewrite peekz_0. cbn [of_opt pbind].
    rewrite Hfirst. cbn [pbind]; cbv zeta; cbn [set_tok ptt]; evis;
    cbn [orb andb isstyle set_tok relex set_err set_buf]; rewrite ?Hsty; cbn [orb andb];
    unfold parse_declaration; cbn [set_tok ptt pdata]; evis; cbv beta iota;
    (eexists; split; [reflexivity|];
     cbn [set_level set_buf set_tok relex set_err pl pbuf ptt pdata pst plevel prevend keepws isstyle perr];
     split; [exact Hi1|]; split; [exact Hl1|]; unfold tok_lv; cbn; rewrite ?Hlv; repeat split; assumption).
  - destruct t1; try discriminate Hfirst; try discriminate Ed;
    unfold parse_declaration_list; cbn [set_tok ptt]; evis; cbn [pbind];
    (rewrite skip_semicolons_none by (cbn; discriminate)); cbn [pbind set_tok ptt]; evis; cbn [pbind orb]; cbv zeta; cbn [set_tok ptt]; evis;
    cbn [orb andb isstyle set_tok relex set_err set_buf]; rewrite ?Hsty; cbn [orb andb];
    unfold parse_declaration; cbn [set_tok ptt pdata]; evis; cbv beta iota;
    (eexists; split; [reflexivity|];
     cbn [set_level set_buf set_tok relex set_err pl pbuf ptt pdata pst plevel prevend keepws isstyle perr];
     split; [exact Hi1|]; split; [exact Hl1|]; unfold tok_lv; cbn; rewrite ?Hlv; repeat split; assumption).
Qed.

(* a nested ruleset: selector tokens, '{' *)
Lemma step_nested p s st0 gs o1 t1 b1 (sl : list wtok) o2 lb ts : decl_ctx s -> gap_at (s :: st0) (first_gap gs o1) ->
  wf_state p (s :: st0) (stream gs o1 ++ (t1, b1) :: src_toks sl ++ optws o2 ++ (TLeftBrace, lb) :: ts) ->
  nest_first (t1, b1) = true -> toks_ok 0 ((o1, (t1, b1)) :: sl) -> lv_after 0 ((o1, (t1, b1)) :: sl) = 0 ->
  exists p', parse_next p = POk (GBeginRuleset, p') /\ ptt p' = TWhitespace /\ pdata p' = [] /\
    pbuf p' = expected_sel true ((o1, (t1, b1)) :: sl) /\ perr p' = false /\
    wf_state p' (SQualifiedRuleDeclarationList :: s :: st0) ts.
Proof.
  intros Hctx Hg Hw Hfirst Hok Hlv0. pose proof Hw as (Hi & Hl & _).
  cbn [toks_ok fst snd] in Hok. destruct Hok as (Hv1 & Hok). cbn [lv_after fst snd] in Hlv0.
  destruct (nest_head p s st0 gs o1 t1 b1 _ Hctx Hg Hw Hfirst) as (p0 & Hpn & Hi0 & Hl0 & Hb0 & Ht0 & Hd0 & Hst0 & Hlv & Hpe0 & Hkw0 & Hsty0 & Herr0).
  destruct (vtok_ok_inv _ _ Hv1) as (_ & _ & _ & _ & _ & _ & Hws1).
  assert (HN : exists f', next_fuel p = S (length sl + S f')).
  { pose proof (lexes_len _ _ Hi Hl) as Hlen. eapply fuel_split; [exact Hlen|].
    rewrite app_length. cbn [length]. rewrite app_length. rewrite app_length. cbn [length]. pose proof (src_toks_len sl) as Hsl.
    clear - Hsl. unfold wtok, tok in *. lia. }
  destruct HN as (f' & HN). pose proof (next_fuel_ok p Hi) as HF.
  assert (Hq : forall q, declaration_loop (next_fuel p) (next_fuel p) q = declaration_loop (S (length sl + S f')) (next_fuel p) q)
    by (intros q; rewrite HN at 1; reflexivity).
  rewrite Hpn, Hq. clear Hq.
  (* the loop needs at least one iteration per token; the first S is spent on ... nothing: shift it *)
  assert (Hshift : S (length sl + S f') = (length sl + S (S f'))%nat) by lia. rewrite Hshift.
  destruct (decl_values (next_fuel p) (optws o2 ++ (TLeftBrace, lb) :: ts) sl (S (S f')) p0) as (p2 & Hrun & Hi2 & Hl2 & Hb2 & Hlv2 & Hs2).
  { exact Hi0. } { exact Hkw0. } { exact Hl0. } { rewrite Hlv. exact Hok. }
  { exists [], (t1, b1). split; [rewrite Hb0; reflexivity|exact Hws1]. }
  rewrite Hrun. destruct Hs2 as (S1 & S2 & S3 & S4 & S5 & S6 & S7).
  destruct (decl_begin (S f') (next_fuel p) p2 o2 lb ts Hi2) as (z3 & Hi3 & Hl3 & Heq3).
  { rewrite S1. exact Hkw0. } { rewrite Hlv2, Hlv. exact Hlv0. } { rewrite S7. exact Hsty0. } { exact Hl2. }
  rewrite Heq3. eexists. split; [reflexivity|].
  cbn [push_st set_st set_tok set_buf relex ptt pdata pbuf perr].
  split; [reflexivity|]. split; [reflexivity|].
  split.
  { rewrite Hb2, Hb0. cbn [app]. apply sel_compact_expected; [exact Hws1|]. eapply toks_ok_nonws; exact Hok. }
  split; [rewrite S5; exact Herr0|].
  unfold wf_state. cbn [push_st set_st set_tok set_buf relex pl pst plevel prevend keepws isstyle].
  split; [exact (proj1 Hi3)|]. split; [exact Hl3|]. split; [rewrite S2, Hst0; reflexivity|].
  split; [rewrite Hlv2, Hlv; exact Hlv0|]. split; [rewrite S6; exact Hpe0|]. split; [rewrite S1; exact Hkw0|rewrite S7; exact Hsty0].
Qed.

(* --- top-level comments, CDO and CDC ------------------------------------------------------------------------------------ *)
(* popToken(true) at the top level hands a comment out *)
Lemma pop_token_comment F p o cb ts : keepws p = false -> len (pst p) = 1 -> cinv F (pl p) -> iscm o = false ->
  lexes (pl p) (optws o ++ (TComment, cb) :: ts) ->
  exists z', pop_token F true p = POk (TComment, cb, relex p z' (isws o) true) /\ lexes z' ts /\ cinv F z'.
Proof.
  intros Hkw Hst Hi Hnc Hl.
  destruct (pop_token_gap F true p o TComment cb ts Hi Hl (fun _ => Hkw)) as (z' & Hpop & Hl' & Hi').
  - intros H. congruence.
  - apply andb_false_r.
  - intros _. unfold cm_out. rewrite Hst. reflexivity.
  - exists z'. rewrite Hnc in Hpop. cbn [orb] in Hpop. auto.
Qed.

Lemma step_comment p o cb ts : wf_state p [SStylesheet] (optws o ++ (TComment, cb) :: ts) -> iscm o = false ->
  exists p', parse_next p = POk (GComment, p') /\ ptt p' = TComment /\ pdata p' = cb /\ perr p' = false /\
    wf_state p' [SStylesheet] ts.
Proof.
  intros (Hi & Hl & Hst & Hlv & Hpe & Hkw & Hsty) Hnc.
  unfold parse_next. cbv zeta. change (prevend (set_buf (set_err p false) [])) with (prevend p). rewrite Hpe.
  destruct (pop_token_comment (next_fuel p) (set_buf (set_err p false) []) o cb ts Hkw ltac:(cbn [set_err set_buf pst]; rewrite Hst; reflexivity)
              (next_fuel_ok p Hi) Hnc Hl) as (z' & Hpop & Hl' & Hi').
  rewrite Hpop. cbn [pbind fst snd]. cbn [set_tok relex set_err set_buf pst]. rewrite Hst.
  unfold parse_stylesheet. cbn [set_tok ptt]. evis. cbn [orb].
  eexists. split; [reflexivity|]. cbn [set_tok relex set_err set_buf ptt pdata perr].
  split; [reflexivity|]. split; [reflexivity|]. split; [reflexivity|].
  unfold wf_state. cbn [set_tok relex set_err set_buf pl pst plevel prevend keepws isstyle].
  split; [exact (proj1 Hi')|]. split; [exact Hl'|]. auto.
Qed.

Definition is_cd (t : ttype) : bool := is_t t TCDO || is_t t TCDC.

Lemma step_cd p o t b ts : wf_state p [SStylesheet] (optws o ++ (t, b) :: ts) -> is_cd t = true -> iscm o = false ->
  exists p', parse_next p = POk (GToken, p') /\ ptt p' = t /\ pdata p' = b /\ perr p' = false /\
    wf_state p' [SStylesheet] ts.
Proof.
  intros (Hi & Hl & Hst & Hlv & Hpe & Hkw & Hsty) Hcd Hnc.
  assert (Hg : gap_at [SStylesheet] o) by (intros H; congruence).
  assert (Hp : plain_tok t = true) by (destruct t; try discriminate Hcd; reflexivity).
  unfold parse_next. cbv zeta. change (prevend (set_buf (set_err p false) [])) with (prevend p). rewrite Hpe.
  destruct (pop_token_ows (next_fuel p) true (set_buf (set_err p false) []) o t b ts (next_fuel_ok p Hi) Hkw Hl Hp (cm_out_no _ _ true (set_buf (set_err p false) []) Hg Hst)) as (z' & Hpop & Hl' & Hi').
  rewrite Hpop. cbn [pbind fst snd]. cbn [set_tok relex set_err pst set_buf]. rewrite Hst.
  unfold parse_stylesheet. cbn [set_tok ptt]. unfold is_cd in Hcd. rewrite Hcd.
  eexists. split; [reflexivity|]. cbn [set_tok relex set_err ptt pdata perr set_buf].
  split; [reflexivity|]. split; [reflexivity|]. split; [reflexivity|].
  unfold wf_state. cbn [set_tok relex set_err pl pst plevel prevend keepws isstyle set_buf].
  split; [exact (proj1 Hi')|]. split; [exact Hl'|]. auto.
Qed.

(* --- custom properties -------------------------------------------------------------------------------------------------- *)
(* the raw tokens of a custom property value (whitespace and comments included): no end of input, no ';' '}' ')' ']'
   at bracket level 0 *)
Definition rtok_ok (lv : Z) (t : ttype) : bool :=
  negb (((is_t t TSemicolon || is_t t TRightBrace) && (lv =? 0)) || is_t t TError) && negb (closes t && (lv =? 0)).
Fixpoint raw_ok (lv : Z) (l : list tok) : Prop :=
  match l with [] => True | x :: r => rtok_ok lv (fst x) = true /\ raw_ok (tok_lv lv (fst x)) r end.
Fixpoint raw_lv (lv : Z) (l : list tok) : Z :=
  match l with [] => lv | x :: r => raw_lv (tok_lv lv (fst x)) r end.

Lemma custom_loop_S f p val : custom_loop (S f) p val =
  (r <-- lex_next p ;;
   let t := fst (fst r) in let d := snd (fst r) in let p := snd r in
   if ends_unit p t then POk (GCustomProperty, push_buf (set_prevend p (is_t t TRightBrace)) TCustomPropertyValue val)
   else if closes t && (plevel p =? 0) then POk (GError, set_err (push_buf p t d) true)
   else custom_loop f (adjust_level p t) (val ++ d)).
Proof. reflexivity. Qed.

Definition same_but_lex (p p' : parser) : Prop :=
  keepws p' = keepws p /\ pst p' = pst p /\ ptt p' = ptt p /\ pdata p' = pdata p /\ perr p' = perr p /\
  prevend p' = prevend p /\ isstyle p' = isstyle p /\ pbuf p' = pbuf p.

Lemma custom_raw : forall raw f p val ts, css_inv (pl p) -> lexes (pl p) (raw ++ ts) -> raw_ok (plevel p) raw ->
  exists p', custom_loop (length raw + f) p val = custom_loop f p' (val ++ concat (map snd raw)) /\
    css_inv (pl p') /\ lexes (pl p') ts /\ plevel p' = raw_lv (plevel p) raw /\ same_but_lex p p'.
Proof.
  induction raw as [|[t b] raw IH]; intros f p val ts Hi Hl Hok.
  - exists p. cbn [length Nat.add map concat app raw_lv] in *. rewrite app_nil_r.
    split; [reflexivity|]. split; [exact Hi|]. split; [exact Hl|]. split; [reflexivity|]. unfold same_but_lex. repeat split.
  - cbn [app] in Hl. cbn [raw_ok fst] in Hok. destruct Hok as (Hv & Hok).
    destruct (lexes_cons _ _ _ _ Hl) as (z' & Hn & Hl' & _). pose proof (css_inv_next _ _ _ _ Hi Hn) as Hi'.
    unfold rtok_ok in Hv. apply andb_true_iff in Hv. destruct Hv as [Hv1 Hv2].
    apply negb_true_iff in Hv1. apply negb_true_iff in Hv2.
    set (p1 := adjust_level (set_pl p z') t).
    assert (Hf : pl p1 = z' /\ plevel p1 = tok_lv (plevel p) t /\ same_but_lex p p1).
    { subst p1. unfold adjust_level, tok_lv, same_but_lex. destruct (opens t), (closes t); cbn; repeat split. }
    destruct Hf as (G1 & G2 & G3).
    destruct (IH f p1 (val ++ b) ts) as (p' & Hrun & Hi2 & Hl2 & Hlv2 & Hs2).
    + rewrite G1. exact Hi'.
    + rewrite G1. exact Hl'.
    + rewrite G2. exact Hok.
    + exists p'. cbn [length Nat.add]. rewrite custom_loop_S. unfold lex_next. rewrite Hn. cbn [pbind fst snd].
      unfold ends_unit. cbn [set_pl plevel]. rewrite Hv1, Hv2. fold p1. rewrite Hrun.
      split; [cbn [map concat snd]; rewrite <- app_assoc; reflexivity|]. split; [exact Hi2|]. split; [exact Hl2|].
      split; [rewrite Hlv2, G2; reflexivity|].
      unfold same_but_lex in *. destruct G3 as (A1 & A2 & A3 & A4 & A5 & A6 & A7 & A8). destruct Hs2 as (B1 & B2 & B3 & B4 & B5 & B6 & B7 & B8).
      repeat split; congruence.
Qed.

(* a custom property is read in declaration blocks and at the top level *)
Definition custom_ctx (s : pstate) : Prop := decl_ctx s \/ s = SStylesheet.

Lemma custom_dispatch s st0 F q : custom_ctx s -> ptt q = TCustomPropertyName ->
  match s :: st0 with
  | [] => PPanic
  | SStylesheet :: _ => parse_stylesheet F q
  | SDeclarationList :: _ => parse_declaration_list F q
  | SAtRuleRuleList :: _ => parse_at_rule_rule_list F q
  | SAtRuleDeclarationList :: _ => parse_at_rule_declaration_list F q
  | SAtRuleUnknown :: _ => parse_at_rule_unknown q
  | SQualifiedRuleDeclarationList :: _ => parse_qualified_rule_declaration_list F q
  end = parse_custom_property F q.
Proof.
  intros [Hd| ->] H.
  - rewrite (decl_dispatch s st0 F q Hd) by (rewrite H; first [discriminate|reflexivity]).
    unfold parse_declaration_list. rewrite H. evis. cbn [pbind]. rewrite skip_semicolons_none by (rewrite H; discriminate).
    cbn [pbind]. rewrite H. evis. cbn [pbind]. cbv zeta. rewrite H. evis. cbn [orb andb]. rewrite ?andb_false_r. reflexivity.
  - unfold parse_stylesheet. rewrite H. evis. reflexivity.
Qed.

(* a custom property  --name ':' raw-tokens ';'  : the value is the exact source text *)
Lemma step_custom p s st0 gs o1 name o2 c (raw : list tok) tb ts : custom_ctx s -> (gs = [] \/ decl_ctx s) ->
  gap_at (s :: st0) (first_gap gs o1) -> term_ok tb ->
  wf_state p (s :: st0)
           (stream gs o1 ++ (TCustomPropertyName, name) :: optws o2 ++ (TColon, c) :: raw ++ tb :: ts) ->
  raw_ok 0 raw -> raw_lv 0 raw = 0 ->
  exists p', parse_next p = POk (GCustomProperty, p') /\ ptt p' = TCustomPropertyName /\ pdata p' = name /\
    pbuf p' = [(TCustomPropertyValue, concat (map snd raw))] /\ perr p' = false /\
    wf_after tb p' (s :: st0) ts.
Proof.
  intros Hctx Hgs Hg Hterm Hw Hok Hlv0. pose proof Hw as (Hi & Hl & Hst & Hlv & Hpe & Hkw & Hsty).
  assert (HN : exists f', next_fuel p = S (length raw + S f')).
  { pose proof (lexes_len _ _ Hi Hl) as Hlen. eapply fuel_split; [exact Hlen|].
    rewrite app_length. cbn [length]. rewrite app_length. cbn [length]. rewrite app_length. cbn [length].
    clear. unfold tok. lia. }
  destruct HN as (f' & HN). pose proof (next_fuel_ok p Hi) as HF.
  destruct (first_pop p s st0 gs o1 TCustomPropertyName name _ Hw Hgs Hg eq_refl ltac:(discriminate)) as (z1 & wf & cf & Hfp & Hl1 & Hi1).
  rewrite Hfp. unfold dispatch.
  rewrite (custom_dispatch s st0 _ _ Hctx) by reflexivity.
  unfold parse_custom_property.
  match goal with |- context [pop_token _ false ?q] => set (q0 := q) end.
  destruct (pop_token_ows (next_fuel p) false q0 o2 TColon c _ Hi1 Hkw Hl1 eq_refl (fun _ => eq_refl)) as (z2 & Hpop2 & Hl2 & Hi2).
  rewrite Hpop2. cbn [pbind fst snd]. evis. cbn [negb].
  match goal with |- context [custom_loop _ ?q []] => set (q1 := q) end.
  assert (Hq : custom_loop (next_fuel p) q1 [] = custom_loop (length raw + S (S f')) q1 []).
  { rewrite HN. f_equal. clear. lia. }
  rewrite Hq. clear Hq.
  destruct (custom_raw raw (S (S f')) q1 [] (tb :: ts)) as (q2 & Hrun & Hi3 & Hl3 & Hlv3 & Hs3).
  { exact (proj1 Hi2). } { exact Hl2. } { change (plevel q1) with (plevel p). rewrite Hlv. exact Hok. }
  rewrite Hrun. cbn [app]. destruct tb as [tt bb]. unfold term_ok in Hterm. cbn [fst] in Hterm.
  destruct (lexes_cons _ _ _ _ Hl3) as (z4 & Hn4 & Hl4 & _). pose proof (css_inv_next _ _ _ _ Hi3 Hn4) as Hi4.
  rewrite custom_loop_S. unfold lex_next. rewrite Hn4. cbn [pbind fst snd]. unfold ends_unit. cbn [set_pl plevel].
  rewrite Hlv3. change (plevel q1) with (plevel p). rewrite Hlv, Hlv0.
  assert (He : ((is_t tt TSemicolon || is_t tt TRightBrace) && (0 =? 0)) || is_t tt TError = true) by (destruct Hterm as [->| ->]; reflexivity).
  rewrite He.
  destruct Hs3 as (S1 & S2 & S3 & S4 & S5 & S6 & S7 & S8).
  eexists. split; [reflexivity|].
  cbn [push_buf set_buf set_prevend set_pl ptt pdata pbuf perr].
  split; [rewrite S3; reflexivity|]. split; [rewrite S4; reflexivity|]. split; [rewrite S8; reflexivity|].
  split; [rewrite S5; reflexivity|].
  unfold wf_after, wf_state, wf_pend. cbn [fst]. destruct (is_t tt TRightBrace);
    cbn [push_buf set_buf set_prevend set_pl pl pst plevel prevend keepws isstyle];
    (split; [exact Hi4|]; split; [exact Hl4|]; split; [rewrite S2; exact Hst|];
     split; [rewrite Hlv3; change (plevel q1) with (plevel p); rewrite Hlv; exact Hlv0|]; split; [reflexivity|];
     split; [rewrite S1; exact Hkw|rewrite S7; exact Hsty]).
Qed.

(* --- at-rules -------------------------------------------------------------------------------------------------------- *)
(* the name handling of parseAtRule: lower-cased name, vendor prefix dropped, hashed (ToHash) *)
Definition at_rule_h (name0 : list Z) : pres Z :=
  name <-- (if 0 <? len name0 then
              c1 <-- of_opt (peekz name0 1) ;;
              if c1 =? 45 then
                match index_byte (skipz 2 name0) 45 with
                | Some i => POk (skipz (i + 2) name0)
                | None => POk name0
                end
              else POk name0
            else POk name0) ;;
  if len name <? 1 then PPanic else of_opt (to_hash (skipz 1 name)).

Lemma parse_at_rule_eq F p : parse_at_rule F p =
  (h <-- at_rule_h (to_lower (pdata p)) ;;
   at_rule_loop F F (set_tok (set_buf p []) (ptt p) (to_lower (pdata p))) h true false).
Proof.
  unfold parse_at_rule, at_rule_h. cbn [set_buf set_tok pdata ptt].
  match goal with |- pbind ?X _ = _ => destruct X as [nm| |] end; cbn [pbind]; try reflexivity.
  destruct (len nm <? 1); [reflexivity|]. destruct (to_hash (skipz 1 nm)); reflexivity.
Qed.

Definition at_special (b : list Z) : bool := one_of [44; 58] b.             (* , : *)
(* the whitespace before a prelude token is kept unless the token is , : or ')' , follows one of , : ( , or is a '(' / '['
   directly after the at-keyword *)
Definition at_w (w first : bool) (t : ttype) : bool := w && negb (first && (is_t t TLeftParenthesis || is_t t TLeftBracket)).
Definition addws_at (w first sk : bool) (t : ttype) (b : list Z) : bool :=
  negb (at_special b) && at_w w first t && negb sk && negb (is_t t TRightParenthesis).
Definition sk_at (t : ttype) (b : list Z) : bool := if is_t t TLeftParenthesis then true else at_special b.
Definition after_at (p : parser) (z' : lx) (o : ws_t) (t : ttype) (b : list Z) (first sk : bool) : parser :=
  push_buf (let q := adjust_level (relex p z' (isws o) (iscm o)) t in
            let q := if first && (is_t t TLeftParenthesis || is_t t TLeftBracket) then set_prevws q false else q in
            if addws_at (isws o) first sk t b then push_buf q TWhitespace [32] else q) t b.

Fixpoint at_buf (first sk : bool) (l : list wtok) : list tok :=
  match l with
  | [] => []
  | x :: r => (if addws_at (isws (fst x)) first sk (fst (snd x)) (snd (snd x)) then [sp] else []) ++ snd x ::
              at_buf false (sk_at (fst (snd x)) (snd (snd x))) r
  end.

Lemma after_at_f p z' w t b first sk : pl (after_at p z' w t b first sk) = z' /\
  pbuf (after_at p z' w t b first sk) = pbuf p ++ (if addws_at (isws w) first sk t b then [sp] else []) ++ [(t, b)] /\
  plevel (after_at p z' w t b first sk) = tok_lv (plevel p) t /\ rest_same p (after_at p z' w t b first sk).
Proof.
  unfold after_at, adjust_level, tok_lv, rest_same, sp.
  destruct (addws_at (isws w) first sk t b), (first && (is_t t TLeftParenthesis || is_t t TLeftBracket)), (opens t), (closes t);
    cbn; rewrite <- ?app_assoc; repeat split.
Qed.

Lemma at_rule_loop_S f F p h first sk : at_rule_loop (S f) F p h first sk =
  (r <-- pop_token F false p ;;
   let t := fst (fst r) in let d := snd (fst r) in let p := snd r in
   if is_t t TLeftBrace && (plevel p =? 0) then POk (GBeginAtRule, push_st p (at_state h))
   else if ends_unit p t then POk (GAtRule, set_prevend p (is_t t TRightBrace))
   else if closes t && (plevel p =? 0) then POk (GError, set_err (pop_st_if_gt1 (push_buf p t d)) true)
   else
     let p := adjust_level p t in
     let p := if first && (is_t t TLeftParenthesis || is_t t TLeftBracket) then set_prevws p false else p in
     let special := one_of [44; 58] d in
     let addws := negb special && prevws p && negb sk && negb (is_t t TRightParenthesis) in
     let skipws := if special then true else if addws then sk else false in
     let p := if addws then push_buf p TWhitespace [32] else p in
     let skipws := if is_t t TLeftParenthesis then true else skipws in
     at_rule_loop f F (push_buf p t d) h false skipws).
Proof. reflexivity. Qed.

Lemma at_iter f F p h o t b ts first sk : cinv F (pl p) -> keepws p = false ->
  lexes (pl p) (optws o ++ (t, b) :: ts) -> vtok_ok (plevel p) t = true ->
  exists z', cinv F z' /\ lexes z' ts /\
    at_rule_loop (S f) F p h first sk = at_rule_loop f F (after_at p z' o t b first sk) h false (sk_at t b).
Proof.
  intros Hi Hkw Hl Hv.
  destruct (vtok_ok_inv _ _ Hv) as (Hp & Herr & Hlb & Hrb & Hsemi & Hcl & _).
  destruct (pop_token_ows F false p o t b ts Hi Hkw Hl Hp (fun _ => eq_refl)) as (z' & Hpop & Hl' & Hi').
  exists z'. split; [exact Hi'|]. split; [exact Hl'|].
  rewrite at_rule_loop_S, Hpop. cbn [pbind fst snd]. rewrite Hlb. cbn [andb]. unfold ends_unit. rewrite Hsemi, Hrb, Herr. cbn [orb andb].
  assert (Hc0 : closes t && (plevel (relex p z' (isws o) (iscm o)) =? 0) = false).
  { cbn [relex plevel]. destruct (closes t); [|reflexivity]. specialize (Hcl eq_refl). cbn [andb]. lia. }
  rewrite Hc0. cbv zeta. unfold after_at, addws_at, at_w, sk_at, at_special.
  destruct (adjust_level_f (relex p z' (isws o) (iscm o)) t) as (_ & F2 & _).
  destruct first, (is_t t TLeftParenthesis), (is_t t TLeftBracket); cbn [andb orb negb set_prevws prevws]; rewrite ?F2; cbn [relex prevws];
    destruct (one_of [44; 58] b), (isws o), sk, (is_t t TRightParenthesis); reflexivity.
Qed.

Lemma at_tokens F h ts : forall sl f p first sk, cinv F (pl p) -> keepws p = false ->
  lexes (pl p) (src_toks sl ++ ts) -> toks_ok (plevel p) sl ->
  exists p' first' sk', at_rule_loop (length sl + f) F p h first sk = at_rule_loop f F p' h first' sk' /\
    cinv F (pl p') /\ lexes (pl p') ts /\ pbuf p' = pbuf p ++ at_buf first sk sl /\
    plevel p' = lv_after (plevel p) sl /\ rest_same p p'.
Proof.
  induction sl as [|[o [t b]] sl IH]; intros f p first sk Hi Hkw Hl Hok.
  - exists p, first, sk. cbn [length Nat.add src_toks at_buf flat_map app lv_after] in *. rewrite app_nil_r.
    split; [reflexivity|]. split; [exact Hi|]. split; [exact Hl|]. split; [reflexivity|]. split; [reflexivity|].
    unfold rest_same. repeat split.
  - rewrite src_toks_cons in Hl. cbn [toks_ok fst snd] in Hok. destruct Hok as (Hv & Hok).
    destruct (at_iter (length sl + f) F p h o t b _ first sk Hi Hkw Hl Hv) as (z' & Hi' & Hl' & Heq).
    destruct (after_at_f p z' o t b first sk) as (G1 & G2 & G3 & G4).
    set (p1 := after_at p z' o t b first sk) in *.
    destruct (IH f p1 false (sk_at t b)) as (p' & first' & sk' & Hrun & Hi2 & Hl2 & Hb2 & Hlv2 & Hs2).
    + rewrite G1. exact Hi'.
    + destruct G4 as (G4 & _). rewrite G4. exact Hkw.
    + rewrite G1. exact Hl'.
    + rewrite G3. exact Hok.
    + exists p', first', sk'. cbn [length Nat.add]. rewrite Heq, Hrun. split; [reflexivity|]. split; [exact Hi2|]. split; [exact Hl2|].
      split; [rewrite Hb2, G2; cbn [at_buf fst snd]; rewrite <- !app_assoc; reflexivity|]. split; [rewrite Hlv2, G3; reflexivity|].
      eapply rest_same_trans; eassumption.
Qed.

Lemma at_term f F p h o tb ts first sk : cinv F (pl p) -> keepws p = false -> plevel p = 0 -> term_ok tb ->
  lexes (pl p) (optws o ++ tb :: ts) ->
  exists z', cinv F z' /\ lexes z' ts /\
    at_rule_loop (S f) F p h first sk = POk (GAtRule, set_prevend (relex p z' (isws o) (iscm o)) (is_t (fst tb) TRightBrace)).
Proof.
  intros Hi Hkw Hlv Hterm Hl. destruct tb as [tt bb]. unfold term_ok in Hterm. cbn [fst] in *.
  assert (Hp : plain_tok tt = true) by (destruct Hterm as [->| ->]; reflexivity).
  destruct (pop_token_ows F false p o tt bb ts Hi Hkw Hl Hp (fun _ => eq_refl)) as (z' & Hpop & Hl' & Hi').
  exists z'. split; [exact Hi'|]. split; [exact Hl'|].
  rewrite at_rule_loop_S, Hpop. cbn [pbind fst snd]. unfold ends_unit. cbn [relex plevel]. rewrite Hlv.
  destruct Hterm as [->| ->]; evis; reflexivity.
Qed.

Lemma at_brace f F p h o lb ts first sk : cinv F (pl p) -> keepws p = false -> plevel p = 0 ->
  lexes (pl p) (optws o ++ (TLeftBrace, lb) :: ts) ->
  exists z', cinv F z' /\ lexes z' ts /\
    at_rule_loop (S f) F p h first sk = POk (GBeginAtRule, push_st (relex p z' (isws o) (iscm o)) (at_state h)).
Proof.
  intros Hi Hkw Hlv Hl.
  destruct (pop_token_ows F false p o TLeftBrace lb ts Hi Hkw Hl eq_refl (fun _ => eq_refl)) as (z' & Hpop & Hl' & Hi').
  exists z'. split; [exact Hi'|]. split; [exact Hl'|].
  rewrite at_rule_loop_S, Hpop. cbn [pbind fst snd relex plevel]. rewrite Hlv. evis. reflexivity.
Qed.

(* the name handling of parseAtRule never fails on an at-keyword (ToHash is total) *)
Lemma index_byte_lt : forall l b i, index_byte l b = Some i -> 0 <= i < len l.
Proof.
  induction l as [|c l IH]; intros b i H; cbn [index_byte] in H; [discriminate|].
  rewrite len_cons. pose proof (len_nonneg l). destruct (c =? b); [some_inv H; lia|].
  destruct (index_byte l b) as [j|] eqn:E; [|discriminate]. some_inv H. specialize (IH _ _ E). lia.
Qed.

Lemma at_rule_h_total name0 : 2 <= len name0 -> exists h, at_rule_h name0 = POk h.
Proof.
  intros Hlen. unfold at_rule_h. replace (0 <? len name0) with true by lia.
  destruct (peekz_in_range name0 1) as (c1 & Hc1); [lia|]. rewrite Hc1. cbn [of_opt pbind].
  assert (Hplain : exists h, (if len name0 <? 1 then PPanic else of_opt (to_hash (skipz 1 name0))) = POk h).
  { replace (len name0 <? 1) with false by lia. destruct (to_hash_total (skipz 1 name0)) as (h & ->). exists h. reflexivity. }
  destruct (c1 =? 45); [|cbn [pbind]; exact Hplain].
  destruct (index_byte (skipz 2 name0) 45) as [i|] eqn:Ei; [|cbn [pbind]; exact Hplain].
  cbn [pbind]. pose proof (index_byte_lt _ _ _ Ei) as Hi. rewrite len_skipz in Hi by lia.
  replace (len (skipz (i + 2) name0) <? 1) with false by (rewrite len_skipz by lia; lia).
  destruct (to_hash_total (skipz 1 (skipz (i + 2) name0))) as (h & ->). exists h. reflexivity.
Qed.

Lemma len_to_lower b : len (to_lower b) = len b.
Proof. unfold to_lower, len. rewrite map_length. reflexivity. Qed.

(* the state of the block of an at-rule: by the hash of its name *)
Definition at_st (name : list Z) : pstate :=
  match at_rule_h (to_lower name) with POk h => at_state h | _ => SAtRuleUnknown end.

Lemma lexes_at_len z o name ts : css_inv z -> lexes z (optws o ++ (TAtKeyword, name) :: ts) -> 2 <= len name.
Proof.
  assert (H0 : forall z0, css_inv z0 -> lexes z0 ((TAtKeyword, name) :: ts) -> 2 <= len name).
  { intros z0 Hi Hl. destruct (lexes_cons _ _ _ _ Hl) as (z' & Hn & _ & He).
    destruct (css_next_step z0 Hi) as [(_ & Hn')|(ty & b0 & z2 & Hn' & _ & _ & _ & _ & _ & Hat)]; rewrite Hn in Hn'.
    - discriminate.
    - assert (ty = TAtKeyword) by congruence. assert (b0 = name) by congruence. subst. apply Hat. reflexivity. }
  intros Hi Hl. destruct (lexes_skip o _ _ Hi Hl) as (z1 & Hi1 & Hl1). eapply (H0 z1); eassumption.
Qed.

(* Next on an at-keyword (anywhere but inside an unknown at-rule block): everything up to the loop of parseAtRule *)
Lemma at_head p s st0 gs o1 name ts : s <> SAtRuleUnknown -> s <> SDeclarationList -> (gs = [] \/ decl_ctx s) ->
  gap_at (s :: st0) (first_gap gs o1) -> wf_state p (s :: st0) (stream gs o1 ++ (TAtKeyword, name) :: ts) ->
  exists h p0, at_rule_h (to_lower name) = POk h /\
    parse_next p = at_rule_loop (next_fuel p) (next_fuel p) p0 h true false /\ cinv (next_fuel p) (pl p0) /\ lexes (pl p0) ts /\
    pbuf p0 = [] /\ ptt p0 = TAtKeyword /\ pdata p0 = to_lower name /\ pst p0 = s :: st0 /\
    plevel p0 = 0 /\ prevend p0 = false /\ keepws p0 = false /\ isstyle p0 = true /\ perr p0 = false.
Proof.
  intros Hs1 Hs2 Hgs Hg Hw. pose proof Hw as (Hi & Hl & Hst & Hlv & Hpe & Hkw & Hsty).
  destruct (at_rule_h_total (to_lower name)) as (h & Hh).
  { rewrite len_to_lower. unfold stream, semis in Hl. rewrite <- app_assoc in Hl.
    assert (Hsk : forall gs0 z0 L, css_inv z0 -> lexes z0 (flat_map (fun g => optws g ++ [semi]) gs0 ++ L) -> exists z', css_inv z' /\ lexes z' L).
    { induction gs0 as [|g0 gs0 IHg]; intros z0 L Hi0 Hl0; cbn [flat_map app] in Hl0; [eauto|].
      rewrite <- !app_assoc in Hl0. destruct (lexes_skip g0 _ _ Hi0 Hl0) as (z2 & Hi2 & Hl2). cbn [app] in Hl2.
      destruct (lexes_cons _ _ _ _ Hl2) as (z3 & Hn3 & Hl3 & _). apply (IHg z3 L); [eapply css_inv_next; eassumption|exact Hl3]. }
    destruct (Hsk gs _ _ Hi Hl) as (z2 & Hi2 & Hl2). eapply lexes_at_len; eassumption. }
  exists h.
  destruct (first_pop p s st0 gs o1 TAtKeyword name ts Hw Hgs Hg eq_refl ltac:(discriminate)) as (z1 & wf & cf & Hfp & Hl1 & Hi1).
  rewrite Hfp. unfold dispatch.
  rewrite (at_dispatch s st0 _ _ Hs1 Hs2) by reflexivity.
  rewrite parse_at_rule_eq. cbn [set_tok pdata ptt]. rewrite Hh. cbn [pbind].
  eexists. split; [reflexivity|]. split; [reflexivity|].
  cbn [set_buf set_tok relex set_err pl pbuf ptt pdata pst plevel prevend keepws isstyle perr].
  split; [exact Hi1|]. split; [exact Hl1|]. repeat split; assumption.
Qed.

(* an at-rule: at-keyword, prelude tokens, then ';' or the '}' of the enclosing block (AtRule), or '{' (BeginAtRule) *)
Lemma step_at p s st0 gs o1 name (pre : list wtok) o2 (tb : tok) ts : s <> SAtRuleUnknown -> s <> SDeclarationList ->
  (gs = [] \/ decl_ctx s) -> gap_at (s :: st0) (first_gap gs o1) ->
  wf_state p (s :: st0) (stream gs o1 ++ (TAtKeyword, name) :: src_toks pre ++ optws o2 ++ tb :: ts) ->
  toks_ok 0 pre -> lv_after 0 pre = 0 -> (term_ok tb \/ fst tb = TLeftBrace) ->
  exists p', parse_next p = POk (if is_t (fst tb) TLeftBrace then GBeginAtRule else GAtRule, p') /\
    ptt p' = TAtKeyword /\ pdata p' = to_lower name /\ pbuf p' = at_buf true false pre /\ perr p' = false /\
    (if is_t (fst tb) TLeftBrace then wf_state p' (at_st name :: s :: st0) ts else wf_after tb p' (s :: st0) ts).
Proof.
  intros Hs1 Hs2 Hgs Hg Hw Hok Hlv0 Htb. pose proof Hw as (Hi & Hl & _).
  destruct (at_head p s st0 gs o1 name _ Hs1 Hs2 Hgs Hg Hw) as (h & p0 & Hh & Hpn & Hi0 & Hl0 & Hb0 & Ht0 & Hd0 & Hst0 & Hlv & Hpe0 & Hkw0 & Hsty0 & Herr0).
  assert (HN : exists f', next_fuel p = S (length pre + S f')).
  { pose proof (lexes_len _ _ Hi Hl) as Hlen. eapply fuel_split; [exact Hlen|].
    rewrite app_length. cbn [length]. rewrite app_length. rewrite app_length. cbn [length]. pose proof (src_toks_len pre) as Hsl.
    clear - Hsl. unfold wtok, tok in *. lia. }
  destruct HN as (f' & HN). pose proof (next_fuel_ok p Hi) as HF.
  assert (Hq : forall q, at_rule_loop (next_fuel p) (next_fuel p) q h true false =
                         at_rule_loop (length pre + S (S f')) (next_fuel p) q h true false).
  { intros q. rewrite HN at 1. f_equal. clear. lia. }
  rewrite Hpn, Hq. clear Hq.
  destruct (at_tokens (next_fuel p) h (optws o2 ++ tb :: ts) pre (S (S f')) p0 true false) as (p2 & first' & sk' & Hrun & Hi2 & Hl2 & Hb2 & Hlv2 & Hsm).
  { exact Hi0. } { exact Hkw0. } { exact Hl0. } { rewrite Hlv. exact Hok. }
  rewrite Hrun. destruct Hsm as (S1 & S2 & S3 & S4 & S5 & S6 & S7).
  assert (Hk2 : keepws p2 = false) by (rewrite S1; exact Hkw0).
  assert (Hl20 : plevel p2 = 0) by (rewrite Hlv2, Hlv; exact Hlv0).
  destruct Htb as [Hterm|Hlb].
  - assert (Hnlb : is_t (fst tb) TLeftBrace = false) by (destruct tb as [tt bb]; destruct Hterm as [E|E]; cbn [fst] in *; rewrite E; reflexivity).
    rewrite Hnlb.
    destruct (at_term (S f') (next_fuel p) p2 h o2 tb ts first' sk' Hi2 Hk2 Hl20 Hterm Hl2) as (z3 & Hi3 & Hl3 & Heq3).
    rewrite Heq3. eexists. split; [reflexivity|]. cbn [set_prevend relex ptt pdata pbuf perr].
    split; [rewrite S3; exact Ht0|]. split; [rewrite S4; exact Hd0|]. split; [rewrite Hb2, Hb0; reflexivity|].
    split; [rewrite S5; exact Herr0|].
    unfold wf_after, wf_state, wf_pend. destruct (is_t (fst tb) TRightBrace); cbn [set_prevend relex pl pst plevel prevend keepws isstyle];
      (split; [exact (proj1 Hi3)|]; split; [exact Hl3|]; split; [rewrite S2; exact Hst0|]; split; [exact Hl20|]; split; [reflexivity|];
       split; [exact Hk2|rewrite S7; exact Hsty0]).
  - destruct tb as [tt bb]. cbn [fst] in *. subst tt. evis.
    destruct (at_brace (S f') (next_fuel p) p2 h o2 bb ts first' sk' Hi2 Hk2 Hl20 Hl2) as (z3 & Hi3 & Hl3 & Heq3).
    rewrite Heq3. eexists. split; [reflexivity|]. cbn [push_st set_st relex ptt pdata pbuf perr].
    split; [rewrite S3; exact Ht0|]. split; [rewrite S4; exact Hd0|]. split; [rewrite Hb2, Hb0; reflexivity|].
    split; [rewrite S5; exact Herr0|].
    unfold wf_state, at_st. rewrite Hh. cbn [push_st set_st relex pl pst plevel prevend keepws isstyle].
    split; [exact (proj1 Hi3)|]. split; [exact Hl3|]. split; [rewrite S2, Hst0; reflexivity|]. split; [exact Hl20|]. split; [rewrite S6; exact Hpe0|].
    split; [exact Hk2|rewrite S7; exact Hsty0].
Qed.

(* --- the block of an unknown at-rule: a stream of tokens ---------------------------------------------------------------- *)
(* inside the block: bracket level lv; first = no token of the block has been read yet (keepWS is still off, so whitespace
   directly after the '{' is skipped; afterwards whitespace tokens are reported like any other token) *)
Definition wf_unk (p : parser) (lv : Z) (first : bool) (st : list pstate) (toks : list tok) : Prop :=
  css_inv (pl p) /\ lexes (pl p) toks /\ pst p = SAtRuleUnknown :: st /\ plevel p = lv /\ prevend p = false /\
  keepws p = negb first /\ isstyle p = true.

(* a token of the block: not a comment (comments are dropped), not the end of input, a closing bracket only inside an
   open one; before it a gap of dropped tokens: for the first token whitespace and comments (and the token itself is not
   whitespace), for a later one comments only *)
Definition utok_ok (lv : Z) (first : bool) (w : ws_t) (t : ttype) : Prop :=
  is_t t TComment = false /\ is_t t TError = false /\ (closes t = true -> 0 < lv) /\
  (if first then is_t t TWhitespace = false else isws w = false).

Lemma step_utok p lv first st w t b ts : st <> [] -> wf_unk p lv first st (optws w ++ (t, b) :: ts) -> utok_ok lv first w t ->
  exists p', parse_next p = POk (GToken, p') /\ ptt p' = t /\ pdata p' = b /\ pbuf p' = [] /\ perr p' = false /\
    wf_unk p' (tok_lv lv t) false st ts.
Proof.
  intros Hne (Hi & Hl & Hst & Hlv & Hpe & Hkw & Hsty) (Hc & He & Hcl & Hf).
  unfold parse_next. cbv zeta. change (prevend (set_buf (set_err p false) [])) with (prevend p). rewrite Hpe.
  assert (Hco : cm_out true (set_buf (set_err p false) []) = false).
  { unfold cm_out. cbn [set_buf set_err pst andb]. rewrite Hst. destruct st; [congruence|]. rewrite !len_cons. pose proof (len_nonneg st). apply Z.eqb_neq. lia. }
  assert (Hpop : exists z' wf cf, pop_token (next_fuel p) true (set_buf (set_err p false) []) =
                   POk (t, b, relex (set_buf (set_err p false) []) z' wf cf) /\ lexes z' ts /\ css_inv z').
  { destruct (pop_token_gap (next_fuel p) true (set_buf (set_err p false) []) w t b ts (next_fuel_ok p Hi) Hl) as (z' & H1 & H2 & H3).
    - intros Hw. cbn [set_buf set_err keepws]. rewrite Hkw. destruct first; [reflexivity|congruence].
    - intros _. exact Hco.
    - cbn [set_buf set_err keepws]. rewrite Hkw. destruct first; cbn [negb andb]; [exact Hf|reflexivity].
    - intros H. congruence.
    - exists z', (isws w), (iscm w || is_t t TComment). split; [exact H1|]. split; [exact H2|exact (proj1 H3)]. }
  destruct Hpop as (z' & wf & cf & Hpop & Hl' & Hi'). rewrite Hpop. cbn [pbind fst snd].
  cbn [set_tok relex set_err set_buf pst]. rewrite Hst.
  unfold parse_at_rule_unknown. cbv zeta. cbn [set_keepws set_tok relex set_err set_buf ptt plevel]. rewrite He, Hlv.
  assert (Hrb : is_t t TRightBrace && (lv =? 0) = false).
  { destruct (is_t t TRightBrace) eqn:E; [|reflexivity]. apply is_t_eq in E. subst t. specialize (Hcl eq_refl). cbn [andb]. lia. }
  rewrite Hrb. cbn [orb].
  eexists. split; [reflexivity|].
  destruct (adjust_level_f (set_keepws (set_tok (relex (set_buf (set_err p false) []) z' wf cf) t b) true) t) as (F1 & _ & _ & F4).
  assert (Hsame : forall q, pl (adjust_level q t) = pl q /\ ptt (adjust_level q t) = ptt q /\ pdata (adjust_level q t) = pdata q /\
                            perr (adjust_level q t) = perr q /\ pst (adjust_level q t) = pst q /\ prevend (adjust_level q t) = prevend q /\
                            keepws (adjust_level q t) = keepws q /\ isstyle (adjust_level q t) = isstyle q).
  { intros q. unfold adjust_level. destruct (opens t); [repeat split|]. destruct (closes t); repeat split. }
  match goal with |- ptt (adjust_level ?q t) = _ /\ _ => destruct (Hsame q) as (G1 & G2 & G3 & G4 & G5 & G6 & G7 & G8) end.
  rewrite G2, G3, F1, G4. cbn [set_keepws set_tok relex set_err set_buf ptt pdata pbuf perr].
  split; [reflexivity|]. split; [reflexivity|]. split; [reflexivity|]. split; [reflexivity|].
  unfold wf_unk. rewrite G1, G5, F4, G6, G7, G8. cbn [set_keepws set_tok relex set_err set_buf pl pst plevel prevend keepws isstyle].
  split; [exact Hi'|]. split; [exact Hl'|]. split; [exact Hst|]. split; [rewrite Hlv; reflexivity|]. auto.
Qed.

Lemma step_uend p first st w3 rb ts : st <> [] -> wf_unk p 0 first st (optws w3 ++ (TRightBrace, rb) :: ts) -> (first = false -> isws w3 = false) ->
  exists p', parse_next p = POk (GEndAtRule, p') /\ ptt p' = TRightBrace /\ pdata p' = rb /\ pbuf p' = [] /\ perr p' = false /\
    wf_state p' st ts.
Proof.
  intros Hne (Hi & Hl & Hst & Hlv & Hpe & Hkw & Hsty) Hf.
  unfold parse_next. cbv zeta. change (prevend (set_buf (set_err p false) [])) with (prevend p). rewrite Hpe.
  assert (Hco : cm_out true (set_buf (set_err p false) []) = false).
  { unfold cm_out. cbn [set_buf set_err pst andb]. rewrite Hst. destruct st; [congruence|]. rewrite !len_cons. pose proof (len_nonneg st). apply Z.eqb_neq. lia. }
  assert (Hpop : exists z' wf cf, pop_token (next_fuel p) true (set_buf (set_err p false) []) =
                   POk (TRightBrace, rb, relex (set_buf (set_err p false) []) z' wf cf) /\ lexes z' ts /\ css_inv z').
  { destruct (pop_token_gap (next_fuel p) true (set_buf (set_err p false) []) w3 TRightBrace rb ts (next_fuel_ok p Hi) Hl) as (z' & H1 & H2 & H3).
    - intros Hw. cbn [set_buf set_err keepws]. rewrite Hkw. destruct first; [reflexivity|]. rewrite (Hf eq_refl) in Hw. discriminate.
    - intros _. exact Hco.
    - apply andb_false_r.
    - intros H. discriminate H.
    - exists z', (isws w3), (iscm w3 || is_t TRightBrace TComment). split; [exact H1|]. split; [exact H2|exact (proj1 H3)]. }
  destruct Hpop as (z' & wf & cf & Hpop & Hl' & Hi'). rewrite Hpop. cbn [pbind fst snd].
  cbn [set_tok relex set_err set_buf pst]. rewrite Hst.
  unfold parse_at_rule_unknown. cbv zeta. cbn [set_keepws set_tok relex set_err set_buf ptt plevel]. rewrite Hlv. evis. cbn [Z.eqb andb orb].
  unfold pop_st. cbn [set_keepws set_tok relex set_err set_buf pst]. rewrite Hst. cbn [pbind].
  eexists. split; [reflexivity|]. cbn [set_keepws set_st set_tok relex set_err set_buf ptt pdata pbuf perr].
  split; [reflexivity|]. split; [reflexivity|]. split; [reflexivity|]. split; [reflexivity|].
  unfold wf_state. cbn [set_keepws set_st set_tok relex set_err set_buf pl pst plevel prevend keepws isstyle].
  split; [exact Hi'|]. split; [exact Hl'|]. auto.
Qed.

(* --- closing a block --------------------------------------------------------------------------------------------------- *)
(* the open blocks: a ruleset, the rule block of @media ..., the declaration block of @font-face / @page *)
Inductive frame := FRule | FAtRules | FAtDecls.
Definition frame_state (f : frame) : pstate :=
  match f with FRule => SQualifiedRuleDeclarationList | FAtRules => SAtRuleRuleList | FAtDecls => SAtRuleDeclarationList end.
Definition close_g (f : frame) : gtype := match f with FRule => GEndRuleset | _ => GEndAtRule end.

(* the '}' of a block, read now ... *)
Lemma step_close p f st0 gs o rb ts : (gs = [] \/ f <> FAtRules) -> gap_at (frame_state f :: st0) (first_gap gs o) ->
  wf_state p (frame_state f :: st0) (stream gs o ++ (TRightBrace, rb) :: ts) ->
  exists p', parse_next p = POk (close_g f, p') /\ ptt p' = TRightBrace /\ pdata p' = rb /\ perr p' = false /\
    wf_state p' st0 ts.
Proof.
  intros Hgs Hg Hw. pose proof Hw as (Hi & Hl & Hst & Hlv & Hpe & Hkw & Hsty).
  assert (Hgs' : gs = [] \/ decl_ctx (frame_state f)).
  { destruct Hgs as [->|Hf]; [left; reflexivity|right]. destruct f; [left; reflexivity|congruence|right; reflexivity]. }
  destruct (first_pop p (frame_state f) st0 gs o TRightBrace rb ts Hw Hgs' Hg eq_refl ltac:(discriminate)) as (z' & wf & cf & Hfp & Hl' & Hi').
  rewrite Hfp. unfold dispatch.
  destruct f; cbn [frame_state close_g];
    [unfold parse_qualified_rule_declaration_list; rewrite skip_semicolons_none by (cbn; discriminate); cbn [pbind]; cbv zeta
    |unfold parse_at_rule_rule_list
    |unfold parse_at_rule_declaration_list; rewrite skip_semicolons_none by (cbn; discriminate); cbn [pbind]; cbv zeta];
    cbn [set_tok ptt]; evis; cbn [orb]; unfold pop_st; cbn [set_tok relex set_err pst set_buf]; rewrite Hst; cbn [pbind];
    (eexists; split; [reflexivity|]; cbn [set_st set_tok relex set_err ptt pdata perr set_buf];
     split; [reflexivity|]; split; [reflexivity|]; split; [reflexivity|];
     unfold wf_state; cbn [set_st set_tok relex set_err pl pst plevel prevend keepws isstyle set_buf];
     split; [exact (proj1 Hi')|]; split; [exact Hl'|]; auto).
Qed.

(* ... or already read by the previous unit (p.prevEnd): the unit reports the synthesised "}" *)
Lemma step_close_pend p f st0 ts : wf_pend p (frame_state f :: st0) ts ->
  exists p', parse_next p = POk (close_g f, p') /\ ptt p' = TRightBrace /\ pdata p' = [125] /\ perr p' = false /\
    wf_state p' st0 ts.
Proof.
  intros (Hi & Hl & Hst & Hlv & Hpe & Hkw & Hsty).
  unfold parse_next. cbv zeta. change (prevend (set_buf (set_err p false) [])) with (prevend p). rewrite Hpe. cbn [pbind].
  cbn [set_prevend set_tok set_err pst set_buf]. rewrite Hst.
  destruct f; cbn [frame_state close_g];
    [unfold parse_qualified_rule_declaration_list; rewrite skip_semicolons_none by (cbn; discriminate); cbn [pbind]; cbv zeta
    |unfold parse_at_rule_rule_list
    |unfold parse_at_rule_declaration_list; rewrite skip_semicolons_none by (cbn; discriminate); cbn [pbind]; cbv zeta];
    cbn [set_prevend set_tok ptt]; evis; cbn [orb]; unfold pop_st; cbn [set_prevend set_tok set_err pst set_buf]; rewrite Hst; cbn [pbind];
    (eexists; split; [reflexivity|]; cbn [set_st set_prevend set_tok set_err ptt pdata perr set_buf];
     split; [reflexivity|]; split; [reflexivity|]; split; [reflexivity|];
     unfold wf_state; cbn [set_st set_prevend set_tok set_err pl pst plevel prevend keepws isstyle set_buf];
     split; [exact Hi|]; split; [exact Hl|]; auto).
Qed.

(* --- the grammar and the units it denotes ------------------------------------------------------------------------ *)
(* w1 property w2 ':' value-tokens (each with the whitespace before it), then  w4 ';'  (d_semi) or nothing: the
   declaration is then ended by the '}' of its block, which is the next event *)
Record decl_t := mkDecl { d_w1 : ws_t; d_prop : list Z; d_w2 : ws_t; d_vals : list wtok; d_w4 : ws_t; d_semi : bool }.

(* a stylesheet in document order *)
Inductive ev :=
  | EDecl (d : decl_t)
  | EOpen (nested : bool) (sel : list wtok) (w2 : ws_t) (* selector tokens w2 '{'; nested = inside a declaration block *)
  | EClose (w3 : ws_t)                                   (* w3 '}' of a ruleset *)
  | EComment (w : ws_t) (b : list Z)                     (* a comment at the top level *)
  | EToken (w : ws_t) (t : ttype) (b : list Z)           (* CDO or CDC at the top level *)
  | ECustom (w1 : ws_t) (name : list Z) (w2 : ws_t) (raw : list tok) (semi : bool)   (* --name ':' raw tokens [';'] *)
  | EAtRule (w1 : ws_t) (name : list Z) (pre : list wtok) (w2 : ws_t) (semi : bool)   (* @name prelude [w2 ';'] *)
  | EBeginAtRule (w1 : ws_t) (name : list Z) (pre : list wtok) (w2 : ws_t)            (* @name prelude w2 '{' *)
  | EEndAtRule (w3 : ws_t)                                                             (* w3 '}' of an at-rule block *)
  | EUTok (w : ws_t) (t : ttype) (b : list Z)            (* a token inside the block of an unknown at-rule *)
  | ESemi (w : ws_t).                                    (* w ';' : a stray semicolon in a declaration block: no unit *)

Definition term_toks (w : ws_t) (semi : bool) : list tok := if semi then optws w ++ [(TSemicolon, [59])] else [].
Definition decl_toks (d : decl_t) : list tok :=
  optws (d_w1 d) ++ (TIdent, d_prop d) :: optws (d_w2 d) ++ (TColon, [58]) :: src_toks (d_vals d) ++ term_toks (d_w4 d) (d_semi d).
Definition ev_toks (e : ev) : list tok :=
  match e with
  | EDecl d => decl_toks d
  | EOpen _ sel w2 => src_toks sel ++ optws w2 ++ [(TLeftBrace, [123])]
  | EClose w3 => optws w3 ++ [(TRightBrace, [125])]
  | EComment w b => optws w ++ [(TComment, b)]
  | EToken w t b => optws w ++ [(t, b)]
  | ECustom w1 name w2 raw semi =>
      optws w1 ++ (TCustomPropertyName, name) :: optws w2 ++ (TColon, [58]) :: raw ++ (if semi then [(TSemicolon, [59])] else [])
  | EAtRule w1 name pre w2 semi => optws w1 ++ (TAtKeyword, name) :: src_toks pre ++ term_toks w2 semi
  | EBeginAtRule w1 name pre w2 => optws w1 ++ (TAtKeyword, name) :: src_toks pre ++ optws w2 ++ [(TLeftBrace, [123])]
  | EEndAtRule w3 => optws w3 ++ [(TRightBrace, [125])]
  | EUTok w t b => optws w ++ [(t, b)]
  | ESemi w => optws w ++ [semi]
  end.

(* the value may be empty ("b:;" is reported as a Declaration without values) *)
Definition decl_ok (d : decl_t) : Prop := toks_ok 0 (d_vals d) /\ lv_after 0 (d_vals d) = 0.
(* a selector at the top level / of a nested ruleset *)
Definition sel_ok (first : tok -> bool) (l : list wtok) : Prop :=
  match l with x :: _ => first (snd x) = true | [] => False end /\ toks_ok 0 l /\ lv_after 0 l = 0.

Definition decl_top (fs : list frame) : Prop := match fs with (FRule | FAtDecls) :: _ => True | _ => False end.
Definition closer (e : ev) : Prop := match e with EClose _ | EEndAtRule _ => True | _ => False end.
Definition closer_next (r : list ev) : Prop := match r with e :: _ => closer e | [] => False end.
(* ... directly, without whitespace: whitespace before the '}' would belong to the value of a custom property *)
Definition closer_tight (r : list ev) : Prop := match r with (EClose [] | EEndAtRule []) :: _ => True | _ => False end.

(* fs = the open blocks, innermost first.  Declarations and custom properties inside a ruleset or the block of
   @font-face / @page; rulesets anywhere (nested ones inside such blocks); at-rules anywhere, the kind of their block
   decided by the hash of the name (at_st); comments, CDO and CDC at the top level; a unit without its ';' must be
   followed by the '}' of its block; every '}' closes the innermost block; all closed at the end *)
(* at the top level a gap has no comment (there a comment is a unit of its own) *)
Definition top_gap (fs : list frame) (o : ws_t) : Prop := fs = [] -> iscm o = false.

(* m = Some (lv, first) inside the block of an unknown at-rule (bracket level, no token read yet): only tokens and the
   closing '}' at level 0 *)
Fixpoint evs_okm (m : option (Z * bool)) (fs : list frame) (l : list ev) {struct l} : Prop :=
  match m with
  | Some (lv, first) =>
      match l with
      | EUTok w t _ :: r => utok_ok lv first w t /\ evs_okm (Some (tok_lv lv t, false)) fs r
      | EEndAtRule w3 :: r => lv = 0 /\ (first = false -> isws w3 = false) /\ evs_okm None fs r
      | _ => False
      end
  | None =>
  match l with
  | [] => fs = []
  | EDecl d :: r => decl_top fs /\ decl_ok d /\ (d_semi d = false -> closer_next r) /\ evs_okm None fs r
  | EOpen nested sel _ :: r =>
      sel_ok (match fs with (FRule | FAtDecls) :: _ => nest_first | _ => fun x => sel_first (fst x) end) sel /\
      nested = (match fs with (FRule | FAtDecls) :: _ => true | _ => false end) /\ top_gap fs (match sel with x :: _ => fst x | [] => [] end) /\
      evs_okm None (FRule :: fs) r
  | EClose _ :: r => match fs with FRule :: fs' => evs_okm None fs' r | _ => False end
  | EComment w _ :: r => fs = [] /\ iscm w = false /\ evs_okm None fs r
  | EToken w t _ :: r => fs = [] /\ is_cd t = true /\ iscm w = false /\ evs_okm None fs r
  | ECustom w1 _ _ raw semi :: r =>
      top_gap fs w1 /\ (decl_top fs \/ (fs = [] /\ semi = true)) /\ raw_ok 0 raw /\ raw_lv 0 raw = 0 /\ (semi = false -> closer_tight r) /\ evs_okm None fs r
  | EAtRule w1 _ pre _ semi :: r => top_gap fs w1 /\ toks_ok 0 pre /\ lv_after 0 pre = 0 /\ (semi = false -> fs <> [] /\ closer_next r) /\ evs_okm None fs r
  | EBeginAtRule w1 name pre _ :: r =>
      top_gap fs w1 /\ toks_ok 0 pre /\ lv_after 0 pre = 0 /\
      match at_st name with
      | SAtRuleRuleList => evs_okm None (FAtRules :: fs) r
      | SAtRuleDeclarationList => evs_okm None (FAtDecls :: fs) r
      | SAtRuleUnknown => evs_okm (Some (0, true)) fs r
      | _ => False
      end
  | EEndAtRule _ :: r => match fs with (FAtRules | FAtDecls) :: fs' => evs_okm None fs' r | _ => False end
  | EUTok _ _ _ :: _ => False
  | ESemi _ :: r => decl_top fs /\ evs_okm None fs r
  end
  end.
Definition evs_ok (fs : list frame) (l : list ev) : Prop := evs_okm None fs l.

(* what the caller sees of one call: grammar type, token type, data, and Values() for the units that set them *)
Definition unit_t := (gtype * ttype * list Z * list tok)%type.
Definition view (r : gtype * parser) : unit_t :=
  match fst r with
  | GBeginRuleset | GDeclaration | GCustomProperty | GAtRule | GBeginAtRule => (fst r, ptt (snd r), pdata (snd r), pbuf (snd r))
  | GError => (GError, ptt (snd r), [], [])
  | g => (g, ptt (snd r), pdata (snd r), [])
  end.

Definition ev_unit (e : ev) : unit_t :=
  match e with
  | EDecl d => (GDeclaration, TIdent, to_lower (d_prop d), expected_vals (d_vals d))
  | EOpen nested sel _ => (GBeginRuleset, TWhitespace, [], expected_sel nested sel)
  | EClose _ => (GEndRuleset, TRightBrace, [125], [])
  | EComment _ b => (GComment, TComment, b, [])
  | EToken _ t b => (GToken, t, b, [])
  | ECustom _ name _ raw _ => (GCustomProperty, TCustomPropertyName, name, [(TCustomPropertyValue, concat (map snd raw))])
  | EAtRule _ name pre _ _ => (GAtRule, TAtKeyword, to_lower name, at_buf true false pre)
  | EBeginAtRule _ name pre _ => (GBeginAtRule, TAtKeyword, to_lower name, at_buf true false pre)
  | EEndAtRule _ => (GEndAtRule, TRightBrace, [125], [])
  | EUTok _ t b => (GToken, t, b, [])
  | ESemi _ => (GError, TError, [], [])      (* not used: a stray semicolon has no unit *)
  end.
(* the units of a list of events: one per event, none for a stray semicolon *)
Definition ev_units (e : ev) : list unit_t := match e with ESemi _ => [] | _ => [ev_unit e] end.
Definition units (l : list ev) : list unit_t := flat_map ev_units l.

Definition last_state (p : parser) (tr : list (gtype * parser)) : parser :=
  match rev tr with r :: _ => snd r | [] => p end.

Lemma last_state_cons p r tr : last_state p (r :: tr) = last_state (snd r) tr.
Proof.
  unfold last_state. cbn [rev]. destruct (rev tr) as [|x l] eqn:E; [reflexivity|]. reflexivity.
Qed.

Definition no_err (tr : list (gtype * parser)) : Prop := Forall (fun r => perr (snd r) = false) tr.

Definition stack (fs : list frame) : list pstate := map frame_state fs ++ [SStylesheet].

Lemma stack_top fs : exists s st0, stack fs = s :: st0 /\ s <> SAtRuleUnknown /\ s <> SDeclarationList /\
  (decl_top fs -> decl_ctx s) /\ (~ decl_top fs -> rule_ctx s).
Proof.
  destruct fs as [|[| |] fs]; unfold stack; cbn [map frame_state app decl_top]; do 2 eexists; (split; [reflexivity|]);
    (split; [discriminate|]); (split; [discriminate|]); split; intros H; try contradiction; try (exfalso; apply H; exact I);
    unfold decl_ctx, rule_ctx; auto.
Qed.

Lemma stack_ne fs : stack fs <> [].
Proof. unfold stack. destruct (map frame_state fs); discriminate. Qed.

Lemma gap_stack fs o : top_gap fs o -> gap_at (stack fs) o.
Proof.
  intros H Hc. destruct fs as [|f fs]; [specialize (H eq_refl); congruence|].
  unfold stack. cbn [map app]. pose proof (stack_ne fs) as Hn. unfold stack in Hn.
  destruct (map frame_state fs ++ [SStylesheet]) as [|s2 st]; [congruence|]. rewrite !len_cons. pose proof (len_nonneg st). lia.
Qed.

Lemma gap_block f fs o : gap_at (stack (f :: fs)) o.
Proof. apply gap_stack. intros H. discriminate H. Qed.

(* a unit that was ended by the '}' of its block, then the closing unit of that block *)
Lemma close_pending fs e2 evs' p1 L : closer e2 -> evs_ok fs (e2 :: evs') -> wf_pend p1 (stack fs) L ->
  exists fs' g2 p2, parse_next p1 = POk (g2, p2) /\ view (g2, p2) = ev_unit e2 /\ perr p2 = false /\
    wf_state p2 (stack fs') L /\ evs_ok fs' evs'.
Proof.
  intros Hc Hok Hw. unfold evs_ok in *. destruct e2; try contradiction; cbn [evs_okm] in Hok.
  - destruct fs as [|[| |] fs]; try contradiction.
    destruct (step_close_pend p1 FRule (stack fs) L Hw) as (p2 & Hn & Ht & Hd & He & Hw2).
    exists fs, GEndRuleset, p2. split; [exact Hn|]. split; [unfold view; cbn [fst snd ev_unit]; rewrite Ht, Hd; reflexivity|]. auto.
  - destruct fs as [|[| |] fs]; try contradiction.
    + destruct (step_close_pend p1 FAtRules (stack fs) L Hw) as (p2 & Hn & Ht & Hd & He & Hw2).
      exists fs, GEndAtRule, p2. split; [exact Hn|]. split; [unfold view; cbn [fst snd ev_unit]; rewrite Ht, Hd; reflexivity|]. auto.
    + destruct (step_close_pend p1 FAtDecls (stack fs) L Hw) as (p2 & Hn & Ht & Hd & He & Hw2).
      exists fs, GEndAtRule, p2. split; [exact Hn|]. split; [unfold view; cbn [fst snd ev_unit]; rewrite Ht, Hd; reflexivity|]. auto.
Qed.

Lemma closer_toks e2 : closer e2 -> exists w3, ev_toks e2 = optws w3 ++ [(TRightBrace, [125])].
Proof. destruct e2; try contradiction; intros _; eexists; reflexivity. Qed.

Definition wf_m (m : option (Z * bool)) (p : parser) (fs : list frame) (toks : list tok) : Prop :=
  match m with None => wf_state p (stack fs) toks | Some (lv, first) => wf_unk p lv first (stack fs) toks end.

Lemma closer_units e : closer e -> ev_units e = [ev_unit e].
Proof. destruct e; try contradiction; reflexivity. Qed.

(* gs = the stray semicolons (each with the gap before it) read so far: they belong to the next call *)
Lemma evs_run_n : forall n evs m fs gs p rest, (length evs <= n)%nat ->
  wf_m m p fs (semis gs ++ concat (map ev_toks evs) ++ rest) -> evs_okm m fs evs -> (gs <> [] -> m = None /\ decl_top fs) ->
  exists tr, parse_run (length (units evs)) p = POk tr /\ map view tr = units evs /\ no_err tr /\
    wf_state (last_state p tr) [SStylesheet] rest.
Proof.
  assert (Hnil : forall m fs gs p rest, wf_m m p fs (semis gs ++ concat (map ev_toks []) ++ rest) -> evs_okm m fs [] ->
                 (gs <> [] -> m = None /\ decl_top fs) ->
                 exists tr, parse_run (length (units [])) p = POk tr /\ map view tr = units [] /\ no_err tr /\
                   wf_state (last_state p tr) [SStylesheet] rest).
  { intros m fs gs p rest Hw Hok Hgs. destruct m as [[lv first]|]; [contradiction|]. cbn [evs_okm] in Hok. subst fs.
    destruct gs as [|g gs]; [|destruct (Hgs ltac:(discriminate)) as (_ & Hd); contradiction].
    exists []. cbn [map concat length parse_run app wf_m units flat_map semis] in *.
    split; [reflexivity|]. split; [reflexivity|]. split; [constructor|exact Hw]. }
  induction n as [|n IH]; intros evs m fs gs p rest Hlen Hw Hok Hgs.
  { destruct evs; [|cbn in Hlen; lia]. eapply Hnil; eassumption. }
  destruct evs as [|e evs]; [eapply Hnil; eassumption|].
  cbn [length] in Hlen.
  (* a stray semicolon: no call, it is read by the call for the next event *)
  assert (Hsemi_case : forall w, e = ESemi w -> exists tr, parse_run (length (units (e :: evs))) p = POk tr /\ map view tr = units (e :: evs) /\
                         no_err tr /\ wf_state (last_state p tr) [SStylesheet] rest).
  { intros w ->. destruct m as [[lv first]|]; [contradiction|]. cbn [evs_okm] in Hok. destruct Hok as (Htop & Hok).
    apply (IH evs None fs (gs ++ [w]) p rest ltac:(lia)); [|exact Hok|intros _; split; [reflexivity|exact Htop]].
    cbn [wf_m map concat ev_toks] in *. unfold semis in *. rewrite flat_map_app. cbn [flat_map]. rewrite app_nil_r.
    repeat (rewrite <- app_assoc in Hw; cbn [app] in Hw). repeat (rewrite <- app_assoc; cbn [app]). exact Hw. }
  assert (Hgd : gs = [] \/ (m = None /\ decl_top fs)) by (destruct gs; [left; reflexivity|right; apply Hgs; discriminate]).
  assert (Hcons : forall g p1 (u : unit_t) m' fs', parse_next p = POk (g, p1) -> view (g, p1) = u -> perr p1 = false ->
                  wf_m m' p1 fs' (concat (map ev_toks evs) ++ rest) -> evs_okm m' fs' evs -> ev_units e = [ev_unit e] -> u = ev_unit e ->
                  exists tr, parse_run (length (units (e :: evs))) p = POk tr /\ map view tr = units (e :: evs) /\ no_err tr /\
                    wf_state (last_state p tr) [SStylesheet] rest).
  { intros g p1 u m' fs' Hn Hv He Hw1 Hok1 Hue Hu.
    destruct (IH evs m' fs' [] p1 rest ltac:(lia) Hw1 Hok1 ltac:(congruence)) as (tr & Hrun & Hview & Hne & Hlast).
    change (units (e :: evs)) with (ev_units e ++ units evs). rewrite Hue. cbn [app length].
    exists ((g, p1) :: tr). split; [|split; [|split]].
    - cbn [length parse_run]. rewrite Hn. cbn [pbind snd]. rewrite Hrun. reflexivity.
    - cbn [map]. rewrite Hview, Hv, Hu. reflexivity.
    - constructor; [exact He|exact Hne].
    - rewrite last_state_cons. exact Hlast. }
  (* inside the block of an unknown at-rule *)
  destruct m as [[lv first]|].
  { assert (gs = []) by (destruct Hgd as [E|(E & _)]; [exact E|discriminate E]). subst gs. cbn [semis flat_map app] in Hw.
    cbn [wf_m] in Hw. destruct e; try contradiction; cbn [evs_okm] in Hok; cbn [map concat ev_toks] in Hw.
    - destruct Hok as (H0 & Hf & Hok). subst lv. repeat (rewrite <- app_assoc in Hw; cbn [app] in Hw).
      destruct (step_uend p first _ w3 [125] _ (stack_ne fs) Hw Hf) as (p1 & Hn & Ht & Hdd & Hb & He & Hw1).
      eapply (Hcons _ p1 _ None fs Hn eq_refl He Hw1 Hok eq_refl). unfold view. cbn [fst snd ev_unit]. rewrite Ht, Hdd. reflexivity.
    - destruct Hok as (Hu & Hok). repeat (rewrite <- app_assoc in Hw; cbn [app] in Hw).
      destruct (step_utok p lv first _ w t b _ (stack_ne fs) Hw Hu) as (p1 & Hn & Ht & Hdd & Hb & He & Hw1).
      eapply (Hcons _ p1 _ (Some (tok_lv lv t, false)) fs Hn eq_refl He Hw1 Hok eq_refl). unfold view. cbn [fst snd ev_unit]. rewrite Ht, Hdd. reflexivity. }
  cbn [wf_m] in Hw.
  (* the unit is ended by the '}' of its block: two calls *)
  assert (Hcons2 : forall g p1 e2 evs', evs = e2 :: evs' -> closer e2 -> parse_next p = POk (g, p1) -> view (g, p1) = ev_unit e ->
                   perr p1 = false -> wf_pend p1 (stack fs) (concat (map ev_toks evs') ++ rest) -> evs_ok fs evs ->
                   ev_units e = [ev_unit e] ->
                   exists tr, parse_run (length (units (e :: evs))) p = POk tr /\ map view tr = units (e :: evs) /\ no_err tr /\
                     wf_state (last_state p tr) [SStylesheet] rest).
  { intros g p1 e2 evs' -> Hc Hn Hv He Hw1 Hok1 Hue.
    destruct (close_pending fs e2 evs' p1 _ Hc Hok1 Hw1) as (fs' & g2 & p2 & Hn2 & Hv2 & He2 & Hw2 & Hok2).
    cbn [length] in Hlen.
    destruct (IH evs' None fs' [] p2 rest ltac:(lia) Hw2 Hok2 ltac:(congruence)) as (tr & Hrun & Hview & Hne & Hlast).
    change (units (e :: e2 :: evs')) with (ev_units e ++ ev_units e2 ++ units evs'). rewrite Hue, (closer_units e2 Hc). cbn [app length].
    exists ((g, p1) :: (g2, p2) :: tr). split; [|split; [|split]].
    - cbn [length parse_run]. rewrite Hn. cbn [pbind snd]. rewrite Hn2. cbn [pbind snd]. rewrite Hrun. reflexivity.
    - cbn [map]. rewrite Hview, Hv, Hv2. reflexivity.
    - constructor; [exact He|]. constructor; [exact He2|exact Hne].
    - rewrite !last_state_cons. exact Hlast. }
  destruct (stack_top fs) as (s & st0 & Hstk & Hs1 & Hs2 & Hdc & Hrc).
  assert (Hgd' : gs = [] \/ decl_top fs) by (destruct Hgd as [E|(_ & E)]; auto). clear Hgd.
  assert (Hgsd : gs = [] \/ decl_ctx s) by (destruct Hgd' as [E|E]; [left; exact E|right; apply Hdc; exact E]).
  assert (Hggap : forall o, gap_at (s :: st0) o -> gap_at (s :: st0) (first_gap gs o)).
  { intros o Ho. destruct gs as [|g gs']; [exact Ho|]. cbn [first_gap]. rewrite <- Hstk. apply gap_stack. intros E.
    destruct Hgd' as [E0|E0]; [discriminate E0|subst fs; contradiction]. }
  assert (Hgnil : ~ decl_top fs -> gs = []) by (intros Hn; destruct Hgd' as [E|E]; [exact E|contradiction]).
  destruct e as [[w1 prop w2 vl w4 semi]|onest sel w2|w3|wc cb|wt tt tb|cw1 cname cw2 craw csemi|aw1 aname apre aw2 asemi|bw1 bname bpre bw2|ew3|uw ut ub|sw];
    cbn [evs_okm] in Hok; cbn [map concat ev_toks] in Hw; [| | | | | | | | |contradiction|eapply Hsemi_case; reflexivity]; clear Hsemi_case.
  - (* declaration *)
    destruct Hok as (Htop & (Hp & Hq) & Hsemi & Hok). cbn [d_vals d_semi] in *. specialize (Hdc Htop).
    assert (Hg : gap_at (s :: st0) w1) by (rewrite <- Hstk; apply gap_stack; intros E; subst fs; contradiction).
    rewrite Hstk in Hw.
    unfold decl_toks, term_toks in Hw. cbn [d_w1 d_prop d_w2 d_vals d_w4 d_semi] in Hw. destruct semi.
    + repeat (rewrite <- app_assoc in Hw; cbn [app] in Hw). rewrite (app_assoc (semis gs)) in Hw.
      destruct (step_decl p s st0 gs w1 prop w2 [58] vl w4 (TSemicolon, [59]) _ Hdc (Hggap _ Hg) (or_introl eq_refl) Hw Hp Hq) as (p1 & Hn & Ht & Hdd & Hb & He & Hw1).
      unfold wf_after in Hw1. cbn [fst] in Hw1. change (is_t TSemicolon TRightBrace) with false in Hw1. cbv beta iota in Hw1. rewrite <- Hstk in Hw1.
      eapply (Hcons _ p1 _ None fs Hn eq_refl He Hw1 Hok eq_refl). unfold view. cbn [fst snd ev_unit d_prop d_vals]. rewrite Ht, Hdd, Hb. reflexivity.
    + specialize (Hsemi eq_refl). destruct evs as [|e2 evs']; [contradiction|]. cbn [closer_next] in Hsemi.
      destruct (closer_toks e2 Hsemi) as (w3 & Ew3). cbn [map concat] in Hw. rewrite Ew3 in Hw.
      repeat (rewrite <- app_assoc in Hw; cbn [app] in Hw). rewrite (app_assoc (semis gs)) in Hw.
      destruct (step_decl p s st0 gs w1 prop w2 [58] vl w3 (TRightBrace, [125]) _ Hdc (Hggap _ Hg) (or_intror eq_refl) Hw Hp Hq) as (p1 & Hn & Ht & Hdd & Hb & He & Hw1).
      unfold wf_after in Hw1. cbn [fst] in Hw1. change (is_t TRightBrace TRightBrace) with true in Hw1. cbv beta iota in Hw1. rewrite <- Hstk in Hw1.
      eapply (Hcons2 _ p1 e2 evs' eq_refl Hsemi Hn); [|exact He|exact Hw1|exact Hok|reflexivity].
      unfold view. cbn [fst snd ev_unit d_prop d_vals]. rewrite Ht, Hdd, Hb. reflexivity.
  - (* ruleset *)
    destruct Hok as ((Hf1 & Hf2 & Hf3) & Hnest & Htg & Hok). destruct sel as [|[o1 [t1 b1]] sl]; [contradiction|]. cbn [fst snd] in Hf1, Htg.
    assert (Hg : gap_at (s :: st0) o1) by (rewrite <- Hstk; apply gap_stack; exact Htg).
    rewrite src_toks_cons in Hw. repeat (rewrite <- app_assoc in Hw; cbn [app] in Hw). rewrite Hstk in Hw.
    assert (Hcase : decl_top fs \/ ~ decl_top fs) by (destruct fs as [|[| |] fs0]; cbn [decl_top]; auto).
    destruct Hcase as [Htop|Htop].
    + assert (Hnf : nest_first (t1, b1) = true) by (destruct fs as [|[| |] fs0]; cbn [decl_top] in Htop; try contradiction; exact Hf1).
      assert (Hon : onest = true) by (rewrite Hnest; destruct fs as [|[| |] fs0]; cbn [decl_top] in Htop; try contradiction; reflexivity).
      clear Hnest. subst onest.
      rewrite (app_assoc (semis gs)) in Hw.
      destruct (step_nested p s st0 gs o1 t1 b1 sl w2 [123] _ (Hdc Htop) (Hggap _ Hg) Hw Hnf Hf2 Hf3) as (p1 & Hn & Ht & Hdd & Hb & He & Hw1).
      rewrite <- Hstk in Hw1. change (SQualifiedRuleDeclarationList :: stack fs) with (stack (FRule :: fs)) in Hw1.
      eapply (Hcons _ p1 _ None (FRule :: fs) Hn eq_refl He Hw1 Hok eq_refl). unfold view. cbn [fst snd ev_unit]. rewrite Ht, Hdd, Hb. reflexivity.
    + assert (Hsf : sel_first t1 = true) by (destruct fs as [|[| |] fs0]; cbn [decl_top] in Htop; try (exfalso; apply Htop; exact I); exact Hf1).
      assert (Hon : onest = false) by (rewrite Hnest; destruct fs as [|[| |] fs0]; cbn [decl_top] in Htop; try (exfalso; apply Htop; exact I); reflexivity).
      clear Hnest. subst onest.
      rewrite (Hgnil Htop) in Hw. cbn [semis flat_map app] in Hw. rewrite <- src_toks_cons in Hw.
      destruct (step_begin p s st0 o1 t1 b1 sl w2 [123] _ (Hrc Htop) Hg Hw Hsf Hf2 Hf3) as (p1 & Hn & Ht & Hdd & Hb & He & Hw1).
      rewrite <- Hstk in Hw1. change (SQualifiedRuleDeclarationList :: stack fs) with (stack (FRule :: fs)) in Hw1.
      eapply (Hcons _ p1 _ None (FRule :: fs) Hn eq_refl He Hw1 Hok eq_refl). unfold view. cbn [fst snd ev_unit]. rewrite Ht, Hdd, Hb. reflexivity.
  - (* '}' of a ruleset *)
    destruct fs as [|[| |] fs]; try contradiction. unfold stack in Hw. cbn [map app] in Hw.
    repeat (rewrite <- app_assoc in Hw; cbn [app] in Hw). rewrite (app_assoc (semis gs)) in Hw.
    assert (Hnf : FRule <> FAtRules) by discriminate.
    destruct (step_close p FRule (stack fs) gs w3 [125] _ (or_intror Hnf) (gap_block FRule fs (first_gap gs w3)) Hw) as (p1 & Hn & Ht & Hdd & He & Hw1).
    eapply (Hcons _ p1 _ None fs Hn eq_refl He Hw1 Hok eq_refl). unfold view. cbn [fst snd ev_unit close_g]. rewrite Ht, Hdd. reflexivity.
  - destruct Hok as (Hd & Hnc & Hok). subst fs. rewrite (Hgnil ltac:(intros H; exact H)) in Hw. cbn [semis flat_map app] in Hw. unfold stack in Hw. cbn [map app] in Hw.
    repeat (rewrite <- app_assoc in Hw; cbn [app] in Hw).
    destruct (step_comment p wc cb _ Hw Hnc) as (p1 & Hn & Ht & Hdd & He & Hw1).
    eapply (Hcons _ p1 _ None [] Hn eq_refl He Hw1 Hok eq_refl). unfold view. cbn [fst snd ev_unit]. rewrite Ht, Hdd. reflexivity.
  - destruct Hok as (Hd & Hcd & Hnc & Hok). subst fs. rewrite (Hgnil ltac:(intros H; exact H)) in Hw. cbn [semis flat_map app] in Hw. unfold stack in Hw. cbn [map app] in Hw.
    repeat (rewrite <- app_assoc in Hw; cbn [app] in Hw).
    destruct (step_cd p wt tt tb _ Hw Hcd Hnc) as (p1 & Hn & Ht & Hdd & He & Hw1).
    eapply (Hcons _ p1 _ None [] Hn eq_refl He Hw1 Hok eq_refl). unfold view. cbn [fst snd ev_unit]. rewrite Ht, Hdd. reflexivity.
  - (* custom property *)
    destruct Hok as (Htg & Htop & Hr1 & Hr2 & Hsemi & Hok).
    assert (Hg : gap_at (s :: st0) cw1) by (rewrite <- Hstk; apply gap_stack; exact Htg).
    assert (Hcc : custom_ctx s).
    { destruct Htop as [Htop|(-> & _)]; [left; exact (Hdc Htop)|]. right. unfold stack in Hstk. cbn [map app] in Hstk. congruence. }
    clear Hdc. rename Hcc into Hdc. rewrite Hstk in Hw. destruct csemi.
    + repeat (rewrite <- app_assoc in Hw; cbn [app] in Hw). rewrite (app_assoc (semis gs)) in Hw.
      destruct (step_custom p s st0 gs cw1 cname cw2 [58] craw (TSemicolon, [59]) _ Hdc Hgsd (Hggap _ Hg) (or_introl eq_refl) Hw Hr1 Hr2) as (p1 & Hn & Ht & Hdd & Hb & He & Hw1).
      unfold wf_after in Hw1. cbn [fst] in Hw1. change (is_t TSemicolon TRightBrace) with false in Hw1. cbv beta iota in Hw1. rewrite <- Hstk in Hw1.
      eapply (Hcons _ p1 _ None fs Hn eq_refl He Hw1 Hok eq_refl). unfold view. cbn [fst snd ev_unit]. rewrite Ht, Hdd, Hb. reflexivity.
    + specialize (Hsemi eq_refl). destruct evs as [|e2 evs']; [contradiction|].
      assert (Hcl : closer e2 /\ ev_toks e2 = [(TRightBrace, [125])]).
      { cbn [closer_tight] in Hsemi. destruct e2 as [| | [|] | | | | | | [|] | |]; try contradiction; split; try exact I; reflexivity. }
      destruct Hcl as (Hcl & Ew3). cbn [map concat] in Hw. rewrite Ew3 in Hw.
      repeat (rewrite <- app_assoc in Hw; cbn [app] in Hw). rewrite (app_assoc (semis gs)) in Hw.
      destruct (step_custom p s st0 gs cw1 cname cw2 [58] craw (TRightBrace, [125]) _ Hdc Hgsd (Hggap _ Hg) (or_intror eq_refl) Hw Hr1 Hr2) as (p1 & Hn & Ht & Hdd & Hb & He & Hw1).
      unfold wf_after in Hw1. cbn [fst] in Hw1. change (is_t TRightBrace TRightBrace) with true in Hw1. cbv beta iota in Hw1. rewrite <- Hstk in Hw1.
      eapply (Hcons2 _ p1 e2 evs' eq_refl Hcl Hn); [|exact He|exact Hw1|exact Hok|reflexivity].
      unfold view. cbn [fst snd ev_unit]. rewrite Ht, Hdd, Hb. reflexivity.
  - (* at-rule without block *)
    destruct Hok as (Htg & Hp1 & Hp2 & Hsemi & Hok).
    assert (Hg : gap_at (s :: st0) aw1) by (rewrite <- Hstk; apply gap_stack; exact Htg).
    rewrite Hstk in Hw. unfold term_toks in Hw. destruct asemi.
    + repeat (rewrite <- app_assoc in Hw; cbn [app] in Hw). rewrite (app_assoc (semis gs)) in Hw.
      destruct (step_at p s st0 gs aw1 aname apre aw2 (TSemicolon, [59]) _ Hs1 Hs2 Hgsd (Hggap _ Hg) Hw Hp1 Hp2 (or_introl (or_introl eq_refl))) as (p1 & Hn & Ht & Hdd & Hb & He & Hw1).
      cbn [fst] in Hn, Hw1. change (is_t TSemicolon TLeftBrace) with false in Hn, Hw1. cbv beta iota in Hn, Hw1.
      unfold wf_after in Hw1. cbn [fst] in Hw1. change (is_t TSemicolon TRightBrace) with false in Hw1. cbv beta iota in Hw1. rewrite <- Hstk in Hw1.
      eapply (Hcons _ p1 _ None fs Hn eq_refl He Hw1 Hok eq_refl). unfold view. cbn [fst snd ev_unit]. rewrite Ht, Hdd, Hb. reflexivity.
    + destruct (Hsemi eq_refl) as (Hfs & Hcn). destruct evs as [|e2 evs']; [contradiction|]. cbn [closer_next] in Hcn.
      destruct (closer_toks e2 Hcn) as (w3 & Ew3). cbn [map concat] in Hw. rewrite Ew3 in Hw.
      repeat (rewrite <- app_assoc in Hw; cbn [app] in Hw). rewrite (app_assoc (semis gs)) in Hw.
      destruct (step_at p s st0 gs aw1 aname apre w3 (TRightBrace, [125]) _ Hs1 Hs2 Hgsd (Hggap _ Hg) Hw Hp1 Hp2 (or_introl (or_intror eq_refl))) as (p1 & Hn & Ht & Hdd & Hb & He & Hw1).
      cbn [fst] in Hn, Hw1. change (is_t TRightBrace TLeftBrace) with false in Hn, Hw1. cbv beta iota in Hn, Hw1.
      unfold wf_after in Hw1. cbn [fst] in Hw1. change (is_t TRightBrace TRightBrace) with true in Hw1. cbv beta iota in Hw1. rewrite <- Hstk in Hw1.
      eapply (Hcons2 _ p1 e2 evs' eq_refl Hcn Hn); [|exact He|exact Hw1|exact Hok|reflexivity].
      unfold view. cbn [fst snd ev_unit]. rewrite Ht, Hdd, Hb. reflexivity.
  - (* at-rule with block *)
    destruct Hok as (Htg & Hp1 & Hp2 & Hok).
    assert (Hg : gap_at (s :: st0) bw1) by (rewrite <- Hstk; apply gap_stack; exact Htg).
    rewrite Hstk in Hw.
    repeat (rewrite <- app_assoc in Hw; cbn [app] in Hw). rewrite (app_assoc (semis gs)) in Hw.
    destruct (step_at p s st0 gs bw1 bname bpre bw2 (TLeftBrace, [123]) _ Hs1 Hs2 Hgsd (Hggap _ Hg) Hw Hp1 Hp2 (or_intror eq_refl)) as (p1 & Hn & Ht & Hdd & Hb & He & Hw1).
    cbn [fst] in Hn, Hw1. change (is_t TLeftBrace TLeftBrace) with true in Hn, Hw1. cbv beta iota in Hn, Hw1. rewrite <- Hstk in Hw1.
    destruct (at_st bname) eqn:Est; try contradiction.
    + change (SAtRuleRuleList :: stack fs) with (stack (FAtRules :: fs)) in Hw1.
      eapply (Hcons _ p1 _ None (FAtRules :: fs) Hn eq_refl He Hw1 Hok eq_refl). unfold view. cbn [fst snd ev_unit]. rewrite Ht, Hdd, Hb. reflexivity.
    + change (SAtRuleDeclarationList :: stack fs) with (stack (FAtDecls :: fs)) in Hw1.
      eapply (Hcons _ p1 _ None (FAtDecls :: fs) Hn eq_refl He Hw1 Hok eq_refl). unfold view. cbn [fst snd ev_unit]. rewrite Ht, Hdd, Hb. reflexivity.
    + assert (Hwu : wf_m (Some (0, true)) p1 fs (concat (map ev_toks evs) ++ rest)) by exact Hw1.
      eapply (Hcons _ p1 _ (Some (0, true)) fs Hn eq_refl He Hwu Hok eq_refl). unfold view. cbn [fst snd ev_unit]. rewrite Ht, Hdd, Hb. reflexivity.
  - (* '}' of an at-rule block *)
    destruct fs as [|[| |] fs]; try contradiction; unfold stack in Hw; cbn [map app] in Hw;
      repeat (rewrite <- app_assoc in Hw; cbn [app] in Hw).
    + rewrite (Hgnil ltac:(intros H; exact H)) in Hw. cbn [semis flat_map app] in Hw.
      destruct (step_close p FAtRules (stack fs) [] ew3 [125] _ (or_introl eq_refl) (gap_block FAtRules fs ew3) Hw) as (p1 & Hn & Ht & Hdd & He & Hw1).
      eapply (Hcons _ p1 _ None fs Hn eq_refl He Hw1 Hok eq_refl). unfold view. cbn [fst snd ev_unit close_g]. rewrite Ht, Hdd. reflexivity.
    + rewrite (app_assoc (semis gs)) in Hw.
      assert (Hnf : FAtDecls <> FAtRules) by discriminate.
      destruct (step_close p FAtDecls (stack fs) gs ew3 [125] _ (or_intror Hnf) (gap_block FAtDecls fs (first_gap gs ew3)) Hw) as (p1 & Hn & Ht & Hdd & He & Hw1).
      eapply (Hcons _ p1 _ None fs Hn eq_refl He Hw1 Hok eq_refl). unfold view. cbn [fst snd ev_unit close_g]. rewrite Ht, Hdd. reflexivity.
Qed.

Lemma evs_run evs fs p rest : wf_state p (stack fs) (concat (map ev_toks evs) ++ rest) -> evs_ok fs evs ->
  exists tr, parse_run (length (units evs)) p = POk tr /\ map view tr = units evs /\ no_err tr /\
    wf_state (last_state p tr) [SStylesheet] rest.
Proof. intros Hw Hok. apply (evs_run_n (length evs) evs None fs [] p rest); [lia|exact Hw|exact Hok|congruence]. Qed.

Lemma parse_run_snoc : forall a p tr1 r, parse_run a p = POk tr1 -> parse_next (last_state p tr1) = POk r ->
  parse_run (a + 1) p = POk (tr1 ++ [r]).
Proof.
  induction a as [|a IH]; intros p tr1 r H1 H2; cbn [parse_run Nat.add] in *.
  - apply POk_inj in H1. subst tr1. change (last_state p []) with p in H2. rewrite H2. reflexivity.
  - pinv_bind H1. pinv_bind H1. apply POk_inj in H1. subst tr1. rewrite last_state_cons in H2.
    cbn [pbind snd]. rewrite (IH _ _ _ E0 H2). reflexivity.
Qed.

(* C08 (partial): a stylesheet whose token list (as the lexer returns it) is, in document order, a sequence of events
       EOpen:  (ws? selector-token)+ ws? '{'      EDecl:  ws? ident ws? ':' (ws? value-token)+ ws? ';'      EClose:  ws? '}'
   that nest properly (evs_ok), followed by ws?, yields exactly one unit per event - BeginRuleset [expected_sel],
   Declaration (lower-cased property name, expected_vals), EndRuleset - and then the end-of-input report; no parse
   error is reported. *)
Lemma cssparse_wellformed_proof : forall d evs w,
  css_lex d = LexDone (concat (map ev_toks evs) ++ optws w) -> evs_ok [] evs -> iscm w = false ->
  exists tr, parse_run (length (units evs) + 1) (new_parser d false) = POk tr /\
    map view tr = units evs ++ [(GError, TError, [], [])] /\ no_err tr.
Proof.
  intros d evs w Hlex Hok Hnc.
  assert (Hw : wf_state (new_parser d false) (stack []) (concat (map ev_toks evs) ++ optws w)).
  { unfold wf_state, stack. cbn [map app new_parser pl pst plevel prevend keepws isstyle negb]. split; [apply css_inv_init|].
    split; [exists (S (length d)); exact Hlex|]. auto. }
  destruct (evs_run evs _ _ _ Hw Hok) as (tr & Hrun & Hview & Hne & Hw').
  destruct (step_eof _ _ Hw' Hnc) as (p' & Hn & He & Ht).
  exists (tr ++ [(GError, p')]). split; [|split].
  - apply parse_run_snoc; assumption.
  - rewrite map_app, Hview. cbn [map]. unfold view. cbn [fst snd]. rewrite Ht. reflexivity.
  - unfold no_err. apply Forall_app. split; [exact Hne|]. constructor; [exact He|constructor].
Qed.

(* "a{B:1;c:x;}d{}" *)
Example wellformed_example :
  let evs := [EOpen false [([], (TIdent, [97]))] []; EDecl (mkDecl [] [66] [] [([], (TNumber, [49]))] [] true);
              EDecl (mkDecl [] [99] [] [([], (TIdent, [120]))] [] true); EClose [];
              EOpen false [([], (TIdent, [100]))] []; EClose []] in
  css_lex [97; 123; 66; 58; 49; 59; 99; 58; 120; 59; 125; 100; 123; 125] = LexDone (concat (map ev_toks evs) ++ optws []) /\
  evs_ok [] evs.
Proof.
  cbv zeta. split; [vm_compute; reflexivity|].
  repeat (first [discriminate | reflexivity | lia | left; exact I | split | exact I | vm_compute; reflexivity | intros _ | intros ?]).
Qed.

(* " a {\n B : 1 ;c:x; }\nd{}\n" *)
Example wellformed_example_ws :
  let evs := [EOpen false [([(false, [32])], (TIdent, [97]))] ([(false, [32])]);
              EDecl (mkDecl ([(false, [10; 32])]) [66] ([(false, [32])]) [([(false, [32])], (TNumber, [49]))] ([(false, [32])]) true);
              EDecl (mkDecl [] [99] [] [([], (TIdent, [120]))] [] true); EClose ([(false, [32])]);
              EOpen false [([(false, [10])], (TIdent, [100]))] []; EClose []] in
  css_lex [32; 97; 32; 123; 10; 32; 66; 32; 58; 32; 49; 32; 59; 99; 58; 120; 59; 32; 125; 10; 100; 123; 125; 10] =
    LexDone (concat (map ev_toks evs) ++ optws ([(false, [10])])) /\
  evs_ok [] evs.
Proof.
  cbv zeta. split; [vm_compute; reflexivity|].
  repeat (first [discriminate | reflexivity | lia | left; exact I | split | exact I | vm_compute; reflexivity | intros _ | intros ?]).
Qed.

(* "a{b: 1px  solid , red ;c:rgb(1, 2)}" : Values() = [1px " " solid , red] and [rgb( 1 , 2 )] *)
Example wellformed_example_values :
  let evs := [EOpen false [([], (TIdent, [97]))] [];
              EDecl (mkDecl [] [98] [] [([(false, [32])], (TDimension, [49; 112; 120])); ([(false, [32; 32])], (TIdent, [115; 111; 108; 105; 100]));
                                            ([(false, [32])], (TComma, [44])); ([(false, [32])], (TIdent, [114; 101; 100]))] ([(false, [32])]) true);
              EDecl (mkDecl [] [99] [] [([], (TFunction, [114; 103; 98; 40])); ([], (TNumber, [49])); ([], (TComma, [44]));
                                            ([(false, [32])], (TNumber, [50])); ([], (TRightParenthesis, [41]))] [] true);
              EClose []] in
  css_lex [97; 123; 98; 58; 32; 49; 112; 120; 32; 32; 115; 111; 108; 105; 100; 32; 44; 32; 114; 101; 100; 32; 59;
           99; 58; 114; 103; 98; 40; 49; 44; 32; 50; 41; 59; 125] = LexDone (concat (map ev_toks evs) ++ optws []) /\
  evs_ok [] evs /\
  map ev_unit evs =
    [(GBeginRuleset, TWhitespace, [], [(TIdent, [97])]);
     (GDeclaration, TIdent, [98], [(TDimension, [49; 112; 120]); sp; (TIdent, [115; 111; 108; 105; 100]); (TComma, [44]); (TIdent, [114; 101; 100])]);
     (GDeclaration, TIdent, [99], [(TFunction, [114; 103; 98; 40]); (TNumber, [49]); (TComma, [44]); (TNumber, [50]); (TRightParenthesis, [41])]);
     (GEndRuleset, TRightBrace, [125], [])].
Proof.
  cbv zeta. split; [vm_compute; reflexivity|]. split; [|vm_compute; reflexivity].
  repeat (first [discriminate | reflexivity | lia | left; exact I | split | exact I | vm_compute; reflexivity | intros _ | intros ?]).
Qed.

(* "a > b  c,d [ x=y ] e{}" : Values() of BeginRuleset = a > b " " c , d " " [ x = y ] " " e *)
Example wellformed_example_selector :
  let sel := [([], (TIdent, [97])); ([(false, [32])], (TDelim, [62])); ([(false, [32])], (TIdent, [98])); ([(false, [32; 32])], (TIdent, [99]));
              ([], (TComma, [44])); ([], (TIdent, [100])); ([(false, [32])], (TLeftBracket, [91])); ([(false, [32])], (TIdent, [120]));
              ([], (TDelim, [61])); ([], (TIdent, [121])); ([(false, [32])], (TRightBracket, [93])); ([(false, [32])], (TIdent, [101]))] in
  let evs := [EOpen false sel []; EClose []] in
  css_lex [97; 32; 62; 32; 98; 32; 32; 99; 44; 100; 32; 91; 32; 120; 61; 121; 32; 93; 32; 101; 123; 125] =
    LexDone (concat (map ev_toks evs) ++ optws []) /\
  evs_ok [] evs /\
  expected_sel false sel = [(TIdent, [97]); (TDelim, [62]); (TIdent, [98]); sp; (TIdent, [99]); (TComma, [44]); (TIdent, [100]); sp;
                      (TLeftBracket, [91]); (TIdent, [120]); (TDelim, [61]); (TIdent, [121]); (TRightBracket, [93]); sp; (TIdent, [101])].
Proof.
  cbv zeta. split; [vm_compute; reflexivity|]. split; [|vm_compute; reflexivity].
  repeat (first [discriminate | reflexivity | lia | left; exact I | split | exact I | vm_compute; reflexivity | intros _ | intros ?]).
Qed.

(* "a{b , c d{e:f;}g:h;}" : a nested ruleset; its selector is compacted like a top-level one: b , c " " d *)
Example wellformed_example_nested :
  let evs := [EOpen false [([], (TIdent, [97]))] [];
              EOpen true [([], (TIdent, [98])); ([(false, [32])], (TComma, [44])); ([(false, [32])], (TIdent, [99])); ([(false, [32])], (TIdent, [100]))] [];
              EDecl (mkDecl [] [101] [] [([], (TIdent, [102]))] [] true); EClose [];
              EDecl (mkDecl [] [103] [] [([], (TIdent, [104]))] [] true); EClose []] in
  css_lex [97; 123; 98; 32; 44; 32; 99; 32; 100; 123; 101; 58; 102; 59; 125; 103; 58; 104; 59; 125] =
    LexDone (concat (map ev_toks evs) ++ optws []) /\
  evs_ok [] evs /\
  map ev_unit evs =
    [(GBeginRuleset, TWhitespace, [], [(TIdent, [97])]);
     (GBeginRuleset, TWhitespace, [], [(TIdent, [98]); (TComma, [44]); (TIdent, [99]); sp; (TIdent, [100])]);
     (GDeclaration, TIdent, [101], [(TIdent, [102])]); (GEndRuleset, TRightBrace, [125], []);
     (GDeclaration, TIdent, [103], [(TIdent, [104])]); (GEndRuleset, TRightBrace, [125], [])].
Proof.
  cbv zeta. split; [vm_compute; reflexivity|]. split; [|vm_compute; reflexivity].
  repeat (first [discriminate | reflexivity | lia | left; exact I | split | exact I | vm_compute; reflexivity | intros _ | intros ?]).
Qed.

(* "<!-- /*c*/a{--x: 1 /*k*/ (;) ;&.b{}}-->" : a CDO, a top-level comment, a custom property whose value is the exact source
   text " 1 /*k*/ (;) " (the ';' inside the parentheses does not end it), a nested ruleset that starts with '&', a CDC *)
Example wellformed_example_misc :
  let raw := [(TWhitespace, [32]); (TNumber, [49]); (TWhitespace, [32]); (TComment, [47; 42; 107; 42; 47]); (TWhitespace, [32]);
              (TLeftParenthesis, [40]); (TSemicolon, [59]); (TRightParenthesis, [41]); (TWhitespace, [32])] in
  let evs := [EToken [] TCDO [60; 33; 45; 45]; EComment ([(false, [32])]) [47; 42; 99; 42; 47];
              EOpen false [([], (TIdent, [97]))] []; ECustom [] [45; 45; 120] [] raw true;
              EOpen true [([], (TDelim, [38])); ([], (TDelim, [46])); ([], (TIdent, [98]))] []; EClose []; EClose [];
              EToken [] TCDC [45; 45; 62]] in
  css_lex [60; 33; 45; 45; 32; 47; 42; 99; 42; 47; 97; 123; 45; 45; 120; 58; 32; 49; 32; 47; 42; 107; 42; 47; 32; 40; 59; 41; 32; 59;
           38; 46; 98; 123; 125; 125; 45; 45; 62] = LexDone (concat (map ev_toks evs) ++ optws []) /\
  evs_ok [] evs /\
  map ev_unit evs =
    [(GToken, TCDO, [60; 33; 45; 45], []); (GComment, TComment, [47; 42; 99; 42; 47], []);
     (GBeginRuleset, TWhitespace, [], [(TIdent, [97])]);
     (GCustomProperty, TCustomPropertyName, [45; 45; 120], [(TCustomPropertyValue, [32; 49; 32; 47; 42; 107; 42; 47; 32; 40; 59; 41; 32])]);
     (GBeginRuleset, TWhitespace, [], [(TDelim, [38]); (TDelim, [46]); (TIdent, [98])]);
     (GEndRuleset, TRightBrace, [125], []); (GEndRuleset, TRightBrace, [125], []); (GToken, TCDC, [45; 45; 62], [])].
Proof.
  cbv zeta. split; [vm_compute; reflexivity|]. split; [|vm_compute; reflexivity].
  repeat (first [discriminate | reflexivity | lia | left; exact I | split | exact I | vm_compute; reflexivity | intros _ | intros ?]).
Qed.

(* "@import url(x) s;@MEDIA (m:1px) and (x: y),p{a{b:c;}}" : the prelude keeps the whitespace after the at-keyword and between
   words, drops it after '(' , before ')' and around ':' and ','; @MEDIA is lower-cased and hashes to Media (a rule block) *)
Example wellformed_example_at :
  let pre1 := [([(false, [32])], (TURL, [117; 114; 108; 40; 120; 41])); ([(false, [32])], (TIdent, [115]))] in
  let pre2 := [([(false, [32])], (TLeftParenthesis, [40])); ([], (TIdent, [109])); ([], (TColon, [58])); ([], (TDimension, [49; 112; 120]));
               ([], (TRightParenthesis, [41])); ([(false, [32])], (TIdent, [97; 110; 100])); ([(false, [32])], (TLeftParenthesis, [40]));
               ([], (TIdent, [120])); ([], (TColon, [58])); ([(false, [32])], (TIdent, [121])); ([], (TRightParenthesis, [41]));
               ([], (TComma, [44])); ([], (TIdent, [112]))] in
  let evs := [EAtRule [] [64; 105; 109; 112; 111; 114; 116] pre1 [] true;
              EBeginAtRule [] [64; 77; 69; 68; 73; 65] pre2 [];
              EOpen false [([], (TIdent, [97]))] []; EDecl (mkDecl [] [98] [] [([], (TIdent, [99]))] [] true); EClose [];
              EEndAtRule []] in
  css_lex [64; 105; 109; 112; 111; 114; 116; 32; 117; 114; 108; 40; 120; 41; 32; 115; 59;
           64; 77; 69; 68; 73; 65; 32; 40; 109; 58; 49; 112; 120; 41; 32; 97; 110; 100; 32; 40; 120; 58; 32; 121; 41; 44; 112; 123;
           97; 123; 98; 58; 99; 59; 125; 125] = LexDone (concat (map ev_toks evs) ++ optws []) /\
  evs_ok [] evs /\
  map ev_unit evs =
    [(GAtRule, TAtKeyword, [64; 105; 109; 112; 111; 114; 116], [sp; (TURL, [117; 114; 108; 40; 120; 41]); sp; (TIdent, [115])]);
     (GBeginAtRule, TAtKeyword, [64; 109; 101; 100; 105; 97],
        [(TLeftParenthesis, [40]); (TIdent, [109]); (TColon, [58]); (TDimension, [49; 112; 120]); (TRightParenthesis, [41]); sp;
         (TIdent, [97; 110; 100]); sp; (TLeftParenthesis, [40]); (TIdent, [120]); (TColon, [58]); (TIdent, [121]); (TRightParenthesis, [41]);
         (TComma, [44]); (TIdent, [112])]);
     (GBeginRuleset, TWhitespace, [], [(TIdent, [97])]); (GDeclaration, TIdent, [98], [(TIdent, [99])]);
     (GEndRuleset, TRightBrace, [125], []); (GEndAtRule, TRightBrace, [125], [])].
Proof.
  cbv zeta. split; [vm_compute; reflexivity|]. split; [|vm_compute; reflexivity].
  repeat (first [discriminate | reflexivity | lia | left; exact I | split | exact I | vm_compute; reflexivity | intros _ | intros ?]).
Qed.

(* "a{b:c}@font-face{d:e;f:g}h{--x: 1}k{@a z}" written the usual way: the last declaration of a block has no
   ';' - the '}' ends it and the next call reports the end of the block; @font-face and @page have a declaration block;
   an at-rule without ';' before the '}' *)
Example wellformed_example_brace :
  let evs := [EOpen false [([], (TIdent, [97]))] []; EDecl (mkDecl [] [98] [] [([], (TIdent, [99]))] [] false); EClose [];
              EBeginAtRule [] [64; 102; 111; 110; 116; 45; 102; 97; 99; 101] [] [];
              EDecl (mkDecl [] [100] [] [([], (TIdent, [101]))] [] true);
              EDecl (mkDecl [] [102] [] [([], (TIdent, [103]))] [] false); EEndAtRule [];
              EOpen false [([], (TIdent, [104]))] []; ECustom [] [45; 45; 120] [] [(TWhitespace, [32]); (TNumber, [49])] false; EClose [];
              EOpen false [([], (TIdent, [107]))] []; EAtRule [] [64; 97] [([(false, [32])], (TIdent, [122]))] [] false; EClose []] in
  css_lex [97; 123; 98; 58; 99; 125; 64; 102; 111; 110; 116; 45; 102; 97; 99; 101; 123; 100; 58; 101; 59; 102; 58; 103; 125;
           104; 123; 45; 45; 120; 58; 32; 49; 125; 107; 123; 64; 97; 32; 122; 125] = LexDone (concat (map ev_toks evs) ++ optws []) /\
  evs_ok [] evs /\
  map ev_unit evs =
    [(GBeginRuleset, TWhitespace, [], [(TIdent, [97])]); (GDeclaration, TIdent, [98], [(TIdent, [99])]); (GEndRuleset, TRightBrace, [125], []);
     (GBeginAtRule, TAtKeyword, [64; 102; 111; 110; 116; 45; 102; 97; 99; 101], []);
     (GDeclaration, TIdent, [100], [(TIdent, [101])]); (GDeclaration, TIdent, [102], [(TIdent, [103])]); (GEndAtRule, TRightBrace, [125], []);
     (GBeginRuleset, TWhitespace, [], [(TIdent, [104])]);
     (GCustomProperty, TCustomPropertyName, [45; 45; 120], [(TCustomPropertyValue, [32; 49])]); (GEndRuleset, TRightBrace, [125], []);
     (GBeginRuleset, TWhitespace, [], [(TIdent, [107])]); (GAtRule, TAtKeyword, [64; 97], [sp; (TIdent, [122])]); (GEndRuleset, TRightBrace, [125], [])].
Proof.
  cbv zeta. split; [vm_compute; reflexivity|]. split; [|vm_compute; reflexivity].
  repeat (first [discriminate | reflexivity | lia | left; exact I | split | exact I | vm_compute; reflexivity | intros _ | intros ?]).
Qed.

(* "@foo x{ a b;{c}}d{}" : the block of an unknown at-rule is a stream of Token units; the whitespace directly after the '{'
   is skipped, later whitespace is a token of its own; a '}' inside nested braces is a token, the one at level 0 ends
   the block *)
Example wellformed_example_unknown :
  let evs := [EBeginAtRule [] [64; 102; 111; 111] [([(false, [32])], (TIdent, [120]))] [];
              EUTok ([(false, [32])]) TIdent [97]; EUTok [] TWhitespace [32]; EUTok [] TIdent [98]; EUTok [] TSemicolon [59];
              EUTok [] TLeftBrace [123]; EUTok [] TIdent [99]; EUTok [] TRightBrace [125]; EEndAtRule [];
              EOpen false [([], (TIdent, [100]))] []; EClose []] in
  css_lex [64; 102; 111; 111; 32; 120; 123; 32; 97; 32; 98; 59; 123; 99; 125; 125; 100; 123; 125] =
    LexDone (concat (map ev_toks evs) ++ optws []) /\
  evs_ok [] evs /\
  map ev_unit evs =
    [(GBeginAtRule, TAtKeyword, [64; 102; 111; 111], [sp; (TIdent, [120])]);
     (GToken, TIdent, [97], []); (GToken, TWhitespace, [32], []); (GToken, TIdent, [98], []); (GToken, TSemicolon, [59], []);
     (GToken, TLeftBrace, [123], []); (GToken, TIdent, [99], []); (GToken, TRightBrace, [125], []); (GEndAtRule, TRightBrace, [125], []);
     (GBeginRuleset, TWhitespace, [], [(TIdent, [100])]); (GEndRuleset, TRightBrace, [125], [])].
Proof.
  cbv zeta. split; [vm_compute; reflexivity|]. split; [|vm_compute; reflexivity].
  unfold evs_ok. cbn [evs_okm]. repeat (first [discriminate | reflexivity | lia | left; exact I | split | exact I | vm_compute; reflexivity | intros _ | intros ?]).
Qed.

(* "a{/*k*/b/*l*/:/*m*/c/*n*/d e/*o*/,f;x/**/y{}}g/**/h{}" : comments inside blocks are dropped; between two value tokens a
   dropped comment gives a space like whitespace does (c " " d), not next to punctuation (e , f); the selector of a nested
   ruleset, which parseDeclaration collects, gets the space too (x " " y) while a top-level selector does not (g h) -
   finding wellformed-comment-space *)
Example wellformed_example_comments :
  let cm (c : Z) : ws_t := [(true, [47; 42; c; 42; 47])] in
  let evs := [EOpen false [([], (TIdent, [97]))] [];
              EDecl (mkDecl (cm 107) [98] (cm 108)
                       [(cm 109, (TIdent, [99])); (cm 110, (TIdent, [100])); ([(false, [32])], (TIdent, [101])); (cm 111, (TComma, [44]));
                        ([], (TIdent, [102]))] [] true);
              EOpen true [([], (TIdent, [120])); ([(true, [47; 42; 42; 47])], (TIdent, [121]))] []; EClose []; EClose [];
              EOpen false [([], (TIdent, [103])); ([(true, [47; 42; 42; 47])], (TIdent, [104]))] []; EClose []] in
  css_lex [97; 123; 47; 42; 107; 42; 47; 98; 47; 42; 108; 42; 47; 58; 47; 42; 109; 42; 47; 99; 47; 42; 110; 42; 47; 100; 32; 101;
           47; 42; 111; 42; 47; 44; 102; 59; 120; 47; 42; 42; 47; 121; 123; 125; 125; 103; 47; 42; 42; 47; 104; 123; 125] =
    LexDone (concat (map ev_toks evs) ++ optws []) /\
  evs_ok [] evs /\
  map ev_unit evs =
    [(GBeginRuleset, TWhitespace, [], [(TIdent, [97])]);
     (GDeclaration, TIdent, [98], [(TIdent, [99]); sp; (TIdent, [100]); sp; (TIdent, [101]); (TComma, [44]); (TIdent, [102])]);
     (GBeginRuleset, TWhitespace, [], [(TIdent, [120]); sp; (TIdent, [121])]); (GEndRuleset, TRightBrace, [125], []);
     (GEndRuleset, TRightBrace, [125], []);
     (GBeginRuleset, TWhitespace, [], [(TIdent, [103]); (TIdent, [104])]); (GEndRuleset, TRightBrace, [125], [])].
Proof.
  cbv zeta. split; [vm_compute; reflexivity|]. split; [|vm_compute; reflexivity].
  unfold evs_ok. cbn [evs_okm]. repeat (first [discriminate | reflexivity | lia | left; exact I | split | exact I | vm_compute; reflexivity | intros _ | intros ?]).
Qed.

(* "a{;b:c;;d:e;}" : stray semicolons are skipped without a unit *)
Example wellformed_example_semis :
  let evs := [EOpen false [([], (TIdent, [97]))] []; ESemi [];
              EDecl (mkDecl [] [98] [] [([], (TIdent, [99]))] [] true); ESemi [];
              EDecl (mkDecl [] [100] [] [([], (TIdent, [101]))] [] true); EClose []] in
  css_lex [97; 123; 59; 98; 58; 99; 59; 59; 100; 58; 101; 59; 125] = LexDone (concat (map ev_toks evs) ++ optws []) /\
  evs_ok [] evs /\
  units evs =
    [(GBeginRuleset, TWhitespace, [], [(TIdent, [97])]); (GDeclaration, TIdent, [98], [(TIdent, [99])]);
     (GDeclaration, TIdent, [100], [(TIdent, [101])]); (GEndRuleset, TRightBrace, [125], [])].
Proof.
  cbv zeta. split; [vm_compute; reflexivity|]. split; [|vm_compute; reflexivity].
  unfold evs_ok. cbn [evs_okm]. repeat (first [discriminate | reflexivity | lia | left; exact I | split | exact I | vm_compute; reflexivity | intros _ | intros ?]).
Qed.
