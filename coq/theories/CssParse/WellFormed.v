(* CssParse/WellFormed.v — C08 (partial): for stylesheets of a small well-formed grammar the parser yields exactly
   the units of the source.  Grammar (on the lexer's token list, no whitespace or comments):
       stylesheet ::= rule*        rule ::= Ident '{' decl* '}'        decl ::= Ident ':' value ';'
   where value is one token of type Ident / Number / Dimension / Percentage / Hash / String. *)
From Verif Require Import Common.Base Common.Tactics Common.Lx Css.Model Css.Basics Css.Bounds Css.Proofs Css.Agree.
From Verif Require Import CssParse.Model CssParse.Proofs CssParse.Trace CssParse.Conserve.
From Coq Require Import ZifyBool.

(* the lexer, started at z, returns exactly the tokens toks and then the end of input *)
Definition lexes (z : lx) (toks : list tok) : Prop := exists f, css_lex_from f z = LexDone toks.

Lemma lexes_cons z t b ts : lexes z ((t, b) :: ts) ->
  exists z', css_next z = Some (t, b, z') /\ lexes z' ts /\ is_err t = false.
Proof.
  intros (f & Hf). destruct f as [|f]; [discriminate|]. cbn [css_lex_from] in Hf.
  destruct (css_next z) as [[[ty b'] z']|]; [|discriminate]. destruct (is_err ty) eqn:E; [discriminate|].
  destruct (css_lex_from f z') as [ts'| |] eqn:E2; try discriminate.
  assert (ty = t) by congruence. assert (b' = b) by congruence. assert (ts' = ts) by congruence. subst.
  exists z'. split; [reflexivity|]. split; [exists f; exact E2|exact E].
Qed.

Lemma lexes_nil z : lexes z [] -> exists b z', css_next z = Some (TError, b, z').
Proof.
  intros (f & Hf). destruct f as [|f]; [discriminate|]. cbn [css_lex_from] in Hf.
  destruct (css_next z) as [[[ty b'] z']|]; [|discriminate]. destruct (is_err ty) eqn:E.
  - destruct ty; try discriminate E. eauto.
  - destruct (css_lex_from f z'); discriminate.
Qed.

Lemma pop_loop_eq fuel allow p t d : pop_loop fuel allow p t d =
  if (negb (keepws p) && is_t t TWhitespace) || is_t t TComment then
    match fuel with
    | O => PFuel
    | S f =>
        let p1 := if is_t t TWhitespace then set_prevws p true else set_prevcomment p true in
        if is_t t TComment && allow && (len (pst p) =? 1) then POk (t, d, p1)
        else r <-- lex_next p1 ;; pop_loop f allow (snd r) (fst (fst r)) (snd (fst r))
    end
  else POk (t, d, p).
Proof. destruct fuel; reflexivity. Qed.

Definition plain_tok (t : ttype) : bool := negb (is_t t TWhitespace) && negb (is_t t TComment).

(* popToken on a token that is neither whitespace nor a comment *)
Lemma pop_token_plain F allow p t b ts : lexes (pl p) ((t, b) :: ts) -> plain_tok t = true ->
  exists z', pop_token F allow p = POk (t, b, relex p z' false false) /\ lexes z' ts /\ css_next (pl p) = Some (t, b, z').
Proof.
  intros Hl Hp. destruct (lexes_cons _ _ _ _ Hl) as (z' & Hn & Hl' & _).
  exists z'. split; [|split; assumption]. unfold pop_token, lex_next. cbn [set_prevcomment set_prevws pl]. rewrite Hn.
  cbn [pbind fst snd]. rewrite pop_loop_eq. unfold plain_tok in Hp. apply andb_true_iff in Hp. destruct Hp as [H1 H2].
  apply negb_true_iff in H1. apply negb_true_iff in H2. rewrite H1, H2. rewrite andb_false_r. cbn [orb].
  destruct p; reflexivity.
Qed.

Lemma pop_token_eof F allow p : lexes (pl p) [] ->
  exists b z', pop_token F allow p = POk (TError, b, relex p z' false false).
Proof.
  intros Hl. destruct (lexes_nil _ Hl) as (b & z' & Hn). exists b, z'.
  unfold pop_token, lex_next. cbn [set_prevcomment set_prevws pl]. rewrite Hn. cbn [pbind fst snd]. rewrite pop_loop_eq.
  change (is_t TError TWhitespace) with false. change (is_t TError TComment) with false. rewrite andb_false_r. cbn [orb].
  destruct p; reflexivity.
Qed.

(* --- the parser between two units of the grammar ----------------------------------------------------------------- *)
Definition wf_state (p : parser) (st : list pstate) (toks : list tok) : Prop :=
  css_inv (pl p) /\ lexes (pl p) toks /\ pst p = st /\ plevel p = 0 /\ prevend p = false /\ keepws p = false /\
  isstyle p = true.

Definition is_val (t : ttype) : bool :=
  match t with TIdent | TNumber | TDimension | TPercentage | THash | TString => true | _ => false end.

Ltac evis :=
  repeat match goal with
  | |- context [is_t ?a ?b] =>
      let v := eval vm_compute in (is_t a b) in
      match v with true => idtac | false => idtac end; change (is_t a b) with v
  end.

Lemma next_fuel_S p t b z' : css_inv (pl p) -> css_next (pl p) = Some (t, b, z') -> is_err t = false ->
  exists k, next_fuel p = S (S (S k)) /\ css_inv z'.
Proof.
  intros Hi Hn Ht. destruct (css_next_step _ Hi) as [(_ & Hn')|(ty & b' & z2 & Hn' & _ & Hi2 & _ & Hp & _)]; rewrite Hn in Hn'.
  - assert (t = TError) by congruence. subst. discriminate.
  - assert (z2 = z') by congruence. subst z2. split with (Z.to_nat (lx_len (pl p) - lpos (pl p)) - 1)%nat.
    split; [unfold next_fuel; lia|exact Hi2].
Qed.

Lemma relex_fields p z ws cm : pst (relex p z ws cm) = pst p /\ plevel (relex p z ws cm) = plevel p /\
  prevend (relex p z ws cm) = prevend p /\ keepws (relex p z ws cm) = keepws p /\ isstyle (relex p z ws cm) = isstyle p /\
  pl (relex p z ws cm) = z /\ prevws (relex p z ws cm) = ws /\ prevcomment (relex p z ws cm) = cm /\
  pbuf (relex p z ws cm) = pbuf p /\ ptt (relex p z ws cm) = ptt p /\ pdata (relex p z ws cm) = pdata p /\
  perr (relex p z ws cm) = perr p.
Proof. repeat split. Qed.

(* the end of a ruleset *)
Lemma step_end p st0 rb ts : wf_state p (SQualifiedRuleDeclarationList :: st0) ((TRightBrace, rb) :: ts) ->
  exists p', parse_next p = POk (GEndRuleset, p') /\ ptt p' = TRightBrace /\ pdata p' = rb /\ perr p' = false /\
    wf_state p' st0 ts.
Proof.
  intros (Hi & Hl & Hst & Hlv & Hpe & Hkw & Hsty).
  unfold parse_next. cbv zeta. change (prevend (set_err p false)) with (prevend p). rewrite Hpe.
  destruct (pop_token_plain (next_fuel p) true (set_err p false) TRightBrace rb ts Hl eq_refl) as (z' & Hpop & Hl' & Hn).
  rewrite Hpop. cbn [pbind fst snd].
  destruct (next_fuel_S p _ _ _ Hi Hn eq_refl) as (k & _ & Hi').
  cbn [set_tok relex set_err pst]. rewrite Hst.
  unfold parse_qualified_rule_declaration_list. rewrite skip_semicolons_none by (cbn; discriminate). cbn [pbind]. cbv zeta.
  cbn [set_tok ptt]. evis. cbn [orb]. unfold pop_st. cbn [set_tok relex set_err pst]. rewrite Hst. cbn [pbind].
  eexists. split; [reflexivity|]. cbn [set_st set_tok relex set_err ptt pdata perr].
  split; [reflexivity|]. split; [reflexivity|]. split; [reflexivity|].
  unfold wf_state. cbn [set_st set_tok relex set_err pl pst plevel prevend keepws isstyle].
  split; [exact Hi'|]. split; [exact Hl'|]. auto.
Qed.

(* the end of the input at the top level *)
Lemma step_eof p : wf_state p [SStylesheet] [] ->
  exists p', parse_next p = POk (GError, p') /\ perr p' = false /\ ptt p' = TError.
Proof.
  intros (Hi & Hl & Hst & Hlv & Hpe & Hkw & Hsty).
  unfold parse_next. cbv zeta. change (prevend (set_err p false)) with (prevend p). rewrite Hpe.
  destruct (pop_token_eof (next_fuel p) true (set_err p false) Hl) as (b & z' & Hpop). rewrite Hpop. cbn [pbind fst snd].
  cbn [set_tok relex set_err pst]. rewrite Hst. unfold parse_stylesheet. cbn [set_tok ptt]. evis. cbn [orb].
  eexists. split; [reflexivity|]. split; reflexivity.
Qed.

(* a ruleset whose selector is one identifier *)
Lemma step_begin p st0 sel lb ts :
  wf_state p (SStylesheet :: st0) ((TIdent, sel) :: (TLeftBrace, lb) :: ts) -> one_of [44; 62; 43; 126] sel = false ->
  exists p', parse_next p = POk (GBeginRuleset, p') /\ ptt p' = TWhitespace /\ pdata p' = [] /\
    pbuf p' = [(TIdent, sel)] /\ perr p' = false /\
    wf_state p' (SQualifiedRuleDeclarationList :: SStylesheet :: st0) ts.
Proof.
  intros (Hi & Hl & Hst & Hlv & Hpe & Hkw & Hsty) Hsp.
  unfold parse_next. cbv zeta. change (prevend (set_err p false)) with (prevend p). rewrite Hpe.
  destruct (pop_token_plain (next_fuel p) true (set_err p false) TIdent sel _ Hl eq_refl) as (z1 & Hpop & Hl1 & Hn1).
  rewrite Hpop. cbn [pbind fst snd].
  destruct (next_fuel_S p _ _ _ Hi Hn1 eq_refl) as (k & HF & Hi1). rewrite HF.
  set (F := S (S (S k))).
  cbn [set_tok relex set_err pst]. rewrite Hst.
  unfold parse_stylesheet. cbn [set_tok ptt]. evis. cbn [orb]. unfold parse_qualified_rule.
  unfold F at 1. cbn [qualified_loop pbind fst snd set_tok set_buf ptt pdata]. evis. cbn [andb].
  unfold closes. evis. cbn [orb andb]. unfold adjust_level, opens, closes. evis. cbn [orb].
  rewrite Hsp. cbn [negb andb set_tok set_buf relex set_err prevws].
  (* second iteration: the '{' *)
  match goal with |- context [pop_token F false ?q] => set (p2 := q) end.
  assert (Hl2 : lexes (pl p2) ((TLeftBrace, lb) :: ts)) by exact Hl1.
  destruct (pop_token_plain F false p2 TLeftBrace lb ts Hl2 eq_refl) as (z2 & Hpop2 & Hl3 & Hn2).
  rewrite Hpop2. cbn [pbind fst snd]. evis.
  assert (Hlv2 : plevel (relex p2 z2 false false) = 0) by exact Hlv. rewrite Hlv2. cbn [Z.eqb andb].
  assert (Hi2 : css_inv z2).
  { change (pl p2) with z1 in Hn2.
    destruct (css_next_step z1 Hi1) as [(_ & Hx)|(ty & b' & z' & Hx & _ & Hiz & _)]; rewrite Hn2 in Hx; [discriminate|].
    assert (z' = z2) by congruence. subst. exact Hiz. }
  eexists. split; [reflexivity|]. subst p2.
  cbn [push_st set_st push_buf set_buf set_tok relex set_err ptt pdata pbuf perr app].
  split; [reflexivity|]. split; [reflexivity|]. split; [reflexivity|]. split; [reflexivity|].
  unfold wf_state. cbn [push_st set_st push_buf set_buf set_tok relex set_err pl pst plevel prevend keepws isstyle].
  split; [exact Hi2|]. split; [exact Hl3|]. rewrite Hst. auto.
Qed.

Lemma css_inv_next z t b z' : css_inv z -> css_next z = Some (t, b, z') -> css_inv z'.
Proof.
  intros Hi Hn. destruct (css_total_proof z Hi) as (t2 & b2 & z2 & Hn2 & Hi2). rewrite Hn in Hn2.
  assert (z2 = z') by congruence. subst. exact Hi2.
Qed.

Lemma declaration_loop_S f F p : declaration_loop (S f) F p =
  (r <-- pop_token F false p ;;
   let t := fst (fst r) in let d := snd (fst r) in let p := snd r in
   if ends_unit p t then
     match pbuf p with
     | [] => PPanic
     | _ :: after =>
         match drop_ws after with
         | c :: vals =>
             if is_t (fst c) TColon then
               let p := set_buf p (compact [] (drop_ws vals)) in
               let p := set_tok p (ptt p) (to_lower (pdata p)) in
               POk (GDeclaration, set_prevend p (is_t t TRightBrace))
             else parse_declaration_error F (set_err p true) t d
         | [] => parse_declaration_error F (set_err p true) t d
         end
     end
   else if is_t t TLeftBrace && (plevel p =? 0) && isstyle p then
     POk (GBeginRuleset, push_st (set_tok p TWhitespace []) SQualifiedRuleDeclarationList)
   else if closes t && (plevel p =? 0) then parse_declaration_error F (set_err p true) t d
   else
     let p := adjust_level p t in
     lastt <-- of_opt (match rev (pbuf p) with x :: _ => Some x | [] => None end) ;;
     let p := if (prevws p || prevcomment p) && negb (is_wstok lastt) then push_buf p TWhitespace [32] else p in
     declaration_loop f F (push_buf p t d)).
Proof. reflexivity. Qed.

(* a declaration  ident ':' value ';'  inside a ruleset *)
Lemma step_decl p st0 prop c vt vb s ts :
  wf_state p (SQualifiedRuleDeclarationList :: st0)
           ((TIdent, prop) :: (TColon, c) :: (vt, vb) :: (TSemicolon, s) :: ts) ->
  is_val vt = true -> punct (vt, vb) = false ->
  exists p', parse_next p = POk (GDeclaration, p') /\ ptt p' = TIdent /\ pdata p' = to_lower prop /\
    pbuf p' = [(vt, vb)] /\ perr p' = false /\ wf_state p' (SQualifiedRuleDeclarationList :: st0) ts.
Proof.
  intros (Hi & Hl & Hst & Hlv & Hpe & Hkw & Hsty) Hval Hpun.
  unfold parse_next. cbv zeta. change (prevend (set_err p false)) with (prevend p). rewrite Hpe.
  destruct (pop_token_plain (next_fuel p) true (set_err p false) TIdent prop _ Hl eq_refl) as (z1 & Hpop & Hl1 & Hn1).
  rewrite Hpop. cbn [pbind fst snd].
  destruct (next_fuel_S p _ _ _ Hi Hn1 eq_refl) as (k & HF & Hi1). rewrite HF.
  set (F := S (S (S k))).
  cbn [set_tok relex set_err pst]. rewrite Hst.
  unfold parse_qualified_rule_declaration_list. rewrite skip_semicolons_none by (cbn; discriminate). cbn [pbind]. cbv zeta.
  cbn [set_tok ptt]. evis. cbn [orb].
  unfold parse_declaration_list. cbn [set_tok ptt]. evis. cbn [pbind].
  rewrite skip_semicolons_none by (cbn; discriminate). cbn [pbind set_tok ptt]. evis. cbn [pbind orb]. cbv zeta. cbn [set_tok ptt]. evis.
  cbn [orb]. unfold parse_declaration. cbn [set_tok ptt pdata].
  (* ':' *)
  unfold F at 1. rewrite declaration_loop_S.
  match goal with |- context [pop_token F false ?q] => set (q1 := q) end.
  assert (Hq1 : lexes (pl q1) ((TColon, c) :: (vt, vb) :: (TSemicolon, s) :: ts)) by exact Hl1.
  destruct (pop_token_plain F false q1 TColon c _ Hq1 eq_refl) as (z2 & Hpop2 & Hl2 & Hn2). rewrite Hpop2.
  cbn [pbind fst snd]. unfold ends_unit. evis. cbn [orb andb]. unfold closes. evis. cbn [orb andb].
  unfold adjust_level, opens, closes. evis. cbn [orb]. subst q1.
  cbn [relex set_buf set_tok set_err pbuf rev app of_opt pbind prevws prevcomment orb andb].
  (* the value *)
  rewrite declaration_loop_S.
  match goal with |- context [pop_token F false ?q] => set (q2 := q) end.
  assert (Hq2 : lexes (pl q2) ((vt, vb) :: (TSemicolon, s) :: ts)) by exact Hl2.
  assert (Hplain : plain_tok vt = true) by (destruct vt; try discriminate Hval; reflexivity).
  destruct (pop_token_plain F false q2 vt vb _ Hq2 Hplain) as (z3 & Hpop3 & Hl3 & Hn3). rewrite Hpop3.
  cbn [pbind fst snd].
  assert (Hnot : ends_unit (relex q2 z3 false false) vt = false /\ is_t vt TLeftBrace = false /\ closes vt = false /\
                 opens vt = false).
  { unfold ends_unit, closes, opens. destruct vt; try discriminate Hval; repeat split; reflexivity. }
  destruct Hnot as (Hn_e & Hn_l & Hn_c & Hn_o). rewrite Hn_e, Hn_l, Hn_c. cbn [andb].
  unfold adjust_level. rewrite Hn_o, Hn_c. subst q2.
  cbn [relex push_buf set_buf set_tok set_err pbuf rev app of_opt pbind prevws prevcomment orb andb].
  (* ';' *)
  rewrite declaration_loop_S.
  match goal with |- context [pop_token F false ?q] => set (q3 := q) end.
  assert (Hq3 : lexes (pl q3) ((TSemicolon, s) :: ts)) by exact Hl3.
  destruct (pop_token_plain F false q3 TSemicolon s ts Hq3 eq_refl) as (z4 & Hpop4 & Hl4 & Hn4). rewrite Hpop4.
  cbn [pbind fst snd]. unfold ends_unit. evis.
  assert (Hlvq3 : plevel (relex q3 z4 false false) = 0) by exact Hlv. rewrite Hlvq3. cbn [Z.eqb orb andb].
  subst q3.
  assert (Hws : is_t vt TWhitespace = false) by (destruct vt; try discriminate Hval; reflexivity).
  repeat (progress (cbn [relex push_buf set_buf set_tok set_err pbuf app drop_ws fst compact rev]; unfold is_wstok; cbn [fst]; evis; rewrite ?Hws)).
  assert (Hi4 : css_inv z4).
  { eapply css_inv_next; [|exact Hn4]. eapply css_inv_next; [|exact Hn3]. eapply css_inv_next; [|exact Hn2]. exact Hi1. }
  eexists. split; [reflexivity|].
  cbn [set_prevend set_tok set_buf relex set_err ptt pdata pbuf perr].
  split; [reflexivity|]. split; [reflexivity|]. split; [reflexivity|]. split; [reflexivity|].
  unfold wf_state. cbn [set_prevend set_tok set_buf relex set_err pl pst plevel prevend keepws isstyle].
  split; [exact Hi4|]. split; [exact Hl4|]. auto.
Qed.

(* --- the grammar and the units it denotes ------------------------------------------------------------------------ *)
Definition decl_t := (list Z * ttype * list Z)%type.            (* property name, value token *)
Definition rule_t := (list Z * list decl_t)%type.               (* selector identifier, declarations *)

Definition decl_toks (d : decl_t) : list tok :=
  let '(prop, vt, vb) := d in [(TIdent, prop); (TColon, [58]); (vt, vb); (TSemicolon, [59])].
Definition rule_toks (r : rule_t) : list tok :=
  (TIdent, fst r) :: (TLeftBrace, [123]) :: concat (map decl_toks (snd r)) ++ [(TRightBrace, [125])].

Definition decl_ok (d : decl_t) : Prop := let '(prop, vt, vb) := d in is_val vt = true /\ punct (vt, vb) = false.
Definition rule_ok (r : rule_t) : Prop := one_of [44; 62; 43; 126] (fst r) = false /\ Forall decl_ok (snd r).

(* what the caller sees of one call: grammar type, token type, data, and Values() for the units that set them *)
Definition unit_t := (gtype * ttype * list Z * list tok)%type.
Definition view (r : gtype * parser) : unit_t :=
  match fst r with
  | GBeginRuleset | GDeclaration => (fst r, ptt (snd r), pdata (snd r), pbuf (snd r))
  | GError => (GError, ptt (snd r), [], [])
  | g => (g, ptt (snd r), pdata (snd r), [])
  end.

Definition decl_unit (d : decl_t) : unit_t := let '(prop, vt, vb) := d in (GDeclaration, TIdent, to_lower prop, [(vt, vb)]).
Definition rule_units (r : rule_t) : list unit_t :=
  (GBeginRuleset, TWhitespace, [], [(TIdent, fst r)]) :: map decl_unit (snd r) ++ [(GEndRuleset, TRightBrace, [125], [])].

Definition last_state (p : parser) (tr : list (gtype * parser)) : parser :=
  match rev tr with r :: _ => snd r | [] => p end.

Lemma last_state_app p tr r : last_state p (tr ++ [r]) = snd r.
Proof. unfold last_state. rewrite rev_app_distr. reflexivity. Qed.

Lemma last_state_cons p r tr : last_state p (r :: tr) = last_state (snd r) tr.
Proof.
  unfold last_state. cbn [rev]. destruct (rev tr) as [|x l] eqn:E; [reflexivity|]. reflexivity.
Qed.

Lemma parse_run_app : forall a b p tr1 tr2, parse_run a p = POk tr1 -> parse_run b (last_state p tr1) = POk tr2 ->
  parse_run (a + b) p = POk (tr1 ++ tr2).
Proof.
  induction a as [|a IH]; intros b p tr1 tr2 H1 H2; cbn [parse_run Nat.add] in *.
  - apply POk_inj in H1. subst tr1. exact H2.
  - pinv_bind H1. pinv_bind H1. apply POk_inj in H1. subst tr1. rewrite last_state_cons in H2.
    cbn [pbind snd]. rewrite (IH _ _ _ _ E0 H2). reflexivity.
Qed.

Definition no_err (tr : list (gtype * parser)) : Prop := Forall (fun r => perr (snd r) = false) tr.

Lemma decls_run : forall decls p st0 rest,
  wf_state p (SQualifiedRuleDeclarationList :: st0) (concat (map decl_toks decls) ++ rest) -> Forall decl_ok decls ->
  exists tr, parse_run (length decls) p = POk tr /\ map view tr = map decl_unit decls /\ no_err tr /\
    wf_state (last_state p tr) (SQualifiedRuleDeclarationList :: st0) rest.
Proof.
  induction decls as [|[[prop vt] vb] decls IH]; intros p st0 rest Hw Hok.
  - exists []. cbn [length parse_run map concat app] in *. split; [reflexivity|]. split; [reflexivity|]. split; [constructor|exact Hw].
  - inversion Hok as [|? ? Hd0 Hok']; subst. unfold decl_ok in Hd0. destruct Hd0 as (Hv & Hp). cbn [map concat decl_toks app] in Hw.
    destruct (step_decl p st0 prop [58] vt vb [59] _ Hw Hv Hp) as (p1 & Hn & Ht & Hd & Hb & He & Hw1).
    destruct (IH p1 st0 rest Hw1 Hok') as (tr & Hrun & Hview & Hne & Hlast).
    exists ((GDeclaration, p1) :: tr). split; [|split; [|split]].
    + cbn [length parse_run]. rewrite Hn. cbn [pbind snd]. rewrite Hrun. reflexivity.
    + cbn [map]. rewrite Hview. f_equal. unfold view, decl_unit. cbn [fst snd]. rewrite Ht, Hd, Hb. reflexivity.
    + constructor; [exact He|exact Hne].
    + rewrite last_state_cons. exact Hlast.
Qed.

Lemma rules_run : forall rules p,
  wf_state p [SStylesheet] (concat (map rule_toks rules)) -> Forall rule_ok rules ->
  exists tr, parse_run (length (concat (map rule_units rules))) p = POk tr /\
    map view tr = concat (map rule_units rules) /\ no_err tr /\ wf_state (last_state p tr) [SStylesheet] [].
Proof.
  induction rules as [|[sel decls] rules IH]; intros p Hw Hok.
  - exists []. cbn [map concat length parse_run] in *. split; [reflexivity|]. split; [reflexivity|]. split; [constructor|exact Hw].
  - inversion Hok as [|? ? (Hs & Hd) Hok']; subst. cbn [fst snd] in *.
    cbn [map concat rule_toks fst snd app] in Hw. rewrite <- app_assoc in Hw. cbn [app] in Hw.
    destruct (step_begin p [] sel [123] _ Hw Hs) as (p1 & Hn1 & Ht1 & Hd1 & Hb1 & He1 & Hw1).
    destruct (decls_run decls p1 [SStylesheet] _ Hw1 Hd) as (tr2 & Hrun2 & Hview2 & Hne2 & Hw2).
    destruct (step_end _ [SStylesheet] [125] _ Hw2) as (p3 & Hn3 & Ht3 & Hd3 & He3 & Hw3).
    destruct (IH p3 Hw3 Hok') as (tr4 & Hrun4 & Hview4 & Hne4 & Hw4).
    exists (((GBeginRuleset, p1) :: tr2 ++ [(GEndRuleset, p3)]) ++ tr4).
    assert (Hrun123 : parse_run (S (length decls + 1)) p = POk ((GBeginRuleset, p1) :: tr2 ++ [(GEndRuleset, p3)])).
    { cbn [parse_run]. rewrite Hn1. cbn [pbind snd].
      rewrite (parse_run_app (length decls) 1 p1 tr2 [(GEndRuleset, p3)] Hrun2); [reflexivity|].
      cbn [parse_run]. rewrite Hn3. reflexivity. }
    split; [|split; [|split]].
    + match goal with |- parse_run ?n p = _ =>
        replace n with (S (length decls + 1) + length (concat (map rule_units rules)))%nat end.
      2:{ cbn [map concat]. rewrite app_length. unfold rule_units. cbn [fst snd length]. rewrite app_length, map_length. cbn [length]. lia. }
      apply parse_run_app; [exact Hrun123|].
      rewrite last_state_cons, last_state_app. exact Hrun4.
    + cbn [map concat rule_units fst snd]. rewrite map_app. cbn [map]. rewrite map_app. cbn [map].
      rewrite Hview2, Hview4. unfold view at 1 2. cbn [fst snd]. rewrite Ht1, Hd1, Hb1, Ht3, Hd3.
      reflexivity.
    + unfold no_err in *. apply Forall_app. split; [|exact Hne4]. constructor; [exact He1|].
      apply Forall_app. split; [exact Hne2|]. constructor; [exact He3|constructor].
    + unfold last_state. rewrite rev_app_distr.
      destruct (rev tr4) as [|x l] eqn:E.
      * cbn [app]. rewrite <- (rev_involutive tr4) in Hw4. rewrite E in Hw4. cbn [rev] in Hw4.
        change (last_state p3 []) with p3 in Hw4.
        cbn [rev]. rewrite rev_app_distr. cbn [rev app snd]. exact Hw4.
      * cbn [app]. unfold last_state in Hw4. rewrite E in Hw4. exact Hw4.
Qed.

(* C08 (partial): a stylesheet whose token list (as the lexer returns it) is a sequence of rulesets
       ident '{' ( ident ':' value ';' )* '}'
   yields exactly BeginRuleset [selector], one Declaration (lower-cased property name, [value]) per declaration,
   EndRuleset — for every rule in order — and then the end-of-input report; no parse error is reported. *)
Lemma cssparse_wellformed_proof : forall d rules,
  css_lex d = LexDone (concat (map rule_toks rules)) -> Forall rule_ok rules ->
  exists tr, parse_run (length (concat (map rule_units rules)) + 1) (new_parser d false) = POk tr /\
    map view tr = concat (map rule_units rules) ++ [(GError, TError, [], [])] /\ no_err tr.
Proof.
  intros d rules Hlex Hok.
  assert (Hw : wf_state (new_parser d false) [SStylesheet] (concat (map rule_toks rules))).
  { unfold wf_state. cbn [new_parser pl pst plevel prevend keepws isstyle negb]. split; [apply css_inv_init|].
    split; [exists (S (length d)); exact Hlex|]. auto. }
  destruct (rules_run rules _ Hw Hok) as (tr & Hrun & Hview & Hne & Hw').
  destruct (step_eof _ Hw') as (p' & Hn & He & Ht).
  exists (tr ++ [(GError, p')]). split; [|split].
  - apply parse_run_app; [exact Hrun|]. cbn [parse_run]. rewrite Hn. reflexivity.
  - rewrite map_app, Hview. cbn [map]. unfold view. cbn [fst snd]. rewrite Ht. reflexivity.
  - unfold no_err. apply Forall_app. split; [exact Hne|]. constructor; [exact He|constructor].
Qed.

(* "a{B:1;c:x;}d{}" *)
Example wellformed_example :
  let rules := [([97], [([66], TNumber, [49]); ([99], TIdent, [120])]); ([100], [])] in
  css_lex [97; 123; 66; 58; 49; 59; 99; 58; 120; 59; 125; 100; 123; 125] = LexDone (concat (map rule_toks rules)) /\
  Forall rule_ok rules.
Proof.
  cbv zeta. split; [vm_compute; reflexivity|].
  repeat constructor.
Qed.
