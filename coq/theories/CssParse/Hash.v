(* CssParse/Hash.v — css.ToHash over the generated table: never panics, and returns a non-zero hash exactly
   for the seven at-rule names of the table (so the at-rule classification of parseAtRule is exact). *)
From Verif Require Import Common.Base Common.Tactics Common.Lx Css.Model CssParse.Model Gen.Tables.
From Coq Require Import ZifyBool.

Lemma list_eqb_eq a b : list_eqb a b = true -> a = b.
Proof.
  revert b. induction a as [|x a IH]; destruct b as [|y b]; cbn [list_eqb]; intros H; try discriminate; [reflexivity|].
  apply andb_true_iff in H. destruct H as [H1 H2]. f_equal; [lia|apply IH; exact H2].
Qed.

Lemma list_eqb_refl a : list_eqb a a = true.
Proof. induction a as [|x a IH]; cbn [list_eqb]; [reflexivity|]. rewrite Z.eqb_refl, IH. reflexivity. Qed.

(* every table entry addresses a slice inside the text *)
Lemma table_entries_ok : forallb (fun i => slice_ok (Z.shiftr i 8) (Z.shiftr i 8 + Z.land i 255) (len css_hash_text))
                                 css_hash_table = true.
Proof. vm_compute. reflexivity. Qed.

Lemma peek_table k : 0 <= k < 8 -> exists i, peekz css_hash_table k = Some i /\ In i css_hash_table.
Proof.
  intros H. destruct (peekz_in_range css_hash_table k) as (i & Hi); [exact H|]. exists i. split; [exact Hi|].
  unfold peekz in Hi. destruct ((0 <=? k) && (k <? len css_hash_table)); [|discriminate].
  eapply nth_error_In; exact Hi.
Qed.

Lemma hash_entry_total i s : In i css_hash_table -> exists r, hash_entry i s = Some r.
Proof.
  intros Hin. unfold hash_entry. destruct (Z.land i 255 =? len s); [|eauto].
  pose proof table_entries_ok as H. rewrite forallb_forall in H. rewrite (H i Hin). eauto.
Qed.

Lemma land_mask_range h : 0 <= Z.land h 7 < 8.
Proof.
  change 7 with (Z.ones 3). rewrite Z.land_ones by lia. apply Z.mod_pos_bound. lia.
Qed.

(* C01 for ToHash: no index or slice of the generated table / text is out of range *)
Lemma to_hash_total s : exists h, to_hash s = Some h.
Proof.
  unfold to_hash. destruct ((len s =? 0) || (css_hash_maxlen <? len s)); [eauto|].
  change (len css_hash_table - 1) with 7.
  destruct (peek_table _ (land_mask_range (fold_left hash_step s css_hash_hash0))) as (i1 & -> & Hin1).
  cbn [option_bind]. destruct (hash_entry_total i1 s Hin1) as (r1 & ->). cbn [option_bind].
  destruct r1 as [[|]|]; [eauto| |];
  (destruct (peek_table _ (land_mask_range (Z.shiftr (fold_left hash_step s css_hash_hash0) 16))) as (i2 & -> & Hin2);
   cbn [option_bind]; destruct (hash_entry_total i2 s Hin2) as (r2 & ->); cbn [option_bind];
   destruct r2 as [[|]|]; eauto).
Qed.

Definition hash_text (i : Z) : list Z := slice css_hash_text (Z.shiftr i 8) (Z.shiftr i 8 + Z.land i 255).

(* a non-zero result is a table entry whose text is the argument *)
Lemma to_hash_sound s h : to_hash s = Some h -> h <> 0 -> In h css_hash_table /\ hash_text h = s.
Proof.
  unfold to_hash. destruct ((len s =? 0) || (css_hash_maxlen <? len s)); [intros H; inversion H; congruence|].
  change (len css_hash_table - 1) with 7.
  destruct (peek_table _ (land_mask_range (fold_left hash_step s css_hash_hash0))) as (i1 & -> & Hin1).
  cbn [option_bind]. intros H Hh.
  assert (Hent : forall i b, hash_entry i s = Some (Some b) -> b = true -> hash_text i = s).
  { intros i b He Hb. subst b. unfold hash_entry in He. destruct (Z.land i 255 =? len s); [|discriminate].
    destruct (slice_ok _ _ _); [|discriminate]. inversion He as [He']. apply list_eqb_eq in He'. exact He'. }
  destruct (hash_entry i1 s) as [r1|] eqn:E1; [|discriminate]. cbn [option_bind] in H.
  assert (Hsecond : (i2 <- peekz css_hash_table (Z.land (Z.shiftr (fold_left hash_step s css_hash_hash0) 16) 7);;
                     e2 <- hash_entry i2 s;; match e2 with Some true => Some i2 | _ => Some 0 end) = Some h ->
                    In h css_hash_table /\ hash_text h = s).
  { destruct (peek_table _ (land_mask_range (Z.shiftr (fold_left hash_step s css_hash_hash0) 16))) as (i2 & -> & Hin2).
    cbn [option_bind]. destruct (hash_entry i2 s) as [r2|] eqn:E2; [|discriminate]. cbn [option_bind].
    destruct r2 as [[|]|]; intros H2; inversion H2; subst; try congruence.
    split; [exact Hin2|eapply Hent; [exact E2|reflexivity]]. }
  destruct r1 as [[|]|]; [|apply Hsecond; exact H|apply Hsecond; exact H].
  inversion H; subst. split; [exact Hin1|eapply Hent; [exact E1|reflexivity]].
Qed.

(* the seven names hash to their constants (finite check on the generated table) *)
Definition at_names : list (list Z * Z) :=
  [ ([100;111;99;117;109;101;110;116], css_hash_Document); ([102;111;110;116;45;102;97;99;101], css_hash_Font_Face);
    ([107;101;121;102;114;97;109;101;115], css_hash_Keyframes); ([108;97;121;101;114], css_hash_Layer);
    ([109;101;100;105;97], css_hash_Media); ([112;97;103;101], css_hash_Page);
    ([115;117;112;112;111;114;116;115], css_hash_Supports) ].

Lemma to_hash_names : forallb (fun nh => match to_hash (fst nh) with Some h => h =? snd nh | None => false end) at_names = true.
Proof. vm_compute. reflexivity. Qed.

Lemma table_texts : forallb (fun i => (i =? 0) || existsb (fun nh => (snd nh =? i) && list_eqb (hash_text i) (fst nh)) at_names)
                            css_hash_table = true.
Proof. vm_compute. reflexivity. Qed.

(* C08: ToHash s is the constant of s if s is one of the seven at-rule names and 0 otherwise *)
Lemma to_hash_exact_proof : forall s,
  exists h, to_hash s = Some h /\
    ((h = 0 /\ ~ In s (map fst at_names)) \/ (h <> 0 /\ In (s, h) at_names)).
Proof.
  intros s. destruct (to_hash_total s) as (h & Hh). exists h. split; [exact Hh|].
  destruct (Z.eq_dec h 0) as [E|E].
  - left. split; [exact E|]. intros Hin. apply in_map_iff in Hin. destruct Hin as ([n c] & Hn & Hin). cbn [fst] in Hn. subst n.
    pose proof to_hash_names as Hall. rewrite forallb_forall in Hall. specialize (Hall _ Hin). cbn [fst snd] in Hall.
    rewrite Hh in Hall. subst h.
    unfold at_names in Hin. cbn [In] in Hin.
    repeat (destruct Hin as [Hin|Hin]; [inversion Hin; subst; vm_compute in Hall; discriminate|]). contradiction.
  - right. split; [exact E|]. destruct (to_hash_sound s h Hh E) as (Hin & Htxt).
    pose proof table_texts as Hall. rewrite forallb_forall in Hall. specialize (Hall _ Hin).
    apply orb_true_iff in Hall. destruct Hall as [Hz|Hex]; [lia|].
    apply existsb_exists in Hex. destruct Hex as ([n c] & Hin' & Hb). cbn [fst snd] in Hb.
    apply andb_true_iff in Hb. destruct Hb as [Hc Hn]. apply list_eqb_eq in Hn. rewrite Htxt in Hn. subst n.
    assert (c = h) by lia. subst c. exact Hin'.
Qed.

Example to_hash_example : to_hash [109; 101; 100; 105; 97] = Some css_hash_Media /\ to_hash [109; 101; 100; 105] = Some 0.
Proof. vm_compute. auto. Qed.
