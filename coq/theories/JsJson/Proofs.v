(* JsJson/Proofs.v *)
From Verif Require Import Common.Base Common.Tactics JsJson.Model.

(* UnaryExpr.JSON never panics: for every operator and operand, provided an integer literal produced by the
   parser is non-empty (the lexer never returns an empty numeric token). *)
Theorem unaryexpr_json_total_proof neg nt dec int op x :
  (forall ty data, x = Some (ty, data) -> ty = int -> data <> []) ->
  exists r, unary_json neg nt dec int op x = Some r.
Proof.
  intros Hne. unfold unary_json. destruct x as [[ty data]|]; [|eauto].
  destruct ((op =? neg) && ((ty =? dec) || (ty =? int))); [eauto|].
  destruct ((op =? nt) && (ty =? int)) eqn:C; [|eauto].
  b2p. destruct data as [|c t]; [exfalso; eapply Hne; eauto|].
  unfold peekz. rewrite len_cons. pose proof (len_nonneg t). zb. cbn.
  destruct ((c =? 48) || (c =? 49)); [destruct (c =? 48)|]; eauto.
Qed.

(* the code before the fix panicked on `!a` *)
Theorem unaryexpr_json_legacy_refuted neg nt dec int :
  exists op x, unary_json_legacy neg nt dec int op x = None.
Proof. exists nt, None. unfold unary_json_legacy. rewrite Z.eqb_refl. reflexivity. Qed.

Example unaryexpr_json_nonvacuous :
  unary_json 1555 1540 257 261 1540 (Some (261, [48])) = Some UWriteTrue /\
  unary_json 1555 1540 257 261 1555 (Some (257, [49; 46; 53])) = Some (UWriteNeg [49; 46; 53]) /\
  unary_json 1555 1540 257 261 1540 None = Some UErrNotJSON.
Proof. vm_compute. auto. Qed.
