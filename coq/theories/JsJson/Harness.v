(* JsJson/Harness.v — correspondence driver for UnaryExpr.JSON. *)
From Verif Require Import Common.Base Common.Codec JsJson.Model.

(* case: NegToken NotToken DecimalToken IntegerToken op isLit ty |data| data *)
Definition run_unaryjson (l : list Z) : list Z :=
  match l with
  | neg :: nt :: dec :: int :: op :: islit :: ty :: rest =>
      let '(data, _) := take_list rest in
      match unary_json neg nt dec int op (if islit =? 1 then Some (ty, data) else None) with
      | None => [-1]
      | Some (UWriteNeg d) => 1 :: d
      | Some UWriteTrue => [2]
      | Some UWriteFalse => [3]
      | Some UErrNotJSON => [4]
      end
  | _ => [-9]
  end.
