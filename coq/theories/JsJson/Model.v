(* JsJson/Model.v — UnaryExpr.JSON (/repo/js/ast.go) as far as it can panic: the type assertion on the
   operand and the indexing of the literal's data. Token numbers are passed in by the caller. *)
From Verif Require Import Common.Base.

(* operand: Some (token type, data) when X is a *LiteralExpr, None otherwise *)
Inductive ujson := UWriteNeg (data : list Z) | UWriteTrue | UWriteFalse | UErrNotJSON.

Section U.
Context (NegToken NotToken DecimalToken IntegerToken : Z).

(* None = Go panics (nil dereference or index out of range) *)
Definition unary_json (op : Z) (x : option (Z * list Z)) : option ujson :=
  match x with
  | Some (ty, data) =>
      if (op =? NegToken) && ((ty =? DecimalToken) || (ty =? IntegerToken)) then Some (UWriteNeg data)
      else if (op =? NotToken) && (ty =? IntegerToken) then
        c <- peekz data 0 ;;
        if (c =? 48) || (c =? 49) then
          (if c =? 48 then Some UWriteTrue else Some UWriteFalse)
        else Some UErrNotJSON
      else Some UErrNotJSON
  | None =>
      (* after the fix: `ok &&` guards every use of lit *)
      Some UErrNotJSON
  end.

(* the pre-fix code evaluated lit.TokenType with lit == nil whenever op = NotToken *)
Definition unary_json_legacy (op : Z) (x : option (Z * list Z)) : option ujson :=
  match x with
  | Some _ => unary_json op x
  | None => if op =? NotToken then None else Some UErrNotJSON
  end.
End U.
