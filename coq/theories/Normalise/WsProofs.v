(* Normalise/WsProofs.v — ReplaceMultipleWhitespace = the declarative collapse (ws_spec). *)
From Coq Require Import ZifyBool.
From Verif Require Import Common.Base Common.Tactics Gen.Tables Normalise.Model Normalise.Spec.

(* ---- the generated tables say what the documentation says ------------------------------------- *)
Lemma tbl_sweep (t : list bool) (p : Z -> bool) :
  length t = 256%nat -> p 0 = false ->
  forallb (fun c => Bool.eqb (tblz t c) (p c)) (zrange 0 255) = true ->
  (forall c, 256 <= c -> p c = false) -> (forall c, c < 0 -> p c = false) ->
  forall c, tblz t c = p c.
Proof.
  intros Hlen H0 Hs Hhi Hlo c.
  destruct (Z.lt_ge_cases c 0) as [Hn|Hn].
  - rewrite (Hlo c Hn). unfold tblz. replace (Z.to_nat c) with 0%nat by lia.
    pose proof (zrange_forall _ 0 255 Hs 0 ltac:(lia)) as E. apply Bool.eqb_prop in E.
    unfold tblz in E. cbn [Z.to_nat] in E. rewrite E. exact H0.
  - destruct (Z.lt_ge_cases c 256) as [Hb|Hb].
    + pose proof (zrange_forall _ 0 255 Hs c ltac:(lia)) as E. apply Bool.eqb_prop in E. exact E.
    + rewrite (Hhi c Hb). unfold tblz. apply nth_overflow. rewrite Hlen. lia.
Qed.

Lemma is_ws_ws5 c : is_ws c = ws5 c.
Proof.
  unfold is_ws. apply tbl_sweep; try reflexivity; intros x Hx; unfold ws5; lia.
Qed.
Lemma is_nl_nl2 c : is_nl c = nl2 c.
Proof.
  unfold is_nl. apply tbl_sweep; try reflexivity; intros x Hx; unfold nl2; lia.
Qed.

(* ---- list surgery -------------------------------------------------------------------------------- *)
Lemma skipz_app_len {A} (a x : list A) : skipz (len a) (a ++ x) = x.
Proof.
  unfold skipz, len. rewrite Nat2Z.id, skipn_app, skipn_all, Nat.sub_diag. reflexivity.
Qed.
Lemma firstz_app_len {A} (a x : list A) : firstz (len a) (a ++ x) = a.
Proof.
  unfold firstz, len. rewrite Nat2Z.id, firstn_app, firstn_all, Nat.sub_diag. cbn [firstn]. apply app_nil_r.
Qed.
Lemma skipz_add {A} (a x : list A) n : 0 <= n -> skipz (len a + n) (a ++ x) = skipz n x.
Proof.
  intros Hn. unfold skipz, len. rewrite Z2Nat.inj_add by lia. rewrite Nat2Z.id, skipn_app.
  rewrite skipn_all2 by lia. replace (length a + Z.to_nat n - length a)%nat with (Z.to_nat n) by lia. reflexivity.
Qed.
Lemma firstz_add {A} (a x : list A) n : 0 <= n -> firstz (len a + n) (a ++ x) = a ++ firstz n x.
Proof.
  intros Hn. unfold firstz, len. rewrite Z2Nat.inj_add by lia. rewrite Nat2Z.id, firstn_app.
  rewrite firstn_all2 by lia. replace (length a + Z.to_nat n - length a)%nat with (Z.to_nat n) by lia. reflexivity.
Qed.
Lemma skipz_app_le {A} (x y : list A) n : 0 <= n <= len x -> skipz n (x ++ y) = skipz n x ++ y.
Proof.
  intros Hn. unfold skipz, len in *. rewrite skipn_app.
  replace (Z.to_nat n - length x)%nat with 0%nat by lia. reflexivity.
Qed.
Lemma skipz_0 {A} (x : list A) : skipz 0 x = x.
Proof. reflexivity. Qed.
Lemma firstz_0 {A} (x : list A) : firstz 0 x = [].
Proof. reflexivity. Qed.
Lemma peekz_app_len a c x : peekz (a ++ c :: x) (len a) = Some c.
Proof.
  pose proof (len_nonneg a). rewrite peekz_app_r by lia. replace (len a - len a) with 0 by lia.
  unfold peekz. rewrite len_cons. pose proof (len_nonneg x).
  replace ((0 <=? 0) && (0 <? 1 + len x)) with true by lia. reflexivity.
Qed.
Lemma setz_app_len a c x v : setz (a ++ c :: x) (len a) v = a ++ v :: x.
Proof.
  pose proof (len_nonneg a). pose proof (len_nonneg x). unfold setz. rewrite len_app, len_cons.
  replace ((0 <=? len a) && (len a <? len a + (1 + len x))) with true by lia.
  rewrite firstz_app_len. replace (len a + 1) with (len a + 1) by lia.
  rewrite skipz_add by lia. reflexivity.
Qed.

Lemma copy_within_gen a m x rest :
  copy_within (a ++ m ++ x ++ rest) (len a) (len a + len m) (len a + len m + len x)
  = Ok (a ++ x ++ skipz (len x) (m ++ x) ++ rest, len x).
Proof.
  pose proof (len_nonneg a). pose proof (len_nonneg m). pose proof (len_nonneg x). pose proof (len_nonneg rest).
  unfold copy_within, slice_ok. rewrite !len_app.
  match goal with |- (if ?c then _ else _) = _ => replace c with true by lia end.
  replace (Z.min (len a + (len m + (len x + len rest)) - len a) (len a + len m + len x - (len a + len m)))
    with (len x) by lia.
  f_equal. f_equal.
  - rewrite firstz_app_len.
    unfold slice. replace (len a + len m + len x - (len a + len m)) with (len x) by lia.
    rewrite skipz_add by lia. replace (len m) with (len m + 0) at 1 by lia. rewrite skipz_add by lia.
    rewrite skipz_0, firstz_app_len.
    rewrite skipz_add by lia. rewrite (app_assoc m x rest). rewrite skipz_app_le by (rewrite len_app; lia).
    reflexivity.
Qed.

(* ---- facts about collapse ------------------------------------------------------------------------ *)
Fixpoint last_ws (p : bool) (l : list Z) : bool :=
  match l with [] => p | c :: t => last_ws (ws5 c) t end.

Lemma last_ws_app p a b : last_ws p (a ++ b) = last_ws (last_ws p a) b.
Proof. revert p. induction a as [|c a IH]; intros p; cbn [app last_ws]; [reflexivity|apply IH]. Qed.

Lemma run_has_nl_app t suf : last_ws true t = false -> run_has_nl (t ++ suf) = run_has_nl t.
Proof.
  induction t as [|d t IH]; cbn [last_ws app run_has_nl]; [discriminate|].
  destruct (ws5 d) eqn:E; [|reflexivity]. intros H. rewrite IH by exact H. reflexivity.
Qed.

Lemma collapse_from_app pre : forall p suf, last_ws p pre = false ->
  collapse_from p (pre ++ suf) = collapse_from p pre ++ collapse_from false suf.
Proof.
  induction pre as [|c t IH]; intros p suf H; cbn [last_ws] in H.
  - subst p. reflexivity.
  - cbn [app collapse_from]. destruct (ws5 c) eqn:E.
    + destruct p.
      * apply IH. exact H.
      * rewrite IH by exact H. cbn [run_has_nl]. rewrite E. rewrite run_has_nl_app by exact H. reflexivity.
    + rewrite IH by exact H. reflexivity.
Qed.

Lemma collapse_from_true_run run : forallb ws5 run = true -> collapse_from true run = [].
Proof.
  induction run as [|c t IH]; [reflexivity|]. cbn [forallb collapse_from]. intros H.
  apply andb_true_iff in H. destruct H as [H1 H2]. rewrite H1. exact (IH H2).
Qed.
Lemma run_has_nl_run run : forallb ws5 run = true -> run_has_nl run = existsb nl2 run.
Proof.
  induction run as [|c t IH]; [reflexivity|]. cbn [forallb run_has_nl existsb]. intros H.
  apply andb_true_iff in H. destruct H as [H1 H2]. rewrite H1, (IH H2). reflexivity.
Qed.

Lemma collapse_run run : run <> [] -> forallb ws5 run = true -> collapse_from false run = [run_mark run].
Proof.
  destruct run as [|c t]; [congruence|]. intros _ H. cbn [collapse_from].
  pose proof H as H'. cbn [forallb] in H'. apply andb_true_iff in H'. destruct H' as [H1 H2].
  rewrite H1. rewrite run_has_nl_run by exact H. rewrite collapse_from_true_run by exact H2. reflexivity.
Qed.

Lemma last_ws_run p run : forallb ws5 run = true -> run <> [] -> last_ws p run = true.
Proof.
  revert p. induction run as [|c t IH]; intros p H Hn; [congruence|].
  cbn [forallb] in H. apply andb_true_iff in H. destruct H as [H1 H2]. cbn [last_ws]. rewrite H1.
  destruct t as [|d t']; [reflexivity|]. apply IH; [exact H2|discriminate].
Qed.

(* a run followed by one text byte *)
Lemma collapse_run_text run d : run <> [] -> forallb ws5 run = true -> ws5 d = false ->
  collapse_from false (run ++ [d]) = [run_mark run; d].
Proof.
  intros Hn H Hd. destruct run as [|c t]; [congruence|]. cbn [app collapse_from].
  pose proof H as H'. cbn [forallb] in H'. apply andb_true_iff in H'. destruct H' as [H1 H2]. rewrite H1.
  change (c :: t ++ [d]) with ((c :: t) ++ [d]).
  assert (R : run_has_nl ((c :: t) ++ [d]) = existsb nl2 (c :: t)).
  { clear Hn H1 H2. induction (c :: t) as [|x l IHl]; cbn [app run_has_nl existsb forallb] in *.
    - rewrite Hd. reflexivity.
    - apply andb_true_iff in H. destruct H as [Hx Hl]. rewrite Hx, (IHl Hl). reflexivity. }
  rewrite R. unfold run_mark. f_equal.
  clear R H1 H Hn. induction t as [|x l IHl]; cbn [app collapse_from forallb] in *.
  - rewrite Hd. reflexivity.
  - apply andb_true_iff in H2. destruct H2 as [Hx Hl]. rewrite Hx. exact (IHl Hl).
Qed.

(* ---- the inner scan -------------------------------------------------------------------------------- *)
Lemma ws_run_cons c t nl : ws_run (c :: t) nl =
  if is_ws c then let '(n, f) := ws_run t (nl || is_nl c) in (1 + n, f) else (0, nl).
Proof. reflexivity. Qed.

Lemma ws_run_split l : forall nl, exists r t',
  l = r ++ t' /\ forallb ws5 r = true /\ (match t' with [] => True | d :: _ => ws5 d = false end) /\
  ws_run l nl = (len r, nl || existsb nl2 r).
Proof.
  induction l as [|c t IH]; intros nl.
  - exists [], []. cbn. rewrite orb_false_r. repeat split.
  - rewrite ws_run_cons, is_ws_ws5, is_nl_nl2. destruct (ws5 c) eqn:E.
    + destruct (IH (nl || nl2 c)) as (r & t' & -> & Hr & Ht & ->).
      exists (c :: r), t'. cbn [app forallb existsb]. rewrite E, Hr, len_cons, orb_assoc. repeat split. exact Ht.
    + exists [], (c :: t). cbn. rewrite orb_false_r. repeat split. exact E.
Qed.

Lemma starts_text_dec (t' : list Z) : (match t' with [] => True | d :: _ => ws5 d = false end) ->
  t' = [] \/ exists d t'', t' = d :: t'' /\ ws5 d = false.
Proof. destruct t' as [|d t'']; [left; reflexivity|right; eauto]. Qed.

Lemma ws_run_app r : forall t' nl, forallb ws5 r = true ->
  (match t' with [] => True | d :: _ => ws5 d = false end) ->
  ws_run (r ++ t') nl = (len r, nl || existsb nl2 r).
Proof.
  induction r as [|c r IH]; intros t' nl Hr Ht.
  - cbn [app existsb]. rewrite orb_false_r. destruct t' as [|d t'']; [reflexivity|].
    rewrite ws_run_cons, is_ws_ws5, Ht. reflexivity.
  - cbn [forallb] in Hr. apply andb_true_iff in Hr. destruct Hr as [H1 H2].
    cbn [app]. rewrite ws_run_cons, is_ws_ws5, is_nl_nl2, H1. rewrite (IH t' _ H2 Ht).
    cbn [existsb]. rewrite len_cons, orb_assoc. reflexivity.
Qed.

Lemma run_has_nl_snoc_text x d : ws5 d = false -> run_has_nl (x ++ [d]) = run_has_nl x.
Proof.
  intros Hd. induction x as [|c t IH]; cbn [app run_has_nl]; [rewrite Hd; reflexivity|].
  destruct (ws5 c); [rewrite IH; reflexivity|reflexivity].
Qed.
Lemma collapse_from_snoc_text x d : ws5 d = false -> forall p, collapse_from p (x ++ [d]) = collapse_from p x ++ [d].
Proof.
  intros Hd. induction x as [|c t IH]; intros p; cbn [app collapse_from].
  - rewrite Hd. reflexivity.
  - destruct (ws5 c) eqn:E.
    + destruct p; [apply IH|]. rewrite IH. change (c :: t ++ [d]) with ((c :: t) ++ [d]).
      rewrite run_has_nl_snoc_text by exact Hd. reflexivity.
    + rewrite IH. reflexivity.
Qed.

(* ---- the loop invariant ------------------------------------------------------------------------------ *)
(* b holds the first (len whole) bytes of the buffer after the writes so far: either nothing was compacted
   yet (j = 0) and b is the collapse, or b = A ++ M ++ C with A = b[:j], C = b[k:] and A ++ C the collapse *)
Definition VInv (D b : list Z) (j k : Z) : Prop :=
  (j = 0 /\ k = 0 /\ b = D) \/
  (exists A M C, b = A ++ M ++ C /\ len A = j /\ j + len M = k /\ 1 <= j /\ 1 <= len M /\ A ++ C = D).
Definition Inv0 (whole b : list Z) (j k : Z) : Prop := len b = len whole /\ VInv (collapse whole) b j k.

(* appending bytes that are neither compacted nor marked *)
Lemma vinv_app D b j k X : VInv D b j k -> VInv (D ++ X) (b ++ X) j k.
Proof.
  intros [(-> & -> & ->)|(A & M & C & -> & HA & HM & Hj & Hm & Hc)].
  - left. repeat split.
  - right. exists A, M, (C ++ X). rewrite <- Hc. rewrite <- !app_assoc. repeat split; assumption.
Qed.

Lemma inv_step_text pre bpre j k d : Inv0 pre bpre j k -> ws5 d = false -> Inv0 (pre ++ [d]) (bpre ++ [d]) j k.
Proof.
  intros [Hl H] Hd. split; [rewrite !len_app; lia|].
  unfold collapse. rewrite collapse_from_snoc_text by exact Hd. fold (collapse pre). apply vinv_app. exact H.
Qed.

Lemma ws_body_text bpre c t j k : ws5 c = false ->
  ws_body (bpre ++ c :: t) (len bpre) j k = Ok (bpre ++ c :: t, len bpre, j, k).
Proof.
  intros H. unfold ws_body, rd. rewrite peekz_app_len. cbn [rbind]. rewrite is_ws_ws5, H. reflexivity.
Qed.

Lemma ws_body_run bpre c r t' j k : ws5 c = true -> forallb ws5 r = true ->
  (match t' with [] => True | d :: _ => ws5 d = false end) ->
  ws_body (bpre ++ c :: r ++ t') (len bpre) j k =
    let b1 := bpre ++ run_mark (c :: r) :: r ++ t' in
    let i1 := len bpre + 1 + len r in
    if 1 <? 1 + len r then
      if j =? 0 then Ok (b1, i1, len bpre + 1, i1)
      else ' (b2, m) <-- copy_within b1 j k (len bpre + 1) ;; Ok (b2, i1, j + m, i1)
    else Ok (b1, i1, j, k).
Proof.
  intros Hc Hr Ht. unfold ws_body, rd. rewrite peekz_app_len. cbn [rbind]. rewrite is_ws_ws5, Hc.
  rewrite skipz_add by lia. change (skipz 1 (c :: r ++ t')) with (r ++ t').
  rewrite (ws_run_app r t' _ Hr Ht). rewrite is_nl_nl2.
  unfold wr. pose proof (len_nonneg bpre). pose proof (len_nonneg r). pose proof (len_nonneg t').
  rewrite len_app, len_cons, len_app.
  replace ((0 <=? len bpre) && (len bpre <? len bpre + (1 + (len r + len t')))) with true by lia.
  cbn [rbind]. rewrite setz_app_len.
  replace (len bpre + 1 + len r - len bpre) with (1 + len r) by lia.
  unfold run_mark. cbn [existsb]. reflexivity.
Qed.

Lemma collapse_closed_run pre run : last_ws false pre = false -> run <> [] -> forallb ws5 run = true ->
  collapse (pre ++ run) = collapse pre ++ [run_mark run].
Proof.
  intros Hp Hn Hr. unfold collapse. rewrite collapse_from_app by exact Hp. rewrite (collapse_run run) by assumption. reflexivity.
Qed.

Lemma vinv_step_run D bpre j k c r t' :
  VInv D bpre j k ->
  ws5 c = true -> forallb ws5 r = true -> (match t' with [] => True | d :: _ => ws5 d = false end) ->
  exists bpre1 i1 j' k',
    ws_body (bpre ++ c :: r ++ t') (len bpre) j k = Ok (bpre1 ++ t', i1, j', k') /\
    i1 = len bpre1 /\ len bpre1 = len bpre + 1 + len r /\ VInv (D ++ [run_mark (c :: r)]) bpre1 j' k' /\
    (exists x s, bpre1 = x ++ [s] /\ ws5 s = true).
Proof.
  intros H Hc Hr Ht.
  assert (Hmk : ws5 (run_mark (c :: r)) = true) by (unfold run_mark; destruct (existsb nl2 (c :: r)); reflexivity).
  set (mk := run_mark (c :: r)) in *.
  rewrite (ws_body_run bpre c r t' j k Hc Hr Ht). cbv zeta. fold mk.
  pose proof (len_nonneg bpre) as Hb0. pose proof (len_nonneg r) as Hr0.
  destruct r as [|r1 r'].
  - change (len (@nil Z)) with 0. replace (1 <? 1 + 0) with false by lia.
    exists (bpre ++ [mk]), (len bpre + 1 + 0), j, k. split; [rewrite <- app_assoc; reflexivity|].
    split; [rewrite len_app; change (len [mk]) with 1; lia|].
    split; [rewrite len_app; change (len [mk]) with 1; lia|].
    split; [apply vinv_app; exact H|]. exists bpre, mk. split; [reflexivity|exact Hmk].
  - set (r := r1 :: r') in *. assert (Hr1 : 1 <= len r) by (unfold r; rewrite len_cons; pose proof (len_nonneg r'); lia).
    replace (1 <? 1 + len r) with true by lia.
    assert (Hlast : exists r0 s, r = r0 ++ [s] /\ ws5 s = true).
    { destruct (exists_last (l := r)) as (r0 & s & E); [discriminate|]. exists r0, s. split; [exact E|].
      rewrite E in Hr. rewrite forallb_app in Hr. apply andb_true_iff in Hr. destruct Hr as [_ Hs].
      cbn [forallb] in Hs. rewrite andb_true_r in Hs. exact Hs. }
    destruct Hlast as (r0 & s0 & Er & Hs0).
    destruct H as [(-> & -> & Hb)|(A & M & C & Hb & HA & HM & Hj & Hm & Hcc)].
    + replace (0 =? 0) with true by reflexivity.
      exists (bpre ++ mk :: r), (len bpre + 1 + len r), (len bpre + 1), (len bpre + 1 + len r).
      split; [rewrite <- app_assoc; reflexivity|].
      split; [rewrite len_app, len_cons; lia|].
      split; [rewrite len_app, len_cons; lia|].
      split.
      * right. exists (bpre ++ [mk]), r, []. rewrite !app_nil_r, <- Hb, <- app_assoc.
        repeat split; try reflexivity; try lia. rewrite len_app. change (len [mk]) with 1. lia.
      * exists (bpre ++ mk :: r0), s0. split; [rewrite Er, <- app_assoc; reflexivity|exact Hs0].
    + replace (j =? 0) with false by lia.
      assert (E : bpre ++ mk :: r ++ t' = A ++ M ++ (C ++ [mk]) ++ (r ++ t'))
        by (rewrite Hb, <- !app_assoc; reflexivity).
      rewrite E. clear E.
      assert (Hhi : len bpre + 1 = len A + len M + len (C ++ [mk]))
        by (rewrite Hb, !len_app; change (len [mk]) with 1; lia).
      rewrite Hhi. rewrite <- HM, <- HA. rewrite copy_within_gen. cbn [rbind].
      set (G := skipz (len (C ++ [mk])) (M ++ C ++ [mk])).
      assert (HG : len G = len M).
      { unfold G. rewrite len_skipz; rewrite !len_app; change (len [mk]) with 1;
          pose proof (len_nonneg C); pose proof (len_nonneg M); lia. }
      exists (A ++ (C ++ [mk]) ++ G ++ r), (len A + len M + len (C ++ [mk]) + len r), (len A + len (C ++ [mk])), (len A + len M + len (C ++ [mk]) + len r).
      split; [rewrite <- !app_assoc; reflexivity|].
      split; [rewrite !len_app; change (len [mk]) with 1; lia|].
      split; [rewrite !len_app; change (len [mk]) with 1; lia|].
      split.
      * right. exists (A ++ C ++ [mk]), (G ++ r), []. rewrite !app_nil_r, <- Hcc, <- !app_assoc.
        repeat split; try reflexivity; rewrite !len_app; change (len [mk]) with 1; pose proof (len_nonneg C); lia.
      * exists (A ++ (C ++ [mk]) ++ G ++ r0), s0. split; [rewrite Er, <- !app_assoc; reflexivity|exact Hs0].
Qed.

Lemma inv_step_run pre bpre j k c r t' :
  Inv0 pre bpre j k -> last_ws false pre = false ->
  ws5 c = true -> forallb ws5 r = true -> (match t' with [] => True | d :: _ => ws5 d = false end) ->
  exists bpre1 i1 j' k',
    ws_body (bpre ++ c :: r ++ t') (len bpre) j k = Ok (bpre1 ++ t', i1, j', k') /\
    i1 = len bpre1 /\ Inv0 (pre ++ c :: r) bpre1 j' k'.
Proof.
  intros [Hl H] Hp Hc Hr Ht.
  assert (Hrun : forallb ws5 (c :: r) = true) by (cbn [forallb]; rewrite Hc, Hr; reflexivity).
  pose proof (collapse_closed_run pre (c :: r) Hp ltac:(discriminate) Hrun) as Hcol.
  destruct (vinv_step_run _ bpre j k c r t' H Hc Hr Ht) as (bpre1 & i1 & j' & k' & E & Hi & Hlen & HV & _).
  exists bpre1, i1, j', k'. split; [exact E|]. split; [exact Hi|]. split.
  - rewrite len_app, len_cons. lia.
  - rewrite Hcol. exact HV.
Qed.

Lemma ws_loop_done f b i j k : len b <= i -> ws_loop f b i j k = Ok (b, j, k).
Proof. intros H. destruct f; cbn [ws_loop]; replace (len b <=? i) with true by lia; reflexivity. Qed.

Lemma ws_loop_correct : forall fuel suf pre bpre j k,
  (length suf < fuel)%nat -> last_ws false pre = false -> Inv0 pre bpre j k ->
  exists b' j' k', ws_loop fuel (bpre ++ suf) (len bpre) j k = Ok (b', j', k') /\ Inv0 (pre ++ suf) b' j' k'.
Proof.
  induction fuel as [|f IH]; intros suf pre bpre j k Hf Hp HI; [lia|].
  destruct suf as [|c t].
  - rewrite !app_nil_r. rewrite ws_loop_done by lia. eauto.
  - cbn [ws_loop]. pose proof (len_nonneg t) as Ht0.
    replace (len (bpre ++ c :: t) <=? len bpre) with false by (rewrite len_app, len_cons; lia).
    cbn [length] in Hf.
    destruct (ws5 c) eqn:Ec.
    + destruct (ws_run_split t false) as (r & t' & -> & Hr & Ht & _).
      destruct (inv_step_run pre bpre j k c r t' HI Hp Ec Hr Ht) as (bpre1 & i1 & j' & k' & -> & -> & HI1).
      cbn [rbind]. rewrite app_length in Hf.
      destruct (starts_text_dec t' Ht) as [->|(d & t'' & -> & Hd)].
      * rewrite !app_nil_r. rewrite ws_loop_done by lia.
        exists bpre1, j', k'. split; [reflexivity|]. exact HI1.
      * pose proof (inv_step_text _ _ _ _ d HI1 Hd) as HI2.
        replace (bpre1 ++ d :: t'') with ((bpre1 ++ [d]) ++ t'') by (rewrite <- app_assoc; reflexivity).
        replace (len bpre1 + 1) with (len (bpre1 ++ [d])) by (rewrite len_app; reflexivity).
        cbn [length] in Hf.
        destruct (IH t'' ((pre ++ c :: r) ++ [d]) (bpre1 ++ [d]) j' k' ltac:(lia)) as (b' & j2 & k2 & E & HI3);
          [rewrite last_ws_app; cbn [last_ws]; exact Hd|exact HI2|].
        exists b', j2, k2. split; [exact E|].
        replace (pre ++ c :: r ++ d :: t'') with (((pre ++ c :: r) ++ [d]) ++ t'')
          by (rewrite <- !app_assoc; reflexivity).
        exact HI3.
    + rewrite ws_body_text by exact Ec. cbn [rbind].
      pose proof (inv_step_text _ _ _ _ c HI Ec) as HI2.
      replace (bpre ++ c :: t) with ((bpre ++ [c]) ++ t) by (rewrite <- app_assoc; reflexivity).
      replace (len bpre + 1) with (len (bpre ++ [c])) by (rewrite len_app; reflexivity).
      destruct (IH t (pre ++ [c]) (bpre ++ [c]) j k ltac:(lia)) as (b' & j2 & k2 & E & HI3);
        [rewrite last_ws_app; cbn [last_ws]; exact Ec|exact HI2|].
      exists b', j2, k2. split; [exact E|].
      replace (pre ++ c :: t) with ((pre ++ [c]) ++ t) by (rewrite <- app_assoc; reflexivity).
      exact HI3.
Qed.

Lemma len_1_inv {A} (l : list A) : len l = 1 -> exists a, l = [a].
Proof.
  destruct l as [|a [|b t]]; unfold len; cbn [length]; intros H; try lia. eauto.
Qed.

Lemma ws_finish_v D b j k : VInv D b j k -> ws_finish b j k = Ok D.
Proof.
  intros [(-> & -> & ->)|(A & M & C & -> & HA & HM & Hj & Hm & Hc)]; unfold ws_finish.
  - reflexivity.
  - replace (j =? 0) with false by lia. rewrite <- Hc.
    pose proof (len_nonneg A). pose proof (len_nonneg M). pose proof (len_nonneg C).
    destruct (j =? 1) eqn:E1.
    + assert (HA1 : len A = 1) by lia. destruct (len_1_inv A HA1) as [a ->].
      destruct (exists_last (l := M)) as (M0 & m & ->).
      { intros ->. change (len (@nil Z)) with 0 in Hm. lia. }
      unfold rd. change (peekz ([a] ++ (M0 ++ [m]) ++ C) 0) with (Some a). cbn [rbind].
      replace ([a] ++ (M0 ++ [m]) ++ C) with (([a] ++ M0) ++ m :: C) by (rewrite <- !app_assoc; reflexivity).
      assert (Hk : k - 1 = len ([a] ++ M0)) by (rewrite !len_app in *; change (len [m]) with 1 in *; lia).
      rewrite Hk. set (P := [a] ++ M0). pose proof (len_nonneg P).
      unfold wr. rewrite (len_app P), len_cons.
      replace ((0 <=? len P) && (len P <? len P + (1 + len C))) with true by lia.
      cbn [rbind]. rewrite setz_app_len. unfold slice_ok. rewrite (len_app P), len_cons.
      replace ((0 <=? len P) && (len P <=? len P + (1 + len C)) &&
               (len P + (1 + len C) <=? len P + (1 + len C))) with true by lia.
      rewrite skipz_app_len. reflexivity.
    + rewrite !len_app. destruct (k <? len A + (len M + len C)) eqn:Ek.
      * replace (A ++ M ++ C) with (A ++ M ++ C ++ []) by (rewrite app_nil_r; reflexivity).
        replace (len A + (len M + len C)) with (len A + len M + len C) by lia.
        rewrite <- HM, <- HA. rewrite copy_within_gen. cbn [rbind].
        unfold slice_ok. rewrite !len_app, len_skipz by (rewrite len_app; lia). rewrite len_app.
        change (len (@nil Z)) with 0.
        replace ((0 <=? 0) && (0 <=? len A + len C) && (len A + len C <=? len A + (len C + (len M + len C - len C + 0))))
          with true by lia.
        replace (len A + len C) with (len (A ++ C)) by (rewrite len_app; reflexivity).
        rewrite app_assoc. rewrite firstz_app_len. reflexivity.
      * assert (HC : C = []) by (destruct C as [|x C']; [reflexivity|rewrite len_cons in *; pose proof (len_nonneg C'); lia]).
        subst C. rewrite !app_nil_r. unfold slice_ok. change (len (@nil Z)) with 0.
        replace ((0 <=? 0) && (0 <=? j) && (j <=? len A + (len M + 0))) with true by lia.
        rewrite <- HA. rewrite firstz_app_len. reflexivity.
Qed.

Lemma ws_finish_correct whole b j k : Inv0 whole b j k -> ws_finish b j k = Ok (collapse whole).
Proof. intros [_ H]. apply ws_finish_v. exact H. Qed.

Lemma ws_spec_fun b : replace_multiple_ws b = Ok (collapse b).
Proof.
  unfold replace_multiple_ws.
  destruct (ws_loop_correct (S (length b)) b [] [] 0 0) as (b' & j' & k' & E & HI).
  - lia.
  - reflexivity.
  - split; [reflexivity|]. left. repeat split.
  - cbn [app] in E. change (len (@nil Z)) with 0 in E. rewrite E. cbn [rbind].
    apply ws_finish_correct. exact HI.
Qed.

(* ---- collapse is the unique solution of the declarative relation ------------------------------------ *)
Lemma run_has_nl_run_text run l : forallb ws5 run = true ->
  (match l with [] => True | d :: _ => ws5 d = false end) -> run_has_nl (run ++ l) = existsb nl2 run.
Proof.
  intros Hr Hl. induction run as [|c t IH]; cbn [app run_has_nl existsb].
  - destruct l as [|d l']; [reflexivity|]. cbn [run_has_nl]. rewrite Hl. reflexivity.
  - cbn [forallb] in Hr. apply andb_true_iff in Hr. destruct Hr as [H1 H2]. rewrite H1, (IH H2). reflexivity.
Qed.
Lemma collapse_from_true_run_app run l : forallb ws5 run = true -> collapse_from true (run ++ l) = collapse_from true l.
Proof.
  intros Hr. induction run as [|c t IH]; [reflexivity|]. cbn [app collapse_from].
  cbn [forallb] in Hr. apply andb_true_iff in Hr. destruct Hr as [H1 H2]. rewrite H1. exact (IH H2).
Qed.
Lemma collapse_run_app run l : run <> [] -> forallb ws5 run = true ->
  (match l with [] => True | d :: _ => ws5 d = false end) ->
  collapse_from false (run ++ l) = run_mark run :: collapse_from true l.
Proof.
  intros Hn Hr Hl. destruct run as [|c t]; [congruence|].
  pose proof Hr as Hr'. cbn [forallb] in Hr'. apply andb_true_iff in Hr'. destruct Hr' as [H1 H2].
  cbn [app collapse_from]. rewrite H1. change (c :: t ++ l) with ((c :: t) ++ l).
  rewrite run_has_nl_run_text by assumption. rewrite collapse_from_true_run_app by exact H2. reflexivity.
Qed.

Lemma Collapse_true_starts l o : Collapse true l o -> match l with [] => True | d :: _ => ws5 d = false end.
Proof. intros H. inversion H; subst; [exact I|assumption]. Qed.

Lemma Collapse_unique p l o : Collapse p l o -> o = collapse_from p l.
Proof.
  induction 1 as [p|p c l o Hc _ IH|run l o Hn Hr Hl IH].
  - reflexivity.
  - cbn [collapse_from]. rewrite Hc, IH. reflexivity.
  - rewrite collapse_run_app; [rewrite IH; reflexivity|assumption|assumption|].
    exact (Collapse_true_starts _ _ Hl).
Qed.

Lemma Collapse_exists : forall n l p, (length l <= n)%nat ->
  (p = true -> match l with [] => True | d :: _ => ws5 d = false end) -> Collapse p l (collapse_from p l).
Proof.
  induction n as [|n IH]; intros l p Hn Hp.
  - destruct l; [constructor|cbn [length] in Hn; lia].
  - destruct l as [|c t]; [constructor|]. cbn [length] in Hn.
    destruct (ws5 c) eqn:E.
    + destruct p; [specialize (Hp eq_refl); cbn in Hp; congruence|].
      destruct (ws_run_split t false) as (r & t' & -> & Hr & Ht & _).
      change (c :: r ++ t') with ((c :: r) ++ t').
      assert (Hrun : forallb ws5 (c :: r) = true) by (cbn [forallb]; rewrite E, Hr; reflexivity).
      rewrite collapse_run_app; [|discriminate|exact Hrun|exact Ht].
      apply CRun; [discriminate|exact Hrun|]. apply IH; [rewrite app_length in Hn; lia|intros _; exact Ht].
    + cbn [collapse_from]. rewrite E. apply CText; [exact E|]. apply IH; [lia|discriminate].
Qed.

Lemma ws_spec_proof : forall b,
  replace_multiple_ws b = Ok (collapse b) /\ Collapse false b (collapse b) /\
  (forall o, Collapse false b o -> o = collapse b).
Proof.
  intros b. split; [apply ws_spec_fun|]. split.
  - apply (Collapse_exists (length b)); [lia|discriminate].
  - intros o H. exact (Collapse_unique _ _ _ H).
Qed.

Example ws_spec_example :
  (* `  a<TAB><LF>b c  ` -> ` a<LF>b c ` *)
  replace_multiple_ws [32; 32; 97; 9; 10; 98; 32; 99; 32; 32] = Ok [32; 97; 10; 98; 32; 99; 32] /\
  collapse [32; 32; 97; 9; 10; 98; 32; 99; 32; 32] = [32; 97; 10; 98; 32; 99; 32].
Proof. vm_compute. split; reflexivity. Qed.
