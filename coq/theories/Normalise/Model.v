(* Normalise/Model.v — executable model of the whitespace / entity / attribute normalisers (C17):
   /repo/common.go   ReplaceMultipleWhitespace, replaceEntities, ReplaceEntities,
                     ReplaceMultipleWhitespaceAndEntities
   /repo/html/util.go EscapeAttrVal        /repo/xml/util.go EscapeAttrVal, EscapeCDATAVal
   and the "in tag" part of /repo/html/lex.go and /repo/xml/lex.go (Next + shiftAttribute without
   template delimiters) that reads one attribute back.
   Definitions only.  A Go panic is [Panic]; a loop that runs out of fuel is [Fuel] (the theorems
   exclude both).  Slices are modelled with cap = len (the harness passes b[:n:n]). *)
From Verif Require Import Common.Base Gen.Tables.

Inductive result (A : Type) : Type := Ok (a : A) | Panic | Fuel.
Arguments Ok {A} a.
Arguments Panic {A}.
Arguments Fuel {A}.

Definition rbind {A B} (r : result A) (f : A -> result B) : result B :=
  match r with Ok a => f a | Panic => Panic | Fuel => Fuel end.
Notation "x <-- e ;; k" := (rbind e (fun x => k)) (at level 61, e at next level, right associativity).
Notation "' p <-- e ;; k" := (rbind e (fun p => k)) (at level 61, p pattern, e at next level, right associativity).

(* table[c] for a byte c *)
Definition tblz (t : list bool) (c : Z) : bool := nth (Z.to_nat c) t false.
Definition is_ws (c : Z) : bool := tblz whitespace_table c.     (* IsWhitespace *)
Definition is_nl (c : Z) : bool := tblz newline_table c.        (* IsNewline *)

(* ---- checked slice primitives (cap = len) ------------------------------------------------- *)
Definition rd (b : list Z) (i : Z) : result Z :=
  match peekz b i with Some c => Ok c | None => Panic end.
Definition wr (b : list Z) (i v : Z) : result (list Z) :=
  if (0 <=? i) && (i <? len b) then Ok (setz b i v) else Panic.
(* copy(b[d:], b[lo:hi]) inside one buffer (memmove semantics); returns the buffer and the count *)
Definition copy_within (b : list Z) (d lo hi : Z) : result (list Z * Z) :=
  if slice_ok lo hi (len b) && slice_ok d (len b) (len b) then
    let n := Z.min (len b - d) (hi - lo) in
    Ok (firstz d b ++ slice b lo (lo + n) ++ skipz (d + n) b, n)
  else Panic.
(* copy(b[d:], r) from another slice *)
Definition copy_in (b : list Z) (d : Z) (r : list Z) : result (list Z * Z) :=
  if slice_ok d (len b) (len b) then
    let n := Z.min (len b - d) (len r) in
    Ok (firstz d b ++ firstz n r ++ skipz (d + n) b, n)
  else Panic.

(* ---- ReplaceMultipleWhitespace ---------------------------------------------------------------- *)
(* the inner "for ; i < len(b) && IsWhitespace(b[i]); i++" loop on the suffix: bytes moved, newline *)
Fixpoint ws_run (l : list Z) (nl : bool) : Z * bool :=
  match l with
  | c :: t => if is_ws c then let '(n, f) := ws_run t (nl || is_nl c) in (1 + n, f) else (0, nl)
  | [] => (0, nl)
  end.

(* the whitespace part of the loop body at index i: (b, i, j, k) before the loop's i++ *)
Definition ws_body (b : list Z) (i j k : Z) : result (list Z * Z * Z * Z) :=
  c <-- rd b i ;;
  if is_ws c then
    let start := i in
    let '(n, newline) := ws_run (skipz (i + 1) b) (is_nl c) in
    let i1 := i + 1 + n in
    b1 <-- wr b start (if newline then 10 else 32) ;;
    if 1 <? i1 - start then
      if j =? 0 then Ok (b1, i1, start + 1, i1)
      else ' (b2, m) <-- copy_within b1 j k (start + 1) ;; Ok (b2, i1, j + m, i1)
    else Ok (b1, i1, j, k)
  else Ok (b, i, j, k).

Fixpoint ws_loop (fuel : nat) (b : list Z) (i j k : Z) : result (list Z * Z * Z) :=
  if len b <=? i then Ok (b, j, k) else
  match fuel with
  | O => Fuel
  | S f => ' (b1, i1, j1, k1) <-- ws_body b i j k ;; ws_loop f b1 (i1 + 1) j1 k1
  end.

(* the three exit cases *)
Definition ws_finish (b : list Z) (j k : Z) : result (list Z) :=
  if j =? 0 then Ok b
  else if j =? 1 then
    c <-- rd b 0 ;; b1 <-- wr b (k - 1) c ;;
    if slice_ok (k - 1) (len b1) (len b1) then Ok (skipz (k - 1) b1) else Panic
  else if k <? len b then
    ' (b1, m) <-- copy_within b j k (len b) ;;
    if slice_ok 0 (j + m) (len b1) then Ok (firstz (j + m) b1) else Panic
  else if slice_ok 0 j (len b) then Ok (firstz j b) else Panic.

Definition replace_multiple_ws (b : list Z) : result (list Z) :=
  ' (b1, j, k) <-- ws_loop (S (length b)) b 0 0 0 ;; ws_finish b1 j k.

(* ---- replaceEntities --------------------------------------------------------------------------- *)
Definition is_digit (c : Z) : bool := (48 <=? c) && (c <=? 57).
Definition is_hex (c : Z) : bool :=
  is_digit c || ((97 <=? c) && (c <=? 102)) || ((65 <=? c) && (c <=? 70)).
Definition is_alnum (c : Z) : bool :=
  is_digit c || ((97 <=? c) && (c <=? 122)) || ((65 <=? c) && (c <=? 90)).
Definition hex_val (c : Z) : Z := if c <=? 57 then c - 48 else if c <=? 70 then c - 65 + 10 else c - 97 + 10.
Definition byte_of (c : Z) : Z := c mod 256.

(* digits consumed, value; like the decimal loop it stops once the accumulator has left the range of interest
   (c < 0x10000), so the accumulator stays below 2^20 and a Go int never wraps *)
Fixpoint scan_hex (l : list Z) (acc : Z) : Z * Z :=
  match l with
  | c :: t => if (acc <? 65536) && is_hex c then let '(n, v) := scan_hex t (acc * 16 + hex_val c) in (1 + n, v)
              else (0, acc)
  | [] => (0, acc)
  end.
Fixpoint scan_dec (l : list Z) (acc : Z) : Z * Z :=      (* stops once acc >= 128 *)
  match l with
  | c :: t => if (acc <? 128) && is_digit c then let '(n, v) := scan_dec t (acc * 10 + (c - 48)) in (1 + n, v)
              else (0, acc)
  | [] => (0, acc)
  end.
(* name loop: cnt = j-i-1; stops at ';', at a non-alphanumeric byte, or after MaxEntityLength+1 bytes *)
Fixpoint scan_name (l : list Z) (cnt : Z) : Z :=
  match l with
  | c :: t => if (cnt <=? 31) && negb (c =? 59) && is_alnum c then 1 + scan_name t (cnt + 1) else 0
  | [] => 0
  end.

(* strconv.AppendInt(_, c, 10) for c >= 0 *)
Fixpoint dec_digits_fuel (fuel : nat) (c : Z) (acc : list Z) : list Z :=
  match fuel with
  | O => acc
  | S f => let acc' := (48 + c mod 10) :: acc in if c <? 10 then acc' else dec_digits_fuel f (c / 10) acc'
  end.
Definition dec_digits (c : Z) : list Z := dec_digits_fuel 20 c [].

Fixpoint list_eqb (a b : list Z) : bool :=
  match a, b with
  | [], [] => true
  | x :: a', y :: b' => (x =? y) && list_eqb a' b'
  | _, _ => false
  end.
Fixpoint lookup_name (m : list (list Z * list Z)) (k : list Z) : option (list Z) :=
  match m with
  | (n, r) :: t => if list_eqb n k then Some r else lookup_name t k
  | [] => None
  end.
Fixpoint lookup_byte (m : list (Z * list Z)) (c : Z) : option (list Z) :=
  match m with
  | (x, q) :: t => if x =? c then Some q else lookup_byte t c
  | [] => None
  end.

(* copy(b[i:], r); copy(b[i+len(r):], b[j+1:]); b = b[:len(b)-n+len(r)]; return b, i+len(r)-1 *)
Definition splice (b : list Z) (i j : Z) (r : list Z) : result (list Z * Z) :=
  let n := j + 1 - i in
  ' (b1, _) <-- copy_in b i r ;;
  ' (b2, _) <-- copy_within b1 (i + len r) (j + 1) (len b1) ;;
  let newlen := len b - n + len r in
  if slice_ok 0 newlen (len b) then Ok (firstz newlen b2, i + len r - 1) else Panic.

(* the look-behind added by /repo 628a240 + c07f47f: does the replacement continue an ampersand sequence in front?
   for k := i-1; 0 <= k; k-- { if b[k]=='&' || MaxEntityLength+2 < i-k {return b, j}
                               else if b[k] not in [0-9a-zA-Z#] {break} }
   on the reversed prefix b[:i]; dist = i-k.  Too far to tell counts like an ampersand. *)
Definition cont_start (c : Z) : bool := is_alnum c || (c =? 35) || (c =? 59).
Fixpoint look_behind (pre_rev : list Z) (dist : Z) : bool :=
  match pre_rev with
  | c :: t => if (c =? 38) || (33 <? dist) then true
              else if is_alnum c || (c =? 35) then look_behind t (dist + 1) else false
  | [] => false
  end.
(* "return b, j" when the look-behind finds an ampersand, otherwise the in-place replacement *)
Definition guard_splice (b : list Z) (i j : Z) (r : list Z) : result (list Z * Z) :=
  match r with
  | c :: _ => if cont_start c && look_behind (rev (firstz i b)) 1 then Ok (b, j) else splice b i j r
  | [] => splice b i j r
  end.

Section Entities.
  Variable emap : list (list Z * list Z).    (* entitiesMap: name -> replacement *)
  Variable rmap : list (Z * list Z).         (* revEntitiesMap: byte -> reference *)

  (* from "j is at semicolon" to the end of replaceEntities *)
  Definition ent_finish (b : list Z) (i j : Z) (r : list Z) : result (list Z * Z) :=
    let n := j + 1 - i in
    if (j <? len b) && (getz b j =? 59) && (2 <? n) then
      match r with
      | [c] =>
          match lookup_byte rmap c with
          | Some q => if list_eqb q (slice b i (j + 1)) then Ok (b, j) else guard_splice b i j q
          | None =>
              if c =? 38 then
                let k := j + 1 in
                if (k <? len b) && (is_alnum (getz b k) || (getz b k =? 35)) then Ok (b, k)
                else guard_splice b i j r
              else guard_splice b i j r
          end
      | _ => guard_splice b i j r
      end
    else Ok (b, i).

  (* replaceEntities(b, i, …): assumes b[i] == '&' and i+3 < len(b) *)
  Definition replace_at (b : list Z) (i : Z) : result (list Z * Z) :=
    c1 <-- rd b (i + 1) ;;
    if c1 =? 35 then
      c2 <-- rd b (i + 2) ;;
      if c2 =? 120 then
        let '(nd, c) := scan_hex (skipz (i + 3) b) 0 in
        let j := i + 3 + nd in
        if (j <=? i + 3) || (10000 <=? c) then Ok (b, j - 1)
        else ent_finish b i j (if c <? 128 then [byte_of c] else 38 :: 35 :: dec_digits c ++ [59])
      else
        let '(nd, c) := scan_dec (skipz (i + 2) b) 0 in
        let j := i + 2 + nd in
        if (j <=? i + 2) || (128 <=? c) then Ok (b, j - 1)
        else ent_finish b i j [byte_of c]
    else
      let j := i + 1 + scan_name (skipz (i + 1) b) 0 in
      if (len b <=? j) || (j =? i + 1) || negb (getz b j =? 59) then Ok (b, i)
      else match lookup_name emap (slice b (i + 1) j) with
           | None => Ok (b, j)
           | Some r => ent_finish b i j r
           end.

  Fixpoint ent_loop (fuel : nat) (b : list Z) (i : Z) : result (list Z) :=
    if len b <=? i then Ok b else
    match fuel with
    | O => Fuel
    | S f =>
        if (getz b i =? 38) && (i + 3 <? len b) then
          ' (b1, i1) <-- replace_at b i ;; ent_loop f b1 (i1 + 1)
        else ent_loop f b (i + 1)
    end.

  Definition replace_entities (b : list Z) : result (list Z) := ent_loop (S (length b)) b 0.

  Fixpoint wsent_loop (fuel : nat) (b : list Z) (i j k : Z) : result (list Z * Z * Z) :=
    if len b <=? i then Ok (b, j, k) else
    match fuel with
    | O => Fuel
    | S f =>
        ' (b1, i1, j1, k1) <-- ws_body b i j k ;;
        if (i1 + 3 <? len b1) && (getz b1 i1 =? 38) then
          ' (b2, i2) <-- replace_at b1 i1 ;; wsent_loop f b2 (i2 + 1) j1 k1
        else wsent_loop f b1 (i1 + 1) j1 k1
    end.

  Definition replace_ws_and_entities (b : list Z) : result (list Z) :=
    ' (b1, j, k) <-- wsent_loop (S (length b)) b 0 0 0 ;; ws_finish b1 j k.
End Entities.

(* ---- html.EscapeAttrVal / xml.EscapeAttrVal / xml.EscapeCDATAVal ------------------------------- *)
Definition ent_dq : list Z := [38; 35; 51; 52; 59].      (* &#34; *)
Definition ent_sq : list Z := [38; 35; 51; 57; 59].      (* &#39; *)
Definition ent_lt : list Z := [38; 108; 116; 59].        (* &lt; *)
Definition ent_amp : list Z := [38; 97; 109; 112; 59].   (* &amp; *)

(* j += copy(t[j:], seg) into t of length n, out = t[:j] *)
Definition app_cap (n : Z) (out seg : list Z) : list Z := out ++ firstz (n - len out) seg.

Fixpoint esc_loop (n quote : Z) (ent l seg out : list Z) : list Z :=
  match l with
  | [] => app_cap n out seg
  | c :: t => if c =? quote then esc_loop n quote ent t [] (app_cap n (app_cap n out seg) ent)
              else esc_loop n quote ent t (seg ++ [c]) out
  end.
(* t := buf[:n]; t[0] = quote; …; t[j] = quote; return t[:j+1] *)
Definition esc_quoted (n quote : Z) (ent b : list Z) : result (list Z) :=
  if n <? 1 then Panic else
  let out := esc_loop n quote ent b [] [quote] in
  if len out <? n then Ok (out ++ [quote]) else Panic.

Fixpoint html_scan (l : list Z) (singles doubles : Z) (unq : bool) : Z * Z * bool :=
  match l with
  | [] => (singles, doubles, unq)
  | c :: t =>
      if tblz html_char_table c then
        if c =? 34 then html_scan t singles (doubles + 1) false
        else if c =? 39 then html_scan t (singles + 1) doubles false
        else html_scan t singles doubles false
      else html_scan t singles doubles unq
  end.

Definition html_escape_attr_val (b : list Z) (oq : Z) (mq : bool) : result (list Z) :=
  let '(s, d, unq) := html_scan b 0 0 true in
  if unq && (negb mq || (oq =? 0)) then Ok b
  else if ((s =? 0) && (oq =? 39)) || ((d =? 0) && (oq =? 34)) then Ok (oq :: b ++ [oq])
  else if (d <? s) || ((s =? d) && negb (oq =? 39)) then esc_quoted (len b + 2 + d * 4) 34 ent_dq b
  else esc_quoted (len b + 2 + s * 4) 39 ent_sq b.

Definition ent_tab : list Z := [38; 35; 57; 59].           (* &#9; *)
Definition ent_lf : list Z := [38; 35; 49; 48; 59].        (* &#10; *)
Definition ent_cr : list Z := [38; 35; 49; 51; 59].        (* &#13; *)

Fixpoint xml_scan (l : list Z) (singles doubles whitespaces : Z) : Z * Z * Z :=
  match l with
  | [] => (singles, doubles, whitespaces)
  | c :: t => if c =? 34 then xml_scan t singles (doubles + 1) whitespaces
              else if c =? 39 then xml_scan t (singles + 1) doubles whitespaces
              else if (c =? 9) || (c =? 10) || (c =? 13) then xml_scan t singles doubles (whitespaces + 1)
              else xml_scan t singles doubles whitespaces
  end.

(* the copy loop of xml.EscapeAttrVal (since /repo a851768): the quote and TAB/LF/CR are written as references *)
Fixpoint xesc_loop (n quote : Z) (ent l seg out : list Z) : list Z :=
  match l with
  | [] => app_cap n out seg
  | c :: t =>
      if c =? quote then xesc_loop n quote ent t [] (app_cap n (app_cap n out seg) ent)
      else if (c =? 9) || (c =? 10) || (c =? 13) then
        xesc_loop n quote ent t []
          (app_cap n (app_cap n out seg) (if c =? 9 then ent_tab else if c =? 10 then ent_lf else ent_cr))
      else xesc_loop n quote ent t (seg ++ [c]) out
  end.
Definition xesc_quoted (n quote : Z) (ent b : list Z) : result (list Z) :=
  if n <? 1 then Panic else
  let out := xesc_loop n quote ent b [] [quote] in
  if len out <? n then Ok (out ++ [quote]) else Panic.

Definition xml_escape_attr_val (b : list Z) : result (list Z) :=
  let '(s, d, w) := xml_scan b 0 0 0 in
  let n := len b + 2 + w * 4 in
  if s <? d then xesc_quoted (n + s * 4) 39 ent_sq b
  else xesc_quoted (n + d * 4) 34 ent_dq b.

Fixpoint cdata_cost (l : list Z) (n : Z) : option Z :=      (* None: declined *)
  match l with
  | [] => Some n
  | c :: t =>
      if (c =? 60) || (c =? 38) then
        let n' := if c =? 60 then n + 3 else n + 4 in
        if 12 <? n' then None else cdata_cost t n'
      else cdata_cost t n
  end.
Fixpoint cdata_loop (n : Z) (l seg out : list Z) : list Z :=
  match l with
  | [] => app_cap n out seg
  | c :: t => if c =? 60 then cdata_loop n t [] (app_cap n (app_cap n out seg) ent_lt)
              else if c =? 38 then cdata_loop n t [] (app_cap n (app_cap n out seg) ent_amp)
              else cdata_loop n t (seg ++ [c]) out
  end.
Definition xml_escape_cdata (b : list Z) : list Z * bool :=
  match cdata_cost b 0 with
  | None => (b, false)
  | Some n => (cdata_loop (len b + n) b [] [], true)
  end.

(* ---- reading one attribute back: the in-tag state of the html and xml lexers ------------------- *)
(* The argument is the not yet consumed input (without the terminator): [] is "Peek(0)==0 && Err()!=nil". *)
Inductive tok :=
| TAttr (data key : list Z) (val : option (list Z))
| TClose (data : list Z) | TVoid (data : list Z) | TPI (data : list Z) | TError.

Fixpoint span (p : Z -> bool) (l : list Z) : list Z * list Z :=
  match l with
  | c :: t => if p c then let '(a, r) := span p t in (c :: a, r) else ([], l)
  | [] => ([], [])
  end.
Definition hd_is (x : Z) (l : list Z) : bool := match l with c :: _ => c =? x | [] => false end.
Definition to_lower (l : list Z) : list Z := map (fun c => if (65 <=? c) && (c <=? 90) then c + 32 else c) l.

Definition is_hws (c : Z) : bool := (c =? 32) || (c =? 9) || (c =? 10) || (c =? 13) || (c =? 12).

Fixpoint html_name (l : list Z) : list Z * list Z :=
  match l with
  | [] => ([], [])
  | c :: t => if is_hws c || (c =? 61) || (c =? 62) || ((c =? 47) && hd_is 62 t) then ([], l)
              else let '(a, r) := html_name t in (c :: a, r)
  end.
(* after the opening quote: bytes moved over (including the closing quote, if any) and the rest *)
Fixpoint html_quoted (delim : Z) (l : list Z) : list Z * list Z :=
  match l with
  | [] => ([], [])
  | c :: t => if c =? delim then ([c], t) else let '(a, r) := html_quoted delim t in (c :: a, r)
  end.

Definition html_tag_next (s : list Z) : tok * list Z :=
  let '(ws0, s1) := span is_hws s in
  match s1 with
  | [] => (TError, [])
  | c :: t =>
      if c =? 62 then (TClose [62], t)
      else if (c =? 47) && hd_is 62 t then (TVoid [47; 62], tl t)
      else
        let '(name, s2) := html_name s1 in
        let key := to_lower name in
        let '(ws1, s3) := span is_hws s2 in
        if hd_is 61 s3 then
          let '(ws2, s4) := span is_hws (tl s3) in
          let delim := hd 0 s4 in
          let '(v, s5) :=
            if (delim =? 34) || (delim =? 39) then
              let '(a, r) := html_quoted delim (tl s4) in (delim :: a, r)
            else span (fun c => negb (is_hws c || (c =? 62))) s4 in
          (TAttr (ws0 ++ key ++ ws1 ++ 61 :: ws2 ++ v) key (Some v), s5)
        else (TAttr (ws0 ++ key) key None, s2)
  end.

Definition is_xws (c : Z) : bool := (c =? 32) || (c =? 9) || (c =? 10) || (c =? 13).
Definition slash_or_q (c : Z) : bool := (c =? 47) || (c =? 63).

Fixpoint xml_name (l : list Z) : list Z * list Z :=
  match l with
  | [] => ([], [])
  | c :: t => if is_xws c || (c =? 61) || (c =? 62) || (slash_or_q c && hd_is 62 t) || (c =? 0) then ([], l)
              else let '(a, r) := xml_name t in (c :: a, r)
  end.
Fixpoint xml_unquoted (l : list Z) : list Z * list Z :=
  match l with
  | [] => ([], [])
  | c :: t => if is_xws c || (c =? 62) || (slash_or_q c && hd_is 62 t) || (c =? 0) then ([], l)
              else let '(a, r) := xml_unquoted t in (c :: a, r)
  end.
(* quoted state: TAB/LF/CR inside the value are overwritten with a space in the buffer *)
Fixpoint xml_quoted (delim : Z) (l : list Z) : list Z * list Z :=
  match l with
  | [] => ([], [])
  | c :: t => if c =? delim then ([c], t)
              else if c =? 0 then ([], l)
              else let '(a, r) := xml_quoted delim t in
                   ((if (c =? 9) || (c =? 10) || (c =? 13) then 32 else c) :: a, r)
  end.

Definition xml_tag_next (s : list Z) : tok * list Z :=
  let '(ws0, s1) := span is_xws s in
  match s1 with
  | [] => (TError, [])
  | c :: t =>
      if c =? 0 then (TError, s1)
      else if c =? 62 then (TClose [62], t)
      else if (c =? 47) && hd_is 62 t then (TVoid [47; 62], tl t)
      else if (c =? 63) && hd_is 62 t then (TPI [63; 62], tl t)
      else
        let '(name, s2) := xml_name s1 in
        let '(ws1, s3) := span is_xws s2 in
        if hd_is 61 s3 then
          let '(ws2, s4) := span is_xws (tl s3) in
          let delim := hd 0 s4 in
          let '(v, s5) :=
            if (delim =? 34) || (delim =? 39) then
              let '(a, r) := xml_quoted delim (tl s4) in (delim :: a, r)
            else xml_unquoted s4 in
          (TAttr (ws0 ++ name ++ ws1 ++ 61 :: ws2 ++ v) name (Some v), s5)
        else (TAttr (ws0 ++ name) name None, s2)
  end.

(* call Next while attributes come *)
Fixpoint tag_tokens (next : list Z -> tok * list Z) (fuel : nat) (s : list Z) : list tok :=
  match fuel with
  | O => []
  | S f => let '(t, r) := next s in
           match t with TAttr _ _ _ => t :: tag_tokens next f r | _ => [t] end
  end.
Definition html_tag_tokens (s : list Z) : list tok := tag_tokens html_tag_next (S (length s)) s.
Definition xml_tag_tokens (s : list Z) : list tok := tag_tokens xml_tag_next (S (length s)) s.

(* ---- reference decoding for the fragment the escapers can produce -------------------------------- *)
(* table of (reference, byte); first match wins *)
Fixpoint is_prefix (p l : list Z) : bool :=
  match p, l with
  | [], _ => true
  | x :: p', y :: l' => (x =? y) && is_prefix p' l'
  | _ :: _, [] => false
  end.
Fixpoint find_ref (tbl : list (list Z * Z)) (l : list Z) : option (Z * nat) :=
  match tbl with
  | (r, c) :: t => if is_prefix r l then Some (c, length r) else find_ref t l
  | [] => None
  end.
Fixpoint decode_refs (tbl : list (list Z * Z)) (l : list Z) (skip : nat) : list Z :=
  match l with
  | [] => []
  | c :: t =>
      match skip with
      | S k => decode_refs tbl t k
      | O => match find_ref tbl l with
             | Some (ch, n) => ch :: decode_refs tbl t (Nat.pred n)
             | None => c :: decode_refs tbl t 0
             end
      end
  end.
Definition decode (tbl : list (list Z * Z)) (l : list Z) : list Z := decode_refs tbl l 0.

(* the references the escapers can produce, plus their usual synonyms *)
Definition std_refs : list (list Z * Z) :=
  [ (ent_dq, 34); (ent_sq, 39); (ent_lt, 60); (ent_amp, 38);
    ([38; 113; 117; 111; 116; 59], 34);        (* &quot; *)
    ([38; 97; 112; 111; 115; 59], 39);         (* &apos; *)
    ([38; 103; 116; 59], 62);                  (* &gt; *)
    ([38; 35; 120; 50; 50; 59], 34);           (* &#x22; *)
    ([38; 35; 120; 50; 55; 59], 39);           (* &#x27; *)
    ([38; 35; 51; 56; 59], 38);                (* &#38; *)
    ([38; 35; 54; 48; 59], 60);                (* &#60; *)
    (ent_tab, 9); (ent_lf, 10); (ent_cr, 13) ].

(* strip the surrounding quotes of an attribute value as the lexers return it *)
Definition unquote (v : list Z) : list Z :=
  match v with
  | q :: t => if ((q =? 34) || (q =? 39)) && (1 <=? len t) && (getz t (len t - 1) =? q)
              then firstz (len t - 1) t else v
  | [] => []
  end.
