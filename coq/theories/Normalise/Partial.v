(* Normalise/Partial.v — the parts of the two refuted ReplaceEntities clauses that do hold: on [clean]
   inputs the result is the decoding, and a second pass changes nothing. *)
From Coq Require Import ZifyBool.
From Verif Require Import Common.Base Common.Tactics Normalise.Model Normalise.Spec
  Normalise.WsProofs Normalise.EscProofs Normalise.EntProofs Normalise.EntShift Normalise.Compose.

(* ---- digit runs ------------------------------------------------------------------------------------------ *)
Definition dstep (a c : Z) : Z := a * 10 + (c - 48).
Definition hstep (a c : Z) : Z := a * 16 + hex_val c.

Lemma fold_dec_mono ds : forall acc, 0 <= acc -> forallb is_digit ds = true -> acc <= fold_left dstep ds acc.
Proof.
  induction ds as [|c t IH]; intros acc Ha H; cbn [fold_left]; [lia|].
  cbn [forallb] in H. apply andb_true_iff in H. destruct H as [Hc Ht]. unfold is_digit in Hc.
  specialize (IH (dstep acc c)). unfold dstep in *. specialize (IH ltac:(lia) Ht). lia.
Qed.
Lemma fold_hex_mono hs : forall acc, 0 <= acc -> forallb is_hex hs = true -> acc <= fold_left hstep hs acc.
Proof.
  induction hs as [|c t IH]; intros acc Ha H; cbn [fold_left]; [lia|].
  cbn [forallb] in H. apply andb_true_iff in H. destruct H as [Hc Ht]. pose proof (hex_val_range c Hc).
  specialize (IH (hstep acc c)). unfold hstep in *. specialize (IH ltac:(lia) Ht). lia.
Qed.

Lemma scan_dec_run ds rest : forall acc, 0 <= acc -> forallb is_digit ds = true -> fold_left dstep ds acc < 128 ->
  is_digit (getz rest 0) = false ->
  scan_dec (ds ++ rest) acc = (len ds, fold_left dstep ds acc).
Proof.
  intros acc Ha Hd Hv Hr. revert acc Ha Hv. induction ds as [|c t IH]; intros acc Ha Hv.
  - cbn [app fold_left]. destruct rest as [|s z]; [reflexivity|]. rewrite scan_dec_cons.
    change (getz (s :: z) 0) with s in Hr. rewrite Hr, andb_false_r. reflexivity.
  - cbn [forallb] in Hd. apply andb_true_iff in Hd. destruct Hd as [Hc Ht].
    cbn [app fold_left] in *. rewrite scan_dec_cons.
    pose proof (fold_dec_mono t (dstep acc c)) as M. unfold dstep in *. unfold is_digit in Hc.
    specialize (M ltac:(lia) Ht).
    replace ((acc <? 128) && is_digit c) with true by (unfold is_digit; lia).
    rewrite (IH Ht) by lia. rewrite len_cons. reflexivity.
Qed.

Lemma scan_hex_run hs rest : forall acc, 0 <= acc -> forallb is_hex hs = true -> fold_left hstep hs acc < 128 ->
  is_hex (getz rest 0) = false ->
  scan_hex (hs ++ rest) acc = (len hs, fold_left hstep hs acc).
Proof.
  intros acc Ha Hd Hv Hr. revert acc Ha Hv. induction hs as [|c t IH]; intros acc Ha Hv.
  - cbn [app fold_left]. destruct rest as [|s z]; [reflexivity|]. rewrite scan_hex_cons.
    change (getz (s :: z) 0) with s in Hr. rewrite Hr, andb_false_r. reflexivity.
  - cbn [forallb] in Hd. apply andb_true_iff in Hd. destruct Hd as [Hc Ht].
    cbn [app fold_left] in *. rewrite scan_hex_cons, Hc.
    pose proof (fold_hex_mono t (hstep acc c)) as M. pose proof (hex_val_range c Hc). unfold hstep in *.
    specialize (M ltac:(lia) Ht).
    replace (acc <? 65536) with true by lia. cbn [andb].
    rewrite (IH Ht) by lia. rewrite len_cons. reflexivity.
Qed.

(* the decoder of the statements reads the same value *)
Lemma digits_val_dec ds rest : forall acc, 0 <= acc -> forallb is_digit ds = true -> fold_left dstep ds acc < 128 ->
  is_digit (getz rest 0) = false ->
  digits_val 10 is_digit (fun c => c - 48) (ds ++ rest) acc = (fold_left dstep ds acc, length ds, rest).
Proof.
  intros acc Ha Hd Hv Hr. revert acc Ha Hv. induction ds as [|c t IH]; intros acc Ha Hv.
  - cbn [app fold_left length]. destruct rest as [|s z]; [reflexivity|]. cbn [digits_val].
    change (getz (s :: z) 0) with s in Hr. rewrite Hr. reflexivity.
  - cbn [forallb] in Hd. apply andb_true_iff in Hd. destruct Hd as [Hc Ht].
    cbn [app fold_left length digits_val] in *. rewrite Hc.
    pose proof (fold_dec_mono t (dstep acc c)) as M. unfold dstep in *. unfold is_digit in Hc.
    specialize (M ltac:(lia) Ht).
    replace (Z.min 1114112 (acc * 10 + (c - 48))) with (acc * 10 + (c - 48)) by lia.
    rewrite (IH Ht) by lia. reflexivity.
Qed.
Lemma digits_val_hex hs rest : forall acc, 0 <= acc -> forallb is_hex hs = true -> fold_left hstep hs acc < 128 ->
  is_hex (getz rest 0) = false ->
  digits_val 16 is_hex hex_val (hs ++ rest) acc = (fold_left hstep hs acc, length hs, rest).
Proof.
  intros acc Ha Hd Hv Hr. revert acc Ha Hv. induction hs as [|c t IH]; intros acc Ha Hv.
  - cbn [app fold_left length]. destruct rest as [|s z]; [reflexivity|]. cbn [digits_val].
    change (getz (s :: z) 0) with s in Hr. rewrite Hr. reflexivity.
  - cbn [forallb] in Hd. apply andb_true_iff in Hd. destruct Hd as [Hc Ht].
    cbn [app fold_left length digits_val] in *. rewrite Hc.
    pose proof (fold_hex_mono t (hstep acc c)) as M. pose proof (hex_val_range c Hc). unfold hstep in *.
    specialize (M ltac:(lia) Ht).
    replace (Z.min 1114112 (acc * 16 + hex_val c)) with (acc * 16 + hex_val c) by lia.
    rewrite (IH Ht) by lia. reflexivity.
Qed.

(* ---- small facts ----------------------------------------------------------------------------------------- *)
Lemma getz_0 c l : getz (c :: l) 0 = c.
Proof. exact (getz_app_len [] c l). Qed.
Lemma getz_S c l k : 0 <= k -> getz (c :: l) (1 + k) = getz l k.
Proof. intros Hk. exact (getz_shift [c] l k Hk). Qed.

Lemma split_stop l : exists lu lw, l = lu ++ lw /\ stop_tail lw.
Proof.
  induction l as [|c t (lu & lw & -> & Hw)].
  - exists [], []. split; [reflexivity|apply stop_tail_nil].
  - destruct (is_alnum c || (c =? 35) || (c =? 59)) eqn:E.
    + exists (c :: lu), lw. split; [reflexivity|exact Hw].
    + exists [], (c :: lu ++ lw). split; [reflexivity|]. unfold stop_tail. rewrite getz_0. repeat split; lia.
Qed.

Lemma splice_ref D ref l r : len r <= len ref -> 1 <= len ref ->
  splice (D ++ ref ++ l) (len D) (len D + len ref - 1) r = Ok (D ++ r ++ l, len D + len r - 1).
Proof.
  intros Hr H1. pose proof (len_nonneg r).
  rewrite (split_at ref (len r)) at 1. rewrite <- app_assoc.
  assert (L1 : len (firstz (len r) ref) = len r) by (apply len_firstz; lia).
  assert (L2 : len (skipz (len r) ref) = len ref - len r) by (apply len_skipz; lia).
  replace (len D + len ref - 1) with (len D + len (firstz (len r) ref) + len (skipz (len r) ref) - 1) by lia.
  apply splice_parts; lia.
Qed.

(* ---- the decision on a terminated numeric reference to an ASCII byte other than '&' ----------------------- *)
Lemma byte_of_small v : 0 <= v < 256 -> byte_of v = v.
Proof. intros H. unfold byte_of. apply Z.mod_small. exact H. Qed.

Lemma decide_dec_ref em lb ds lu : ds <> [] -> forallb is_digit ds = true -> 0 < dec_val ds < 128 -> dec_val ds <> 38 ->
  (cont_start (dec_val ds) = false \/ lb = false) ->
  decide em [] lb (38 :: 35 :: ds ++ 59 :: lu) = Repl (2 + len ds) [dec_val ds].
Proof.
  intros Hne Hd Hv H38 Hnear. pose proof (len_nonneg ds) as Hl0. pose proof (len_nonneg lu) as Hlu.
  assert (Hl1 : 1 <= len ds) by (destruct ds; [congruence|rewrite len_cons; pose proof (len_nonneg ds); lia]).
  set (u := 38 :: 35 :: ds ++ 59 :: lu).
  assert (Hlen : len u = 2 + len ds + 1 + len lu) by (unfold u; rewrite !len_cons, len_app, len_cons; lia).
  unfold decide.
  assert (G1 : getz u 1 = 35) by (unfold u; change 1 with (1 + 0); rewrite getz_S by lia; apply getz_0).
  assert (G2 : (getz u 2 =? 120) = false).
  { unfold u. change 2 with (1 + (1 + 0)). rewrite !getz_S by lia. destruct ds as [|d0 ds']; [congruence|].
    cbn [app]. rewrite getz_0. cbn [forallb] in Hd. unfold is_digit in Hd. lia. }
  rewrite G1, G2. cbn [Z.eqb]. change (35 =? 35) with true. cbv iota.
  change (skipz 2 u) with (ds ++ 59 :: lu).
  rewrite scan_dec_run; [|lia|exact Hd|exact (proj2 Hv)|rewrite getz_0; reflexivity].
  change (fold_left dstep ds 0) with (dec_val ds).
  change (fold_left dstep ds 0) with (dec_val ds).
  replace ((2 + len ds <=? 2) || (128 <=? dec_val ds)) with false by lia.
  unfold dfinish.
  assert (G3 : getz u (2 + len ds) = 59).
  { unfold u. change (38 :: 35 :: ds ++ 59 :: lu) with ((38 :: 35 :: ds) ++ 59 :: lu).
    replace (2 + len ds) with (len (38 :: 35 :: ds)) by (rewrite !len_cons; lia). apply getz_app_len. }
  rewrite G3. replace ((2 + len ds <? len u) && (59 =? 59) && (2 <? 2 + len ds + 1)) with true by lia.
  rewrite byte_of_small by lia. cbn [lookup_byte]. replace (dec_val ds =? 38) with false by lia.
  unfold dguard. replace (cont_start (dec_val ds) && lb) with false; [reflexivity|].
  destruct Hnear as [-> | ->]; [reflexivity|rewrite andb_false_r; reflexivity].
Qed.

Lemma decide_hex_ref em lb hs lu : hs <> [] -> forallb is_hex hs = true -> 0 < hex_num hs < 128 -> hex_num hs <> 38 ->
  (cont_start (hex_num hs) = false \/ lb = false) ->
  decide em [] lb (38 :: 35 :: 120 :: hs ++ 59 :: lu) = Repl (3 + len hs) [hex_num hs].
Proof.
  intros Hne Hd Hv H38 Hnear. pose proof (len_nonneg hs) as Hl0. pose proof (len_nonneg lu) as Hlu.
  assert (Hl1 : 1 <= len hs) by (destruct hs; [congruence|rewrite len_cons; pose proof (len_nonneg hs); lia]).
  set (u := 38 :: 35 :: 120 :: hs ++ 59 :: lu).
  assert (Hlen : len u = 3 + len hs + 1 + len lu) by (unfold u; rewrite !len_cons, len_app, len_cons; lia).
  unfold decide.
  assert (G1 : getz u 1 = 35) by (unfold u; change 1 with (1 + 0); rewrite getz_S by lia; apply getz_0).
  assert (G2 : getz u 2 = 120) by (unfold u; change 2 with (1 + (1 + 0)); rewrite !getz_S by lia; apply getz_0).
  rewrite G1, G2. change (35 =? 35) with true. change (120 =? 120) with true. cbv iota.
  change (skipz 3 u) with (hs ++ 59 :: lu).
  rewrite scan_hex_run; [|lia|exact Hd|exact (proj2 Hv)|rewrite getz_0; reflexivity].
  change (fold_left hstep hs 0) with (hex_num hs).
  change (fold_left hstep hs 0) with (hex_num hs).
  replace ((3 + len hs <=? 3) || (10000 <=? hex_num hs)) with false by lia.
  replace (hex_num hs <? 128) with true by lia.
  unfold dfinish.
  assert (G3 : getz u (3 + len hs) = 59).
  { unfold u. change (38 :: 35 :: 120 :: hs ++ 59 :: lu) with ((38 :: 35 :: 120 :: hs) ++ 59 :: lu).
    replace (3 + len hs) with (len (38 :: 35 :: 120 :: hs)) by (rewrite !len_cons; lia). apply getz_app_len. }
  rewrite G3. replace ((3 + len hs <? len u) && (59 =? 59) && (2 <? 3 + len hs + 1)) with true by lia.
  rewrite byte_of_small by lia. cbn [lookup_byte]. replace (hex_num hs =? 38) with false by lia.
  unfold dguard. replace (cont_start (hex_num hs) && lb) with false; [reflexivity|].
  destruct Hnear as [-> | ->]; [reflexivity|rewrite andb_false_r; reflexivity].
Qed.

(* ---- ReplaceEntities on clean inputs ------------------------------------------------------------------------ *)
Lemma ent_step_ref em D ref l v f :
  1 <= len ref -> 3 < len ref + len l -> getz (ref ++ l) 0 = 38 ->
  (forall lu, decide em [] (look_behind (rev D) 1) (ref ++ lu) = Repl (len ref - 1) [v]) ->
  ent_loop em [] (S f) (D ++ ref ++ l) (len D) = ent_loop em [] f ((D ++ [v]) ++ l) (len (D ++ [v])).
Proof.
  intros H1 H3 H38 Hdec. pose proof (len_nonneg D). pose proof (len_nonneg l).
  destruct (split_stop l) as (lu & lw & -> & Hw).
  rewrite ent_loop_amp.
  2:{ rewrite !len_app. pose proof (len_nonneg lu). pose proof (len_nonneg lw). lia. }
  2:{ replace (len D) with (len D + 0) at 1 by lia. rewrite getz_shift by lia. rewrite H38.
      replace (len D + 3 <? len (D ++ ref ++ lu ++ lw)) with true by (rewrite !len_app in *; lia). reflexivity. }
  rewrite (app_assoc ref lu lw).
  rewrite (replace_at_dec em [] _ D (ref ++ lu) lw eq_refl Hw) by (rewrite !len_app in *; pose proof (len_nonneg lu); lia).
  rewrite Hdec. cbn [apply_dec]. rewrite <- (app_assoc ref lu lw).
  replace (len D + (len ref - 1)) with (len D + len ref - 1) by lia.
  rewrite splice_ref by (change (len [v]) with 1; lia). cbn [rbind].
  change (len [v]) with 1. replace (len D + 1 - 1 + 1) with (len (D ++ [v])) by (rewrite len_app; change (len [v]) with 1; lia).
  rewrite <- app_assoc. reflexivity.
Qed.

Lemma clean_replace em acc b o : clean_from acc b o ->
  forall D f, rev D = acc -> len b < Z.of_nat f -> ent_loop em [] f (D ++ b) (len D) = Ok (D ++ o).
Proof.
  induction 1 as [acc|acc c l o Hc Hcl IH|acc ds l o Hne Hd Hv H38 Hnear Hcl IH|acc hs l o Hne Hd Hv H38 Hnear Hcl IH];
    intros D f HD Hf.
  - rewrite app_nil_r. apply ent_loop_end. lia.
  - destruct f as [|f]; [pose proof (len_nonneg (c :: l)); lia|]. rewrite len_cons in Hf.
    rewrite ent_loop_skip; [|rewrite len_app, len_cons; pose proof (len_nonneg l); lia
                            |rewrite getz_app_len; replace (c =? 38) with false by lia; reflexivity].
    replace (D ++ c :: l) with ((D ++ [c]) ++ l) by (rewrite <- app_assoc; reflexivity).
    replace (len D + 1) with (len (D ++ [c])) by (rewrite len_app; reflexivity).
    rewrite IH; [rewrite <- app_assoc; reflexivity|rewrite rev_unit, HD; reflexivity|lia].
  - destruct f as [|f]; [pose proof (len_nonneg (38 :: 35 :: ds ++ 59 :: l)); lia|].
    assert (Hl1 : 1 <= len ds) by (destruct ds; [congruence|rewrite len_cons; pose proof (len_nonneg ds); lia]).
    pose proof (len_nonneg l) as Hl0.
    assert (Eref : 38 :: 35 :: ds ++ 59 :: l = (38 :: 35 :: ds ++ [59]) ++ l)
      by (cbn [app]; rewrite <- app_assoc; reflexivity).
    rewrite Eref in *.
    assert (Hlr : len (38 :: 35 :: ds ++ [59]) = 3 + len ds) by (rewrite !len_cons, len_app; change (len [59]) with 1; lia).
    rewrite len_app, Hlr in Hf.
    rewrite (ent_step_ref em D (38 :: 35 :: ds ++ [59]) l (dec_val ds) f); [|lia|lia|reflexivity|].
    + rewrite IH; [rewrite <- app_assoc; reflexivity|rewrite rev_unit, HD; reflexivity|lia].
    + intros lu. rewrite Hlr. replace (3 + len ds - 1) with (2 + len ds) by lia.
      replace ((38 :: 35 :: ds ++ [59]) ++ lu) with (38 :: 35 :: ds ++ 59 :: lu)
        by (cbn [app]; rewrite <- app_assoc; reflexivity).
      apply decide_dec_ref; try assumption. rewrite HD. exact Hnear.
  - destruct f as [|f]; [pose proof (len_nonneg (38 :: 35 :: 120 :: hs ++ 59 :: l)); lia|].
    assert (Hl1 : 1 <= len hs) by (destruct hs; [congruence|rewrite len_cons; pose proof (len_nonneg hs); lia]).
    pose proof (len_nonneg l) as Hl0.
    assert (Eref : 38 :: 35 :: 120 :: hs ++ 59 :: l = (38 :: 35 :: 120 :: hs ++ [59]) ++ l)
      by (cbn [app]; rewrite <- app_assoc; reflexivity).
    rewrite Eref in *.
    assert (Hlr : len (38 :: 35 :: 120 :: hs ++ [59]) = 4 + len hs) by (rewrite !len_cons, len_app; change (len [59]) with 1; lia).
    rewrite len_app, Hlr in Hf.
    rewrite (ent_step_ref em D (38 :: 35 :: 120 :: hs ++ [59]) l (hex_num hs) f); [|lia|lia|reflexivity|].
    + rewrite IH; [rewrite <- app_assoc; reflexivity|rewrite rev_unit, HD; reflexivity|lia].
    + intros lu. rewrite Hlr. replace (4 + len hs - 1) with (3 + len hs) by lia.
      replace ((38 :: 35 :: 120 :: hs ++ [59]) ++ lu) with (38 :: 35 :: 120 :: hs ++ 59 :: lu)
        by (cbn [app]; rewrite <- app_assoc; reflexivity).
      apply decide_hex_ref; try assumption. rewrite HD. exact Hnear.
Qed.

Lemma clean_noamp acc b o : clean_from acc b o -> ~ In 38 o.
Proof.
  induction 1 as [acc|acc c l o Hc Hcl IH|acc ds l o Hne Hd Hv H38 Hnear Hcl IH|acc hs l o Hne Hd Hv H38 Hnear Hcl IH];
    cbn [In]; intuition.
Qed.

Lemma noamp_fix em rm l : ~ In 38 l -> forall D f, len l < Z.of_nat f -> ent_loop em rm f (D ++ l) (len D) = Ok (D ++ l).
Proof.
  induction l as [|c t IH]; intros Hn D f Hf.
  - apply ent_loop_end. rewrite app_nil_r. lia.
  - destruct f as [|f]; [pose proof (len_nonneg (c :: t)); lia|]. rewrite len_cons in Hf.
    rewrite ent_loop_skip; [|rewrite len_app, len_cons; pose proof (len_nonneg t); lia|].
    + replace (D ++ c :: t) with ((D ++ [c]) ++ t) by (rewrite <- app_assoc; reflexivity).
      replace (len D + 1) with (len (D ++ [c])) by (rewrite len_app; reflexivity).
      apply IH; [intros Hin; apply Hn; right; exact Hin|lia].
    + rewrite getz_app_len. destruct (c =? 38) eqn:E; [|reflexivity]. exfalso. apply Hn. left. lia.
Qed.

(* ---- the decoder on clean inputs ----------------------------------------------------------------------------- *)
Lemma html_decode_skip a x : html_decode_from (a ++ x) (length a) = html_decode_from x 0.
Proof. induction a as [|c a IH]; cbn [app length html_decode_from]; [reflexivity|exact IH]. Qed.

Lemma ref_at_noamp c l : c <> 38 -> ref_at (c :: l) = None.
Proof.
  intros Hc. unfold ref_at. replace (c =? 38) with false by lia. cbn [andb].
  destruct l; apply find_ref_not_amp; try reflexivity; exact Hc.
Qed.

Lemma html_decode_noamp l : ~ In 38 l -> html_decode l = l.
Proof.
  unfold html_decode. induction l as [|c t IH]; [reflexivity|]. intros Hn. cbn [html_decode_from].
  rewrite ref_at_noamp by (intros ->; apply Hn; left; reflexivity).
  rewrite IH by (intros Hin; apply Hn; right; exact Hin). reflexivity.
Qed.

Lemma clean_decode acc b o : clean_from acc b o -> html_decode b = o.
Proof.
  unfold html_decode.
  induction 1 as [acc|acc c l o Hc Hcl IH|acc ds l o Hne Hd Hv H38 Hnear Hcl IH|acc hs l o Hne Hd Hv H38 Hnear Hcl IH].
  - reflexivity.
  - cbn [html_decode_from]. rewrite ref_at_noamp by exact Hc. rewrite IH. reflexivity.
  - cbn [html_decode_from]. 
    assert (R : ref_at (38 :: 35 :: ds ++ 59 :: l) = Some (dec_val ds, (3 + length ds)%nat)).
    { unfold ref_at. change ((38 =? 38) && (35 =? 35)) with true. cbv iota. unfold num_ref_at.
      destruct ds as [|d0 ds']; [congruence|]. cbn [app].
      assert (Hx : (d0 =? 120) = false) by (cbn [forallb] in Hd; unfold is_digit in Hd; lia).
      rewrite Hx. change (d0 :: ds' ++ 59 :: l) with ((d0 :: ds') ++ 59 :: l).
      rewrite digits_val_dec; [|lia|exact Hd|exact (proj2 Hv)|rewrite getz_0; reflexivity].
      change (fold_left dstep (d0 :: ds') 0) with (dec_val (d0 :: ds')).
      cbn [length Nat.eqb negb hd_is]. change (59 =? 59) with true. cbn [andb].
      replace ((0 <? dec_val (d0 :: ds')) && (dec_val (d0 :: ds') <? 128)) with true by lia. reflexivity. }
    rewrite R. cbn [Nat.pred plus html_decode_from]. f_equal.
    replace (ds ++ 59 :: l) with ((ds ++ [59]) ++ l) by (rewrite <- app_assoc; reflexivity).
    replace (S (length ds)) with (length (ds ++ [59])) by (rewrite app_length; cbn [length]; lia).
    rewrite html_decode_skip. exact IH.
  - cbn [html_decode_from].
    assert (R : ref_at (38 :: 35 :: 120 :: hs ++ 59 :: l) = Some (hex_num hs, (4 + length hs)%nat)).
    { unfold ref_at. change ((38 =? 38) && (35 =? 35)) with true. cbv iota. unfold num_ref_at.
      change (120 =? 120) with true. cbv iota. cbn [tl].
      rewrite digits_val_hex; [|lia|exact Hd|exact (proj2 Hv)|rewrite getz_0; reflexivity].
      change (fold_left hstep hs 0) with (hex_num hs).
      destruct hs as [|h0 hs']; [congruence|].
      cbn [length Nat.eqb negb hd_is]. change (59 =? 59) with true. cbn [andb].
      replace ((0 <? hex_num (h0 :: hs')) && (hex_num (h0 :: hs') <? 128)) with true by lia. reflexivity. }
    rewrite R. cbn [Nat.pred plus html_decode_from]. f_equal.
    replace (hs ++ 59 :: l) with ((hs ++ [59]) ++ l) by (rewrite <- app_assoc; reflexivity).
    replace (S (length hs)) with (length (hs ++ [59])) by (rewrite app_length; cbn [length]; lia).
    rewrite html_decode_skip. exact IH.
Qed.

(* ---- the two partial theorems --------------------------------------------------------------------------------- *)
Lemma entities_idempotent_partial_proof : forall em b o, clean b o ->
  replace_entities em [] b = Ok o /\ replace_entities em [] o = Ok o.
Proof.
  intros em b o H. unfold replace_entities. split.
  - exact (clean_replace em [] b o H [] (S (length b)) eq_refl ltac:(unfold len; lia)).
  - exact (noamp_fix em [] o (clean_noamp [] b o H) [] (S (length o)) ltac:(unfold len; lia)).
Qed.

Lemma entities_preserve_decoding_partial_proof : forall em b o, clean b o ->
  replace_entities em [] b = Ok o /\ html_decode b = o /\ html_decode o = o.
Proof.
  intros em b o H. split; [apply entities_idempotent_partial_proof; exact H|].
  split; [apply (clean_decode []); exact H|apply html_decode_noamp; exact (clean_noamp [] b o H)].
Qed.

Example clean_example :
  (* `a&#60;b&#x000041;&#9;c` is clean and decodes to `a<bA<TAB>c` *)
  clean [97; 38;35;54;48;59; 98; 38;35;120;48;48;48;48;52;49;59; 38;35;57;59; 99] [97; 60; 98; 65; 9; 99].
Proof.
  unfold clean. apply CL_text; [discriminate|].
  apply (CL_dec _ [54; 48]); [discriminate|reflexivity|vm_compute; split; reflexivity|discriminate|left; reflexivity|].
  apply CL_text; [discriminate|].
  apply (CL_hex _ [48; 48; 48; 48; 52; 49]); [discriminate|reflexivity|vm_compute; split; reflexivity|discriminate|right; reflexivity|].
  apply (CL_dec _ [57]); [discriminate|reflexivity|vm_compute; split; reflexivity|discriminate|left; reflexivity|].
  apply CL_text; [discriminate|]. apply CL_nil.
Qed.

(* ---- over-long hexadecimal references are left alone ------------------------------------------------------
   (before the fix a8361dd in /repo the accumulator wrapped modulo 2^64 and `&#x10000000000000041;` became `A`) *)
Lemma scan_hex_big hs post : forall acc, 0 <= acc -> forallb is_hex hs = true -> 10000 <= fold_left hstep hs acc ->
  exists nd c, scan_hex (hs ++ 59 :: post) acc = (nd, c) /\ 0 <= nd <= len hs /\ 10000 <= c.
Proof.
  induction hs as [|h t IH]; intros acc Ha Hh Hv.
  - cbn [app fold_left] in *. exists 0, acc. rewrite scan_hex_cons. change (is_hex 59) with false.
    rewrite andb_false_r. change (len (@nil Z)) with 0. repeat split; lia.
  - cbn [forallb] in Hh. apply andb_true_iff in Hh. destruct Hh as [Hc Ht]. pose proof (hex_val_range h Hc).
    cbn [app fold_left] in *. rewrite scan_hex_cons, Hc, len_cons. pose proof (len_nonneg t).
    destruct (acc <? 65536) eqn:E; cbn [andb].
    + unfold hstep in Hv. destruct (IH (acc * 16 + hex_val h) ltac:(lia) Ht Hv) as (nd & c & -> & Hn & Hc2).
      exists (1 + nd), c. repeat split; lia.
    + exists 0, acc. repeat split; lia.
Qed.

Lemma in_skipz {A} (x : A) n l : In x (skipz n l) -> In x l.
Proof. unfold skipz. intros H. rewrite <- (firstn_skipn (Z.to_nat n) l). apply in_or_app. right. exact H. Qed.

Lemma hex_not_amp hs : forallb is_hex hs = true -> ~ In 38 hs.
Proof.
  intros H Hin. rewrite forallb_forall in H. specialize (H 38 Hin). discriminate H.
Qed.

Lemma overlong_hex_fix em rm hs post : forallb is_hex hs = true -> 10000 <= hex_num hs -> ~ In 38 post ->
  forall pre D f, ~ In 38 pre -> len (pre ++ 38 :: 35 :: 120 :: hs ++ 59 :: post) < Z.of_nat f ->
    ent_loop em rm f (D ++ pre ++ 38 :: 35 :: 120 :: hs ++ 59 :: post) (len D)
    = Ok (D ++ pre ++ 38 :: 35 :: 120 :: hs ++ 59 :: post).
Proof.
  intros Hh Hv Hpost. set (ref := 38 :: 35 :: 120 :: hs ++ 59 :: post).
  induction pre as [|c t IH]; intros D f Hpre Hf.
  - cbn [app] in *. destruct f as [|f]; [pose proof (len_nonneg ref); lia|].
    destruct (split_stop post) as (lu & lw & Hsp & Hw).
    pose proof (len_nonneg hs) as Hl0. pose proof (len_nonneg lu). pose proof (len_nonneg lw). pose proof (len_nonneg D).
    set (u := 38 :: 35 :: 120 :: hs ++ 59 :: lu).
    assert (Eu : ref = u ++ lw) by (unfold ref, u; rewrite Hsp; cbn [app]; rewrite <- app_assoc; reflexivity).
    assert (Hlu : len u = 4 + len hs + len lu) by (unfold u; rewrite !len_cons, len_app, len_cons; lia).
    destruct (scan_hex_big hs lu 0 (Z.le_refl 0) Hh Hv) as (nd & cc & Es & Hnd & Hcc).
    assert (Hdec : forall lb, decide em rm lb u = Keep (3 + nd - 1)).
    { intros lb. unfold decide.
      assert (G1 : getz u 1 = 35) by (unfold u; change 1 with (1 + 0); rewrite getz_S by lia; apply getz_0).
      assert (G2 : getz u 2 = 120) by (unfold u; change 2 with (1 + (1 + 0)); rewrite !getz_S by lia; apply getz_0).
      rewrite G1, G2. change (35 =? 35) with true. change (120 =? 120) with true. cbv iota.
      change (skipz 3 u) with (hs ++ 59 :: lu). rewrite Es.
      replace ((3 + nd <=? 3) || (10000 <=? cc)) with true by lia. reflexivity. }
    rewrite Eu. rewrite ent_loop_amp.
    2:{ rewrite !len_app. lia. }
    2:{ replace (len D) with (len D + 0) at 1 by lia. rewrite getz_shift by lia.
        unfold u at 1. cbn [app]. rewrite getz_0.
        replace (len D + 3 <? len (D ++ u ++ lw)) with true by (rewrite !len_app; lia). reflexivity. }
    rewrite (replace_at_dec em rm _ D u lw eq_refl Hw) by lia. rewrite Hdec. cbn [apply_dec rbind].
    (* the rest of the buffer contains no '&' *)
    set (m := 3 + nd). replace (len D + (m - 1) + 1) with (len D + m) by lia.
    rewrite (split_at (u ++ lw) m) at 1. rewrite app_assoc.
    replace (len D + m) with (len (D ++ firstz m (u ++ lw))) by (rewrite len_app, len_firstz by (rewrite len_app; lia); lia).
    rewrite noamp_fix.
    + rewrite <- app_assoc, <- split_at. reflexivity.
    + intros Hin. rewrite <- Eu in Hin. unfold ref, m in Hin.
      change (38 :: 35 :: 120 :: hs ++ 59 :: post) with ([38; 35; 120] ++ hs ++ 59 :: post) in Hin.
      replace (3 + nd) with (len [38; 35; 120] + nd) in Hin by reflexivity.
      rewrite skipz_add in Hin by lia. apply in_skipz in Hin. apply in_app_or in Hin.
      destruct Hin as [Hin|[Hin|Hin]]; [exact (hex_not_amp hs Hh Hin)|discriminate|exact (Hpost Hin)].
    + rewrite len_skipz by (rewrite len_app; lia). rewrite <- Eu. lia.
  - destruct f as [|f]; [pose proof (len_nonneg ((c :: t) ++ ref)); lia|].
    cbn [app] in *. rewrite len_cons in Hf.
    rewrite ent_loop_skip; [|rewrite len_app, len_cons; pose proof (len_nonneg (t ++ ref)); lia|].
    + replace (D ++ c :: t ++ ref) with ((D ++ [c]) ++ t ++ ref) by (rewrite <- app_assoc; reflexivity).
      replace (len D + 1) with (len (D ++ [c])) by (rewrite len_app; reflexivity).
      rewrite IH; [rewrite <- app_assoc; reflexivity|intros Hin; apply Hpre; right; exact Hin|lia].
    + rewrite getz_app_len. destruct (c =? 38) eqn:E; [|reflexivity]. exfalso. apply Hpre. left. lia.
Qed.

Lemma entities_overlong_hex_unchanged_proof : forall em rm pre hs post,
  forallb is_hex hs = true -> 10000 <= hex_num hs -> ~ In 38 pre -> ~ In 38 post ->
  let b := pre ++ 38 :: 35 :: 120 :: hs ++ 59 :: post in
  replace_entities em rm b = Ok b.
Proof.
  intros em rm pre hs post Hh Hv Hpre Hpost b. unfold replace_entities, b.
  apply (overlong_hex_fix em rm hs post Hh Hv Hpost pre [] (S (length (pre ++ 38 :: 35 :: 120 :: hs ++ 59 :: post))) Hpre).
  unfold len. lia.
Qed.

Example entities_overlong_hex_example :
  (* `&#x10000000000000041;` and `&#xFFFFFFFFFFFFFF41;` stay as they are *)
  replace_entities [] [] [38;35;120;49;48;48;48;48;48;48;48;48;48;48;48;48;48;48;48;52;49;59]
    = Ok [38;35;120;49;48;48;48;48;48;48;48;48;48;48;48;48;48;48;48;52;49;59] /\
  replace_entities [] [] [38;35;120;70;70;70;70;70;70;70;70;70;70;70;70;70;70;52;49;59]
    = Ok [38;35;120;70;70;70;70;70;70;70;70;70;70;70;70;70;70;52;49;59] /\
  10000 <= hex_num [49;48;48;48;48;48;48;48;48;48;48;48;48;48;48;48;52;49].
Proof. vm_compute. repeat split; discriminate. Qed.
