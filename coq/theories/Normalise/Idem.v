(* Normalise/Idem.v — ReplaceEntities is idempotent (after the look-behind of /repo 628a240 + c07f47f).
   Part 1: a fuel-free view of the loop. *)
From Coq Require Import ZifyBool.
From Verif Require Import Common.Base Common.Tactics Normalise.Model Normalise.Spec
  Normalise.WsProofs Normalise.EscProofs Normalise.EntProofs Normalise.EntShift Normalise.Compose Normalise.Partial.

Section Fuel.
  Variable em : list (list Z * list Z).
  Variable rm : list (Z * list Z).
  Hypothesis Hok : maps_ok em rm = true.

  Lemma ent_loop_fuel : forall f1 f2 b i, -1 <= i -> len b - i < Z.of_nat f1 -> len b - i < Z.of_nat f2 ->
    ent_loop em rm f1 b i = ent_loop em rm f2 b i.
  Proof using Hok.
    induction f1 as [|f1 IH]; intros f2 b i Hi H1 H2.
    - rewrite !ent_loop_end by lia. reflexivity.
    - destruct (Z_le_dec (len b) i) as [Hle|Hgt]; [rewrite !ent_loop_end by lia; reflexivity|].
      destruct f2 as [|f2]; [lia|].
      destruct ((getz b i =? 38) && (i + 3 <? len b)) eqn:C.
      + rewrite !ent_loop_amp by (assumption || lia).
        assert (Hi0 : 0 <= i).
        { destruct (Z_le_dec 0 i); [assumption|]. assert (i = -1) by lia. subst i.
          rewrite getz_oob in C by lia. discriminate C. }
        destruct (replace_at_ok em rm Hok b i Hi0 ltac:(lia)) as (b' & i' & -> & L1 & L2 & L3). cbn [rbind].
        apply IH; lia.
      + rewrite !ent_loop_skip by (assumption || lia). apply IH; lia.
  Qed.

  (* the loop from index i with enough fuel *)
  Definition RE_from (b : list Z) (i : Z) : result (list Z) :=
    ent_loop em rm (S (Z.to_nat (len b - i))) b i.

  Lemma RE_from_fuel f b i : -1 <= i -> len b - i < Z.of_nat f -> ent_loop em rm f b i = RE_from b i.
  Proof using Hok. intros Hi Hf. unfold RE_from. apply ent_loop_fuel; lia. Qed.

  Lemma RE_end b i : len b <= i -> RE_from b i = Ok b.
  Proof. intros H. unfold RE_from. apply ent_loop_end. exact H. Qed.

  Lemma RE_skip b i : 0 <= i < len b -> (getz b i =? 38) && (i + 3 <? len b) = false -> RE_from b i = RE_from b (i + 1).
  Proof using Hok.
    intros Hi C. unfold RE_from at 1. rewrite ent_loop_skip by (assumption || lia). apply RE_from_fuel; lia.
  Qed.

  Lemma RE_amp b i b' i' : 0 <= i < len b -> (getz b i =? 38) && (i + 3 <? len b) = true ->
    replace_at em rm b i = Ok (b', i') -> RE_from b i = RE_from b' (i' + 1).
  Proof using Hok.
    intros Hi C E. unfold RE_from at 1. rewrite ent_loop_amp by (assumption || lia). rewrite E. cbn [rbind].
    destruct (replace_at_ok em rm Hok b i ltac:(lia) ltac:(lia)) as (b2 & i2 & E2 & L1 & L2 & L3).
    rewrite E in E2. injection E2 as <- <-. apply RE_from_fuel; lia.
  Qed.

  Lemma replace_entities_RE b : replace_entities em rm b = RE_from b 0.
  Proof using Hok. unfold replace_entities. apply RE_from_fuel; [lia|unfold len; lia]. Qed.

  (* bytes other than '&' are stepped over *)
  Lemma RE_walk seg : forall A B, ~ In 38 seg ->
    RE_from (A ++ seg ++ B) (len A) = RE_from ((A ++ seg) ++ B) (len (A ++ seg)).
  Proof using Hok.
    induction seg as [|c t IH]; intros A B Hn.
    - rewrite !app_nil_r. reflexivity.
    - pose proof (len_nonneg A). pose proof (len_nonneg (t ++ B)).
      cbn [app]. rewrite RE_skip.
      + replace (A ++ c :: t ++ B) with ((A ++ [c]) ++ t ++ B) by (rewrite <- app_assoc; reflexivity).
        replace (len A + 1) with (len (A ++ [c])) by (rewrite len_app; reflexivity).
        rewrite IH by (intros Hin; apply Hn; right; exact Hin).
        replace ((A ++ [c]) ++ t) with (A ++ c :: t) by (rewrite <- app_assoc; reflexivity). reflexivity.
      + rewrite len_app, len_cons. lia.
      + rewrite getz_app_len. destruct (c =? 38) eqn:E; [|reflexivity]. exfalso. apply Hn. left. lia.
  Qed.
End Fuel.

(* ---- the canonical window: '&' and the following run of [0-9a-zA-Z#;] --------------------------------------- *)
Definition cls (c : Z) : bool := is_alnum c || (c =? 35).

Lemma cont_start_cls c : cont_start c = cls c || (c =? 59).
Proof. reflexivity. Qed.

Lemma stop_tail_iff w : stop_tail w <-> cont_start (getz w 0) = false.
Proof.
  unfold stop_tail, cont_start. split.
  - intros (A & B & C). rewrite A. lia.
  - intros H. repeat split; lia.
Qed.

Lemma csplit l : exists run w, l = run ++ w /\ forallb cont_start run = true /\ stop_tail w.
Proof.
  induction l as [|c t (run & w & -> & Hr & Hw)].
  - exists [], []. split; [reflexivity|]. split; [reflexivity|apply stop_tail_nil].
  - destruct (cont_start c) eqn:E.
    + exists (c :: run), w. cbn [forallb]. rewrite E, Hr. split; [reflexivity|]. split; [reflexivity|exact Hw].
    + exists [], (c :: run ++ w). split; [reflexivity|]. split; [reflexivity|]. apply stop_tail_iff. rewrite getz_0. exact E.
Qed.

Lemma run_noamp run : forallb cont_start run = true -> ~ In 38 run.
Proof. intros H Hin. rewrite forallb_forall in H. specialize (H 38 Hin). discriminate H. Qed.

Section Step.
  Variable em : list (list Z * list Z).
  Variable rm : list (Z * list Z).
  Hypothesis Hok : maps_ok em rm = true.

  Lemma RE_step P run w : stop_tail w -> 3 < 1 + len run + len w ->
    let u := 38 :: run in
    let '(X, m) := emitted u (decide em rm (look_behind (rev P) 1) u) in
    1 <= m <= len u /\
    RE_from em rm (P ++ u ++ w) (len P) = RE_from em rm ((P ++ X) ++ skipz m u ++ w) (len (P ++ X)).
  Proof using Hok.
    intros Hw Hl u. pose proof (len_nonneg run). pose proof (len_nonneg w). pose proof (len_nonneg P).
    assert (Hu : len u = 1 + len run) by (unfold u; rewrite len_cons; reflexivity).
    pose proof (replace_at_next em rm (look_behind (rev P) 1) u w Hok Hw ltac:(lia) ltac:(lia)) as N.
    destruct (emitted u (decide em rm (look_behind (rev P) 1) u)) as [X m].
    destruct N as (Hm & _ & N). split; [exact Hm|]. specialize (N P eq_refl).
    assert (Hin1 : 0 <= len P < len (P ++ u ++ w)) by (rewrite !len_app; lia).
    assert (Hin2 : (getz (P ++ u ++ w) (len P) =? 38) && (len P + 3 <? len (P ++ u ++ w)) = true).
    { unfold u. cbn [app]. rewrite getz_app_len.
      replace (len P + 3 <? len (P ++ 38 :: run ++ w)) with true by (rewrite len_app, len_cons, len_app; lia).
      reflexivity. }
    rewrite (RE_amp em rm Hok _ _ _ _ Hin1 Hin2 N).
    replace (len (P ++ X) - 1 + 1) with (len (P ++ X)) by lia. reflexivity.
  Qed.
End Step.

(* ---- more facts about the decision ---------------------------------------------------------------------------- *)
Lemma scan_hex_tailw w x : is_alnum (getz w 0) = false -> forall acc, scan_hex (x ++ w) acc = scan_hex x acc.
Proof.
  intros Hw. induction x as [|c t IH]; intros acc.
  - cbn [app]. destruct w as [|s z]; [reflexivity|]. rewrite scan_hex_cons. rewrite getz_0 in Hw.
    replace (is_hex s) with false by (unfold is_alnum, is_hex, is_digit in *; lia). rewrite andb_false_r. reflexivity.
  - cbn [app]. rewrite !scan_hex_cons. rewrite IH. reflexivity.
Qed.
Lemma scan_dec_tailw w x : is_alnum (getz w 0) = false -> forall acc, scan_dec (x ++ w) acc = scan_dec x acc.
Proof.
  intros Hw. induction x as [|c t IH]; intros acc.
  - cbn [app]. destruct w as [|s z]; [reflexivity|]. rewrite scan_dec_cons. rewrite getz_0 in Hw.
    replace (is_digit s) with false by (unfold is_alnum, is_digit in *; lia). rewrite andb_false_r. reflexivity.
  - cbn [app]. rewrite !scan_dec_cons. rewrite IH. reflexivity.
Qed.
Lemma scan_name_tailw w x : is_alnum (getz w 0) = false -> forall cnt, scan_name (x ++ w) cnt = scan_name x cnt.
Proof.
  intros Hw. induction x as [|c t IH]; intros cnt.
  - cbn [app]. destruct w as [|s z]; [reflexivity|]. rewrite scan_name_cons. rewrite getz_0 in Hw.
    rewrite Hw, andb_false_r. reflexivity.
  - cbn [app]. rewrite !scan_name_cons. rewrite IH. reflexivity.
Qed.

Lemma look_behind_run x : forall rest d, forallb cls x = true -> look_behind (x ++ 38 :: rest) d = true.
Proof.
  induction x as [|c t IH]; intros rest d H; cbn [app look_behind].
  - reflexivity.
  - cbn [forallb] in H. apply andb_true_iff in H. destruct H as [Hc Ht].
    destruct ((c =? 38) || (33 <? d)); [reflexivity|]. unfold cls in Hc. rewrite Hc. apply IH. exact Ht.
Qed.

Lemma lb_true_run P run d : forallb cls run = true -> look_behind (rev (P ++ 38 :: run)) d = true.
Proof.
  intros H. rewrite rev_app_distr. cbn [rev]. rewrite <- app_assoc. cbn [app].
  apply look_behind_run. rewrite forallb_forall in *. intros x Hx. apply H. apply in_rev. exact Hx.
Qed.

Lemma getz_skipz1 u : getz (skipz 1 u) 0 = getz u 1.
Proof. destruct u as [|a t]; [reflexivity|]. change (skipz 1 (a :: t)) with t. change 1 with (1 + 0). rewrite getz_S by lia. reflexivity. Qed.

Lemma scan_name_stop l cnt : is_alnum (getz l 0) = false -> scan_name l cnt = 0.
Proof.
  destruct l as [|c t]; [reflexivity|]. rewrite getz_0. intros H. rewrite scan_name_cons, H, andb_false_r. reflexivity.
Qed.

(* nothing of [0-9a-zA-Z#] after the '&': not a reference *)
Lemma decide_nobody em rm lb u : cls (getz u 1) = false -> decide em rm lb u = Keep 0.
Proof.
  intros H. unfold cls in H. unfold decide. replace (getz u 1 =? 35) with false by lia.
  rewrite scan_name_stop by (rewrite getz_skipz1; lia). reflexivity.
Qed.

(* a decimal reference whose value reaches 128 is left alone whatever surrounds it *)
Lemma scan_dec_ge128 ds : forall acc n c rest, scan_dec ds acc = (n, c) -> 128 <= c -> scan_dec (ds ++ rest) acc = (n, c).
Proof.
  induction ds as [|d t IH]; intros acc n c rest H Hc.
  - cbn [scan_dec] in H. apply pair_equal_spec in H. destruct H as [<- <-]. cbn [app].
    destruct rest as [|s z]; [reflexivity|]. rewrite scan_dec_cons. replace (acc <? 128) with false by lia. reflexivity.
  - cbn [app]. rewrite scan_dec_cons in *. destruct ((acc <? 128) && is_digit d).
    + destruct (scan_dec t (acc * 10 + (d - 48))) as [n1 c1] eqn:E1. apply pair_equal_spec in H. destruct H as [<- <-].
      rewrite (IH _ _ _ rest E1 Hc). reflexivity.
    + exact H.
Qed.

Lemma decide_hiref em rm lb ds more n c : ds <> [] -> forallb is_digit ds = true ->
  scan_dec ds 0 = (n, c) -> 128 <= c ->
  decide em rm lb (38 :: 35 :: ds ++ 59 :: more) = Keep (2 + n - 1) /\ 0 <= n <= len ds.
Proof.
  intros Hne Hd Hs Hc. set (u := 38 :: 35 :: ds ++ 59 :: more).
  pose proof (scan_dec_bound _ _ _ _ (Z.le_refl 0) Hs) as [Hn0 _]. pose proof (scan_dec_le _ _ _ _ Hs) as Hn1.
  split; [|lia]. unfold decide.
  assert (G1 : getz u 1 = 35) by (unfold u; change 1 with (1 + 0); rewrite getz_S by lia; apply getz_0).
  assert (G2 : (getz u 2 =? 120) = false).
  { unfold u. change 2 with (1 + (1 + 0)). rewrite !getz_S by lia. destruct ds as [|d0 ds']; [congruence|].
    cbn [app]. rewrite getz_0. cbn [forallb] in Hd. unfold is_digit in Hd. lia. }
  rewrite G1, G2. change (35 =? 35) with true. cbv iota.
  change (skipz 2 u) with (ds ++ 59 :: more). rewrite (scan_dec_ge128 ds 0 n c _ Hs Hc).
  replace ((2 + n <=? 2) || (128 <=? c)) with true by lia. reflexivity.
Qed.

(* a window that contains a ';' decides the same when more bytes follow it, as far as "keep" goes *)
Lemma dfinish_ext rm lb a y z off r d : 1 <= len a -> 0 <= off <= len a ->
  dfinish rm lb (a ++ 59 :: y) off r = Keep d -> dfinish rm lb ((a ++ 59 :: y) ++ z) off r = Keep d.
Proof.
  intros Ha Hoff. set (u := a ++ 59 :: y). pose proof (len_nonneg y) as Hy. pose proof (len_nonneg z) as Hz.
  assert (Hlu : len u = len a + 1 + len y) by (unfold u; rewrite len_app, len_cons; lia).
  assert (G : forall idx, 0 <= idx < len u -> getz (u ++ z) idx = getz u idx) by (intros idx Hi; apply getz_app_l; exact Hi).
  unfold dfinish. rewrite len_app. rewrite G by lia.
  replace (off <? len u + len z) with true by lia. replace (off <? len u) with true by lia.
  destruct (true && (getz u off =? 59) && (2 <? off + 1)); [|trivial].
  destruct r as [|c [|c2 r2]]; try (intros H; exact H).
  rewrite slice_app_l by lia.
  destruct (lookup_byte rm c) as [q|]; [intros H; exact H|].
  destruct (c =? 38) eqn:E38; [|intros H; exact H]. assert (c = 38) by lia. subst c.
  destruct (Z_lt_dec (off + 1) (len u)) as [Hk|Hk].
  - rewrite G by lia. replace (off + 1 <? len u + len z) with true by lia. replace (off + 1 <? len u) with true by lia.
    intros H; exact H.
  - replace (off + 1 <? len u) with false by lia. cbn [andb]. intros H. exfalso. unfold dguard in H.
    change (cont_start 38) with false in H. cbn [andb] in H. discriminate H.
Qed.

Lemma skipz_app_mid {A} (a : list A) x n : 0 <= n <= len a -> skipz n (a ++ x) = skipz n a ++ x.
Proof. intros H. apply skipz_app_le. exact H. Qed.

Lemma decide_ext em rm lb a y z d : 1 <= len a ->
  decide em rm lb (a ++ 59 :: y) = Keep d -> decide em rm lb ((a ++ 59 :: y) ++ z) = Keep d.
Proof.
  intros Ha. set (u := a ++ 59 :: y). pose proof (len_nonneg y) as Hy. pose proof (len_nonneg z) as Hz.
  assert (Hlu : len u = len a + 1 + len y) by (unfold u; rewrite len_app, len_cons; lia).
  assert (G : forall idx, 0 <= idx < len u -> getz (u ++ z) idx = getz u idx) by (intros idx Hi; apply getz_app_l; exact Hi).
  assert (Ga : getz u (len a) = 59) by (unfold u; apply getz_app_len).
  assert (Hal : is_alnum (getz (59 :: y) 0) = false) by (rewrite getz_0; reflexivity).
  assert (Hal2 : is_alnum (getz (59 :: y ++ z) 0) = false) by (rewrite getz_0; reflexivity).
  assert (Sk : forall n, 0 <= n <= len a -> skipz n u = skipz n a ++ 59 :: y /\ skipz n (u ++ z) = skipz n a ++ 59 :: y ++ z).
  { intros n Hn. unfold u. rewrite <- app_assoc. cbn [app]. split; apply skipz_app_le; exact Hn. }
  unfold decide. rewrite (G 1) by lia.
  destruct (getz u 1 =? 35) eqn:E1.
  - assert (H2a : 2 <= len a).
    { destruct (Z_le_dec 2 (len a)); [assumption|]. assert (len a = 1) by lia. rewrite <- H in E1 at 1. rewrite Ga in E1. discriminate E1. }
    rewrite (G 2) by lia.
    destruct (getz u 2 =? 120) eqn:E2.
    + assert (H3a : 3 <= len a).
      { destruct (Z_le_dec 3 (len a)); [assumption|]. assert (len a = 2) by lia. rewrite <- H in E2 at 1. rewrite Ga in E2. discriminate E2. }
      destruct (Sk 3 ltac:(lia)) as [-> ->]. rewrite !scan_hex_tailw by assumption.
      destruct (scan_hex (skipz 3 a) 0) as [nd c] eqn:E.
      pose proof (scan_hex_bound _ _ _ _ E) as Hn0. pose proof (scan_hex_le _ _ _ _ E) as Hn1. rewrite len_skipz in Hn1 by lia.
      destruct ((3 + nd <=? 3) || (10000 <=? c)); [intros H; exact H|]. apply dfinish_ext; lia.
    + destruct (Sk 2 ltac:(lia)) as [-> ->]. rewrite !scan_dec_tailw by assumption.
      destruct (scan_dec (skipz 2 a) 0) as [nd c] eqn:E.
      pose proof (scan_dec_bound _ _ _ _ (Z.le_refl 0) E) as [Hn0 _]. pose proof (scan_dec_le _ _ _ _ E) as Hn1.
      rewrite len_skipz in Hn1 by lia.
      destruct ((2 + nd <=? 2) || (128 <=? c)); [intros H; exact H|]. apply dfinish_ext; lia.
  - destruct (Sk 1 ltac:(lia)) as [-> ->]. rewrite !scan_name_tailw by assumption.
    pose proof (scan_name_nonneg (skipz 1 a) 0) as Hn0. pose proof (scan_name_le (skipz 1 a) 0) as Hn1.
    rewrite len_skipz in Hn1 by lia. set (n := scan_name (skipz 1 a) 0) in *.
    rewrite G by lia. rewrite slice_app_l by lia.
    destruct ((1 + n =? 1) || negb (getz u (1 + n) =? 59)); [intros H; exact H|].
    destruct (lookup_name em (slice u 1 (1 + n))); [apply dfinish_ext; lia|intros H; exact H].
Qed.

(* ---- walking over bytes that stay ------------------------------------------------------------------------------ *)
Ltac lnorm := repeat (rewrite <- app_assoc || (progress (cbn [app]))).

Section Walk.
  Variable em : list (list Z * list Z).
  Variable rm : list (Z * list Z).
  Hypothesis Hok : maps_ok em rm = true.

  Lemma W_seg A seg B : ~ In 38 seg ->
    RE_from em rm (A ++ seg ++ B) (len A) = RE_from em rm (A ++ seg ++ B) (len A + len seg).
  Proof using Hok.
    intros H. rewrite (RE_walk em rm Hok seg A B H). rewrite len_app, <- app_assoc. reflexivity.
  Qed.

  Lemma W_keep P run w d : stop_tail w -> 3 < 1 + len run + len w ->
    decide em rm (look_behind (rev P) 1) (38 :: run) = Keep d ->
    RE_from em rm (P ++ 38 :: run ++ w) (len P) = RE_from em rm (P ++ 38 :: run ++ w) (len P + d + 1).
  Proof using Hok.
    intros Hw Hl Hd. pose proof (RE_step em rm Hok P run w Hw Hl) as S. cbv zeta in S. rewrite Hd in S.
    cbn [emitted] in S. destruct S as (Hm & S). cbn [app] in S. rewrite S.
    pose proof (len_nonneg P).
    replace (len (P ++ firstz (d + 1) (38 :: run))) with (len P + d + 1) by (rewrite len_app, len_firstz by lia; lia).
    f_equal. rewrite <- app_assoc. f_equal.
    change (38 :: run ++ w) with ((38 :: run) ++ w). rewrite app_assoc. f_equal. symmetry. apply split_at.
  Qed.

  Lemma inert_walk r : inert_str r -> forall A B,
    RE_from em rm (A ++ r ++ B) (len A) = RE_from em rm (A ++ r ++ B) (len A + len r).
  Proof using Hok.
    induction 1 as [|c r Hc Hr IH|ds r Hne Hd H128 Hr IH]; intros A B.
    - change (len (@nil Z)) with 0. rewrite Z.add_0_r. reflexivity.
    - change ((c :: r) ++ B) with ([c] ++ r ++ B). rewrite (W_seg A [c] (r ++ B)) by (intros [E|[]]; congruence).
      change (len [c]) with 1.
      replace (A ++ [c] ++ r ++ B) with ((A ++ [c]) ++ r ++ B) by (lnorm; reflexivity).
      replace (len A + 1) with (len (A ++ [c])) by (rewrite len_app; reflexivity).
      rewrite IH. f_equal. rewrite len_app, (len_cons c r). change (len [c]) with 1. lia.
    - destruct (scan_dec ds 0) as [n c] eqn:Es. cbn [snd] in H128.
      destruct (csplit (r ++ B)) as (run' & w & Erw & Hrun & Hw).
      pose proof (len_nonneg ds) as Hl0. pose proof (len_nonneg run'). pose proof (len_nonneg w). pose proof (len_nonneg A).
      assert (Hl1 : 1 <= len ds) by (destruct ds; [congruence|rewrite len_cons; pose proof (len_nonneg ds); lia]).
      destruct (decide_hiref em rm (look_behind (rev A) 1) ds run' n c Hne Hd Es H128) as [Hdec Hn].
      set (b := A ++ (38 :: 35 :: ds ++ 59 :: r) ++ B).
      assert (Eb1 : b = A ++ 38 :: (35 :: ds ++ 59 :: run') ++ w).
      { unfold b. lnorm. rewrite Erw. lnorm. reflexivity. }
      (* the decision keeps, then the remaining digits and the semicolon are stepped over *)
      rewrite Eb1. rewrite (W_keep A (35 :: ds ++ 59 :: run') w (2 + n - 1)); [|exact Hw| |exact Hdec].
      2:{ rewrite len_cons, len_app, len_cons. lia. }
      rewrite <- Eb1.
      set (ref := 38 :: 35 :: ds ++ [59]).
      assert (Hlr : len ref = 3 + len ds) by (unfold ref; rewrite !len_cons, len_app; change (len [59]) with 1; lia).
      assert (Eb2 : b = (A ++ firstz (2 + n) ref) ++ skipz (2 + n) ref ++ (r ++ B)).
      { unfold b. rewrite <- app_assoc. f_equal. rewrite app_assoc. rewrite <- split_at. unfold ref. lnorm. reflexivity. }
      replace (len A + (2 + n - 1) + 1) with (len (A ++ firstz (2 + n) ref)) by (rewrite len_app, len_firstz by lia; lia).
      rewrite Eb2. rewrite W_seg.
      2:{ intros Hin. unfold ref in Hin. change (38 :: 35 :: ds ++ [59]) with ([38; 35] ++ ds ++ [59]) in Hin.
          replace (2 + n) with (len [38; 35] + n) in Hin by reflexivity. rewrite skipz_add in Hin by lia.
          apply in_skipz in Hin. apply in_app_or in Hin. destruct Hin as [Hin|[E|[]]]; [|discriminate].
          rewrite forallb_forall in Hd. specialize (Hd 38 Hin). discriminate Hd. }
      rewrite <- Eb2.
      assert (Eb3 : b = (A ++ ref) ++ r ++ B) by (unfold b, ref; lnorm; reflexivity).
      replace (len (A ++ firstz (2 + n) ref) + len (skipz (2 + n) ref)) with (len (A ++ ref))
        by (rewrite !len_app, len_firstz, len_skipz by lia; lia).
      rewrite Eb3. rewrite IH. f_equal. rewrite !len_app, !len_cons, !len_app, len_cons. unfold ref.
      rewrite !len_cons, len_app. change (len [59]) with 1. lia.
  Qed.

  (* a kept window: the '&' and the run behind it are passed, whatever follows, as long as the decision is "keep" *)
  Lemma W_window P t B d : forallb cont_start t = true -> 0 <= d < 1 + len t ->
    (forall run2 w2, B = run2 ++ w2 -> forallb cont_start run2 = true -> stop_tail w2 ->
       decide em rm (look_behind (rev P) 1) (38 :: t ++ run2) = Keep d) ->
    RE_from em rm (P ++ 38 :: t ++ B) (len P) = RE_from em rm (P ++ 38 :: t ++ B) (len P + 1 + len t).
  Proof using Hok.
    intros Ht Hd HB. set (u := 38 :: t). pose proof (len_nonneg B) as HB0. pose proof (len_nonneg t) as Ht0.
    pose proof (len_nonneg P) as HP0.
    assert (Hu : len u = 1 + len t) by (unfold u; rewrite len_cons; reflexivity).
    assert (Hnoamp : ~ In 38 t) by (apply run_noamp; exact Ht).
    assert (Wrun : RE_from em rm (P ++ u ++ B) (len P + d + 1) = RE_from em rm (P ++ u ++ B) (len P + 1 + len t)).
    { rewrite (split_at u (d + 1)) at 1 2.
      replace (P ++ (firstz (d + 1) u ++ skipz (d + 1) u) ++ B)
        with ((P ++ firstz (d + 1) u) ++ skipz (d + 1) u ++ B) by (lnorm; reflexivity).
      replace (len P + d + 1) with (len (P ++ firstz (d + 1) u)) by (rewrite len_app, len_firstz by lia; lia).
      rewrite W_seg.
      - f_equal. rewrite !len_app, len_firstz, len_skipz by lia. lia.
      - intros Hin. unfold u in Hin.
        change (38 :: t) with ([38] ++ t) in Hin. replace (d + 1) with (len [38] + d) in Hin by (change (len [38]) with 1; lia).
        rewrite skipz_add in Hin by lia. apply in_skipz in Hin. exact (Hnoamp Hin). }
    change (38 :: t ++ B) with (u ++ B).
    destruct (Z_lt_dec 3 (len u + len B)) as [Hpre|Hpre].
    - destruct (csplit B) as (run2 & w2 & EB & Hr2 & Hw2).
      specialize (HB run2 w2 EB Hr2 Hw2). pose proof (len_nonneg run2). pose proof (len_nonneg w2).
      rewrite <- Wrun.
      replace (P ++ u ++ B) with (P ++ 38 :: (t ++ run2) ++ w2) by (rewrite EB; unfold u; lnorm; reflexivity).
      apply (W_keep P (t ++ run2) w2 d Hw2); [|exact HB].
      rewrite EB, len_app in Hpre. rewrite len_app. lia.
    - rewrite (RE_skip em rm Hok).
      + replace (P ++ u ++ B) with ((P ++ [38]) ++ t ++ B) by (unfold u; lnorm; reflexivity).
        replace (len P + 1) with (len (P ++ [38])) by (rewrite len_app; reflexivity).
        apply (W_seg (P ++ [38]) t B Hnoamp).
      + rewrite !len_app. lia.
      + replace (len P + 3 <? len (P ++ u ++ B)) with false by (rewrite !len_app; lia). apply andb_false_r.
  Qed.
End Walk.


(* ---- what a replacement can be --------------------------------------------------------------------------------- *)
Lemma scan_hex_nonneg l : forall acc n v, 0 <= acc -> scan_hex l acc = (n, v) -> 0 <= v.
Proof.
  induction l as [|c t IH]; intros acc n v Ha H; [cbn [scan_hex] in H|rewrite scan_hex_cons in H].
  - apply pair_equal_spec in H. destruct H as [_ <-]. exact Ha.
  - destruct ((acc <? 65536) && is_hex c) eqn:E.
    + apply andb_true_iff in E. destruct E as [_ E]. pose proof (hex_val_range c E).
      destruct (scan_hex t _) as [n1 v1] eqn:E1. apply pair_equal_spec in H. destruct H as [_ <-].
      eapply IH; [|exact E1]. lia.
    + apply pair_equal_spec in H. destruct H as [_ <-]. exact Ha.
Qed.

Lemma hiref_inert c : 128 <= c <= 9999 -> inert_str (38 :: 35 :: dec_digits c ++ [59]).
Proof.
  intros H.
  assert (S : forallb (fun c => match dec_digits c with [] => false | _ => true end &&
                                forallb is_digit (dec_digits c) && (128 <=? snd (scan_dec (dec_digits c) 0)))
                      (zrange 128 9999) = true) by (vm_compute; reflexivity).
  pose proof (zrange_forall _ 128 9999 S c H) as Hc. cbv beta in Hc.
  apply andb_true_iff in Hc. destruct Hc as [Hc H3]. apply andb_true_iff in Hc. destruct Hc as [H1 H2].
  apply IS_ref; [destruct (dec_digits c); [discriminate|discriminate]|exact H2|lia|apply IS_nil].
Qed.

Definition repl_shape (rm : list (Z * list Z)) (u : list Z) (off : Z) (r : list Z) : Prop :=
  (r = [38] /\ cls (getz u (off + 1)) = false) \/ (r <> [] /\ inert_str r) \/ (exists c, In (c, r) rm).

Lemma dguard_repl lb off r0 o r : dguard lb off r0 = Repl o r ->
  o = off /\ r = r0 /\ (cont_start (hd 0 r0) && lb = false \/ r0 = []).
Proof.
  unfold dguard. destruct r0 as [|c r']; [intros H; injection H as <- <-; repeat split; right; reflexivity|].
  cbn [hd]. destruct (cont_start c && lb) eqn:E; [discriminate|]. intros H. injection H as <- <-.
  repeat split. left. reflexivity.
Qed.

Lemma dfinish_repl rm lb u off r0 o r : dfinish rm lb u off r0 = Repl o r ->
  o = off /\ (cont_start (hd 0 r) && lb = false \/ r = []) /\
  ((r = r0 /\ (r0 = [38] -> cls (getz u (off + 1)) = false)) \/ (exists c, r0 = [c] /\ In (c, r) rm)).
Proof.
  unfold dfinish. destruct ((off <? len u) && (getz u off =? 59) && (2 <? off + 1)); [|discriminate].
  destruct r0 as [|c [|c2 r2]].
  - intros H. apply dguard_repl in H. destruct H as (-> & -> & G). repeat split; [exact G|]. left. split; [reflexivity|discriminate].
  - destruct (lookup_byte rm c) as [q|] eqn:El.
    + destruct (list_eqb q (slice u 0 (off + 1))); [discriminate|].
      intros H. apply dguard_repl in H. destruct H as (-> & -> & G). repeat split; [exact G|].
      right. exists c. split; [reflexivity|]. apply lookup_byte_in. exact El.
    + destruct (c =? 38) eqn:E38.
      * destruct ((off + 1 <? len u) && (is_alnum (getz u (off + 1)) || (getz u (off + 1) =? 35))) eqn:G; [discriminate|].
        intros H. apply dguard_repl in H. destruct H as (-> & -> & G2). repeat split; [exact G2|]. left. split; [reflexivity|].
        intros _. unfold cls. destruct (off + 1 <? len u) eqn:Ek; [cbn [andb] in G; exact G|].
        rewrite getz_oob by lia. reflexivity.
      * intros H. apply dguard_repl in H. destruct H as (-> & -> & G2). repeat split; [exact G2|]. left. split; [reflexivity|].
        intros E. injection E as ->. discriminate E38.
  - intros H. apply dguard_repl in H. destruct H as (-> & -> & G). repeat split; [exact G|]. left. split; [reflexivity|discriminate].
Qed.

Lemma rm_stable_entry em rm c q : rm_stable em rm = true -> In (c, q) rm ->
  exists t, q = 38 :: t /\ 3 <= len q /\ getz q (len q - 1) = 59 /\ forallb cont_start t = true /\
            (forall lb, exists d, decide em rm lb q = Keep d).
Proof.
  intros H Hin. unfold rm_stable in H. rewrite forallb_forall in H. specialize (H _ Hin).
  unfold rm_entry_stable in H. cbn [snd] in H. destruct q as [|a t]; [discriminate|].
  repeat (apply andb_true_iff in H; destruct H as [H ?]).
  assert (a = 38) by lia. subst a. exists t. repeat split; try assumption; try lia.
  intros lb. destruct lb.
  - destruct (decide em rm true (38 :: t)) as [d|]; [eauto|discriminate].
  - destruct (decide em rm false (38 :: t)) as [d|]; [eauto|discriminate].
Qed.

Lemma decide_repl_shape em rm lb u off r : em_stable em -> rm_stable em rm = true -> decide em rm lb u = Repl off r ->
  r <> [] /\ cont_start (hd 0 r) && lb = false /\ repl_shape rm u off r.
Proof.
  intros Hst Hrm. unfold decide.
  assert (Fin : forall o r0, dfinish rm lb u o r0 = Repl off r -> r0 = [38] \/ (r0 <> [] /\ inert_str r0) ->
            r <> [] /\ cont_start (hd 0 r) && lb = false /\ repl_shape rm u off r).
  { intros o r0 H Hr0. apply dfinish_repl in H. destruct H as (-> & G & [[-> A]|(c & _ & Hin)]).
    - destruct Hr0 as [->|[Hne Hi]].
      + split; [discriminate|]. split; [reflexivity|]. left. split; [reflexivity|apply A; reflexivity].
      + split; [exact Hne|]. split; [destruct G as [G|G]; [exact G|congruence]|]. right. left. split; assumption.
    - destruct (rm_stable_entry em rm c r Hrm Hin) as (t & -> & _).
      split; [discriminate|]. split; [reflexivity|]. right. right. exists c. exact Hin. }
  assert (Single : forall c o, 0 <= c < 128 -> dfinish rm lb u o [byte_of c] = Repl off r ->
            r <> [] /\ cont_start (hd 0 r) && lb = false /\ repl_shape rm u off r).
  { intros c o Hc H. apply (Fin o _ H). rewrite byte_of_small by lia.
    destruct (Z.eq_dec c 38) as [->|Hne]; [left; reflexivity|].
    right. split; [discriminate|apply IS_byte; [exact Hne|apply IS_nil]]. }
  destruct (getz u 1 =? 35).
  - destruct (getz u 2 =? 120).
    + destruct (scan_hex (skipz 3 u) 0) as [nd c] eqn:E.
      pose proof (scan_hex_nonneg _ _ _ _ (Z.le_refl 0) E) as Hc0.
      destruct ((3 + nd <=? 3) || (10000 <=? c)) eqn:C; [discriminate|].
      destruct (c <? 128) eqn:C128; [apply Single; lia|].
      intros H. apply (Fin _ _ H). right. split; [discriminate|apply hiref_inert; lia].
    + destruct (scan_dec (skipz 2 u) 0) as [nd c] eqn:E.
      pose proof (scan_dec_bound _ _ _ _ (Z.le_refl 0) E) as [_ Hc0].
      destruct ((2 + nd <=? 2) || (128 <=? c)) eqn:C; [discriminate|]. apply Single; lia.
  - destruct ((1 + scan_name (skipz 1 u) 0 =? 1) || negb (getz u (1 + scan_name (skipz 1 u) 0) =? 59)); [discriminate|].
    destruct (lookup_name em (slice u 1 (1 + scan_name (skipz 1 u) 0))) as [r0|] eqn:El; [|discriminate].
    apply lookup_name_in in El. destruct El as (name & Hin & _).
    intros H. apply (Fin _ _ H). exact (Hst name r0 Hin).
Qed.

Lemma last_split (l : list Z) : 1 <= len l -> l = firstz (len l - 1) l ++ [getz l (len l - 1)].
Proof.
  intros H. set (F := firstz (len l - 1) l).
  assert (LF : len F = len l - 1) by (unfold F; apply len_firstz; lia).
  assert (L : len (skipz (len l - 1) l) = 1) by (rewrite len_skipz by lia; lia).
  destruct (len_1_inv _ L) as [x Ex].
  assert (El : l = F ++ [x]) by (unfold F; rewrite <- Ex; apply split_at).
  replace (getz l (len l - 1)) with (getz (F ++ [x]) (len F)) by (rewrite LF, <- El; reflexivity).
  rewrite getz_app_len. exact El.
Qed.

(* ---- the two passes side by side ------------------------------------------------------------------------------- *)
Section Main.
  Variable em : list (list Z * list Z).
  Variable rm : list (Z * list Z).
  Hypothesis Hok : maps_ok em rm = true.
  Hypothesis Hst : em_stable em.
  Hypothesis Hrm : rm_stable em rm = true.
  Notation RE := (RE_from em rm).

  (* what the first byte of the processed suffix can be *)
  Definition FB (P suf T : list Z) : Prop :=
    match suf with
    | [] => T = []
    | c :: _ => exists h T0, T = h :: T0 /\
                  (if c =? 38 then h = 38 \/ (look_behind (rev P) 1 = true -> cont_start h = false) else h = c)
    end.

  Definition Two (P suf : list Z) : Prop :=
    exists T, RE (P ++ suf) (len P) = Ok (P ++ T) /\ RE (P ++ T) (len P) = Ok (P ++ T) /\
              len T <= len suf /\ FB P suf T.

  (* a byte that is stepped over in both passes *)
  Lemma two_skip P c rest : Two (P ++ [c]) rest -> (len rest <= 2 \/ c <> 38) -> Two P (c :: rest).
  Proof using Hok Hrm.
    intros (T' & E1 & E2 & L & F) Hc. exists (c :: T').
    assert (Step : forall B, len B <= len rest -> RE (P ++ c :: B) (len P) = RE ((P ++ [c]) ++ B) (len (P ++ [c]))).
    { intros B HB. pose proof (len_nonneg P). pose proof (len_nonneg B).
      rewrite (RE_skip em rm Hok).
      - rewrite len_app. change (len [c]) with 1. rewrite <- app_assoc. reflexivity.
      - rewrite len_app, len_cons. lia.
      - rewrite getz_app_len. destruct Hc as [Hc|Hc].
        + replace (len P + 3 <? len (P ++ c :: B)) with false by (rewrite len_app, len_cons; lia). apply andb_false_r.
        + replace (c =? 38) with false by lia. reflexivity. }
    split; [rewrite Step by lia; rewrite E1, <- app_assoc; reflexivity|].
    split; [rewrite Step by lia; rewrite E2, <- app_assoc; reflexivity|].
    split; [rewrite !len_cons; lia|].
    cbn [FB]. exists c, T'. split; [reflexivity|]. destruct (c =? 38) eqn:E; [left; lia|reflexivity].
  Qed.

  Lemma cls_head_tail run3 w3 : cls (getz (run3 ++ w3) 0) = false -> cls (getz (38 :: run3) 1) = false.
  Proof.
    intros H. change 1 with (1 + 0). rewrite getz_S by lia.
    destruct run3 as [|x t]; [reflexivity|]. cbn [app] in H. rewrite getz_0 in *. exact H.
  Qed.

  Lemma two_all : forall n suf P, (length suf <= n)%nat -> Two P suf.
  Proof using Hok Hst Hrm.
    induction n as [|n IH]; intros suf P Hn.
    { destruct suf; [|cbn [length] in Hn; lia]. exists []. rewrite app_nil_r.
      rewrite RE_end by lia. repeat split; reflexivity || lia. }
    destruct suf as [|c rest].
    { exists []. rewrite app_nil_r. rewrite RE_end by lia. repeat split; reflexivity || lia. }
    cbn [length] in Hn. pose proof (len_nonneg rest) as Hr0. pose proof (len_nonneg P) as HP0.
    destruct (c =? 38) eqn:E38.
    2:{ apply two_skip; [apply IH; lia|right; lia]. }
    assert (c = 38) by lia. subst c. clear E38.
    destruct (Z_le_dec (len rest) 2) as [Hshort|Hlong].
    { apply two_skip; [apply IH; lia|left; exact Hshort]. }
    (* a reference is decided *)
    destruct (csplit rest) as (run & w & -> & Hrun & Hw).
    rewrite len_app in *. pose proof (len_nonneg run) as Hrun0. pose proof (len_nonneg w) as Hw0.
    set (u := 38 :: run). set (lb := look_behind (rev P) 1).
    assert (Hu : len u = 1 + len run) by (unfold u; rewrite len_cons; reflexivity).
    assert (Hnoamp : ~ In 38 run) by (apply run_noamp; exact Hrun).
    pose proof (decide_range em rm lb u ltac:(lia)) as R.
    destruct (decide em rm lb u) as [d|off r] eqn:Hd.
    - (* kept: the whole window stays, the rest is processed from the state after it *)
      destruct (IH w (P ++ u) ltac:(rewrite app_length in Hn; lia)) as (T2 & E1 & E2 & L2 & F2).
      exists (38 :: run ++ T2).
      assert (ToEnd : forall B, (forall run2 w2, B = run2 ++ w2 -> forallb cont_start run2 = true -> stop_tail w2 ->
                                  decide em rm lb (38 :: run ++ run2) = Keep d) ->
                RE (P ++ 38 :: run ++ B) (len P) = RE ((P ++ u) ++ B) (len (P ++ u))).
      { intros B HB. rewrite (W_window em rm Hok P run B d Hrun ltac:(lia) HB).
        f_equal; [unfold u; lnorm; reflexivity|]. rewrite len_app, Hu. lia. }
      split.
      { rewrite ToEnd; [rewrite E1; unfold u; lnorm; reflexivity|].
        intros run2 w2 EB Hr2 Hw2.
        (* w is a stop tail: its canonical run is empty *)
        destruct run2 as [|x t]; [rewrite app_nil_r; exact Hd|].
        exfalso. apply stop_tail_iff in Hw. rewrite EB in Hw. cbn [app] in Hw. rewrite getz_0 in Hw.
        cbn [forallb] in Hr2. rewrite Hw in Hr2. discriminate Hr2. }
      split.
      { rewrite ToEnd; [rewrite E2; unfold u; lnorm; reflexivity|].
        intros run2 w2 EB Hr2 Hw2.
        destruct run2 as [|h t]; [rewrite app_nil_r; exact Hd|].
        (* the processed tail starts with a byte of [0-9a-zA-Z#;]: only behind a ';' *)
        assert (Hh : cont_start h = true) by (cbn [forallb] in Hr2; apply andb_true_iff in Hr2; tauto).
        assert (Hlbu : look_behind (rev (P ++ u)) 1 = false).
        { destruct w as [|s w'].
          - cbn [FB] in F2. rewrite F2 in EB. discriminate EB.
          - cbn [FB] in F2. destruct F2 as (h0 & T0 & ET & F2). rewrite ET in EB. cbn [app] in EB. injection EB as -> _.
            destruct (s =? 38) eqn:Es.
            + destruct F2 as [->|F2]; [discriminate Hh|].
              destruct (look_behind (rev (P ++ u)) 1); [specialize (F2 eq_refl); congruence|reflexivity].
            + subst h. apply stop_tail_iff in Hw. rewrite getz_0 in Hw. congruence. }
        assert (Hsemi : exists a' y, run = a' ++ 59 :: y).
        { destruct (forallb cls run) eqn:Ecls.
          - unfold u in Hlbu. rewrite (lb_true_run P run 1 Ecls) in Hlbu. discriminate Hlbu.
          - clear - Ecls Hrun. induction run as [|x t IHt]; [discriminate|].
            cbn [forallb] in *. apply andb_true_iff in Hrun. destruct Hrun as [Hx Ht].
            destruct (cls x) eqn:Ex.
            + cbn [andb] in Ecls. destruct (IHt Ht Ecls) as (a' & y & ->). exists (x :: a'), y. reflexivity.
            + exists [], t. rewrite cont_start_cls, Ex in Hx. cbn [orb] in Hx. cbn [app]. f_equal. lia. }
        destruct Hsemi as (a' & y & Erun).
        replace (38 :: run ++ h :: t) with (((38 :: a') ++ 59 :: y) ++ h :: t) by (rewrite Erun; lnorm; reflexivity).
        apply decide_ext; [rewrite len_cons; pose proof (len_nonneg a'); lia|].
        replace ((38 :: a') ++ 59 :: y) with u by (unfold u; rewrite Erun; reflexivity). exact Hd. }
      split; [rewrite !len_cons, !len_app; lia|].
      cbn [FB]. exists 38, (run ++ T2). split; [reflexivity|]. left. reflexivity.
    - (* replaced *)
      destruct (decide_repl_shape em rm lb u off r Hst Hrm Hd) as (Hrne & Hg & Hshape).
      pose proof (decide_repl_len em rm lb u off r Hok ltac:(lia) Hd) as Hrl.
      pose proof (len_nonneg r) as Hr0'.
      set (ur := skipz (off + 1) u).
      assert (Hur : len ur = len u - (off + 1)) by (unfold ur; apply len_skipz; lia).
      assert (Hurn : ~ In 38 ur).
      { intros Hin. unfold ur, u in Hin. change (38 :: run) with ([38] ++ run) in Hin.
        replace (off + 1) with (len [38] + off) in Hin by (change (len [38]) with 1; lia).
        rewrite skipz_add in Hin by lia. apply in_skipz in Hin. exact (Hnoamp Hin). }
      destruct (IH w ((P ++ r) ++ ur) ltac:(rewrite app_length in Hn; lia)) as (T2 & E1 & E2 & L2 & F2).
      exists (r ++ ur ++ T2).
      pose proof (RE_step em rm Hok P run w Hw ltac:(lia)) as S. cbv zeta in S. fold u lb in S. rewrite Hd in S.
      cbn [emitted] in S. destruct S as (_ & S). fold ur in S.
      split.
      { change (38 :: run ++ w) with (u ++ w). rewrite S.
        rewrite (W_seg em rm Hok (P ++ r) ur w Hurn).
        replace ((P ++ r) ++ ur ++ w) with (((P ++ r) ++ ur) ++ w) by (lnorm; reflexivity).
        replace (len (P ++ r) + len ur) with (len ((P ++ r) ++ ur)) by (rewrite !len_app; lia).
        rewrite E1. lnorm. reflexivity. }
      split.
      { (* second pass: over the replacement, over the rest of the window, then as the induction says *)
        set (tail := ur ++ T2).
        assert (Wr : RE (P ++ r ++ tail) (len P) = RE (P ++ r ++ tail) (len P + len r)).
        { destruct Hshape as [[-> Hcls]|[[_ Hin]|(c0 & Hin)]]; [|apply (inert_walk em rm Hok r Hin)|].
          - change (len [38]) with 1.
            assert (Htail : cls (getz tail 0) = false).
            { unfold tail. destruct ur as [|x ur'] eqn:Eur.
              - cbn [app]. destruct w as [|s w'].
                + cbn [FB] in F2. rewrite F2. reflexivity.
                + cbn [FB] in F2. destruct F2 as (h0 & T0 & -> & F2). rewrite getz_0.
                  destruct (s =? 38) eqn:Es.
                  * destruct F2 as [->|F2]; [reflexivity|].
                    assert (Hl : look_behind (rev ((P ++ [38]) ++ [])) 1 = true).
                    { rewrite app_nil_r, rev_app_distr. reflexivity. }
                    specialize (F2 Hl). rewrite cont_start_cls in F2. destruct (cls h0); [discriminate F2|reflexivity].
                  * subst h0. apply stop_tail_iff in Hw. rewrite getz_0, cont_start_cls in Hw.
                    destruct (cls s); [discriminate Hw|reflexivity].
              - cbn [app]. rewrite getz_0.
                assert (Ex : x = getz u (off + 1)).
                { rewrite (split_at u (off + 1)). fold ur. rewrite Eur.
                  replace (off + 1) with (len (firstz (off + 1) u)) at 2 by (apply len_firstz; lia).
                  rewrite getz_app_len. reflexivity. }
                rewrite Ex. exact Hcls. }
            change ([38] ++ tail) with (38 :: [] ++ tail).
            rewrite (W_window em rm Hok P [] tail 0 eq_refl); [change (len (@nil Z)) with 0; f_equal; lia|change (len (@nil Z)) with 0; lia|].
            intros run3 w3 Et Hr3 Hw3. cbn [app]. apply decide_nobody. apply (cls_head_tail run3 w3). rewrite <- Et. exact Htail.
          - (* a reverse-map reference: kept by the decision whatever follows *)
            destruct (rm_stable_entry em rm c0 r Hrm Hin) as (t & -> & Hq3 & Hq59 & Hqt & Hqk).
            destruct (Hqk lb) as [dq Hdq]. pose proof (decide_range em rm lb (38 :: t) ltac:(lia)) as Rq. rewrite Hdq in Rq.
            change ((38 :: t) ++ tail) with (38 :: t ++ tail).
            rewrite (W_window em rm Hok P t tail dq Hqt); [f_equal; rewrite len_cons; lia|rewrite len_cons in Rq; lia|].
            intros run3 w3 Et Hr3 Hw3.
            pose proof (last_split (38 :: t) ltac:(lia)) as Els. rewrite Hq59 in Els.
            replace (38 :: t ++ run3) with ((firstz (len (38 :: t) - 1) (38 :: t) ++ 59 :: []) ++ run3)
              by (rewrite <- Els; reflexivity).
            apply decide_ext; [rewrite len_firstz by lia; lia|]. rewrite <- Els. exact Hdq. }
        fold tail. rewrite Wr. unfold tail.
        replace (P ++ r ++ ur ++ T2) with ((P ++ r) ++ ur ++ T2) by (lnorm; reflexivity).
        replace (len P + len r) with (len (P ++ r)) by (rewrite len_app; reflexivity).
        rewrite (W_seg em rm Hok (P ++ r) ur T2 Hurn).
        replace ((P ++ r) ++ ur ++ T2) with (((P ++ r) ++ ur) ++ T2) by (lnorm; reflexivity).
        replace (len (P ++ r) + len ur) with (len ((P ++ r) ++ ur)) by (rewrite !len_app; lia).
        rewrite E2. lnorm. reflexivity. }
      split; [rewrite len_cons, !len_app; lia|].
      cbn [FB]. destruct r as [|h r']; [congruence|]. exists h, (r' ++ ur ++ T2). split; [reflexivity|].
      right. intros Hl. cbn [hd] in Hg. fold lb in Hl. rewrite Hl, andb_true_r in Hg. exact Hg.
  Qed.

  Lemma entities_idempotent_proof : forall b, exists o,
    replace_entities em rm b = Ok o /\ replace_entities em rm o = Ok o.
  Proof using Hok Hst Hrm.
    intros b. destruct (two_all (length b) b [] (le_n _)) as (T & E1 & E2 & _).
    cbn [app] in *. change (len (@nil Z)) with 0 in *. exists T.
    rewrite !(replace_entities_RE em rm Hok). split; assumption.
  Qed.
End Main.

(* the hypotheses are met by maps of the shape HTML entity tables have *)
Example stable_maps_example :
  maps_ok demo_em demo_rm = true /\ em_stable demo_em /\ rm_stable demo_em demo_rm = true.
Proof.
  split; [reflexivity|]. split; [|reflexivity].
  intros name r Hin. cbn [demo_em In] in Hin.
  destruct Hin as [E|[E|[E|[E|[]]]]]; injection E as _ <-.
  - left. reflexivity.
  - right. split; [discriminate|]. apply IS_byte; [discriminate|apply IS_nil].
  - right. split; [discriminate|]. apply IS_byte; [discriminate|apply IS_nil].
  - right. split; [discriminate|].
    apply (IS_ref [49; 57; 56] []); [discriminate|reflexivity|vm_compute; discriminate|apply IS_nil].
Qed.
