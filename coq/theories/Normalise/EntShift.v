(* Normalise/EntShift.v — what replaceEntities writes (splice) and that it only looks at the bytes from
   index i on (shift invariance). *)
From Coq Require Import ZifyBool.
From Verif Require Import Common.Base Common.Tactics Normalise.Model Normalise.Spec
  Normalise.WsProofs Normalise.EscProofs Normalise.EntProofs.

Lemma split_at {A} (b : list A) n : b = firstz n b ++ skipz n b.
Proof. unfold firstz, skipz. symmetry. apply firstn_skipn. Qed.

Lemma copy_in_parts P Q1 Q2 r : len Q1 = len r ->
  copy_in (P ++ Q1 ++ Q2) (len P) r = Ok (P ++ r ++ Q2, len r).
Proof.
  intros H. pose proof (len_nonneg P). pose proof (len_nonneg Q1). pose proof (len_nonneg Q2).
  unfold copy_in, slice_ok. rewrite !len_app.
  replace ((0 <=? len P) && (len P <=? len P + (len Q1 + len Q2)) && (len P + (len Q1 + len Q2) <=? len P + (len Q1 + len Q2)))
    with true by lia.
  replace (Z.min (len P + (len Q1 + len Q2) - len P) (len r)) with (len r) by lia.
  rewrite firstz_app_len. rewrite (firstz_all r) by lia.
  rewrite skipz_add by lia. rewrite <- H. rewrite skipz_app_len. reflexivity.
Qed.

Lemma splice_parts P Q1 Q2 S r : len Q1 = len r -> 1 <= len Q1 + len Q2 ->
  splice (P ++ Q1 ++ Q2 ++ S) (len P) (len P + len Q1 + len Q2 - 1) r = Ok (P ++ r ++ S, len P + len r - 1).
Proof.
  intros H Hn. pose proof (len_nonneg P). pose proof (len_nonneg Q1). pose proof (len_nonneg Q2). pose proof (len_nonneg S).
  unfold splice. rewrite (copy_in_parts P Q1 (Q2 ++ S) r H). cbn [rbind].
  replace (P ++ r ++ Q2 ++ S) with ((P ++ r) ++ Q2 ++ S ++ []) by (rewrite app_nil_r, <- !app_assoc; reflexivity).
  replace (len P + len r) with (len (P ++ r)) by (rewrite len_app; reflexivity).
  replace (len P + len Q1 + len Q2 - 1 + 1) with (len (P ++ r) + len Q2) by (rewrite len_app; lia).
  replace (len ((P ++ r) ++ Q2 ++ S ++ [])) with (len (P ++ r) + len Q2 + len S)
    by (rewrite !len_app; change (len (@nil Z)) with 0; lia).
  rewrite copy_within_gen. cbn [rbind].
  unfold slice_ok. rewrite !len_app.
  match goal with |- (if ?c then _ else _) = _ => replace c with true by lia end.
  match goal with |- context [firstz ?n _] => replace n with (len ((P ++ r) ++ S)) by (rewrite !len_app; lia) end.
  rewrite app_assoc. rewrite firstz_app_len. rewrite <- app_assoc. reflexivity.
Qed.

Lemma splice_spec b i j r : 0 <= i -> i <= j -> j < len b -> len r <= j + 1 - i ->
  splice b i j r = Ok (firstz i b ++ r ++ skipz (j + 1) b, i + len r - 1).
Proof.
  intros Hi Hij Hj Hr. pose proof (len_nonneg r) as Hr0.
  set (P := firstz i b). set (X := skipz i b).
  assert (HP : len P = i) by (unfold P; apply len_firstz; lia).
  assert (HX : len X = len b - i) by (unfold X; apply len_skipz; lia).
  set (Q1 := firstz (len r) X). set (Y := skipz (len r) X).
  assert (HQ1 : len Q1 = len r) by (unfold Q1; apply len_firstz; lia).
  assert (HY : len Y = len b - i - len r) by (unfold Y; rewrite len_skipz; lia).
  set (Q2 := firstz (j + 1 - i - len r) Y). set (S := skipz (j + 1 - i - len r) Y).
  assert (HQ2 : len Q2 = j + 1 - i - len r) by (unfold Q2; apply len_firstz; lia).
  assert (Hb : b = P ++ Q1 ++ Q2 ++ S).
  { unfold P, Q1, Q2, S, Y, X. rewrite <- !split_at. reflexivity. }
  assert (HS : skipz (j + 1) b = S).
  { assert (Hb2 : b = (P ++ Q1 ++ Q2) ++ S) by (rewrite Hb at 1; rewrite <- !app_assoc; reflexivity).
    rewrite Hb2 at 1. replace (j + 1) with (len (P ++ Q1 ++ Q2)) by (rewrite !len_app; lia).
    apply skipz_app_len. }
  rewrite HS. rewrite Hb at 1.
  replace i with (len P) at 1 2 by exact HP.
  replace j with (len P + len Q1 + len Q2 - 1) by lia.
  apply splice_parts; [exact HQ1|lia].
Qed.

(* ---- reading relative to the '&' ----------------------------------------------------------------------- *)
Lemma getz_shift P l k : 0 <= k -> getz (P ++ l) (len P + k) = getz l k.
Proof.
  intros Hk. unfold getz. pose proof (len_nonneg P). rewrite peekz_app_r by lia.
  replace (len P + k - len P) with k by lia. reflexivity.
Qed.
Lemma rd_shift P l k : 0 <= k -> rd (P ++ l) (len P + k) = rd l k.
Proof.
  intros Hk. unfold rd. pose proof (len_nonneg P). rewrite peekz_app_r by lia.
  replace (len P + k - len P) with k by lia. reflexivity.
Qed.
Lemma rd_getz l k : 0 <= k < len l -> rd l k = Ok (getz l k).
Proof. intros H. unfold rd, getz. destruct (peekz_in_range l k H) as [c ->]. reflexivity. Qed.
Lemma getz_oob l k : ~ (0 <= k < len l) -> getz l k = 0.
Proof. intros H. unfold getz. apply peekz_none_iff in H. rewrite H. reflexivity. Qed.
Lemma getz_nonzero l k : getz l k <> 0 -> 0 <= k < len l.
Proof.
  intros H. destruct (Z_le_dec 0 k); [destruct (Z_lt_dec k (len l)); [lia|]|];
    exfalso; apply H; apply getz_oob; lia.
Qed.
Lemma getz_at_len u w : getz (u ++ w) (len u) = getz w 0.
Proof. replace (len u) with (len u + 0) by lia. apply getz_shift. lia. Qed.
Lemma slice_shift {A} (P l : list A) lo hi : 0 <= lo -> slice (P ++ l) (len P + lo) (len P + hi) = slice l lo hi.
Proof.
  intros Hlo. unfold slice. rewrite skipz_add by lia. f_equal. lia.
Qed.

(* the first byte after u stops every scan and matches none of the bytes replaceEntities looks for *)
Definition stop_tail (w : list Z) : Prop :=
  is_alnum (getz w 0) = false /\ getz w 0 <> 35 /\ getz w 0 <> 59.

Lemma stop_tail_nil : stop_tail [].
Proof. repeat split; discriminate. Qed.
Lemma stop_tail_ws s z : ws5 s = true -> stop_tail (s :: z).
Proof.
  intros H. unfold stop_tail. change (getz (s :: z) 0) with s. unfold ws5 in H. unfold is_alnum, is_digit.
  repeat split; lia.
Qed.

Section Tail.
  Variables (u w : list Z).
  Hypothesis Hw : stop_tail w.

  Lemma getz_tail_cases k : 0 <= k <= len u -> getz (u ++ w) k = getz u k \/ (k = len u /\ getz (u ++ w) k = getz w 0 /\ getz u k = 0).
  Proof using Hw.
    intros Hk. destruct (Z.eq_dec k (len u)) as [->|Hne].
    - right. split; [reflexivity|]. split; [apply getz_at_len|apply getz_oob; lia].
    - left. apply getz_app_l. lia.
  Qed.
  Lemma getz_tail_35 k : 0 <= k <= len u -> (getz (u ++ w) k =? 35) = (getz u k =? 35).
  Proof using Hw. intros Hk. destruct Hw as (_ & H35 & _). destruct (getz_tail_cases k Hk) as [->|(_ & -> & ->)]; [reflexivity|lia]. Qed.
  Lemma getz_tail_59 k : 0 <= k <= len u -> (getz (u ++ w) k =? 59) = (getz u k =? 59).
  Proof using Hw. intros Hk. destruct Hw as (_ & _ & H59). destruct (getz_tail_cases k Hk) as [->|(_ & -> & ->)]; [reflexivity|lia]. Qed.
  Lemma getz_tail_120 k : 0 <= k <= len u -> (getz (u ++ w) k =? 120) = (getz u k =? 120).
  Proof using Hw.
    intros Hk. destruct Hw as (Ha & _ & _). destruct (getz_tail_cases k Hk) as [->|(_ & -> & ->)]; [reflexivity|].
    unfold is_alnum, is_digit in Ha. lia.
  Qed.
  Lemma getz_tail_alnum k : 0 <= k <= len u -> is_alnum (getz (u ++ w) k) = is_alnum (getz u k).
  Proof using Hw. intros Hk. destruct Hw as (Ha & _ & _). destruct (getz_tail_cases k Hk) as [->|(_ & -> & ->)]; [reflexivity|]. rewrite Ha. reflexivity. Qed.

  Lemma tail_not_hex : is_hex (getz w 0) = false.
  Proof using Hw. destruct Hw as (Ha & _ & _). unfold is_alnum, is_hex, is_digit in *. lia. Qed.
  Lemma tail_not_digit : is_digit (getz w 0) = false.
  Proof using Hw. destruct Hw as (Ha & _ & _). unfold is_alnum, is_digit in *. lia. Qed.

End Tail.

Lemma scan_hex_tail w x : stop_tail w -> forall acc, scan_hex (x ++ w) acc = scan_hex x acc.
Proof.
  intros Hw. induction x as [|c t IH]; intros acc.
  - cbn [app]. pose proof (tail_not_hex w Hw) as H. destruct w as [|s z]; [reflexivity|]. rewrite scan_hex_cons.
    change (getz (s :: z) 0) with s in H. rewrite H, andb_false_r. reflexivity.
  - cbn [app]. rewrite !scan_hex_cons. rewrite IH. reflexivity.
Qed.
Lemma scan_dec_tail w x : stop_tail w -> forall acc, scan_dec (x ++ w) acc = scan_dec x acc.
Proof.
  intros Hw. induction x as [|c t IH]; intros acc.
  - cbn [app]. pose proof (tail_not_digit w Hw) as H. destruct w as [|s z]; [reflexivity|]. rewrite scan_dec_cons.
    change (getz (s :: z) 0) with s in H. rewrite H, andb_false_r. reflexivity.
  - cbn [app]. rewrite !scan_dec_cons. rewrite IH. reflexivity.
Qed.
Lemma scan_name_tail w x : stop_tail w -> forall cnt, scan_name (x ++ w) cnt = scan_name x cnt.
Proof.
  intros Hw. induction x as [|c t IH]; intros cnt.
  - cbn [app]. destruct Hw as (Ha & _ & _). destruct w as [|s z]; [reflexivity|]. rewrite scan_name_cons.
    change (getz (s :: z) 0) with s in Ha. rewrite Ha, andb_false_r. reflexivity.
  - cbn [app]. rewrite !scan_name_cons. rewrite IH. reflexivity.
Qed.

Lemma scan_hex_le l : forall acc n v, scan_hex l acc = (n, v) -> n <= len l.
Proof.
  induction l as [|c t IH]; intros acc n v H; [cbn [scan_hex] in H|rewrite scan_hex_cons in H].
  - apply pair_equal_spec in H. destruct H as [<- _]. change (len (@nil Z)) with 0. lia.
  - rewrite len_cons. pose proof (len_nonneg t). destruct ((acc <? 65536) && is_hex c).
    + destruct (scan_hex t _) as [n1 v1] eqn:E1. apply pair_equal_spec in H. destruct H as [<- _].
      apply IH in E1. lia.
    + apply pair_equal_spec in H. destruct H as [<- _]. lia.
Qed.
Lemma scan_dec_le l : forall acc n v, scan_dec l acc = (n, v) -> n <= len l.
Proof.
  induction l as [|c t IH]; intros acc n v H; [cbn [scan_dec] in H|rewrite scan_dec_cons in H].
  - apply pair_equal_spec in H. destruct H as [<- _]. change (len (@nil Z)) with 0. lia.
  - rewrite len_cons. pose proof (len_nonneg t). destruct ((acc <? 128) && is_digit c).
    + destruct (scan_dec t _) as [n1 v1] eqn:E1. apply pair_equal_spec in H. destruct H as [<- _].
      apply IH in E1. lia.
    + apply pair_equal_spec in H. destruct H as [<- _]. lia.
Qed.
Lemma scan_name_le l : forall cnt, scan_name l cnt <= len l.
Proof.
  induction l as [|c t IH]; intros cnt; [cbn [scan_name]; change (len (@nil Z)) with 0; lia|].
  rewrite scan_name_cons, len_cons. pose proof (len_nonneg t).
  destruct ((cnt <=? 31) && negb (c =? 59) && is_alnum c); [specialize (IH (cnt + 1)); lia|lia].
Qed.

(* ---- the decision replaceEntities takes, as a function of the bytes from '&' up to the first stopper ----- *)
Lemma slice_shift0 {A} (P l : list A) hi : slice (P ++ l) (len P) (len P + hi) = slice l 0 hi.
Proof. replace (len P) with (len P + 0) at 1 by lia. apply slice_shift. lia. Qed.

Section Decide.
  Variable em : list (list Z * list Z).
  Variable rm : list (Z * list Z).

  (* lb: the look-behind from the '&' found an ampersand sequence (or was too far to tell) *)
  Variable lb : bool.
  Notation dguard := (dguard lb).
  Notation dfinish := (dfinish rm lb).
  Notation decide := (decide em rm lb).

  Definition apply_dec (P l : list Z) (d : decision) : result (list Z * Z) :=
    match d with
    | Keep d => Ok (P ++ l, len P + d)
    | Repl off r => splice (P ++ l) (len P) (len P + off) r
    end.

  Lemma guard_dec P l off r : look_behind (rev P) 1 = lb ->
    guard_splice (P ++ l) (len P) (len P + off) r = apply_dec P l (dguard off r).
  Proof.
    intros Hlb. unfold guard_splice, dguard. rewrite firstz_app_len, Hlb.
    destruct r as [|c r']; [reflexivity|]. destruct (cont_start c && lb); reflexivity.
  Qed.

  Lemma ent_finish_dec P u w off r : look_behind (rev P) 1 = lb -> stop_tail w -> 0 <= off <= len u ->
    ent_finish rm (P ++ u ++ w) (len P) (len P + off) r = apply_dec P (u ++ w) (dfinish u off r).
  Proof.
    intros Hlb Hw Hoff. pose proof (len_nonneg P). pose proof (len_nonneg w). pose proof (len_nonneg u).
    unfold ent_finish, dfinish.
    replace (len P + off + 1 - len P) with (off + 1) by lia.
    rewrite getz_shift by lia. rewrite (getz_tail_59 u w Hw) by lia.
    destruct (getz u off =? 59) eqn:E59.
    - assert (Hin : 0 <= off < len u) by (apply getz_nonzero; lia).
      replace (len P + off <? len (P ++ u ++ w)) with true by (rewrite !len_app; lia).
      replace (off <? len u) with true by lia. cbn [andb].
      destruct (2 <? off + 1); [|cbn [apply_dec]; rewrite Z.add_0_r; reflexivity].
      destruct r as [|c [|c2 r2]]; try (apply guard_dec; exact Hlb).
      destruct (lookup_byte rm c) as [q|].
      + replace (len P + off + 1) with (len P + (off + 1)) by lia.
        rewrite slice_shift0. rewrite slice_app_l by lia.
        destruct (list_eqb q (slice u 0 (off + 1))); [reflexivity|].
        replace (len P + (off + 1)) with (len P + off + 1) by lia. apply guard_dec; exact Hlb.
      + destruct (c =? 38); [|apply guard_dec; exact Hlb].
        replace (len P + off + 1) with (len P + (off + 1)) by lia.
        rewrite getz_shift by lia.
        rewrite (getz_tail_alnum u w Hw) by lia. rewrite (getz_tail_35 u w Hw) by lia.
        destruct (is_alnum (getz u (off + 1)) || (getz u (off + 1) =? 35)) eqn:G.
        * assert (Hk : 0 <= off + 1 < len u).
          { apply getz_nonzero. intros Z0. rewrite Z0 in G. discriminate G. }
          replace (len P + (off + 1) <? len (P ++ u ++ w)) with true by (rewrite !len_app; lia).
          replace (off + 1 <? len u) with true by lia. reflexivity.
        * rewrite !andb_false_r. replace (len P + (off + 1)) with (len P + off + 1) by lia. apply guard_dec; exact Hlb.
    - rewrite !andb_false_r. cbn [andb apply_dec]. rewrite Z.add_0_r. reflexivity.
  Qed.

  Lemma replace_at_dec P u w : look_behind (rev P) 1 = lb -> stop_tail w -> 1 <= len u -> 3 < len u + len w ->
    replace_at em rm (P ++ u ++ w) (len P) = apply_dec P (u ++ w) (decide u).
  Proof.
    intros Hlb Hw Hu Hl. pose proof (len_nonneg P). pose proof (len_nonneg w).
    unfold replace_at, decide.
    rewrite rd_shift by lia. rewrite rd_getz by (rewrite len_app; lia). cbn [rbind].
    rewrite (getz_tail_35 u w Hw) by lia.
    destruct (getz u 1 =? 35) eqn:E1.
    - assert (H1 : 0 <= 1 < len u) by (apply getz_nonzero; lia).
      rewrite rd_shift by lia. rewrite rd_getz by (rewrite len_app; lia). cbn [rbind].
      rewrite (getz_tail_120 u w Hw) by lia.
      destruct (getz u 2 =? 120) eqn:E2.
      + assert (H2 : 0 <= 2 < len u) by (apply getz_nonzero; lia).
        rewrite skipz_add by lia. rewrite skipz_app_le by lia. rewrite (scan_hex_tail w _ Hw).
        destruct (scan_hex (skipz 3 u) 0) as [nd c] eqn:E.
        pose proof (scan_hex_bound _ _ _ _ E) as Hn0. pose proof (scan_hex_le _ _ _ _ E) as Hn1.
        rewrite len_skipz in Hn1 by lia.
        replace (len P + 3 + nd <=? len P + 3) with (3 + nd <=? 3) by lia.
        destruct ((3 + nd <=? 3) || (10000 <=? c)).
        * cbn [apply_dec]. f_equal. f_equal. lia.
        * replace (len P + 3 + nd) with (len P + (3 + nd)) by lia. apply ent_finish_dec; [exact Hlb|exact Hw|lia].
      + rewrite skipz_add by lia. rewrite skipz_app_le by lia. rewrite (scan_dec_tail w _ Hw).
        destruct (scan_dec (skipz 2 u) 0) as [nd c] eqn:E.
        pose proof (scan_dec_bound _ _ _ _ (Z.le_refl 0) E) as [Hn0 _]. pose proof (scan_dec_le _ _ _ _ E) as Hn1.
        rewrite len_skipz in Hn1 by lia.
        replace (len P + 2 + nd <=? len P + 2) with (2 + nd <=? 2) by lia.
        destruct ((2 + nd <=? 2) || (128 <=? c)).
        * cbn [apply_dec]. f_equal. f_equal. lia.
        * replace (len P + 2 + nd) with (len P + (2 + nd)) by lia. apply ent_finish_dec; [exact Hlb|exact Hw|lia].
    - rewrite skipz_add by lia. rewrite skipz_app_le by lia. rewrite (scan_name_tail w _ Hw).
      pose proof (scan_name_nonneg (skipz 1 u) 0) as Hn0. pose proof (scan_name_le (skipz 1 u) 0) as Hn1.
      rewrite len_skipz in Hn1 by lia.
      set (n := scan_name (skipz 1 u) 0) in *.
      replace (len P + 1 + n) with (len P + (1 + n)) by lia.
      rewrite getz_shift by lia. rewrite (getz_tail_59 u w Hw) by lia.
      replace (len P + (1 + n) =? len P + 1) with (1 + n =? 1) by lia.
      destruct (getz u (1 + n) =? 59) eqn:E59.
      + assert (Hin : 0 <= 1 + n < len u) by (apply getz_nonzero; lia).
        replace (len (P ++ u ++ w) <=? len P + (1 + n)) with false by (rewrite !len_app; lia).
        cbn [orb negb]. rewrite orb_false_r.
        destruct (1 + n =? 1).
        * cbn [apply_dec]. rewrite Z.add_0_r. reflexivity.
        * replace (len P + 1) with (len P + 1) by lia. rewrite slice_shift by lia. rewrite slice_app_l by lia.
          destruct (lookup_name em (slice u 1 (1 + n))) as [r|]; [|reflexivity].
          apply ent_finish_dec; [exact Hlb|exact Hw|lia].
      + cbn [negb]. rewrite !orb_true_r. cbn [apply_dec]. rewrite Z.add_0_r. reflexivity.
  Qed.
End Decide.

(* ---- facts about the decision -------------------------------------------------------------------------- *)
Lemma dguard_range lb (u : list Z) off r : 0 <= off < len u -> 2 <= off ->
  match dguard lb off r with Keep d => 0 <= d < len u | Repl o _ => 2 <= o < len u end.
Proof. intros H H2. unfold dguard. destruct r as [|c r']; [lia|]. destruct (cont_start c && lb); lia. Qed.

Lemma dfinish_range rm lb u off r : 1 <= len u -> 0 <= off ->
  match dfinish rm lb u off r with Keep d => 0 <= d < len u | Repl o _ => 2 <= o < len u end.
Proof.
  intros Hu Hoff. unfold dfinish.
  destruct ((off <? len u) && (getz u off =? 59) && (2 <? off + 1)) eqn:C; [|lia].
  destruct r as [|c [|c2 r2]]; try (apply dguard_range; lia).
  destruct (lookup_byte rm c) as [q|].
  - destruct (list_eqb q (slice u 0 (off + 1))); [lia|apply dguard_range; lia].
  - destruct (c =? 38); [|apply dguard_range; lia].
    destruct ((off + 1 <? len u) && (is_alnum (getz u (off + 1)) || (getz u (off + 1) =? 35))) eqn:G;
      [lia|apply dguard_range; lia].
Qed.

Lemma decide_range em rm lb u : 1 <= len u ->
  match decide em rm lb u with Keep d => 0 <= d < len u | Repl o _ => 2 <= o < len u end.
Proof.
  intros Hu. unfold decide.
  destruct (getz u 1 =? 35) eqn:E1.
  - assert (H1 : 0 <= 1 < len u) by (apply getz_nonzero; lia).
    destruct (getz u 2 =? 120) eqn:E2.
    + assert (H2 : 0 <= 2 < len u) by (apply getz_nonzero; lia).
      destruct (scan_hex (skipz 3 u) 0) as [nd c] eqn:E.
      pose proof (scan_hex_bound _ _ _ _ E) as Hn0. pose proof (scan_hex_le _ _ _ _ E) as Hn1.
      rewrite len_skipz in Hn1 by lia.
      destruct ((3 + nd <=? 3) || (10000 <=? c)); [lia|]. apply dfinish_range; lia.
    + destruct (scan_dec (skipz 2 u) 0) as [nd c] eqn:E.
      pose proof (scan_dec_bound _ _ _ _ (Z.le_refl 0) E) as [Hn0 _]. pose proof (scan_dec_le _ _ _ _ E) as Hn1.
      rewrite len_skipz in Hn1 by lia.
      destruct ((2 + nd <=? 2) || (128 <=? c)); [lia|]. apply dfinish_range; lia.
  - pose proof (scan_name_nonneg (skipz 1 u) 0) as Hn0.
    set (n := scan_name (skipz 1 u) 0) in *.
    destruct ((1 + n =? 1) || negb (getz u (1 + n) =? 59)) eqn:C; [lia|].
    assert (Hin : 0 <= 1 + n < len u) by (apply getz_nonzero; lia).
    destruct (lookup_name em (slice u 1 (1 + n))); [apply dfinish_range; lia|lia].
Qed.

(* the look-behind only turns replacements into "keep" *)
Definition repl_of_false (d d0 : decision) : Prop :=
  match d with Repl o r => d0 = Repl o r | Keep _ => True end.

Lemma dguard_false lb off r : repl_of_false (dguard lb off r) (dguard false off r).
Proof.
  unfold dguard, repl_of_false. destruct r as [|c r']; [reflexivity|]. rewrite andb_false_r.
  destruct (cont_start c && lb); [exact I|reflexivity].
Qed.

Lemma repl_of_false_keep d k : repl_of_false (Keep k) d.
Proof. exact I. Qed.

Lemma dfinish_false rm lb u off r : repl_of_false (dfinish rm lb u off r) (dfinish rm false u off r).
Proof.
  unfold dfinish.
  destruct ((off <? len u) && (getz u off =? 59) && (2 <? off + 1)); [|exact I].
  destruct r as [|c [|c2 r2]]; try apply dguard_false.
  destruct (lookup_byte rm c) as [q|].
  - destruct (list_eqb q (slice u 0 (off + 1))); [exact I|apply dguard_false].
  - destruct (c =? 38); [|apply dguard_false].
    destruct ((off + 1 <? len u) && (is_alnum (getz u (off + 1)) || (getz u (off + 1) =? 35))); [exact I|apply dguard_false].
Qed.

Lemma decide_false em rm lb u : repl_of_false (decide em rm lb u) (decide em rm false u).
Proof.
  unfold decide.
  destruct (getz u 1 =? 35).
  - destruct (getz u 2 =? 120).
    + destruct (scan_hex (skipz 3 u) 0) as [nd c].
      destruct ((3 + nd <=? 3) || (10000 <=? c)); [exact I|apply dfinish_false].
    + destruct (scan_dec (skipz 2 u) 0) as [nd c].
      destruct ((2 + nd <=? 2) || (128 <=? c)); [exact I|apply dfinish_false].
  - destruct ((1 + scan_name (skipz 1 u) 0 =? 1) || negb (getz u (1 + scan_name (skipz 1 u) 0) =? 59)); [exact I|].
    destruct (lookup_name em (slice u 1 (1 + scan_name (skipz 1 u) 0))); [apply dfinish_false|exact I].
Qed.

Lemma splice_ok_inv b i j r x : splice b i j r = Ok x -> len r <= j + 1 - i.
Proof.
  unfold splice. destruct (copy_in b i r) as [[b1 m1]| |]; cbn [rbind]; try discriminate.
  destruct (copy_within b1 (i + len r) (j + 1) (len b1)) as [[b2 m2]| |]; cbn [rbind]; try discriminate.
  unfold slice_ok. destruct ((0 <=? 0) && (0 <=? len b - (j + 1 - i) + len r) && (len b - (j + 1 - i) + len r <=? len b)) eqn:C;
    [|discriminate]. intros _. lia.
Qed.

Lemma decide_repl_len em rm lb u off r : maps_ok em rm = true -> 1 <= len u ->
  decide em rm lb u = Repl off r -> len r <= off + 1.
Proof.
  intros Hok Hu Hd0. pose proof (decide_false em rm lb u) as F. rewrite Hd0 in F. cbn [repl_of_false] in F.
  rename F into Hd. pose proof (decide_range em rm false u Hu) as R. rewrite Hd in R.
  assert (Hw : stop_tail [32]) by (apply stop_tail_ws; reflexivity).
  pose proof (replace_at_dec em rm false [] u [32] eq_refl Hw Hu) as E.
  change (len [32]) with 1 in E. specialize (E ltac:(lia)). rewrite Hd in E. cbn [apply_dec app] in E.
  change (len (@nil Z)) with 0 in E.
  destruct (replace_at_ok em rm Hok (u ++ [32]) 0) as (b' & i' & E2 & _); [lia|rewrite len_app; change (len [32]) with 1; lia|].
  rewrite E in E2. apply splice_ok_inv in E2. lia.
Qed.

(* the bytes emitted for the reference and how many bytes of u they stand for *)
Definition emitted (u : list Z) (d : decision) : list Z * Z :=
  match d with Keep d => (firstz (d + 1) u, d + 1) | Repl off r => (r, off + 1) end.

Lemma replace_at_next em rm lb u w : maps_ok em rm = true -> stop_tail w -> 1 <= len u -> 3 < len u + len w ->
  let '(X, m) := emitted u (decide em rm lb u) in
  1 <= m <= len u /\
  (forall d, decide em rm lb u = Keep d -> X ++ skipz m u = u) /\
  forall P, look_behind (rev P) 1 = lb ->
    replace_at em rm (P ++ u ++ w) (len P) = Ok ((P ++ X) ++ skipz m u ++ w, len (P ++ X) - 1).
Proof.
  intros Hok Hw Hu Hl. pose proof (decide_range em rm lb u Hu) as R.
  destruct (decide em rm lb u) as [d|off r] eqn:Hd; cbn [emitted].
  - split; [lia|]. split; [intros d0 _; symmetry; apply split_at|].
    intros P HP. rewrite (replace_at_dec em rm lb P u w HP Hw Hu Hl), Hd. cbn [apply_dec].
    f_equal. f_equal.
    + rewrite <- !app_assoc. f_equal. rewrite app_assoc. f_equal. apply split_at.
    + rewrite len_app, len_firstz by lia. lia.
  - pose proof (decide_repl_len em rm lb u off r Hok Hu Hd) as Hr.
    split; [lia|]. split; [intros d0 Hd0; discriminate|].
    intros P HP. rewrite (replace_at_dec em rm lb P u w HP Hw Hu Hl), Hd. cbn [apply_dec].
    pose proof (len_nonneg P). pose proof (len_nonneg w). pose proof (len_nonneg r).
    rewrite splice_spec by (rewrite ?len_app; lia).
    rewrite firstz_app_len. replace (len P + off + 1) with (len P + (off + 1)) by lia.
    rewrite skipz_add by lia. rewrite skipz_app_le by lia.
    f_equal. f_equal.
    + rewrite <- !app_assoc. reflexivity.
    + rewrite len_app. lia.
Qed.
