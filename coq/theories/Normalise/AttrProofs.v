(* Normalise/AttrProofs.v — html/xml EscapeAttrVal: what they return, and that the in-tag lexer model
   reads the result back as one attribute value that decodes like the original. *)
From Coq Require Import ZifyBool.
From Verif Require Import Common.Base Common.Tactics Gen.Tables Normalise.Model Normalise.Spec
  Normalise.WsProofs Normalise.EscProofs.

(* ---- the escaping loop ------------------------------------------------------------------------------ *)
Lemma count_nonneg q l : 0 <= count q l.
Proof. induction l as [|c t IH]; cbn [count]; [lia|]. destruct (c =? q); lia. Qed.

Lemma esc_flat_cons q ent c t : esc_flat q ent (c :: t) = (if c =? q then ent else [c]) ++ esc_flat q ent t.
Proof. reflexivity. Qed.
Lemma esc_flat_app q ent a b : esc_flat q ent (a ++ b) = esc_flat q ent a ++ esc_flat q ent b.
Proof. unfold esc_flat. apply flat_map_app. Qed.

Lemma len_esc_flat q ent l : len (esc_flat q ent l) = len l + (len ent - 1) * count q l.
Proof.
  induction l as [|c t IH]; [cbn [count]; change (len (esc_flat q ent [])) with 0; change (len (@nil Z)) with 0; lia|].
  rewrite esc_flat_cons, len_app, IH, len_cons. cbn [count].
  destruct (c =? q); [lia|]. change (len [c]) with 1. lia.
Qed.

Lemma esc_flat_none q ent l : count q l = 0 -> esc_flat q ent l = l.
Proof.
  induction l as [|c t IH]; [reflexivity|]. cbn [count]. rewrite esc_flat_cons. pose proof (count_nonneg q t).
  destruct (c =? q); [lia|]. intros H0. rewrite IH by lia. reflexivity.
Qed.

Lemma esc_loop_spec n q ent l : forall seg out,
  len out + len seg + len (esc_flat q ent l) <= n ->
  esc_loop n q ent l seg out = out ++ seg ++ esc_flat q ent l.
Proof.
  induction l as [|c t IH]; intros seg out H.
  - cbn [esc_loop]. change (esc_flat q ent []) with (@nil Z) in *. rewrite app_nil_r. apply app_cap_fits.
    change (len (@nil Z)) with 0 in H. lia.
  - rewrite esc_flat_cons, len_app in H. cbn [esc_loop]. rewrite esc_flat_cons.
    pose proof (len_nonneg (esc_flat q ent t)) as Hn. pose proof (len_nonneg ent) as He.
    destruct (c =? q).
    + rewrite (app_cap_fits n out seg) by lia.
      rewrite app_cap_fits by (rewrite len_app; lia).
      rewrite IH by (rewrite !len_app; change (len (@nil Z)) with 0; lia).
      cbn [app]. rewrite <- !app_assoc. reflexivity.
    + change (len [c]) with 1 in H.
      rewrite IH by (rewrite len_app; change (len [c]) with 1; lia).
      rewrite <- app_assoc. reflexivity.
Qed.

Lemma esc_quoted_spec q ent b : len ent = 5 ->
  esc_quoted (len b + 2 + count q b * 4) q ent b = Ok (q :: esc_flat q ent b ++ [q]).
Proof.
  intros He. unfold esc_quoted. pose proof (len_nonneg b). pose proof (count_nonneg q b).
  replace (len b + 2 + count q b * 4 <? 1) with false by lia.
  rewrite esc_loop_spec by (rewrite len_esc_flat, He; change (len [q]) with 1; change (len (@nil Z)) with 0; lia).
  cbn [app]. rewrite len_cons, len_esc_flat, He.
  replace (1 + (len b + (5 - 1) * count q b) <? len b + 2 + count q b * 4) with true by lia.
  reflexivity.
Qed.

(* ---- decoding commutes with escaping a quote ------------------------------------------------------- *)
(* a reference of the table: '&' then bytes that are neither '&' nor the quote q *)
Definition ref_ok (q : Z) (r : list Z) : bool :=
  match r with
  | a :: body => (a =? 38) && forallb (fun c => negb (c =? 38) && negb (c =? q)) body
  | [] => false
  end.
Definition esc_tbl (q : Z) (ent : list Z) (tbl : list (list Z * Z)) : Prop :=
  forallb (fun rc => ref_ok q (fst rc)) tbl = true /\ q <> 38 /\ hd_is 38 ent = true /\
  (forall x, find_ref tbl (ent ++ x) = Some (q, length ent)).

Lemma is_prefix_esc q ent body : hd_is 38 ent = true ->
  forallb (fun c => negb (c =? 38) && negb (c =? q)) body = true ->
  forall t, is_prefix body (esc_flat q ent t) = is_prefix body t.
Proof.
  intros He. induction body as [|x body IH]; intros Hb t; [reflexivity|].
  cbn [forallb] in Hb. apply andb_true_iff in Hb. destruct Hb as [Hx Hb].
  destruct t as [|c t]; [reflexivity|]. rewrite esc_flat_cons.
  destruct (c =? q) eqn:E.
  - destruct ent as [|e ent']; [discriminate|]. cbn [hd_is] in He. cbn [app is_prefix].
    replace (x =? e) with false by lia. replace (x =? c) with false by lia. reflexivity.
  - cbn [app is_prefix]. rewrite IH by exact Hb. reflexivity.
Qed.

Lemma find_ref_esc q ent tbl t : hd_is 38 ent = true ->
  forallb (fun rc => ref_ok q (fst rc)) tbl = true ->
  find_ref tbl (38 :: esc_flat q ent t) = find_ref tbl (38 :: t).
Proof.
  intros He. induction tbl as [|[r ch] tl IH]; intros Ht; [reflexivity|].
  cbn [forallb fst] in Ht. apply andb_true_iff in Ht. destruct Ht as [Hr Ht].
  cbn [find_ref]. destruct r as [|a body]; [discriminate|]. cbn [ref_ok] in Hr.
  apply andb_true_iff in Hr. destruct Hr as [Ha Hb]. cbn [is_prefix].
  rewrite (is_prefix_esc q ent body He Hb). rewrite IH by exact Ht. reflexivity.
Qed.

Lemma find_ref_prefix tbl l ch n : find_ref tbl l = Some (ch, n) ->
  exists r, In (r, ch) tbl /\ n = length r /\ is_prefix r l = true.
Proof.
  induction tbl as [|[r c] tl IH]; cbn [find_ref]; [discriminate|].
  destruct (is_prefix r l) eqn:E.
  - intros H. injection H as <- <-. exists r. split; [left; reflexivity|]. split; [reflexivity|exact E].
  - intros H. destruct (IH H) as (r' & Hin & Hn & Hp). exists r'. split; [right; exact Hin|]. split; assumption.
Qed.

Lemma is_prefix_split p : forall l, is_prefix p l = true -> exists rest, l = p ++ rest.
Proof.
  induction p as [|x p IH]; intros l H; [exists l; reflexivity|].
  destruct l as [|y l]; [discriminate|]. cbn [is_prefix] in H. apply andb_true_iff in H. destruct H as [Hx Hp].
  apply Z.eqb_eq in Hx. subst y. destruct (IH l Hp) as [rest ->]. exists rest. reflexivity.
Qed.

Lemma esc_flat_free q ent body : forallb (fun c => negb (c =? 38) && negb (c =? q)) body = true ->
  esc_flat q ent body = body.
Proof.
  induction body as [|x body IH]; [reflexivity|]. cbn [forallb]. intros H. apply andb_true_iff in H.
  destruct H as [Hx Hb]. rewrite esc_flat_cons. replace (x =? q) with false by lia. rewrite IH by exact Hb. reflexivity.
Qed.

Lemma decode_esc q ent tbl : esc_tbl q ent tbl ->
  forall n l, (length l <= n)%nat -> decode tbl (esc_flat q ent l) = decode tbl l.
Proof.
  intros (Ht & Hq & He & Hent). unfold decode. induction n as [|n IH]; intros l Hn.
  - destruct l; [reflexivity|cbn [length] in Hn; lia].
  - destruct l as [|c t]; [reflexivity|]. cbn [length] in Hn. rewrite esc_flat_cons.
    destruct (c =? q) eqn:Ecq.
    + apply Z.eqb_eq in Ecq. subst c.
      destruct ent as [|e ent']; [discriminate|]. cbn [app].
      rewrite (decode_refs_hit tbl e ent' (esc_flat q (e :: ent') t) q) by (apply (Hent (esc_flat q (e :: ent') t))).
      rewrite decode_refs_miss.
      2:{ apply find_ref_not_amp; [|exact Hq]. unfold refs_start_amp.
          rewrite forallb_forall in *. intros rc Hin. specialize (Ht rc Hin).
          destruct (fst rc) as [|a body]; [discriminate|]. cbn [ref_ok] in Ht. cbn [hd_is]. lia. }
      rewrite IH by lia. reflexivity.
    + cbn [app]. destruct (c =? 38) eqn:Ec38.
      * apply Z.eqb_eq in Ec38. subst c.
        destruct (find_ref tbl (38 :: t)) as [[ch m]|] eqn:Ef.
        -- destruct (find_ref_prefix _ _ _ _ Ef) as (r & Hin & -> & Hp).
           rewrite forallb_forall in Ht. pose proof (Ht _ Hin) as Hr. cbn [fst] in Hr.
           destruct r as [|a body]; [discriminate|]. cbn [ref_ok] in Hr. apply andb_true_iff in Hr.
           destruct Hr as [Ha Hb]. cbn [is_prefix] in Hp. apply andb_true_iff in Hp. destruct Hp as [_ Hp].
           destruct (is_prefix_split _ _ Hp) as [t2 ->].
           rewrite esc_flat_app, (esc_flat_free q ent body Hb).
           assert (Ef2 : find_ref tbl (38 :: body ++ esc_flat q ent t2) = Some (ch, length (38 :: body))).
           { rewrite <- (esc_flat_free q ent body Hb) at 1. rewrite <- esc_flat_app.
             rewrite find_ref_esc; [exact Ef|exact He|]. rewrite forallb_forall. exact Ht. }
           rewrite (decode_refs_hit tbl 38 body _ ch Ef2).
           replace (length (38 :: body)) with (length (38 :: body)) in Ef by reflexivity.
           rewrite (decode_refs_hit tbl 38 body t2 ch Ef).
           rewrite IH; [reflexivity|]. rewrite app_length in Hn. lia.
        -- rewrite decode_refs_miss by (rewrite find_ref_esc; [exact Ef|exact He|exact Ht]).
           rewrite decode_refs_miss by exact Ef. rewrite IH by lia. reflexivity.
      * assert (Hne : c <> 38) by lia.
        assert (Hs : refs_start_amp tbl = true).
        { unfold refs_start_amp. rewrite forallb_forall in *. intros rc Hin. specialize (Ht rc Hin).
          destruct (fst rc) as [|a body]; [discriminate|]. cbn [ref_ok] in Ht. cbn [hd_is]. lia. }
        rewrite !decode_refs_miss by (apply find_ref_not_amp; assumption).
        rewrite IH by lia. reflexivity.
Qed.

Lemma std_refs_esc_dq : esc_tbl 34 ent_dq std_refs.
Proof. split; [reflexivity|]. split; [lia|]. split; [reflexivity|]. intros x. reflexivity. Qed.
Lemma std_refs_esc_sq : esc_tbl 39 ent_sq std_refs.
Proof. split; [reflexivity|]. split; [lia|]. split; [reflexivity|]. intros x. reflexivity. Qed.

(* ---- what the escapers return -------------------------------------------------------------------------- *)
Lemma char_table_char7 c : tblz html_char_table c = char7 c.
Proof. apply tbl_sweep; try reflexivity; intros x Hx; unfold char7, ws5; lia. Qed.

Ltac trip := apply pair_equal_spec; split; [apply pair_equal_spec; split; lia|].

Lemma html_scan_spec l : forall s d u,
  html_scan l s d u = (s + count 39 l, d + count 34 l, u && plain l).
Proof.
  induction l as [|c t IH]; intros s d u.
  - cbn [html_scan count plain forallb]. trip. rewrite andb_true_r. reflexivity.
  - cbn [html_scan count plain forallb]. rewrite char_table_char7. fold (plain t).
    destruct (char7 c) eqn:E7.
    + destruct (c =? 34) eqn:E34.
      * rewrite IH. replace (c =? 39) with false by lia. trip. cbn [negb andb]. rewrite andb_false_r. reflexivity.
      * destruct (c =? 39) eqn:E39; rewrite IH; trip; cbn [negb andb]; rewrite andb_false_r; reflexivity.
    + rewrite IH. unfold char7 in E7. replace (c =? 34) with false by lia. replace (c =? 39) with false by lia.
      trip. reflexivity.
Qed.

Lemma html_escape_form v oq mq : html_escape_attr_val v oq mq = Ok (html_expected v oq mq).
Proof.
  unfold html_escape_attr_val, html_expected. rewrite html_scan_spec. cbn [andb].
  replace (0 + count 39 v) with (count 39 v) by lia. replace (0 + count 34 v) with (count 34 v) by lia.
  destruct (plain v && (negb mq || (oq =? 0))); [reflexivity|].
  pose proof (count_nonneg 39 v) as Hs. pose proof (count_nonneg 34 v) as Hd.
  unfold quoted, html_quote.
  destruct (((count 39 v =? 0) && (oq =? 39)) || ((count 34 v =? 0) && (oq =? 34))) eqn:E2.
  - destruct ((count 39 v =? 0) && (oq =? 39)) eqn:Ea.
    + replace ((count 39 v <? count 34 v) || ((count 39 v =? count 34 v) && (oq =? 39))) with true by lia.
      rewrite esc_flat_none by lia. replace oq with 39 by lia. reflexivity.
    + replace ((count 39 v <? count 34 v) || ((count 39 v =? count 34 v) && (oq =? 39))) with false by lia.
      rewrite esc_flat_none by lia. replace oq with 34 by lia. reflexivity.
  - destruct ((count 34 v <? count 39 v) || ((count 39 v =? count 34 v) && negb (oq =? 39))) eqn:E3.
    + replace ((count 39 v <? count 34 v) || ((count 39 v =? count 34 v) && (oq =? 39))) with false by lia.
      change (ent_of 34) with ent_dq. apply esc_quoted_spec. reflexivity.
    + replace ((count 39 v <? count 34 v) || ((count 39 v =? count 34 v) && (oq =? 39))) with true by lia.
      change (ent_of 39) with ent_sq. apply esc_quoted_spec. reflexivity.
Qed.

(* ---- reading the attribute back ------------------------------------------------------------------------ *)
Lemma span_all p l c rest : forallb p l = true -> p c = false -> span p (l ++ c :: rest) = (l, c :: rest).
Proof.
  intros Hl Hc. induction l as [|x l IH]; cbn [app span].
  - rewrite Hc. reflexivity.
  - cbn [forallb] in Hl. apply andb_true_iff in Hl. destruct Hl as [Hx Hl]. rewrite Hx, (IH Hl). reflexivity.
Qed.

Lemma html_quoted_spec q body rest : count q body = 0 -> html_quoted q (body ++ q :: rest) = (body ++ [q], rest).
Proof.
  induction body as [|x body IH]; cbn [app html_quoted count]; intros H.
  - rewrite Z.eqb_refl. reflexivity.
  - pose proof (count_nonneg q body). destruct (x =? q); [lia|]. rewrite IH by lia. reflexivity.
Qed.

Lemma xml_quoted_spec q body rest : q <> 0 -> count q body = 0 -> count 0 body = 0 ->
  xml_quoted q (body ++ q :: rest) = (map xnorm body ++ [q], rest).
Proof.
  intros Hq. induction body as [|x body IH]; cbn [app xml_quoted count map]; intros H H0.
  - rewrite Z.eqb_refl. reflexivity.
  - pose proof (count_nonneg q body). pose proof (count_nonneg 0 body).
    destruct (x =? q); [lia|]. destruct (x =? 0); [lia|]. rewrite IH by lia. reflexivity.
Qed.

Lemma count_esc_flat q ent l : count q ent = 0 -> count q (esc_flat q ent l) = 0.
Proof.
  intros He. induction l as [|c t IH]; [reflexivity|]. rewrite esc_flat_cons.
  assert (A : forall a b, count q (a ++ b) = count q a + count q b).
  { induction a as [|x a IHa]; intros b; cbn [app count]; [lia|]. rewrite IHa. lia. }
  rewrite A, IH. destruct (c =? q) eqn:E; [lia|]. cbn [count]. rewrite E. lia.
Qed.

Lemma count_app q a b : count q (a ++ b) = count q a + count q b.
Proof. induction a as [|x a IHa]; cbn [app count]; [lia|]. rewrite IHa. lia. Qed.

Lemma count0_esc_flat q ent l : count 0 ent = 0 -> count 0 l = 0 -> count 0 (esc_flat q ent l) = 0.
Proof.
  intros He. induction l as [|c t IH]; [reflexivity|]. cbn [count]. rewrite esc_flat_cons, count_app.
  pose proof (count_nonneg 0 t) as Hn. intros H. rewrite IH by (destruct (c =? 0); lia).
  destruct (c =? q); [lia|]. cbn [count]. destruct (c =? 0); lia.
Qed.

Lemma count0_notin l : ~ In 0 l -> count 0 l = 0.
Proof.
  induction l as [|c t IH]; [reflexivity|]. intros H. cbn [count].
  rewrite IH by (intros Hin; apply H; right; exact Hin).
  destruct (c =? 0) eqn:E; [|lia]. exfalso. apply H. left. lia.
Qed.

Lemma unquote_quoted q body : q = 34 \/ q = 39 -> unquote (q :: body ++ [q]) = body.
Proof.
  intros Hq. unfold unquote. pose proof (len_nonneg body).
  rewrite len_app. change (len [q]) with 1.
  replace (len body + 1 - 1) with (len body) by lia.
  unfold getz. rewrite peekz_app_len. rewrite Z.eqb_refl.
  replace (((q =? 34) || (q =? 39)) && (1 <=? len body + 1)) with true by lia.
  cbn [andb]. apply firstz_app_len.
Qed.

Lemma unquote_plain v : plain v = true -> unquote v = v.
Proof.
  destruct v as [|c t]; [reflexivity|]. cbn [plain forallb]. intros H. apply andb_true_iff in H.
  destruct H as [H _]. unfold char7 in H. unfold unquote.
  replace ((c =? 34) || (c =? 39)) with false by lia. reflexivity.
Qed.

Definition attr_x (val : list Z) : list Z := 32 :: 120 :: 61 :: val.     (* ` x=` val *)

Lemma html_read_quoted q body : q = 34 \/ q = 39 -> count q body = 0 ->
  html_tag_next (attr_x (q :: body ++ [q]) ++ [62]) =
    (TAttr (attr_x (q :: body ++ [q])) [120] (Some (q :: body ++ [q])), [62]).
Proof.
  intros Hq Hc. unfold attr_x. rewrite <- app_comm_cons. rewrite <- !app_comm_cons. rewrite <- app_assoc.
  cbn [app]. unfold html_tag_next.
  destruct Hq as [-> | ->]; cbn; rewrite html_quoted_spec by exact Hc; reflexivity.
Qed.

Lemma is_hws_char7 c : char7 c = false -> is_hws c = false /\ (c =? 62) = false /\ (c =? 34) = false /\ (c =? 39) = false.
Proof. unfold char7, ws5, is_hws. intros H. repeat split; lia. Qed.

Lemma html_read_plain v : plain v = true ->
  html_tag_next (attr_x v ++ [62]) = (TAttr (attr_x v) [120] (Some v), [62]).
Proof.
  intros Hp. unfold attr_x. rewrite <- !app_comm_cons.
  assert (S2 : span (fun c => negb (is_hws c || (c =? 62))) (v ++ [62]) = (v, [62])).
  { apply span_all; [|reflexivity]. unfold plain in Hp. rewrite forallb_forall in *. intros c Hin.
    specialize (Hp c Hin). destruct (is_hws_char7 c) as (A & B & _); [destruct (char7 c); [discriminate|reflexivity]|].
    rewrite A, B. reflexivity. }
  assert (F : span is_hws (v ++ [62]) = ([], v ++ [62]) /\
              ((hd 0 (v ++ [62]) =? 34) || (hd 0 (v ++ [62]) =? 39)) = false).
  { destruct v as [|c t]; [split; reflexivity|].
    cbn [plain forallb] in Hp. apply andb_true_iff in Hp. destruct Hp as [Hc _].
    destruct (is_hws_char7 c) as (A & B & C & D); [destruct (char7 c); [discriminate|reflexivity]|].
    cbn [app hd span]. rewrite A, C, D. split; reflexivity. }
  destruct F as [F1 F2]. remember (v ++ [62]) as Y eqn:HY.
  unfold html_tag_next. cbn. rewrite F1. cbn. rewrite F2. rewrite S2. reflexivity.
Qed.

Lemma xml_read_quoted q body : q = 34 \/ q = 39 -> count q body = 0 -> count 0 body = 0 ->
  xml_tag_next (attr_x (q :: body ++ [q]) ++ [62]) =
    (TAttr (attr_x (q :: map xnorm body ++ [q])) [120] (Some (q :: map xnorm body ++ [q])), [62]).
Proof.
  intros Hq Hc H0. unfold attr_x. rewrite <- !app_comm_cons. rewrite <- app_assoc.
  cbn [app]. unfold xml_tag_next.
  destruct Hq as [-> | ->]; cbn; rewrite xml_quoted_spec by (assumption || lia); reflexivity.
Qed.

Lemma tokens_attr_close next s data key val :
  next s = (TAttr data key (Some val), [62]) -> next [62] = (TClose [62], []) -> (1 <= length s)%nat ->
  tag_tokens next (S (length s)) s = [TAttr data key (Some val); TClose [62]].
Proof.
  intros H1 H2 Hl. destruct (length s) as [|n]; [lia|]. cbn [tag_tokens]. rewrite H1, H2. reflexivity.
Qed.

Lemma html_quote_cases v oq : html_quote v oq = 34 \/ html_quote v oq = 39.
Proof. unfold html_quote. destruct (_ || _); [right|left]; reflexivity. Qed.
Lemma xml_quote_cases v : xml_quote v = 34 \/ xml_quote v = 39.
Proof. unfold xml_quote. destruct (_ <? _); [right|left]; reflexivity. Qed.

Lemma count_q_ent q : q = 34 \/ q = 39 -> count q (ent_of q) = 0 /\ count 0 (ent_of q) = 0.
Proof. intros [-> | ->]; split; reflexivity. Qed.

Lemma decode_quoted tbl q v : esc_tbl 34 ent_dq tbl -> esc_tbl 39 ent_sq tbl -> q = 34 \/ q = 39 ->
  decode tbl (unquote (quoted q v)) = decode tbl v.
Proof.
  intros T1 T2 Hq. unfold quoted. rewrite unquote_quoted by exact Hq.
  destruct Hq as [-> | ->].
  - apply (decode_esc 34 ent_dq tbl T1 (length v)). lia.
  - apply (decode_esc 39 ent_sq tbl T2 (length v)). lia.
Qed.

Lemma html_escape_roundtrip_proof : forall tbl v oq mq,
  esc_tbl 34 ent_dq tbl -> esc_tbl 39 ent_sq tbl ->
  let out := html_expected v oq mq in
  html_escape_attr_val v oq mq = Ok out /\
  html_tag_tokens (attr_x out ++ [62]) = [TAttr (attr_x out) [120] (Some out); TClose [62]] /\
  decode tbl (unquote out) = decode tbl v.
Proof.
  intros tbl v oq mq T1 T2 out. split; [apply html_escape_form|].
  unfold html_tag_tokens. subst out. unfold html_expected.
  destruct (plain v && (negb mq || (oq =? 0))) eqn:E.
  - apply andb_true_iff in E. destruct E as [Hp _]. split.
    + apply tokens_attr_close; [apply html_read_plain; exact Hp|reflexivity|cbn [attr_x app length]; lia].
    + rewrite unquote_plain by exact Hp. reflexivity.
  - pose proof (html_quote_cases v oq) as Hq. set (q := html_quote v oq) in *. split.
    + unfold quoted. apply tokens_attr_close; [|reflexivity|cbn [attr_x app length]; lia].
      apply html_read_quoted; [exact Hq|]. apply count_esc_flat. apply (count_q_ent q Hq).
    + apply decode_quoted; assumption.
Qed.

Lemma xnorm_id_without_ws v : count 9 v = 0 -> count 10 v = 0 -> count 13 v = 0 -> map xnorm v = v.
Proof.
  induction v as [|c t IH]; [reflexivity|]. cbn [count map]. intros H9 H10 H13.
  pose proof (count_nonneg 9 t). pose proof (count_nonneg 10 t). pose proof (count_nonneg 13 t).
  rewrite IH by (destruct (c =? 9); destruct (c =? 10); destruct (c =? 13); lia).
  unfold xnorm. destruct (c =? 9); [lia|]. destruct (c =? 10); [lia|]. destruct (c =? 13); [lia|]. reflexivity.
Qed.


(* ---- xml.EscapeAttrVal ------------------------------------------------------------------------------------------ *)
Lemma xml_scan_spec l : forall s d w,
  xml_scan l s d w = (s + count 39 l, d + count 34 l, w + (count 9 l + count 10 l + count 13 l)).
Proof.
  induction l as [|c t IH]; intros s d w; cbn [xml_scan count].
  - trip. lia.
  - destruct (c =? 34) eqn:E34; [rewrite IH; replace (c =? 39) with false by lia; replace (c =? 9) with false by lia;
      replace (c =? 10) with false by lia; replace (c =? 13) with false by lia; trip; lia|].
    destruct (c =? 39) eqn:E39; [rewrite IH; replace (c =? 9) with false by lia;
      replace (c =? 10) with false by lia; replace (c =? 13) with false by lia; trip; lia|].
    destruct (c =? 9) eqn:E9; [cbn [orb]; rewrite IH; replace (c =? 10) with false by lia; replace (c =? 13) with false by lia; trip; lia|].
    destruct (c =? 10) eqn:E10; [cbn [orb]; rewrite IH; replace (c =? 13) with false by lia; trip; lia|].
    destruct (c =? 13) eqn:E13; cbn [orb]; rewrite IH; trip; lia.
Qed.

Definition xpiece (q c : Z) : list Z :=
  if c =? q then ent_of q else if c =? 9 then ent_tab else if c =? 10 then ent_lf else if c =? 13 then ent_cr else [c].

Lemma xesc_flat_cons q c t : xesc_flat q (c :: t) = xpiece q c ++ xesc_flat q t.
Proof. reflexivity. Qed.

Lemma len_xpiece q c : q = 34 \/ q = 39 ->
  len (xpiece q c) = 1 + (if c =? q then 4 else 0) + (if c =? 9 then 3 else 0) + (if c =? 10 then 4 else 0) + (if c =? 13 then 4 else 0).
Proof.
  intros Hq. unfold xpiece. destruct (c =? q) eqn:Eq.
  - replace (c =? 9) with false by lia. replace (c =? 10) with false by lia. replace (c =? 13) with false by lia.
    destruct Hq as [-> | ->]; reflexivity.
  - destruct (c =? 9) eqn:E9; [replace (c =? 10) with false by lia; replace (c =? 13) with false by lia; reflexivity|].
    destruct (c =? 10) eqn:E10; [replace (c =? 13) with false by lia; reflexivity|].
    destruct (c =? 13); reflexivity.
Qed.

Lemma len_xesc_flat q l : q = 34 \/ q = 39 ->
  len (xesc_flat q l) = len l + 4 * count q l + 3 * count 9 l + 4 * count 10 l + 4 * count 13 l.
Proof.
  intros Hq. induction l as [|c t IH]; [reflexivity|].
  rewrite xesc_flat_cons, len_app, IH, len_xpiece, len_cons by exact Hq. cbn [count].
  destruct (c =? q); destruct (c =? 9); destruct (c =? 10); destruct (c =? 13); lia.
Qed.

Lemma xesc_loop_spec n q l : q = 34 \/ q = 39 -> forall seg out,
  len out + len seg + len (xesc_flat q l) <= n ->
  xesc_loop n q (ent_of q) l seg out = out ++ seg ++ xesc_flat q l.
Proof.
  intros Hq. induction l as [|c t IH]; intros seg out H.
  - cbn [xesc_loop]. change (xesc_flat q []) with (@nil Z) in *. rewrite app_nil_r. apply app_cap_fits.
    change (len (@nil Z)) with 0 in H. lia.
  - rewrite xesc_flat_cons, len_app in H. cbn [xesc_loop]. rewrite xesc_flat_cons.
    pose proof (len_nonneg (xesc_flat q t)) as Hn. pose proof (len_xpiece q c Hq) as Hp. unfold xpiece in *.
    destruct (c =? q) eqn:Eq.
    + pose proof (len_nonneg (ent_of q)).
      rewrite (app_cap_fits n out seg) by lia. rewrite app_cap_fits by (rewrite len_app; lia).
      rewrite IH by (rewrite !len_app; change (len (@nil Z)) with 0; lia).
      cbn [app]. rewrite <- !app_assoc. reflexivity.
    + destruct ((c =? 9) || (c =? 10) || (c =? 13)) eqn:Ews.
      * set (e := if c =? 9 then ent_tab else if c =? 10 then ent_lf else ent_cr) in *.
        assert (Ee : (if c =? 9 then ent_tab else if c =? 10 then ent_lf else if c =? 13 then ent_cr else [c]) = e).
        { unfold e. destruct (c =? 9); [reflexivity|]. destruct (c =? 10); [reflexivity|]. destruct (c =? 13) eqn:E13; [reflexivity|].
          cbn [orb] in Ews. discriminate Ews. }
        rewrite Ee in *. pose proof (len_nonneg e).
        rewrite (app_cap_fits n out seg) by lia. rewrite app_cap_fits by (rewrite len_app; lia).
        rewrite IH by (rewrite !len_app; change (len (@nil Z)) with 0; lia).
        cbn [app]. rewrite <- !app_assoc. reflexivity.
      * replace (c =? 9) with false in * by lia. replace (c =? 10) with false in * by lia. replace (c =? 13) with false in * by lia.
        change (len [c]) with 1 in H.
        rewrite IH by (rewrite len_app; change (len [c]) with 1; lia). rewrite <- app_assoc. reflexivity.
Qed.

Lemma xml_escape_form v : xml_escape_attr_val v = Ok (xquoted (xml_quote v) v) /\
  len (xquoted (xml_quote v) v) <= xml_reserved v.
Proof.
  pose proof (xml_quote_cases v) as Hq. unfold xml_escape_attr_val, xquoted, xml_reserved. rewrite xml_scan_spec.
  replace (0 + count 39 v) with (count 39 v) by lia. replace (0 + count 34 v) with (count 34 v) by lia.
  pose proof (count_nonneg 39 v). pose proof (count_nonneg 34 v). pose proof (count_nonneg 9 v).
  pose proof (count_nonneg 10 v). pose proof (count_nonneg 13 v). pose proof (len_nonneg v).
  pose proof (len_xesc_flat (xml_quote v) v Hq) as L. unfold xml_quote in *.
  destruct (count 39 v <? count 34 v) eqn:E.
  - split.
    + unfold xesc_quoted. change ent_sq with (ent_of 39).
      match goal with |- (if ?c then _ else _) = _ => replace c with false by lia end.
      rewrite xesc_loop_spec; [|right; reflexivity|rewrite L; change (len [39]) with 1; change (len (@nil Z)) with 0; lia].
      cbn [app]. rewrite len_cons, L.
      match goal with |- (if ?c then _ else _) = _ => replace c with true by lia end. reflexivity.
    + rewrite len_cons, len_app, L. change (len [39]) with 1. lia.
  - split.
    + unfold xesc_quoted. change ent_dq with (ent_of 34).
      match goal with |- (if ?c then _ else _) = _ => replace c with false by lia end.
      rewrite xesc_loop_spec; [|left; reflexivity|rewrite L; change (len [34]) with 1; change (len (@nil Z)) with 0; lia].
      cbn [app]. rewrite len_cons, L.
      match goal with |- (if ?c then _ else _) = _ => replace c with true by lia end. reflexivity.
    + rewrite len_cons, len_app, L. change (len [34]) with 1. lia.
Qed.

(* escaping all four bytes at once = escaping them one after the other *)
Lemma esc_flat_single q e c : esc_flat q e [c] = if c =? q then e else [c].
Proof. unfold esc_flat. cbn [flat_map]. rewrite app_nil_r. reflexivity. Qed.

Lemma xesc_sequential q v : q = 34 \/ q = 39 ->
  xesc_flat q v = esc_flat 13 ent_cr (esc_flat 10 ent_lf (esc_flat 9 ent_tab (esc_flat q (ent_of q) v))).
Proof.
  intros Hq. induction v as [|c t IH]; [reflexivity|].
  rewrite xesc_flat_cons, IH. change (c :: t) with ([c] ++ t). rewrite !esc_flat_app. f_equal.
  rewrite esc_flat_single. unfold xpiece. destruct (c =? q) eqn:Eq.
  - destruct Hq as [-> | ->]; reflexivity.
  - rewrite esc_flat_single. destruct (c =? 9) eqn:E9; [reflexivity|].
    rewrite esc_flat_single. destruct (c =? 10) eqn:E10; [reflexivity|].
    rewrite esc_flat_single. destruct (c =? 13); reflexivity.
Qed.

Lemma decode_xesc tbl q v : esc_tbl 34 ent_dq tbl -> esc_tbl 39 ent_sq tbl ->
  esc_tbl 9 ent_tab tbl -> esc_tbl 10 ent_lf tbl -> esc_tbl 13 ent_cr tbl -> q = 34 \/ q = 39 ->
  decode tbl (xesc_flat q v) = decode tbl v.
Proof.
  intros T34 T39 T9 T10 T13 Hq. rewrite xesc_sequential by exact Hq.
  rewrite (decode_esc 13 ent_cr tbl T13 _ _ (le_n _)).
  rewrite (decode_esc 10 ent_lf tbl T10 _ _ (le_n _)).
  rewrite (decode_esc 9 ent_tab tbl T9 _ _ (le_n _)).
  destruct Hq as [-> | ->]; [apply (decode_esc 34 ent_dq tbl T34 _ _ (le_n _))|apply (decode_esc 39 ent_sq tbl T39 _ _ (le_n _))].
Qed.

Lemma count_flat_map c (f : Z -> list Z) l : (forall x, In x l -> count c (f x) = 0) -> count c (flat_map f l) = 0.
Proof.
  induction l as [|x t IH]; intros H; [reflexivity|]. cbn [flat_map]. rewrite count_app.
  rewrite (H x (or_introl eq_refl)). rewrite IH by (intros y Hy; apply H; right; exact Hy). reflexivity.
Qed.

Lemma count_xesc_flat c q v : q = 34 \/ q = 39 ->
  (c = q \/ c = 9 \/ c = 10 \/ c = 13 \/ (c = 0 /\ ~ In 0 v)) -> count c (xesc_flat q v) = 0.
Proof.
  intros Hq Hc. unfold xesc_flat. apply count_flat_map. intros x Hx.
  assert (Hx0 : c = 0 -> x <> 0).
  { intros -> ->. destruct Hc as [E|[E|[E|[E|[_ Hn]]]]]; try (destruct Hq; lia). exact (Hn Hx). }
  destruct (x =? q) eqn:Exq.
  - destruct Hq as [-> | ->]; destruct Hc as [->|[->|[->|[->|[-> _]]]]]; reflexivity.
  - destruct (x =? 9) eqn:E9; [destruct Hq as [-> | ->]; destruct Hc as [->|[->|[->|[->|[-> _]]]]]; reflexivity|].
    destruct (x =? 10) eqn:E10; [destruct Hq as [-> | ->]; destruct Hc as [->|[->|[->|[->|[-> _]]]]]; reflexivity|].
    destruct (x =? 13) eqn:E13; [destruct Hq as [-> | ->]; destruct Hc as [->|[->|[->|[->|[-> _]]]]]; reflexivity|].
    cbn [count]. destruct (x =? c) eqn:Exc; [|reflexivity]. exfalso.
    assert (x = c) by lia. subst x. destruct Hc as [E|[E|[E|[E|[E _]]]]]; lia.
Qed.

Lemma xml_escape_roundtrip_proof : forall tbl v,
  esc_tbl 34 ent_dq tbl -> esc_tbl 39 ent_sq tbl ->
  esc_tbl 9 ent_tab tbl -> esc_tbl 10 ent_lf tbl -> esc_tbl 13 ent_cr tbl -> ~ In 0 v ->
  let out := xquoted (xml_quote v) v in
  xml_escape_attr_val v = Ok out /\ len out <= xml_reserved v /\
  xml_tag_tokens (attr_x out ++ [62]) = [TAttr (attr_x out) [120] (Some out); TClose [62]] /\
  decode tbl (unquote out) = decode tbl v.
Proof.
  intros tbl v T34 T39 T9 T10 T13 H0 out. destruct (xml_escape_form v) as [E L].
  split; [exact E|]. split; [exact L|].
  pose proof (xml_quote_cases v) as Hq. subst out. set (q := xml_quote v) in *.
  set (body := xesc_flat q v).
  assert (Cq : count q body = 0) by (apply count_xesc_flat; [exact Hq|left; reflexivity]).
  assert (C0 : count 0 body = 0) by (apply count_xesc_flat; [exact Hq|right; right; right; right; split; [reflexivity|exact H0]]).
  assert (Hid : map xnorm body = body).
  { apply xnorm_id_without_ws; apply count_xesc_flat; try exact Hq; [right; left|right; right; left|right; right; right; left]; reflexivity. }
  split.
  - unfold xml_tag_tokens, xquoted. fold body.
    apply tokens_attr_close; [|reflexivity|cbn [attr_x app length]; lia].
    rewrite (xml_read_quoted q body Hq Cq C0). rewrite Hid. reflexivity.
  - unfold xquoted. fold body. rewrite unquote_quoted by exact Hq. apply decode_xesc; assumption.
Qed.

Lemma std_refs_esc_tab : esc_tbl 9 ent_tab std_refs.
Proof. split; [reflexivity|]. split; [lia|]. split; [reflexivity|]. intros x. reflexivity. Qed.
Lemma std_refs_esc_lf : esc_tbl 10 ent_lf std_refs.
Proof. split; [reflexivity|]. split; [lia|]. split; [reflexivity|]. intros x. reflexivity. Qed.
Lemma std_refs_esc_cr : esc_tbl 13 ent_cr std_refs.
Proof. split; [reflexivity|]. split; [lia|]. split; [reflexivity|]. intros x. reflexivity. Qed.

Example html_escape_roundtrip_example :
  (* a"b'c"  with original quote ' : the single quote is cheaper; `'a"b&#39;c"'` *)
  html_escape_attr_val [97; 34; 98; 39; 99; 34] 39 true = Ok [39; 97; 34; 98; 38; 35; 51; 57; 59; 99; 34; 39] /\
  html_tag_tokens (attr_x [39; 97; 34; 98; 38; 35; 51; 57; 59; 99; 34; 39] ++ [62]) =
    [TAttr (attr_x [39; 97; 34; 98; 38; 35; 51; 57; 59; 99; 34; 39]) [120] (Some [39; 97; 34; 98; 38; 35; 51; 57; 59; 99; 34; 39]); TClose [62]] /\
  decode std_refs (unquote [39; 97; 34; 98; 38; 35; 51; 57; 59; 99; 34; 39]) = [97; 34; 98; 39; 99; 34] /\
  html_escape_attr_val [97; 98] 34 false = Ok [97; 98] /\ html_escape_attr_val [97; 98] 34 true = Ok [34; 97; 98; 34].
Proof. vm_compute. repeat split. Qed.

Example xml_escape_roundtrip_example :
  (* a TAB double-quote b CR LF : single quotes are cheaper; TAB, CR, LF are written as references and read back *)
  xml_escape_attr_val [97; 9; 34; 98; 13; 10] = Ok [39; 97; 38;35;57;59; 34; 98; 38;35;49;51;59; 38;35;49;48;59; 39] /\
  xml_tag_tokens (attr_x [39; 97; 38;35;57;59; 34; 98; 38;35;49;51;59; 38;35;49;48;59; 39] ++ [62]) =
    [TAttr (attr_x [39; 97; 38;35;57;59; 34; 98; 38;35;49;51;59; 38;35;49;48;59; 39]) [120]
       (Some [39; 97; 38;35;57;59; 34; 98; 38;35;49;51;59; 38;35;49;48;59; 39]); TClose [62]] /\
  decode std_refs (unquote [39; 97; 38;35;57;59; 34; 98; 38;35;49;51;59; 38;35;49;48;59; 39]) = [97; 9; 34; 98; 13; 10] /\
  xml_reserved [97; 9; 34; 98; 13; 10] = 20.
Proof. vm_compute. repeat split. Qed.
