(* Normalise/AttrProofs.v — html/xml EscapeAttrVal: what they return, and that the in-tag lexer model
   reads the result back as one attribute value that decodes like the original. *)
From Coq Require Import ZifyBool.
From Verif Require Import Common.Base Common.Tactics Gen.Tables Normalise.Model Normalise.Spec
  Normalise.WsProofs Normalise.EscProofs.

(* ---- the escaping loop ------------------------------------------------------------------------------ *)
Lemma count_nonneg q l : 0 <= count q l.
Proof. induction l as [|c t IH]; cbn [count]; [lia|]. destruct (c =? q); lia. Qed.

Lemma esc_flat_cons q ent c t : esc_flat q ent (c :: t) = (if c =? q then ent else [c]) ++ esc_flat q ent t.
Proof. reflexivity. Qed.
Lemma esc_flat_app q ent a b : esc_flat q ent (a ++ b) = esc_flat q ent a ++ esc_flat q ent b.
Proof. unfold esc_flat. apply flat_map_app. Qed.

Lemma len_esc_flat q ent l : len (esc_flat q ent l) = len l + (len ent - 1) * count q l.
Proof.
  induction l as [|c t IH]; [cbn [count]; change (len (esc_flat q ent [])) with 0; change (len (@nil Z)) with 0; lia|].
  rewrite esc_flat_cons, len_app, IH, len_cons. cbn [count].
  destruct (c =? q); [lia|]. change (len [c]) with 1. lia.
Qed.

Lemma esc_flat_none q ent l : count q l = 0 -> esc_flat q ent l = l.
Proof.
  induction l as [|c t IH]; [reflexivity|]. cbn [count]. rewrite esc_flat_cons. pose proof (count_nonneg q t).
  destruct (c =? q); [lia|]. intros H0. rewrite IH by lia. reflexivity.
Qed.

Lemma esc_loop_spec n q ent l : forall seg out,
  len out + len seg + len (esc_flat q ent l) <= n ->
  esc_loop n q ent l seg out = out ++ seg ++ esc_flat q ent l.
Proof.
  induction l as [|c t IH]; intros seg out H.
  - cbn [esc_loop]. change (esc_flat q ent []) with (@nil Z) in *. rewrite app_nil_r. apply app_cap_fits.
    change (len (@nil Z)) with 0 in H. lia.
  - rewrite esc_flat_cons, len_app in H. cbn [esc_loop]. rewrite esc_flat_cons.
    pose proof (len_nonneg (esc_flat q ent t)) as Hn. pose proof (len_nonneg ent) as He.
    destruct (c =? q).
    + rewrite (app_cap_fits n out seg) by lia.
      rewrite app_cap_fits by (rewrite len_app; lia).
      rewrite IH by (rewrite !len_app; change (len (@nil Z)) with 0; lia).
      cbn [app]. rewrite <- !app_assoc. reflexivity.
    + change (len [c]) with 1 in H.
      rewrite IH by (rewrite len_app; change (len [c]) with 1; lia).
      rewrite <- app_assoc. reflexivity.
Qed.

Lemma esc_quoted_spec q ent b : len ent = 5 ->
  esc_quoted (len b + 2 + count q b * 4) q ent b = Ok (q :: esc_flat q ent b ++ [q]).
Proof.
  intros He. unfold esc_quoted. pose proof (len_nonneg b). pose proof (count_nonneg q b).
  replace (len b + 2 + count q b * 4 <? 1) with false by lia.
  rewrite esc_loop_spec by (rewrite len_esc_flat, He; change (len [q]) with 1; change (len (@nil Z)) with 0; lia).
  cbn [app]. rewrite len_cons, len_esc_flat, He.
  replace (1 + (len b + (5 - 1) * count q b) <? len b + 2 + count q b * 4) with true by lia.
  reflexivity.
Qed.

(* ---- decoding commutes with escaping a quote ------------------------------------------------------- *)
(* a reference of the table: '&' then bytes that are neither '&' nor the quote q *)
Definition ref_ok (q : Z) (r : list Z) : bool :=
  match r with
  | a :: body => (a =? 38) && forallb (fun c => negb (c =? 38) && negb (c =? q)) body
  | [] => false
  end.
Definition esc_tbl (q : Z) (ent : list Z) (tbl : list (list Z * Z)) : Prop :=
  forallb (fun rc => ref_ok q (fst rc)) tbl = true /\ q <> 38 /\ hd_is 38 ent = true /\
  (forall x, find_ref tbl (ent ++ x) = Some (q, length ent)).

Lemma is_prefix_esc q ent body : hd_is 38 ent = true ->
  forallb (fun c => negb (c =? 38) && negb (c =? q)) body = true ->
  forall t, is_prefix body (esc_flat q ent t) = is_prefix body t.
Proof.
  intros He. induction body as [|x body IH]; intros Hb t; [reflexivity|].
  cbn [forallb] in Hb. apply andb_true_iff in Hb. destruct Hb as [Hx Hb].
  destruct t as [|c t]; [reflexivity|]. rewrite esc_flat_cons.
  destruct (c =? q) eqn:E.
  - destruct ent as [|e ent']; [discriminate|]. cbn [hd_is] in He. cbn [app is_prefix].
    replace (x =? e) with false by lia. replace (x =? c) with false by lia. reflexivity.
  - cbn [app is_prefix]. rewrite IH by exact Hb. reflexivity.
Qed.

Lemma find_ref_esc q ent tbl t : hd_is 38 ent = true ->
  forallb (fun rc => ref_ok q (fst rc)) tbl = true ->
  find_ref tbl (38 :: esc_flat q ent t) = find_ref tbl (38 :: t).
Proof.
  intros He. induction tbl as [|[r ch] tl IH]; intros Ht; [reflexivity|].
  cbn [forallb fst] in Ht. apply andb_true_iff in Ht. destruct Ht as [Hr Ht].
  cbn [find_ref]. destruct r as [|a body]; [discriminate|]. cbn [ref_ok] in Hr.
  apply andb_true_iff in Hr. destruct Hr as [Ha Hb]. cbn [is_prefix].
  rewrite (is_prefix_esc q ent body He Hb). rewrite IH by exact Ht. reflexivity.
Qed.

Lemma find_ref_prefix tbl l ch n : find_ref tbl l = Some (ch, n) ->
  exists r, In (r, ch) tbl /\ n = length r /\ is_prefix r l = true.
Proof.
  induction tbl as [|[r c] tl IH]; cbn [find_ref]; [discriminate|].
  destruct (is_prefix r l) eqn:E.
  - intros H. injection H as <- <-. exists r. split; [left; reflexivity|]. split; [reflexivity|exact E].
  - intros H. destruct (IH H) as (r' & Hin & Hn & Hp). exists r'. split; [right; exact Hin|]. split; assumption.
Qed.

Lemma is_prefix_split p : forall l, is_prefix p l = true -> exists rest, l = p ++ rest.
Proof.
  induction p as [|x p IH]; intros l H; [exists l; reflexivity|].
  destruct l as [|y l]; [discriminate|]. cbn [is_prefix] in H. apply andb_true_iff in H. destruct H as [Hx Hp].
  apply Z.eqb_eq in Hx. subst y. destruct (IH l Hp) as [rest ->]. exists rest. reflexivity.
Qed.

Lemma esc_flat_free q ent body : forallb (fun c => negb (c =? 38) && negb (c =? q)) body = true ->
  esc_flat q ent body = body.
Proof.
  induction body as [|x body IH]; [reflexivity|]. cbn [forallb]. intros H. apply andb_true_iff in H.
  destruct H as [Hx Hb]. rewrite esc_flat_cons. replace (x =? q) with false by lia. rewrite IH by exact Hb. reflexivity.
Qed.

Lemma decode_esc q ent tbl : esc_tbl q ent tbl ->
  forall n l, (length l <= n)%nat -> decode tbl (esc_flat q ent l) = decode tbl l.
Proof.
  intros (Ht & Hq & He & Hent). unfold decode. induction n as [|n IH]; intros l Hn.
  - destruct l; [reflexivity|cbn [length] in Hn; lia].
  - destruct l as [|c t]; [reflexivity|]. cbn [length] in Hn. rewrite esc_flat_cons.
    destruct (c =? q) eqn:Ecq.
    + apply Z.eqb_eq in Ecq. subst c.
      destruct ent as [|e ent']; [discriminate|]. cbn [app].
      rewrite (decode_refs_hit tbl e ent' (esc_flat q (e :: ent') t) q) by (apply (Hent (esc_flat q (e :: ent') t))).
      rewrite decode_refs_miss.
      2:{ apply find_ref_not_amp; [|exact Hq]. unfold refs_start_amp.
          rewrite forallb_forall in *. intros rc Hin. specialize (Ht rc Hin).
          destruct (fst rc) as [|a body]; [discriminate|]. cbn [ref_ok] in Ht. cbn [hd_is]. lia. }
      rewrite IH by lia. reflexivity.
    + cbn [app]. destruct (c =? 38) eqn:Ec38.
      * apply Z.eqb_eq in Ec38. subst c.
        destruct (find_ref tbl (38 :: t)) as [[ch m]|] eqn:Ef.
        -- destruct (find_ref_prefix _ _ _ _ Ef) as (r & Hin & -> & Hp).
           rewrite forallb_forall in Ht. pose proof (Ht _ Hin) as Hr. cbn [fst] in Hr.
           destruct r as [|a body]; [discriminate|]. cbn [ref_ok] in Hr. apply andb_true_iff in Hr.
           destruct Hr as [Ha Hb]. cbn [is_prefix] in Hp. apply andb_true_iff in Hp. destruct Hp as [_ Hp].
           destruct (is_prefix_split _ _ Hp) as [t2 ->].
           rewrite esc_flat_app, (esc_flat_free q ent body Hb).
           assert (Ef2 : find_ref tbl (38 :: body ++ esc_flat q ent t2) = Some (ch, length (38 :: body))).
           { rewrite <- (esc_flat_free q ent body Hb) at 1. rewrite <- esc_flat_app.
             rewrite find_ref_esc; [exact Ef|exact He|]. rewrite forallb_forall. exact Ht. }
           rewrite (decode_refs_hit tbl 38 body _ ch Ef2).
           replace (length (38 :: body)) with (length (38 :: body)) in Ef by reflexivity.
           rewrite (decode_refs_hit tbl 38 body t2 ch Ef).
           rewrite IH; [reflexivity|]. rewrite app_length in Hn. lia.
        -- rewrite decode_refs_miss by (rewrite find_ref_esc; [exact Ef|exact He|exact Ht]).
           rewrite decode_refs_miss by exact Ef. rewrite IH by lia. reflexivity.
      * assert (Hne : c <> 38) by lia.
        assert (Hs : refs_start_amp tbl = true).
        { unfold refs_start_amp. rewrite forallb_forall in *. intros rc Hin. specialize (Ht rc Hin).
          destruct (fst rc) as [|a body]; [discriminate|]. cbn [ref_ok] in Ht. cbn [hd_is]. lia. }
        rewrite !decode_refs_miss by (apply find_ref_not_amp; assumption).
        rewrite IH by lia. reflexivity.
Qed.

Lemma std_refs_esc_dq : esc_tbl 34 ent_dq std_refs.
Proof. split; [reflexivity|]. split; [lia|]. split; [reflexivity|]. intros x. reflexivity. Qed.
Lemma std_refs_esc_sq : esc_tbl 39 ent_sq std_refs.
Proof. split; [reflexivity|]. split; [lia|]. split; [reflexivity|]. intros x. reflexivity. Qed.

(* ---- what the escapers return -------------------------------------------------------------------------- *)
Lemma char_table_char7 c : tblz html_char_table c = char7 c.
Proof. apply tbl_sweep; try reflexivity; intros x Hx; unfold char7, ws5; lia. Qed.

Ltac trip := apply pair_equal_spec; split; [apply pair_equal_spec; split; lia|].

Lemma html_scan_spec l : forall s d u,
  html_scan l s d u = (s + count 39 l, d + count 34 l, u && plain l).
Proof.
  induction l as [|c t IH]; intros s d u.
  - cbn [html_scan count plain forallb]. trip. rewrite andb_true_r. reflexivity.
  - cbn [html_scan count plain forallb]. rewrite char_table_char7. fold (plain t).
    destruct (char7 c) eqn:E7.
    + destruct (c =? 34) eqn:E34.
      * rewrite IH. replace (c =? 39) with false by lia. trip. cbn [negb andb]. rewrite andb_false_r. reflexivity.
      * destruct (c =? 39) eqn:E39; rewrite IH; trip; cbn [negb andb]; rewrite andb_false_r; reflexivity.
    + rewrite IH. unfold char7 in E7. replace (c =? 34) with false by lia. replace (c =? 39) with false by lia.
      trip. reflexivity.
Qed.

Lemma html_escape_form v oq mq : html_escape_attr_val v oq mq = Ok (html_expected v oq mq).
Proof.
  unfold html_escape_attr_val, html_expected. rewrite html_scan_spec. cbn [andb].
  replace (0 + count 39 v) with (count 39 v) by lia. replace (0 + count 34 v) with (count 34 v) by lia.
  destruct (plain v && (negb mq || (oq =? 0))); [reflexivity|].
  pose proof (count_nonneg 39 v) as Hs. pose proof (count_nonneg 34 v) as Hd.
  unfold quoted, html_quote.
  destruct (((count 39 v =? 0) && (oq =? 39)) || ((count 34 v =? 0) && (oq =? 34))) eqn:E2.
  - destruct ((count 39 v =? 0) && (oq =? 39)) eqn:Ea.
    + replace ((count 39 v <? count 34 v) || ((count 39 v =? count 34 v) && (oq =? 39))) with true by lia.
      rewrite esc_flat_none by lia. replace oq with 39 by lia. reflexivity.
    + replace ((count 39 v <? count 34 v) || ((count 39 v =? count 34 v) && (oq =? 39))) with false by lia.
      rewrite esc_flat_none by lia. replace oq with 34 by lia. reflexivity.
  - destruct ((count 34 v <? count 39 v) || ((count 39 v =? count 34 v) && negb (oq =? 39))) eqn:E3.
    + replace ((count 39 v <? count 34 v) || ((count 39 v =? count 34 v) && (oq =? 39))) with false by lia.
      change (ent_of 34) with ent_dq. apply esc_quoted_spec. reflexivity.
    + replace ((count 39 v <? count 34 v) || ((count 39 v =? count 34 v) && (oq =? 39))) with true by lia.
      change (ent_of 39) with ent_sq. apply esc_quoted_spec. reflexivity.
Qed.

Lemma xml_scan_spec l : forall s d, xml_scan l s d = (s + count 39 l, d + count 34 l).
Proof.
  induction l as [|c t IH]; intros s d; cbn [xml_scan count].
  - apply pair_equal_spec; split; lia.
  - destruct (c =? 34) eqn:E34; [rewrite IH; replace (c =? 39) with false by lia; apply pair_equal_spec; split; lia|].
    destruct (c =? 39) eqn:E39; rewrite IH; apply pair_equal_spec; split; lia.
Qed.

Lemma xml_escape_form v : xml_escape_attr_val v = Ok (quoted (xml_quote v) v).
Proof.
  unfold xml_escape_attr_val, quoted, xml_quote. rewrite xml_scan_spec.
  replace (0 + count 39 v) with (count 39 v) by lia. replace (0 + count 34 v) with (count 34 v) by lia.
  destruct (count 39 v <? count 34 v).
  - change (ent_of 39) with ent_sq. apply esc_quoted_spec. reflexivity.
  - change (ent_of 34) with ent_dq. apply esc_quoted_spec. reflexivity.
Qed.

(* ---- reading the attribute back ------------------------------------------------------------------------ *)
Lemma span_all p l c rest : forallb p l = true -> p c = false -> span p (l ++ c :: rest) = (l, c :: rest).
Proof.
  intros Hl Hc. induction l as [|x l IH]; cbn [app span].
  - rewrite Hc. reflexivity.
  - cbn [forallb] in Hl. apply andb_true_iff in Hl. destruct Hl as [Hx Hl]. rewrite Hx, (IH Hl). reflexivity.
Qed.

Lemma html_quoted_spec q body rest : count q body = 0 -> html_quoted q (body ++ q :: rest) = (body ++ [q], rest).
Proof.
  induction body as [|x body IH]; cbn [app html_quoted count]; intros H.
  - rewrite Z.eqb_refl. reflexivity.
  - pose proof (count_nonneg q body). destruct (x =? q); [lia|]. rewrite IH by lia. reflexivity.
Qed.

Lemma xml_quoted_spec q body rest : q <> 0 -> count q body = 0 -> count 0 body = 0 ->
  xml_quoted q (body ++ q :: rest) = (map xnorm body ++ [q], rest).
Proof.
  intros Hq. induction body as [|x body IH]; cbn [app xml_quoted count map]; intros H H0.
  - rewrite Z.eqb_refl. reflexivity.
  - pose proof (count_nonneg q body). pose proof (count_nonneg 0 body).
    destruct (x =? q); [lia|]. destruct (x =? 0); [lia|]. rewrite IH by lia. reflexivity.
Qed.

Lemma count_esc_flat q ent l : count q ent = 0 -> count q (esc_flat q ent l) = 0.
Proof.
  intros He. induction l as [|c t IH]; [reflexivity|]. rewrite esc_flat_cons.
  assert (A : forall a b, count q (a ++ b) = count q a + count q b).
  { induction a as [|x a IHa]; intros b; cbn [app count]; [lia|]. rewrite IHa. lia. }
  rewrite A, IH. destruct (c =? q) eqn:E; [lia|]. cbn [count]. rewrite E. lia.
Qed.

Lemma count_app q a b : count q (a ++ b) = count q a + count q b.
Proof. induction a as [|x a IHa]; cbn [app count]; [lia|]. rewrite IHa. lia. Qed.

Lemma count0_esc_flat q ent l : count 0 ent = 0 -> count 0 l = 0 -> count 0 (esc_flat q ent l) = 0.
Proof.
  intros He. induction l as [|c t IH]; [reflexivity|]. cbn [count]. rewrite esc_flat_cons, count_app.
  pose proof (count_nonneg 0 t) as Hn. intros H. rewrite IH by (destruct (c =? 0); lia).
  destruct (c =? q); [lia|]. cbn [count]. destruct (c =? 0); lia.
Qed.

Lemma count0_notin l : ~ In 0 l -> count 0 l = 0.
Proof.
  induction l as [|c t IH]; [reflexivity|]. intros H. cbn [count].
  rewrite IH by (intros Hin; apply H; right; exact Hin).
  destruct (c =? 0) eqn:E; [|lia]. exfalso. apply H. left. lia.
Qed.

Lemma unquote_quoted q body : q = 34 \/ q = 39 -> unquote (q :: body ++ [q]) = body.
Proof.
  intros Hq. unfold unquote. pose proof (len_nonneg body).
  rewrite len_app. change (len [q]) with 1.
  replace (len body + 1 - 1) with (len body) by lia.
  unfold getz. rewrite peekz_app_len. rewrite Z.eqb_refl.
  replace (((q =? 34) || (q =? 39)) && (1 <=? len body + 1)) with true by lia.
  cbn [andb]. apply firstz_app_len.
Qed.

Lemma unquote_plain v : plain v = true -> unquote v = v.
Proof.
  destruct v as [|c t]; [reflexivity|]. cbn [plain forallb]. intros H. apply andb_true_iff in H.
  destruct H as [H _]. unfold char7 in H. unfold unquote.
  replace ((c =? 34) || (c =? 39)) with false by lia. reflexivity.
Qed.

Definition attr_x (val : list Z) : list Z := 32 :: 120 :: 61 :: val.     (* ` x=` val *)

Lemma html_read_quoted q body : q = 34 \/ q = 39 -> count q body = 0 ->
  html_tag_next (attr_x (q :: body ++ [q]) ++ [62]) =
    (TAttr (attr_x (q :: body ++ [q])) [120] (Some (q :: body ++ [q])), [62]).
Proof.
  intros Hq Hc. unfold attr_x. rewrite <- app_comm_cons. rewrite <- !app_comm_cons. rewrite <- app_assoc.
  cbn [app]. unfold html_tag_next.
  destruct Hq as [-> | ->]; cbn; rewrite html_quoted_spec by exact Hc; reflexivity.
Qed.

Lemma is_hws_char7 c : char7 c = false -> is_hws c = false /\ (c =? 62) = false /\ (c =? 34) = false /\ (c =? 39) = false.
Proof. unfold char7, ws5, is_hws. intros H. repeat split; lia. Qed.

Lemma html_read_plain v : plain v = true ->
  html_tag_next (attr_x v ++ [62]) = (TAttr (attr_x v) [120] (Some v), [62]).
Proof.
  intros Hp. unfold attr_x. rewrite <- !app_comm_cons.
  assert (S2 : span (fun c => negb (is_hws c || (c =? 62))) (v ++ [62]) = (v, [62])).
  { apply span_all; [|reflexivity]. unfold plain in Hp. rewrite forallb_forall in *. intros c Hin.
    specialize (Hp c Hin). destruct (is_hws_char7 c) as (A & B & _); [destruct (char7 c); [discriminate|reflexivity]|].
    rewrite A, B. reflexivity. }
  assert (F : span is_hws (v ++ [62]) = ([], v ++ [62]) /\
              ((hd 0 (v ++ [62]) =? 34) || (hd 0 (v ++ [62]) =? 39)) = false).
  { destruct v as [|c t]; [split; reflexivity|].
    cbn [plain forallb] in Hp. apply andb_true_iff in Hp. destruct Hp as [Hc _].
    destruct (is_hws_char7 c) as (A & B & C & D); [destruct (char7 c); [discriminate|reflexivity]|].
    cbn [app hd span]. rewrite A, C, D. split; reflexivity. }
  destruct F as [F1 F2]. remember (v ++ [62]) as Y eqn:HY.
  unfold html_tag_next. cbn. rewrite F1. cbn. rewrite F2. rewrite S2. reflexivity.
Qed.

Lemma xml_read_quoted q body : q = 34 \/ q = 39 -> count q body = 0 -> count 0 body = 0 ->
  xml_tag_next (attr_x (q :: body ++ [q]) ++ [62]) =
    (TAttr (attr_x (q :: map xnorm body ++ [q])) [120] (Some (q :: map xnorm body ++ [q])), [62]).
Proof.
  intros Hq Hc H0. unfold attr_x. rewrite <- !app_comm_cons. rewrite <- app_assoc.
  cbn [app]. unfold xml_tag_next.
  destruct Hq as [-> | ->]; cbn; rewrite xml_quoted_spec by (assumption || lia); reflexivity.
Qed.

Lemma tokens_attr_close next s data key val :
  next s = (TAttr data key (Some val), [62]) -> next [62] = (TClose [62], []) -> (1 <= length s)%nat ->
  tag_tokens next (S (length s)) s = [TAttr data key (Some val); TClose [62]].
Proof.
  intros H1 H2 Hl. destruct (length s) as [|n]; [lia|]. cbn [tag_tokens]. rewrite H1, H2. reflexivity.
Qed.

Lemma html_quote_cases v oq : html_quote v oq = 34 \/ html_quote v oq = 39.
Proof. unfold html_quote. destruct (_ || _); [right|left]; reflexivity. Qed.
Lemma xml_quote_cases v : xml_quote v = 34 \/ xml_quote v = 39.
Proof. unfold xml_quote. destruct (_ <? _); [right|left]; reflexivity. Qed.

Lemma count_q_ent q : q = 34 \/ q = 39 -> count q (ent_of q) = 0 /\ count 0 (ent_of q) = 0.
Proof. intros [-> | ->]; split; reflexivity. Qed.

Lemma decode_quoted tbl q v : esc_tbl 34 ent_dq tbl -> esc_tbl 39 ent_sq tbl -> q = 34 \/ q = 39 ->
  decode tbl (unquote (quoted q v)) = decode tbl v.
Proof.
  intros T1 T2 Hq. unfold quoted. rewrite unquote_quoted by exact Hq.
  destruct Hq as [-> | ->].
  - apply (decode_esc 34 ent_dq tbl T1 (length v)). lia.
  - apply (decode_esc 39 ent_sq tbl T2 (length v)). lia.
Qed.

Lemma html_escape_roundtrip_proof : forall tbl v oq mq,
  esc_tbl 34 ent_dq tbl -> esc_tbl 39 ent_sq tbl ->
  let out := html_expected v oq mq in
  html_escape_attr_val v oq mq = Ok out /\
  html_tag_tokens (attr_x out ++ [62]) = [TAttr (attr_x out) [120] (Some out); TClose [62]] /\
  decode tbl (unquote out) = decode tbl v.
Proof.
  intros tbl v oq mq T1 T2 out. split; [apply html_escape_form|].
  unfold html_tag_tokens. subst out. unfold html_expected.
  destruct (plain v && (negb mq || (oq =? 0))) eqn:E.
  - apply andb_true_iff in E. destruct E as [Hp _]. split.
    + apply tokens_attr_close; [apply html_read_plain; exact Hp|reflexivity|cbn [attr_x app length]; lia].
    + rewrite unquote_plain by exact Hp. reflexivity.
  - pose proof (html_quote_cases v oq) as Hq. set (q := html_quote v oq) in *. split.
    + unfold quoted. apply tokens_attr_close; [|reflexivity|cbn [attr_x app length]; lia].
      apply html_read_quoted; [exact Hq|]. apply count_esc_flat. apply (count_q_ent q Hq).
    + apply decode_quoted; assumption.
Qed.

Lemma map_xnorm_esc q v : q = 34 \/ q = 39 -> map xnorm (esc_flat q (ent_of q) v) = esc_flat q (ent_of q) (map xnorm v).
Proof.
  intros Hq. induction v as [|c t IH]; [reflexivity|]. cbn [map]. rewrite !esc_flat_cons, map_app, IH.
  f_equal. unfold xnorm at 2.
  destruct Hq as [-> | ->]; destruct ((c =? 9) || (c =? 10) || (c =? 13)) eqn:E.
  - replace (c =? 34) with false by lia. reflexivity.
  - destruct (c =? 34) eqn:E2; [reflexivity|]. cbn [map]. unfold xnorm. rewrite E. reflexivity.
  - replace (c =? 39) with false by lia. reflexivity.
  - destruct (c =? 39) eqn:E2; [reflexivity|]. cbn [map]. unfold xnorm. rewrite E. reflexivity.
Qed.

Lemma count_xnorm q v : q = 34 \/ q = 39 -> count q (map xnorm v) = count q v.
Proof.
  intros Hq. induction v as [|c t IH]; [reflexivity|]. cbn [map count]. rewrite IH. unfold xnorm.
  destruct Hq as [-> | ->]; destruct ((c =? 9) || (c =? 10) || (c =? 13)) eqn:E; try reflexivity.
  - replace (c =? 34) with false by lia. reflexivity.
  - replace (c =? 39) with false by lia. reflexivity.
Qed.

Lemma xml_quote_xnorm v : xml_quote (map xnorm v) = xml_quote v.
Proof. unfold xml_quote. rewrite !count_xnorm by auto. reflexivity. Qed.

Lemma xml_escape_roundtrip_proof : forall tbl v,
  esc_tbl 34 ent_dq tbl -> esc_tbl 39 ent_sq tbl -> ~ In 0 v ->
  let out := quoted (xml_quote v) v in
  let val := quoted (xml_quote v) (map xnorm v) in
  xml_escape_attr_val v = Ok out /\
  xml_tag_tokens (attr_x out ++ [62]) = [TAttr (attr_x val) [120] (Some val); TClose [62]] /\
  len val = len out /\
  decode tbl (unquote val) = decode tbl (map xnorm v) /\
  (map xnorm v = v -> val = out /\ decode tbl (unquote val) = decode tbl v).
Proof.
  intros tbl v T1 T2 H0 out val. split; [apply xml_escape_form|].
  pose proof (xml_quote_cases v) as Hq. subst out val. set (q := xml_quote v) in *.
  destruct (count_q_ent q Hq) as [Cq C0].
  split.
  - unfold xml_tag_tokens, quoted. rewrite <- map_xnorm_esc by exact Hq.
    apply tokens_attr_close; [|reflexivity|cbn [attr_x app length]; lia].
    apply xml_read_quoted; [exact Hq|apply count_esc_flat; exact Cq|].
    apply count0_esc_flat; [exact C0|apply count0_notin; exact H0].
  - split.
    + unfold quoted. rewrite !len_cons, !len_app, !len_esc_flat. rewrite count_xnorm by exact Hq.
      unfold len. rewrite map_length. reflexivity.
    + split; [apply decode_quoted; assumption|].
      intros E. rewrite E. split; [reflexivity|apply decode_quoted; assumption].
Qed.

Lemma xnorm_id_without_ws v : count 9 v = 0 -> count 10 v = 0 -> count 13 v = 0 -> map xnorm v = v.
Proof.
  induction v as [|c t IH]; [reflexivity|]. cbn [count map]. intros H9 H10 H13.
  pose proof (count_nonneg 9 t). pose proof (count_nonneg 10 t). pose proof (count_nonneg 13 t).
  rewrite IH by (destruct (c =? 9); destruct (c =? 10); destruct (c =? 13); lia).
  unfold xnorm. destruct (c =? 9); [lia|]. destruct (c =? 10); [lia|]. destruct (c =? 13); [lia|]. reflexivity.
Qed.

(* the value "<TAB>" is written literally and read back as a space *)
Lemma xml_escape_roundtrip_ws_refuted_proof :
  exists v out val data, ~ In 0 v /\ xml_escape_attr_val v = Ok out /\
    xml_tag_tokens (attr_x out ++ [62]) = [TAttr data [120] (Some val); TClose [62]] /\
    decode std_refs (unquote val) <> decode std_refs v.
Proof.
  exists [9], [34; 9; 34], [34; 32; 34], (attr_x [34; 32; 34]).
  split; [intros [H|[]]; discriminate|]. vm_compute. repeat split; discriminate.
Qed.

Example html_escape_roundtrip_example :
  (* a"b'c"  with original quote ' : the single quote is cheaper; `'a"b&#39;c"'` *)
  html_escape_attr_val [97; 34; 98; 39; 99; 34] 39 true = Ok [39; 97; 34; 98; 38; 35; 51; 57; 59; 99; 34; 39] /\
  html_tag_tokens (attr_x [39; 97; 34; 98; 38; 35; 51; 57; 59; 99; 34; 39] ++ [62]) =
    [TAttr (attr_x [39; 97; 34; 98; 38; 35; 51; 57; 59; 99; 34; 39]) [120] (Some [39; 97; 34; 98; 38; 35; 51; 57; 59; 99; 34; 39]); TClose [62]] /\
  decode std_refs (unquote [39; 97; 34; 98; 38; 35; 51; 57; 59; 99; 34; 39]) = [97; 34; 98; 39; 99; 34] /\
  html_escape_attr_val [97; 98] 34 false = Ok [97; 98] /\ html_escape_attr_val [97; 98] 34 true = Ok [34; 97; 98; 34].
Proof. vm_compute. repeat split. Qed.

Example xml_escape_roundtrip_example :
  xml_escape_attr_val [97; 34; 98] = Ok [39; 97; 34; 98; 39] /\
  xml_escape_attr_val [39; 34] = Ok [34; 39; 38; 35; 51; 52; 59; 34] /\
  xml_tag_tokens (attr_x [34; 39; 38; 35; 51; 52; 59; 34] ++ [62]) =
    [TAttr (attr_x [34; 39; 38; 35; 51; 52; 59; 34]) [120] (Some [34; 39; 38; 35; 51; 52; 59; 34]); TClose [62]] /\
  decode std_refs (unquote [34; 39; 38; 35; 51; 52; 59; 34]) = [39; 34].
Proof. vm_compute. repeat split. Qed.
