(* Normalise/Spec.v — the declarative side of C17: what the theorems compare the model with.
   Definitions only. *)
From Verif Require Import Common.Base Normalise.Model.

(* ---- whitespace collapse ------------------------------------------------------------------------ *)
(* the five whitespace bytes and the two line breaks, written out (is_ws/is_nl read the generated tables) *)
Definition ws5 (c : Z) : bool := (c =? 32) || (c =? 9) || (c =? 10) || (c =? 12) || (c =? 13).
Definition nl2 (c : Z) : bool := (c =? 10) || (c =? 13).

(* what a whitespace run becomes *)
Definition run_mark (run : list Z) : Z := if existsb nl2 run then 10 else 32.

(* Collapse l o: o is l with every maximal run of whitespace replaced by its mark, nothing else changed.
   A text segment is a non-empty list of non-whitespace bytes; a run is a non-empty list of whitespace
   bytes; segments alternate (maximality). *)
Inductive Collapse : bool (* previous segment was a run *) -> list Z -> list Z -> Prop :=
| CNil : forall p, Collapse p [] []
| CText : forall p c l o, ws5 c = false -> Collapse false l o -> Collapse p (c :: l) (c :: o)
| CRun : forall run l o, run <> [] -> forallb ws5 run = true -> Collapse true l o ->
         Collapse false (run ++ l) (run_mark run :: o).
Definition collapse_spec (l o : list Z) : Prop :=
  Collapse false l o.

(* the same as a function *)
Fixpoint run_has_nl (l : list Z) : bool :=
  match l with c :: t => if ws5 c then nl2 c || run_has_nl t else false | [] => false end.
Fixpoint collapse_from (prev_ws : bool) (l : list Z) : list Z :=
  match l with
  | [] => []
  | c :: t =>
      if ws5 c then
        if prev_ws then collapse_from true t
        else (if run_has_nl l then 10 else 32) :: collapse_from true t
      else c :: collapse_from false t
  end.
Definition collapse (l : list Z) : list Z := collapse_from false l.

(* ---- entity maps consistent with "replacement never longer than the reference" ----------------- *)
(* shortest numeric reference to the byte c: &#9; &#34; &#127; *)
Definition min_ref_len (c : Z) : Z := if c <? 10 then 4 else if c <? 100 then 5 else 6.

Definition em_entry_ok (rm : list (Z * list Z)) (e : list Z * list Z) : bool :=
  let '(name, r) := e in
  (len r <=? len name + 2) &&
  match r with
  | [c] => match lookup_byte rm c with Some q => len q <=? len name + 2 | None => true end
  | _ => true
  end.
Definition rm_entry_ok (e : Z * list Z) : bool := let '(c, q) := e in len q <=? min_ref_len c.
Definition maps_ok (em : list (list Z * list Z)) (rm : list (Z * list Z)) : bool :=
  forallb (em_entry_ok rm) em && forallb rm_entry_ok rm.

(* ---- decoding of character references (the fragment used in the statements) ---------------------
   terminated numeric references &#D…; and &#xH…; with value 1..127, and the five named references
   of XML.  Everything else is literal text. *)
Fixpoint digits_val (base : Z) (isd : Z -> bool) (dv : Z -> Z) (l : list Z) (acc : Z) : Z * nat * list Z :=
  match l with
  | c :: t => if isd c then
                let '(v, n, r) := digits_val base isd dv t (Z.min 1114112 (acc * base + dv c)) in (v, S n, r)
              else (acc, O, l)
  | [] => (acc, O, [])
  end.
(* l is what follows "&#" : decoded byte and length of the whole reference *)
Definition num_ref_at (l : list Z) : option (Z * nat) :=
  let hex := match l with x :: _ => x =? 120 | [] => false end in
  let '(v, n, r) := if hex then digits_val 16 is_hex hex_val (tl l) 0
                    else digits_val 10 is_digit (fun c => c - 48) l 0 in
  if negb (Nat.eqb n 0) && hd_is 59 r && (0 <? v) && (v <? 128)
  then Some (v, ((if hex then 4 else 3) + n)%nat) else None.
Definition named_refs : list (list Z * Z) :=
  [ (ent_amp, 38); (ent_lt, 60); ([38; 103; 116; 59], 62);
    ([38; 113; 117; 111; 116; 59], 34); ([38; 97; 112; 111; 115; 59], 39) ].
Definition ref_at (l : list Z) : option (Z * nat) :=
  match l with
  | a :: h :: t => if (a =? 38) && (h =? 35) then num_ref_at t else find_ref named_refs l
  | _ => find_ref named_refs l
  end.
Fixpoint html_decode_from (l : list Z) (skip : nat) : list Z :=
  match l with
  | [] => []
  | c :: t =>
      match skip with
      | S k => html_decode_from t k
      | O => match ref_at l with
             | Some (ch, n) => ch :: html_decode_from t (Nat.pred n)
             | None => c :: html_decode_from t 0
             end
      end
  end.
Definition html_decode (l : list Z) : list Z := html_decode_from l 0.

(* ---- what the attribute escapers are documented to return ------------------------------------------ *)
(* every occurrence of the quote q replaced by its reference *)
Definition esc_flat (q : Z) (ent l : list Z) : list Z := flat_map (fun c => if c =? q then ent else [c]) l.
Fixpoint count (q : Z) (l : list Z) : Z :=
  match l with [] => 0 | c :: t => (if c =? q then 1 else 0) + count q t end.
Definition ent_of (q : Z) : list Z := if q =? 34 then ent_dq else ent_sq.

(* bytes that force quoting in HTML: whitespace, both quotes, backtick, less-than, equals, greater-than *)
Definition char7 (c : Z) : bool :=
  ws5 c || (c =? 34) || (c =? 39) || (c =? 60) || (c =? 61) || (c =? 62) || (c =? 96).
Definition plain (v : list Z) : bool := forallb (fun c => negb (char7 c)) v.

(* the cheaper quote; on a tie the original quote, double by default *)
Definition html_quote (v : list Z) (oq : Z) : Z :=
  if (count 39 v <? count 34 v) || ((count 39 v =? count 34 v) && (oq =? 39)) then 39 else 34.
Definition quoted (q : Z) (v : list Z) : list Z := q :: esc_flat q (ent_of q) v ++ [q].
Definition html_expected (v : list Z) (oq : Z) (mq : bool) : list Z :=
  if plain v && (negb mq || (oq =? 0)) then v else quoted (html_quote v oq) v.
Definition xml_quote (v : list Z) : Z := if count 39 v <? count 34 v then 39 else 34.

(* what xml.EscapeAttrVal writes (since /repo a851768): the quote and TAB/LF/CR as references *)
Definition xesc_flat (q : Z) (l : list Z) : list Z :=
  flat_map (fun c => if c =? q then ent_of q else if c =? 9 then ent_tab else if c =? 10 then ent_lf
                     else if c =? 13 then ent_cr else [c]) l.
Definition xquoted (q : Z) (v : list Z) : list Z := q :: xesc_flat q v ++ [q].
(* the size xml.EscapeAttrVal reserves for its result *)
Definition xml_reserved (v : list Z) : Z :=
  len v + 2 + 4 * (count 9 v + count 10 v + count 13 v) + 4 * Z.min (count 39 v) (count 34 v).

(* attribute value normalisation of the xml lexer: literal TAB/LF/CR inside quotes become a space *)
Definition xnorm (c : Z) : Z := if (c =? 9) || (c =? 10) || (c =? 13) then 32 else c.

(* ---- a class of inputs on which ReplaceEntities returns the decoded text --------------------------------
   text without '&' interleaved with any number of terminated decimal / hexadecimal references (leading
   zeros allowed) to ASCII bytes other than NUL and '&', where a reference to a letter, digit, '#' or ';' is
   not directly preceded by 34 or more bytes of [0-9a-zA-Z#] (the look-behind of replaceEntities then leaves
   it alone: "too far to tell").  [clean_from acc b o]: acc is the output so far, reversed; o the decoding. *)
Definition dec_val (ds : list Z) : Z := fold_left (fun a c => a * 10 + (c - 48)) ds 0.
Definition hex_num (hs : list Z) : Z := fold_left (fun a c => a * 16 + hex_val c) hs 0.
Definition near_ok (acc : list Z) (v : Z) : Prop := cont_start v = false \/ look_behind acc 1 = false.
Inductive clean_from : list Z -> list Z -> list Z -> Prop :=
| CL_nil : forall acc, clean_from acc [] []
| CL_text : forall acc c l o, c <> 38 -> clean_from (c :: acc) l o -> clean_from acc (c :: l) (c :: o)
| CL_dec : forall acc ds l o, ds <> [] -> forallb is_digit ds = true ->
    0 < dec_val ds < 128 -> dec_val ds <> 38 -> near_ok acc (dec_val ds) ->
    clean_from (dec_val ds :: acc) l o ->
    clean_from acc (38 :: 35 :: ds ++ 59 :: l) (dec_val ds :: o)
| CL_hex : forall acc hs l o, hs <> [] -> forallb is_hex hs = true ->
    0 < hex_num hs < 128 -> hex_num hs <> 38 -> near_ok acc (hex_num hs) ->
    clean_from (hex_num hs :: acc) l o ->
    clean_from acc (38 :: 35 :: 120 :: hs ++ 59 :: l) (hex_num hs :: o).
Definition clean (b o : list Z) : Prop := clean_from [] b o.

(* ---- entity maps whose replacements ReplaceEntities itself leaves alone ----------------------------------
   a replacement is the single byte '&', or a non-empty string of bytes other than '&' and decimal references
   whose value reaches 128 (such as `&#198;`, `&#8770;&#824;`); these are the shapes HTML entity tables use *)
Inductive inert_str : list Z -> Prop :=
| IS_nil : inert_str []
| IS_byte : forall c r, c <> 38 -> inert_str r -> inert_str (c :: r)
| IS_ref : forall ds r, ds <> [] -> forallb is_digit ds = true -> 128 <= snd (scan_dec ds 0) ->
    inert_str r -> inert_str (38 :: 35 :: ds ++ 59 :: r).
Definition em_stable (em : list (list Z * list Z)) : Prop :=
  forall name r, In (name, r) em -> r = [38] \/ (r <> [] /\ inert_str r).

(* ---- the decision replaceEntities takes at an '&', as a function of the window u = the bytes from the '&' up to
   (not including) the first byte that stops every scan, and of the look-behind lb.  EntShift.replace_at_dec proves
   that the model of replaceEntities does exactly this. *)
Inductive decision := Keep (d : Z) | Repl (off : Z) (r : list Z).

Definition dguard (lb : bool) (off : Z) (r : list Z) : decision :=
  match r with
  | c :: _ => if cont_start c && lb then Keep off else Repl off r
  | [] => Repl off r
  end.

Definition dfinish (rm : list (Z * list Z)) (lb : bool) (u : list Z) (off : Z) (r : list Z) : decision :=
  if (off <? len u) && (getz u off =? 59) && (2 <? off + 1) then
    match r with
    | [c] =>
        match lookup_byte rm c with
        | Some q => if list_eqb q (slice u 0 (off + 1)) then Keep off else dguard lb off q
        | None =>
            if c =? 38 then
              let k := off + 1 in
              if (k <? len u) && (is_alnum (getz u k) || (getz u k =? 35)) then Keep k else dguard lb off r
            else dguard lb off r
        end
    | _ => dguard lb off r
    end
  else Keep 0.

Definition decide (em : list (list Z * list Z)) (rm : list (Z * list Z)) (lb : bool) (u : list Z) : decision :=
  if getz u 1 =? 35 then
    if getz u 2 =? 120 then
      let '(nd, c) := scan_hex (skipz 3 u) 0 in
      let off := 3 + nd in
      if (off <=? 3) || (10000 <=? c) then Keep (off - 1)
      else dfinish rm lb u off (if c <? 128 then [byte_of c] else 38 :: 35 :: dec_digits c ++ [59])
    else
      let '(nd, c) := scan_dec (skipz 2 u) 0 in
      let off := 2 + nd in
      if (off <=? 2) || (128 <=? c) then Keep (off - 1) else dfinish rm lb u off [byte_of c]
  else
    let off := 1 + scan_name (skipz 1 u) 0 in
    if (off =? 1) || negb (getz u off =? 59) then Keep 0
    else match lookup_name em (slice u 1 off) with
         | None => Keep off
         | Some r => dfinish rm lb u off r
         end.

(* a reverse map entry c -> q is stable when q is one terminated reference `&`...`;` without a second '&' that the
   decision keeps, with and without an ampersand sequence in front (typically: it reads q as c and finds q again) *)
Definition is_keep (d : decision) : bool := match d with Keep _ => true | Repl _ _ => false end.
Definition rm_entry_stable (em : list (list Z * list Z)) (rm : list (Z * list Z)) (e : Z * list Z) : bool :=
  let q := snd e in
  match q with
  | a :: t => (a =? 38) && (3 <=? len q) && (getz q (len q - 1) =? 59) && forallb cont_start t &&
              is_keep (decide em rm false q) && is_keep (decide em rm true q)
  | [] => false
  end.
Definition rm_stable (em : list (list Z * list Z)) (rm : list (Z * list Z)) : bool := forallb (rm_entry_stable em rm) rm.

(* ---- a decoder for terminated character references, parametrised by the name map ---------------------------
   `&#D+;` and `&#xH+;` decode to their (unbounded) value as one code point, `&name;` (name a non-empty run of
   [0-9a-zA-Z]) to what the map's replacement for that name decodes to (numeric references only inside a
   replacement); everything else is literal text.  References to NUL decode to 0, as ReplaceEntities writes them. *)
Definition null {A} (l : list A) : bool := match l with [] => true | _ => false end.
Definition num_ref (l : list Z) : option (list Z * nat) :=        (* l: the text after "&#" *)
  if hd_is 120 l then
    let '(hs, rest) := span is_hex (tl l) in
    if negb (null hs) && hd_is 59 rest then Some ([hex_num hs], (4 + length hs)%nat) else None
  else
    let '(ds, rest) := span is_digit l in
    if negb (null ds) && hd_is 59 rest then Some ([dec_val ds], (3 + length ds)%nat) else None.
Fixpoint dec_from (rf : list Z -> option (list Z * nat)) (l : list Z) (skip : nat) : list Z :=
  match l with
  | [] => []
  | c :: t =>
      match skip with
      | S k => dec_from rf t k
      | O => match rf l with
             | Some (v, n) => v ++ dec_from rf t (Nat.pred n)
             | None => c :: dec_from rf t 0
             end
      end
  end.
Definition ref_num (l : list Z) : option (list Z * nat) :=        (* l: the text from the '&' on *)
  match l with
  | a :: t => if (a =? 38) && hd_is 35 t then num_ref (tl t) else None
  | [] => None
  end.
Definition ndec (l : list Z) : list Z := dec_from ref_num l 0.
Definition ref_named (em : list (list Z * list Z)) (l : list Z) : option (list Z * nat) :=
  match l with
  | a :: t =>
      if a =? 38 then
        if hd_is 35 t then num_ref (tl t)
        else
          let '(name, rest) := span is_alnum t in
          if negb (null name) && hd_is 59 rest then
            match lookup_name em name with
            | Some r => Some (ndec r, (2 + length name)%nat)
            | None => None
            end
          else None
      else None
  | [] => None
  end.
Definition hdec (em : list (list Z * list Z)) (l : list Z) : list Z := dec_from (ref_named em) l 0.

(* the reverse map writes references that decode back to the byte they stand for *)
Definition rm_dec_ok (em : list (list Z * list Z)) (rm : list (Z * list Z)) : bool :=
  forallb (fun e => match ref_named em (snd e) with
                    | Some (v, n) => list_eqb v [fst e] && Nat.eqb n (length (snd e))
                    | None => false
                    end) rm.
