(* Normalise/Dec.v — ReplaceEntities leaves the decoded text unchanged (after the look-behind of /repo 628a240 +
   c07f47f): hdec em (ReplaceEntities b) = hdec em b for every input. *)
From Coq Require Import ZifyBool.
From Verif Require Import Common.Base Common.Tactics Normalise.Model Normalise.Spec
  Normalise.WsProofs Normalise.EscProofs Normalise.EntProofs Normalise.EntShift Normalise.Compose Normalise.Partial
  Normalise.AttrProofs Normalise.Idem.

(* ---- span ---------------------------------------------------------------------------------------------------- *)
Lemma span_cons p c t : span p (c :: t) = if p c then let '(a, r) := span p t in (c :: a, r) else ([], c :: t).
Proof. reflexivity. Qed.

Lemma span_app_nonnil p a : forall h r Y, span p a = (h, r) -> r <> [] -> span p (a ++ Y) = (h, r ++ Y).
Proof.
  induction a as [|c t IH]; intros h r Y H Hr.
  - cbn [span] in H. injection H as <- <-. congruence.
  - cbn [app]. rewrite span_cons in *. destruct (p c).
    + destruct (span p t) as [a1 r1] eqn:E. injection H as <- <-. rewrite (IH a1 r1 Y eq_refl Hr). reflexivity.
    + injection H as <- <-. reflexivity.
Qed.

Lemma span_parts p l : forall h r, span p l = (h, r) -> l = h ++ r /\ forallb p h = true /\
  (match r with [] => True | x :: _ => p x = false end).
Proof.
  induction l as [|c t IH]; intros h r H.
  - cbn [span] in H. injection H as <- <-. repeat split.
  - rewrite span_cons in H. destruct (p c) eqn:E.
    + destruct (span p t) as [a1 r1] eqn:E1. injection H as <- <-. destruct (IH a1 r1 eq_refl) as (-> & Ha & Hr).
      cbn [forallb]. rewrite E, Ha. repeat split. exact Hr.
    + injection H as <- <-. repeat split. exact E.
Qed.

Lemma span_has59 p l : p 59 = false -> In 59 l -> snd (span p l) <> [].
Proof.
  intros Hp Hin. destruct (span p l) as [h r] eqn:E. destruct (span_parts p l h r E) as (-> & Hh & _). cbn [snd].
  intros ->. rewrite app_nil_r in Hin. rewrite forallb_forall in Hh. specialize (Hh 59 Hin). congruence.
Qed.

(* no ';' ahead: whatever the span, it is not followed by ';' *)
Lemma span_no59 p a X : ~ In 59 a -> (match X with [] => True | x :: _ => p x = false /\ x <> 59 end) ->
  hd_is 59 (snd (span p (a ++ X))) = false.
Proof.
  intros Ha HX. induction a as [|c t IH].
  - cbn [app]. destruct X as [|x X']; [reflexivity|]. rewrite span_cons. destruct HX as [Hp Hx]. rewrite Hp. cbn [snd hd_is]. lia.
  - cbn [app]. rewrite span_cons. destruct (p c).
    + destruct (span p (t ++ X)) as [a1 r1] eqn:E. cbn [snd] in *. apply IH. intros Hin. apply Ha. right. exact Hin.
    + cbn [snd hd_is]. destruct (c =? 59) eqn:E; [|reflexivity]. exfalso. apply Ha. left. lia.
Qed.

(* ---- the generic decoder ---------------------------------------------------------------------------------------- *)
Lemma dec_skip rf a x : dec_from rf (a ++ x) (length a) = dec_from rf x 0.
Proof. induction a as [|c a IH]; cbn [app length dec_from]; [reflexivity|exact IH]. Qed.

Lemma dec_lit rf c x : rf (c :: x) = None -> dec_from rf (c :: x) 0 = c :: dec_from rf x 0.
Proof. intros H. cbn [dec_from]. rewrite H. reflexivity. Qed.

Lemma dec_hit rf l v n : rf l = Some (v, n) -> (1 <= n <= length l)%nat ->
  dec_from rf l 0 = v ++ dec_from rf (skipn n l) 0.
Proof.
  intros H Hn. destruct l as [|c t]; [cbn [length] in Hn; lia|]. cbn [dec_from]. rewrite H. f_equal.
  destruct n as [|k]; [lia|]. cbn [Nat.pred skipn]. cbn [length] in Hn.
  pose proof (dec_skip rf (firstn k t) (skipn k t)) as D. rewrite firstn_skipn in D. rewrite firstn_length in D.
  replace (Nat.min k (length t)) with k in D by lia. exact D.
Qed.

Lemma ref_named_noamp em c x : c <> 38 -> ref_named em (c :: x) = None.
Proof. intros H. unfold ref_named. replace (c =? 38) with false by lia. reflexivity. Qed.
Lemma ref_num_noamp c x : c <> 38 -> ref_num (c :: x) = None.
Proof. intros H. unfold ref_num. replace (c =? 38) with false by lia. reflexivity. Qed.

Lemma hdec_seg em seg x : ~ In 38 seg -> hdec em (seg ++ x) = seg ++ hdec em x.
Proof.
  unfold hdec. induction seg as [|c t IH]; intros H; [reflexivity|]. cbn [app].
  rewrite dec_lit by (apply ref_named_noamp; intros ->; apply H; left; reflexivity).
  rewrite IH by (intros Hin; apply H; right; exact Hin). reflexivity.
Qed.

(* lengths of recognised references *)
Lemma num_ref_len l v n : num_ref l = Some (v, n) -> (3 <= n <= 2 + length l)%nat.
Proof.
  unfold num_ref. destruct (hd_is 120 l) eqn:E.
  - destruct (span is_hex (tl l)) as [hs rest] eqn:Es. destruct (span_parts _ _ _ _ Es) as (El & _ & _).
    destruct (negb (null hs) && hd_is 59 rest) eqn:C; [|discriminate]. intros H. injection H as _ <-.
    destruct l as [|x t]; [discriminate E|]. cbn [tl] in El. subst t. cbn [length]. rewrite app_length.
    destruct rest; [rewrite andb_false_r in C; discriminate|]. destruct hs; [discriminate C|]. cbn [length]. lia.
  - destruct (span is_digit l) as [ds rest] eqn:Es. destruct (span_parts _ _ _ _ Es) as (El & _ & _).
    destruct (negb (null ds) && hd_is 59 rest) eqn:C; [|discriminate]. intros H. injection H as _ <-.
    subst l. rewrite app_length. destruct rest; [rewrite andb_false_r in C; discriminate|]. destruct ds; [discriminate C|].
    cbn [length]. lia.
Qed.

Lemma ref_named_len em l v n : ref_named em l = Some (v, n) -> (3 <= n <= length l)%nat.
Proof.
  unfold ref_named. destruct l as [|a t]; [discriminate|]. destruct (a =? 38); [|discriminate].
  destruct (hd_is 35 t) eqn:E.
  - intros H. apply num_ref_len in H. destruct t as [|x t']; [discriminate E|]. cbn [tl length] in *. lia.
  - destruct (span is_alnum t) as [name rest] eqn:Es. destruct (span_parts _ _ _ _ Es) as (El & _ & _).
    destruct (negb (null name) && hd_is 59 rest) eqn:C; [|discriminate].
    destruct (lookup_name em name); [|discriminate]. intros H. injection H as _ <-.
    subst t. cbn [length]. rewrite app_length. destruct rest; [rewrite andb_false_r in C; discriminate|].
    destruct name; [discriminate C|]. cbn [length]. lia.
Qed.

(* ---- recognition is local ---------------------------------------------------------------------------------------- *)
Lemma hd_is_app_nonnil c (r X : list Z) : r <> [] -> hd_is c (r ++ X) = hd_is c r.
Proof. destruct r; [congruence|reflexivity]. Qed.

Lemma span_ext59 p l X : p 59 = false -> In 59 l ->
  span p (l ++ X) = (fst (span p l), snd (span p l) ++ X) /\ snd (span p l) <> [].
Proof.
  intros Hp Hin. pose proof (span_has59 p l Hp Hin) as Hn. destruct (span p l) as [h r] eqn:E. cbn [fst snd] in *.
  split; [apply span_app_nonnil; assumption|exact Hn].
Qed.

Lemma num_ref_ext l X : In 59 l -> num_ref (l ++ X) = num_ref l.
Proof.
  intros Hin. destruct l as [|x t]; [destruct Hin|]. unfold num_ref. cbn [app hd_is tl].
  destruct (x =? 120) eqn:E.
  - assert (Ht : In 59 t) by (destruct Hin as [Hx|Ht]; [lia|exact Ht]).
    destruct (span_ext59 is_hex t X eq_refl Ht) as [-> Hn]. destruct (span is_hex t) as [hs r]. cbn [fst snd] in *.
    rewrite hd_is_app_nonnil by exact Hn. reflexivity.
  - change (x :: t ++ X) with ((x :: t) ++ X).
    destruct (span_ext59 is_digit (x :: t) X eq_refl Hin) as [-> Hn]. destruct (span is_digit (x :: t)) as [ds r]. cbn [fst snd] in *.
    rewrite hd_is_app_nonnil by exact Hn. reflexivity.
Qed.

Lemma ref_named_ext em run X : In 59 run -> ref_named em (38 :: run ++ X) = ref_named em (38 :: run).
Proof.
  intros Hin. destruct run as [|c1 r1]; [destruct Hin|]. unfold ref_named. change (38 =? 38) with true. cbv iota.
  cbn [app hd_is tl]. destruct (c1 =? 35) eqn:E.
  - assert (Ht : In 59 r1) by (destruct Hin as [Hx|Ht]; [lia|exact Ht]). rewrite num_ref_ext by exact Ht. reflexivity.
  - change (c1 :: r1 ++ X) with ((c1 :: r1) ++ X).
    destruct (span_ext59 is_alnum (c1 :: r1) X eq_refl Hin) as [-> Hn].
    destruct (span is_alnum (c1 :: r1)) as [name r]. cbn [fst snd] in *.
    rewrite hd_is_app_nonnil by exact Hn. reflexivity.
Qed.

Lemma stop_head p (X : list Z) : (forall c, cont_start c = false -> p c = false) -> cont_start (getz X 0) = false ->
  match X with [] => True | x :: _ => p x = false /\ x <> 59 end.
Proof.
  intros Hp H. destruct X as [|x X']; [exact I|]. rewrite getz_0 in H. split; [apply Hp; exact H|].
  unfold cont_start in H. lia.
Qed.

Lemma cs_alnum c : cont_start c = false -> is_alnum c = false.
Proof. unfold cont_start. lia. Qed.
Lemma cs_digit c : cont_start c = false -> is_digit c = false.
Proof. unfold cont_start, is_alnum. lia. Qed.
Lemma cs_hex c : cont_start c = false -> is_hex c = false.
Proof. unfold cont_start, is_alnum, is_hex, is_digit. lia. Qed.

Lemma span_stop_head p X : (forall c, cont_start c = false -> p c = false) -> cont_start (getz X 0) = false ->
  span p X = ([], X).
Proof.
  intros Hp H. destruct X as [|x X']; [reflexivity|]. rewrite getz_0 in H. rewrite span_cons, (Hp x H). reflexivity.
Qed.

Lemma ref_named_none em run X : ~ In 59 run -> cont_start (getz X 0) = false -> ref_named em (38 :: run ++ X) = None.
Proof.
  intros Hn HX. unfold ref_named. change (38 =? 38) with true. cbv iota.
  assert (Fin : forall p (a : list Z), (forall c, cont_start c = false -> p c = false) -> ~ In 59 a ->
            forall h r, span p (a ++ X) = (h, r) -> negb (null h) && hd_is 59 r = false).
  { intros p a Hp Ha h r E. pose proof (span_no59 p a X Ha (stop_head p X Hp HX)) as F. rewrite E in F. cbn [snd] in F.
    rewrite F. apply andb_false_r. }
  assert (HX35 : hd_is 35 X = false).
  { destruct X as [|x X']; [reflexivity|]. rewrite getz_0 in HX. cbn [hd_is]. unfold cont_start in HX. lia. }
  assert (HX120 : hd_is 120 X = false).
  { destruct X as [|x X']; [reflexivity|]. rewrite getz_0 in HX. cbn [hd_is]. unfold cont_start, is_alnum in HX. lia. }
  destruct run as [|c1 r1].
  - cbn [app]. rewrite HX35. rewrite (span_stop_head is_alnum X cs_alnum HX). reflexivity.
  - cbn [app hd_is tl]. destruct (c1 =? 35) eqn:E1.
    + unfold num_ref. destruct r1 as [|c2 r2].
      * cbn [app]. rewrite HX120. rewrite (span_stop_head is_digit X cs_digit HX). reflexivity.
      * cbn [app hd_is tl]. assert (Hn2 : ~ In 59 (c2 :: r2)) by (intros Hin; apply Hn; right; exact Hin).
        destruct (c2 =? 120) eqn:E2.
        -- destruct (span is_hex (r2 ++ X)) as [hs r] eqn:Es.
           rewrite (Fin is_hex r2 cs_hex ltac:(intros Hin; apply Hn2; right; exact Hin) hs r Es). reflexivity.
        -- change (c2 :: r2 ++ X) with ((c2 :: r2) ++ X). destruct (span is_digit ((c2 :: r2) ++ X)) as [ds r] eqn:Es.
           rewrite (Fin is_digit (c2 :: r2) cs_digit Hn2 ds r Es). reflexivity.
    + change (c1 :: r1 ++ X) with ((c1 :: r1) ++ X). destruct (span is_alnum ((c1 :: r1) ++ X)) as [name r] eqn:Es.
      rewrite (Fin is_alnum (c1 :: r1) cs_alnum Hn name r Es). reflexivity.
Qed.

(* what the window '&' run decodes to; the same whatever follows, provided a run without ';' is not followed by one *)
Definition wpre (em : list (list Z * list Z)) (run : list Z) : list Z :=
  if existsb (fun c => c =? 59) run then
    match ref_named em (38 :: run) with
    | Some (v, n) => v ++ skipn n (38 :: run)
    | None => 38 :: run
    end
  else 38 :: run.

Lemma existsb_59 run : existsb (fun c => c =? 59) run = true <-> In 59 run.
Proof.
  rewrite existsb_exists. split.
  - intros (x & Hin & E). assert (x = 59) by lia. subst x. exact Hin.
  - intros H. exists 59. split; [exact H|reflexivity].
Qed.

Lemma dec_window em run X : forallb cont_start run = true ->
  (In 59 run \/ cont_start (getz X 0) = false) -> hdec em (38 :: run ++ X) = wpre em run ++ hdec em X.
Proof.
  intros Hrun HX. pose proof (run_noamp run Hrun) as Hna. unfold wpre.
  assert (None_case : ref_named em (38 :: run ++ X) = None -> hdec em (38 :: run ++ X) = (38 :: run) ++ hdec em X).
  { intros E. unfold hdec. rewrite dec_lit by exact E. fold (hdec em (run ++ X)). rewrite hdec_seg by exact Hna. reflexivity. }
  destruct (existsb (fun c => c =? 59) run) eqn:E59.
  - apply existsb_59 in E59. pose proof (ref_named_ext em run X E59) as Ext.
    destruct (ref_named em (38 :: run)) as [[v n]|] eqn:Er; [|apply None_case; exact Ext].
    pose proof (ref_named_len em _ _ _ Er) as Hlen.
    unfold hdec. rewrite (dec_hit _ _ v n Ext) by (cbn [length] in *; rewrite app_length; lia).
    rewrite <- app_assoc. f_equal. change (38 :: run ++ X) with ((38 :: run) ++ X).
    rewrite skipn_app. replace (n - length (38%Z :: run))%nat with 0%nat by lia. cbn [skipn].
    fold (hdec em (skipn n (38 :: run) ++ X)). apply hdec_seg.
    intros Hin. assert (Hin2 : In 38 (skipn n (38 :: run))) by exact Hin.
    destruct n as [|k]; [lia|]. cbn [skipn] in Hin2. apply Hna.
    rewrite <- (firstn_skipn k run). apply in_or_app. right. exact Hin2.
  - apply None_case. destruct HX as [Hin|HX]; [apply existsb_59 in Hin; congruence|].
    apply ref_named_none; [|exact HX]. intros Hin. apply existsb_59 in Hin. congruence.
Qed.

(* ---- the scans of replaceEntities and the spans of the decoder agree on replaced references ------------------- *)
Lemma firstz_cons {A} (d : A) t n : 0 <= n -> firstz (1 + n) (d :: t) = d :: firstz n t.
Proof. intros H. unfold firstz. rewrite Z2Nat.inj_add by lia. reflexivity. Qed.
Lemma skipz_cons {A} (d : A) t n : 0 <= n -> skipz (1 + n) (d :: t) = skipz n t.
Proof. intros H. unfold skipz. rewrite Z2Nat.inj_add by lia. reflexivity. Qed.

Lemma scan_hex_span l : forall acc n c, 0 <= acc -> scan_hex l acc = (n, c) -> c < 65536 ->
  span is_hex l = (firstz n l, skipz n l) /\ c = fold_left hstep (firstz n l) acc /\ 0 <= n.
Proof.
  induction l as [|d t IH]; intros acc n c Ha H Hc; [cbn [scan_hex] in H|rewrite scan_hex_cons in H].
  - apply pair_equal_spec in H. destruct H as [<- <-]. split; [reflexivity|]. split; [reflexivity|lia].
  - rewrite span_cons. destruct ((acc <? 65536) && is_hex d) eqn:E.
    + apply andb_true_iff in E. destruct E as [_ E]. pose proof (hex_val_range d E). rewrite E.
      destruct (scan_hex t (acc * 16 + hex_val d)) as [n1 c1] eqn:E1. apply pair_equal_spec in H. destruct H as [<- <-].
      assert (Ha' : 0 <= acc * 16 + hex_val d) by lia.
      destruct (IH _ _ _ Ha' E1 Hc) as (Es & Ev & Hn). rewrite Es.
      rewrite firstz_cons, skipz_cons by lia. cbn [fold_left]. split; [reflexivity|]. split; [exact Ev|lia].
    + apply pair_equal_spec in H. destruct H as [<- <-].
      assert (Eh : is_hex d = false) by (destruct (is_hex d); [lia|reflexivity]). rewrite Eh. split; [reflexivity|]. split; [reflexivity|lia].
Qed.

Lemma scan_dec_span l : forall acc n c, 0 <= acc -> scan_dec l acc = (n, c) -> c < 128 ->
  span is_digit l = (firstz n l, skipz n l) /\ c = fold_left dstep (firstz n l) acc /\ 0 <= n.
Proof.
  induction l as [|d t IH]; intros acc n c Ha H Hc; [cbn [scan_dec] in H|rewrite scan_dec_cons in H].
  - apply pair_equal_spec in H. destruct H as [<- <-]. split; [reflexivity|]. split; [reflexivity|lia].
  - rewrite span_cons. destruct ((acc <? 128) && is_digit d) eqn:E.
    + apply andb_true_iff in E. destruct E as [_ E]. rewrite E. assert (Hd : 48 <= d <= 57) by (unfold is_digit in E; lia).
      destruct (scan_dec t (acc * 10 + (d - 48))) as [n1 c1] eqn:E1. apply pair_equal_spec in H. destruct H as [<- <-].
      assert (Ha' : 0 <= acc * 10 + (d - 48)) by lia.
      destruct (IH _ _ _ Ha' E1 Hc) as (Es & Ev & Hn). rewrite Es.
      rewrite firstz_cons, skipz_cons by lia. cbn [fold_left]. split; [reflexivity|]. split; [exact Ev|lia].
    + apply pair_equal_spec in H. destruct H as [<- <-].
      assert (Eh : is_digit d = false) by (destruct (is_digit d); [lia|reflexivity]). rewrite Eh. split; [reflexivity|]. split; [reflexivity|lia].
Qed.

Lemma scan_name_span l : forall cnt, getz l (scan_name l cnt) = 59 ->
  span is_alnum l = (firstz (scan_name l cnt) l, skipz (scan_name l cnt) l).
Proof.
  induction l as [|d t IH]; intros cnt H.
  - cbn [scan_name] in H. rewrite getz_oob in H by (change (len (@nil Z)) with 0; lia). discriminate H.
  - rewrite scan_name_cons in *. rewrite span_cons. destruct ((cnt <=? 31) && negb (d =? 59) && is_alnum d) eqn:E.
    + assert (Ea : is_alnum d = true) by lia. rewrite Ea.
      pose proof (scan_name_nonneg t (cnt + 1)) as Hn. rewrite getz_S in H by exact Hn.
      rewrite (IH _ H). rewrite firstz_cons, skipz_cons by exact Hn. reflexivity.
    + rewrite getz_0 in H. subst d. reflexivity.
Qed.

Lemma getz_skip_hd l n c : getz l n = c -> c <> 0 -> exists rest, skipz n l = c :: rest /\ 0 <= n < len l.
Proof.
  intros H Hc. assert (Hin : 0 <= n < len l) by (apply getz_nonzero; lia).
  pose proof (split_at l n) as E. destruct (skipz n l) as [|x rest] eqn:Es.
  - exfalso. assert (L : len (skipz n l) = len l - n) by (apply len_skipz; lia). rewrite Es in L. change (len (@nil Z)) with 0 in L. lia.
  - exists rest. split; [|exact Hin]. f_equal. rewrite E in H.
    replace n with (len (firstz n l)) in H at 2 by (apply len_firstz; lia). rewrite getz_app_len in H. exact H.
Qed.

Lemma ndec_single c : ndec [c] = [c].
Proof.
  unfold ndec. rewrite dec_lit; [reflexivity|]. unfold ref_num. destruct (c =? 38); reflexivity.
Qed.

Lemma ndec_hiref c : 128 <= c <= 9999 -> ndec (38 :: 35 :: dec_digits c ++ [59]) = [c].
Proof.
  intros H.
  assert (S : forallb (fun c => list_eqb (ndec (38 :: 35 :: dec_digits c ++ [59])) [c]) (zrange 128 9999) = true)
    by (vm_compute; reflexivity).
  pose proof (zrange_forall _ 128 9999 S c H) as Hc. cbv beta in Hc. clear S.
  set (x := ndec (38 :: 35 :: dec_digits c ++ [59])) in Hc |- *. clearbody x.
  destruct x as [|a [|b t]]; cbn [list_eqb] in Hc; try (rewrite andb_false_r in Hc); try discriminate. f_equal. lia.
Qed.

(* the value of a replaced reference and of its replacement *)
Definition val_ok (rm : list (Z * list Z)) (u : list Z) (off : Z) (V r : list Z) : Prop :=
  (r = [38] /\ V = [38] /\ cls (getz u (off + 1)) = false) \/
  (r <> [] /\ inert_str r /\ ndec r = V) \/
  (exists c, In (c, r) rm /\ V = [c]).

Lemma dfinish_val em rm lb u off r0 o r V : em_stable em ->
  dfinish rm lb u off r0 = Repl o r -> ndec r0 = V -> (r0 = [38] \/ (r0 <> [] /\ inert_str r0)) ->
  val_ok rm u off V r.
Proof.
  intros Hst H HV Hr0. apply dfinish_repl in H. destruct H as (-> & G & [[-> A]|(c & -> & Hin)]).
  - destruct Hr0 as [->|[Hne Hi]].
    + left. repeat split; [rewrite <- HV; apply ndec_single|apply A; reflexivity].
    + right. left. repeat split; assumption.
  - right. right. exists c. split; [exact Hin|]. rewrite <- HV. apply ndec_single.
Qed.


Lemma dfinish_repl_cond rm lb u off r0 o r : dfinish rm lb u off r0 = Repl o r -> off < len u /\ getz u off = 59.
Proof.
  unfold dfinish. destruct ((off <? len u) && (getz u off =? 59) && (2 <? off + 1)) eqn:C; [|discriminate].
  intros _. lia.
Qed.

Lemma hd_of_getz (l : list Z) c : getz l 0 = c -> c <> 0 -> exists t, l = c :: t.
Proof. destruct l as [|x t]; [intros H Hc; rewrite getz_oob in H by (change (len (@nil Z)) with 0; lia); congruence|].
  rewrite getz_0. intros -> _. eauto. Qed.

Lemma span_all' p (l : list Z) c : forallb p l = true -> p c = false -> span p (l ++ [c]) = (l, [c]).
Proof. intros H Hc. apply (span_all p l c [] H Hc). Qed.

Lemma decide_repl_val em rm lb run off r : em_stable em ->
  decide em rm lb (38 :: run) = Repl off r ->
  exists V, ref_named em (38 :: firstz off run) = Some (V, Z.to_nat (off + 1)) /\ In 59 (firstz off run) /\
            val_ok rm (38 :: run) off V r.
Proof.
  intros Hst. set (u := 38 :: run). unfold decide.
  assert (G1 : getz u 1 = getz run 0) by (unfold u; change 1 with (1 + 0); apply getz_S; lia).
  destruct (getz u 1 =? 35) eqn:E1.
  - destruct (hd_of_getz run 35 ltac:(lia) ltac:(lia)) as [l2 Erun].
    assert (G2 : getz u 2 = getz l2 0) by (unfold u; rewrite Erun; change 2 with (1 + (1 + 0)); rewrite !getz_S by lia; reflexivity).
    destruct (getz u 2 =? 120) eqn:E2.
    + destruct (hd_of_getz l2 120 ltac:(lia) ltac:(lia)) as [l3 El2].
      assert (Sk : skipz 3 u = l3) by (unfold u; rewrite Erun, El2; reflexivity). rewrite Sk.
      destruct (scan_hex l3 0) as [nd c] eqn:E.
      pose proof (scan_hex_nonneg _ _ _ _ (Z.le_refl 0) E) as Hc0.
      destruct ((3 + nd <=? 3) || (10000 <=? c)) eqn:C; [discriminate|].
      destruct (scan_hex_span l3 0 nd c (Z.le_refl 0) E ltac:(lia)) as (Es & Ev & Hn0).
      intros H. destruct (dfinish_repl _ _ _ _ _ _ _ H) as (Eoff & _). subst off.
      destruct (dfinish_repl_cond _ _ _ _ _ _ _ H) as [Hoff H59].
      assert (H59' : getz l3 nd = 59).
      { unfold u in H59. rewrite Erun, El2 in H59. replace (3 + nd) with (1 + (1 + (1 + nd))) in H59 by lia.
        rewrite !getz_S in H59 by lia. exact H59. }
      destruct (getz_skip_hd l3 nd 59 H59' ltac:(lia)) as (rest & Esk & Hnd).
      set (hs := firstz nd l3) in *.
      assert (El3 : l3 = hs ++ 59 :: rest) by (rewrite <- Esk; apply split_at).
      assert (Lhs : len hs = nd) by (unfold hs; apply len_firstz; lia).
      destruct (span_parts _ _ _ _ Es) as (_ & Hhs & _).
      assert (Hne : hs <> []) by (intros E0; rewrite E0 in Lhs; change (len (@nil Z)) with 0 in Lhs; lia).
      assert (Efz : firstz (3 + nd) run = 35 :: 120 :: hs ++ [59]).
      { rewrite Erun, El2, El3. replace (35 :: 120 :: hs ++ 59 :: rest) with ((35 :: 120 :: hs ++ [59]) ++ rest) by (lnorm; reflexivity).
        replace (3 + nd) with (len (35 :: 120 :: hs ++ [59])) by (rewrite !len_cons, len_app; change (len [59]) with 1; lia).
        apply firstz_app_len. }
      exists [c]. rewrite Efz. split; [|split].
      * unfold ref_named. change (38 =? 38) with true. cbv iota. cbn [hd_is tl]. change (35 =? 35) with true. cbv iota.
        unfold num_ref. cbn [hd_is tl]. change (120 =? 120) with true. cbv iota.
        rewrite span_all' by (exact Hhs || reflexivity).
        destruct hs as [|h0 hs']; [congruence|]. cbn [null negb andb hd_is]. change (59 =? 59) with true. cbv iota.
        f_equal. f_equal; [f_equal; rewrite Ev; reflexivity|]. unfold len in Lhs. lia.
      * right. right. apply in_or_app. right. left. reflexivity.
      * destruct (c <? 128) eqn:C128.
        -- apply (dfinish_val em rm lb u _ _ _ _ [c] Hst H); rewrite byte_of_small by lia; [apply ndec_single|].
           destruct (Z.eq_dec c 38) as [->|Hc38]; [left; reflexivity|right; split; [discriminate|apply IS_byte; [exact Hc38|apply IS_nil]]].
        -- apply (dfinish_val em rm lb u _ _ _ _ [c] Hst H); [apply ndec_hiref; lia|].
           right. split; [discriminate|apply hiref_inert; lia].
    + assert (Sk : skipz 2 u = l2) by (unfold u; rewrite Erun; reflexivity). rewrite Sk.
      destruct (scan_dec l2 0) as [nd c] eqn:E.
      pose proof (scan_dec_bound _ _ _ _ (Z.le_refl 0) E) as [_ Hc0].
      destruct ((2 + nd <=? 2) || (128 <=? c)) eqn:C; [discriminate|].
      destruct (scan_dec_span l2 0 nd c (Z.le_refl 0) E ltac:(lia)) as (Es & Ev & Hn0).
      intros H. destruct (dfinish_repl _ _ _ _ _ _ _ H) as (Eoff & _). subst off.
      destruct (dfinish_repl_cond _ _ _ _ _ _ _ H) as [Hoff H59].
      assert (H59' : getz l2 nd = 59).
      { unfold u in H59. rewrite Erun in H59. replace (2 + nd) with (1 + (1 + nd)) in H59 by lia.
        rewrite !getz_S in H59 by lia. exact H59. }
      destruct (getz_skip_hd l2 nd 59 H59' ltac:(lia)) as (rest & Esk & Hnd).
      set (ds := firstz nd l2) in *.
      assert (El2 : l2 = ds ++ 59 :: rest) by (rewrite <- Esk; apply split_at).
      assert (Lds : len ds = nd) by (unfold ds; apply len_firstz; lia).
      destruct (span_parts _ _ _ _ Es) as (_ & Hds & _).
      assert (Hne : ds <> []) by (intros E0; rewrite E0 in Lds; change (len (@nil Z)) with 0 in Lds; lia).
      assert (Efz : firstz (2 + nd) run = 35 :: ds ++ [59]).
      { rewrite Erun, El2. replace (35 :: ds ++ 59 :: rest) with ((35 :: ds ++ [59]) ++ rest) by (lnorm; reflexivity).
        replace (2 + nd) with (len (35 :: ds ++ [59])) by (rewrite !len_cons, len_app; change (len [59]) with 1; lia).
        apply firstz_app_len. }
      exists [c]. rewrite Efz. split; [|split].
      * unfold ref_named. change (38 =? 38) with true. cbv iota. cbn [hd_is tl]. change (35 =? 35) with true. cbv iota.
        unfold num_ref.
        assert (Hx : hd_is 120 (ds ++ [59]) = false).
        { destruct ds as [|d0 ds']; [congruence|]. cbn [app hd_is]. rewrite El2 in G2. cbn [app] in G2. rewrite getz_0 in G2. lia. }
        rewrite Hx. rewrite span_all' by (exact Hds || reflexivity).
        destruct ds as [|d0 ds']; [congruence|]. cbn [null negb andb hd_is]. change (59 =? 59) with true. cbv iota.
        f_equal. f_equal; [f_equal; rewrite Ev; reflexivity|]. unfold len in Lds. lia.
      * right. apply in_or_app. right. left. reflexivity.
      * apply (dfinish_val em rm lb u _ _ _ _ [c] Hst H); rewrite byte_of_small by lia; [apply ndec_single|].
        destruct (Z.eq_dec c 38) as [->|Hc38]; [left; reflexivity|right; split; [discriminate|apply IS_byte; [exact Hc38|apply IS_nil]]].
  - assert (Sk : skipz 1 u = run) by reflexivity. rewrite Sk.
    pose proof (scan_name_nonneg run 0) as Hn0. set (n := scan_name run 0) in *.
    destruct ((1 + n =? 1) || negb (getz u (1 + n) =? 59)) eqn:C; [discriminate|].
    assert (H59 : getz run n = 59) by (unfold u in C; rewrite getz_S in C by lia; lia).
    pose proof (scan_name_span run 0 H59) as Es. fold n in Es.
    destruct (getz_skip_hd run n 59 H59 ltac:(lia)) as (rest & Esk & Hnd).
    set (name := firstz n run) in *.
    assert (Erun : run = name ++ 59 :: rest) by (rewrite <- Esk; apply split_at).
    assert (Lname : len name = n) by (unfold name; apply len_firstz; lia).
    destruct (span_parts _ _ _ _ Es) as (_ & Hname & _).
    assert (Hne : name <> []) by (intros E0; rewrite E0 in Lname; change (len (@nil Z)) with 0 in Lname; lia).
    assert (Esl : slice u 1 (1 + n) = name).
    { unfold slice. rewrite Sk. replace (1 + n - 1) with n by lia. reflexivity. }
    rewrite Esl. destruct (lookup_name em name) as [r0|] eqn:El; [|discriminate].
    intros H. destruct (dfinish_repl _ _ _ _ _ _ _ H) as (Eoff & _). subst off.
    assert (Efz : firstz (1 + n) run = name ++ [59]).
    { rewrite Erun at 1. replace (name ++ 59 :: rest) with ((name ++ [59]) ++ rest) by (lnorm; reflexivity).
      replace (1 + n) with (len (name ++ [59])) by (rewrite len_app; change (len [59]) with 1; lia).
      apply firstz_app_len. }
    exists (ndec r0). rewrite Efz. split; [|split].
    + unfold ref_named. change (38 =? 38) with true. cbv iota.
      assert (Hx : hd_is 35 (name ++ [59]) = false).
      { destruct name as [|c0 name']; [congruence|]. cbn [app hd_is]. rewrite Erun in G1. cbn [app] in G1. rewrite getz_0 in G1. lia. }
      rewrite Hx. rewrite span_all' by (exact Hname || reflexivity).
      destruct name as [|c0 name'] eqn:En; [congruence|]. cbn [null negb andb hd_is]. change (59 =? 59) with true. cbv iota.
      rewrite <- En in *. rewrite El. f_equal. f_equal. unfold len in Lname. rewrite En in *. cbn [length] in *. lia.
    + apply in_or_app. right. left. reflexivity.
    + apply lookup_name_in in El. destruct El as (nm & Hin & _).
      apply (dfinish_val em rm lb u _ _ _ _ (ndec r0) Hst H eq_refl). exact (Hst nm r0 Hin).
Qed.

(* ---- replacements decode to what they stand for ------------------------------------------------------------------ *)
Lemma num_ref_digits ds rest : ds <> [] -> forallb is_digit ds = true ->
  num_ref (ds ++ 59 :: rest) = Some ([dec_val ds], (3 + length ds)%nat).
Proof.
  intros Hne Hd. replace (ds ++ 59 :: rest) with ((ds ++ [59]) ++ rest) by (rewrite <- app_assoc; reflexivity).
  rewrite num_ref_ext by (apply in_or_app; right; left; reflexivity).
  unfold num_ref.
  assert (Hx : hd_is 120 (ds ++ [59]) = false).
  { destruct ds as [|d0 ds']; [congruence|]. cbn [app hd_is]. cbn [forallb] in Hd. unfold is_digit in Hd. lia. }
  rewrite Hx. rewrite span_all' by (exact Hd || reflexivity).
  destruct ds as [|d0 ds']; [congruence|]. reflexivity.
Qed.

Lemma dec_inert em r : inert_str r -> forall Y, hdec em (r ++ Y) = ndec r ++ hdec em Y.
Proof.
  induction 1 as [|c r Hc Hr IH|ds r Hne Hd H128 Hr IH]; intros Y.
  - reflexivity.
  - cbn [app]. unfold hdec, ndec. rewrite !dec_lit by (apply ref_named_noamp || apply ref_num_noamp; exact Hc).
    fold (hdec em (r ++ Y)). fold (ndec r). rewrite IH. reflexivity.
  - assert (R1 : ref_named em ((38 :: 35 :: ds ++ 59 :: r) ++ Y) = Some ([dec_val ds], (3 + length ds)%nat)).
    { cbn [app]. rewrite <- app_assoc. cbn [app]. exact (num_ref_digits ds (r ++ Y) Hne Hd). }
    assert (R2 : ref_num (38 :: 35 :: ds ++ 59 :: r) = Some ([dec_val ds], (3 + length ds)%nat)).
    { exact (num_ref_digits ds r Hne Hd). }
    assert (L : forall Z0 : list Z, skipn (3 + length ds) (38 :: 35 :: ds ++ 59 :: Z0) = Z0).
    { intros Z0. replace (38 :: 35 :: ds ++ 59 :: Z0) with ((38 :: 35 :: ds ++ [59]) ++ Z0)
        by (cbn [app]; rewrite <- app_assoc; reflexivity).
      replace (3 + length ds)%nat with (length (38 :: 35 :: ds ++ [59])) by (cbn [length]; rewrite app_length; cbn [length]; lia).
      rewrite skipn_app, skipn_all, Nat.sub_diag. reflexivity. }
    unfold hdec, ndec.
    rewrite (dec_hit _ _ _ _ R1) by (cbn [app length]; rewrite !app_length; cbn [length]; lia).
    rewrite (dec_hit _ _ _ _ R2) by (cbn [length]; rewrite !app_length; cbn [length]; lia).
    replace ((38 :: 35 :: ds ++ 59 :: r) ++ Y) with (38 :: 35 :: ds ++ 59 :: (r ++ Y)) by (cbn [app]; rewrite <- app_assoc; reflexivity).
    rewrite !L. fold (hdec em (r ++ Y)). fold (ndec r). rewrite IH, app_assoc. reflexivity.
Qed.

Lemma hdec_amp_lit em Y : cls (getz Y 0) = false -> hdec em (38 :: Y) = 38 :: hdec em Y.
Proof.
  intros H. unfold hdec. apply dec_lit. unfold ref_named. change (38 =? 38) with true. cbv iota.
  destruct Y as [|y Y']; [reflexivity|]. rewrite getz_0 in H. unfold cls in H. cbn [hd_is].
  replace (y =? 35) with false by lia. rewrite span_cons. replace (is_alnum y) with false by lia. reflexivity.
Qed.

(* ---- the decoded text of the processed suffix --------------------------------------------------------------------- *)
Section DecMain.
  Variable em : list (list Z * list Z).
  Variable rm : list (Z * list Z).
  Hypothesis Hok : maps_ok em rm = true.
  Hypothesis Hst : em_stable em.
  Hypothesis Hrm : rm_stable em rm = true.
  Hypothesis Hrd : rm_dec_ok em rm = true.
  Notation RE := (RE_from em rm).

  Definition Tof (P suf : list Z) : list Z :=
    match RE (P ++ suf) (len P) with Ok o => skipz (len P) o | _ => [] end.

  Lemma Tof_spec P suf : RE (P ++ suf) (len P) = Ok (P ++ Tof P suf) /\ FB P suf (Tof P suf) /\ len (Tof P suf) <= len suf.
  Proof using Hok Hst Hrm.
    destruct (two_all em rm Hok Hst Hrm (length suf) suf P (le_n _)) as (T & E1 & _ & L & F).
    unfold Tof. rewrite E1. rewrite skipz_app_len. repeat split; assumption.
  Qed.

  Lemma Tof_eq P suf X suf' : RE (P ++ suf) (len P) = RE ((P ++ X) ++ suf') (len (P ++ X)) ->
    Tof P suf = X ++ Tof (P ++ X) suf'.
  Proof using Hok Hst Hrm.
    intros E. destruct (Tof_spec (P ++ X) suf') as (E2 & _). unfold Tof at 1. rewrite E, E2.
    rewrite <- app_assoc. rewrite skipz_app_len. reflexivity.
  Qed.

  Lemma rm_dec_entry c q Y : In (c, q) rm -> hdec em (q ++ Y) = c :: hdec em Y.
  Proof using Hok Hrm Hrd.
    intros Hin. destruct (rm_stable_entry em rm c q Hrm Hin) as (t & -> & Hq3 & Hq59 & Hqt & _).
    unfold rm_dec_ok in Hrd. rewrite forallb_forall in Hrd. specialize (Hrd _ Hin). cbn [fst snd] in Hrd.
    destruct (ref_named em (38 :: t)) as [[v n]|] eqn:Er; [|discriminate].
    apply andb_true_iff in Hrd. destruct Hrd as [Hv Hn]. apply Nat.eqb_eq in Hn.
    assert (v = [c]).
    { destruct v as [|a [|b v']]; cbn [list_eqb] in Hv; try discriminate; [|rewrite andb_false_r in Hv; discriminate].
      f_equal. lia. }
    subst v n.
    assert (H59 : In 59 t).
    { pose proof (last_split (38 :: t) ltac:(lia)) as Els. rewrite Hq59 in Els.
      assert (Hl : 1 <= len (38 :: t) - 1) by lia.
      destruct (firstz (len (38 :: t) - 1) (38 :: t)) as [|x f] eqn:Ef.
      - assert (L0 : len (firstz (len (38 :: t) - 1) (38 :: t)) = len (38 :: t) - 1) by (apply len_firstz; lia).
        rewrite Ef in L0. change (len (@nil Z)) with 0 in L0. lia.
      - cbn [app] in Els. injection Els as _ Et. rewrite Et. apply in_or_app. right. left. reflexivity. }
    unfold hdec. change ((38 :: t) ++ Y) with (38 :: t ++ Y).
    rewrite (dec_hit _ (38 :: t ++ Y) [c] (length (38 :: t))).
    - cbn [app]. f_equal. change (38 :: t ++ Y) with ((38 :: t) ++ Y). rewrite skipn_app, skipn_all, Nat.sub_diag. reflexivity.
    - rewrite ref_named_ext by exact H59. exact Er.
    - cbn [length]. rewrite app_length. lia.
  Qed.

  Lemma dec_all : forall n suf P, (length suf <= n)%nat -> hdec em (Tof P suf) = hdec em suf.
  Proof using Hok Hst Hrm Hrd.
    induction n as [|n IH]; intros suf P Hn.
    { destruct suf; [|cbn [length] in Hn; lia]. destruct (Tof_spec P []) as (_ & F & _). cbn [FB] in F. rewrite F. reflexivity. }
    destruct suf as [|c rest].
    { destruct (Tof_spec P []) as (_ & F & _). cbn [FB] in F. rewrite F. reflexivity. }
    cbn [length] in Hn. pose proof (len_nonneg rest) as Hr0. pose proof (len_nonneg P) as HP0.
    assert (Skip : (len rest <= 2 \/ c <> 38) -> Tof P (c :: rest) = c :: Tof (P ++ [c]) rest).
    { intros Hc. change (c :: Tof (P ++ [c]) rest) with ([c] ++ Tof (P ++ [c]) rest). apply Tof_eq.
      rewrite (RE_skip em rm Hok).
      - rewrite len_app. change (len [c]) with 1. rewrite <- app_assoc. reflexivity.
      - rewrite len_app, len_cons. lia.
      - rewrite getz_app_len. destruct Hc as [Hc|Hc].
        + replace (len P + 3 <? len (P ++ c :: rest)) with false by (rewrite len_app, len_cons; lia). apply andb_false_r.
        + replace (c =? 38) with false by lia. reflexivity. }
    destruct (c =? 38) eqn:E38.
    2:{ rewrite Skip by (right; lia). unfold hdec.
        rewrite !dec_lit by (apply ref_named_noamp; lia). fold (hdec em (Tof (P ++ [c]) rest)). fold (hdec em rest).
        rewrite IH by lia. reflexivity. }
    assert (c = 38) by lia. subst c. clear E38.
    destruct (Z_le_dec (len rest) 2) as [Hshort|Hlong].
    { (* too short for ReplaceEntities to look at: nothing changes *)
      assert (E : RE (P ++ 38 :: rest) (len P) = Ok (P ++ 38 :: rest)).
      { unfold RE_from. apply ent_loop_short; rewrite len_app, len_cons; lia. }
      unfold Tof. rewrite E, skipz_app_len. reflexivity. }
    destruct (csplit rest) as (run & w & -> & Hrun & Hw).
    rewrite len_app in *. pose proof (len_nonneg run) as Hrun0. pose proof (len_nonneg w) as Hw0.
    set (u := 38 :: run). set (lb := look_behind (rev P) 1).
    assert (Hu : len u = 1 + len run) by (unfold u; rewrite len_cons; reflexivity).
    assert (Hnoamp : ~ In 38 run) by (apply run_noamp; exact Hrun).
    pose proof (decide_range em rm lb u ltac:(lia)) as R.
    assert (Hws : cont_start (getz w 0) = false) by (apply stop_tail_iff; exact Hw).
    destruct (decide em rm lb u) as [d|off r] eqn:Hd.
    - (* kept *)
      assert (ET : Tof P (38 :: run ++ w) = u ++ Tof (P ++ u) w).
      { apply Tof_eq. rewrite (W_window em rm Hok P run w d Hrun ltac:(lia)).
        - f_equal; [unfold u; lnorm; reflexivity|]. rewrite len_app, Hu. lia.
        - intros run2 w2 EB Hr2 Hw2. destruct run2 as [|x t]; [rewrite app_nil_r; exact Hd|].
          exfalso. rewrite EB in Hws. cbn [app] in Hws. rewrite getz_0 in Hws.
          cbn [forallb] in Hr2. rewrite Hws in Hr2. discriminate Hr2. }
      rewrite ET. destruct (Tof_spec (P ++ u) w) as (_ & F2 & _). set (T2 := Tof (P ++ u) w) in *.
      unfold u. cbn [app].
      rewrite (dec_window em run w Hrun (or_intror Hws)).
      rewrite (dec_window em run T2 Hrun).
      + unfold T2. rewrite IH by (rewrite app_length in Hn; lia). reflexivity.
      + destruct (existsb (fun c => c =? 59) run) eqn:E59; [left; apply existsb_59; exact E59|]. right.
        assert (Hcls : forallb cls run = true).
        { rewrite forallb_forall in *. intros x Hx. specialize (Hrun x Hx). rewrite cont_start_cls in Hrun.
          destruct (x =? 59) eqn:Ex; [|rewrite orb_false_r in Hrun; exact Hrun].
          exfalso. assert (x = 59) by lia. subst x. apply existsb_59 in Hx. congruence. }
        destruct w as [|s w'].
        * cbn [FB] in F2. rewrite F2. reflexivity.
        * cbn [FB] in F2. destruct F2 as (h0 & T0 & -> & F2). rewrite getz_0.
          destruct (s =? 38) eqn:Es.
          -- destruct F2 as [->|F2]; [reflexivity|]. apply F2. unfold u. apply lb_true_run. exact Hcls.
          -- subst h0. rewrite getz_0 in Hws. exact Hws.
    - (* replaced *)
      destruct (decide_repl_shape em rm lb u off r Hst Hrm Hd) as (Hrne & Hg & _).
      pose proof (decide_repl_len em rm lb u off r Hok ltac:(lia) Hd) as Hrl.
      destruct (decide_repl_val em rm lb run off r Hst Hd) as (V & Hrec & H59 & Hval).
      set (ur := skipz (off + 1) u).
      assert (Hurn : ~ In 38 ur).
      { intros Hin. unfold ur, u in Hin. change (38 :: run) with ([38] ++ run) in Hin.
        replace (off + 1) with (len [38] + off) in Hin by (change (len [38]) with 1; lia).
        rewrite skipz_add in Hin by lia. apply in_skipz in Hin. exact (Hnoamp Hin). }
      assert (Eur : ur = skipz off run).
      { unfold ur, u. change (38 :: run) with ([38] ++ run).
        replace (off + 1) with (len [38] + off) by (change (len [38]) with 1; lia). apply skipz_add. lia. }
      assert (ET : Tof P (38 :: run ++ w) = r ++ ur ++ Tof ((P ++ r) ++ ur) w).
      { pose proof (RE_step em rm Hok P run w Hw ltac:(lia)) as S. cbv zeta in S. fold u lb in S. rewrite Hd in S.
        cbn [emitted] in S. destruct S as (_ & S). fold ur in S.
        rewrite app_assoc. replace (P ++ r) with (P ++ r) by reflexivity.
        replace ((r ++ ur) ++ Tof ((P ++ r) ++ ur) w) with ((r ++ ur) ++ Tof (P ++ r ++ ur) w) by (rewrite <- (app_assoc P r ur); reflexivity).
        apply Tof_eq. change (38 :: run ++ w) with (u ++ w). rewrite S.
        rewrite (W_seg em rm Hok (P ++ r) ur w Hurn).
        f_equal; [lnorm; reflexivity|]. rewrite !len_app. lia. }
      rewrite ET. destruct (Tof_spec ((P ++ r) ++ ur) w) as (_ & F2 & _). set (T2 := Tof ((P ++ r) ++ ur) w) in *.
      assert (Hoffr : 0 <= off <= len run) by lia.
      assert (Lfz : length (firstz off run) = Z.to_nat off).
      { pose proof (len_firstz off run Hoffr) as L. unfold len in L. lia. }
      (* the original reference decodes to V *)
      assert (Lhs : hdec em (38 :: run ++ w) = V ++ ur ++ hdec em w).
      { rewrite (split_at run off) at 1. rewrite <- app_assoc.
        unfold hdec. rewrite (dec_hit _ _ V (Z.to_nat (off + 1))).
        - f_equal. rewrite <- Eur.
          replace (skipn (Z.to_nat (off + 1)) (38 :: firstz off run ++ ur ++ w)) with (ur ++ w).
          + fold (hdec em (ur ++ w)). apply hdec_seg. exact Hurn.
          + replace (Z.to_nat (off + 1)) with (S (Z.to_nat off)) by lia. cbn [skipn].
            rewrite <- Lfz. rewrite skipn_app, skipn_all, Nat.sub_diag. reflexivity.
        - rewrite <- Eur. rewrite ref_named_ext by exact H59. exact Hrec.
        - cbn [length]. rewrite app_length. lia. }
      rewrite Lhs.
      assert (Rhs : hdec em (r ++ ur ++ T2) = V ++ ur ++ hdec em T2).
      { destruct Hval as [(-> & -> & Hcls)|[(Hne & Hin & HV)|(c0 & Hin & ->)]].
        - change ([38] ++ ur ++ T2) with (38 :: ur ++ T2). rewrite hdec_amp_lit.
          + cbn [app]. f_equal. apply hdec_seg. exact Hurn.
          + destruct ur as [|x ur'] eqn:Eu0.
            * cbn [app]. destruct w as [|s w'].
              -- cbn [FB] in F2. rewrite F2. reflexivity.
              -- cbn [FB] in F2. destruct F2 as (h0 & T0 & -> & F2). rewrite getz_0.
                 destruct (s =? 38) eqn:Es.
                 ++ destruct F2 as [->|F2]; [reflexivity|].
                    assert (Hl : look_behind (rev ((P ++ [38]) ++ [])) 1 = true) by (rewrite app_nil_r, rev_app_distr; reflexivity).
                    specialize (F2 Hl). rewrite cont_start_cls in F2. destruct (cls h0); [discriminate F2|reflexivity].
                 ++ subst h0. rewrite getz_0, cont_start_cls in Hws. destruct (cls s); [discriminate Hws|reflexivity].
            * cbn [app]. rewrite getz_0.
              assert (Ex : x = getz u (off + 1)).
              { rewrite (split_at u (off + 1)). fold ur. rewrite Eu0.
                replace (off + 1) with (len (firstz (off + 1) u)) at 2 by (apply len_firstz; lia).
                rewrite getz_app_len. reflexivity. }
              rewrite Ex. exact Hcls.
        - rewrite (dec_inert em r Hin), HV. f_equal. apply hdec_seg. exact Hurn.
        - rewrite (rm_dec_entry c0 r _ Hin). cbn [app]. f_equal. apply hdec_seg. exact Hurn. }
      rewrite Rhs. unfold T2. rewrite IH by (rewrite app_length in Hn; lia). reflexivity.
  Qed.

  Lemma entities_preserve_decoding_proof : forall b, exists o,
    replace_entities em rm b = Ok o /\ hdec em o = hdec em b.
  Proof using Hok Hst Hrm Hrd.
    intros b. destruct (Tof_spec [] b) as (E & _). cbn [app] in E. change (len (@nil Z)) with 0 in E.
    exists (Tof [] b). rewrite (replace_entities_RE em rm Hok). split; [exact E|].
    apply (dec_all (length b)). lia.
  Qed.
End DecMain.

Example decoding_maps_example :
  rm_dec_ok demo_em demo_rm = true /\
  (* `&am&#112;;&#x3c;&AElig;` : the first reference is left alone (look-behind), the others are rewritten *)
  replace_entities demo_em demo_rm [38;97;109;38;35;49;49;50;59;59; 38;35;120;51;99;59; 38;65;69;108;105;103;59]
    = Ok [38;97;109;38;35;49;49;50;59;59; 38;108;116;59; 38;35;49;57;56;59] /\
  hdec demo_em [38;97;109;38;35;49;49;50;59;59; 38;35;120;51;99;59; 38;65;69;108;105;103;59] = [38;97;109;112;59;60;198] /\
  hdec demo_em [38;97;109;38;35;49;49;50;59;59; 38;108;116;59; 38;35;49;57;56;59] = [38;97;109;112;59;60;198].
Proof. vm_compute. repeat split. Qed.
