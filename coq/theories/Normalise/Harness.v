(* Normalise/Harness.v — correspondence entry points for C17. *)
From Verif Require Import Common.Base Common.Codec Normalise.Model.

(* result encodings: 0 n bytes | -1 panic | -3 out of fuel *)
Definition enc_bytes (r : result (list Z)) : list Z :=
  match r with Ok l => 0 :: len l :: l | Panic => [-1] | Fuel => [-3] end.

(* maps: ne (name repl)*ne  nr (byte ref)*nr, every list length-prefixed *)
Fixpoint take_emap (n : nat) (l : list Z) : list (list Z * list Z) * list Z :=
  match n with
  | O => ([], l)
  | S k => let '(nm, r1) := take_list l in
           let '(rp, r2) := take_list r1 in
           let '(m, r3) := take_emap k r2 in ((nm, rp) :: m, r3)
  end.
Fixpoint take_rmap (n : nat) (l : list Z) : list (Z * list Z) * list Z :=
  match n with
  | O => ([], l)
  | S k => let c := hdz l in
           let '(q, r2) := take_list (tlz l) in
           let '(m, r3) := take_rmap k r2 in ((c, q) :: m, r3)
  end.
Definition take_maps (l : list Z) : list (list Z * list Z) * list (Z * list Z) * list Z :=
  let '(em, r1) := take_emap (Z.to_nat (hdz l)) (tlz l) in
  let '(rm, r2) := take_rmap (Z.to_nat (hdz r1)) (tlz r1) in
  (em, rm, r2).

Definition run_c17_ws (l : list Z) : list Z :=
  let '(b, _) := take_list l in enc_bytes (replace_multiple_ws b).

Definition run_c17_ent (l : list Z) : list Z :=
  let '(em, rm, r) := take_maps l in
  let '(b, _) := take_list r in enc_bytes (replace_entities em rm b).

Definition run_c17_wsent (l : list Z) : list Z :=
  let '(em, rm, r) := take_maps l in
  let '(b, _) := take_list r in enc_bytes (replace_ws_and_entities em rm b).

(* oq mq |b| b *)
Definition run_c17_hesc (l : list Z) : list Z :=
  let oq := hdz l in
  let mq := negb (hdz (tlz l) =? 0) in
  let '(b, _) := take_list (tlz (tlz l)) in enc_bytes (html_escape_attr_val b oq mq).

Definition run_c17_xesc (l : list Z) : list Z :=
  let '(b, _) := take_list l in enc_bytes (xml_escape_attr_val b).

Definition run_c17_cdata (l : list Z) : list Z :=
  let '(b, _) := take_list l in
  let '(o, ok) := xml_escape_cdata b in (if ok then 1 else 0) :: len o :: o.

(* tokens: type |data| data |key| key (|val| or -1) val ;  types 1 attr 2 close 3 void 4 pi 0 error *)
Definition enc_tok (t : tok) : list Z :=
  match t with
  | TAttr d k v => 1 :: len d :: d ++ len k :: k ++
                   match v with Some x => len x :: x | None => [-1] end
  | TClose d => 2 :: len d :: d
  | TVoid d => 3 :: len d :: d
  | TPI d => 4 :: len d :: d
  | TError => [0]
  end.
Definition run_c17_hattr (l : list Z) : list Z :=
  let '(s, _) := take_list l in flat_map enc_tok (html_tag_tokens s).
Definition run_c17_xattr (l : list Z) : list Z :=
  let '(s, _) := take_list l in flat_map enc_tok (xml_tag_tokens s).
