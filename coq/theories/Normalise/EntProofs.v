(* Normalise/EntProofs.v — proofs about replaceEntities / ReplaceEntities. *)
From Coq Require Import ZifyBool.
From Verif Require Import Common.Base Common.Tactics Normalise.Model Normalise.Spec.

(* ---- lengths of the slice primitives --------------------------------------------------------- *)
Lemma len_firstz_le {A} n (l : list A) : len (firstz n l) = Z.max 0 (Z.min n (len l)).
Proof. unfold len, firstz. rewrite firstn_length. lia. Qed.
Lemma len_skipz_gen {A} n (l : list A) : len (skipz n l) = Z.max 0 (len l - Z.max 0 n).
Proof. unfold len, skipz. rewrite skipn_length. lia. Qed.
Lemma len_slice_gen {A} (l : list A) lo hi : len (slice l lo hi) = Z.max 0 (Z.min (hi - lo) (Z.max 0 (len l - Z.max 0 lo))).
Proof. unfold slice. rewrite len_firstz_le, len_skipz_gen. reflexivity. Qed.

Lemma copy_in_len b d r b1 m : copy_in b d r = Ok (b1, m) -> len b1 = len b.
Proof.
  unfold copy_in. destruct (slice_ok d (len b) (len b)) eqn:E; [|discriminate].
  intros H. injection H as <- <-. unfold slice_ok in E. pose proof (len_nonneg r).
  rewrite !len_app, !len_firstz_le, len_skipz_gen. lia.
Qed.

Lemma copy_within_len b d lo hi b1 m : copy_within b d lo hi = Ok (b1, m) -> len b1 = len b.
Proof.
  unfold copy_within.
  destruct (slice_ok lo hi (len b) && slice_ok d (len b) (len b)) eqn:E; [|discriminate].
  intros H. injection H as <- <-. unfold slice_ok in E.
  rewrite !len_app, len_firstz_le, len_skipz_gen, len_slice_gen. lia.
Qed.

Lemma splice_len b i j r :
  0 <= i -> i <= j -> j < len b -> len r <= j + 1 - i ->
  exists b', splice b i j r = Ok (b', i + len r - 1) /\ len b' = len b - (j + 1 - i) + len r.
Proof.
  intros Hi Hij Hj Hr. pose proof (len_nonneg r) as Hr0. unfold splice.
  destruct (copy_in b i r) as [[b1 m1]| |] eqn:E1.
  2,3: unfold copy_in, slice_ok in E1; exfalso;
       replace ((0 <=? i) && (i <=? len b) && (len b <=? len b)) with true in E1 by lia; discriminate.
  pose proof (copy_in_len _ _ _ _ _ E1) as L1. cbn [rbind].
  destruct (copy_within b1 (i + len r) (j + 1) (len b1)) as [[b2 m2]| |] eqn:E2.
  2,3: unfold copy_within, slice_ok in E2; exfalso; rewrite L1 in E2;
       replace ((0 <=? j + 1) && (j + 1 <=? len b) && (len b <=? len b) &&
                ((0 <=? i + len r) && (i + len r <=? len b) && (len b <=? len b))) with true in E2 by lia;
       discriminate.
  pose proof (copy_within_len _ _ _ _ _ _ E2) as L2. cbn [rbind].
  unfold slice_ok.
  replace ((0 <=? 0) && (0 <=? len b - (j + 1 - i) + len r) && (len b - (j + 1 - i) + len r <=? len b))
    with true by lia.
  eexists. split; [reflexivity|]. rewrite len_firstz_le. lia.
Qed.

Ltac pair_inv H := apply pair_equal_spec in H; destruct H as [<- <-].

(* ---- the digit scanners ------------------------------------------------------------------------ *)
Lemma scan_dec_cons c t acc : scan_dec (c :: t) acc =
  if (acc <? 128) && is_digit c then let '(n, v) := scan_dec t (acc * 10 + (c - 48)) in (1 + n, v) else (0, acc).
Proof. reflexivity. Qed.
Lemma scan_hex_cons c t acc : scan_hex (c :: t) acc =
  if (acc <? 65536) && is_hex c then let '(n, v) := scan_hex t (acc * 16 + hex_val c) in (1 + n, v) else (0, acc).
Proof. reflexivity. Qed.
Lemma scan_dec_bound l : forall acc n v, 0 <= acc -> scan_dec l acc = (n, v) -> 0 <= n /\ acc <= v.
Proof.
  induction l as [|c t IH]; intros acc n v Ha H; [cbn [scan_dec] in H|rewrite scan_dec_cons in H].
  - pair_inv H. lia.
  - destruct ((acc <? 128) && is_digit c) eqn:E.
    + destruct (scan_dec t (acc * 10 + (c - 48))) as [n1 v1] eqn:E1. pair_inv H.
      unfold is_digit in E. apply IH in E1; lia.
    + pair_inv H. lia.
Qed.

(* v < 10^n when starting from 0 : split by the number of digits *)
Lemma scan_dec_digits l : forall acc n v, 0 <= acc -> scan_dec l acc = (n, v) ->
  (n = 0 -> v = acc) /\ (n = 1 -> v <= acc * 10 + 9) /\ (n = 2 -> v <= acc * 100 + 99).
Proof.
  induction l as [|c t IH]; intros acc n v Ha H; [cbn [scan_dec] in H|rewrite scan_dec_cons in H].
  - pair_inv H. lia.
  - destruct ((acc <? 128) && is_digit c) eqn:E.
    + destruct (scan_dec t (acc * 10 + (c - 48))) as [n1 v1] eqn:E1. pair_inv H.
      unfold is_digit in E. assert (Hacc : 0 <= acc * 10 + (c - 48)) by lia.
      pose proof (scan_dec_bound _ _ _ _ Hacc E1) as [B1 B2].
      apply IH in E1; lia.
    + pair_inv H. lia.
Qed.

Lemma scan_hex_bound l : forall acc n v, scan_hex l acc = (n, v) -> 0 <= n.
Proof.
  induction l as [|c t IH]; intros acc n v H; [cbn [scan_hex] in H|rewrite scan_hex_cons in H].
  - pair_inv H. lia.
  - destruct ((acc <? 65536) && is_hex c).
    + destruct (scan_hex t (acc * 16 + hex_val c)) as [n1 v1] eqn:E1. pair_inv H.
      apply IH in E1. lia.
    + pair_inv H. lia.
Qed.

Lemma hex_val_range c : is_hex c = true -> 0 <= hex_val c < 16.
Proof. unfold is_hex, is_digit, hex_val. intros H. destruct (c <=? 57) eqn:E1; [lia|]. destruct (c <=? 70) eqn:E2; lia. Qed.

Lemma scan_hex_0 l acc v : scan_hex l acc = (0, v) -> v = acc.
Proof.
  destruct l as [|c t]; [cbn [scan_hex]|rewrite scan_hex_cons]; intros H.
  - apply pair_equal_spec in H. destruct H as [_ H]. congruence.
  - destruct ((acc <? 65536) && is_hex c).
    + destruct (scan_hex t _) as [n1 v1] eqn:E1. apply pair_equal_spec in H. destruct H as [H _].
      pose proof (scan_hex_bound _ _ _ _ E1). lia.
    + apply pair_equal_spec in H. destruct H as [_ H]. congruence.
Qed.

Lemma scan_hex_1 l acc v : 0 <= acc < 1099511627776 -> scan_hex l acc = (1, v) -> acc * 16 <= v < acc * 16 + 16.
Proof.
  intros Ha. destruct l as [|c t]; [cbn [scan_hex]|rewrite scan_hex_cons]; intros H.
  - apply pair_equal_spec in H. destruct H as [H _]. lia.
  - destruct ((acc <? 65536) && is_hex c) eqn:E0.
    + apply andb_true_iff in E0. destruct E0 as [_ E]. pose proof (hex_val_range c E) as Hh.
      destruct (scan_hex t _) as [n1 v1] eqn:E1. apply pair_equal_spec in H. destruct H as [H1 H2].
      assert (n1 = 0) by lia. subst n1. apply scan_hex_0 in E1. lia.
    + apply pair_equal_spec in H. destruct H as [H _]. lia.
Qed.

Lemma scan_hex_2 l acc v : 0 <= acc < 4294967296 -> scan_hex l acc = (2, v) -> acc * 256 <= v < acc * 256 + 256.
Proof.
  intros Ha. destruct l as [|c t]; [cbn [scan_hex]|rewrite scan_hex_cons]; intros H.
  - apply pair_equal_spec in H. destruct H as [H _]. lia.
  - destruct ((acc <? 65536) && is_hex c) eqn:E0.
    + apply andb_true_iff in E0. destruct E0 as [_ E]. pose proof (hex_val_range c E) as Hh.
      destruct (scan_hex t _) as [n1 v1] eqn:E1. apply pair_equal_spec in H. destruct H as [H1 H2].
      assert (n1 = 1) by lia. subst n1. apply scan_hex_1 in E1; lia.
    + apply pair_equal_spec in H. destruct H as [H _]. lia.
Qed.

(* ---- strconv.AppendInt --------------------------------------------------------------------------- *)
Lemma len_dec_digits c : 100 <= c <= 9999 -> len (dec_digits c) = if c <? 1000 then 3 else 4.
Proof.
  intros H.
  assert (S : forallb (fun c => len (dec_digits c) =? (if c <? 1000 then 3 else 4)) (zrange 100 9999) = true)
    by (vm_compute; reflexivity).
  apply Z.eqb_eq. exact (zrange_forall _ 100 9999 S c H).
Qed.

(* ---- association lists ------------------------------------------------------------------------- *)
Lemma list_eqb_len a : forall b, list_eqb a b = true -> len a = len b.
Proof.
  induction a as [|x a IH]; intros [|y b] H; cbn [list_eqb] in H; try discriminate; [reflexivity|].
  apply andb_true_iff in H. destruct H as [_ H]. rewrite !len_cons. rewrite (IH _ H). reflexivity.
Qed.

Lemma lookup_name_in em k r : lookup_name em k = Some r ->
  exists name, In (name, r) em /\ len name = len k.
Proof.
  induction em as [|[n0 r0] t IH]; cbn [lookup_name]; [discriminate|].
  destruct (list_eqb n0 k) eqn:E.
  - intros H. injection H as <-. exists n0. split; [left; reflexivity|]. apply list_eqb_len. exact E.
  - intros H. destruct (IH H) as (name & Hin & Hl). exists name. split; [right; exact Hin|exact Hl].
Qed.

Lemma lookup_byte_in rm c q : lookup_byte rm c = Some q -> In (c, q) rm.
Proof.
  induction rm as [|[x q0] t IH]; cbn [lookup_byte]; [discriminate|].
  destruct (x =? c) eqn:E.
  - intros H. injection H as <-. apply Z.eqb_eq in E. subst x. left. reflexivity.
  - intros H. right. exact (IH H).
Qed.

Lemma scan_name_cons c t cnt : scan_name (c :: t) cnt =
  if (cnt <=? 31) && negb (c =? 59) && is_alnum c then 1 + scan_name t (cnt + 1) else 0.
Proof. reflexivity. Qed.
Lemma scan_name_nonneg l : forall cnt, 0 <= scan_name l cnt.
Proof.
  induction l as [|c t IH]; intros cnt; [cbn [scan_name]; lia|rewrite scan_name_cons].
  destruct ((cnt <=? 31) && negb (c =? 59) && is_alnum c); [specialize (IH (cnt + 1)); lia|lia].
Qed.

Lemma rd_ok b i : 0 <= i < len b -> exists c, rd b i = Ok c.
Proof. intros H. unfold rd. destruct (peekz_in_range b i H) as [c ->]. eauto. Qed.

(* ---- never longer ------------------------------------------------------------------------------ *)
Section NeverLonger.
  Variable em : list (list Z * list Z).
  Variable rm : list (Z * list Z).
  Hypothesis Hok : maps_ok em rm = true.

  Lemma rm_ok c q : lookup_byte rm c = Some q -> len q <= min_ref_len c.
  Proof.
    intros H. apply lookup_byte_in in H. unfold maps_ok in Hok. apply andb_true_iff in Hok.
    destruct Hok as [_ H2]. rewrite forallb_forall in H2. specialize (H2 _ H). cbn [rm_entry_ok] in H2. lia.
  Qed.

  Lemma em_ok name r : In (name, r) em ->
    len r <= len name + 2 /\ (forall c q, r = [c] -> lookup_byte rm c = Some q -> len q <= len name + 2).
  Proof.
    intros H. unfold maps_ok in Hok. apply andb_true_iff in Hok. destruct Hok as [H1 _].
    rewrite forallb_forall in H1. specialize (H1 _ H). cbn [em_entry_ok] in H1.
    apply andb_true_iff in H1. destruct H1 as [Ha Hb]. split; [lia|].
    intros c q -> Hq. rewrite Hq in Hb. lia.
  Qed.

  Definition step_ok (b : list Z) (i : Z) (res : result (list Z * Z)) : Prop :=
    exists b' i', res = Ok (b', i') /\ len b' <= len b /\ len b' - i' <= len b - i /\ -1 <= i'.

  Lemma step_ok_same b i i' : 0 <= i <= i' -> step_ok b i (Ok (b, i')).
  Proof. intros H. exists b, i'. split; [reflexivity|lia]. Qed.

  Lemma step_ok_splice b i j r : 0 <= i -> i <= j -> j < len b -> len r <= j + 1 - i -> step_ok b i (splice b i j r).
  Proof.
    intros Hi Hij Hj Hr. destruct (splice_len b i j r Hi Hij Hj Hr) as (b' & E & L).
    exists b', (i + len r - 1). pose proof (len_nonneg r). split; [exact E|lia].
  Qed.

  Lemma step_ok_guard b i j r : 0 <= i -> i <= j -> j < len b -> len r <= j + 1 - i -> step_ok b i (guard_splice b i j r).
  Proof.
    intros Hi Hij Hj Hr. unfold guard_splice. destruct r as [|c r']; [apply step_ok_splice; assumption|].
    destruct (cont_start c && look_behind (rev (firstz i b)) 1); [apply step_ok_same; lia|apply step_ok_splice; assumption].
  Qed.

  Lemma ent_finish_ok b i j r :
    0 <= i -> i <= j -> len r <= j + 1 - i ->
    (forall c q, r = [c] -> lookup_byte rm c = Some q -> len q <= j + 1 - i) ->
    step_ok b i (ent_finish rm b i j r).
  Proof.
    intros Hi Hij Hr Hq. unfold ent_finish.
    destruct ((j <? len b) && (getz b j =? 59) && (2 <? j + 1 - i)) eqn:C; [|apply step_ok_same; lia].
    assert (Hj : j < len b) by lia.
    destruct r as [|c [|c2 r2]]; try (apply step_ok_guard; assumption).
    destruct (lookup_byte rm c) as [q|] eqn:Eq.
    - destruct (list_eqb q (slice b i (j + 1))); [apply step_ok_same; lia|].
      apply step_ok_guard; try assumption. exact (Hq c q eq_refl Eq).
    - destruct (c =? 38); [|apply step_ok_guard; assumption].
      destruct ((j + 1 <? len b) && (is_alnum (getz b (j + 1)) || (getz b (j + 1) =? 35)));
        [apply step_ok_same; lia|apply step_ok_guard; assumption].
  Qed.

  Lemma min_ref_len_le6 c : min_ref_len c <= 6.
  Proof. unfold min_ref_len. destruct (c <? 10); [lia|]. destruct (c <? 100); lia. Qed.

  Lemma replace_at_ok b i : 0 <= i -> i + 3 < len b -> step_ok b i (replace_at em rm b i).
  Proof.
    intros Hi Hl. unfold replace_at.
    destruct (rd_ok b (i + 1) ltac:(lia)) as [c1 ->]. cbn [rbind].
    destruct (c1 =? 35).
    - destruct (rd_ok b (i + 2) ltac:(lia)) as [c2 ->]. cbn [rbind].
      destruct (c2 =? 120).
      + destruct (scan_hex (skipz (i + 3) b) 0) as [nd c] eqn:E.
        pose proof (scan_hex_bound _ _ _ _ E) as Hnd.
        destruct ((i + 3 + nd <=? i + 3) || (10000 <=? c)) eqn:C; [apply step_ok_same; lia|].
        assert (H1 : nd = 1 -> 0 <= c < 16) by (intros ->; apply scan_hex_1 in E; lia).
        assert (H2 : nd = 2 -> 0 <= c < 256) by (intros ->; apply scan_hex_2 in E; lia).
        destruct (c <? 128) eqn:C128.
        * apply ent_finish_ok; try lia; [change (len [byte_of c]) with 1; lia|].
          intros c' q Hc Hq. injection Hc as <-. apply rm_ok in Hq. pose proof (min_ref_len_le6 (byte_of c)).
          destruct (Z.eq_dec nd 1) as [->|N]; [|lia].
          specialize (H1 eq_refl). unfold byte_of in *. rewrite Z.mod_small in Hq by lia.
          unfold min_ref_len in Hq. destruct (c <? 10); [lia|]. destruct (c <? 100) eqn:E100; lia.
        * apply ent_finish_ok; try lia.
          -- rewrite !len_cons, len_app. change (len [59]) with 1.
             rewrite len_dec_digits by lia. destruct (c <? 1000) eqn:E1000; lia.
          -- intros c' q Hc. exfalso. injection Hc as _ Hc. discriminate Hc.
      + destruct (scan_dec (skipz (i + 2) b) 0) as [nd c] eqn:E.
        pose proof (scan_dec_bound _ _ _ _ (Z.le_refl 0) E) as [Hnd Hc0].
        pose proof (scan_dec_digits _ _ _ _ (Z.le_refl 0) E) as (D0 & D1 & D2).
        destruct ((i + 2 + nd <=? i + 2) || (128 <=? c)) eqn:C; [apply step_ok_same; lia|].
        apply ent_finish_ok; try lia; [change (len [byte_of c]) with 1; lia|].
        intros c' q Hc Hq. injection Hc as <-. apply rm_ok in Hq.
        unfold byte_of in Hq. rewrite Z.mod_small in Hq by lia.
        unfold min_ref_len in Hq. destruct (c <? 10) eqn:E10; [lia|]. destruct (c <? 100) eqn:E100; lia.
    - pose proof (scan_name_nonneg (skipz (i + 1) b) 0) as Hn.
      set (j := i + 1 + scan_name (skipz (i + 1) b) 0) in *.
      destruct ((len b <=? j) || (j =? i + 1) || negb (getz b j =? 59)) eqn:C; [apply step_ok_same; lia|].
      destruct (lookup_name em (slice b (i + 1) j)) as [r|] eqn:El; [|apply step_ok_same; lia].
      apply lookup_name_in in El. destruct El as (name & Hin & Hlen).
      rewrite len_slice in Hlen by lia.
      destruct (em_ok name r Hin) as [Ha Hb].
      apply ent_finish_ok; try lia. intros c q Hc Hq. specialize (Hb c q Hc Hq). lia.
  Qed.

  Lemma ent_loop_ok : forall fuel b i, 0 <= i -> len b - i < Z.of_nat fuel ->
    exists o, ent_loop em rm fuel b i = Ok o /\ len o <= len b.
  Proof.
    induction fuel as [|f IH]; intros b i Hi Hf.
    - cbn [ent_loop]. replace (len b <=? i) with true by lia. exists b. split; [reflexivity|lia].
    - cbn [ent_loop]. destruct (len b <=? i) eqn:E; [exists b; split; [reflexivity|lia]|].
      destruct ((getz b i =? 38) && (i + 3 <? len b)) eqn:C.
      + destruct (replace_at_ok b i Hi ltac:(lia)) as (b' & i' & -> & L1 & L2 & L3). cbn [rbind].
        destruct (IH b' (i' + 1) ltac:(lia) ltac:(lia)) as (o & Eo & Lo). exists o. split; [exact Eo|lia].
      + apply IH; lia.
  Qed.

  Lemma entities_never_longer_proof b : exists o, replace_entities em rm b = Ok o /\ len o <= len b.
  Proof. unfold replace_entities. apply ent_loop_ok; [lia|]. unfold len. lia. Qed.
End NeverLonger.

(* a non-trivial instance of the hypotheses *)
Definition demo_em : list (list Z * list Z) :=
  [ ([97; 109; 112], [38]); ([108; 116], [60]); ([113; 117; 111; 116], [34]);
    ([65; 69; 108; 105; 103], [38; 35; 49; 57; 56; 59]) ].        (* amp lt quot AElig *)
Definition demo_rm : list (Z * list Z) := [ (60, [38; 108; 116; 59]) ].   (* '<' -> &lt; *)

Example entities_never_longer_example :
  maps_ok demo_em demo_rm = true /\
  (* `&#x3c;a&quot;&AElig;&#x80;` -> `&lt;aQUOTE&#198;&#128;` *)
  replace_entities demo_em demo_rm
    [38;35;120;51;99;59; 97; 38;113;117;111;116;59; 38;65;69;108;105;103;59; 38;35;120;56;48;59]
  = Ok [38;108;116;59; 97; 34; 38;35;49;57;56;59; 38;35;49;50;56;59].
Proof. vm_compute. split; reflexivity. Qed.
