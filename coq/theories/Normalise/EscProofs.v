(* Normalise/EscProofs.v — proofs about the escapers (xml.EscapeCDATAVal, html/xml EscapeAttrVal)
   and the reference decoder. *)
From Coq Require Import ZifyBool.
From Verif Require Import Common.Base Common.Tactics Normalise.Model.

(* ---- generic list facts ------------------------------------------------------------------------ *)
Lemma firstz_all {A} (l : list A) n : len l <= n -> firstz n l = l.
Proof. intros H. unfold firstz, len in *. apply firstn_all2. lia. Qed.

Lemma app_cap_fits n out seg : len out + len seg <= n -> app_cap n out seg = out ++ seg.
Proof. intros H. unfold app_cap. rewrite firstz_all by lia. reflexivity. Qed.

(* ---- decoder ----------------------------------------------------------------------------------- *)
Lemma decode_refs_skip tbl a x : decode_refs tbl (a ++ x) (length a) = decode_refs tbl x 0.
Proof.
  induction a as [|c a IH]; cbn [app length]; [reflexivity|].
  cbn [decode_refs]. exact IH.
Qed.

Lemma decode_refs_hit tbl c a x ch :
  find_ref tbl (c :: a ++ x) = Some (ch, length (c :: a)) ->
  decode_refs tbl (c :: a ++ x) 0 = ch :: decode_refs tbl x 0.
Proof.
  intros H. cbn [decode_refs]. rewrite H. cbn [length Nat.pred]. rewrite decode_refs_skip. reflexivity.
Qed.

Lemma decode_refs_miss tbl c x :
  find_ref tbl (c :: x) = None -> decode_refs tbl (c :: x) 0 = c :: decode_refs tbl x 0.
Proof. intros H. cbn [decode_refs]. rewrite H. reflexivity. Qed.

Lemma is_prefix_app p x : is_prefix p (p ++ x) = true.
Proof. induction p as [|c p IH]; cbn [is_prefix app]; [reflexivity|]. rewrite Z.eqb_refl. exact IH. Qed.

Lemma is_prefix_head_ne p c x : hd_is c p = false -> p <> [] -> is_prefix p (c :: x) = false.
Proof.
  destruct p as [|d p]; [congruence|]. intros H _. cbn [hd_is] in H. cbn [is_prefix].
  replace (d =? c) with false. reflexivity.
Qed.

(* every reference of the table starts with '&' *)
Definition refs_start_amp (tbl : list (list Z * Z)) : bool :=
  forallb (fun rc => hd_is 38 (fst rc)) tbl.

Lemma find_ref_not_amp tbl c x : refs_start_amp tbl = true -> c <> 38 -> find_ref tbl (c :: x) = None.
Proof.
  intros H Hc. induction tbl as [|[r ch] t IH]; [reflexivity|].
  cbn [refs_start_amp forallb fst] in H. apply andb_true_iff in H. destruct H as [H1 H2].
  cbn [find_ref]. destruct r as [|d r]; [discriminate|]. cbn [hd_is] in H1. apply Z.eqb_eq in H1. subst d.
  cbn [is_prefix]. replace (38 =? c) with false by (symmetry; apply Z.eqb_neq; congruence).
  cbn [andb]. apply IH. exact H2.
Qed.

(* ---- EscapeCDATAVal ---------------------------------------------------------------------------- *)
Definition cdata_flat (l : list Z) : list Z :=
  flat_map (fun c => if c =? 60 then ent_lt else if c =? 38 then ent_amp else [c]) l.
Fixpoint cdata_extra (l : list Z) : Z :=
  match l with
  | [] => 0
  | c :: t => (if c =? 60 then 3 else if c =? 38 then 4 else 0) + cdata_extra t
  end.

Lemma cdata_extra_nonneg l : 0 <= cdata_extra l.
Proof. induction l as [|c t IH]; cbn [cdata_extra]; [lia|]. destruct (c =? 60); destruct (c =? 38); lia. Qed.

Lemma len_cdata_flat l : len (cdata_flat l) = len l + cdata_extra l.
Proof.
  induction l as [|c t IH]; [reflexivity|].
  unfold cdata_flat in *. cbn [flat_map cdata_extra]. rewrite len_app, IH, len_cons.
  destruct (c =? 60); [change (len ent_lt) with 4; lia|].
  destruct (c =? 38); [change (len ent_amp) with 5; lia|change (len [c]) with 1; lia].
Qed.

Lemma cdata_loop_spec n l : forall seg out,
  len out + len seg + len (cdata_flat l) <= n ->
  cdata_loop n l seg out = out ++ seg ++ cdata_flat l.
Proof.
  induction l as [|c t IH]; intros seg out H.
  - cbn [cdata_loop cdata_flat flat_map]. rewrite app_nil_r. apply app_cap_fits.
    change (len (cdata_flat [])) with 0 in H. lia.
  - unfold cdata_flat in H. cbn [flat_map] in H. rewrite len_app in H. fold (cdata_flat t) in H.
    cbn [cdata_loop]. unfold cdata_flat. cbn [flat_map]. fold (cdata_flat t).
    pose proof (len_nonneg (cdata_flat t)) as Hn.
    destruct (c =? 60) eqn:E60.
    + change (len ent_lt) with 4 in H.
      rewrite (app_cap_fits n out seg) by lia.
      rewrite app_cap_fits by (rewrite len_app; change (len ent_lt) with 4; lia).
      rewrite IH by (rewrite !len_app; change (len ent_lt) with 4; change (len (@nil Z)) with 0; lia).
      cbn [app]. rewrite <- !app_assoc. reflexivity.
    + destruct (c =? 38) eqn:E38.
      * change (len ent_amp) with 5 in H.
        rewrite (app_cap_fits n out seg) by lia.
        rewrite app_cap_fits by (rewrite len_app; change (len ent_amp) with 5; lia).
        rewrite IH by (rewrite !len_app; change (len ent_amp) with 5; change (len (@nil Z)) with 0; lia).
        cbn [app]. rewrite <- !app_assoc. reflexivity.
      * change (len [c]) with 1 in H.
        rewrite IH by (rewrite len_app; change (len [c]) with 1; lia).
        rewrite <- app_assoc. reflexivity.
Qed.

Lemma cdata_cost_some l : forall n m, cdata_cost l n = Some m -> m = n + cdata_extra l /\ (n <= 12 -> m <= 12).
Proof.
  induction l as [|c t IH]; intros n m H; cbn [cdata_cost cdata_extra] in *.
  - injection H as <-. lia.
  - destruct (c =? 60) eqn:E60; cbn [orb] in H.
    + destruct (12 <? n + 3) eqn:E; [discriminate|]. apply IH in H. lia.
    + destruct (c =? 38) eqn:E38; cbn [orb] in H.
      * destruct (12 <? n + 4) eqn:E; [discriminate|]. apply IH in H. lia.
      * apply IH in H. lia.
Qed.

Lemma cdata_cost_none l : forall n, 0 <= n -> cdata_cost l n = None -> 12 < n + cdata_extra l.
Proof.
  induction l as [|c t IH]; intros n Hn H; cbn [cdata_cost cdata_extra] in *; [discriminate|].
  pose proof (cdata_extra_nonneg t).
  destruct (c =? 60) eqn:E60; cbn [orb] in H.
  - destruct (12 <? n + 3) eqn:E; [lia|]. apply IH in H; lia.
  - destruct (c =? 38) eqn:E38; cbn [orb] in H.
    + destruct (12 <? n + 4) eqn:E; [lia|]. apply IH in H; lia.
    + apply IH in H; lia.
Qed.

(* what a decoder table must do on the two references EscapeCDATAVal writes *)
Definition cdata_tbl (tbl : list (list Z * Z)) : Prop :=
  refs_start_amp tbl = true /\
  (forall x, find_ref tbl (ent_lt ++ x) = Some (60, 4%nat)) /\
  (forall x, find_ref tbl (ent_amp ++ x) = Some (38, 5%nat)).

Lemma decode_cdata_flat tbl l : cdata_tbl tbl -> decode tbl (cdata_flat l) = l.
Proof.
  intros (Ha & Hlt & Hamp). unfold decode. induction l as [|c t IH]; [reflexivity|].
  unfold cdata_flat. cbn [flat_map]. fold (cdata_flat t).
  destruct (c =? 60) eqn:E60.
  - apply Z.eqb_eq in E60. subst c.
    change (ent_lt ++ cdata_flat t) with (38 :: [108; 116; 59] ++ cdata_flat t).
    rewrite (decode_refs_hit tbl 38 [108; 116; 59] (cdata_flat t) 60); [rewrite IH; reflexivity|].
    apply (Hlt (cdata_flat t)).
  - destruct (c =? 38) eqn:E38.
    + apply Z.eqb_eq in E38. subst c.
      change (ent_amp ++ cdata_flat t) with (38 :: [97; 109; 112; 59] ++ cdata_flat t).
      rewrite (decode_refs_hit tbl 38 [97; 109; 112; 59] (cdata_flat t) 38); [rewrite IH; reflexivity|].
      apply (Hamp (cdata_flat t)).
    + cbn [app]. rewrite decode_refs_miss; [rewrite IH; reflexivity|].
      apply find_ref_not_amp; [exact Ha|]. apply Z.eqb_neq. exact E38.
Qed.

Lemma cdata_flat_no_lt l : ~ In 60 (cdata_flat l).
Proof.
  induction l as [|c t IH]; [intros []|]. unfold cdata_flat. cbn [flat_map]. fold (cdata_flat t).
  intros H. apply in_app_or in H. destruct H as [H|H]; [|exact (IH H)].
  destruct (c =? 60) eqn:E60.
  - cbn in H. intuition discriminate.
  - destruct (c =? 38) eqn:E38.
    + cbn in H. intuition discriminate.
    + cbn in H. destruct H as [H|[]]. subst c. discriminate.
Qed.

Lemma std_refs_cdata_tbl : cdata_tbl std_refs.
Proof.
  split; [reflexivity|]. split; intros x; reflexivity.
Qed.

Lemma cdata_escape_proof :
  forall tbl b, cdata_tbl tbl ->
    match xml_escape_cdata b with
    | (o, false) => o = b /\ 12 < cdata_extra b
    | (o, true) => decode tbl o = b /\ len o = len b + cdata_extra b /\ cdata_extra b <= 12 /\ ~ In 60 o
    end.
Proof.
  intros tbl b Ht. unfold xml_escape_cdata.
  destruct (cdata_cost b 0) as [n|] eqn:E.
  - apply cdata_cost_some in E. destruct E as [-> E2].
    rewrite cdata_loop_spec by (rewrite len_cdata_flat; change (len (@nil Z)) with 0; lia).
    cbn [app]. split; [apply decode_cdata_flat; exact Ht|]. split; [apply len_cdata_flat|].
    split; [lia|apply cdata_flat_no_lt].
  - apply cdata_cost_none in E; [|lia]. split; [reflexivity|lia].
Qed.

Example cdata_escape_example :
  xml_escape_cdata [97; 60; 38; 93] = ([97; 38; 108; 116; 59; 38; 97; 109; 112; 59; 93], true) /\
  decode std_refs [97; 38; 108; 116; 59; 38; 97; 109; 112; 59; 93] = [97; 60; 38; 93] /\
  snd (xml_escape_cdata [60; 60; 60; 60; 60]) = false.
Proof. vm_compute. repeat split. Qed.
