(* Normalise/Compose.v — ReplaceMultipleWhitespaceAndEntities = ReplaceEntities after
   ReplaceMultipleWhitespace, for all inputs and all consistent entity maps (simulation of the two loops). *)
From Coq Require Import ZifyBool.
From Verif Require Import Common.Base Common.Tactics Normalise.Model Normalise.Spec
  Normalise.WsProofs Normalise.EscProofs Normalise.EntProofs Normalise.EntShift.

(* ---- more about collapse ------------------------------------------------------------------------------- *)
Definition wsfree (u : list Z) : bool := forallb (fun c => negb (ws5 c)) u.

Lemma collapse_wsfree_app u w : wsfree u = true -> collapse (u ++ w) = u ++ collapse w.
Proof.
  induction u as [|c t IH]; [reflexivity|]. cbn [wsfree forallb]. intros H. apply andb_true_iff in H.
  destruct H as [Hc Ht]. unfold collapse in *. cbn [app collapse_from].
  destruct (ws5 c); [discriminate|]. rewrite IH by exact Ht. reflexivity.
Qed.

Lemma len_collapse_from_le w : forall p, len (collapse_from p w) <= len w.
Proof.
  induction w as [|c t IH]; intros p; cbn [collapse_from]; [lia|]. rewrite len_cons.
  destruct (ws5 c).
  - destruct p; [specialize (IH true); lia|rewrite len_cons; specialize (IH true); lia].
  - rewrite len_cons. specialize (IH false). lia.
Qed.

Lemma collapse_ws_head s z : ws5 s = true -> exists mk rest, collapse (s :: z) = mk :: rest /\ ws5 mk = true.
Proof.
  intros H. unfold collapse. cbn [collapse_from]. rewrite H.
  destruct (run_has_nl (s :: z)); eexists; eexists; split; reflexivity.
Qed.

Lemma collapse_from_true_text t : (match t with [] => True | d :: _ => ws5 d = false end) ->
  collapse_from true t = collapse t.
Proof. destruct t as [|d t']; [reflexivity|]. intros H. unfold collapse. cbn [collapse_from]. rewrite H. reflexivity. Qed.

Lemma collapse_run_then c r t' : ws5 c = true -> forallb ws5 r = true ->
  (match t' with [] => True | d :: _ => ws5 d = false end) ->
  collapse (c :: r ++ t') = run_mark (c :: r) :: collapse t'.
Proof.
  intros Hc Hr Ht. unfold collapse. change (c :: r ++ t') with ((c :: r) ++ t').
  rewrite collapse_run_app; [|discriminate|cbn [forallb]; rewrite Hc, Hr; reflexivity|exact Ht].
  rewrite collapse_from_true_text by exact Ht. reflexivity.
Qed.

Lemma split_wsfree l : exists u w, l = u ++ w /\ wsfree u = true /\
  (w = [] \/ exists s z, w = s :: z /\ ws5 s = true).
Proof.
  induction l as [|c t (u & w & -> & Hu & Hw)].
  - exists [], []. repeat split. left. reflexivity.
  - destruct (ws5 c) eqn:E.
    + exists [], (c :: u ++ w). repeat split. right. eauto.
    + exists (c :: u), w. cbn [wsfree forallb]. rewrite E. repeat split; assumption.
Qed.

Lemma wsfree_skipz m u : wsfree u = true -> wsfree (skipz m u) = true.
Proof.
  unfold wsfree. rewrite !forallb_forall. intros H x Hin. apply H. unfold skipz in Hin.
  rewrite <- (firstn_skipn (Z.to_nat m) u). apply in_or_app. right. exact Hin.
Qed.

Lemma stop_tail_cases w : (w = [] \/ exists s z, w = s :: z /\ ws5 s = true) ->
  stop_tail w /\ stop_tail (collapse w) /\ len (collapse w) <= len w /\ (w <> [] -> 1 <= len (collapse w)).
Proof.
  intros [->|(s & z & -> & Hs)].
  - repeat split; try apply stop_tail_nil; [reflexivity|congruence].
  - destruct (collapse_ws_head s z Hs) as (mk & rest & E & Hmk).
    split; [apply stop_tail_ws; exact Hs|]. split; [rewrite E; apply stop_tail_ws; exact Hmk|].
    split; [apply len_collapse_from_le|]. intros _. rewrite E, len_cons. pose proof (len_nonneg rest). lia.
Qed.

(* ---- unfolding the loops ------------------------------------------------------------------------------- *)
Section Loops.
  Variable em : list (list Z * list Z).
  Variable rm : list (Z * list Z).

  Lemma ent_loop_end f b i : len b <= i -> ent_loop em rm f b i = Ok b.
  Proof. intros H. destruct f; cbn [ent_loop]; replace (len b <=? i) with true by lia; reflexivity. Qed.

  Lemma ent_loop_skip f b i : i < len b -> (getz b i =? 38) && (i + 3 <? len b) = false ->
    ent_loop em rm (S f) b i = ent_loop em rm f b (i + 1).
  Proof. intros H C. cbn [ent_loop]. replace (len b <=? i) with false by lia. rewrite C. reflexivity. Qed.

  Lemma ent_loop_amp f b i : i < len b -> (getz b i =? 38) && (i + 3 <? len b) = true ->
    ent_loop em rm (S f) b i = ' (b1, i1) <-- replace_at em rm b i ;; ent_loop em rm f b1 (i1 + 1).
  Proof. intros H C. cbn [ent_loop]. replace (len b <=? i) with false by lia. rewrite C. reflexivity. Qed.

  Lemma ent_loop_short : forall f b i, len b - i <= 3 -> len b - i < Z.of_nat f -> ent_loop em rm f b i = Ok b.
  Proof.
    induction f as [|f IH]; intros b i H3 Hf.
    - apply ent_loop_end. lia.
    - destruct (Z_le_dec (len b) i) as [Hle|Hgt]; [apply ent_loop_end; exact Hle|].
      rewrite ent_loop_skip by lia. apply IH; lia.
  Qed.

  Definition cont1 (f1 : nat) (B : list Z) (i1 j k : Z) : result (list Z * Z * Z) :=
    if (i1 + 3 <? len B) && (getz B i1 =? 38) then
      ' (b2, i2) <-- replace_at em rm B i1 ;; wsent_loop em rm f1 b2 (i2 + 1) j k
    else wsent_loop em rm f1 B (i1 + 1) j k.

  Lemma wsent_loop_step f b i j k : i < len b ->
    wsent_loop em rm (S f) b i j k = ' (b1, i1, j1, k1) <-- ws_body b i j k ;; cont1 f b1 i1 j1 k1.
  Proof.
    intros H. cbn [wsent_loop]. replace (len b <=? i) with false by lia.
    destruct (ws_body b i j k) as [[[[b1 i1] j1] k1]| |]; reflexivity.
  Qed.

  Lemma wsent_loop_done f b i j k : len b <= i -> wsent_loop em rm f b i j k = Ok (b, j, k).
  Proof. intros H. destruct f; cbn [wsent_loop]; replace (len b <=? i) with true by lia; reflexivity. Qed.
End Loops.

Lemma getz_app_len a c x : getz (a ++ c :: x) (len a) = c.
Proof. unfold getz. rewrite peekz_app_len. reflexivity. Qed.

Lemma length_len_le {A} (l : list A) (n : nat) : len l <= Z.of_nat n -> (length l <= n)%nat.
Proof. unfold len. lia. Qed.
Lemma length_len_lt {A} (l : list A) (n : nat) : len l < Z.of_nat n -> (length l < n)%nat.
Proof. unfold len. lia. Qed.
Lemma len_length_le {A} (l : list A) (n : nat) : (length l <= n)%nat -> len l <= Z.of_nat n.
Proof. unfold len. lia. Qed.
Lemma len_length_lt {A} (l : list A) (n : nat) : (length l < n)%nat -> len l < Z.of_nat n.
Proof. unfold len. lia. Qed.

(* the look-behind of replaceEntities sees the same thing in the compacting buffer and in the compacted text *)
Definition LB (D b : list Z) : Prop := forall d, look_behind (rev b) d = look_behind (rev D) d.

Lemma look_behind_ext x : forall y y' d, (forall d', look_behind y d' = look_behind y' d') ->
  look_behind (x ++ y) d = look_behind (x ++ y') d.
Proof.
  induction x as [|c t IH]; intros y y' d H; cbn [app look_behind]; [apply H|].
  destruct ((c =? 38) || (33 <? d)); [reflexivity|]. destruct (is_alnum c || (c =? 35)); [apply IH; exact H|reflexivity].
Qed.

Lemma lb_refl D : LB D D.
Proof. intros d. reflexivity. Qed.

Lemma lb_app D b X : LB D b -> LB (D ++ X) (b ++ X).
Proof. intros H d. rewrite !rev_app_distr. apply look_behind_ext. exact H. Qed.

Lemma lb_ws x s y t : ws5 s = true -> ws5 t = true -> LB (y ++ [t]) (x ++ [s]).
Proof.
  intros Hs Ht d. rewrite !rev_app_distr. cbn [rev app look_behind].
  unfold ws5 in Hs, Ht.
  replace (s =? 38) with false by lia. replace (t =? 38) with false by lia. cbn [orb].
  destruct (33 <? d); [reflexivity|].
  replace (is_alnum s || (s =? 35)) with false by (unfold is_alnum, is_digit; lia).
  replace (is_alnum t || (t =? 35)) with false by (unfold is_alnum, is_digit; lia). reflexivity.
Qed.

Section Sim.
  Variable em : list (list Z * list Z).
  Variable rm : list (Z * list Z).
  Hypothesis Hok : maps_ok em rm = true.

  Definition SimGoal (K1 : result (list Z * Z * Z)) (K2 : result (list Z)) : Prop :=
    exists b' j' k' o, K1 = Ok (b', j', k') /\ VInv o b' j' k' /\ K2 = Ok o.

  Definition SimIH (n : nat) : Prop :=
    forall suf bpre j k D f1 f2, (length suf <= n)%nat -> VInv D bpre j k -> LB D bpre ->
      (length suf < f1)%nat -> (length (collapse suf) < f2)%nat ->
      SimGoal (wsent_loop em rm f1 (bpre ++ suf) (len bpre) j k) (ent_loop em rm f2 (D ++ collapse suf) (len D)).

  Lemma sim_ent n rem bpre1 D1 j k f1 f2 : SimIH n ->
    (match rem with [] => True | d :: _ => ws5 d = false end) ->
    VInv D1 bpre1 j k -> LB D1 bpre1 -> (length rem <= S n)%nat -> (length rem <= f1)%nat -> (length (collapse rem) < f2)%nat ->
    SimGoal (cont1 em rm f1 (bpre1 ++ rem) (len bpre1) j k) (ent_loop em rm f2 (D1 ++ collapse rem) (len D1)).
  Proof using Hok.
    intros IH Hrem HV HLB Hn Hf1 Hf2. pose proof (len_nonneg bpre1) as Hb0. pose proof (len_nonneg D1) as HD0.
    destruct rem as [|d rest].
    - unfold cont1. rewrite app_nil_r. replace (len bpre1 + 3 <? len bpre1) with false by lia. cbn [andb].
      rewrite wsent_loop_done by lia. change (collapse []) with (@nil Z). rewrite app_nil_r.
      rewrite ent_loop_end by lia. exists bpre1, j, k, D1. repeat split. exact HV.
    - rename Hrem into Hd. pose proof (len_nonneg rest) as Hr0.
      assert (Hcd : collapse (d :: rest) = d :: collapse rest) by (unfold collapse; cbn [collapse_from]; rewrite Hd; reflexivity).
      (* both sides step over one byte *)
      assert (Skip : (len bpre1 + 3 <? len (bpre1 ++ d :: rest)) && (getz (bpre1 ++ d :: rest) (len bpre1) =? 38) = false ->
                     (getz (D1 ++ collapse (d :: rest)) (len D1) =? 38) && (len D1 + 3 <? len (D1 ++ collapse (d :: rest))) = false ->
                     SimGoal (cont1 em rm f1 (bpre1 ++ d :: rest) (len bpre1) j k)
                             (ent_loop em rm f2 (D1 ++ collapse (d :: rest)) (len D1))).
      { intros C1 C2. unfold cont1. rewrite C1.
        destruct f2 as [|f2']; [cbn [length] in Hf2; lia|].
        rewrite ent_loop_skip; [|rewrite Hcd, len_app, len_cons; pose proof (len_nonneg (collapse rest)); lia|exact C2].
        rewrite Hcd.
        replace (bpre1 ++ d :: rest) with ((bpre1 ++ [d]) ++ rest) by (rewrite <- app_assoc; reflexivity).
        replace (D1 ++ d :: collapse rest) with ((D1 ++ [d]) ++ collapse rest) by (rewrite <- app_assoc; reflexivity).
        replace (len bpre1 + 1) with (len (bpre1 ++ [d])) by (rewrite len_app; reflexivity).
        replace (len D1 + 1) with (len (D1 ++ [d])) by (rewrite len_app; reflexivity).
        cbn [length] in Hn, Hf1. rewrite Hcd in Hf2. cbn [length] in Hf2.
        apply IH; [lia|apply vinv_app; exact HV|apply lb_app; exact HLB|lia|lia]. }
      destruct (d =? 38) eqn:E38.
      2:{ apply Skip; rewrite ?Hcd, !getz_app_len, E38; [apply andb_false_r|reflexivity]. }
      destruct (split_wsfree (d :: rest)) as (u & w & Hsplit & Hu & Hw).
      assert (Hu1 : 1 <= len u).
      { destruct u as [|x u']; [|rewrite len_cons; pose proof (len_nonneg u'); lia].
        cbn [app] in Hsplit. destruct Hw as [->|(s & z & -> & Hs)]; [discriminate|].
        injection Hsplit as -> _. congruence. }
      assert (Hg : forall P y, getz (P ++ u ++ y) (len P) = d).
      { intros P y. destruct u as [|x u']; [change (len (@nil Z)) with 0 in Hu1; lia|].
        cbn [app] in Hsplit. injection Hsplit as -> _. cbn [app]. apply getz_app_len. }
      destruct (stop_tail_cases w Hw) as (Sw & Sw2 & Hlw & Hne).
      assert (Hcu : collapse (d :: rest) = u ++ collapse w) by (rewrite Hsplit; apply collapse_wsfree_app; exact Hu).
      assert (Hlen : len (d :: rest) = len u + len w) by (rewrite Hsplit, len_app; reflexivity).
      pose proof (len_nonneg w) as Hw0. pose proof (len_nonneg (collapse w)) as Hw20.
      pose proof (len_length_le _ _ Hn) as Hn'. pose proof (len_length_le _ _ Hf1) as Hf1'. pose proof (len_length_lt _ _ Hf2) as Hf2'.
      rewrite Hcu in Hf2'. rewrite len_app in Hf2'.
      destruct (3 <? len u + len (collapse w)) eqn:Ca.
      + (* both loops call replaceEntities, which takes the same decision *)
        set (lb := look_behind (rev bpre1) 1).
        pose proof (replace_at_next em rm lb u w Hok Sw Hu1 ltac:(lia)) as N1.
        pose proof (replace_at_next em rm lb u (collapse w) Hok Sw2 Hu1 ltac:(lia)) as N2.
        destruct (emitted u (decide em rm lb u)) as [X m]. destruct N1 as (Hm & _ & N1). destruct N2 as (_ & _ & N2).
        specialize (N1 bpre1 eq_refl). specialize (N2 D1 (eq_sym (HLB 1))).
        unfold cont1. rewrite getz_app_len, E38.
        replace (len bpre1 + 3 <? len (bpre1 ++ d :: rest)) with true by (rewrite len_app, Hlen; lia).
        cbn [andb]. rewrite Hcu, Hsplit, N1. cbn [rbind].
        destruct f2 as [|f2']; [lia|].
        rewrite ent_loop_amp;
          [|rewrite !len_app; lia
           |rewrite Hg, E38; replace (len D1 + 3 <? len (D1 ++ u ++ collapse w)) with true by (rewrite !len_app; lia); reflexivity].
        rewrite N2. cbn [rbind].
        replace (len (bpre1 ++ X) - 1 + 1) with (len (bpre1 ++ X)) by lia.
        replace (len (D1 ++ X) - 1 + 1) with (len (D1 ++ X)) by lia.
        rewrite <- (collapse_wsfree_app (skipz m u) w) by (apply wsfree_skipz; exact Hu).
        assert (Hls : len (skipz m u ++ w) = len u - m + len w) by (rewrite len_app, len_skipz by lia; lia).
        apply IH; [apply length_len_le; lia|apply vinv_app; exact HV|apply lb_app; exact HLB|apply length_len_lt; lia|].
        apply length_len_lt. rewrite collapse_wsfree_app by (apply wsfree_skipz; exact Hu).
        rewrite len_app, len_skipz by lia. lia.
      + destruct (3 <? len u + len w) eqn:Cb.
        * (* only the combined loop calls replaceEntities; with at most two bytes before the whitespace it keeps them *)
          set (lb := look_behind (rev bpre1) 1).
          pose proof (replace_at_next em rm lb u w Hok Sw Hu1 ltac:(lia)) as N1.
          pose proof (decide_range em rm lb u Hu1) as R.
          assert (Hw1 : 1 <= len (collapse w)) by (apply Hne; intros ->; change (collapse []) with (@nil Z) in *; lia).
          destruct (decide em rm lb u) as [dd|off r] eqn:Hdec; [|lia].
          cbn [emitted] in N1. destruct N1 as (Hm & Hk & N1). specialize (Hk dd eq_refl). specialize (N1 bpre1 eq_refl).
          set (X := firstz (dd + 1) u) in *. set (m := dd + 1) in *.
          unfold cont1. rewrite getz_app_len, E38.
          replace (len bpre1 + 3 <? len (bpre1 ++ d :: rest)) with true by (rewrite len_app, Hlen; lia).
          cbn [andb]. rewrite Hcu, Hsplit, N1. cbn [rbind].
          replace (len (bpre1 ++ X) - 1 + 1) with (len (bpre1 ++ X)) by lia.
          assert (Hls : len (skipz m u ++ w) = len u - m + len w) by (rewrite len_app, len_skipz by lia; lia).
          assert (Hcs : collapse (skipz m u ++ w) = skipz m u ++ collapse w)
            by (apply collapse_wsfree_app; apply wsfree_skipz; exact Hu).
          destruct (IH (skipz m u ++ w) (bpre1 ++ X) j k (D1 ++ X) f1 f2) as (b' & j' & k' & o & E1 & HV' & E2);
            [apply length_len_le; lia|apply vinv_app; exact HV|apply lb_app; exact HLB|apply length_len_lt; lia
            |apply length_len_lt; rewrite Hcs, len_app, len_skipz by lia; lia|].
          exists b', j', k', o. split; [exact E1|]. split; [exact HV'|].
          rewrite Hcs in E2.
          assert (HB : (D1 ++ X) ++ skipz m u ++ collapse w = D1 ++ u ++ collapse w)
            by (rewrite <- app_assoc; f_equal; rewrite app_assoc, Hk; reflexivity).
          rewrite HB in E2.
          rewrite ent_loop_short in E2; [|rewrite !len_app; unfold X; rewrite len_firstz by lia; lia
                                         |rewrite !len_app; unfold X; rewrite len_firstz by lia; lia].
          rewrite ent_loop_short; [exact E2|rewrite !len_app; lia|rewrite !len_app; lia].
        * apply Skip; [replace (len bpre1 + 3 <? len (bpre1 ++ d :: rest)) with false by (rewrite len_app, Hlen; lia); reflexivity|].
          rewrite Hcu. replace (len D1 + 3 <? len (D1 ++ u ++ collapse w)) with false by (rewrite !len_app; lia).
          apply andb_false_r.
  Qed.
End Sim.

Section Sim2.
  Variable em : list (list Z * list Z).
  Variable rm : list (Z * list Z).
  Hypothesis Hok : maps_ok em rm = true.

  Lemma run_mark_not_amp run : (run_mark run =? 38) = false.
  Proof. unfold run_mark. destruct (existsb nl2 run); reflexivity. Qed.

  Lemma sim : forall n, SimIH em rm n.
  Proof using Hok.
    induction n as [|n IHn]; intros suf bpre j k D f1 f2 Hn HV HLB Hf1 Hf2.
    - destruct suf; [|cbn [length] in Hn; lia]. rewrite !app_nil_r. change (collapse []) with (@nil Z). rewrite ?app_nil_r.
      rewrite wsent_loop_done by lia. rewrite ent_loop_end by lia. exists bpre, j, k, D. repeat split. exact HV.
    - destruct suf as [|c t].
      + rewrite !app_nil_r. change (collapse []) with (@nil Z). rewrite ?app_nil_r.
        rewrite wsent_loop_done by lia. rewrite ent_loop_end by lia. exists bpre, j, k, D. repeat split. exact HV.
      + destruct f1 as [|f1']; [lia|]. cbn [length] in Hn, Hf1.
        pose proof (len_nonneg bpre). pose proof (len_nonneg t).
        rewrite wsent_loop_step by (rewrite len_app, len_cons; lia).
        destruct (ws5 c) eqn:Ec.
        * destruct (ws_run_split t false) as (r & t' & -> & Hr & Ht & _).
          destruct (vinv_step_run D bpre j k c r t' HV Ec Hr Ht) as (bpre1 & i1 & j' & k' & E & -> & Hlen & HV1 & (x1 & s1 & Ex1 & Hs1)).
          rewrite E. cbn [rbind].
          rewrite (collapse_run_then c r t' Ec Hr Ht) in *.
          set (mk := run_mark (c :: r)) in *.
          destruct f2 as [|f2']; [cbn [length] in Hf2; lia|]. cbn [length] in Hf2.
          rewrite ent_loop_skip;
            [|rewrite len_app, len_cons; pose proof (len_nonneg (collapse t')); lia
             |rewrite getz_app_len; unfold mk; rewrite run_mark_not_amp; reflexivity].
          replace (D ++ mk :: collapse t') with ((D ++ [mk]) ++ collapse t') by (rewrite <- app_assoc; reflexivity).
          replace (len D + 1) with (len (D ++ [mk])) by (rewrite len_app; reflexivity).
          rewrite app_length in Hn, Hf1.
          apply (sim_ent em rm Hok n); [exact IHn|exact Ht|exact HV1| |lia|lia|lia].
          rewrite Ex1. apply lb_ws; [exact Hs1|]. unfold mk, run_mark. destruct (existsb nl2 (c :: r)); reflexivity.
        * rewrite ws_body_text by exact Ec. cbn [rbind].
          apply (sim_ent em rm Hok n); [exact IHn|exact Ec|exact HV|exact HLB|cbn [length]; lia|cbn [length]; lia|exact Hf2].
  Qed.

  Lemma compose_proof b :
    exists o, replace_ws_and_entities em rm b = Ok o /\
              rbind (replace_multiple_ws b) (replace_entities em rm) = Ok o.
  Proof using Hok.
    destruct (sim (length b) b [] 0 0 [] (S (length b)) (S (length (collapse b)))) as (b' & j' & k' & o & E1 & HV & E2).
    - lia.
    - left. repeat split.
    - apply lb_refl.
    - lia.
    - lia.
    - exists o. unfold replace_ws_and_entities. cbn [app] in E1. change (len (@nil Z)) with 0 in E1.
      rewrite E1. cbn [rbind]. split; [apply ws_finish_v; exact HV|].
      rewrite ws_spec_fun. cbn [rbind]. unfold replace_entities. cbn [app] in E2. exact E2.
  Qed.
End Sim2.

Lemma ws_and_entities_compose_proof : forall em rm, maps_ok em rm = true -> forall b,
  exists o, replace_ws_and_entities em rm b = Ok o /\
            replace_multiple_ws b = Ok (collapse b) /\ replace_entities em rm (collapse b) = Ok o.
Proof.
  intros em rm Hok b. destruct (compose_proof em rm Hok b) as (o & E1 & E2).
  exists o. split; [exact E1|]. split; [apply ws_spec_fun|].
  rewrite ws_spec_fun in E2. exact E2.
Qed.

Example ws_and_entities_compose_example :
  (* `a  &amp;  b&#x3c;` with the demo maps *)
  replace_ws_and_entities demo_em demo_rm [97;32;32;38;97;109;112;59;32;10;98;38;35;120;51;99;59]
    = Ok [97;32;38;10;98;38;108;116;59] /\
  replace_entities demo_em demo_rm (collapse [97;32;32;38;97;109;112;59;32;10;98;38;35;120;51;99;59])
    = Ok [97;32;38;10;98;38;108;116;59].
Proof. vm_compute. split; reflexivity. Qed.
