(* Conc/Whitelist.v — the places where memory of a package-level variable of tdewolff/parse is aliased
   (as found by translator T5, Gen/Globals.v), each with the reason why no write can go through the
   alias.  An entry is (variable, how): a new way of aliasing a variable that is already listed, or a
   new variable, is NOT covered and makes lib_global_writes_empty fail. *)
From Coq Require Import List String Bool.
From Verif Require Import Gen.Globals.
Import ListNotations.
Open Scope string_scope.

Definition readonly_whitelist : list (string * string) :=
  [ (* the one-byte buffer {0} of an empty Input / Lexer: stored in z.buf; z.buf is only indexed for
       reading, the slices handed out (Lexeme/Shift/Bytes) are three-index slices with cap = len (C12),
       and Restore only writes through the closure of a non-empty caller buffer *)
    ("buffer.nullBuffer", "alias:assign-rhs");
    ("buffer.nullBuffer", "alias:composite-field");
    ("parse.nullBuffer", "alias:assign-rhs");
    ("parse.nullBuffer", "alias:composite-field");
    (* perfect-hash text: ToHash compares a sub-slice byte by byte; Hash.Bytes returns a sub-slice to
       the caller (API contract: read-only; the library itself only converts it with string(...)) *)
    ("css._Hash_text", "alias:assign-rhs");
    ("css._Hash_text", "alias:return");
    ("html._Hash_text", "alias:assign-rhs");
    ("html._Hash_text", "alias:return");
    (* constant token texts of the CSS parser: become p.data / the data of a buffered token and are
       returned by Next()/Values() (API contract: valid until the next call, read-only); the parser
       never writes token data *)
    ("css.emptyBytes", "alias:assign-rhs");
    ("css.endBytes", "alias:assign-rhs");
    ("css.wsBytes", "arg:(method).pushBuf");
    (* entity texts: chosen as the replacement text and then only used as the SOURCE of copy *)
    ("html.doubleQuoteEntityBytes", "alias:assign-rhs");
    ("html.singleQuoteEntityBytes", "alias:assign-rhs");
    ("xml.doubleQuoteEntityBytes", "alias:assign-rhs");
    ("xml.singleQuoteEntityBytes", "alias:assign-rhs");
    ("html.doubleQuoteEntityBytes", "via local escapedQuote: copy-src");
    ("html.singleQuoteEntityBytes", "via local escapedQuote: copy-src");
    ("xml.doubleQuoteEntityBytes", "via local escapedQuote: copy-src");
    ("xml.singleQuoteEntityBytes", "via local escapedQuote: copy-src");
    ("xml.ampEntityBytes", "copy-src");
    ("xml.ltEntityBytes", "copy-src");
    (* sentinel errors: wrapped by fmt.Errorf("%w") / returned; an error value is never written through *)
    ("js.ErrInvalidJSON", "arg:fmt.Errorf");
    ("parse.ErrBadDataURI", "alias:return");
    (* token texts: TokenType.Bytes returns the shared text (API contract: read-only); inside the library
       the result is compared with nil, converted with string(...) or passed to io.Writer.Write, whose
       contract forbids modifying the slice *)
    ("js.identifierBytes", "alias:return");
    ("js.identifierBytes", "via js.TokenType.Bytes(): alias:assign-rhs");
    ("js.identifierBytes", "via js.TokenType.Bytes(): arg:(method).Write");
    ("js.operatorBytes", "alias:return");
    ("js.operatorBytes", "via js.TokenType.Bytes(): alias:assign-rhs");
    ("js.operatorBytes", "via js.TokenType.Bytes(): arg:(method).Write");
    ("js.reservedWordBytes", "alias:return");
    ("js.reservedWordBytes", "via js.TokenType.Bytes(): alias:assign-rhs");
    ("js.reservedWordBytes", "via js.TokenType.Bytes(): arg:(method).Write");
    (* unicode range tables: unicode.IsOneOf only reads its []*RangeTable argument *)
    ("js.identifierContinue", "arg:unicode.IsOneOf");
    ("js.identifierStart", "arg:unicode.IsOneOf");
    (* constant byte strings compared with bytes.Equal (reads both arguments) *)
    ("parse.base64Bytes", "arg:bytes.Equal");
    ("parse.dataSchemeBytes", "arg:bytes.Equal");
    (* DataURI: the default media type "text/plain" is returned to the caller as the mediatype result
       (API hazard, named in props.d/C20.json: a caller that modifies the returned slice in place would
       modify the shared default; the library itself never writes it) *)
    ("parse.textMimeBytes", "alias:assign-rhs");
    (* T5 follows the local variable `mediatype` flow-insensitively: the two appends and the re-slice
       `mediatype = mediatype[:len-1]` precede, in the same loop iteration, the assignment
       `mediatype = textMimeBytes`, after which the function returns in the same block without touching
       it again; so no append ever has the shared slice as its destination *)
    ("parse.textMimeBytes", "via local mediatype: WRITE append-dst");
    ("parse.textMimeBytes", "via local mediatype: alias:assign-rhs");
    ("parse.textMimeBytes", "via local mediatype: alias:return");
    (* xml/lex.go shiftDOCTYPEText (added by the repair ae017a9): the two constant delimiters "-->" and "?>" are
       assigned to the local `skipTo`, whose only use is `l.at(skipTo...)`; the Lexer method `at` (xml/lex.go) ranges over its
       variadic argument and compares each byte with Peek(i): it neither writes nor retains the slice *)
    ("xml.commentEndBytes", "alias:assign-rhs");
    ("xml.commentEndBytes", "via local skipTo: arg:(method).at");
    ("xml.piEndBytes", "alias:assign-rhs");
    ("xml.piEndBytes", "via local skipTo: arg:(method).at") ].

Definition pair_eqb (a b : string * string) : bool := String.eqb (fst a) (fst b) && String.eqb (snd a) (snd b).

Definition inclb (a b : list (string * string)) : bool :=
  forallb (fun x => existsb (pair_eqb x) b) a.

Lemma inclb_incl a b : inclb a b = true -> incl a b.
Proof.
  unfold inclb. intros H x Hx. rewrite forallb_forall in H. specialize (H x Hx).
  apply existsb_exists in H. destruct H as [y [Hy E]]. unfold pair_eqb in E.
  apply andb_true_iff in E. destruct E as [E1 E2].
  apply String.eqb_eq in E1. apply String.eqb_eq in E2.
  destruct x as [x1 x2], y as [y1 y2]. cbn in *. now subst.
Qed.

Lemma lib_global_writes_empty_proof : global_writes = [] /\ incl global_escapes readonly_whitelist.
Proof. split; [reflexivity|]. apply inclb_incl. vm_compute. reflexivity. Qed.

(* the scan is not vacuous: the library does have package-level state *)
Example global_vars_nonempty : Nat.leb 40 (List.length global_vars) = true.
Proof. vm_compute. reflexivity. Qed.
