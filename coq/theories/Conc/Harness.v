(* Conc/Harness.v — correspondence driver for the abstract interleaving semantics (C20): the Coq [run]
   against real goroutines that execute the same little programs under the same schedule.
   case:  nthreads  (ninstr (op a b c)^ninstr)^nthreads  schedule...
     op 0: acc := mem[loc a b c]          (Read)
     op 1: mem[loc a b c] := acc + 1      (Write)      loc 0 g _ = Global g ; loc 1 t x = Owned t x
     op 2: if acc is odd, skip the next a instructions   (data-dependent control flow)
     at the end the result of the thread is acc (initially 0)
   initial memory: Global g = 10 + g, Owned t x = 100 t + x
   observation: per executed step  thread kind(0 read,1 write) loctag a b value ; then -1 and per thread
   its result or -2 if it has not finished *)
From Verif Require Import Common.Base Common.Codec Conc.Model.

Definition dec_loc (a b c : Z) : loc :=
  if a =? 0 then Global (Z.to_nat b) else Owned (Z.to_nat b) (Z.to_nat c).

Definition init_mem : mem :=
  fun l => match l with Global g => 10 + Z.of_nat g | Owned t x => 100 * Z.of_nat t + Z.of_nat x end.

(* instructions as quadruples; compile a list of instructions into an interaction tree *)
Fixpoint compile (ins : list (Z * Z * Z * Z)) (acc : Z) (skip : nat) : prog :=
  match ins with
  | [] => Done acc
  | (op, a, b, c) :: r =>
      match skip with
      | S k => compile r acc k
      | O =>
          if op =? 0 then DoRead (dec_loc a b c) (fun v => compile r v O)
          else if op =? 1 then DoWrite (dec_loc a b c) (acc + 1) (compile r acc O)
          else if Z.odd acc then compile r acc (Z.to_nat a) else compile r acc O
      end
  end.

Fixpoint dec_instrs (n : nat) (l : list Z) : list (Z * Z * Z * Z) * list Z :=
  match n with
  | O => ([], l)
  | S k =>
      match l with
      | op :: a :: b :: c :: r => let '(is, r') := dec_instrs k r in ((op, a, b, c) :: is, r')
      | _ => ([], [])
      end
  end.

Fixpoint dec_threads (n : nat) (l : list Z) : list prog * list Z :=
  match n with
  | O => ([], l)
  | S k =>
      match l with
      | ni :: r =>
          let '(is, r1) := dec_instrs (Z.to_nat ni) r in
          let '(ps, r2) := dec_threads k r1 in
          (compile is 0 O :: ps, r2)
      | [] => ([], [])
      end
  end.

Definition enc_loc (l : loc) : list Z :=
  match l with Global g => [0; Z.of_nat g; 0] | Owned t x => [1; Z.of_nat t; Z.of_nat x] end.

Definition enc_ev (te : nat * event) : list Z :=
  match snd te with
  | ERead l v => Z.of_nat (fst te) :: 0 :: enc_loc l ++ [v]
  | EWrite l v => Z.of_nat (fst te) :: 1 :: enc_loc l ++ [v]
  end.

Definition run_conc (l : list Z) : list Z :=
  let '(ps, sched) := dec_threads (Z.to_nat (hdz l)) (tlz l) in
  let '(c', tr) := run (ps, init_mem) (map Z.to_nat sched) in
  flat_map enc_ev tr ++ (-1) :: map (fun p => match p with Done r => r | _ => -2 end) (fst c').
