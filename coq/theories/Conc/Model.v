(* Conc/Model.v — abstract semantics for C20: calls of the library as interaction trees over a shared
   memory whose locations are tagged Global g (package-level state) or Owned t x (data private to
   goroutine / call t); schedules; sequential composition.  Definitions only.

   What is NOT modelled (named in props.d/C20.json): the Go memory model (executions here are
   sequentially consistent interleavings of atomic actions), the scheduler, and the faithfulness of the
   effect summary that translator T5 extracts from the source (Gen/Globals.v). *)
From Coq Require Import List ZArith Bool Arith.
Import ListNotations.
Open Scope Z_scope.

Inductive loc := Global (g : nat) | Owned (t : nat) (x : nat).

Definition loc_eqb (a b : loc) : bool :=
  match a, b with
  | Global g, Global h => Nat.eqb g h
  | Owned t x, Owned u y => Nat.eqb t u && Nat.eqb x y
  | _, _ => false
  end.

Definition mem := loc -> Z.
Definition upd (m : mem) (l : loc) (v : Z) : mem := fun l' => if loc_eqb l l' then v else m l'.

(* A call: what it does next may depend on every value it has read so far (data-dependent control
   flow); every path ends with a result. *)
Inductive prog :=
| Done (r : Z)
| DoRead (l : loc) (k : Z -> prog)
| DoWrite (l : loc) (v : Z) (k : prog).

(* what is observed of one atomic action: reads carry the value read *)
Inductive event := ERead (l : loc) (v : Z) | EWrite (l : loc) (v : Z).

Definition ev_loc (e : event) : loc := match e with ERead l _ => l | EWrite l _ => l end.
Definition ev_is_write (e : event) : bool := match e with ERead _ _ => false | EWrite _ _ => true end.

Definition step (p : prog) (m : mem) : option (event * prog * mem) :=
  match p with
  | Done _ => None
  | DoRead l k => Some (ERead l (m l), k (m l), m)
  | DoWrite l v k => Some (EWrite l v, k, upd m l v)
  end.

(* run a call alone to its end *)
Fixpoint complete (p : prog) (m : mem) : Z * mem :=
  match p with
  | Done r => (r, m)
  | DoRead l k => complete (k (m l)) m
  | DoWrite l v k => complete k (upd m l v)
  end.

(* ---- concurrent execution: a schedule says which thread makes the next atomic step ---------------- *)
Definition config := (list prog * mem)%type.

Fixpoint replace_nth {A} (l : list A) (i : nat) (x : A) : list A :=
  match l, i with
  | [], _ => []
  | _ :: r, O => x :: r
  | a :: r, S j => a :: replace_nth r j x
  end.

Definition sched_step (c : config) (i : nat) : config * list (nat * event) :=
  match nth_error (fst c) i with
  | Some p =>
      match step p (snd c) with
      | Some (e, p', m') => ((replace_nth (fst c) i p', m'), [(i, e)])
      | None => (c, [])                      (* a finished thread does nothing *)
      end
  | None => (c, [])
  end.

Fixpoint run (c : config) (s : list nat) : config * list (nat * event) :=
  match s with
  | [] => (c, [])
  | i :: r =>
      let '(c1, t1) := sched_step c i in
      let '(c2, t2) := run c1 r in
      (c2, t1 ++ t2)
  end.

(* the events of thread i in an interleaved trace *)
Definition thread_events (i : nat) (tr : list (nat * event)) : list event :=
  map snd (filter (fun e => Nat.eqb (fst e) i) tr).

(* what thread p0 does alone from memory m0: the states it reaches and the events it produces *)
Inductive solo_reach (p0 : prog) (m0 : mem) : prog -> mem -> list event -> Prop :=
| solo_refl : solo_reach p0 m0 p0 m0 []
| solo_step p m evs e p' m' :
    solo_reach p0 m0 p m evs -> step p m = Some (e, p', m') -> solo_reach p0 m0 p' m' (evs ++ [e]).

(* a data race in a configuration: two different threads whose next actions touch the same location,
   at least one of them writing *)
Definition next_event (c : config) (i : nat) : option event :=
  match nth_error (fst c) i with
  | Some p => match step p (snd c) with Some (e, _, _) => Some e | None => None end
  | None => None
  end.

Definition race (c : config) : Prop :=
  exists i j a b, i <> j /\ next_event c i = Some a /\ next_event c j = Some b /\
                  ev_loc a = ev_loc b /\ (ev_is_write a = true \/ ev_is_write b = true).

(* ---- the discipline: thread i writes no Global and touches no other thread's Owned locations ------- *)
Definition readable (i : nat) (l : loc) : Prop :=
  match l with Global _ => True | Owned t _ => t = i end.

Inductive safe (i : nat) : prog -> Prop :=
| safe_done r : safe i (Done r)
| safe_read l k : readable i l -> (forall v, safe i (k v)) -> safe i (DoRead l k)
| safe_write x v k : safe i k -> safe i (DoWrite (Owned i x) v k).

Definition all_safe (ps : list prog) : Prop := forall i p, nth_error ps i = Some p -> safe i p.

(* ---- sequential composition: calls run to completion one after the other on the same memory -------- *)
Fixpoint run_seq (calls : list (nat * prog)) (m : mem) : list (nat * Z) * mem :=
  match calls with
  | [] => ([], m)
  | (i, p) :: r =>
      let '(res, m1) := complete p m in
      let '(rs, m2) := run_seq r m1 in
      ((i, res) :: rs, m2)
  end.
