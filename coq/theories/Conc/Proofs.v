(* Conc/Proofs.v — non-interference, race freedom and order independence for the abstract semantics. *)
From Coq Require Import List ZArith Bool Arith Lia Permutation.
From Verif Require Import Conc.Model.
Import ListNotations.
Open Scope Z_scope.

Lemma loc_eqb_eq a b : loc_eqb a b = true <-> a = b.
Proof.
  destruct a as [g|t x], b as [h|u y]; cbn; split; try discriminate.
  - intros H. apply Nat.eqb_eq in H. now subst.
  - intros H. inversion H. apply Nat.eqb_refl.
  - intros H. apply andb_true_iff in H. destruct H as [H1 H2].
    apply Nat.eqb_eq in H1. apply Nat.eqb_eq in H2. now subst.
  - intros H. inversion H. now rewrite !Nat.eqb_refl.
Qed.

Lemma upd_same m l v : upd m l v l = v.
Proof. unfold upd. now rewrite (proj2 (loc_eqb_eq l l) eq_refl). Qed.

Lemma upd_other m l v l' : l <> l' -> upd m l v l' = m l'.
Proof.
  intros H. unfold upd. destruct (loc_eqb l l') eqn:E; [|reflexivity].
  apply loc_eqb_eq in E. contradiction.
Qed.

Lemma nth_error_replace_same {A} (l : list A) i x : (i < length l)%nat -> nth_error (replace_nth l i x) i = Some x.
Proof.
  revert i. induction l as [|a r IH]; intros i H; cbn in H; [lia|].
  destruct i; cbn; [reflexivity|]. apply IH. lia.
Qed.

Lemma nth_error_replace_other {A} (l : list A) i j x : i <> j -> nth_error (replace_nth l i x) j = nth_error l j.
Proof.
  revert i j. induction l as [|a r IH]; intros i j H; [destruct i; reflexivity|].
  destruct i, j; cbn; try reflexivity; [contradiction|]. apply IH. lia.
Qed.

Lemma length_replace {A} (l : list A) i x : length (replace_nth l i x) = length l.
Proof. revert i. induction l as [|a r IH]; intros i; destruct i; cbn; auto. Qed.

Lemma thread_events_app i a b : thread_events i (a ++ b) = thread_events i a ++ thread_events i b.
Proof. unfold thread_events. now rewrite filter_app, map_app. Qed.

(* ---- the invariant of a concurrent run -------------------------------------------------------------- *)
Section Inv.
Variable ps0 : list prog.
Variable m0 : mem.

(* every thread is where its solo run would be after the same number of its own steps, has produced the
   same events (reads with the same values), and the shared memory agrees with each solo memory on what
   that thread may read *)
Definition inv (c : config) (tr : list (nat * event)) : Prop :=
  length (fst c) = length ps0 /\
  (forall g, snd c (Global g) = m0 (Global g)) /\
  forall i p0, nth_error ps0 i = Some p0 ->
    exists p mi, nth_error (fst c) i = Some p /\
                 solo_reach p0 m0 p mi (thread_events i tr) /\ safe i p /\
                 (forall x, snd c (Owned i x) = mi (Owned i x)) /\
                 (forall g, mi (Global g) = m0 (Global g)).

Lemma inv_init : all_safe ps0 -> inv (ps0, m0) [].
Proof.
  intros S. split; [reflexivity|]. split; [reflexivity|].
  intros i p0 H. exists p0, m0. split; [exact H|]. split; [constructor|]. split; [now apply S|]. now split.
Qed.

Lemma inv_step c tr j : inv c tr -> inv (fst (sched_step c j)) (tr ++ snd (sched_step c j)).
Proof.
  intros [L [GL TH]]. unfold sched_step.
  destruct (nth_error (fst c) j) as [pj|] eqn:NJ; [|cbn; rewrite app_nil_r; now split].
  destruct (step pj (snd c)) as [[[e p'] m']|] eqn:ST; [|cbn; rewrite app_nil_r; now split].
  cbn [fst snd].
  assert (JL : (j < length ps0)%nat) by (rewrite <- L; apply nth_error_Some; congruence).
  destruct (nth_error ps0 j) as [pj0|] eqn:NJ0; [|apply nth_error_None in NJ0; lia].
  destruct (TH j pj0 NJ0) as [pj' [mj [NJ' [SR [SF [AG GM]]]]]].
  rewrite NJ in NJ'. inversion NJ'; subst pj'. clear NJ'.
  (* the step of thread j, read off its safety *)
  destruct SF as [r|l k RD SK|x v k SK]; cbn in ST; try discriminate; inversion ST; subst e p' m'; clear ST.
  - (* a read of a location thread j may read: same value as in its solo run *)
    assert (VAL : snd c l = mj l).
    { destruct l as [g|t x]; [now rewrite GL, GM|]. cbn in RD. subst t. apply AG. }
    split; [cbn; now rewrite length_replace|]. split; [exact GL|].
    intros i p0 Hi. destruct (Nat.eq_dec i j) as [->|NE].
    + rewrite NJ0 in Hi. inversion Hi; subst p0.
      exists (k (snd c l)), mj. split; [cbn; apply nth_error_replace_same; lia|].
      split.
      * rewrite thread_events_app. unfold thread_events at 2. cbn. rewrite Nat.eqb_refl. cbn.
        eapply solo_step; [exact SR|]. cbn. now rewrite VAL.
      * split; [apply SK|]. now split.
    + destruct (TH i p0 Hi) as [p [mi [N [S1 [S2 [S3 S4]]]]]]. exists p, mi.
      split; [cbn; rewrite nth_error_replace_other; [exact N|lia]|].
      split; [|now split].
      rewrite thread_events_app. unfold thread_events at 2. cbn.
      replace (Nat.eqb j i) with false by (symmetry; apply Nat.eqb_neq; lia). cbn. now rewrite app_nil_r.
  - (* a write to a location owned by thread j *)
    split; [cbn; now rewrite length_replace|].
    split; [intros g; cbn [fst snd]; rewrite upd_other; [apply GL|discriminate]|].
    intros i p0 Hi. destruct (Nat.eq_dec i j) as [->|NE].
    + rewrite NJ0 in Hi. inversion Hi; subst p0.
      exists k, (upd mj (Owned j x) v). split; [cbn; apply nth_error_replace_same; lia|].
      split.
      * rewrite thread_events_app. unfold thread_events at 2. cbn. rewrite Nat.eqb_refl. cbn.
        eapply solo_step; [exact SR|]. reflexivity.
      * split; [exact SK|]. split.
        -- intros y. cbn [fst snd]. unfold upd. destruct (loc_eqb (Owned j x) (Owned j y)); [reflexivity|apply AG].
        -- intros g. rewrite upd_other; [apply GM|discriminate].
    + destruct (TH i p0 Hi) as [p [mi [N [S1 [S2 [S3 S4]]]]]]. exists p, mi.
      split; [cbn; rewrite nth_error_replace_other; [exact N|lia]|].
      split.
      * rewrite thread_events_app. unfold thread_events at 2. cbn.
        replace (Nat.eqb j i) with false by (symmetry; apply Nat.eqb_neq; lia). cbn. now rewrite app_nil_r.
      * split; [exact S2|]. split; [|exact S4].
        intros y. cbn [fst snd]. rewrite upd_other; [apply S3|]. intros E. inversion E. lia.
Qed.

Lemma inv_run s : forall c tr, inv c tr -> inv (fst (run c s)) (tr ++ snd (run c s)).
Proof.
  induction s as [|j r IH]; intros c tr H; cbn [run].
  - cbn. now rewrite app_nil_r.
  - pose proof (inv_step c tr j H) as H1.
    destruct (sched_step c j) as [c1 t1]. cbn [fst snd] in H1.
    specialize (IH c1 (tr ++ t1) H1).
    destruct (run c1 r) as [c2 t2]. cbn [fst snd] in *. now rewrite app_assoc.
Qed.

(* no reachable configuration has a data race *)
Lemma inv_no_race c tr : inv c tr -> ~ race c.
Proof.
  intros [L [GL TH]] [i [j [a [b [NE [NA [NB [SAME WR]]]]]]]].
  unfold next_event in NA, NB.
  destruct (nth_error (fst c) i) as [pi|] eqn:NI; [|discriminate].
  destruct (nth_error (fst c) j) as [pj|] eqn:NJ; [|discriminate].
  assert (IL : (i < length ps0)%nat) by (rewrite <- L; apply nth_error_Some; congruence).
  assert (JL : (j < length ps0)%nat) by (rewrite <- L; apply nth_error_Some; congruence).
  destruct (nth_error ps0 i) as [pi0|] eqn:NI0; [|apply nth_error_None in NI0; lia].
  destruct (nth_error ps0 j) as [pj0|] eqn:NJ0; [|apply nth_error_None in NJ0; lia].
  destruct (TH i pi0 NI0) as [pi' [mi [N1 [_ [SI _]]]]]. rewrite NI in N1. inversion N1; subst pi'.
  destruct (TH j pj0 NJ0) as [pj' [mj [N2 [_ [SJ _]]]]]. rewrite NJ in N2. inversion N2; subst pj'.
  (* the location of a thread's next event is readable by it; a written one is owned by it *)
  assert (LI : readable i (ev_loc a) /\ (ev_is_write a = true -> exists x, ev_loc a = Owned i x)).
  { destruct SI as [r|l k RD SK|x v k SK]; cbn in NA; inversion NA; subst a; cbn.
    - split; [exact RD|discriminate].
    - split; [reflexivity|]. intros _. now exists x. }
  assert (LJ : readable j (ev_loc b) /\ (ev_is_write b = true -> exists x, ev_loc b = Owned j x)).
  { destruct SJ as [r|l k RD SK|x v k SK]; cbn in NB; inversion NB; subst b; cbn.
    - split; [exact RD|discriminate].
    - split; [reflexivity|]. intros _. now exists x. }
  destruct LI as [RI WI], LJ as [RJ WJ]. destruct WR as [W|W].
  - destruct (WI W) as [x E]. rewrite <- SAME, E in RJ. cbn in RJ. lia.
  - destruct (WJ W) as [x E]. rewrite SAME, E in RI. cbn in RI. lia.
Qed.

End Inv.

(* ---- results ------------------------------------------------------------------------------------------ *)
Lemma solo_reach_complete p0 m0 p m evs : solo_reach p0 m0 p m evs -> complete p0 m0 = complete p m.
Proof.
  induction 1 as [|p m evs e p' m' R IH ST]; [reflexivity|]. rewrite IH.
  destruct p as [r|l k|l v k]; cbn in ST; inversion ST; subst; reflexivity.
Qed.

Theorem noninterference_proof (ps : list prog) (m0 : mem) (s : list nat) :
  all_safe ps ->
  let c' := fst (run (ps, m0) s) in
  let tr := snd (run (ps, m0) s) in
  (forall i p0, nth_error ps i = Some p0 ->
     exists p mi, nth_error (fst c') i = Some p /\ solo_reach p0 m0 p mi (thread_events i tr)) /\
  (forall i p0 r, nth_error ps i = Some p0 -> nth_error (fst c') i = Some (Done r) -> fst (complete p0 m0) = r) /\
  ~ race c'.
Proof.
  intros S c' tr.
  pose proof (inv_run ps m0 s (ps, m0) [] (inv_init ps m0 S)) as I. cbn [app] in I. fold c' tr in I.
  split; [|split].
  - intros i p0 H. destruct I as [_ [_ TH]]. destruct (TH i p0 H) as [p [mi [N [SR _]]]]. now exists p, mi.
  - intros i p0 r H D. destruct I as [_ [_ TH]]. destruct (TH i p0 H) as [p [mi [N [SR _]]]].
    rewrite D in N. inversion N; subst p. now rewrite (solo_reach_complete _ _ _ _ _ SR).
  - now apply (inv_no_race ps m0 c' tr).
Qed.

(* ---- order independence ------------------------------------------------------------------------------- *)

(* two memories that agree on what call i may read give the same result, agree afterwards on what i may
   read, and the call changes nothing outside the locations it owns *)
Lemma complete_agree i p : safe i p -> forall m1 m2,
  (forall l, readable i l -> m1 l = m2 l) ->
  fst (complete p m1) = fst (complete p m2) /\
  (forall l, readable i l -> snd (complete p m1) l = snd (complete p m2) l) /\
  (forall l, (forall x, l <> Owned i x) -> snd (complete p m1) l = m1 l).
Proof.
  induction 1 as [r|l k RD SK IH|x v k SK IH]; intros m1 m2 AG; cbn [complete].
  - cbn. split; [reflexivity|]. split; [exact AG|reflexivity].
  - rewrite (AG l RD). apply IH. exact AG.
  - destruct (IH (upd m1 (Owned i x) v) (upd m2 (Owned i x) v)) as [A [B C]].
    { intros l RL. unfold upd. destruct (loc_eqb (Owned i x) l); [reflexivity|now apply AG]. }
    split; [exact A|]. split; [exact B|].
    intros l NO. rewrite C by exact NO. apply upd_other. intros E. now apply (NO x).
Qed.

Definition calls_safe (calls : list (nat * prog)) : Prop := forall i p, In (i, p) calls -> safe i p.

(* memory m still looks like m0 to every call of the list *)
Definition fresh_for (calls : list (nat * prog)) (m m0 : mem) : Prop :=
  forall i p l, In (i, p) calls -> readable i l -> m l = m0 l.

Lemma run_seq_results calls : forall m m0,
  calls_safe calls -> NoDup (map fst calls) -> fresh_for calls m m0 ->
  forall i p, In (i, p) calls -> In (i, fst (complete p m0)) (fst (run_seq calls m)).
Proof.
  induction calls as [|[j q] r IH]; intros m m0 S ND F i p H; [destruct H|].
  cbn [run_seq]. destruct (complete q m) as [res m1] eqn:C.
  destruct (run_seq r m1) as [rs m2] eqn:R. cbn [fst].
  cbn [map fst] in ND. inversion ND as [|? ? NJ ND']; subst.
  destruct H as [E|H].
  - inversion E; subst j q. left. f_equal.
    assert (SQ : safe i p) by (apply S; now left).
    destruct (complete_agree i p SQ m m0) as [A _]; [intros l RL; apply (F i p l); [now left|exact RL]|].
    rewrite C in A. exact A.
  - right. replace rs with (fst (run_seq r m1)) by (now rewrite R).
    apply (IH m1 m0); [intros a b Hab; apply S; now right|exact ND'| |exact H].
    intros a b l Hab RL.
    assert (SQ : safe j q) by (apply S; now left).
    destruct (complete_agree j q SQ m m) as [_ [_ FR]]; [reflexivity|].
    rewrite C in FR. cbn [snd] in FR. rewrite FR.
    + apply (F a b l); [now right|exact RL].
    + intros x E. subst l. cbn in RL. subst a. apply NJ. change j with (fst (j, b)). now apply in_map.
Qed.

Theorem order_independence_proof (calls calls' : list (nat * prog)) (m0 : mem) :
  calls_safe calls -> NoDup (map fst calls) -> Permutation calls calls' ->
  forall i p, In (i, p) calls -> In (i, fst (complete p m0)) (fst (run_seq calls' m0)).
Proof.
  intros S ND P i p H.
  apply (run_seq_results calls' m0 m0).
  - intros a b Hab. apply S. eapply Permutation_in; [apply Permutation_sym; exact P|exact Hab].
  - eapply Permutation_NoDup; [apply Permutation_map; exact P|exact ND].
  - intros a b l _ _. reflexivity.
  - eapply Permutation_in; [exact P|exact H].
Qed.

(* ---- non-vacuity ---------------------------------------------------------------------------------------- *)
(* thread 0: reads a global table entry and one of its own cells, branches on the value, writes its own
   cell; thread 1 likewise on its own data *)
Definition ex_thread (i : nat) : prog :=
  DoRead (Global 0) (fun g =>
  DoRead (Owned i 0) (fun a =>
  if (a <? g) then DoWrite (Owned i 1) (a + g) (Done (a + g)) else Done a)).

Example ex_thread_safe i : safe i (ex_thread i).
Proof.
  unfold ex_thread. apply safe_read; [exact I|]. intros g. apply safe_read; [reflexivity|]. intros a.
  destruct (a <? g); repeat constructor.
Qed.

Definition ex_mem : mem := fun l => match l with Global _ => 5 | Owned 0 _ => 2 | Owned _ _ => 9 end.

Example ex_all_safe : all_safe [ex_thread 0; ex_thread 1].
Proof.
  intros i p H. destruct i as [|[|i]]; cbn in H; inversion H; subst; try apply ex_thread_safe.
  destruct i; discriminate.
Qed.

Example ex_run_results :
  map (fun p => match p with Done r => r | _ => -1 end)
      (fst (fst (run ([ex_thread 0; ex_thread 1], ex_mem) [0; 1; 1; 0; 0; 1]%nat))) = [7; 9].
Proof. vm_compute. reflexivity. Qed.

Example ex_solo_results : fst (complete (ex_thread 0) ex_mem) = 7 /\ fst (complete (ex_thread 1) ex_mem) = 9.
Proof. vm_compute. now split. Qed.

Example ex_seq_order :
  fst (run_seq [(1, ex_thread 1); (0, ex_thread 0)]%nat ex_mem) = [(1%nat, 9); (0%nat, 7)].
Proof. vm_compute. reflexivity. Qed.

(* without the discipline the statement is false: a thread that writes a Global changes what another reads *)
Definition bad_writer : prog := DoWrite (Global 0) 100 (Done 0).
Example ex_interference :
  fst (complete (ex_thread 1) ex_mem) = 9 /\
  map (fun p => match p with Done r => r | _ => -1 end)
      (fst (fst (run ([bad_writer; ex_thread 1], ex_mem) [0; 1; 1; 1]%nat))) = [0; 109].
Proof. vm_compute. now split. Qed.
