(* Extract/Extract.v — extraction of the executable models to OCaml for the correspondence check.
   ExtrOcamlBasic only; Z/N/positive stay Coq datatypes. *)
From Coq Require Import Extraction ExtrOcamlBasic.
From Verif Require Import Common.Base Cursor.Harness.
Extraction Language OCaml.
Extraction "model.ml" Z.add Z.mul Z.opp Z.div_eucl run_cursor.
