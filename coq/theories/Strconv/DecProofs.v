(* Strconv/DecProofs.v — AppendDecimal (strconv/decimal.go): what is written after num := int64(f). *)
From Coq Require Import ZifyBool Floats.SpecFloat.
From Verif Require Import Common.Base Common.Tactics Strconv.Model Strconv.FModel Strconv.IntProofs Strconv.NumProofs Gen.Tables.

(* the decimal numeral of num / 10^dec with exactly dec decimals (num <> 0) *)
Definition dec_text (num dec : Z) : list Z :=
  let m := Z.abs num in
  (if num <? 0 then [45] else []) ++ udecimal (m / 10 ^ dec) ++
  (if 0 <? dec then 46 :: rev (frac_rdigits (Z.to_nat dec) m) else []).

Lemma ad_frac_spec k : forall m pre mid post,
  0 <= m -> len mid = Z.of_nat k ->
  ad_frac k (pre ++ mid ++ post) (len pre + len mid - 1) m
  = Ok (pre ++ rev (frac_rdigits k m) ++ post, len pre - 1, m / 10 ^ Z.of_nat k).
Proof.
  induction k as [|k IH]; intros m pre mid post Hm Hl.
  - destruct mid; [|rewrite len_cons in Hl; pose proof (len_nonneg mid); lia].
    cbn [ad_frac frac_rdigits rev app]. change (len (@nil Z)) with 0. change (Z.of_nat 0) with 0.
    rewrite Z.pow_0_r, Z.div_1_r. f_equal. f_equal. f_equal. lia.
  - cbn [ad_frac frac_rdigits rev].
    destruct (list_snoc mid ltac:(lia)) as (mid' & x & ->).
    rewrite len_app, len_cons in Hl. change (len (@nil Z)) with 0 in Hl.
    destruct (rem_quot_nonneg m Hm) as [-> ->].
    rewrite byte_digit_char by (apply Z.mod_pos_bound; lia).
    replace (pre ++ (mid' ++ [x]) ++ post) with ((pre ++ mid') ++ x :: post) by (rewrite <- !app_assoc; reflexivity).
    replace (len pre + len (mid' ++ [x]) - 1) with (len (pre ++ mid')) by (rewrite !len_app, len_cons; change (len (@nil Z)) with 0; lia).
    rewrite store_app_mid. cbn [rbind].
    replace (len (pre ++ mid') - 1) with (len pre + len mid' - 1) by (rewrite len_app; lia).
    rewrite <- app_assoc. rewrite IH by (try lia; apply Z.div_pos; lia).
    rewrite <- !app_assoc. cbn [app]. f_equal. f_equal.
    rewrite Nat2Z.inj_succ, Z.pow_succ_r by lia.
    rewrite Z.div_div by (try lia; apply Z.pow_pos_nonneg; lia). reflexivity.
Qed.

Lemma i64pow10_spec dec : 0 <= dec <= 18 -> i64pow10 dec = Ok (10 ^ dec).
Proof.
  intros H. assert (Hin : In dec (zrange 0 18)) by (apply zrange_in; lia).
  vm_compute in Hin. repeat (destruct Hin as [<-|Hin]; [vm_compute; reflexivity|]). destruct Hin.
Qed.

Lemma len_udecimal_div m dec : 0 < m < 10 ^ Z.of_nat 20 -> 0 <= dec ->
  len (udecimal (m / 10 ^ dec)) = if m <? 10 ^ dec then 1 else len (rdigits 20 m) - dec.
Proof.
  intros Hm Hdec. destruct (rdigits_div_pow m dec Hm Hdec) as [Hlt Hge].
  destruct (rdigits_bounds 20 m Hm) as (HL1 & HL2 & HL3).
  assert (Hp : 0 < 10 ^ dec) by (apply Z.pow_pos_nonneg; lia).
  destruct (m <? 10 ^ dec) eqn:E.
  - rewrite Z.div_small by lia. reflexivity.
  - assert (Hd : dec < len (rdigits 20 m)).
    { destruct (Z.lt_ge_cases dec (len (rdigits 20 m))) as [H|H]; [exact H|].
      assert (10 ^ len (rdigits 20 m) <= 10 ^ dec) by (apply Z.pow_le_mono_r; lia). lia. }
    destruct (Hlt Hd) as (HM & HLM).
    rewrite (udecimal_fuel _ 20 HM), len_rev. exact HLM.
Qed.

(* everything AppendDecimal does after the trailing-zero loop, for num <> 0, num <> MinInt64 *)
Lemma ad_print_spec b spare num dec :
  min_i64 < num <= max_i64 -> num <> 0 -> 0 <= dec <= 18 ->
  ad_print b spare num dec = Ok (b ++ dec_text num dec).
Proof.
  intros Hn Hnz Hdec. unfold min_i64, max_i64 in Hn. unfold ad_print.
  set (m := Z.abs num).
  assert (Hm : 0 < m < 10 ^ Z.of_nat 20) by (unfold m; eval_pow10; lia).
  assert (Hp : 0 < 10 ^ dec) by (apply Z.pow_pos_nonneg; lia).
  assert (HL : len_int num = (if num <? 0 then 1 else 0) + len (rdigits 20 m)).
  { rewrite (len_int_spec num) by (unfold min_i64, max_i64; lia). unfold decimal.
    destruct (num <? 0) eqn:E.
    - rewrite len_cons. replace (- num) with m by (unfold m; lia). rewrite (udecimal_fuel m 20 Hm), len_rev. reflexivity.
    - replace num with m at 1 by (unfold m; lia). rewrite (udecimal_fuel m 20 Hm), len_rev. lia. }
  destruct (rdigits_bounds 20 m Hm) as (HL1 & HL2 & HL3).
  set (L := len (rdigits 20 m)) in *.
  set (S := if num <? 0 then [45] else []).
  set (F := if 0 <? dec then 46 :: rev (frac_rdigits (Z.to_nat dec) m) else []).
  assert (HF : len F = if 0 <? dec then 1 + dec else 0).
  { unfold F. destruct (0 <? dec) eqn:E; [|reflexivity]. rewrite len_cons, len_rev, len_frac_rdigits, Z2Nat.id by lia. reflexivity. }
  assert (HS : len S = if num <? 0 then 1 else 0) by (unfold S; destruct (num <? 0); reflexivity).
  pose proof (len_udecimal_div m dec Hm ltac:(lia)) as HI. fold L in HI.
  (* the size *)
  cbv zeta.
  match goal with |- rbind ?e _ = _ => assert (Hsize : e = Ok (len (dec_text num dec))) end.
  { unfold dec_text. fold m S F. rewrite !len_app, HS, HF, HI.
    destruct (0 <? dec) eqn:Ed.
    - rewrite (i64pow10_spec dec) by lia. cbn [rbind]. rewrite HL.
      assert (Hlt : m < 10 ^ dec <-> L <= dec).
      { split; intros H.
        - destruct (Z.lt_ge_cases dec L) as [H'|H']; [|exact H'].
          assert (10 ^ dec <= 10 ^ (L - 1)) by (apply Z.pow_le_mono_r; lia). lia.
        - assert (10 ^ L <= 10 ^ dec) by (apply Z.pow_le_mono_r; lia). lia. }
      destruct (num <? 0) eqn:En.
      + replace (0 <? num) with false by lia. cbn [andb orb].
        replace (- 10 ^ dec <? num) with (m <? 10 ^ dec) by (unfold m; lia).
        destruct (m <? 10 ^ dec) eqn:Em.
        * replace (1 + L - 1 <? dec) with (L <? dec) by lia.
          destruct (L <? dec) eqn:E2; f_equal; lia.
        * replace (1 + L - 1 <? dec) with false by lia. f_equal. lia.
      + replace (0 <? num) with true by lia. cbn [andb orb]. rewrite orb_false_r.
        replace (num <? 10 ^ dec) with (m <? 10 ^ dec) by (unfold m; lia).
        destruct (m <? 10 ^ dec) eqn:Em.
        * destruct (0 + L <? dec) eqn:E2; f_equal; lia.
        * replace (0 + L <? dec) with false by lia. f_equal. lia.
    - assert (dec = 0) by lia. subst dec. rewrite Z.pow_0_r. replace (m <? 1) with false by lia.
      rewrite HL. f_equal. destruct (num <? 0); lia. }
  rewrite Hsize. cbn [rbind]. clear Hsize.
  unfold dec_text. fold m S F. set (I := udecimal (m / 10 ^ dec)) in *.
  pose proof (len_nonneg S) as HS0. pose proof (len_nonneg I) as HI0. pose proof (len_nonneg F) as HF0.
  destruct (grow_spec b spare (len (S ++ I ++ F)) (len_nonneg _)) as (fill & -> & Hfill). cbn [rbind].
  rewrite !len_app in Hfill.
  destruct (split3 fill (len S) (len F) HS0 HF0 ltac:(lia)) as (fs & fi & ff & -> & Hfs & Hff).
  rewrite !len_app in Hfill. assert (Hfi : len fi = len I) by lia.
  rewrite !len_app.
  (* the sign *)
  assert (Hsign : (if num <? 0 then b2 <-- store (b ++ fs ++ fi ++ ff) (len b) 45 ;; Ok (b2, i64 (- num)) else Ok (b ++ fs ++ fi ++ ff, num))
                  = Ok (b ++ S ++ fi ++ ff, m)).
  { unfold S. destruct (num <? 0) eqn:En.
    - rewrite HS in Hfs. destruct fs as [|y fs]; [change (len (@nil Z)) with 0 in Hfs; lia|].
      rewrite len_cons in Hfs. pose proof (len_nonneg fs). destruct fs; [|rewrite len_cons in Hfs; pose proof (len_nonneg fs); lia].
      cbn [app]. rewrite store_app_mid. cbn [rbind]. rewrite i64_small by (unfold min_i64, max_i64; lia).
      unfold m. f_equal. f_equal. lia.
    - rewrite HS in Hfs. destruct fs; [|rewrite len_cons in Hfs; pose proof (len_nonneg fs); lia].
      unfold m. f_equal. f_equal. lia. }
  rewrite Hsign. cbn [rbind fst snd]. clear Hsign.
  assert (HSlen : len S = len fs) by lia.
  destruct (0 <? dec) eqn:Ed.
  - assert (HFv : F = 46 :: rev (frac_rdigits (Z.to_nat dec) m)) by (unfold F; rewrite ?Ed; reflexivity).
    rewrite HF in Hff.
    destruct ff as [|x fq]; [change (len (@nil Z)) with 0 in Hff; lia|]. rewrite len_cons in Hff.
    replace (b ++ S ++ fi ++ x :: fq) with ((b ++ S ++ fi ++ [x]) ++ fq ++ []) by (rewrite app_nil_r, <- !app_assoc; reflexivity).
    replace (len b + (len S + (len I + len F)) - 1) with (len (b ++ S ++ fi ++ [x]) + len fq - 1).
    2:{ rewrite !len_app, len_cons, HF. change (len (@nil Z)) with 0. lia. }
    rewrite ad_frac_spec by (rewrite ?Z2Nat.id by lia; unfold m; lia).
    cbn [rbind fst snd]. rewrite app_nil_r, Z2Nat.id by lia.
    replace ((b ++ S ++ fi ++ [x]) ++ rev (frac_rdigits (Z.to_nat dec) m))
      with ((b ++ S ++ fi) ++ x :: rev (frac_rdigits (Z.to_nat dec) m)) by (rewrite <- !app_assoc; reflexivity).
    replace (len (b ++ S ++ fi ++ [x]) - 1) with (len (b ++ S ++ fi)) by (rewrite !len_app, len_cons; change (len (@nil Z)) with 0; lia).
    rewrite store_app_mid. cbn [rbind fst snd].
    rewrite HFv.
    destruct (m / 10 ^ dec =? 0) eqn:E0.
    + assert (HI1 : I = [48]) by (unfold I; replace (m / 10 ^ dec) with 0 by lia; reflexivity).
      rewrite HI1 in *. rewrite len_cons in Hfi. change (len (@nil Z)) with 0 in Hfi.
      destruct fi as [|z fi]; [change (len (@nil Z)) with 0 in Hfi; lia|]. rewrite len_cons in Hfi. pose proof (len_nonneg fi).
      destruct fi; [|rewrite len_cons in Hfi; pose proof (len_nonneg fi); lia].
      replace ((b ++ S ++ [z]) ++ 46 :: rev (frac_rdigits (Z.to_nat dec) m)) with ((b ++ S) ++ z :: 46 :: rev (frac_rdigits (Z.to_nat dec) m)) by (rewrite <- !app_assoc; reflexivity).
      replace (len (b ++ S ++ [z]) - 1) with (len (b ++ S)) by (rewrite !len_app, len_cons; change (len (@nil Z)) with 0; lia).
      rewrite store_app_mid. rewrite <- !app_assoc. reflexivity.
    + assert (HM : 0 < m / 10 ^ dec < 10 ^ Z.of_nat 20).
      { assert (0 <= m / 10 ^ dec) by (apply Z.div_pos; lia).
        assert (m / 10 ^ dec <= m) by (apply Z.div_le_upper_bound; [lia|nia]). lia. }
      unfold I in *. rewrite (udecimal_fuel _ 20 HM) in *. rewrite len_rev in Hfi.
      replace ((b ++ S ++ fi) ++ 46 :: rev (frac_rdigits (Z.to_nat dec) m))
        with ((b ++ S) ++ fi ++ 46 :: rev (frac_rdigits (Z.to_nat dec) m)) by (rewrite <- !app_assoc; reflexivity).
      replace (len (b ++ S ++ fi) - 1) with (len (b ++ S) + len fi - 1) by (rewrite !len_app; lia).
      rewrite put_digits_spec by lia. cbn [rbind fst]. rewrite <- !app_assoc. reflexivity.
  - assert (HFv : F = []) by (unfold F; rewrite ?Ed; reflexivity).
    assert (dec = 0) by lia. subst dec. rewrite HF in Hff. rewrite HFv in *.
    destruct ff; [|rewrite len_cons in Hff; pose proof (len_nonneg ff); lia].
    assert (HIv : I = rev (rdigits 20 m)) by (unfold I; rewrite Z.pow_0_r, Z.div_1_r; apply udecimal_fuel; exact Hm).
    rewrite HIv in *. rewrite len_rev in Hfi.
    change (len (@nil Z)) with 0.
    replace (b ++ S ++ fi ++ []) with ((b ++ S) ++ fi ++ []) by (rewrite <- !app_assoc; reflexivity).
    replace (len b + (len S + (len (rev (rdigits 20 m)) + 0)) - 1) with (len (b ++ S) + len fi - 1) by (rewrite len_app, len_rev; lia).
    cbn [rbind fst snd]. replace (m =? 0) with false by lia.
    rewrite put_digits_spec by lia. cbn [rbind fst]. rewrite <- !app_assoc. reflexivity.
Qed.

(* ---- the trailing-zero loop ------------------------------------------------------------------------------- *)

Lemma ad_strip_spec k : forall num dec, 0 <= dec <= Z.of_nat k -> num <> 0 ->
  let r := ad_strip k num dec in
  0 <= snd r <= dec /\ num = fst r * 10 ^ (dec - snd r) /\ fst r <> 0 /\
  (snd r = 0 \/ Z.rem (fst r) 10 <> 0).
Proof.
  induction k as [|k IH]; intros num dec Hdec Hnz; cbn zeta.
  - cbn [ad_strip fst snd]. replace (dec - dec) with 0 by lia. rewrite Z.pow_0_r. lia.
  - cbn [ad_strip]. destruct ((0 <? dec) && (Z.rem num 10 =? 0)) eqn:E.
    + assert (Hq : num = 10 * Z.quot num 10) by (pose proof (Z.quot_rem' num 10); lia).
      destruct (IH (Z.quot num 10) (dec - 1) ltac:(lia) ltac:(lia)) as (H1 & H2 & H3 & H4).
      split; [lia|]. split.
      * rewrite Hq at 1. rewrite H2 at 1.
        replace (dec - snd (ad_strip k (Z.quot num 10) (dec - 1))) with (Z.succ (dec - 1 - snd (ad_strip k (Z.quot num 10) (dec - 1)))) by lia.
        rewrite Z.pow_succ_r by lia. ring.
      * split; assumption.
    + cbn [fst snd]. replace (dec - dec) with 0 by lia. rewrite Z.pow_0_r. lia.
Qed.

(* ---- the shape and the value of the literal ---------------------------------------------------------------- *)

Lemma frac_rdigits_all k : forall m, 0 <= m -> all_digits (rev (frac_rdigits k m)).
Proof.
  induction k as [|k IH]; intros m Hm; [constructor|].
  cbn [frac_rdigits rev]. apply Forall_app. split; [apply IH; apply Z.div_pos; lia|].
  constructor; [|constructor]. apply is_digit_range. pose proof (Z.mod_pos_bound m 10 ltac:(lia)). lia.
Qed.

Lemma frac_rdigits_value k : forall m a, 0 <= m ->
  dec_value_from a (rev (frac_rdigits k m)) = a * 10 ^ Z.of_nat k + m mod 10 ^ Z.of_nat k.
Proof.
  induction k as [|k IH]; intros m a Hm.
  - cbn. rewrite Z.mod_1_r. lia.
  - cbn [frac_rdigits rev]. rewrite dec_value_from_app, IH by (apply Z.div_pos; lia).
    cbn [dec_value_from fold_left]. unfold digit_step.
    rewrite Nat2Z.inj_succ, Z.pow_succ_r by lia.
    assert (Hp : 0 < 10 ^ Z.of_nat k) by (apply Z.pow_pos_nonneg; lia).
    rewrite (Z.rem_mul_r m 10 (10 ^ Z.of_nat k)) by lia. ring.
Qed.

(* out is the canonical literal of num / 10^dec0: sign, integer digits without leading zeros,
   and, only if needed, a dot followed by at most dec0 digits of which the last is not '0' *)
Definition dec_literal (out : list Z) (num dec0 : Z) : Prop :=
  (num = 0 /\ out = [48]) \/
  (num <> 0 /\ exists ip fp,
     out = (if num <? 0 then [45] else []) ++ ip ++ (match fp with [] => [] | _ => 46 :: fp end) /\
     all_digits ip /\ (ip = [48] \/ exists c t, ip = c :: t /\ c <> 48) /\
     all_digits fp /\ (fp = [] \/ last fp 0 <> 48) /\ len fp <= dec0 /\
     dec_value (ip ++ fp) * 10 ^ (dec0 - len fp) = Z.abs num).

Lemma abs_mod10 num : Z.abs num mod 10 = Z.abs (Z.rem num 10).
Proof.
  rewrite <- Z.rem_mod_nonneg by lia. change 10 with (Z.abs 10) at 1. apply Z.rem_abs. lia.
Qed.

Lemma dec_text_literal num dec dec0 num0 :
  num <> 0 -> 0 <= dec <= dec0 -> num0 = num * 10 ^ (dec0 - dec) -> (dec = 0 \/ Z.rem num 10 <> 0) ->
  dec_literal (dec_text num dec) num0 dec0.
Proof.
  intros Hnz Hdec Hnum0 Hlast. right.
  assert (Hp : 0 < 10 ^ (dec0 - dec)) by (apply Z.pow_pos_nonneg; lia).
  split; [nia|].
  set (m := Z.abs num). assert (Hm : 0 < m) by (unfold m; lia).
  assert (Hpd : 0 < 10 ^ dec) by (apply Z.pow_pos_nonneg; lia).
  assert (Hip : 0 <= m / 10 ^ dec) by (apply Z.div_pos; lia).
  exists (udecimal (m / 10 ^ dec)), (if 0 <? dec then rev (frac_rdigits (Z.to_nat dec) m) else []).
  destruct (udecimal_sound (m / 10 ^ dec) Hip) as (Ha & Hv & Hc).
  assert (Hsign : (num0 <? 0) = (num <? 0)) by nia.
  assert (Hlen : len (rev (frac_rdigits (Z.to_nat dec) m)) = dec) by (rewrite len_rev, len_frac_rdigits; lia).
  split.
  { unfold dec_text. fold m. rewrite Hsign. f_equal. f_equal.
    destruct (0 <? dec) eqn:Ed; [|reflexivity].
    destruct (rev (frac_rdigits (Z.to_nat dec) m)) eqn:Er; [|reflexivity].
    exfalso. change (len (@nil Z)) with 0 in Hlen. lia. }
  split; [exact Ha|]. split.
  { destruct Hc as [[_ H]|H]; [left; exact H|right; exact H]. }
  destruct (0 <? dec) eqn:Ed.
  - split; [apply frac_rdigits_all; lia|]. split.
    { right. destruct (Z.to_nat dec) as [|k] eqn:Ek; [lia|]. cbn [frac_rdigits rev].
      rewrite last_last. destruct Hlast as [H|H]; [lia|].
      unfold m. rewrite abs_mod10. lia. }
    rewrite Hlen. split; [lia|].
    unfold dec_value. rewrite dec_value_from_app. fold (dec_value (udecimal (m / 10 ^ dec))). rewrite Hv.
    rewrite frac_rdigits_value by lia. rewrite Z2Nat.id by lia.
    rewrite Hnum0, Z.abs_mul. fold m. rewrite (Z.abs_eq (10 ^ (dec0 - dec))) by lia.
    f_equal. pose proof (Z.div_mod m (10 ^ dec) ltac:(lia)). lia.
  - assert (dec = 0) by lia. subst dec. split; [constructor|]. split; [left; reflexivity|].
    change (len (@nil Z)) with 0. split; [lia|]. rewrite app_nil_r, Hv. rewrite Z.pow_0_r, Z.div_1_r.
    rewrite Hnum0, Z.abs_mul. fold m. rewrite (Z.abs_eq (10 ^ (dec0 - 0))) by lia. reflexivity.
Qed.

(* ---- AppendDecimal ------------------------------------------------------------------------------------------ *)

Definition f_finite (f : f64) : bool := negb (f_is_nan f || f_is_inf f).

(* the precision AppendDecimal uses *)
Definition ad_dec (dec : Z) : Z := if (dec <? 0) || (17 <? dec) then 17 else dec.

(* num := int64(f*10^dec +- 0.5) *)
Definition ad_scaled (f : f64) (dec0 : Z) : Z :=
  let g := fmul f (pow10 dec0) in
  f_to_i64 (if fle fzero g then fadd g fhalf else fsub g fhalf).

Lemma f_to_i64_range f : min_i64 <= f_to_i64 f <= max_i64.
Proof.
  unfold f_to_i64, min_i64, max_i64. destruct f as [s|s| |s m e]; try lia.
  match goal with |- _ <= (if ?c then _ else _) <= _ => destruct c eqn:E end; unfold min_i64, max_i64 in *; lia.
Qed.

(* ---- the standard-library branch ( |f|*10^dec >= 9e18 ) ---------------------------------------------------- *)

Lemma z_rdigits_eq f : forall n, z_rdigits f n = rdigits f n.
Proof. induction f as [|f IH]; intros n; cbn [z_rdigits rdigits]; [reflexivity|]. rewrite IH. reflexivity. Qed.

Lemma z_decimal_eq n : z_decimal n = udecimal n.
Proof. unfold z_decimal, udecimal. rewrite z_rdigits_eq. reflexivity. Qed.

Lemma z_frac_rdigits_eq k : forall m, z_frac_rdigits k m = frac_rdigits k m.
Proof. induction k as [|k IH]; intros m; cbn [z_frac_rdigits frac_rdigits]; [reflexivity|]. rewrite IH. reflexivity. Qed.

(* the signed integer the standard library prints: +-( |f| * 10^dec rounded half-even ) *)
Definition std_num (f : f64) (dec0 : Z) : Z :=
  if f_signbit f then - f_scaled_half_even f dec0 else f_scaled_half_even f dec0.

Lemma f_scaled_nonneg f dec0 : 0 <= dec0 -> 0 <= f_scaled_half_even f dec0.
Proof.
  intros Hd. unfold f_scaled_half_even. destruct f as [s|s| |s m e]; try lia.
  assert (0 < 10 ^ dec0) by (apply Z.pow_pos_nonneg; lia).
  destruct (0 <=? e) eqn:E.
  - assert (0 < 2 ^ e) by (apply Z.pow_pos_nonneg; lia). nia.
  - assert (Hd2 : 0 < 2 ^ (- e)) by (apply Z.pow_pos_nonneg; lia).
    unfold div_half_even. cbv zeta.
    assert (0 <= Z.pos m * 10 ^ dec0 / 2 ^ (- e)) by (apply Z.div_pos; nia).
    repeat match goal with |- context [if ?c then _ else _] => destruct c end; lia.
Qed.

Lemma std_format_text f dec0 : 0 <= dec0 -> f_scaled_half_even f dec0 <> 0 ->
  std_format_f f dec0 = dec_text (std_num f dec0) dec0.
Proof.
  intros Hd Hq. pose proof (f_scaled_nonneg f dec0 Hd) as H0.
  unfold std_format_f, dec_text, std_num. cbv zeta.
  rewrite z_decimal_eq, z_frac_rdigits_eq.
  destruct (f_signbit f).
  - replace (- f_scaled_half_even f dec0 <? 0) with true by lia.
    replace (Z.abs (- f_scaled_half_even f dec0)) with (f_scaled_half_even f dec0) by lia. reflexivity.
  - replace (f_scaled_half_even f dec0 <? 0) with false by lia.
    replace (Z.abs (f_scaled_half_even f dec0)) with (f_scaled_half_even f dec0) by lia. reflexivity.
Qed.

(* trimming the text is the trailing-zero loop on the number *)
Lemma ad_trim_snoc0 l : ad_trim (l ++ [48]) = ad_trim l.
Proof. unfold ad_trim. rewrite rev_app_distr. reflexivity. Qed.

Lemma quot10_abs N : N <> 0 -> Z.rem N 10 = 0 ->
  Z.quot N 10 <> 0 /\ Z.abs (Z.quot N 10) = Z.abs N / 10 /\ (Z.quot N 10 <? 0) = (N <? 0) /\ Z.abs N mod 10 = 0.
Proof.
  intros Hnz Hr. pose proof (Z.quot_rem' N 10) as E. rewrite Hr in E.
  assert (Hq : N = 10 * Z.quot N 10) by lia.
  split; [lia|]. split; [|split; [lia|]].
  - rewrite Hq at 2. rewrite Z.abs_mul. change (Z.abs 10) with 10. rewrite Z.mul_comm, Z.div_mul by lia. reflexivity.
  - rewrite Hq, Z.abs_mul. change (Z.abs 10) with 10. rewrite Z.mul_comm. apply Z.mod_mul. lia.
Qed.

Lemma dec_text_succ N k : 0 <= k ->
  dec_text N (k + 1) =
  ((if N <? 0 then [45] else []) ++ udecimal (Z.abs N / 10 / 10 ^ k) ++ 46 :: rev (frac_rdigits (Z.to_nat k) (Z.abs N / 10)))
  ++ [48 + Z.abs N mod 10].
Proof.
  intros Hk. unfold dec_text. cbv zeta. replace (0 <? k + 1) with true by lia.
  replace (Z.to_nat (k + 1)) with (S (Z.to_nat k)) by lia. cbn [frac_rdigits rev].
  rewrite Z.pow_add_r, Z.pow_1_r by lia. rewrite (Z.mul_comm (10 ^ k) 10).
  rewrite <- Z.div_div by (try lia; apply Z.pow_pos_nonneg; lia).
  rewrite <- !app_assoc. cbn [app]. reflexivity.
Qed.

Lemma ad_trim_last l d : d <> 48 -> d <> 46 -> ad_trim (l ++ [d]) = Ok (l ++ [d]).
Proof.
  intros H1 H2. unfold ad_trim. rewrite rev_app_distr. cbn [rev app ad_drop_zeros].
  replace (d =? 48) with false by lia. cbn [rbind]. replace (d =? 46) with false by lia.
  cbn [rev]. rewrite rev_involutive. reflexivity.
Qed.

Lemma ad_trim_dot l : ad_trim (l ++ [46]) = Ok l.
Proof.
  unfold ad_trim. rewrite rev_app_distr. cbn [rev app ad_drop_zeros].
  change (46 =? 48) with false. cbn [rbind]. change (46 =? 46) with true. cbv iota.
  rewrite rev_involutive. reflexivity.
Qed.

Lemma ad_trim_dec_text k : forall N pre, N <> 0 ->
  let nd := ad_strip (S k) N (Z.of_nat (S k)) in
  ad_trim (pre ++ dec_text N (Z.of_nat (S k))) = Ok (pre ++ dec_text (fst nd) (snd nd)).
Proof.
  induction k as [|k IH]; intros N pre Hnz; cbv zeta.
  - (* one decimal *)
    change (Z.of_nat 1) with (0 + 1). cbn [ad_strip]. change (0 <? 0 + 1) with true. cbn [andb].
    destruct (Z.rem N 10 =? 0) eqn:Er.
    + destruct (quot10_abs N Hnz ltac:(lia)) as (Hq0 & Hqa & Hqs & Hm).
      rewrite dec_text_succ by lia. cbn [Z.to_nat frac_rdigits rev]. rewrite Z.pow_0_r, Z.div_1_r.
      rewrite Hm, Z.add_0_r. rewrite app_assoc. rewrite ad_trim_snoc0.
      cbn [fst snd]. change (0 + 1 - 1) with 0.
      replace (pre ++ (if N <? 0 then [45] else []) ++ udecimal (Z.abs N / 10) ++ [46])
        with ((pre ++ (if N <? 0 then [45] else []) ++ udecimal (Z.abs N / 10)) ++ [46]) by (rewrite <- !app_assoc; reflexivity).
      rewrite ad_trim_dot. f_equal. f_equal.
      unfold dec_text. cbv zeta. change (0 <? 0) with false.
      rewrite Hqs, Hqa. rewrite Z.pow_0_r, Z.div_1_r, app_nil_r. reflexivity.
    + cbn [fst snd]. assert (Hm : Z.abs N mod 10 <> 0) by (rewrite abs_mod10; lia).
      pose proof (Z.mod_pos_bound (Z.abs N) 10 ltac:(lia)) as Hb.
      rewrite dec_text_succ by lia. rewrite app_assoc. apply ad_trim_last; lia.
  - (* S (S k) decimals *)
    replace (Z.of_nat (S (S k))) with (Z.of_nat (S k) + 1) by lia.
    change (ad_strip (S (S k)) N (Z.of_nat (S k) + 1))
      with (if (0 <? Z.of_nat (S k) + 1) && (Z.rem N 10 =? 0) then ad_strip (S k) (Z.quot N 10) (Z.of_nat (S k) + 1 - 1) else (N, Z.of_nat (S k) + 1)).
    replace (0 <? Z.of_nat (S k) + 1) with true by lia. cbn [andb].
    destruct (Z.rem N 10 =? 0) eqn:Er.
    + destruct (quot10_abs N Hnz ltac:(lia)) as (Hq0 & Hqa & Hqs & Hm).
      rewrite dec_text_succ by lia.
      rewrite Hm, Z.add_0_r. rewrite app_assoc. rewrite ad_trim_snoc0.
      replace (Z.of_nat (S k) + 1 - 1) with (Z.of_nat (S k)) by lia.
      rewrite <- (IH (Z.quot N 10) pre Hq0). f_equal. f_equal.
      unfold dec_text. cbv zeta. replace (0 <? Z.of_nat (S k)) with true by lia.
      rewrite Hqs, Hqa. reflexivity.
    + cbn [fst snd]. assert (Hm : Z.abs N mod 10 <> 0) by (rewrite abs_mod10; lia).
      pose proof (Z.mod_pos_bound (Z.abs N) 10 ltac:(lia)) as Hb.
      rewrite dec_text_succ by lia. rewrite app_assoc. apply ad_trim_last; lia.
Qed.

(* ---- AppendDecimal, both branches ------------------------------------------------------------------------------ *)

(* does the scaled value leave the int64 range (the test  9.0e18 <= |f| * 10^dec  of the code) *)
Definition ad_big (f : f64) (dec0 : Z) : bool := fle f9e18 (fmul (SFabs f) (pow10 dec0)).

(* the integer AppendDecimal prints with dec0 decimals *)
Definition ad_num (f : f64) (dec0 : Z) : Z := if ad_big f dec0 then std_num f dec0 else ad_scaled f dec0.

(* the two side conditions that FloatProofs' real-number argument discharges for every float64 *)
Definition ad_side (f : f64) (dec0 : Z) : Prop :=
  if ad_big f dec0 then f_scaled_half_even f dec0 <> 0 else ad_scaled f dec0 <> min_i64.

Lemma append_decimal_shape_core : forall b spare f dec,
  (f_finite f = false -> append_decimal b spare f dec = Ok b) /\
  (f_finite f = true -> ad_side f (ad_dec dec) ->
   exists out, append_decimal b spare f dec = Ok (b ++ out) /\
               dec_literal out (ad_num f (ad_dec dec)) (ad_dec dec)).
Proof.
  intros b spare f dec. unfold f_finite, append_decimal. split.
  - intros H. destruct (f_is_nan f || f_is_inf f); [reflexivity|discriminate].
  - intros H Hside. destruct (f_is_nan f || f_is_inf f); [discriminate|].
    fold (ad_dec dec). cbv zeta. fold (ad_big f (ad_dec dec)). fold (ad_scaled f (ad_dec dec)).
    unfold ad_num, ad_side in *.
    set (dec0 := ad_dec dec) in *.
    assert (Hd0 : 0 <= dec0 <= 17) by (unfold dec0, ad_dec; destruct ((dec <? 0) || (17 <? dec)) eqn:E; lia).
    destruct (ad_big f dec0).
    + (* standard library *)
      rewrite (std_format_text f dec0 ltac:(lia) Hside).
      pose proof (f_scaled_nonneg f dec0 ltac:(lia)) as Hq0.
      assert (HN : std_num f dec0 <> 0) by (unfold std_num; destruct (f_signbit f); lia).
      set (N := std_num f dec0) in *. clearbody N dec0.
      destruct (0 <? dec0) eqn:Ed.
      * replace dec0 with (Z.of_nat (S (Z.to_nat (dec0 - 1)))) by lia.
        rewrite ad_trim_dec_text by exact HN.
        destruct (ad_strip_spec (S (Z.to_nat (dec0 - 1))) N (Z.of_nat (S (Z.to_nat (dec0 - 1)))) ltac:(lia) HN) as (H1 & H2 & H3 & H4).
        set (nd := ad_strip (S (Z.to_nat (dec0 - 1))) N (Z.of_nat (S (Z.to_nat (dec0 - 1))))) in *.
        exists (dec_text (fst nd) (snd nd)). split; [reflexivity|].
        apply dec_text_literal; [exact H3|lia|exact H2|exact H4].
      * assert (dec0 = 0) by lia. subst dec0. exists (dec_text N 0). split; [reflexivity|].
        apply dec_text_literal; [exact HN|lia|rewrite Z.pow_0_r; lia|left; reflexivity].
    + set (num := ad_scaled f dec0) in *.
      assert (Hr : min_i64 <= num <= max_i64) by (apply f_to_i64_range).
      clearbody num dec0.
      destruct (num =? 0) eqn:E0.
      * exists [48]. split; [reflexivity|]. left. split; [lia|reflexivity].
      * destruct (ad_strip_spec (Z.to_nat dec0) num dec0 ltac:(lia) ltac:(lia)) as (H1 & H2 & H3 & H4).
        set (nd := ad_strip (Z.to_nat dec0) num dec0) in *.
        assert (Hp : 0 < 10 ^ (dec0 - snd nd)) by (apply Z.pow_pos_nonneg; lia).
        exists (dec_text (fst nd) (snd nd)). split.
        -- apply ad_print_spec; [|exact H3|lia]. unfold min_i64, max_i64 in *. nia.
        -- apply dec_text_literal; [exact H3|lia|exact H2|exact H4].
Qed.

(* half-even rounding on Z: the printed integer q is within half a unit of n/d, ties go to the even q *)
Lemma div_half_even_spec n d : 0 <= n -> 0 < d ->
  let q := div_half_even n d in
  2 * Z.abs (q * d - n) <= d /\ (2 * Z.abs (q * d - n) = d -> Z.even q = true).
Proof.
  intros Hn Hd. unfold div_half_even. cbv zeta.
  pose proof (Z.div_mod n d ltac:(lia)) as E. pose proof (Z.mod_pos_bound n d Hd) as B.
  destruct (2 * (n mod d) <? d) eqn:E1; [split; [nia|intros; nia]|].
  destruct (d <? 2 * (n mod d)) eqn:E2; [split; [nia|intros; nia]|].
  destruct (Z.even (n / d)) eqn:E3; [split; [nia|intros; exact E3]|].
  split; [nia|]. intros _. rewrite Z.even_add, E3. reflexivity.
Qed.

(* the value the standard-library branch prints, in exact integer arithmetic: |f| = m * 2^e *)
Lemma std_value_proof : forall s m e dec0, 0 <= dec0 ->
  let q := f_scaled_half_even (S754_finite s m e) dec0 in
  let num := if 0 <=? e then Z.pos m * 2 ^ e * 10 ^ dec0 else Z.pos m * 10 ^ dec0 in
  let den := if 0 <=? e then 1 else 2 ^ (- e) in
  2 * Z.abs (q * den - num) <= den /\ (2 * Z.abs (q * den - num) = den -> Z.even q = true).
Proof.
  intros s m e dec0 Hd. cbv zeta. unfold f_scaled_half_even. destruct (0 <=? e) eqn:E.
  - split; [lia|intros; lia].
  - apply div_half_even_spec; [|apply Z.pow_pos_nonneg; lia].
    assert (0 < 10 ^ dec0) by (apply Z.pow_pos_nonneg; lia). nia.
Qed.

Example append_decimal_ex :
  append_decimal [] [] (f_of_bits 13814953986545581818) 6 = Ok [45; 48; 46; 48; 57; 54].   (* -0.096 *)
Proof. vm_compute. reflexivity. Qed.
Example append_decimal_ex_hyp :
  f_finite (f_of_bits 13814953986545581818) = true /\ ad_big (f_of_bits 13814953986545581818) (ad_dec 6) = false /\
  ad_scaled (f_of_bits 13814953986545581818) (ad_dec 6) = -96000.
Proof. vm_compute. repeat split; reflexivity. Qed.
(* 123.456 with dec = -1 (17 decimals): the standard-library branch, "123.45600000000000307" *)
Example append_decimal_ex_big :
  ad_big (f_of_bits 4638387860618067575) (ad_dec (-1)) = true /\
  append_decimal [] [] (f_of_bits 4638387860618067575) (-1) =
    Ok [49; 50; 51; 46; 52; 53; 54; 48; 48; 48; 48; 48; 48; 48; 48; 48; 48; 48; 51; 48; 55].
Proof. vm_compute. split; reflexivity. Qed.

(* ---- AppendFloat: the clauses that do not depend on the digit layout ------------------------------------ *)

Definition af_clamp (prec : Z) : Z := if (prec <? 0) || (17 <? prec) then 17 else prec.

Lemma append_float_trivial_proof : forall b spare f prec,
  (f_finite f = false -> append_float b spare f prec = Ok b) /\
  (forall s, f = S754_zero s -> append_float b spare f prec = Ok (b ++ [48])).
Proof.
  intros b spare f prec. split.
  - unfold f_finite, append_float. intros H. destruct (f_is_nan f || f_is_inf f); [reflexivity|discriminate].
  - intros s ->. unfold append_float. cbn [f_is_nan f_is_inf orb].
    assert (Hm : forall z, af_mant (S754_zero z) prec = 0).
    { intros z. unfold af_mant, af_prec. fold (af_clamp prec).
      assert (Hp : 0 <= af_clamp prec <= 17) by (unfold af_clamp; destruct ((prec <? 0) || (17 <? prec)) eqn:E; lia).
      remember (af_clamp prec) as k eqn:Ek. clear Ek.
      assert (Hin : In k (zrange 0 17)) by (apply zrange_in; exact Hp).
      destruct z; vm_compute in Hin;
        repeat (destruct Hin as [<-|Hin]; [vm_compute; reflexivity|]); destruct Hin. }
    destruct s; cbn [flt SFltb SFcompare fzero fneg SFopp negb]; rewrite Hm; reflexivity.
Qed.
