(* Strconv/DecSideProofs.v — the two side conditions of AppendDecimal's shape theorem hold for every float64:
   below the threshold 9e18 the conversion int64(f*10^dec +- 0.5) is in range, at or above it the value the
   standard library prints is not zero.  Real-number argument through Flocq. *)
From Coq Require Import ZArith Reals Lia Lra Floats.SpecFloat.
From Flocq Require Import Core.Core IEEE754.BinarySingleNaN.
From Flocq Require IEEE754.PrimFloat.
From Verif Require Import Common.Base Common.Tactics Strconv.Model Strconv.FModel Strconv.IntProofs Strconv.NumProofs
  Strconv.DecProofs Strconv.ScanProofs Strconv.FloatProofs Gen.Tables.
Open Scope Z_scope.
#[local] Existing Instance Flocq.IEEE754.PrimFloat.Hprec.
#[local] Existing Instance Flocq.IEEE754.PrimFloat.Hmax.

(* ---- more SpecFloat operations as Flocq operations ---------------------------------------------------------- *)

Lemma fadd_B (x y : bin64) : fadd (B2SF x) (B2SF y) = B2SF (Bplus mode_NE x y).
Proof.
  unfold fadd. destruct x as [sx|sx| |sx mx ex Bx]; destruct y as [sy|sy| |sy my ey By];
    try reflexivity; try (simpl; destruct (Bool.eqb _ _); reflexivity).
  apply PrimFloat.binary_normalize_equiv.
Qed.

Lemma fsub_B (x y : bin64) : fsub (B2SF x) (B2SF y) = B2SF (Bminus mode_NE x y).
Proof.
  unfold fsub. destruct x as [sx|sx| |sx mx ex Bx]; destruct y as [sy|sy| |sy my ey By];
    try reflexivity; try (simpl; destruct (Bool.eqb _ _); reflexivity).
  simpl. unfold Zminus. rewrite <- cond_Zopp_negb. apply PrimFloat.binary_normalize_equiv.
Qed.

Lemma fabs_B (x : bin64) : SFabs (B2SF x) = B2SF (Babs x).
Proof. destruct x; reflexivity. Qed.

Lemma signbit_B (x : bin64) : f_signbit (B2SF x) = Bsign x.
Proof. destruct x; reflexivity. Qed.

(* math.Pow10(k) for 0 <= k <= 17 is the exact power of ten *)
Lemma pow10_small k : 0 <= k <= 17 -> pow10 k = f_of_Z (10 ^ k).
Proof.
  intros H. assert (Hin : In k (zrange 0 17)) by (apply zrange_in; lia).
  vm_compute in Hin. repeat (destruct Hin as [<-|Hin]; [vm_compute; reflexivity|]). destruct Hin.
Qed.

Lemma pow10_sign k : 0 <= k <= 17 -> Bsign (BofZ (10 ^ k)) = false.
Proof.
  intros H. rewrite <- signbit_B, <- f_of_Z_B.
  assert (Hin : In k (zrange 0 17)) by (apply zrange_in; lia).
  vm_compute in Hin. repeat (destruct Hin as [<-|Hin]; [vm_compute; reflexivity|]). destruct Hin.
Qed.

Definition B9e18 : bin64 := BofZ 9000000000000000000.
Lemma B9e18_R : B2R B9e18 = 9000000000000000000%R /\ is_finite B9e18 = true.
Proof.
  replace 9000000000000000000 with (34332275390625 * 2 ^ 18) by reflexivity.
  unfold B9e18. replace 9000000000000000000 with (34332275390625 * 2 ^ 18) at 1 2 by reflexivity.
  apply BofZ_exact; [vm_compute; reflexivity|lia].
Qed.

Definition Bhalf : bin64 := @SF2B 53 1024 fhalf eq_refl.
Lemma Bhalf_R : B2SF Bhalf = fhalf /\ B2R Bhalf = (/ 2)%R /\ is_finite Bhalf = true.
Proof.
  split; [reflexivity|]. split; [|reflexivity].
  unfold Bhalf, fhalf. cbn [SF2B B2R]. unfold F2R. cbn [Fnum Fexp cond_Zopp]. 
  change (bpow radix2 (-53)) with (/ IZR (Z.pow_pos 2 53))%R. 
  replace (Z.pow_pos 2 53) with (2 * 4503599627370496) by reflexivity. rewrite mult_IZR. field.
Qed.

Lemma round64_le x y : (x <= y)%R -> (round64 x <= round64 y)%R.
Proof. apply round_le; typeclasses eauto. Qed.

Lemma round64_IZR_small n : Z.abs n < 2 ^ 53 -> round64 (IZR n) = IZR n.
Proof.
  intros H. apply round_generic; [typeclasses eauto|].
  apply generic_format_FLT. apply (FLT_spec radix2 (3 - 1024 - 53) 53 _ (Float radix2 n 0)).
  - unfold F2R. simpl. lra.
  - simpl. exact H.
  - simpl. lia.
Qed.

(* ---- the threshold test ------------------------------------------------------------------------------------------ *)

Definition scaled_abs (F : bin64) (k : Z) : R := (Rabs (B2R F) * IZR (10 ^ k))%R.

Lemma scaled_abs_nonneg F k : 0 <= k -> (0 <= scaled_abs F k)%R.
Proof. intros H. unfold scaled_abs. apply Rmult_le_pos; [apply Rabs_pos|apply Rlt_le, IZR_pow10_pos; lia]. Qed.

Lemma round64_nonneg x : (0 <= x)%R -> (0 <= round64 x)%R.
Proof.
  intros H. apply round_ge_generic; try typeclasses eauto; [apply generic_format_0|exact H].
Qed.

Lemma big_cases (F : bin64) k : is_finite F = true -> 0 <= k <= 17 ->
  ((round64 (scaled_abs F k) < bpow radix2 1024)%R /\
   ad_big (B2SF F) k = match Rcompare 9000000000000000000%R (round64 (scaled_abs F k)) with Gt => false | _ => true end) \/
  (~ (round64 (scaled_abs F k) < bpow radix2 1024)%R /\ ad_big (B2SF F) k = true).
Proof.
  intros HF Hk. unfold ad_big. rewrite fabs_B, (pow10_small k Hk), (f_of_Z_B (10 ^ k)), fmul_B.
  destruct (pow10_exact k ltac:(lia)) as [HPR HPF]. set (P := BofZ (10 ^ k)) in *.
  pose proof (Bmult_correct 53 1024 HPrec HMax mode_NE (Babs F) P) as HM.
  change (round_mode mode_NE) with ZnearestE in HM. rewrite B2R_Babs, HPR in HM.
  fold (scaled_abs F k) in HM. fold (round64 (scaled_abs F k)) in HM.
  pose proof (round64_nonneg _ (scaled_abs_nonneg F k ltac:(lia))) as Hr0.
  rewrite (Rabs_pos_eq _ Hr0) in HM.
  destruct (Rlt_bool_spec (round64 (scaled_abs F k)) (bpow radix2 1024)) as [Hlt|Hge].
  - left. split; [exact Hlt|]. destruct HM as (HM1 & HM2 & _).
    destruct B9e18_R as [H9R H9F]. unfold f9e18. rewrite (f_of_Z_B 9000000000000000000). fold B9e18.
    rewrite fle_B; [|exact H9F|rewrite HM2, is_finite_Babs, HF, HPF; reflexivity].
    rewrite H9R, HM1. reflexivity.
  - right. split; [lra|]. rewrite HM. assert (HPs : Bsign P = false) by (apply pow10_sign; exact Hk).
    rewrite Bsign_Babs, HPs. reflexivity.
Qed.

Lemma big_true_ge1 (F : bin64) k : is_finite F = true -> 0 <= k <= 17 ->
  ad_big (B2SF F) k = true -> (1 <= scaled_abs F k)%R.
Proof.
  intros HF Hk Hbig. destruct (Rle_or_lt 1 (scaled_abs F k)) as [H|H]; [exact H|exfalso].
  assert (Hr1 : (round64 (scaled_abs F k) <= 1)%R).
  { rewrite <- (round64_IZR_small 1) by (vm_compute; reflexivity). apply round64_le. lra. }
  assert (Hb : (1 < bpow radix2 1024)%R) by (change 1%R with (bpow radix2 0); apply bpow_lt; lia).
  destruct (big_cases F k HF Hk) as [[_ Hc]|[Hc _]]; [|lra].
  rewrite Hbig in Hc. rewrite Rcompare_Gt in Hc by lra. discriminate.
Qed.

Lemma big_false_lt (F : bin64) k : is_finite F = true -> 0 <= k <= 17 ->
  ad_big (B2SF F) k = false -> (round64 (scaled_abs F k) < 9000000000000000000)%R.
Proof.
  intros HF Hk Hbig. destruct (big_cases F k HF Hk) as [[_ Hc]|[_ Hc]]; [|congruence].
  rewrite Hbig in Hc. destruct (Rcompare_spec 9000000000000000000%R (round64 (scaled_abs F k))); try discriminate. lra.
Qed.

(* ---- at or above the threshold the printed integer is not zero ----------------------------------------------- *)

Lemma side_big (F : bin64) k : is_finite F = true -> 0 <= k <= 17 ->
  ad_big (B2SF F) k = true -> f_scaled_half_even (B2SF F) k <> 0.
Proof.
  intros HF Hk Hbig. pose proof (big_true_ge1 F k HF Hk Hbig) as H1. unfold scaled_abs in H1.
  assert (Hp : 0 < 10 ^ k) by (apply Z.pow_pos_nonneg; lia).
  destruct F as [s|s| |s m e Hb]; try discriminate.
  - cbn [B2R] in H1. rewrite Rabs_R0, Rmult_0_l in H1. lra.
  - cbn [B2SF f_scaled_half_even]. destruct (0 <=? e) eqn:E.
    + assert (0 < 2 ^ e) by (apply Z.pow_pos_nonneg; lia). nia.
    + assert (Hd : 0 < 2 ^ (- e)) by (apply Z.pow_pos_nonneg; lia).
      cbn [B2R] in H1. rewrite <- F2R_Zabs, abs_cond_Zopp in H1. unfold F2R in H1. cbn [Fnum Fexp Z.abs] in H1.
      assert (Hge : 2 ^ (- e) <= Z.pos m * 10 ^ k).
      { apply le_IZR. rewrite mult_IZR. replace (IZR (2 ^ (- e))) with (bpow radix2 (- e)) by (rewrite <- IZR_Zpower by lia; reflexivity).
        apply Rmult_le_reg_r with (bpow radix2 e); [apply bpow_gt_0|].
        rewrite <- bpow_plus. replace (- e + e) with 0 by lia. change (bpow radix2 0) with 1%R. lra. }
      unfold div_half_even. cbv zeta.
      assert (1 <= Z.pos m * 10 ^ k / 2 ^ (- e)) by (apply Z.div_le_lower_bound; lia).
      repeat match goal with |- context [if ?c then _ else _] => destruct c end; lia.
Qed.

(* ---- below the threshold int64(f*10^dec +- 0.5) is in range ----------------------------------------------------- *)

Lemma f_to_i64_in_range (H : bin64) : is_finite H = true -> (Rabs (B2R H) < IZR (2 ^ 63))%R ->
  f_to_i64 (B2SF H) <> min_i64.
Proof.
  intros HF HR. destruct H as [s|s| |s m e Hb]; try discriminate.
  cbn [B2SF f_to_i64]. cbn [B2R] in HR. rewrite <- F2R_Zabs, abs_cond_Zopp in HR. unfold F2R in HR. cbn [Fnum Fexp Z.abs] in HR.
  assert (Ha : (if 0 <=? e then Z.pos m * 2 ^ e else Z.pos m / 2 ^ (- e)) < 2 ^ 63 /\ 0 <= (if 0 <=? e then Z.pos m * 2 ^ e else Z.pos m / 2 ^ (- e))).
  { destruct (0 <=? e) eqn:E.
    - split; [|assert (0 < 2 ^ e) by (apply Z.pow_pos_nonneg; lia); nia].
      apply lt_IZR. rewrite mult_IZR. replace (IZR (2 ^ e)) with (bpow radix2 e) by (rewrite <- IZR_Zpower by lia; reflexivity). exact HR.
    - assert (Hd : 0 < 2 ^ (- e)) by (apply Z.pow_pos_nonneg; lia).
      split; [|apply Z.div_pos; lia]. apply Z.div_lt_upper_bound; [lia|].
      apply lt_IZR. rewrite mult_IZR. replace (IZR (2 ^ (- e))) with (bpow radix2 (- e)) by (rewrite <- IZR_Zpower by lia; reflexivity).
      apply Rmult_lt_reg_r with (bpow radix2 e); [apply bpow_gt_0|].
      replace (bpow radix2 (- e) * IZR (2 ^ 63) * bpow radix2 e)%R with (IZR (2 ^ 63) * (bpow radix2 (- e) * bpow radix2 e))%R by ring.
      rewrite <- bpow_plus. replace (- e + e) with 0 by lia. change (bpow radix2 0) with 1%R. lra. }
  set (a := if 0 <=? e then Z.pos m * 2 ^ e else Z.pos m / 2 ^ (- e)) in *.
  change (2 ^ 63) with 9223372036854775808 in Ha. unfold min_i64, max_i64.
  destruct s.
  - replace ((-9223372036854775808 <=? - a) && (- a <=? 9223372036854775807)) with true by lia. lia.
  - replace ((-9223372036854775808 <=? a) && (a <=? 9223372036854775807)) with true by lia. lia.
Qed.

Lemma round64_bound z : (Rabs z <= 9000000000000000001)%R -> (Rabs (round64 z) <= IZR (2 ^ 63 - 1024))%R.
Proof.
  intros H. apply abs_round_le_generic; try typeclasses eauto.
  - apply generic_format_FLT. apply (FLT_spec radix2 (3 - 1024 - 53) 53 _ (Float radix2 (2 ^ 53 - 1) 10)).
    + unfold F2R. cbn [Fnum Fexp]. change (bpow radix2 10) with (IZR 1024). rewrite <- mult_IZR. reflexivity.
    + cbn [Fnum]. vm_compute. reflexivity.
    + cbn [Fexp]. lia.
  - change (2 ^ 63 - 1024) with 9223372036854774784. lra.
Qed.

Lemma bpow63_lt : (IZR (2 ^ 63) < bpow radix2 1024)%R.
Proof. replace (IZR (2 ^ 63)) with (bpow radix2 63) by (rewrite <- IZR_Zpower by lia; reflexivity). apply bpow_lt. lia. Qed.

Lemma side_small (F : bin64) k : is_finite F = true -> 0 <= k <= 17 ->
  ad_big (B2SF F) k = false -> ad_scaled (B2SF F) k <> min_i64.
Proof.
  intros HF Hk Hbig. pose proof (big_false_lt F k HF Hk Hbig) as Hlt.
  unfold ad_scaled. cbv zeta. rewrite (pow10_small k Hk), (f_of_Z_B (10 ^ k)), fmul_B.
  destruct (pow10_exact k ltac:(lia)) as [HPR HPF]. set (P := BofZ (10 ^ k)) in *.
  pose proof (IZR_pow10_pos k ltac:(lia)) as Hpos.
  pose proof (Bmult_correct 53 1024 HPrec HMax mode_NE F P) as HM.
  change (round_mode mode_NE) with ZnearestE in HM. rewrite HPR in HM. fold (round64 (B2R F * IZR (10 ^ k))) in HM.
  assert (Habs : Rabs (round64 (B2R F * IZR (10 ^ k))) = round64 (scaled_abs F k)).
  { unfold round64, scaled_abs. rewrite <- round_NE_abs by typeclasses eauto. f_equal.
    rewrite Rabs_mult. rewrite (Rabs_pos_eq (IZR (10 ^ k))) by lra. reflexivity. }
  pose proof bpow63_lt as H63.
  rewrite Habs in HM. rewrite Rlt_bool_true in HM by (change (2 ^ 63) with 9223372036854775808 in H63; lra).
  destruct HM as (HG1 & HG2 & _). rewrite HF, HPF in HG2. cbn [andb] in HG2.
  set (G := Bmult mode_NE F P) in *.
  assert (HGabs : (Rabs (B2R G) < 9000000000000000000)%R) by (rewrite HG1, Habs; exact Hlt).
  destruct Bhalf_R as (HhSF & HhR & HhF). rewrite <- HhSF.
  assert (Hfin : forall H : bin64, is_finite H = true -> (Rabs (B2R H) <= IZR (2 ^ 63 - 1024))%R -> f_to_i64 (B2SF H) <> min_i64).
  { intros H HHF HHR. apply f_to_i64_in_range; [exact HHF|].
    change (2 ^ 63 - 1024) with 9223372036854774784 in HHR. change (2 ^ 63) with 9223372036854775808. lra. }
  destruct (fle fzero (B2SF G)).
  - rewrite fadd_B.
    pose proof (Bplus_correct 53 1024 HPrec HMax mode_NE G Bhalf HG2 HhF) as HA.
    change (round_mode mode_NE) with ZnearestE in HA. rewrite HhR in HA. fold (round64 (B2R G + / 2)) in HA.
    assert (Hb : (Rabs (round64 (B2R G + / 2)) <= IZR (2 ^ 63 - 1024))%R).
    { apply round64_bound. apply Rabs_le. apply Rabs_lt_inv in HGabs. lra. }
    rewrite Rlt_bool_true in HA.
    + destruct HA as (HA1 & HA2 & _). apply Hfin; [exact HA2|]. rewrite HA1. exact Hb.
    + change (2 ^ 63 - 1024) with 9223372036854774784 in Hb. change (2 ^ 63) with 9223372036854775808 in H63. lra.
  - rewrite fsub_B.
    pose proof (Bminus_correct 53 1024 HPrec HMax mode_NE G Bhalf HG2 HhF) as HA.
    change (round_mode mode_NE) with ZnearestE in HA. rewrite HhR in HA. fold (round64 (B2R G - / 2)) in HA.
    assert (Hb : (Rabs (round64 (B2R G - / 2)) <= IZR (2 ^ 63 - 1024))%R).
    { apply round64_bound. apply Rabs_le. apply Rabs_lt_inv in HGabs. lra. }
    rewrite Rlt_bool_true in HA.
    + destruct HA as (HA1 & HA2 & _). apply Hfin; [exact HA2|]. rewrite HA1. exact Hb.
    + change (2 ^ 63 - 1024) with 9223372036854774784 in Hb. change (2 ^ 63) with 9223372036854775808 in H63. lra.
Qed.

(* ---- AppendDecimal for every float64 ------------------------------------------------------------------------------ *)

Lemma ad_side_holds f dec0 : valid_binary 53 1024 f = true -> f_finite f = true -> 0 <= dec0 <= 17 -> ad_side f dec0.
Proof.
  intros Hv Hfin Hd. rewrite <- (B2SF_SF2B 53 1024 f Hv) in *. set (F := @SF2B 53 1024 f Hv) in *.
  assert (HF : is_finite F = true).
  { unfold f_finite in Hfin. destruct F; try discriminate; reflexivity. }
  unfold ad_side. destruct (ad_big (B2SF F) dec0) eqn:E.
  - apply side_big; assumption.
  - apply side_small; assumption.
Qed.

Lemma append_decimal_shape_proof : forall b spare f dec, valid_binary 53 1024 f = true ->
  (f_finite f = false -> append_decimal b spare f dec = Ok b) /\
  (f_finite f = true ->
   exists out, append_decimal b spare f dec = Ok (b ++ out) /\
               dec_literal out (ad_num f (ad_dec dec)) (ad_dec dec)).
Proof.
  intros b spare f dec Hv. destruct (append_decimal_shape_core b spare f dec) as [H1 H2]. split; [exact H1|].
  intros Hfin. apply H2; [exact Hfin|]. apply ad_side_holds; [exact Hv|exact Hfin|].
  unfold ad_dec. destruct ((dec <? 0) || (17 <? dec)) eqn:E; lia.
Qed.

(* every bit pattern is a valid float64 of the model *)
Lemma f_of_bits_valid x : 0 <= x < two64 -> valid_binary 53 1024 (f_of_bits x) = true.
Proof.
  intros Hx. unfold f_of_bits. cbv zeta.
  set (e := (x / p52) mod 2048). set (m := x mod p52).
  assert (He : 0 <= e < 2048) by (apply Z.mod_pos_bound; lia).
  assert (Hm : 0 <= m < p52) by (apply Z.mod_pos_bound; unfold p52; lia).
  destruct (e =? 2047) eqn:E1; [destruct (m =? 0); reflexivity|].
  destruct (e =? 0) eqn:E0.
  - destruct m as [|p|p] eqn:Em; try reflexivity.
    unfold valid_binary, bounded, canonical_mantissa, fexp, emin. unfold p52 in Hm.
    assert (Hdig : Z.pos (digits2_pos p) <= 52).
    { rewrite Digits.Zpos_digits2_pos. apply Digits.Zdigits_le_Zpower. simpl. lia. }
    apply andb_true_intro. split; [apply Zeq_bool_true|apply Zle_bool_true]; lia.
  - destruct (m + p52) as [|p|p] eqn:Em; try reflexivity.
    unfold valid_binary, bounded, canonical_mantissa, fexp, emin. unfold p52 in *.
    assert (Hdig : Z.pos (digits2_pos p) = 53).
    { rewrite Digits.Zpos_digits2_pos. apply Digits.Zdigits_unique. simpl. lia. }
    apply andb_true_intro. split; [apply Zeq_bool_true|apply Zle_bool_true]; apply Z.eqb_neq in E1; apply Z.eqb_neq in E0; lia.
Qed.
