(* Strconv/AFShape.v — AppendFloat: for every float64 whose scaled mantissa fits int64 the output is the preserved
   destination followed by a well-formed literal with the sign of the argument ("0" when the mantissa is 0). *)
From Coq Require Import ZifyBool Floats.SpecFloat.
From Verif Require Import Common.Base Common.Tactics Strconv.Model Strconv.FModel Strconv.IntProofs Strconv.NumProofs
  Strconv.DecProofs Strconv.AFProofs Strconv.AFLitProofs Strconv.AFCheck1 Strconv.AFCheck2 Strconv.AFCheck3 Strconv.AFCheck4 Gen.Tables.

Lemma af_check_ok neg L z prec : 1 <= L <= 19 -> 0 <= z <= L - 1 -> -350 <= prec <= 350 ->
  af_check_one neg L z prec = true.
Proof.
  intros HL Hz Hp.
  assert (Hr : forall lo hi, af_check_range lo hi = true -> lo <= L <= hi -> af_check_one neg L z prec = true).
  { intros lo hi Hc HLr. unfold af_check_range in Hc.
    pose proof (zrange_forall _ lo hi Hc L HLr) as H1. cbv beta in H1.
    pose proof (zrange_forall _ 0 (L - 1) H1 z Hz) as H2. cbv beta in H2.
    pose proof (zrange_forall _ (-350) 350 H2 prec Hp) as H3. cbv beta in H3.
    apply andb_true_iff in H3. destruct neg; tauto. }
  destruct (Z.le_gt_cases L 9); [apply (Hr 1 9 af_check_1_9); lia|].
  destruct (Z.le_gt_cases L 13); [apply (Hr 10 13 af_check_10_13); lia|].
  destruct (Z.le_gt_cases L 16); [apply (Hr 14 16 af_check_14_16); lia|].
  apply (Hr 17 19 af_check_17_19); lia.
Qed.

(* the layout and what it denotes, for every mantissa of the int64 range and every adjusted precision AppendFloat can
   reach: a well-formed literal, signed as asked, whose unsigned part reads (q * 10^bb, t0 - prec - bb) with
   mant = q * 10^t0, that is mant * 10^-prec *)
Lemma af_print_value_proof : forall b spare neg mant prec, 1 <= mant < 10 ^ 19 -> -350 <= prec <= 350 ->
  exists out, af_print b spare neg mant prec = Ok (b ++ out) /\ float_literal neg out /\ lit_neg out = neg /\
    exists q t0 bb, 0 <= t0 /\ 0 <= bb /\ mant = q * 10 ^ t0 /\ lit_mant_exp (lit_body out) = (q * 10 ^ bb, t0 - prec - bb).
Proof.
  intros b spare neg mant prec Hm Hp.
  destruct (shape_exists mant Hm) as (L & z & HL & Hsh).
  pose proof Hsh as (Hn & Hz & _ & _).
  pose proof (af_check_ok neg L z prec HL ltac:(lia) Hp) as Hc. unfold af_check_one in Hc.
  rewrite (canon_mant_repunit L z ltac:(lia)) in Hc.
  set (m0 := repunit (Z.to_nat (L - z)) * 10 ^ z) in *.
  destruct (af_print_g tag_enc [] markers neg m0 prec) as [out0| |] eqn:E0; try discriminate.
  apply andb_true_iff in Hc. destruct Hc as [Hnm Htag].
  unfold tag_check in Htag. cbv zeta in Htag. apply andb_true_iff in Htag. destruct Htag as [Heq Hside].
  apply zlist_eqb_eq in Heq.
  pose proof (tag_form_sound neg L z prec mant _ _ _ _ _ _ Hside Hsh) as Hsound. cbv zeta in Hsound. rewrite <- Heq in Hsound.
  pose proof (canon_ndig L z Hz) as Hn0. fold m0 in Hn0.
  destruct (ndig_len_uint L mant HL Hn) as [_ Hl]. destruct (ndig_len_uint L m0 HL Hn0) as [_ Hl0].
  assert (Hm0 : m0 <> 0).
  { destruct Hn0 as [[H _]|[_ H]]; [lia|]. assert (0 < 10 ^ (L - 1)) by (apply Z.pow_pos_nonneg; lia). lia. }
  pose proof (af_print_rel mant b spare neg m0 prec out0 ltac:(congruence) ltac:(lia) Hm0 (sim_canon 20 L z mant Hsh) E0 Hnm) as Hout.
  exists (map (subst mant) out0). split; [exact Hout|exact Hsound].
Qed.

Lemma af_print_shape_proof : forall b spare neg mant prec, 1 <= mant < 10 ^ 19 -> -350 <= prec <= 350 ->
  exists out, af_print b spare neg mant prec = Ok (b ++ out) /\ float_literal neg out.
Proof.
  intros b spare neg mant prec Hm Hp. destruct (af_print_value_proof b spare neg mant prec Hm Hp) as (out & H1 & H2 & _).
  exists out. split; assumption.
Qed.

(* ---- the adjusted precision stays within the verified window --------------------------------------------------- *)

Definition fexp10 (exp2 : Z) : Z :=
  let exp10 := fmul (f_of_Z exp2) flog2 in
  let exp10 := if flt exp10 fzero then fsub exp10 fone else exp10 in
  f_to_i64 exp10.

Lemma fexp10_range_check : forallb (fun x => (-330 <=? fexp10 x) && (fexp10 x <=? 330)) (zrange (-1022) 1025) = true.
Proof. vm_cast_no_check (eq_refl true). Qed.

Lemma float64exp_range f : valid_binary 53 1024 f = true -> -330 <= float64exp f <= 330.
Proof.
  intros Hv. unfold float64exp. fold (fexp10 (if feq f fzero then 0 else f_expfield f - 1023 + 1)).
  assert (Hx : -1022 <= (if feq f fzero then 0 else f_expfield f - 1023 + 1) <= 1025).
  { destruct (feq f fzero); [lia|]. unfold f_expfield. destruct f as [s|s| |s m e]; try lia.
    destruct (Z.pos m <? p52); [lia|].
    unfold valid_binary, bounded, canonical_mantissa, SpecFloat.fexp, emin in Hv. apply andb_true_iff in Hv. destruct Hv as [Hc He].
    apply Zeq_bool_eq in Hc. apply Zle_bool_imp_le in He. lia. }
  pose proof (zrange_forall _ (-1022) 1025 fexp10_range_check _ Hx) as H. cbv beta in H. lia.
Qed.

Lemma af_prec_range f prec : valid_binary 53 1024 f = true -> -350 <= af_prec f prec <= 350.
Proof.
  intros Hv. unfold af_prec. cbv zeta. pose proof (float64exp_range f Hv) as H.
  destruct ((prec <? 0) || (17 <? prec)) eqn:E; destruct (flt f (pow10 (float64exp f))); lia.
Qed.

Lemma valid_fneg f : valid_binary 53 1024 f = true -> valid_binary 53 1024 (fneg f) = true.
Proof. destruct f; exact (fun H => H). Qed.

(* ---- AppendFloat --------------------------------------------------------------------------------------------------------- *)

Lemma append_float_shape_proof : forall b spare f prec, valid_binary 53 1024 f = true ->
  (f_finite f = false -> append_float b spare f prec = Ok b) /\
  (f_finite f = true ->
   let neg := flt f fzero in
   let g := if neg then fneg f else f in
   0 <= af_mant g prec ->
   exists out, append_float b spare f prec = Ok (b ++ out) /\
               (af_mant g prec = 0 -> out = [48]) /\
               (0 < af_mant g prec -> float_literal neg out)).
Proof.
  intros b spare f prec Hv. unfold f_finite, append_float. split.
  - intros H. destruct (f_is_nan f || f_is_inf f); [reflexivity|discriminate].
  - intros H. destruct (f_is_nan f || f_is_inf f); [discriminate|]. cbv zeta.
    set (neg := flt f fzero). set (g := if neg then fneg f else f).
    assert (Hvg : valid_binary 53 1024 g = true) by (unfold g; destruct neg; [apply valid_fneg|]; exact Hv).
    intros Hm0. pose proof (af_prec_range g prec Hvg) as Hp.
    assert (Hmax : af_mant g prec <= max_i64) by (unfold af_mant; apply f_to_i64_range).
    destruct (Z.eq_dec (af_mant g prec) 0) as [E|E].
    + rewrite E. exists [48]. split; [reflexivity|]. split; [reflexivity|lia].
    + destruct (af_print_shape_proof b spare neg (af_mant g prec) (af_prec g prec)) as (out & Hout & Hlit);
        [unfold max_i64 in Hmax; change (10 ^ 19) with 10000000000000000000; lia|exact Hp|].
      exists out. split; [exact Hout|]. split; [lia|intros _; exact Hlit].
Qed.

(* the hypotheses are satisfiable: AppendFloat(nil, -123.456, 2) = "-123" *)
Example append_float_shape_ex :
  let f := f_of_bits 13861759897472843383 in
  valid_binary 53 1024 f = true /\ f_finite f = true /\ flt f fzero = true /\ af_mant (fneg f) 2 = 123 /\
  append_float [] [] f 2 = Ok [45; 49; 50; 51].
Proof. vm_compute. repeat split; reflexivity. Qed.
