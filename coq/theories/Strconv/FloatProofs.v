(* Strconv/FloatProofs.v — the exact fast path of ParseFloat (float.go, "copied from strconv/atof.go"):
   for a mantissa below 2^53 and a decimal exponent in [-22, 22] the result is the correctly rounded
   value (one rounding).  Uses Flocq (BinarySingleNaN) for the meaning of SFmul / SFdiv over the reals;
   this file is the only one that depends on the axioms of the Coq Reals library. *)
From Coq Require Import ZArith Reals Lia Lra Floats.SpecFloat.
From Flocq Require Import Core.Core IEEE754.BinarySingleNaN.
From Flocq Require IEEE754.PrimFloat.
From Verif Require Import Common.Base Common.Tactics Strconv.Model Strconv.FModel Strconv.ScanProofs Gen.Tables.
Open Scope Z_scope.

Notation HPrec := Flocq.IEEE754.PrimFloat.Hprec.
Notation HMax := Flocq.IEEE754.PrimFloat.Hmax.
Notation bin64 := (binary_float 53 1024).
#[local] Existing Instance Flocq.IEEE754.PrimFloat.Hprec.
#[local] Existing Instance Flocq.IEEE754.PrimFloat.Hmax.

(* rounding to nearest even in binary64 *)
Definition round64 (x : R) : R := round radix2 (fexp 53 1024) ZnearestE x.

(* ---- SpecFloat operations are Flocq's ---------------------------------------------------------------------- *)

Lemma fmul_B (x y : bin64) : fmul (B2SF x) (B2SF y) = B2SF (Bmult mode_NE x y).
Proof.
  unfold fmul. destruct x as [sx|sx| |sx mx ex Bx]; destruct y as [sy|sy| |sy my ey By]; try reflexivity.
  simpl. rewrite B2SF_SF2B. apply PrimFloat.binary_round_aux_equiv.
Qed.

Lemma fdiv_B (x y : bin64) : fdiv (B2SF x) (B2SF y) = B2SF (Bdiv mode_NE x y).
Proof.
  unfold fdiv. destruct x as [sx|sx| |sx mx ex Bx]; destruct y as [sy|sy| |sy my ey By]; try reflexivity.
  simpl. rewrite B2SF_SF2B.
  set (melz := SFdiv_core_binary _ _ _ _ _ _). destruct melz as [[mz ez] lz].
  apply PrimFloat.binary_round_aux_equiv.
Qed.

Lemma fneg_B (x : bin64) : fneg (B2SF x) = B2SF (Bopp x).
Proof. destruct x; reflexivity. Qed.

Definition BofZ (n : Z) : bin64 := binary_normalize 53 1024 HPrec HMax mode_NE n 0 false.

Lemma f_of_Z_B n : f_of_Z n = B2SF (BofZ n).
Proof. apply PrimFloat.binary_normalize_equiv. Qed.

(* ---- integers m * 2^s with |m| < 2^53 are represented exactly ------------------------------------------- *)

Lemma bpow_1024_gt x : (Rabs x <= bpow radix2 200)%R -> (Rabs (round64 x) < bpow radix2 1024)%R.
Proof.
  intros H. apply Rle_lt_trans with (bpow radix2 200).
  - apply abs_round_le_generic; try typeclasses eauto; [|exact H].
    apply generic_format_bpow. unfold fexp, emin. lia.
  - apply bpow_lt. lia.
Qed.

Lemma BofZ_exact m s : Z.abs m < 2 ^ 53 -> 0 <= s <= 140 ->
  B2R (BofZ (m * 2 ^ s)) = IZR (m * 2 ^ s) /\ is_finite (BofZ (m * 2 ^ s)) = true.
Proof.
  intros Hm Hs.
  pose proof (binary_normalize_correct 53 1024 HPrec HMax mode_NE (m * 2 ^ s) 0 false) as H. cbv zeta in H.
  fold (BofZ (m * 2 ^ s)) in H.
  assert (HF : F2R (Float radix2 (m * 2 ^ s) 0) = IZR (m * 2 ^ s)).
  { unfold F2R. simpl. lra. }
  rewrite HF in H.
  assert (Hfmt : generic_format radix2 (fexp 53 1024) (IZR (m * 2 ^ s))).
  { apply generic_format_FLT. apply (FLT_spec radix2 (3 - 1024 - 53) 53 _ (Float radix2 m s)).
    - unfold F2R. simpl. rewrite mult_IZR. rewrite <- IZR_Zpower by lia. reflexivity.
    - simpl. exact Hm.
    - simpl. lia. }
  change (round_mode mode_NE) with ZnearestE in H.
  rewrite (round_generic radix2 (fexp 53 1024) ZnearestE _ Hfmt) in H.
  rewrite Rlt_bool_true in H.
  - destruct H as (H1 & H2 & _). split; assumption.
  - rewrite <- (round_generic radix2 (fexp 53 1024) ZnearestE _ Hfmt). apply bpow_1024_gt.
    rewrite <- abs_IZR. rewrite <- IZR_Zpower by lia. apply IZR_le.
    rewrite Z.abs_mul. rewrite (Z.abs_eq (2 ^ s)) by (apply Z.pow_nonneg; lia).
    change (radix_val radix2) with 2.
    replace 200 with (53 + 147) by lia. rewrite Z.pow_add_r by lia.
    assert (2 ^ s <= 2 ^ 147) by (apply Z.pow_le_mono_r; lia).
    assert (0 < 2 ^ s) by (apply Z.pow_pos_nonneg; lia). nia.
Qed.

Lemma BofZ_small n : Z.abs n < 2 ^ 53 -> B2R (BofZ n) = IZR n /\ is_finite (BofZ n) = true.
Proof.
  intros H. pose proof (BofZ_exact n 0 H ltac:(lia)) as E. rewrite Z.pow_0_r, Z.mul_1_r in E. exact E.
Qed.

(* ---- the table float64pow10 holds the exact powers of ten ------------------------------------------------ *)

Lemma f64pow10_exact k : 0 <= k <= 22 -> f64pow10 k = Ok (f_of_Z (10 ^ k)).
Proof.
  intros H. assert (Hin : In k (zrange 0 22)) by (apply zrange_in; lia).
  vm_compute in Hin. repeat (destruct Hin as [<-|Hin]; [vm_compute; reflexivity|]). destruct Hin.
Qed.

Lemma pow10_exact k : 0 <= k <= 22 ->
  B2R (BofZ (10 ^ k)) = IZR (10 ^ k) /\ is_finite (BofZ (10 ^ k)) = true.
Proof.
  intros H. replace (10 ^ k) with (5 ^ k * 2 ^ k) by (rewrite <- Z.pow_mul_l; reflexivity).
  apply BofZ_exact; [|lia]. rewrite Z.abs_eq by (apply Z.pow_nonneg; lia).
  assert (5 ^ k <= 5 ^ 22) by (apply Z.pow_le_mono_r; lia).
  assert (5 ^ 22 < 2 ^ 53) by (vm_compute; reflexivity). lia.
Qed.

(* ---- comparisons ------------------------------------------------------------------------------------------------ *)

Lemma fle_B (a b : bin64) : is_finite a = true -> is_finite b = true ->
  fle (B2SF a) (B2SF b) = match Rcompare (B2R a) (B2R b) with Gt => false | _ => true end.
Proof.
  intros Ha Hb. unfold fle, SFleb. change (SFcompare (B2SF a) (B2SF b)) with (Bcompare a b).
  rewrite (Bcompare_correct _ _ a b Ha Hb). destruct (Rcompare (B2R a) (B2R b)); reflexivity.
Qed.

Lemma feq_B (a b : bin64) : is_finite a = true -> is_finite b = true ->
  feq (B2SF a) (B2SF b) = match Rcompare (B2R a) (B2R b) with Eq => true | _ => false end.
Proof.
  intros Ha Hb. unfold feq, SFeqb. change (SFcompare (B2SF a) (B2SF b)) with (Bcompare a b).
  rewrite (Bcompare_correct _ _ a b Ha Hb). destruct (Rcompare (B2R a) (B2R b)); reflexivity.
Qed.

(* ---- the fast path ---------------------------------------------------------------------------------------------- *)

(* the real number  +-n * 10^e *)
Definition dec_real (neg : bool) (n e : Z) : R :=
  let a := if neg then (- IZR n)%R else IZR n in
  if 0 <=? e then (a * IZR (10 ^ e))%R else (a / IZR (10 ^ (- e)))%R.

Definition signedB (neg : bool) (n : Z) : bin64 := if neg then Bopp (BofZ n) else BofZ n.

Lemma signedB_SF neg n : B2SF (signedB neg n) = if neg then fneg (f_of_Z n) else f_of_Z n.
Proof. unfold signedB. destruct neg; [rewrite <- fneg_B|]; rewrite f_of_Z_B; reflexivity. Qed.

Lemma signedB_R neg n : Z.abs n < 2 ^ 53 ->
  B2R (signedB neg n) = (if neg then (- IZR n)%R else IZR n) /\ is_finite (signedB neg n) = true.
Proof.
  intros H. destruct (BofZ_small n H) as [H1 H2]. unfold signedB. destruct neg.
  - rewrite B2R_Bopp, is_finite_Bopp, H1. split; [reflexivity|exact H2].
  - split; assumption.
Qed.

Lemma i64_id x : - 2 ^ 63 <= x < 2 ^ 63 -> i64 x = x.
Proof.
  intros H. unfold i64, two63, two64. change (2 ^ 63) with 9223372036854775808 in H.
  rewrite Z.mod_small by lia. lia.
Qed.

Lemma IZR_pow10_pos k : 0 <= k -> (0 < IZR (10 ^ k))%R.
Proof. intros H. apply IZR_lt. apply Z.pow_pos_nonneg; lia. Qed.

Theorem pf_value_fastpath_proof : forall (neg : bool) (n me ee : Z),
  0 <= n < 2 ^ 53 -> -22 <= ee - me <= 22 -> (0 < ee - me -> n <= 10 ^ 15) ->
  exists v : bin64,
    pf_value (if neg then fneg (f_of_Z n) else f_of_Z n) me ee = Ok (B2SF v) /\
    is_finite v = true /\ B2R v = round64 (dec_real neg n (ee - me)).
Proof.
  intros neg n me ee Hn He H15.
  rewrite <- signedB_SF. set (X := signedB neg n).
  destruct (signedB_R neg n ltac:(lia)) as [HXR HXF]. fold X in HXR, HXF.
  set (a := if neg then (- IZR n)%R else IZR n) in *.
  assert (Habs : (Rabs a <= IZR n)%R).
  { unfold a. destruct neg; [rewrite Rabs_Ropp|]; rewrite Rabs_pos_eq; try lra; apply IZR_le; lia. }
  assert (Hn53 : (IZR n <= IZR (2 ^ 53))%R) by (apply IZR_le; lia).
  unfold pf_value. rewrite (i64_id (ee - me)) by lia. set (e := ee - me) in *.
  cbv zeta. destruct (e =? 0) eqn:E0.
  - (* exp == 0 *)
    exists X. split; [reflexivity|]. split; [exact HXF|].
    unfold dec_real. fold a. replace e with 0 by lia. cbn [Z.leb Z.compare]. change (10 ^ 0) with 1.
    rewrite Rmult_1_r. unfold round64. rewrite round_generic; [exact HXR|typeclasses eauto|].
    rewrite <- HXR. apply generic_format_B2R.
  - destruct ((0 <? e) && (e <=? 15 + 22)) eqn:E1.
    + (* int * 10^k *)
      replace (22 <? e) with false by lia. cbn [rbind fst snd].
      rewrite (f64pow10_exact e) by lia. cbn [rbind]. rewrite (f_of_Z_B (10 ^ e)).
      destruct (pow10_exact e ltac:(lia)) as [HPR HPF]. set (P := BofZ (10 ^ e)) in *.
      (* the range test -1e15 <= g <= 1e15 *)
      unfold f1e15. rewrite (f_of_Z_B 1000000000000000). rewrite fneg_B.
      destruct (BofZ_small 1000000000000000 ltac:(vm_compute; reflexivity)) as [H15R H15F].
      rewrite fle_B by (rewrite ?is_finite_Bopp; assumption).
      rewrite fle_B by assumption.
      rewrite B2R_Bopp, H15R, HXR.
      assert (Hn15 : (IZR n <= 1000000000000000)%R) by (apply IZR_le; change 1000000000000000 with (10 ^ 15); lia).
      assert (HC1 : Rcompare (-(1000000000000000))%R a <> Gt) by (apply Rcompare_not_Gt; apply Rabs_le_inv in Habs; lra).
      assert (HC2 : Rcompare a 1000000000000000%R <> Gt) by (apply Rcompare_not_Gt; apply Rabs_le_inv in Habs; lra).
      destruct (Rcompare (- (1000000000000000))%R a); try congruence;
        destruct (Rcompare a 1000000000000000%R); try congruence; cbn [andb];
        rewrite fmul_B; (exists (Bmult mode_NE X P)); (split; [reflexivity|]);
        pose proof (Bmult_correct 53 1024 HPrec HMax mode_NE X P) as HM;
        change (round_mode mode_NE) with ZnearestE in HM; fold (round64 (B2R X * B2R P)) in HM;
        (rewrite Rlt_bool_true in HM;
         [destruct HM as (HM1 & HM2 & _); split;
          [rewrite HM2, HXF, HPF; reflexivity
          |rewrite HM1, HXR, HPR; unfold dec_real; fold a; replace (0 <=? e) with true by lia; reflexivity]
         |apply bpow_1024_gt; rewrite HXR, HPR, Rabs_mult;
          rewrite (Rabs_pos_eq (IZR (10 ^ e))) by (apply Rlt_le, IZR_pow10_pos; lia);
          apply Rle_trans with (IZR (2 ^ 53) * IZR (10 ^ 22))%R;
          [apply Rmult_le_compat; [apply Rabs_pos|apply Rlt_le, IZR_pow10_pos; lia|lra|apply IZR_le, Z.pow_le_mono_r; lia]
          |rewrite <- mult_IZR; rewrite <- IZR_Zpower by lia; apply IZR_le; vm_compute; discriminate]]).
    + (* int / 10^k *)
      replace ((-22 <=? e) && (e <? 0)) with true by lia.
      rewrite (f64pow10_exact (- e)) by lia. cbn [rbind]. rewrite (f_of_Z_B (10 ^ (- e))).
      destruct (pow10_exact (- e) ltac:(lia)) as [HPR HPF]. set (P := BofZ (10 ^ (- e))) in *.
      rewrite fdiv_B. exists (Bdiv mode_NE X P). split; [reflexivity|].
      pose proof (IZR_pow10_pos (- e) ltac:(lia)) as Hpos.
      pose proof (Bdiv_correct 53 1024 HPrec HMax mode_NE X P ltac:(rewrite HPR; lra)) as HD.
      change (round_mode mode_NE) with ZnearestE in HD. fold (round64 (B2R X / B2R P)) in HD.
      rewrite Rlt_bool_true in HD.
      * destruct HD as (HD1 & HD2 & _). split; [rewrite HD2; exact HXF|].
        rewrite HD1, HXR, HPR. unfold dec_real. fold a. replace (0 <=? e) with false by lia. reflexivity.
      * apply bpow_1024_gt. rewrite HXR, HPR. unfold Rdiv. rewrite Rabs_mult.
        rewrite (Rabs_pos_eq (/ IZR (10 ^ (- e)))) by (apply Rlt_le, Rinv_0_lt_compat; exact Hpos).
        apply Rle_trans with (IZR (2 ^ 53) * 1)%R.
        -- apply Rmult_le_compat; [apply Rabs_pos|apply Rlt_le, Rinv_0_lt_compat; exact Hpos|lra|].
           rewrite <- Rinv_1. apply Rinv_le; [lra|]. apply (IZR_le 1). pose proof (Z.pow_pos_nonneg 10 (- e) ltac:(lia) ltac:(lia)). lia.
        -- rewrite Rmult_1_r. rewrite <- IZR_Zpower by lia. apply IZR_le. vm_compute. discriminate.
Qed.

(* ---- from the bytes to the fast path -------------------------------------------------------------------------- *)
From Coq Require Import ZifyBool.
From Verif Require Import Strconv.IntProofs.

Lemma pf_scan_digits ds : all_digits ds -> forall rest i n dot,
  0 <= n -> dec_value_from n ds <= max_u64 ->
  pf_scan (ds ++ rest) i n dot (-1) = pf_scan rest (i + len ds) (dec_value_from n ds) dot (-1).
Proof.
  intros Hd. induction Hd as [|c r Hc Hr IH]; intros rest i n dot Hn Hb.
  - cbn [app dec_value_from fold_left]. change (len (@nil Z)) with 0. rewrite Z.add_0_r. reflexivity.
  - cbn [app pf_scan]. rewrite Hc. change (-1 =? -1) with true. cbv iota.
    change (dec_value_from n (c :: r)) with (dec_value_from (digit_step n c) r) in *.
    rewrite (byte_digit c Hc). pose proof Hc as Hc'. apply is_digit_range in Hc'.
    assert (Hmono : digit_step n c <= dec_value_from (digit_step n c) r).
    { apply dec_value_from_ge; [unfold digit_step; lia|exact Hr]. }
    unfold digit_step, max_u64 in *.
    assert (H10 : 0 <= n * 10 < two64) by (unfold two64; lia).
    rewrite (u64_small (n * 10) H10).
    replace ((18446744073709551615 / 10 <? n) || (18446744073709551615 - (c - 48) <? n * 10)) with false.
    2:{ change (18446744073709551615 / 10) with 1844674407370955161. lia. }
    rewrite (u64_small (n * 10 + (c - 48))) by (unfold two64; lia).
    rewrite IH by lia. rewrite len_cons. f_equal. lia.
Qed.

(* what may follow the mantissa: not a digit, and not a '.' unless a dot was already read *)
Definition ends_mant (dot : bool) (tail : list Z) : Prop :=
  match tail with
  | c :: _ => is_digit c = false /\ (dot = false -> c <> 46)
  | [] => True
  end.

Lemma pf_scan_tail tail i n d : ends_mant (negb (d =? -1)) tail -> pf_scan tail i n d (-1) = (i, n, d, -1).
Proof.
  destruct tail as [|c t]; [reflexivity|]. intros [Hc Hdot]. cbn [pf_scan]. rewrite Hc.
  destruct (d =? -1) eqn:E; cbn [andb negb] in *; [|reflexivity].
  replace (c =? 46) with false by (specialize (Hdot eq_refl); lia). reflexivity.
Qed.

Lemma pf_exponent_fst tail i j : fst (pf_exponent tail i) = fst (pf_exponent tail j).
Proof.
  unfold pf_exponent. destruct tail as [|c t]; [reflexivity|].
  destruct ((c =? 101) || (c =? 69)); [|reflexivity]. cbv zeta.
  rewrite !pf_expdigits_snd.
  set (sgn := match t with s :: _ => (s =? 43) || (s =? 45) | [] => false end).
  set (ds := take_digits (if sgn then tl t else t)). pose proof (len_nonneg ds).
  rewrite (pf_expdigits_fst _ 0 (i + 1 + (if sgn then 1 else 0)) (j + 1 + (if sgn then 1 else 0))).
  destruct (len ds =? 0) eqn:E.
  - replace (i + 1 + (if sgn then 1 else 0) <? i + 1 + (if sgn then 1 else 0) + len ds) with false by lia.
    replace (j + 1 + (if sgn then 1 else 0) <? j + 1 + (if sgn then 1 else 0) + len ds) with false by lia. reflexivity.
  - replace (i + 1 + (if sgn then 1 else 0) <? i + 1 + (if sgn then 1 else 0) + len ds) with true by lia.
    replace (j + 1 + (if sgn then 1 else 0) <? j + 1 + (if sgn then 1 else 0) + len ds) with true by lia. reflexivity.
Qed.

(* ParseFloat on  sign digits [. digits] [exponent]: when the digits denote n < 2^53 and the decimal
   exponent e = E - (number of decimals) is in [-22, 22] (and n <= 10^15 if e > 0), the result is the
   correctly rounded value of +-n * 10^e. *)
Theorem parse_float_exact_fastpath_proof : forall sg ip fp (dot : bool) tail,
  sign_ok sg -> all_digits ip -> all_digits fp -> (dot = false -> fp = []) -> ip ++ fp <> [] ->
  ends_mant dot tail ->
  (sg = [] -> no_sign (ip ++ (if dot then 46 :: fp else []) ++ tail)) ->
  let n := dec_value (ip ++ fp) in
  let e := fst (pf_exponent tail 0) - len fp in
  n < 2 ^ 53 -> -22 <= e <= 22 -> (0 < e -> n <= 10 ^ 15) ->
  exists (v : bin64) k,
    parse_float (sg ++ ip ++ (if dot then 46 :: fp else []) ++ tail) = Ok (B2SF v, k) /\
    is_finite v = true /\ B2R v = round64 (dec_real (sign_neg sg) n e).
Proof.
  intros sg ip fp dot tail Hsg Hip Hfp Hdotfp Hne Hend Hns n e Hn53 He H15.
  set (l := ip ++ (if dot then 46 :: fp else []) ++ tail).
  set (start := len sg).
  assert (Hstart : 0 <= start) by apply len_nonneg.
  assert (Hall : all_digits (ip ++ fp)) by (apply Forall_app; split; assumption).
  assert (Hn0 : 0 <= n) by (apply dec_value_nonneg; exact Hall).
  assert (Hnv : n = dec_value_from (dec_value ip) fp) by (unfold n, dec_value; apply dec_value_from_app).
  assert (Hipv : 0 <= dec_value ip <= n).
  { split; [apply dec_value_nonneg; exact Hip|]. rewrite Hnv. apply dec_value_from_ge; [apply dec_value_nonneg; exact Hip|exact Hfp]. }
  assert (H253 : 2 ^ 53 < max_u64) by (vm_compute; reflexivity).
  (* the scan *)
  assert (Hscan : pf_scan l start 0 (-1) (-1) =
                  (start + len ip + (if dot then 1 + len fp else 0), n, (if dot then start + len ip else -1), -1)).
  { unfold l. rewrite pf_scan_digits by (try assumption; try lia; fold (dec_value ip); lia).
    fold (dec_value ip). destruct dot.
    - cbn [app pf_scan]. change (is_digit 46) with false. change ((-1 =? -1) && (46 =? 46)) with true. cbv iota.
      rewrite pf_scan_digits by (try assumption; lia). rewrite <- Hnv.
      rewrite pf_scan_tail.
      + f_equal. f_equal. f_equal. lia.
      + pose proof (len_nonneg ip). replace (start + len ip =? -1) with false by lia. exact Hend.
    - pose proof (Hdotfp eq_refl) as Hf. subst fp. cbn [app]. rewrite pf_scan_tail by exact Hend.
      cbn [dec_value_from fold_left] in Hnv. rewrite Hnv. change (len (@nil Z)) with 0. f_equal. f_equal. f_equal. lia. }
  (* the sign *)
  assert (Hb : (match sg ++ l with c :: _ => (c =? 43) || (c =? 45) | [] => false end = negb (len sg =? 0)) /\
               (match sg ++ l with c :: _ => c =? 45 | [] => false end = sign_neg sg) /\
               (if negb (len sg =? 0) then tl (sg ++ l) else sg ++ l) = l).
  { destruct Hsg as [->|[->| ->]].
    - specialize (Hns eq_refl). fold l in Hns. cbn [app]. change (len (@nil Z)) with 0. cbn [Z.eqb negb sign_neg].
      destruct l as [|c r]; [repeat split|]. cbn in Hns. unfold is_sign in Hns. repeat split; lia.
    - repeat split. - repeat split. }
  destruct Hb as (Hb1 & Hb2 & Hb3).
  unfold parse_float. fold l. rewrite Hb1, Hb2, Hb3.
  replace (if negb (len sg =? 0) then 1 else 0) with start.
  2:{ unfold start. destruct Hsg as [->|[->| ->]]; reflexivity. }
  rewrite Hscan. cbn [fst snd].
  pose proof (len_nonneg ip) as Hlip. pose proof (len_nonneg fp) as Hlfp.
  assert (Hdig : 0 < len ip + len fp).
  { clear -Hne Hlip Hlfp. destruct ip as [|a ip']; [destruct fp as [|a fp']; [exfalso; apply Hne; reflexivity|]|].
    - rewrite len_cons in *. pose proof (len_nonneg fp'). change (len (@nil Z)) with 0. lia.
    - rewrite len_cons in *. pose proof (len_nonneg ip'). lia. }
  assert (Hfp0 : dot = false -> len fp = 0) by (intros H; rewrite (Hdotfp H); reflexivity).
  replace ((start + len ip + (if dot then 1 + len fp else 0) =? start)
           || ((start + len ip + (if dot then 1 + len fp else 0) =? start + 1) && ((if dot then start + len ip else -1) =? start))) with false.
  2:{ destruct dot; [|specialize (Hfp0 eq_refl)]; lia. }
  (* the exponent and the value *)
  set (i := start + len ip + (if dot then 1 + len fp else 0)).
  set (ex := pf_exponent (skipz i (sg ++ l)) i).
  assert (Hex : fst ex = fst (pf_exponent tail 0)).
  { unfold ex. replace (skipz i (sg ++ l)) with tail; [apply pf_exponent_fst|].
    unfold l. replace (sg ++ ip ++ (if dot then 46 :: fp else []) ++ tail) with ((sg ++ ip ++ (if dot then 46 :: fp else [])) ++ tail) by (rewrite <- !app_assoc; reflexivity).
    replace i with (len (sg ++ ip ++ (if dot then 46 :: fp else []))).
    - symmetry. apply skipz_app_len'.
    - unfold i, start. rewrite !len_app. destruct dot; [rewrite len_cons|change (len (@nil Z)) with 0]; lia. }
  rewrite Hex.
  destruct (pf_value_fastpath_proof (sign_neg sg) n (len fp) (fst (pf_exponent tail 0)) ltac:(lia) He H15) as (v & Hv & Hfin & HR).
  match goal with |- context [pf_value _ ?me _] => replace me with (len fp) end.
  2:{ change (-1 =? -1) with true. cbv iota. unfold i. destruct dot; [|specialize (Hfp0 eq_refl); cbn; lia].
      replace (start + len ip =? -1) with false by lia. cbn [negb]. replace (start + len ip + (1 + len fp) <? start + len ip) with false by lia. lia. }
  rewrite Hv. cbn [rbind]. exists v, (snd ex). split; [reflexivity|]. split; assumption.
Qed.

(* the hypotheses are satisfiable: "-12.5e-3x" *)
Example fastpath_ex :
  let sg := [45] in let ip := [49; 50] in let fp := [53] in let tail := [101; 45; 51; 120] in
  sign_ok sg /\ all_digits ip /\ all_digits fp /\ ip ++ fp <> [] /\ ends_mant true tail /\
  dec_value (ip ++ fp) = 125 /\ fst (pf_exponent tail 0) - len fp = -4.
Proof.
  cbv zeta. split; [right; right; reflexivity|]. split; [repeat constructor|]. split; [repeat constructor|].
  split; [discriminate|]. split; [split; [reflexivity|discriminate]|]. split; vm_compute; reflexivity.
Qed.
