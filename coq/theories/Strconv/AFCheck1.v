(* Strconv/AFCheck1.v — AppendFloat layout: the canonical mantissas of 1..9 digits, every number of trailing
   zeros, every adjusted precision in [-350, 350], both signs, by computation. *)
From Verif Require Import Common.Base Strconv.Model Strconv.FModel Strconv.AFProofs.
Lemma af_check_1_9 : af_check_range 1 9 = true.
Proof. vm_cast_no_check (eq_refl true). Qed.
