(* Strconv/Model.v — executable model of strconv/int.go and strconv/number.go of tdewolff/parse.
   Definitions only.  Integers are Z; where the Go code computes in uint64 / int64 the wrap is
   explicit ([u64], [i64]); byte(...) conversions are [byte].  A Go panic is [Panic]; a loop
   that the model bounds by fuel returns the distinct [NoFuel] when the fuel runs out.
   Destination slices: [b] is the slice's contents (len b = len(b)), [spare] the contents of the
   backing array between len(b) and cap(b) (so cap(b) = len b + len spare). *)
From Verif Require Import Common.Base Cursor.Model.

Inductive res (A : Type) := Ok (a : A) | Panic | NoFuel.
Arguments Ok {A} a.
Arguments Panic {A}.
Arguments NoFuel {A}.

Definition rbind {A B} (r : res A) (f : A -> res B) : res B :=
  match r with Ok a => f a | Panic => Panic | NoFuel => NoFuel end.
Notation "x <-- e ;; k" := (rbind e (fun x => k)) (at level 61, e at next level, right associativity).

Definition two63 : Z := 9223372036854775808.
Definition two64 : Z := 18446744073709551616.
Definition max_i64 : Z := 9223372036854775807.
Definition min_i64 : Z := -9223372036854775808.
Definition max_u64 : Z := 18446744073709551615.

Definition u64 (x : Z) : Z := x mod two64.                         (* uint64 arithmetic wraps *)
Definition i64 (x : Z) : Z := (x + two63) mod two64 - two63.       (* int64 arithmetic wraps *)
Definition byte (x : Z) : Z := x mod 256.

Definition is_digit (c : Z) : bool := (48 <=? c) && (c <=? 57).

(* ---- int.go ------------------------------------------------------------------------------ *)

(* The digit loop of ParseInt (lim = uint64(-math.MinInt64)) and ParseUint (lim = MaxUint64):
     if lim/10 < n || lim-uint64(c-'0') < n*10 { return 0, 0 }     -> None
     n *= 10; n += uint64(c - '0')
   Some (n, i) when the loop ends at a non-digit or at the end. *)
Fixpoint acc_digits (lim : Z) (l : list Z) (n i : Z) : option (Z * Z) :=
  match l with
  | [] => Some (n, i)
  | c :: t =>
      if is_digit c then
        let d := byte (c - 48) in
        if (lim / 10 <? n) || (lim - d <? u64 (n * 10)) then None
        else acc_digits lim t (u64 (u64 (n * 10) + d)) (i + 1)
      else Some (n, i)
  end.

Definition parse_int (b : list Z) : Z * Z :=
  let sgn := match b with c :: _ => (c =? 43) || (c =? 45) | [] => false end in
  let neg := match b with c :: _ => c =? 45 | [] => false end in
  let start := if sgn then 1 else 0 in
  let rest := if sgn then tl b else b in
  match acc_digits two63 rest 0 start with
  | None => (0, 0)
  | Some (n, i) =>
      if i =? start then (0, 0)
      else if negb neg && (max_i64 <? n) then (0, 0)
      else if neg then (i64 (- i64 n), i)
      else (i64 n, i)
  end.

Definition parse_uint (b : list Z) : Z * Z :=
  match acc_digits max_u64 b 0 0 with
  | None => (0, 0)
  | Some (n, i) => (n, i)
  end.

Definition len_uint (i : Z) : Z :=
  if i <? 10 then 1
  else if i <? 100 then 2
  else if i <? 1000 then 3
  else if i <? 10000 then 4
  else if i <? 100000 then 5
  else if i <? 1000000 then 6
  else if i <? 10000000 then 7
  else if i <? 100000000 then 8
  else if i <? 1000000000 then 9
  else if i <? 10000000000 then 10
  else if i <? 100000000000 then 11
  else if i <? 1000000000000 then 12
  else if i <? 10000000000000 then 13
  else if i <? 100000000000000 then 14
  else if i <? 1000000000000000 then 15
  else if i <? 10000000000000000 then 16
  else if i <? 100000000000000000 then 17
  else if i <? 1000000000000000000 then 18
  else if i <? 10000000000000000000 then 19
  else 20.

Definition len_int (i : Z) : Z :=
  if i <? 0 then
    if i =? min_i64 then 20 else 1 + len_uint (u64 (- i))
  else len_uint (u64 i).

(* b[i] = v *)
Definition store (b : list Z) (i v : Z) : res (list Z) :=
  if (0 <=? i) && (i <? len b) then Ok (setz b i v) else Panic.

Fixpoint store_list (b : list Z) (i : Z) (vs : list Z) : res (list Z) :=
  match vs with
  | [] => Ok b
  | v :: t => b' <-- store b i v ;; store_list b' (i + 1) t
  end.

Definition zeros (n : Z) : list Z := repeat 0 (Z.to_nat n).

(* if cap(b) < len(b)+n { b = append(b, make([]byte, n)...) } else { b = b[:len(b)+n] } *)
Definition grow (b spare : list Z) (n : Z) : res (list Z) :=
  if len spare <? n then Ok (b ++ zeros n)
  else if 0 <=? n then Ok (b ++ firstz n spare)
  else if 0 <=? len b + n then Ok (firstz (len b + n) b)
  else Panic.

(* for num != 0 { b[i] = byte(num%10) + '0'; num /= 10; i-- }       (num >= 0 here) *)
Fixpoint put_digits (fuel : nat) (b : list Z) (i num : Z) : res (list Z * Z) :=
  if num =? 0 then Ok (b, i)
  else match fuel with
       | O => NoFuel
       | S f => b' <-- store b i (byte (byte (Z.rem num 10) + 48)) ;;
                put_digits f b' (i - 1) (Z.quot num 10)
       end.

Definition minint_str : list Z :=
  [45; 57; 50; 50; 51; 51; 55; 50; 48; 51; 54; 56; 53; 52; 55; 55; 53; 56; 48; 56].

Definition append_int (b spare : list Z) (num : Z) : res (list Z) :=
  if num =? 0 then Ok (b ++ [48])
  else if num =? min_i64 then Ok (b ++ minint_str)
  else
    let i := len b in
    let n := len_int num in
    b1 <-- grow b spare n ;;
    r <-- (if num <? 0 then b2 <-- store b1 i 45 ;; Ok (b2, i64 (- num)) else Ok (b1, num)) ;;
    let i := i + n - 1 in
    r2 <-- put_digits 20 (fst r) i (snd r) ;;
    Ok (fst r2).

(* ---- unicode/utf8 as used by number.go -------------------------------------------------------- *)

Definition rune_len (r : Z) : Z :=
  if r <? 0 then -1
  else if r <=? 127 then 1
  else if r <=? 2047 then 2
  else if (55296 <=? r) && (r <=? 57343) then -1
  else if r <=? 65535 then 3
  else if r <=? 1114111 then 4
  else -1.

(* utf8.EncodeRune: the bytes written (an invalid rune is written as U+FFFD) *)
Definition utf8_encode (r : Z) : list Z :=
  if rune_len r =? 1 then [r]
  else if rune_len r =? 2 then [192 + r / 64; 128 + r mod 64]
  else if rune_len r =? 3 then [224 + r / 4096; 128 + (r / 64) mod 64; 128 + r mod 64]
  else if rune_len r =? 4 then [240 + r / 262144; 128 + (r / 4096) mod 64; 128 + (r / 64) mod 64; 128 + r mod 64]
  else [239; 191; 189].

(* utf8.DecodeRune: (RuneError, 1) on an invalid or incomplete sequence, (RuneError, 0) on empty
   input; the valid sequences are exactly those of RFC 3629 (Cursor.Model.utf8_decode). *)
Definition go_decode_rune (l : list Z) : Z * Z :=
  match l with
  | [] => (65533, 0)
  | _ => match utf8_decode l with Some (r, k) => (r, k) | None => (65533, 1) end
  end.

(* ---- number.go ---------------------------------------------------------------------------- *)

(* the loop of ParseNumber over the suffix l = b[n:]; every iteration consumes at least one byte,
   so fuel = len b + 1 is never exhausted *)
Fixpoint pn_loop (fuel : nat) (l : list Z) (gs ds sign num dec n : Z) (hasdec : bool)
  : res (Z * Z * Z) :=
  match fuel with
  | O => NoFuel
  | S f =>
      match l with
      | [] => Ok (num, dec, n)
      | c :: t =>
          if is_digit c then
            let digit := i64 (sign * byte (c - 48)) in
            if (sign =? 1) && ((max_i64 / 10 <? num) || (max_i64 - digit <? i64 (num * 10)))
            then Ok (num, dec, n)
            else if (sign =? -1) && ((num <? Z.quot min_i64 10) || (i64 (num * 10) <? min_i64 - digit))
            then Ok (num, dec, n)
            else pn_loop f t gs ds sign (i64 (i64 (num * 10) + digit))
                         (if hasdec then dec + 1 else dec) (n + 1) hasdec
          else
            let rs := go_decode_rune l in
            if negb hasdec && ((fst rs =? gs) || (fst rs =? ds)) then
              pn_loop f (skipz (snd rs) l) gs ds sign num dec (n + snd rs)
                      (if fst rs =? ds then true else hasdec)
            else Ok (num, dec, n)
      end
  end.

Definition parse_number (b : list Z) (gs ds : Z) : res (Z * Z * Z) :=
  let neg := match b with c :: _ => c =? 45 | [] => false end in
  pn_loop (S (length b)) (if neg then tl b else b) gs ds (if neg then -1 else 1) 0 0
          (if neg then 1 else 0) false.

(* for 0 < dec { c := byte(sign*(num%10)) + '0'; num /= 10; b[i] = c; dec--; i-- }
   k = the number of iterations = dec *)
Fixpoint an_frac (k : nat) (b : list Z) (i num sign : Z) : res (list Z * Z * Z) :=
  match k with
  | O => Ok (b, i, num)
  | S k' => b' <-- store b i (byte (byte (sign * Z.rem num 10) + 48)) ;;
            an_frac k' b' (i - 1) (Z.quot num 10) sign
  end.

(* for num != 0 { if 0 < groupSize && groupSym != 0 && 0 < j && j%groupSize == 0 {
       i -= RuneLen(groupSym); EncodeRune(b[i+1:], groupSym) }
     c := byte(sign*(num%10)) + '0'; num /= 10; b[i] = c; i--; j++ } *)
Fixpoint an_int (fuel : nat) (b : list Z) (i num sign gsize gs j : Z) : res (list Z * Z) :=
  if num =? 0 then Ok (b, i)
  else match fuel with
       | O => NoFuel
       | S f =>
           r <-- (if (0 <? gsize) && negb (gs =? 0) && (0 <? j) && (Z.rem j gsize =? 0)
                  then let i' := i - rune_len gs in
                       b' <-- store_list b (i' + 1) (utf8_encode gs) ;; Ok (b', i')
                  else Ok (b, i)) ;;
           b2 <-- store (fst r) (snd r) (byte (byte (sign * Z.rem num 10) + 48)) ;;
           an_int f b2 (snd r - 1) (Z.quot num 10) sign gsize gs (j + 1)
       end.

Definition append_number (b spare : list Z) (num dec gsize gs ds : Z) : res (list Z) :=
  let dec := if dec <? 0 then 0 else dec in
  let gs := if rune_len gs =? -1 then 46 else gs in
  let ds := if rune_len ds =? -1 then 44 else ds in
  let sign := if num <? 0 then -1 else 1 in
  let n := len_int num in
  let n := if sign =? -1 then n - 1 else n in
  let n := if (dec <? n) && (0 <? gsize) && negb (gs =? 0)
           then n + rune_len gs * Z.quot (n - dec - 1) gsize else n in
  let n := if 0 <? dec then (if n <=? dec then 1 + dec else n) + rune_len ds else n in
  let n := if sign =? -1 then n + 1 else n in
  let i := len b in
  b1 <-- grow b spare n ;;
  let i := i + n - 1 in
  r1 <-- (if 0 <? dec then
            r <-- an_frac (Z.to_nat dec) b1 i num sign ;;
            let i3 := snd (fst r) - rune_len ds in
            b3 <-- store_list (fst (fst r)) (i3 + 1) (utf8_encode ds) ;;
            Ok (b3, i3, snd r)
          else Ok (b1, i, num)) ;;
  let b4 := fst (fst r1) in
  let i4 := snd (fst r1) in
  let num4 := snd r1 in
  if num4 =? 0 then
    b5 <-- store b4 i4 48 ;;
    if sign =? -1 then store b5 (i4 - 1) 45 else Ok b5
  else
    r <-- an_int 20 b4 i4 num4 sign gsize gs 0 ;;
    if sign =? -1 then store (fst r) (snd r) 45 else Ok (fst r).
