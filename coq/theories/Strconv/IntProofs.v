(* Strconv/IntProofs.v — ParseInt, ParseUint, LenUint, LenInt, AppendInt (strconv/int.go). *)
From Coq Require Import ZifyBool.
From Verif Require Import Common.Base Common.Tactics Strconv.Model.

(* ---- the reference notions: digit strings and their values ------------------------------------ *)

Definition digit_step (a c : Z) : Z := a * 10 + (c - 48).
Definition dec_value_from (n : Z) (ds : list Z) : Z := fold_left digit_step ds n.
Definition dec_value (ds : list Z) : Z := dec_value_from 0 ds.

Definition all_digits (ds : list Z) : Prop := Forall (fun c => is_digit c = true) ds.
(* [rest] does not continue the digit string *)
Definition stops (rest : list Z) : Prop := match rest with c :: _ => is_digit c = false | [] => True end.

Fixpoint take_digits (l : list Z) : list Z :=
  match l with
  | c :: t => if is_digit c then c :: take_digits t else []
  | [] => []
  end.
Fixpoint drop_digits (l : list Z) : list Z :=
  match l with
  | c :: t => if is_digit c then drop_digits t else l
  | [] => []
  end.

Lemma take_drop_digits l : l = take_digits l ++ drop_digits l.
Proof. induction l as [|c t IH]; cbn; [reflexivity|]. destruct (is_digit c); cbn; congruence. Qed.

Lemma take_digits_all l : all_digits (take_digits l).
Proof.
  induction l as [|c t IH]; cbn; [constructor|].
  destruct (is_digit c) eqn:E; constructor; assumption.
Qed.

Lemma drop_digits_stops l : stops (drop_digits l).
Proof.
  induction l as [|c t IH]; cbn; [exact I|].
  destruct (is_digit c) eqn:E; [exact IH|]. cbn. exact E.
Qed.

Lemma take_digits_app ds rest : all_digits ds -> stops rest -> take_digits (ds ++ rest) = ds.
Proof.
  intros Hd Hs. induction Hd as [|c t Hc Ht IH]; cbn.
  - destruct rest as [|c r]; [reflexivity|]. cbn in Hs. cbn. rewrite Hs. reflexivity.
  - rewrite Hc. f_equal. exact IH.
Qed.

Lemma is_digit_range c : is_digit c = true <-> 48 <= c <= 57.
Proof. unfold is_digit. lia. Qed.

Lemma dec_value_from_ge n ds : 0 <= n -> all_digits ds -> n <= dec_value_from n ds.
Proof.
  intros Hn Hd. revert n Hn. induction Hd as [|c t Hc Ht IH]; intros n Hn; cbn; [lia|].
  apply is_digit_range in Hc. unfold dec_value_from in IH.
  specialize (IH (digit_step n c)). unfold digit_step in *. lia.
Qed.

Lemma dec_value_from_app n a b : dec_value_from n (a ++ b) = dec_value_from (dec_value_from n a) b.
Proof. unfold dec_value_from. apply fold_left_app. Qed.

Lemma dec_value_nonneg ds : all_digits ds -> 0 <= dec_value ds.
Proof. intros H. apply (dec_value_from_ge 0 ds); [lia|exact H]. Qed.

Lemma byte_digit c : is_digit c = true -> byte (c - 48) = c - 48.
Proof. intros H. apply is_digit_range in H. unfold byte. apply Z.mod_small. lia. Qed.

Lemma u64_small x : 0 <= x < two64 -> u64 x = x.
Proof. intros H. unfold u64. apply Z.mod_small. exact H. Qed.

Lemma i64_small x : min_i64 <= x <= max_i64 -> i64 x = x.
Proof.
  intros H. unfold i64, min_i64, max_i64, two63, two64 in *.
  rewrite Z.mod_small by lia. lia.
Qed.

(* ---- the digit accumulation loop ---------------------------------------------------------------- *)

Lemma acc_digits_spec lim l : 9 <= lim < two64 -> forall n i, 0 <= n <= lim ->
  acc_digits lim l n i =
    let v := dec_value_from n (take_digits l) in
    if v <=? lim then Some (v, i + len (take_digits l)) else None.
Proof.
  intros Hlim. induction l as [|c t IH]; intros n i Hn.
  - cbn. replace (n <=? lim) with true by lia. f_equal. f_equal. unfold len. cbn. lia.
  - cbn [acc_digits take_digits]. destruct (is_digit c) eqn:Ec.
    2:{ cbn. replace (n <=? lim) with true by lia. f_equal. f_equal. unfold len. cbn. lia. }
    rewrite (byte_digit c Ec). pose proof Ec as Hc. apply is_digit_range in Hc.
    assert (Hmono : digit_step n c <= dec_value_from (digit_step n c) (take_digits t)).
    { apply dec_value_from_ge; [unfold digit_step; lia|apply take_digits_all]. }
    cbn zeta. change (dec_value_from n (c :: take_digits t)) with (dec_value_from (digit_step n c) (take_digits t)).
    assert (Hdiv : lim / 10 * 10 <= lim < lim / 10 * 10 + 10).
    { pose proof (Z.div_mod lim 10 ltac:(lia)). pose proof (Z.mod_pos_bound lim 10 ltac:(lia)). lia. }
    destruct (lim / 10 <? n) eqn:E1.
    + cbn [orb]. unfold digit_step in *.
      replace (dec_value_from (n * 10 + (c - 48)) (take_digits t) <=? lim) with false by lia. reflexivity.
    + assert (Hn10 : 0 <= n * 10 < two64) by lia.
      rewrite (u64_small (n * 10) Hn10). cbn [orb].
      destruct (lim - (c - 48) <? n * 10) eqn:E2.
      * unfold digit_step in *.
        replace (dec_value_from (n * 10 + (c - 48)) (take_digits t) <=? lim) with false by lia. reflexivity.
      * rewrite (u64_small (n * 10 + (c - 48))) by lia.
        rewrite IH by lia. cbn zeta. unfold digit_step.
        rewrite len_cons. replace (i + 1 + len (take_digits t)) with (i + (1 + len (take_digits t))) by lia.
        reflexivity.
Qed.

(* ---- ParseUint ---------------------------------------------------------------------------------- *)

Lemma parse_uint_fun b :
  parse_uint b = let v := dec_value (take_digits b) in
                 if v <=? max_u64 then (v, len (take_digits b)) else (0, 0).
Proof.
  unfold parse_uint. rewrite acc_digits_spec by (unfold max_u64, two64; lia).
  cbn zeta. fold (dec_value (take_digits b)).
  destruct (dec_value (take_digits b) <=? max_u64); reflexivity.
Qed.

(* For every byte string, written as digits ++ rest where rest does not start with a digit:
   the value and length of the digit prefix when it fits uint64, (0,0) otherwise (an empty digit
   string has value 0 and length 0). *)
Lemma parse_uint_spec_proof : forall ds rest, all_digits ds -> stops rest ->
  parse_uint (ds ++ rest) = if dec_value ds <=? max_u64 then (dec_value ds, len ds) else (0, 0).
Proof.
  intros ds rest Hd Hs. rewrite parse_uint_fun. rewrite take_digits_app by assumption. reflexivity.
Qed.

Lemma digits_decompose : forall b, exists ds rest, b = ds ++ rest /\ all_digits ds /\ stops rest.
Proof.
  intros b. exists (take_digits b), (drop_digits b).
  split; [apply take_drop_digits|]. split; [apply take_digits_all|apply drop_digits_stops].
Qed.

Example parse_uint_ex1 : parse_uint [49; 56; 52; 52; 54; 55; 52; 52; 48; 55; 51; 55; 48; 57; 53; 53; 49; 54; 49; 53; 97] = (max_u64, 20).
Proof. vm_compute. reflexivity. Qed.
Example parse_uint_ex2 : parse_uint [49; 56; 52; 52; 54; 55; 52; 52; 48; 55; 51; 55; 48; 57; 53; 53; 49; 54; 49; 54] = (0, 0).
Proof. vm_compute. reflexivity. Qed.

(* ---- ParseInt ----------------------------------------------------------------------------------- *)

Definition is_sign (c : Z) : bool := (c =? 43) || (c =? 45).
(* the optional sign: [], "+" or "-" *)
Definition sign_ok (sg : list Z) : Prop := sg = [] \/ sg = [43] \/ sg = [45].
Definition sign_neg (sg : list Z) : bool := match sg with c :: _ => c =? 45 | [] => false end.
(* when no sign is split off, the string does not start with one *)
Definition no_sign (l : list Z) : Prop := match l with c :: _ => is_sign c = false | [] => True end.

Lemma parse_int_body neg start rest :
  (start = 0 \/ start = 1) ->
  match acc_digits two63 rest 0 start with
  | None => (0, 0)
  | Some (n, i) =>
      if i =? start then (0, 0)
      else if negb neg && (max_i64 <? n) then (0, 0)
      else if neg then (i64 (- i64 n), i)
      else (i64 n, i)
  end =
  let ds := take_digits rest in
  let v := if neg then - dec_value ds else dec_value ds in
  if negb (len ds =? 0) && (min_i64 <=? v) && (v <=? max_i64) then (v, start + len ds) else (0, 0).
Proof.
  intros Hs. rewrite acc_digits_spec by (unfold two63, two64; lia). cbn zeta.
  fold (dec_value (take_digits rest)).
  pose proof (dec_value_nonneg (take_digits rest) (take_digits_all rest)) as Hv.
  pose proof (len_nonneg (take_digits rest)) as Hl.
  set (v := dec_value (take_digits rest)) in *. set (k := len (take_digits rest)) in *.
  unfold min_i64, max_i64, two63 in *.
  destruct (v <=? 9223372036854775808) eqn:E1.
  - destruct (start + k =? start) eqn:E2.
    + replace (k =? 0) with true by lia. reflexivity.
    + replace (k =? 0) with false by lia. cbn [negb andb].
      destruct neg; cbn [negb andb].
      * replace (-9223372036854775808 <=? - v) with true by lia.
        replace (- v <=? 9223372036854775807) with true by lia. cbn [andb].
        f_equal. destruct (Z.eq_dec v 9223372036854775808) as [->|Hne]; [vm_compute; reflexivity|].
        rewrite (i64_small v) by (unfold min_i64, max_i64; lia).
        apply i64_small. unfold min_i64, max_i64. lia.
      * destruct (9223372036854775807 <? v) eqn:E3.
        -- replace (v <=? 9223372036854775807) with false by lia. rewrite andb_false_r. reflexivity.
        -- replace (v <=? 9223372036854775807) with true by lia.
           replace (-9223372036854775808 <=? v) with true by lia. cbn [andb].
           f_equal. apply i64_small. unfold min_i64, max_i64. lia.
  - destruct neg.
    + replace (-9223372036854775808 <=? - v) with false by lia. rewrite andb_false_r. reflexivity.
    + replace (v <=? 9223372036854775807) with false by lia. rewrite andb_false_r. reflexivity.
Qed.

(* For every byte string, written as sign ++ digits ++ rest (sign optional, rest not continuing
   the digits): the signed value and the length of sign ++ digits when there is a digit and the
   value fits int64; (0,0) otherwise. *)
Lemma parse_int_spec_proof : forall sg ds rest,
  sign_ok sg -> all_digits ds -> stops rest -> (sg = [] -> no_sign (ds ++ rest)) ->
  let v := if sign_neg sg then - dec_value ds else dec_value ds in
  parse_int (sg ++ ds ++ rest) =
    if negb (len ds =? 0) && (min_i64 <=? v) && (v <=? max_i64) then (v, len sg + len ds) else (0, 0).
Proof.
  intros sg ds rest Hsg Hd Hs Hns. cbn zeta. unfold parse_int.
  destruct Hsg as [->|[->| ->]].
  - specialize (Hns eq_refl). cbn [app sign_neg len length Z.of_nat].
    assert (Hsgn : match ds ++ rest with c :: _ => (c =? 43) || (c =? 45) | [] => false end = false).
    { destruct (ds ++ rest) as [|c r]; [reflexivity|]. exact Hns. }
    assert (Hneg : match ds ++ rest with c :: _ => c =? 45 | [] => false end = false).
    { destruct (ds ++ rest) as [|c r]; [reflexivity|]. cbn in Hns. unfold is_sign in Hns. lia. }
    rewrite Hsgn, Hneg.
    rewrite (parse_int_body false 0 (ds ++ rest)) by (left; reflexivity).
    cbn zeta. rewrite take_digits_app by assumption. reflexivity.
  - cbn [app sign_neg tl]. replace ((43 =? 43) || (43 =? 45)) with true by reflexivity.
    replace (43 =? 45) with false by reflexivity.
    rewrite (parse_int_body false 1 (ds ++ rest)) by (right; reflexivity).
    cbn zeta. rewrite take_digits_app by assumption. reflexivity.
  - cbn [app sign_neg tl]. replace ((45 =? 43) || (45 =? 45)) with true by reflexivity.
    replace (45 =? 45) with true by reflexivity.
    rewrite (parse_int_body true 1 (ds ++ rest)) by (right; reflexivity).
    cbn zeta. rewrite take_digits_app by assumption. reflexivity.
Qed.

(* every byte string has exactly such a decomposition *)
Lemma int_decompose : forall b, exists sg ds rest,
  b = sg ++ ds ++ rest /\ sign_ok sg /\ all_digits ds /\ stops rest /\ (sg = [] -> no_sign (ds ++ rest)).
Proof.
  intros b. destruct b as [|c t].
  - exists [], [], []. repeat split; try constructor; reflexivity.
  - destruct (is_sign c) eqn:Es.
    + exists [c], (take_digits t), (drop_digits t).
      split; [cbn; f_equal; apply take_drop_digits|].
      split; [unfold is_sign in Es; unfold sign_ok; assert (c = 43 \/ c = 45) as [->| ->] by lia; tauto|].
      split; [apply take_digits_all|]. split; [apply drop_digits_stops|]. discriminate.
    + exists [], (take_digits (c :: t)), (drop_digits (c :: t)).
      split; [cbn [app]; apply take_drop_digits|]. split; [left; reflexivity|].
      split; [apply take_digits_all|]. split; [apply drop_digits_stops|].
      intros _. rewrite <- take_drop_digits. exact Es.
Qed.

Example parse_int_ex1 : parse_int [45; 57; 50; 50; 51; 51; 55; 50; 48; 51; 54; 56; 53; 52; 55; 55; 53; 56; 48; 56; 46] = (min_i64, 20).
Proof. vm_compute. reflexivity. Qed.
Example parse_int_ex2 : parse_int [57; 50; 50; 51; 51; 55; 50; 48; 51; 54; 56; 53; 52; 55; 55; 53; 56; 48; 56] = (0, 0).
Proof. vm_compute. reflexivity. Qed.
Example parse_int_ex3 : parse_int [43; 48; 48; 55; 120] = (7, 4).
Proof. vm_compute. reflexivity. Qed.

(* ---- the reference decimal rendering on Z ------------------------------------------------------- *)

(* digits of n > 0, least significant first ([] for 0); fuel >= number of digits *)
Fixpoint rdigits (fuel : nat) (n : Z) : list Z :=
  if n =? 0 then []
  else match fuel with
       | O => []
       | S f => (48 + n mod 10) :: rdigits f (n / 10)
       end.

Definition udecimal (n : Z) : list Z :=
  if n =? 0 then [48] else rev (rdigits (S (Z.to_nat (Z.log2 n))) n).

(* the decimal rendering of an integer: "-" for negatives, no leading zeros, "0" for zero *)
Definition decimal (n : Z) : list Z := if n <? 0 then 45 :: udecimal (- n) else udecimal n.

Lemma rdigits_enough f : forall n f', 0 <= n < 10 ^ Z.of_nat f -> (f <= f')%nat -> rdigits f' n = rdigits f n.
Proof.
  induction f as [|f IH]; intros n f' Hn Hf.
  - assert (n = 0) by (cbn in Hn; lia). subst n. destruct f'; reflexivity.
  - destruct f' as [|f']; [lia|]. cbn [rdigits]. destruct (n =? 0) eqn:E; [reflexivity|].
    f_equal. apply IH; [|lia].
    rewrite Nat2Z.inj_succ, Z.pow_succ_r in Hn by lia.
    split; [apply Z.div_pos; lia|]. apply Z.div_lt_upper_bound; lia.
Qed.

Lemma pow2_le_pow10 k : 0 <= k -> 2 ^ k <= 10 ^ k.
Proof. intros H. apply Z.pow_le_mono_l. lia. Qed.

Lemma log2_fuel_enough n : 0 < n -> n < 10 ^ Z.of_nat (S (Z.to_nat (Z.log2 n))).
Proof.
  intros Hn. pose proof (Z.log2_spec n Hn) as [_ H2]. pose proof (Z.log2_nonneg n) as H0.
  rewrite Nat2Z.inj_succ, Z2Nat.id by lia.
  pose proof (pow2_le_pow10 (Z.succ (Z.log2 n)) ltac:(lia)). lia.
Qed.

Lemma udecimal_fuel n f : 0 < n < 10 ^ Z.of_nat f -> udecimal n = rev (rdigits f n).
Proof.
  intros Hn. unfold udecimal. replace (n =? 0) with false by lia. f_equal.
  destruct (Nat.le_ge_cases f (S (Z.to_nat (Z.log2 n)))) as [Hle|Hge].
  - apply rdigits_enough; [lia|exact Hle].
  - symmetry. apply rdigits_enough; [|exact Hge]. split; [lia|]. apply log2_fuel_enough. lia.
Qed.

(* soundness of the reference: the digits denote n, all are digits, no leading zero *)
Lemma rdigits_value f : forall n, 0 <= n < 10 ^ Z.of_nat f ->
  dec_value (rev (rdigits f n)) = n /\ all_digits (rev (rdigits f n)).
Proof.
  induction f as [|f IH]; intros n Hn.
  - assert (n = 0) by (cbn in Hn; lia). subst n. cbn. split; [reflexivity|constructor].
  - cbn [rdigits]. destruct (n =? 0) eqn:E; [cbn; split; [lia|constructor]|].
    rewrite Nat2Z.inj_succ, Z.pow_succ_r in Hn by lia.
    assert (Hq : 0 <= n / 10 < 10 ^ Z.of_nat f).
    { split; [apply Z.div_pos; lia|]. apply Z.div_lt_upper_bound; lia. }
    destruct (IH (n / 10) Hq) as [Hv Ha]. cbn [rev].
    pose proof (Z.mod_pos_bound n 10 ltac:(lia)) as Hm.
    split.
    + unfold dec_value. rewrite dec_value_from_app. fold (dec_value (rev (rdigits f (n / 10)))).
      rewrite Hv. cbn [dec_value_from fold_left]. unfold digit_step. pose proof (Z.div_mod n 10 ltac:(lia)). lia.
    + unfold all_digits. apply Forall_app. split; [exact Ha|]. constructor; [|constructor].
      apply is_digit_range. lia.
Qed.

Lemma rdigits_last_nonzero f : forall n, 0 < n < 10 ^ Z.of_nat f ->
  exists c t, rev (rdigits f n) = c :: t /\ c <> 48.
Proof.
  induction f as [|f IH]; intros n Hn; [cbn in Hn; lia|].
  cbn [rdigits]. replace (n =? 0) with false by lia.
  rewrite Nat2Z.inj_succ, Z.pow_succ_r in Hn by lia. cbn [rev].
  destruct (Z.eq_dec (n / 10) 0) as [Hz|Hnz].
  - rewrite Hz. assert (Hr : rdigits f 0 = []) by (destruct f; reflexivity). rewrite Hr. cbn.
    exists (48 + n mod 10), []. split; [reflexivity|].
    pose proof (Z.div_mod n 10 ltac:(lia)). lia.
  - assert (Hq : 0 < n / 10 < 10 ^ Z.of_nat f).
    { split; [pose proof (Z.div_pos n 10 ltac:(lia) ltac:(lia)); lia|]. apply Z.div_lt_upper_bound; lia. }
    destruct (IH (n / 10) Hq) as (c & t & Hrev & Hc). rewrite Hrev. cbn.
    exists c, (t ++ [48 + n mod 10]). split; [reflexivity|exact Hc].
Qed.

Lemma udecimal_sound n : 0 <= n ->
  all_digits (udecimal n) /\ dec_value (udecimal n) = n /\
  (n = 0 /\ udecimal n = [48] \/ exists c t, udecimal n = c :: t /\ c <> 48).
Proof.
  intros Hn. destruct (Z.eq_dec n 0) as [->|Hnz].
  - cbn. split; [repeat constructor|]. split; [reflexivity|]. left. split; reflexivity.
  - assert (Hb : 0 < n < 10 ^ Z.of_nat (S (Z.to_nat (Z.log2 n)))).
    { split; [lia|]. apply log2_fuel_enough. lia. }
    rewrite (udecimal_fuel n _ Hb).
    destruct (rdigits_value (S (Z.to_nat (Z.log2 n))) n ltac:(lia)) as [Hv Ha].
    split; [exact Ha|]. split; [exact Hv|]. right. apply rdigits_last_nonzero. exact Hb.
Qed.

(* the number of digits *)
Lemma rdigits_len f : forall (k : nat) n, (1 <= k <= f)%nat ->
  10 ^ (Z.of_nat k - 1) <= n < 10 ^ Z.of_nat k -> len (rdigits f n) = Z.of_nat k.
Proof.
  induction f as [|f IH]; intros k n Hk Hn; [lia|].
  assert (0 < 10 ^ (Z.of_nat k - 1)) by (apply Z.pow_pos_nonneg; lia).
  cbn [rdigits]. replace (n =? 0) with false by lia. rewrite len_cons.
  destruct k as [|k]; [lia|]. destruct k as [|k].
  - cbn in Hn. rewrite Z.div_small by lia.
    assert (Hr : rdigits f 0 = []) by (destruct f; reflexivity). rewrite Hr. reflexivity.
  - rewrite (IH (S k)); [lia|lia|].
    replace (Z.of_nat (S (S k)) - 1) with (Z.succ (Z.of_nat (S k) - 1)) in Hn by lia.
    rewrite (Nat2Z.inj_succ (S k)) in Hn. rewrite !Z.pow_succ_r in Hn by lia.
    split; [apply Z.div_le_lower_bound; lia|apply Z.div_lt_upper_bound; lia].
Qed.

Ltac eval_pow10 :=
  repeat match goal with
         | |- context [10 ^ ?e] => let v := eval vm_compute in (10 ^ e) in change (10 ^ e) with v
         end.

Lemma len_uint_spec n : 0 < n < two64 -> len_uint n = len (rdigits 20 n).
Proof.
  intros Hn. unfold two64 in Hn. unfold len_uint.
  repeat (match goal with
          | |- (if ?a <? ?b then _ else _) = _ => destruct (a <? b) eqn:?
          end;
          [ symmetry;
            match goal with |- _ = ?k => apply (rdigits_len 20 (Z.to_nat k) n); [lia|eval_pow10; lia] end | ]).
  symmetry. apply (rdigits_len 20 20%nat n); [lia|eval_pow10; lia].
Qed.

Lemma len_uint_zero : len_uint 0 = 1.
Proof. reflexivity. Qed.

Lemma u64_bound : forall n, 0 <= n < two64 -> n < 10 ^ Z.of_nat 20.
Proof. intros n H. unfold two64 in H. eval_pow10. lia. Qed.

Lemma len_udecimal n : 0 <= n < two64 -> len (udecimal n) = len_uint n.
Proof.
  intros Hn. destruct (Z.eq_dec n 0) as [->|Hnz]; [reflexivity|].
  rewrite (udecimal_fuel n 20) by (pose proof (u64_bound n Hn); lia).
  rewrite len_uint_spec by lia. unfold len. rewrite rev_length. reflexivity.
Qed.

Lemma len_uint_decimal : forall n, 0 <= n < two64 -> len_uint n = len (decimal n).
Proof. intros n H. unfold decimal. replace (n <? 0) with false by lia. symmetry. apply len_udecimal. exact H. Qed.

Lemma len_int_spec n : min_i64 <= n <= max_i64 -> len_int n = len (decimal n).
Proof.
  intros Hn. unfold min_i64, max_i64 in Hn. unfold len_int, decimal.
  destruct (n <? 0) eqn:E.
  - rewrite len_cons. destruct (n =? min_i64) eqn:E2.
    + assert (n = min_i64) by lia. subst n. vm_compute. reflexivity.
    + unfold min_i64 in E2. rewrite u64_small by (unfold two64; lia).
      rewrite len_udecimal by (unfold two64; lia). reflexivity.
  - rewrite u64_small by (unfold two64; lia). rewrite len_udecimal by (unfold two64; lia). reflexivity.
Qed.

(* ---- writing into the destination ------------------------------------------------------------------ *)

Lemma setz_app_mid a x c v : setz (a ++ x :: c) (len a) v = a ++ v :: c.
Proof.
  unfold setz. pose proof (len_nonneg a). pose proof (len_nonneg c).
  rewrite len_app, len_cons.
  replace ((0 <=? len a) && (len a <? len a + (1 + len c))) with true by lia.
  unfold firstz, skipz, len. rewrite Nat2Z.id.
  replace (Z.to_nat (Z.of_nat (length a) + 1)) with (length a + 1)%nat by lia.
  rewrite firstn_app, Nat.sub_diag, firstn_all. cbn [firstn]. rewrite app_nil_r.
  rewrite skipn_app. rewrite skipn_all2 by lia.
  replace (length a + 1 - length a)%nat with 1%nat by lia. reflexivity.
Qed.

Lemma store_app_mid a x c v : store (a ++ x :: c) (len a) v = Ok (a ++ v :: c).
Proof.
  unfold store. pose proof (len_nonneg a). pose proof (len_nonneg c).
  rewrite len_app, len_cons.
  replace ((0 <=? len a) && (len a <? len a + (1 + len c))) with true by lia.
  rewrite setz_app_mid. reflexivity.
Qed.

Lemma list_snoc {A} (l : list A) : 0 < len l -> exists l' x, l = l' ++ [x].
Proof.
  intros H. destruct (exists_last (l := l)) as (l' & x & E).
  - intros ->. cbn in H. lia.
  - eauto.
Qed.

Lemma len_rev {A} (l : list A) : len (rev l) = len l.
Proof. unfold len. rewrite rev_length. reflexivity. Qed.

Lemma len_repeat {A} (x : A) n : len (repeat x n) = Z.of_nat n.
Proof. unfold len. rewrite repeat_length. reflexivity. Qed.

Lemma grow_spec b spare n : 0 <= n -> exists fill, grow b spare n = Ok (b ++ fill) /\ len fill = n.
Proof.
  intros Hn. unfold grow. destruct (len spare <? n) eqn:E.
  - exists (zeros n). split; [reflexivity|]. unfold zeros. rewrite len_repeat. lia.
  - replace (0 <=? n) with true by lia. exists (firstz n spare). split; [reflexivity|].
    apply len_firstz. lia.
Qed.

Lemma rem_quot_nonneg n : 0 <= n -> Z.rem n 10 = n mod 10 /\ Z.quot n 10 = n / 10.
Proof. intros H. split; [apply Z.rem_mod_nonneg; lia|apply Z.quot_div_nonneg; lia]. Qed.

Lemma byte_digit_char r : 0 <= r < 10 -> byte (byte r + 48) = 48 + r.
Proof. intros H. unfold byte. rewrite (Z.mod_small r) by lia. rewrite Z.mod_small by lia. lia. Qed.

(* the right-to-left digit loop fills exactly the window [mid] with the digits of num *)
Lemma put_digits_spec f : forall num pre mid post,
  0 <= num < 10 ^ Z.of_nat f -> len mid = len (rdigits f num) ->
  put_digits f (pre ++ mid ++ post) (len pre + len mid - 1) num
  = Ok (pre ++ rev (rdigits f num) ++ post, len pre - 1).
Proof.
  induction f as [|f IH]; intros num pre mid post Hn Hl.
  - assert (num = 0) by (cbn in Hn; lia). subst num. cbn in Hl. cbn.
    destruct mid; [|unfold len in Hl; cbn in Hl; lia]. cbn. f_equal. f_equal. unfold len. cbn. lia.
  - cbn [put_digits rdigits] in *. destruct (num =? 0) eqn:E.
    + destruct mid; [|unfold len in Hl; cbn in Hl; lia]. cbn. f_equal. f_equal. unfold len. cbn. lia.
    + rewrite len_cons in Hl. pose proof (len_nonneg (rdigits f (num / 10))) as H0.
      destruct (list_snoc mid ltac:(lia)) as (mid' & x & ->).
      rewrite len_app in Hl. change (len [x]) with 1 in Hl.
      destruct (rem_quot_nonneg num ltac:(lia)) as [-> ->].
      pose proof (Z.mod_pos_bound num 10 ltac:(lia)) as Hm.
      rewrite byte_digit_char by lia.
      replace (pre ++ (mid' ++ [x]) ++ post) with ((pre ++ mid') ++ x :: post) by (rewrite <- !app_assoc; reflexivity).
      replace (len pre + len (mid' ++ [x]) - 1) with (len (pre ++ mid')) by (rewrite !len_app; change (len [x]) with 1; lia).
      rewrite store_app_mid. cbn [rbind].
      replace (len (pre ++ mid') - 1) with (len pre + len mid' - 1) by (rewrite len_app; lia).
      rewrite <- app_assoc.
      rewrite Nat2Z.inj_succ, Z.pow_succ_r in Hn by lia.
      rewrite IH.
      * cbn [rev]. rewrite <- !app_assoc. reflexivity.
      * split; [apply Z.div_pos; lia|apply Z.div_lt_upper_bound; lia].
      * lia.
Qed.

(* ---- AppendInt ------------------------------------------------------------------------------------- *)

Lemma minint_decimal : decimal min_i64 = minint_str.
Proof. vm_compute. reflexivity. Qed.

(* AppendInt(b, n) = b ++ decimal n for every int64 n, whatever the spare capacity holds;
   LenInt n is the length of that rendering. *)
Lemma append_int_spec_proof : forall b spare n, min_i64 <= n <= max_i64 ->
  append_int b spare n = Ok (b ++ decimal n) /\ len_int n = len (decimal n).
Proof.
  intros b spare n Hn. split; [|apply len_int_spec; exact Hn].
  unfold append_int. destruct (n =? 0) eqn:E0; [assert (n = 0) by lia; subst n; reflexivity|].
  destruct (n =? min_i64) eqn:E1; [assert (n = min_i64) by lia; subst n; rewrite minint_decimal; reflexivity|].
  rewrite (len_int_spec n Hn). unfold min_i64, max_i64 in *.
  pose proof (len_nonneg (decimal n)) as Hl0.
  destruct (grow_spec b spare (len (decimal n)) Hl0) as (fill & -> & Hfill). cbn [rbind].
  unfold decimal in *. destruct (n <? 0) eqn:E2.
  - rewrite len_cons in Hfill. pose proof (len_nonneg (udecimal (- n))).
    destruct fill as [|x fill]; [rewrite len_nil in Hfill; lia|]. rewrite len_cons in Hfill.
    rewrite store_app_mid. cbn [rbind fst snd].
    rewrite i64_small by (unfold min_i64, max_i64; lia).
    assert (Hb : 0 < - n < 10 ^ Z.of_nat 20) by (eval_pow10; lia).
    rewrite (udecimal_fuel (- n) 20 Hb) in *. rewrite len_rev in Hfill.
    replace (b ++ 45 :: fill) with ((b ++ [45]) ++ fill ++ []) by (rewrite <- app_assoc, app_nil_r; reflexivity).
    match goal with |- context [put_digits 20 _ ?i _] => replace i with (len (b ++ [45]) + len fill - 1) end.
    2:{ rewrite len_app, !len_cons, len_rev, len_nil. lia. }
    rewrite put_digits_spec by lia. cbn [rbind fst]. rewrite app_nil_r, <- app_assoc. reflexivity.
  - cbn [rbind fst snd].
    assert (Hb : 0 < n < 10 ^ Z.of_nat 20) by (eval_pow10; lia).
    rewrite (udecimal_fuel n 20 Hb) in *. rewrite len_rev in Hfill.
    replace (b ++ fill) with (b ++ fill ++ []) by (rewrite app_nil_r; reflexivity).
    match goal with |- context [put_digits 20 _ ?i _] => replace i with (len b + len fill - 1) end.
    2:{ rewrite len_rev. lia. }
    rewrite put_digits_spec by lia. cbn [rbind fst]. rewrite app_nil_r. reflexivity.
Qed.

(* the reference rendering is the canonical decimal numeral of n *)
Lemma decimal_sound : forall n,
  (0 <= n -> all_digits (decimal n) /\ dec_value (decimal n) = n /\
             (n = 0 /\ decimal n = [48] \/ exists c t, decimal n = c :: t /\ c <> 48)) /\
  (n < 0 -> exists ds, decimal n = 45 :: ds /\ all_digits ds /\ dec_value ds = - n /\
                       exists c t, ds = c :: t /\ c <> 48).
Proof.
  intros n. split; intros Hn; unfold decimal.
  - replace (n <? 0) with false by lia. apply udecimal_sound. exact Hn.
  - replace (n <? 0) with true by lia. exists (udecimal (- n)). split; [reflexivity|].
    destruct (udecimal_sound (- n) ltac:(lia)) as (Ha & Hv & [[H0 _]|Hc]); [lia|].
    split; [exact Ha|]. split; [exact Hv|exact Hc].
Qed.

Example append_int_ex : append_int [120] [1; 2] (-1234) = Ok [120; 45; 49; 50; 51; 52].
Proof. vm_compute. reflexivity. Qed.
Example decimal_ex : decimal 9223372036854775807 = [57; 50; 50; 51; 51; 55; 50; 48; 51; 54; 56; 53; 52; 55; 55; 53; 56; 48; 55].
Proof. vm_compute. reflexivity. Qed.
