(* Strconv/AFLitProofs.v — AppendFloat: what the finite check on the tagged runs (AFProofs.tag_check) means for every
   mantissa: the literal written is well formed and denotes mant * 10^-prec. *)
From Coq Require Import ZifyBool Floats.SpecFloat.
From Verif Require Import Common.Base Common.Tactics Strconv.Model Strconv.FModel Strconv.IntProofs Strconv.AFProofs.

Lemma zlist_eqb_eq a : forall b, zlist_eqb a b = true -> a = b.
Proof.
  induction a as [|x a IH]; intros [|y b] H; cbn [zlist_eqb] in H; try discriminate; [reflexivity|].
  apply andb_true_iff in H. destruct H as [Hx Hr]. f_equal; [lia|apply IH; exact Hr].
Qed.

(* ---- substitution of the tags ---------------------------------------------------------------------------------------------- *)

Lemma subst_small M c : c < 2000 -> subst M c = c.
Proof. intros H. unfold subst. replace (2000 <=? c) with false by lia. reflexivity. Qed.

Lemma map_subst_small M l : forallb (fun c => c <? 1000) l = true -> map (subst M) l = l.
Proof.
  induction l as [|c t IH]; intros H; [reflexivity|]. cbn [forallb] in H. apply andb_true_iff in H. destruct H as [Hc Ht].
  cbn [map]. rewrite subst_small by lia. f_equal. apply IH. exact Ht.
Qed.

Lemma map_subst_zeros M a : map (subst M) (repeat 48 a) = repeat 48 a.
Proof. induction a as [|a IH]; [reflexivity|]. cbn [repeat map]. rewrite IH. reflexivity. Qed.

Lemma subst_digit M c : c = 48 \/ 2000 <= c -> is_digit (subst M c) = true.
Proof.
  intros [->|H]; [reflexivity|]. unfold subst. replace (2000 <=? c) with true by lia.
  pose proof (dig_range M (c - 2000)). unfold is_digit. lia.
Qed.

Lemma tagseq_length hi k : length (tagseq hi k) = k.
Proof. revert hi. induction k as [|k IH]; intros hi; [reflexivity|]. cbn [tagseq length]. rewrite IH. reflexivity. Qed.

Lemma tagseq_ge k : forall hi, 0 <= hi + 1 - Z.of_nat k -> Forall (fun c => c = 48 \/ 2000 <= c) (tagseq hi k).
Proof.
  induction k as [|k IH]; intros hi H; [constructor|]. cbn [tagseq]. constructor; [right; lia|apply IH; lia].
Qed.

Lemma zeros_cells a : Forall (fun c => c = 48 \/ 2000 <= c) (repeat 48 a).
Proof. induction a as [|a IH]; [constructor|]. cbn [repeat]. constructor; [left; reflexivity|exact IH]. Qed.

Lemma cells_digits M l : Forall (fun c => c = 48 \/ 2000 <= c) l -> all_digits (map (subst M) l).
Proof. intros H. induction H as [|c t Hc Ht IH]; [constructor|]. cbn [map]. constructor; [apply subst_digit; exact Hc|exact IH]. Qed.

(* ---- values of the runs of cells -------------------------------------------------------------------------------------------- *)

Lemma dec_value_zeros a : forall n, dec_value_from n (repeat 48 a) = n * 10 ^ Z.of_nat a.
Proof.
  induction a as [|a IH]; intros n; [cbn; lia|].
  cbn [repeat]. change (dec_value_from n (48 :: repeat 48 a)) with (dec_value_from (digit_step n 48) (repeat 48 a)).
  rewrite IH. unfold digit_step. rewrite Nat2Z.inj_succ, Z.pow_succ_r by lia. ring.
Qed.

Lemma dec_value_tags M k : forall hi n, 0 <= hi + 1 - Z.of_nat k ->
  dec_value_from n (map (subst M) (tagseq hi k)) = n * 10 ^ Z.of_nat k + (M / 10 ^ (hi + 1 - Z.of_nat k)) mod 10 ^ Z.of_nat k.
Proof.
  induction k as [|k IH]; intros hi n H.
  - cbn [tagseq map]. change (Z.of_nat 0) with 0. rewrite Z.pow_0_r, Z.mod_1_r. cbn. lia.
  - cbn [tagseq map].
    change (dec_value_from n (subst M (2000 + hi) :: map (subst M) (tagseq (hi - 1) k)))
      with (dec_value_from (digit_step n (subst M (2000 + hi))) (map (subst M) (tagseq (hi - 1) k))).
    rewrite IH by lia. unfold digit_step, subst. replace (2000 <=? 2000 + hi) with true by lia.
    replace (2000 + hi - 2000) with hi by lia.
    replace (hi - 1 + 1 - Z.of_nat k) with (hi + 1 - Z.of_nat (S k)) by lia.
    set (e := hi + 1 - Z.of_nat (S k)) in *. set (Q := M / 10 ^ e).
    assert (Hk : 0 <= Z.of_nat k) by lia.
    assert (Hp : 0 < 10 ^ Z.of_nat k) by (apply Z.pow_pos_nonneg; lia).
    assert (Hd : dig M hi = (Q / 10 ^ Z.of_nat k) mod 10).
    { unfold dig, Q. rewrite Z.div_div by (try lia; apply Z.pow_nonzero; lia).
      rewrite <- Z.pow_add_r by lia. f_equal. f_equal. f_equal. lia. }
    rewrite Hd. rewrite Nat2Z.inj_succ, Z.pow_succ_r by lia.
    rewrite (Z.mul_comm 10 (10 ^ Z.of_nat k)). rewrite Z.rem_mul_r by lia. ring.
Qed.

(* the cells of the expected form denote (M / 10^(L-k)) * 10^b *)
Lemma tag_cells_value M L a k b : 0 <= M < 10 ^ L -> 0 <= L - Z.of_nat k ->
  dec_value (map (subst M) (tag_cells L a k b)) = M / 10 ^ (L - Z.of_nat k) * 10 ^ Z.of_nat b.
Proof.
  intros HM Hk. unfold tag_cells, dec_value. rewrite !map_app, !map_subst_zeros, !dec_value_from_app.
  rewrite dec_value_zeros, dec_value_tags by lia. rewrite dec_value_zeros. f_equal.
  replace (L - 1 + 1 - Z.of_nat k) with (L - Z.of_nat k) by lia.
  rewrite Z.mod_small; [ring|]. split; [apply Z.div_pos; [lia|apply Z.pow_pos_nonneg; lia]|].
  apply Z.div_lt_upper_bound; [apply Z.pow_pos_nonneg; lia|]. rewrite <- Z.pow_add_r by lia.
  replace (L - Z.of_nat k + Z.of_nat k) with L by lia. lia.
Qed.

(* ---- the value function on a literal given by its parts ----------------------------------------------------------------- *)

Lemma drop_digits_app ds rest : all_digits ds -> stops rest -> drop_digits (ds ++ rest) = rest.
Proof.
  intros Hd Hs. induction Hd as [|c t Hc Ht IH]; cbn [app drop_digits].
  - destruct rest as [|c r]; [reflexivity|]. cbn in Hs. cbn [drop_digits]. rewrite Hs. reflexivity.
  - rewrite Hc. exact IH.
Qed.

Definition exp_part (ex : list Z) : Prop := ex = [] \/ exists t, ex = 101 :: t.

Lemma exp_part_stops ex : exp_part ex -> stops ex.
Proof. intros [->|(t & ->)]; [exact I|reflexivity]. Qed.

Lemma lit_mant_exp_parts ip fp ex (hasdot : bool) : all_digits ip -> all_digits fp -> exp_part ex ->
  (hasdot = false -> fp = []) ->
  lit_mant_exp (ip ++ (if hasdot then 46 :: fp else []) ++ ex) = (dec_value (ip ++ fp), exp_value ex - len fp).
Proof.
  intros Hip Hfp Hex Hnd. pose proof (exp_part_stops ex Hex) as Hst. unfold lit_mant_exp. destruct hasdot.
  - cbn [app]. rewrite take_digits_app by (try assumption; reflexivity). rewrite drop_digits_app by (try assumption; reflexivity).
    change (46 =? 46) with true. cbv iota. rewrite take_digits_app, drop_digits_app by assumption. reflexivity.
  - rewrite (Hnd eq_refl). cbn [app]. rewrite app_nil_r. rewrite take_digits_app, drop_digits_app by assumption.
    change (len (@nil Z)) with 0. destruct Hex as [->|(t & ->)]; [reflexivity|]. change (101 =? 46) with false. cbv iota. f_equal. lia.
Qed.

(* ---- the expected form is a literal denoting M * 10^-prec, for every M of the shape ------------------------------- *)

Lemma tag_form_sound neg L z prec M a k b p hasdot ex :
  tag_side L z prec a k b p hasdot ex = true -> shape_of L z M ->
  let out := map (subst M) (rebuild neg L a k b p hasdot ex) in
  float_literal neg out /\ lit_neg out = neg /\
  exists q t0 bb, 0 <= t0 /\ 0 <= bb /\ M = q * 10 ^ t0 /\ lit_mant_exp (lit_body out) = (q * 10 ^ bb, t0 - prec - bb).
Proof.
  intros Hside (Hn & Hz & Hmod & _) out. unfold tag_side in Hside. cbv zeta in Hside.
  repeat (apply andb_true_iff in Hside; destruct Hside as [Hside ?]).
  rename Hside into Hexb, H into Hw, H0 into Hp, H1 into Ht0z, H2 into Ht0, H3 into Hk1, H4 into Hexs.
  pose proof (lit_exp_sound ex Hexb) as Hexf.
  assert (Hexp : exp_part ex) by (destruct Hexf as [->|(ds & _ & _ & [-> | ->])]; [left; reflexivity|right; eauto|right; eauto]).
  assert (HM : 10 ^ (L - 1) <= M < 10 ^ L) by (destruct Hn as [[? _]|[_ ?]]; [lia|assumption]).
  assert (HMpos : 0 <= M) by (assert (0 < 10 ^ (L - 1)) by (apply Z.pow_pos_nonneg; lia); lia).
  set (cs := tag_cells L a k b) in *.
  assert (Hlen : length cs = (a + k + b)%nat) by (unfold cs, tag_cells; rewrite !app_length, !repeat_length, tagseq_length; lia).
  assert (Hcells : Forall (fun c => c = 48 \/ 2000 <= c) cs).
  { unfold cs, tag_cells. apply Forall_app. split; [apply zeros_cells|]. apply Forall_app. split; [apply tagseq_ge; lia|apply zeros_cells]. }
  set (ipc := firstn p cs). set (fpc := if hasdot then skipn p cs else []).
  assert (Hsplit : ipc ++ fpc = cs).
  { unfold ipc, fpc. destruct hasdot; [apply firstn_skipn|]. rewrite app_nil_r. apply firstn_all2. lia. }
  assert (Hfplen : len fpc = Z.of_nat (a + k + b) - Z.of_nat p).
  { unfold fpc, len. destruct hasdot; [rewrite skipn_length; lia|cbn [length]; lia]. }
  assert (Hall : all_digits (map (subst M) cs)) by (apply cells_digits; exact Hcells).
  rewrite <- Hsplit, map_app in Hall. apply Forall_app in Hall. destruct Hall as [Hipd Hfpd].
  set (ip := map (subst M) ipc) in *. set (fp := map (subst M) fpc) in *.
  assert (Hfpl : len fp = len fpc) by (unfold fp, len; rewrite map_length; reflexivity).
  assert (Hbody : out = (if neg then [45] else []) ++ ip ++ (if hasdot then 46 :: fp else []) ++ ex).
  { unfold out, rebuild. fold cs. fold ipc. rewrite !map_app. fold ip. rewrite (map_subst_small M ex Hexs).
    f_equal; [destruct neg; reflexivity|]. f_equal. f_equal. destruct hasdot; [|reflexivity]. cbn [map]. rewrite subst_small by lia. reflexivity. }
  assert (Hfpnil : hasdot = false -> fp = []) by (intros ->; reflexivity).
  assert (Hfpne : hasdot = true -> fp <> []).
  { intros -> E. rewrite E in Hfpl. change (len (@nil Z)) with 0 in Hfpl. lia. }
  assert (Hdot : (if hasdot then 46 :: fp else []) = match fp with [] => [] | _ => 46 :: fp end).
  { destruct hasdot; [|rewrite (Hfpnil eq_refl); reflexivity]. specialize (Hfpne eq_refl). destruct fp; [contradiction|reflexivity]. }
  (* the head of the unsigned part is not '-' *)
  assert (Hhead : lit_neg (ip ++ (if hasdot then 46 :: fp else []) ++ ex) = false).
  { destruct ip as [|c ip'] eqn:Eip.
    - destruct hasdot; [reflexivity|]. exfalso.
      assert (len ip = 0) by (rewrite Eip; reflexivity). unfold ip, ipc, len in H. rewrite map_length, firstn_length in H. lia.
    - inversion Hipd as [|? ? Hc _]; subst. apply is_digit_range in Hc. cbn [app lit_neg]. lia. }
  split; [|split].
  - exists ip, fp, ex. split; [rewrite Hbody, Hdot; reflexivity|]. split; [exact Hipd|]. split; [exact Hfpd|]. split; [|exact Hexf].
    destruct hasdot; [right; apply Hfpne; reflexivity|]. left. intros E.
    assert (len ip = 0) by (rewrite E; reflexivity). unfold ip, ipc, len in H. rewrite map_length, firstn_length in H. lia.
  - rewrite Hbody. destruct neg; [reflexivity|exact Hhead].
  - assert (Hlb : lit_body out = ip ++ (if hasdot then 46 :: fp else []) ++ ex).
    { rewrite Hbody. destruct neg; [reflexivity|]. cbn [app]. unfold lit_body. rewrite Hhead. reflexivity. }
    rewrite Hlb. rewrite (lit_mant_exp_parts ip fp ex hasdot Hipd Hfpd Hexp Hfpnil).
    unfold ip, fp. rewrite <- map_app, Hsplit. unfold cs. rewrite (tag_cells_value M L a k b ltac:(lia) ltac:(lia)). fold cs.
    set (t0 := L - Z.of_nat k) in *.
    exists (M / 10 ^ t0), t0, (Z.of_nat b). split; [lia|]. split; [lia|]. split.
    + assert (Hp0 : 0 < 10 ^ t0) by (apply Z.pow_pos_nonneg; lia).
      assert (Hsp : 10 ^ z = 10 ^ t0 * 10 ^ (z - t0)) by (rewrite <- Z.pow_add_r by lia; f_equal; lia).
      pose proof (Z.div_mod M (10 ^ z) ltac:(apply Z.pow_nonzero; lia)) as E. rewrite Hmod, Z.add_0_r in E.
      set (w := M / 10 ^ z) in E.
      assert (E2 : M = (10 ^ (z - t0) * w) * 10 ^ t0) by (rewrite E at 1; rewrite Hsp; ring).
      rewrite E2 at 2. rewrite Z.div_mul by lia. exact E2.
    + f_equal. fold fp. rewrite Hfpl, Hfplen. lia.
Qed.
