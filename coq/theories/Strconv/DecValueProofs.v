(* Strconv/DecValueProofs.v — the exact fast path of ParseDecimal (decimal.go): at most 18 characters from
   the first non-zero digit on, digits denoting n < 2^53, at most 22 decimals => correctly rounded. *)
From Coq Require Import ZArith Reals Lia Lra Floats.SpecFloat ZifyBool.
From Flocq Require Import Core.Core IEEE754.BinarySingleNaN.
From Flocq Require IEEE754.PrimFloat.
From Verif Require Import Common.Base Common.Tactics Strconv.Model Strconv.FModel Strconv.IntProofs Strconv.NumProofs Strconv.ScanProofs Strconv.FloatProofs Gen.Tables.
Open Scope Z_scope.
#[local] Existing Instance Flocq.IEEE754.PrimFloat.Hprec.
#[local] Existing Instance Flocq.IEEE754.PrimFloat.Hmax.

(* ---- one multiplication / division by an exact power of ten ------------------------------------------- *)

Lemma mul_pow10_B (X : bin64) k : is_finite X = true -> (Rabs (B2R X) <= IZR (2 ^ 53))%R -> 0 <= k <= 22 ->
  exists v : bin64, fmul (B2SF X) (f_of_Z (10 ^ k)) = B2SF v /\ is_finite v = true /\
                    B2R v = round64 (B2R X * IZR (10 ^ k)).
Proof.
  intros HXF HXR Hk. rewrite (f_of_Z_B (10 ^ k)).
  destruct (pow10_exact k Hk) as [HPR HPF]. set (P := BofZ (10 ^ k)) in *.
  rewrite fmul_B. exists (Bmult mode_NE X P). split; [reflexivity|].
  pose proof (Bmult_correct 53 1024 HPrec HMax mode_NE X P) as HM.
  change (round_mode mode_NE) with ZnearestE in HM. fold (round64 (B2R X * B2R P)) in HM.
  rewrite Rlt_bool_true in HM.
  - destruct HM as (HM1 & HM2 & _). split; [rewrite HM2, HXF, HPF; reflexivity|]. rewrite HM1, HPR. reflexivity.
  - apply bpow_1024_gt. rewrite HPR, Rabs_mult.
    rewrite (Rabs_pos_eq (IZR (10 ^ k))) by (apply Rlt_le, IZR_pow10_pos; lia).
    apply Rle_trans with (IZR (2 ^ 53) * IZR (10 ^ 22))%R.
    + apply Rmult_le_compat; [apply Rabs_pos|apply Rlt_le, IZR_pow10_pos; lia|exact HXR|apply IZR_le, Z.pow_le_mono_r; lia].
    + rewrite <- mult_IZR. rewrite <- IZR_Zpower by lia. apply IZR_le. vm_compute. discriminate.
Qed.

Lemma div_pow10_B (X : bin64) k : is_finite X = true -> (Rabs (B2R X) <= IZR (2 ^ 53))%R -> 0 <= k <= 22 ->
  exists v : bin64, fdiv (B2SF X) (f_of_Z (10 ^ k)) = B2SF v /\ is_finite v = true /\
                    B2R v = round64 (B2R X / IZR (10 ^ k)).
Proof.
  intros HXF HXR Hk. rewrite (f_of_Z_B (10 ^ k)).
  destruct (pow10_exact k Hk) as [HPR HPF]. set (P := BofZ (10 ^ k)) in *.
  rewrite fdiv_B. exists (Bdiv mode_NE X P). split; [reflexivity|].
  pose proof (IZR_pow10_pos k ltac:(lia)) as Hpos.
  pose proof (Bdiv_correct 53 1024 HPrec HMax mode_NE X P ltac:(rewrite HPR; lra)) as HD.
  change (round_mode mode_NE) with ZnearestE in HD. fold (round64 (B2R X / B2R P)) in HD.
  rewrite Rlt_bool_true in HD.
  - destruct HD as (HD1 & HD2 & _). split; [rewrite HD2; exact HXF|]. rewrite HD1, HPR. reflexivity.
  - apply bpow_1024_gt. rewrite HPR. unfold Rdiv. rewrite Rabs_mult.
    rewrite (Rabs_pos_eq (/ IZR (10 ^ k))) by (apply Rlt_le, Rinv_0_lt_compat; exact Hpos).
    apply Rle_trans with (IZR (2 ^ 53) * 1)%R.
    + apply Rmult_le_compat; [apply Rabs_pos|apply Rlt_le, Rinv_0_lt_compat; exact Hpos|exact HXR|].
      rewrite <- Rinv_1. apply Rinv_le; [lra|]. apply (IZR_le 1). pose proof (Z.pow_pos_nonneg 10 k ltac:(lia) ltac:(lia)). lia.
    + rewrite Rmult_1_r. rewrite <- IZR_Zpower by lia. apply IZR_le. vm_compute. discriminate.
Qed.

(* sign * float64(n) with sign = +-1.0 *)
Lemma signed_one_mul (neg : bool) n : 0 <= n < 2 ^ 53 ->
  exists X : bin64, fmul (if neg then fneg fone else fone) (f_of_Z n) = B2SF X /\ is_finite X = true /\
                    B2R X = (if neg then (- IZR n)%R else IZR n).
Proof.
  intros Hn. change fone with (f_of_Z 1). rewrite (f_of_Z_B 1), (f_of_Z_B n).
  destruct (BofZ_small 1 ltac:(vm_compute; reflexivity)) as [H1R H1F].
  destruct (BofZ_small n ltac:(lia)) as [HnR HnF].
  set (S := if neg then Bopp (BofZ 1) else BofZ 1).
  assert (HS : (if neg then fneg (B2SF (BofZ 1)) else B2SF (BofZ 1)) = B2SF S) by (unfold S; destruct neg; [apply fneg_B|reflexivity]).
  rewrite HS. rewrite fmul_B. exists (Bmult mode_NE S (BofZ n)). split; [reflexivity|].
  assert (HSR : B2R S = (if neg then (-1)%R else 1%R)) by (unfold S; destruct neg; [rewrite B2R_Bopp, H1R|rewrite H1R]; reflexivity).
  assert (HSF : is_finite S = true) by (unfold S; destruct neg; [rewrite is_finite_Bopp|]; exact H1F).
  pose proof (Bmult_correct 53 1024 HPrec HMax mode_NE S (BofZ n)) as HM.
  change (round_mode mode_NE) with ZnearestE in HM. fold (round64 (B2R S * B2R (BofZ n))) in HM.
  assert (Hprod : (B2R S * B2R (BofZ n))%R = IZR (if neg then - n else n)).
  { rewrite HSR, HnR. destruct neg; [rewrite opp_IZR|]; lra. }
  assert (Hfmt : generic_format radix2 (fexp 53 1024) (IZR (if neg then - n else n))).
  { apply generic_format_FLT. apply (FLT_spec radix2 (3 - 1024 - 53) 53 _ (Float radix2 (if neg then - n else n) 0)).
    - unfold F2R. simpl. lra.
    - simpl. destruct neg; lia.
    - simpl. lia. }
  rewrite Hprod in HM. unfold round64 in HM. rewrite (round_generic radix2 (fexp 53 1024) ZnearestE _ Hfmt) in HM.
  rewrite Rlt_bool_true in HM.
  - destruct HM as (HM1 & HM2 & _). split; [rewrite HM2, HSF, HnF; reflexivity|].
    rewrite HM1. destruct neg; [rewrite opp_IZR|]; reflexivity.
  - apply Rlt_le_trans with (bpow radix2 53); [|apply bpow_le; lia].
    rewrite <- abs_IZR. rewrite <- IZR_Zpower by lia. apply IZR_lt. change (radix_val radix2) with 2. destruct neg; lia.
Qed.

(* ---- the loop of ParseDecimal on the pieces of a decimal number ------------------------------------------- *)

Definition all_zeros (zs : list Z) : Prop := Forall (fun c => c = 48) zs.
Definition nonzero_digit (c : Z) : Prop := 49 <= c <= 57.

Lemma pd_zeros zs : all_zeros zs -> forall rest i dot,
  pd_scan (zs ++ rest) i (-1) dot 0 = pd_scan rest (i + len zs) (-1) dot 0.
Proof.
  intros Hz. induction Hz as [|c r Hc Hr IH]; intros rest i dot.
  - cbn [app]. change (len (@nil Z)) with 0. rewrite Z.add_0_r. reflexivity.
  - subst c. cbn [app pd_scan]. change (is_digit 48) with true. change (-1 =? -1) with true.
    change ((49 <=? 48) && (48 <=? 57)) with false. cbv iota. rewrite IH, len_cons. f_equal. lia.
Qed.

Lemma pd_first c t i dot n : nonzero_digit c -> pd_scan (c :: t) i (-1) dot n = pd_scan t (i + 1) i dot (c - 48).
Proof.
  intros Hc. unfold nonzero_digit in Hc. cbn [pd_scan].
  replace (is_digit c) with true by (unfold is_digit; lia). change (-1 =? -1) with true.
  replace ((49 <=? c) && (c <=? 57)) with true by lia. cbv iota.
  unfold byte. rewrite (Z.mod_small (c - 48)) by lia. rewrite u64_small by (unfold two64; lia). reflexivity.
Qed.

Lemma pd_digits ds : all_digits ds -> forall rest i start dot n,
  0 <= start <= i -> i + len ds - start <= 18 -> 0 <= n -> dec_value_from n ds < two64 ->
  pd_scan (ds ++ rest) i start dot n = pd_scan rest (i + len ds) start dot (dec_value_from n ds).
Proof.
  intros Hd. induction Hd as [|c r Hc Hr IH]; intros rest i start dot n Hs Hlen Hn Hb.
  - cbn [app dec_value_from fold_left]. change (len (@nil Z)) with 0. rewrite Z.add_0_r. reflexivity.
  - cbn [app pd_scan]. rewrite Hc. rewrite len_cons in Hlen. pose proof (len_nonneg r).
    replace (start =? -1) with false by lia. replace (i - start <? 18) with true by lia.
    change (dec_value_from n (c :: r)) with (dec_value_from (digit_step n c) r) in *.
    rewrite (byte_digit c Hc). pose proof Hc as Hc'. apply is_digit_range in Hc'.
    assert (Hmono : digit_step n c <= dec_value_from (digit_step n c) r).
    { apply dec_value_from_ge; [unfold digit_step; lia|exact Hr]. }
    unfold digit_step in *.
    rewrite (u64_small (n * 10)) by lia. rewrite (u64_small (n * 10 + (c - 48))) by lia.
    rewrite IH by lia. rewrite len_cons. f_equal. lia.
Qed.

Lemma pd_dot t i start n : pd_scan (46 :: t) i start (-1) n = pd_scan t (i + 1) start i n.
Proof. reflexivity. Qed.

Lemma pd_tail tail i start d n : ends_mant (negb (d =? -1)) tail -> pd_scan tail i start d n = (i, start, d, n).
Proof.
  destruct tail as [|c t]; [reflexivity|]. intros [Hc Hdot]. cbn [pd_scan]. rewrite Hc.
  destruct (c =? 46) eqn:E; [|reflexivity].
  destruct (d =? -1) eqn:Ed; cbn [negb] in *; [|reflexivity]. specialize (Hdot eq_refl). lia.
Qed.

(* ---- LenUint of a digit string without leading zero -------------------------------------------------------- *)

Lemma dec_value_from_bounds ds : all_digits ds -> forall n, 0 <= n ->
  n * 10 ^ len ds <= dec_value_from n ds < (n + 1) * 10 ^ len ds.
Proof.
  intros Hd. induction Hd as [|c r Hc Hr IH]; intros n Hn.
  - cbn [dec_value_from fold_left]. change (len (@nil Z)) with 0. rewrite Z.pow_0_r. lia.
  - change (dec_value_from n (c :: r)) with (dec_value_from (digit_step n c) r).
    apply is_digit_range in Hc. unfold digit_step. rewrite len_cons. pose proof (len_nonneg r).
    replace (1 + len r) with (Z.succ (len r)) by lia. rewrite Z.pow_succ_r by lia.
    specialize (IH (n * 10 + (c - 48)) ltac:(lia)).
    assert (0 < 10 ^ len r) by (apply Z.pow_pos_nonneg; lia). nia.
Qed.

Lemma len_uint_dec_value c t : nonzero_digit c -> all_digits t -> len (c :: t) <= 19 ->
  len_uint (dec_value (c :: t)) = len (c :: t) /\ 0 < dec_value (c :: t) < 10 ^ len (c :: t).
Proof.
  intros Hc Ht Hl. unfold nonzero_digit in Hc. rewrite len_cons in *. pose proof (len_nonneg t) as H0.
  unfold dec_value. change (dec_value_from 0 (c :: t)) with (dec_value_from (c - 48) t).
  pose proof (dec_value_from_bounds t Ht (c - 48) ltac:(lia)) as Hb.
  set (v := dec_value_from (c - 48) t) in *.
  assert (Hp : 0 < 10 ^ len t) by (apply Z.pow_pos_nonneg; lia).
  assert (Hlo : 10 ^ len t <= v) by nia.
  assert (Hhi : v < 10 ^ (1 + len t)).
  { replace (1 + len t) with (Z.succ (len t)) by lia. rewrite Z.pow_succ_r by lia. nia. }
  split; [|lia].
  assert (H19 : 10 ^ (1 + len t) <= 10 ^ 19) by (apply Z.pow_le_mono_r; lia).
  rewrite len_uint_spec by (unfold two64; change (10 ^ 19) with 10000000000000000000 in H19; lia).
  replace (1 + len t) with (Z.of_nat (Z.to_nat (1 + len t))) by lia.
  apply rdigits_len; [lia|]. rewrite Z2Nat.id by lia. replace (1 + len t - 1) with (len t) by lia. lia.
Qed.

(* ---- ParseDecimal: the first non-zero digit is in front of the dot (or there is no dot) ----------------- *)

Theorem parse_decimal_fastpath_int_proof : forall sg zs d1 ip' fp (dot : bool) tail,
  (sg = [] \/ sg = [45]) -> all_zeros zs -> nonzero_digit d1 -> all_digits ip' -> all_digits fp ->
  (dot = false -> fp = []) -> ends_mant dot tail ->
  len (d1 :: ip') + (if dot then 1 + len fp else 0) <= 18 ->
  let n := dec_value ((d1 :: ip') ++ fp) in
  n < 2 ^ 53 ->
  exists (v : bin64) k,
    parse_decimal (sg ++ zs ++ (d1 :: ip') ++ (if dot then 46 :: fp else []) ++ tail) = Ok (B2SF v, k) /\
    is_finite v = true /\ B2R v = round64 (dec_real (sign_neg sg) n (- len fp)).
Proof.
  intros sg zs d1 ip' fp dot tail Hsg Hzs Hd1 Hip' Hfp Hdotfp Hend Hlen n Hn53.
  set (l := zs ++ (d1 :: ip') ++ (if dot then 46 :: fp else []) ++ tail).
  set (st := len sg). assert (Hst : 0 <= st) by apply len_nonneg.
  pose proof (len_nonneg zs) as Hlz. pose proof (len_nonneg ip') as Hli. pose proof (len_nonneg fp) as Hlf.
  rewrite len_cons in Hlen.
  assert (Hfp17 : len fp <= 17).
  { destruct dot; [lia|]. rewrite (Hdotfp eq_refl). change (len (@nil Z)) with 0. lia. }
  assert (Hall : all_digits (ip' ++ fp)) by (apply Forall_app; split; assumption).
  destruct (len_uint_dec_value d1 (ip' ++ fp) Hd1 Hall) as [HL Hnpos].
  { rewrite len_cons, len_app. destruct dot; [|rewrite (Hdotfp eq_refl) in *; change (len (@nil Z)) with 0]; lia. }
  change (dec_value (d1 :: ip' ++ fp)) with n in HL, Hnpos. rewrite len_cons, len_app in HL.
  assert (Hnv : n = dec_value_from (dec_value_from (d1 - 48) ip') fp).
  { unfold n, dec_value. cbn [app]. change (dec_value_from 0 (d1 :: ip' ++ fp)) with (dec_value_from (d1 - 48) (ip' ++ fp)).
    apply dec_value_from_app. }
  assert (Hd1' : 1 <= d1 - 48 <= 9) by (unfold nonzero_digit in Hd1; lia).
  assert (Hipv : 0 <= dec_value_from (d1 - 48) ip' <= n).
  { assert (d1 - 48 <= dec_value_from (d1 - 48) ip') by (apply dec_value_from_ge; [lia|exact Hip']).
    rewrite Hnv. split; [lia|]. apply dec_value_from_ge; [lia|exact Hfp]. }
  assert (H264 : 2 ^ 53 < two64) by (vm_compute; reflexivity).
  (* the scan *)
  assert (Hscan : pd_scan l st (-1) (-1) 0 =
     (st + len zs + (1 + len ip') + (if dot then 1 + len fp else 0), st + len zs,
      (if dot then st + len zs + (1 + len ip') else -1), n)).
  { unfold l. rewrite pd_zeros by exact Hzs. cbn [app]. rewrite pd_first by exact Hd1.
    rewrite pd_digits by (try assumption; lia).
    destruct dot.
    - cbn [app]. rewrite pd_dot. rewrite pd_digits by (try assumption; try lia).
      rewrite <- Hnv. rewrite pd_tail.
      + f_equal. f_equal. f_equal; lia. lia.
      + replace (st + len zs + 1 + len ip' =? -1) with false by lia. exact Hend.
    - pose proof (Hdotfp eq_refl) as Hf. subst fp. cbn [app]. rewrite pd_tail by exact Hend.
      cbn [dec_value_from fold_left] in Hnv. rewrite <- Hnv. change (len (@nil Z)) with 0. f_equal. f_equal. f_equal. lia. }
  (* the sign *)
  assert (Hneg : match sg ++ l with c :: _ => c =? 45 | [] => false end = sign_neg sg /\
                 (if sign_neg sg then tl (sg ++ l) else sg ++ l) = l /\ (if sign_neg sg then 1 else 0) = st).
  { destruct Hsg as [-> | ->]; [|repeat split].
    cbn [app sign_neg]. split; [|split; reflexivity].
    unfold l. destruct Hzs as [|z zs' Hz _]; cbn [app]; [unfold nonzero_digit in Hd1; lia|subst z; reflexivity]. }
  destruct Hneg as (Hneg1 & Hneg2 & Hneg3).
  unfold parse_decimal. fold l. rewrite Hneg1, Hneg2, Hneg3, Hscan. cbn [fst snd].
  set (i := st + len zs + (1 + len ip') + (if dot then 1 + len fp else 0)).
  replace ((i =? 1) && ((if dot then st + len zs + (1 + len ip') else -1) =? 0)) with false by (unfold i; destruct dot; lia).
  replace (st + len zs =? -1) with false by lia.
  set (dotv := if (if dot then st + len zs + (1 + len ip') else -1) =? -1 then i else (if dot then st + len zs + (1 + len ip') else -1)).
  assert (Hdotv : dotv = st + len zs + (1 + len ip')).
  { unfold dotv, i. destruct dot.
    - replace (st + len zs + (1 + len ip') =? -1) with false by lia. reflexivity.
    - change (-1 =? -1) with true. cbv iota. lia. }
  rewrite Hdotv. cbv zeta.
  replace (st + len zs + (1 + len ip') <? st + len zs) with false by lia.
  rewrite HL.
  replace (st + len zs + (1 + len ip') - (st + len zs) - (1 + (len ip' + len fp))) with (- len fp) by lia.
  replace (1023 <? - len fp) with false by lia. replace (- len fp <? -1022) with false by lia.
  destruct (signed_one_mul (sign_neg sg) n ltac:(lia)) as (X & HX & HXF & HXR).
  rewrite HX.
  assert (HXabs : (Rabs (B2R X) <= IZR (2 ^ 53))%R).
  { rewrite HXR. destruct (sign_neg sg); [rewrite Rabs_Ropp|]; rewrite Rabs_pos_eq by (apply IZR_le; lia); apply IZR_le; lia. }
  destruct (len fp =? 0) eqn:E0.
  - assert (Hf0 : len fp = 0) by lia. rewrite Hf0. change (- 0) with 0. change ((0 <=? 0) && (0 <? 23)) with true. cbv iota.
    rewrite (f64pow10_exact 0) by lia. cbn [rbind].
    destruct (mul_pow10_B X 0 HXF HXabs ltac:(lia)) as (v & Hv & HvF & HvR).
    rewrite Hv. exists v, i. split; [reflexivity|]. split; [exact HvF|].
    rewrite HvR, HXR. unfold dec_real. change (0 <=? - 0) with true. cbv iota. reflexivity.
  - replace ((0 <=? - len fp) && (- len fp <? 23)) with false by lia.
    replace ((-22 <=? - len fp) && (- len fp <? 0)) with true by lia.
    replace (- - len fp) with (len fp) by lia.
    rewrite (f64pow10_exact (len fp)) by lia. cbn [rbind].
    destruct (div_pow10_B X (len fp) HXF HXabs ltac:(lia)) as (v & Hv & HvF & HvR).
    rewrite Hv. exists v, i. split; [reflexivity|]. split; [exact HvF|].
    rewrite HvR, HXR. unfold dec_real. replace (0 <=? - len fp) with false by lia.
    replace (- - len fp) with (len fp) by lia. reflexivity.
Qed.

(* ---- ParseDecimal: the dot comes before the first non-zero digit  (0.000ddd, .ddd) ---------------------- *)

Theorem parse_decimal_fastpath_frac_proof : forall sg zs1 zs2 d1 sp' tail,
  (sg = [] \/ sg = [45]) -> all_zeros zs1 -> all_zeros zs2 -> nonzero_digit d1 -> all_digits sp' ->
  ends_mant true tail ->
  len (d1 :: sp') <= 18 -> len zs2 + len (d1 :: sp') <= 22 ->
  let n := dec_value (d1 :: sp') in
  n < 2 ^ 53 ->
  exists (v : bin64) k,
    parse_decimal (sg ++ zs1 ++ 46 :: zs2 ++ (d1 :: sp') ++ tail) = Ok (B2SF v, k) /\
    is_finite v = true /\ B2R v = round64 (dec_real (sign_neg sg) n (- (len zs2 + len (d1 :: sp')))).
Proof.
  intros sg zs1 zs2 d1 sp' tail Hsg Hz1 Hz2 Hd1 Hsp' Hend Hlen Hlen2 n Hn53.
  set (l := zs1 ++ 46 :: zs2 ++ (d1 :: sp') ++ tail).
  set (st := len sg). assert (Hst : 0 <= st) by apply len_nonneg.
  pose proof (len_nonneg zs1) as Hl1. pose proof (len_nonneg zs2) as Hl2. pose proof (len_nonneg sp') as Hls.
  rewrite len_cons in *.
  destruct (len_uint_dec_value d1 sp' Hd1 Hsp' ltac:(rewrite len_cons; lia)) as [HL Hnpos].
  fold n in HL, Hnpos. rewrite len_cons in HL.
  assert (Hnv : n = dec_value_from (d1 - 48) sp') by reflexivity.
  assert (Hd1' : 1 <= d1 - 48 <= 9) by (unfold nonzero_digit in Hd1; lia).
  assert (H264 : 2 ^ 53 < two64) by (vm_compute; reflexivity).
  assert (Hscan : pd_scan l st (-1) (-1) 0 =
     (st + len zs1 + 1 + len zs2 + (1 + len sp'), st + len zs1 + 1 + len zs2, st + len zs1, n)).
  { unfold l. rewrite pd_zeros by exact Hz1. rewrite pd_dot. rewrite pd_zeros by exact Hz2.
    cbn [app]. rewrite pd_first by exact Hd1. rewrite pd_digits by (try assumption; lia).
    rewrite <- Hnv. rewrite pd_tail.
    - f_equal. f_equal. f_equal. lia.
    - replace (st + len zs1 =? -1) with false by lia. exact Hend. }
  assert (Hneg : match sg ++ l with c :: _ => c =? 45 | [] => false end = sign_neg sg /\
                 (if sign_neg sg then tl (sg ++ l) else sg ++ l) = l /\ (if sign_neg sg then 1 else 0) = st).
  { destruct Hsg as [-> | ->]; [|repeat split].
    cbn [app sign_neg]. split; [|split; reflexivity].
    unfold l. destruct Hz1 as [|z zs' Hz _]; cbn [app]; [reflexivity|subst z; reflexivity]. }
  destruct Hneg as (Hneg1 & Hneg2 & Hneg3).
  unfold parse_decimal. fold l. rewrite Hneg1, Hneg2, Hneg3, Hscan. cbn [fst snd].
  set (i := st + len zs1 + 1 + len zs2 + (1 + len sp')).
  replace ((i =? 1) && (st + len zs1 =? 0)) with false by (unfold i; lia).
  replace (st + len zs1 + 1 + len zs2 =? -1) with false by lia.
  replace (st + len zs1 =? -1) with false by lia. cbv zeta.
  replace (st + len zs1 <? st + len zs1 + 1 + len zs2) with true by lia.
  rewrite HL.
  set (k := len zs2 + (1 + len sp')) in *.
  replace (st + len zs1 - (st + len zs1 + 1 + len zs2) - (1 + len sp') + 1) with (- k) by (unfold k; lia).
  assert (Hk : 1 <= k <= 22) by (unfold k; lia).
  replace (1023 <? - k) with false by lia. replace (- k <? -1022) with false by lia.
  destruct (signed_one_mul (sign_neg sg) n ltac:(lia)) as (X & HX & HXF & HXR).
  rewrite HX.
  assert (HXabs : (Rabs (B2R X) <= IZR (2 ^ 53))%R).
  { rewrite HXR. destruct (sign_neg sg); [rewrite Rabs_Ropp|]; rewrite Rabs_pos_eq by (apply IZR_le; lia); apply IZR_le; lia. }
  replace ((0 <=? - k) && (- k <? 23)) with false by lia.
  replace ((-22 <=? - k) && (- k <? 0)) with true by lia.
  replace (- - k) with k by lia.
  rewrite (f64pow10_exact k) by lia. cbn [rbind].
  destruct (div_pow10_B X k HXF HXabs ltac:(lia)) as (v & Hv & HvF & HvR).
  rewrite Hv. exists v, i. split; [reflexivity|]. split; [exact HvF|].
  rewrite HvR, HXR. unfold dec_real. replace (0 <=? - k) with false by lia.
  replace (- - k) with k by lia. reflexivity.
Qed.

(* both sets of hypotheses are satisfiable: "-0012.50x" and "0.00125" *)
Example parse_decimal_fastpath_ex :
  all_zeros [48; 48] /\ nonzero_digit 49 /\ all_digits [50] /\ all_digits [53; 48] /\ ends_mant true [120] /\
  dec_value ([49; 50] ++ [53; 48]) = 1250 /\
  match parse_decimal [45; 48; 48; 49; 50; 46; 53; 48; 120] with Ok (v, k) => k = 8 /\ bits_of_f v = 13846598529327300608 | _ => False end /\
  match parse_decimal [48; 46; 48; 48; 49; 50; 53] with Ok (v, k) => k = 7 /\ bits_of_f v = 4563407430421976187 | _ => False end.
Proof.
  split; [repeat constructor|]. split; [unfold nonzero_digit; lia|]. split; [repeat constructor|].
  split; [repeat constructor|]. split; [split; [reflexivity|discriminate]|]. vm_compute. repeat split; reflexivity.
Qed.
