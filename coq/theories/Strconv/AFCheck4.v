(* Strconv/AFCheck4.v — AppendFloat layout: the canonical mantissas of 17..19 digits, every number of trailing
   zeros, every adjusted precision in [-350, 350], both signs, by computation. *)
From Verif Require Import Common.Base Strconv.Model Strconv.FModel Strconv.AFProofs.
Lemma af_check_17_19 : af_check_range 17 19 = true.
Proof. vm_cast_no_check (eq_refl true). Qed.
