(* Strconv/Harness.v — correspondence drivers for the strconv models (C14).
   Values >= 2^63 are passed / returned as two 32-bit halves (hi, lo). *)
From Verif Require Import Common.Base Common.Codec Strconv.Model.

Definition two32 : Z := 4294967296.
Definition enc_u64 (x : Z) : list Z := [x / two32; x mod two32].
Definition dec_u64 (hi lo : Z) : Z := hi * two32 + lo.

(* Ok l -> len l :: l ; Panic -> [-1] ; NoFuel -> [-3] *)
Definition enc_bytes (r : res (list Z)) : list Z :=
  match r with Ok l => len l :: l | Panic => [-1] | NoFuel => [-3] end.

(* sc_parseint |b| b  ->  n i *)
Definition run_sc_parseint (l : list Z) : list Z :=
  let '(b, _) := take_list l in
  let r := parse_int b in [fst r; snd r].

(* sc_parseuint |b| b  ->  hi lo i *)
Definition run_sc_parseuint (l : list Z) : list Z :=
  let '(b, _) := take_list l in
  let r := parse_uint b in enc_u64 (fst r) ++ [snd r].

(* sc_lenuint hi lo -> LenUint *)
Definition run_sc_lenuint (l : list Z) : list Z :=
  [len_uint (dec_u64 (hdz l) (hdz (tlz l)))].

(* sc_appendint num |b| b |spare| spare  ->  LenInt num, then the result *)
Definition run_sc_appendint (l : list Z) : list Z :=
  let num := hdz l in
  let '(b, r1) := take_list (tlz l) in
  let '(sp, _) := take_list r1 in
  len_int num :: enc_bytes (append_int b sp num).

(* sc_parsenumber gs ds |b| b  ->  num dec n *)
Definition run_sc_parsenumber (l : list Z) : list Z :=
  let gs := hdz l in
  let ds := hdz (tlz l) in
  let '(b, _) := take_list (tlz (tlz l)) in
  match parse_number b gs ds with
  | Ok (num, dec, n) => [num; dec; n]
  | Panic => [-1]
  | NoFuel => [-3]
  end.

(* sc_appendnumber num dec gsize gs ds |b| b |spare| spare  ->  the result *)
Definition run_sc_appendnumber (l : list Z) : list Z :=
  let num := hdz l in
  let l1 := tlz l in
  let dec := hdz l1 in
  let l2 := tlz l1 in
  let gsize := hdz l2 in
  let l3 := tlz l2 in
  let gs := hdz l3 in
  let l4 := tlz l3 in
  let ds := hdz l4 in
  let '(b, r1) := take_list (tlz l4) in
  let '(sp, _) := take_list r1 in
  enc_bytes (append_number b sp num dec gsize gs ds).

(* ---- float.go / decimal.go ---------------------------------------------------------------------- *)
From Verif Require Import Strconv.FModel.

Definition enc_float_res (r : res (f64 * Z)) : list Z :=
  match r with
  | Ok (f, n) => enc_u64 (bits_of_f f) ++ [n]
  | Panic => [-1]
  | NoFuel => [-3]
  end.

(* sc_parsefloat |b| b  ->  bits(hi lo) n *)
Definition run_sc_parsefloat (l : list Z) : list Z :=
  let '(b, _) := take_list l in enc_float_res (parse_float b).

(* sc_parsedecimal |b| b  ->  bits(hi lo) n *)
Definition run_sc_parsedecimal (l : list Z) : list Z :=
  let '(b, _) := take_list l in enc_float_res (parse_decimal b).

(* sc_appenddecimal hi lo dec |b| b |spare| spare  ->  the result *)
Definition run_sc_appenddecimal (l : list Z) : list Z :=
  let f := f_of_bits (dec_u64 (hdz l) (hdz (tlz l))) in
  let dec := hdz (tlz (tlz l)) in
  let '(b, r1) := take_list (tlz (tlz (tlz l))) in
  let '(sp, _) := take_list r1 in
  enc_bytes (append_decimal b sp f dec).

(* sc_appendfloat hi lo prec |b| b |spare| spare  ->  the result *)
Definition run_sc_appendfloat (l : list Z) : list Z :=
  let f := f_of_bits (dec_u64 (hdz l) (hdz (tlz l))) in
  let prec := hdz (tlz (tlz l)) in
  let '(b, r1) := take_list (tlz (tlz (tlz l))) in
  let '(sp, _) := take_list r1 in
  enc_bytes (append_float b sp f prec).

(* sc_float64exp hi lo -> float64exp *)
Definition run_sc_float64exp (l : list Z) : list Z :=
  [float64exp (f_of_bits (dec_u64 (hdz l) (hdz (tlz l))))].
