(* Strconv/AccuracyProofs.v — accuracy of ParseFloat / ParseDecimal outside the exact fast paths: every operation is
   one binary64 rounding (relative error <= 2^-53 in the normal range), math.Pow10's table entries are within 2^-51
   of the powers of ten (checked on the table), so with at most 5 such factors the result is within
   6 * 2^-51 < 2.7e-15 of the exact decimal value, and within 1e-14 of its correct rounding. *)
From Coq Require Import ZArith Reals Lia Lra Psatz Floats.SpecFloat.
From Flocq Require Import Core.Core IEEE754.BinarySingleNaN.
Require Import Flocq.Prop.Relative.
From Flocq Require IEEE754.PrimFloat.
From Verif Require Import Common.Base Common.Tactics Strconv.Model Strconv.FModel Strconv.IntProofs Strconv.NumProofs Strconv.ScanProofs
  Strconv.FloatProofs Strconv.DecValueProofs Gen.Tables.
Open Scope Z_scope.
#[local] Existing Instance Flocq.IEEE754.PrimFloat.Hprec.
#[local] Existing Instance Flocq.IEEE754.PrimFloat.Hmax.

(* ---- relative errors -------------------------------------------------------------------------------------------------- *)

Definition u53 : R := (/ IZR (2 ^ 53))%R.      (* one rounding to nearest in the normal range *)
Definition uu : R := (/ IZR (2 ^ 51))%R.       (* the bound used for every factor (covers math.Pow10's entries) *)

(* x approximates v with k factors (1 + eps), |eps| <= uu *)
Definition approx (k : nat) (x v : R) : Prop :=
  exists eps, x = (v * (1 + eps))%R /\ (Rabs eps <= (1 + uu) ^ k - 1)%R.

Lemma uu_pos : (0 < uu)%R.
Proof. unfold uu. apply Rinv_0_lt_compat. apply IZR_lt. reflexivity. Qed.
Lemma u53_le_uu : (u53 <= uu)%R.
Proof. unfold u53, uu. apply Rinv_le; [apply IZR_lt; reflexivity|apply IZR_le; vm_compute; discriminate]. Qed.
Lemma uu_small : (uu <= / 100)%R.
Proof. unfold uu. apply Rinv_le; [lra|apply IZR_le; vm_compute; discriminate]. Qed.

Lemma pow1u_ge1 k : (1 <= (1 + uu) ^ k)%R.
Proof. apply pow_R1_Rle. pose proof uu_pos. lra. Qed.

Lemma approx_exact v : approx 0 v v.
Proof. exists 0%R. split; [ring|]. rewrite Rabs_R0. simpl. lra. Qed.

Lemma approx_step k x y v d : approx k x v -> y = (x * (1 + d))%R -> (Rabs d <= uu)%R -> approx (S k) y v.
Proof.
  intros (eps & -> & He) -> Hd. exists (eps + d + eps * d)%R. split; [ring|].
  pose proof (pow1u_ge1 k) as H1. pose proof uu_pos as Hu.
  eapply Rle_trans; [apply Rabs_triang|]. eapply Rle_trans; [apply Rplus_le_compat_r; apply Rabs_triang|]. rewrite Rabs_mult.
  assert (Rabs eps * Rabs d <= ((1 + uu) ^ k - 1) * uu)%R by (apply Rmult_le_compat; try apply Rabs_pos; assumption).
  simpl. nra.
Qed.

Lemma approx_mul k1 k2 x y v1 v2 : approx k1 x v1 -> approx k2 y v2 -> approx (k1 + k2) (x * y) (v1 * v2).
Proof.
  intros (e1 & -> & H1) (e2 & -> & H2). exists (e1 + e2 + e1 * e2)%R. split; [ring|].
  pose proof (pow1u_ge1 k1) as P1. pose proof (pow1u_ge1 k2) as P2.
  eapply Rle_trans; [apply Rabs_triang|]. eapply Rle_trans; [apply Rplus_le_compat_r; apply Rabs_triang|]. rewrite Rabs_mult.
  assert (Rabs e1 * Rabs e2 <= ((1 + uu) ^ k1 - 1) * ((1 + uu) ^ k2 - 1))%R by (apply Rmult_le_compat; try apply Rabs_pos; assumption).
  rewrite pow_add. nra.
Qed.

Lemma approx_div_exact k x v c : approx k x v -> approx k (x / c) (v / c).
Proof. intros (e & -> & H). exists e. split; [unfold Rdiv; ring|exact H]. Qed.

Lemma approx_mono k k' x v : (k <= k')%nat -> approx k x v -> approx k' x v.
Proof.
  intros Hk (e & -> & H). exists e. split; [reflexivity|]. eapply Rle_trans; [exact H|].
  apply Rplus_le_compat_r. apply Rle_pow; [pose proof uu_pos; lra|exact Hk].
Qed.

Lemma pow5_bound : ((1 + uu) ^ 5 - 1 <= 6 * uu)%R.
Proof. pose proof uu_pos. pose proof uu_small. nra. Qed.

(* five factors: within 6 * 2^-51 of v; the magnitude is kept within a factor 2 *)
Lemma approx5_bound x v : approx 5 x v -> (Rabs (x - v) <= 6 * uu * Rabs v)%R /\ (Rabs v / 2 <= Rabs x <= 2 * Rabs v)%R.
Proof.
  intros (e & -> & H). pose proof pow5_bound as P. pose proof uu_small as S. pose proof uu_pos as U.
  assert (He : (Rabs e <= 6 * uu)%R) by lra.
  split.
  - replace (v * (1 + e) - v)%R with (v * e)%R by ring. rewrite Rabs_mult. rewrite (Rmult_comm (6 * uu)).
    apply Rmult_le_compat_l; [apply Rabs_pos|exact He].
  - rewrite Rabs_mult. pose proof (Rabs_pos v) as Hv.
    assert (H1 : (/ 2 <= Rabs (1 + e) <= 2)%R).
    { assert (Rabs e <= / 2)%R by lra. apply Rabs_le_inv in H0. split; [rewrite Rabs_pos_eq; lra|rewrite Rabs_pos_eq; lra]. }
    split; nra.
Qed.

(* ---- one binary64 operation in the normal range ------------------------------------------------------------------- *)

Lemma round64_rel x : (bpow radix2 (-1022) <= Rabs x)%R ->
  exists d, (Rabs d <= u53)%R /\ round64 x = (x * (1 + d))%R.
Proof.
  intros H. destruct (relative_error_N_FLT_ex radix2 (-1074) 53 ltac:(lia) (fun t => negb (Z.even t)) x H) as (d & Hd & Hr).
  exists d. split; [|exact Hr].
  eapply Rle_trans; [exact Hd|]. unfold u53. change (- (53) + 1) with (-52).
  change (bpow radix2 (-52)) with (/ IZR (Z.pow_pos 2 52))%R. change (Z.pow_pos 2 52) with (2 ^ 52).
  replace (2 ^ 53) with (2 * 2 ^ 52) by reflexivity. rewrite mult_IZR.
  rewrite Rinv_mult. lra.
Qed.

Lemma round64_no_overflow x : (Rabs x <= bpow radix2 1023)%R -> (Rabs (round64 x) < bpow radix2 1024)%R.
Proof.
  intros H. apply Rle_lt_trans with (bpow radix2 1023).
  - apply abs_round_le_generic; try typeclasses eauto; [|exact H]. apply generic_format_bpow. unfold fexp, emin. lia.
  - apply bpow_lt. lia.
Qed.

Definition in_range (x : R) : Prop := (bpow radix2 (-1022) <= Rabs x <= bpow radix2 1023)%R.

Lemma mul_rel (X Y : bin64) : is_finite X = true -> is_finite Y = true -> in_range (B2R X * B2R Y) ->
  exists (Z : bin64) d, fmul (B2SF X) (B2SF Y) = B2SF Z /\ is_finite Z = true /\
                        B2R Z = (B2R X * B2R Y * (1 + d))%R /\ (Rabs d <= uu)%R.
Proof.
  intros HX HY [Hlo Hhi]. rewrite fmul_B. exists (Bmult mode_NE X Y).
  pose proof (Bmult_correct 53 1024 HPrec HMax mode_NE X Y) as HM.
  change (round_mode mode_NE) with ZnearestE in HM. fold (round64 (B2R X * B2R Y)) in HM.
  rewrite Rlt_bool_true in HM by (apply round64_no_overflow; exact Hhi).
  destruct HM as (H1 & H2 & _). destruct (round64_rel _ Hlo) as (d & Hd & Hr).
  exists d. split; [reflexivity|]. split; [rewrite H2, HX, HY; reflexivity|]. split; [rewrite H1; exact Hr|].
  pose proof u53_le_uu. lra.
Qed.

Lemma div_rel (X Y : bin64) : is_finite X = true -> B2R Y <> 0%R -> in_range (B2R X / B2R Y) ->
  exists (Z : bin64) d, fdiv (B2SF X) (B2SF Y) = B2SF Z /\ is_finite Z = true /\
                        B2R Z = (B2R X / B2R Y * (1 + d))%R /\ (Rabs d <= uu)%R.
Proof.
  intros HX HY [Hlo Hhi]. rewrite fdiv_B. exists (Bdiv mode_NE X Y).
  pose proof (Bdiv_correct 53 1024 HPrec HMax mode_NE X Y HY) as HM.
  change (round_mode mode_NE) with ZnearestE in HM. fold (round64 (B2R X / B2R Y)) in HM.
  rewrite Rlt_bool_true in HM by (apply round64_no_overflow; exact Hhi).
  destruct HM as (H1 & H2 & _). destruct (round64_rel _ Hlo) as (d & Hd & Hr).
  exists d. split; [reflexivity|]. split; [rewrite H2; exact HX|]. split; [rewrite H1; exact Hr|].
  pose proof u53_le_uu. lra.
Qed.

(* float64(n) for 1 <= n < 2^64 *)
Lemma BofZ_rel n : 1 <= n < 2 ^ 64 ->
  is_finite (BofZ n) = true /\ exists d, B2R (BofZ n) = (IZR n * (1 + d))%R /\ (Rabs d <= uu)%R.
Proof.
  intros Hn. pose proof (binary_normalize_correct 53 1024 HPrec HMax mode_NE n 0 false) as H. cbv zeta in H.
  fold (BofZ n) in H.
  assert (HF : F2R (Float radix2 n 0) = IZR n) by (unfold F2R; simpl; lra). rewrite HF in H.
  change (round_mode mode_NE) with ZnearestE in H. fold (round64 (IZR n)) in H.
  assert (H1 : (1 <= IZR n)%R) by (apply IZR_le; lia).
  assert (Hlo : (bpow radix2 (-1022) <= Rabs (IZR n))%R).
  { rewrite Rabs_pos_eq by lra. apply Rle_trans with (bpow radix2 0); [apply bpow_le; lia|exact H1]. }
  assert (Hhi : (Rabs (IZR n) <= bpow radix2 1023)%R).
  { rewrite Rabs_pos_eq by lra. apply Rle_trans with (bpow radix2 64); [|apply bpow_le; lia].
    rewrite <- (IZR_Zpower radix2 64) by lia. apply IZR_le. change (radix2 ^ 64) with (2 ^ 64). lia. }
  rewrite Rlt_bool_true in H by (apply round64_no_overflow; exact Hhi).
  destruct H as (HR & HFi & _). split; [exact HFi|].
  destruct (round64_rel _ Hlo) as (d & Hd & Hr). exists d. split; [rewrite HR; exact Hr|]. pose proof u53_le_uu. lra.
Qed.

(* ---- powers of ten as reals ------------------------------------------------------------------------------------------ *)

Definition Rp10 (k : Z) : R := powerRZ 10 k.

Lemma Rp10_add a b : Rp10 (a + b) = (Rp10 a * Rp10 b)%R.
Proof. unfold Rp10. apply powerRZ_add. lra. Qed.

Lemma Rp10_pos k : (0 < Rp10 k)%R.
Proof. unfold Rp10. apply powerRZ_lt. lra. Qed.

Lemma Rp10_nonneg k : 0 <= k -> Rp10 k = IZR (10 ^ k).
Proof.
  intros H. unfold Rp10. rewrite <- (Z2Nat.id k H) at 1. rewrite <- pow_powerRZ. rewrite pow_IZR. rewrite Z2Nat.id by lia. reflexivity.
Qed.

Lemma Rp10_neg k : k < 0 -> Rp10 k = (/ IZR (10 ^ (- k)))%R.
Proof.
  intros H. replace k with (- (- k)) at 1 by lia. unfold Rp10. rewrite powerRZ_neg' . fold (Rp10 (- k)). rewrite Rp10_nonneg by lia. reflexivity.
Qed.

Lemma Rp10_le a b : a <= b -> (Rp10 a <= Rp10 b)%R.
Proof.
  intros H. replace b with (a + (b - a)) by lia. rewrite Rp10_add. rewrite (Rp10_nonneg (b - a)) by lia.
  pose proof (Rp10_pos a). assert (1 <= IZR (10 ^ (b - a)))%R by (apply IZR_le; pose proof (Z.pow_pos_nonneg 10 (b - a)); lia). nra.
Qed.

Lemma dec_real_Rp10 neg n e : dec_real neg n e = ((if neg then - IZR n else IZR n) * Rp10 e)%R.
Proof.
  unfold dec_real. cbv zeta. destruct (0 <=? e) eqn:E.
  - rewrite Rp10_nonneg by lia. reflexivity.
  - rewrite Rp10_neg by lia. reflexivity.
Qed.

(* ---- math.Pow10's entries are within 2^-51 of the powers of ten (checked on the table) ---------------------- *)

Definition pow10_ok (k : Z) : bool :=
  match pow10 k with
  | S754_finite false m e =>
      bounded 53 1024 m e &&
      (let A := Z.pos m * 2 ^ (Z.max e 0) * 10 ^ (Z.max (- k) 0) in
       let B := 10 ^ (Z.max k 0) * 2 ^ (Z.max (- e) 0) in
       2 ^ 51 * Z.abs (A - B) <=? B)
  | _ => false
  end.

Lemma pow10_ok_all : forallb pow10_ok (zrange (-308) 308) = true.
Proof. vm_cast_no_check (eq_refl true). Qed.

Lemma bpow_R2 e : bpow radix2 e = if 0 <=? e then IZR (2 ^ e) else (/ IZR (2 ^ (- e)))%R.
Proof.
  destruct (0 <=? e) eqn:E.
  - rewrite <- (IZR_Zpower radix2 e) by lia. reflexivity.
  - replace e with (- (- e)) at 1 by lia. rewrite bpow_opp. rewrite <- (IZR_Zpower radix2 (- e)) by lia. reflexivity.
Qed.

Lemma pow10_rel k : -308 <= k <= 308 ->
  exists (P : bin64) d, pow10 k = B2SF P /\ is_finite P = true /\ B2R P = (Rp10 k * (1 + d))%R /\ (Rabs d <= uu)%R.
Proof.
  intros Hk. pose proof (zrange_forall _ (-308) 308 pow10_ok_all k Hk) as H. cbv beta in H. unfold pow10_ok in H.
  destruct (pow10 k) as [s|s| |s m e] eqn:Ep; try discriminate. destruct s; [discriminate|].
  apply andb_true_iff in H. destruct H as [Hb H]. cbv zeta in H. apply Z.leb_le in H.
  set (A := Z.pos m * 2 ^ Z.max e 0 * 10 ^ Z.max (- k) 0) in *. set (B := 10 ^ Z.max k 0 * 2 ^ Z.max (- e) 0) in *.
  assert (HBpos : 0 < B) by (unfold B; apply Z.mul_pos_pos; apply Z.pow_pos_nonneg; lia).
  exists (B754_finite false m e Hb), ((IZR A - IZR B) / IZR B)%R.
  assert (HBr : (0 < IZR B)%R) by (apply IZR_lt; exact HBpos).
  split; [reflexivity|]. split; [reflexivity|]. split.
  - cbn [B2R]. unfold F2R. cbn [Fnum Fexp cond_Zopp]. rewrite bpow_R2.
    replace (1 + (IZR A - IZR B) / IZR B)%R with (IZR A / IZR B)%R by (field; lra).
    unfold A, B. rewrite !mult_IZR.
    assert (H2e : forall x, 0 <= x -> (IZR (2 ^ x) <> 0)%R) by (intros x Hx; apply not_0_IZR; pose proof (Z.pow_pos_nonneg 2 x); lia).
    assert (H10e : forall x, 0 <= x -> (IZR (10 ^ x) <> 0)%R) by (intros x Hx; apply not_0_IZR; pose proof (Z.pow_pos_nonneg 10 x); lia).
    destruct (0 <=? e) eqn:Ee; destruct (Z.le_gt_cases 0 k) as [Hk0|Hk0].
    + rewrite (Z.max_l e 0), (Z.max_r (- k) 0), (Z.max_l k 0), (Z.max_r (- e) 0) by lia.
      rewrite Rp10_nonneg by lia. rewrite !Z.pow_0_r. field. apply H10e; lia.
    + rewrite (Z.max_l e 0), (Z.max_l (- k) 0), (Z.max_r k 0), (Z.max_r (- e) 0) by lia.
      rewrite Rp10_neg by lia. rewrite !Z.pow_0_r. field. apply H10e; lia.
    + rewrite (Z.max_r e 0), (Z.max_r (- k) 0), (Z.max_l k 0), (Z.max_l (- e) 0) by lia.
      rewrite Rp10_nonneg by lia. rewrite !Z.pow_0_r. field. split; [apply H2e; lia|apply H10e; lia].
    + rewrite (Z.max_r e 0), (Z.max_l (- k) 0), (Z.max_r k 0), (Z.max_l (- e) 0) by lia.
      rewrite Rp10_neg by lia. rewrite !Z.pow_0_r. field. split; [apply H2e; lia|apply H10e; lia].
  - unfold Rdiv. rewrite Rabs_mult, (Rabs_pos_eq (/ IZR B)) by (apply Rlt_le, Rinv_0_lt_compat; exact HBr).
    rewrite <- minus_IZR, <- abs_IZR. unfold uu.
    apply Rmult_le_reg_r with (IZR B); [exact HBr|]. rewrite Rmult_assoc, Rinv_l, Rmult_1_r by lra.
    apply Rmult_le_reg_l with (IZR (2 ^ 51)); [apply IZR_lt; reflexivity|].
    rewrite <- Rmult_assoc, Rinv_r, Rmult_1_l by (apply not_0_IZR; discriminate).
    rewrite <- mult_IZR. apply IZR_le. exact H.
Qed.

(* ---- magnitudes: everything stays in the normal range ----------------------------------------------------------- *)

Definition vrange (v : R) : Prop := (Rp10 (-290) <= Rabs v <= IZR (2 ^ 64) * Rp10 285)%R.

Lemma range_of_approx k x v : (k <= 5)%nat -> approx k x v -> vrange v -> in_range x /\ x <> 0%R.
Proof.
  intros Hk Ha [Hlo Hhi]. destruct (approx5_bound x v (approx_mono k 5 x v Hk Ha)) as [_ [H1 H2]].
  pose proof (Rp10_pos (-290)) as Hp.
  assert (Hx : (x <> 0)%R) by (intros ->; rewrite Rabs_R0 in H1; lra).
  split; [|exact Hx]. split.
  - apply Rle_trans with (Rp10 (-290) / 2)%R; [|lra].
    rewrite Rp10_neg by lia. change (- (-290)) with 290. rewrite bpow_R2. change (0 <=? -1022) with false. cbv iota. change (- (-1022)) with 1022.
    unfold Rdiv. rewrite <- Rinv_mult. apply Rinv_le; [apply Rmult_lt_0_compat; [apply IZR_lt; reflexivity|lra]|].
    rewrite <- (mult_IZR _ 2). apply IZR_le. vm_compute. discriminate.
  - apply Rle_trans with (2 * (IZR (2 ^ 64) * Rp10 285))%R; [lra|].
    rewrite Rp10_nonneg by lia. rewrite bpow_R2. change (0 <=? 1023) with true. cbv iota.
    rewrite <- !mult_IZR. apply IZR_le. vm_compute. discriminate.
Qed.

Lemma vrange_dec (neg : bool) n k : 1 <= n < 2 ^ 64 -> -290 <= k <= 285 ->
  vrange ((if neg then - IZR n else IZR n) * Rp10 k).
Proof.
  intros Hn Hk. unfold vrange. rewrite Rabs_mult, (Rabs_pos_eq (Rp10 k)) by (apply Rlt_le, Rp10_pos).
  assert (Ha : Rabs (if neg then (- IZR n)%R else IZR n) = IZR n).
  { assert (0 <= IZR n)%R by (apply IZR_le; lia). destruct neg; [rewrite Rabs_Ropp|]; apply Rabs_pos_eq; assumption. }
  rewrite Ha. assert (H1 : (1 <= IZR n)%R) by (apply IZR_le; lia). assert (H2 : (IZR n <= IZR (2 ^ 64))%R) by (apply IZR_le; lia).
  pose proof (Rp10_le (-290) k ltac:(lia)). pose proof (Rp10_le k 285 ltac:(lia)). pose proof (Rp10_pos (-290)). pose proof (Rp10_pos k).
  split; nra.
Qed.

Lemma signedB_rel neg n : 1 <= n < 2 ^ 64 ->
  is_finite (signedB neg n) = true /\ approx 1 (B2R (signedB neg n)) (if neg then - IZR n else IZR n).
Proof.
  intros Hn. destruct (BofZ_rel n Hn) as (HF & d & HR & Hd). unfold signedB. destruct neg.
  - rewrite is_finite_Bopp, B2R_Bopp, HR. split; [exact HF|]. exists d. split; [ring|]. simpl. lra.
  - split; [exact HF|]. exists d. split; [exact HR|]. simpl. lra.
Qed.

Lemma feq_zero_false (X : bin64) : is_finite X = true -> B2R X <> 0%R -> feq (B2SF X) fzero = false.
Proof.
  intros HF Hx. change fzero with (B2SF (B754_zero false : bin64)). rewrite feq_B by (try exact HF; reflexivity).
  cbn [B2R]. destruct (Rcompare_spec (B2R X) 0); [reflexivity|contradiction|reflexivity].
Qed.

Lemma not_inf_finite (X : bin64) : is_finite X = true -> f_is_inf (B2SF X) = false.
Proof. destruct X; try discriminate; reflexivity. Qed.

(* a rounded product of two approximations *)
Lemma mul_approx (X Y : bin64) k1 k2 v1 v2 : is_finite X = true -> is_finite Y = true ->
  approx k1 (B2R X) v1 -> approx k2 (B2R Y) v2 -> (k1 + k2 <= 4)%nat -> vrange (v1 * v2) ->
  exists Z : bin64, fmul (B2SF X) (B2SF Y) = B2SF Z /\ is_finite Z = true /\ approx (S (k1 + k2)) (B2R Z) (v1 * v2).
Proof.
  intros HX HY H1 H2 Hk Hv. pose proof (approx_mul _ _ _ _ _ _ H1 H2) as Hp.
  destruct (range_of_approx (k1 + k2) _ _ ltac:(lia) Hp Hv) as [Hr _].
  destruct (mul_rel X Y HX HY Hr) as (Z & d & HZ & HZF & HZR & Hd).
  exists Z. split; [exact HZ|]. split; [exact HZF|]. apply (approx_step _ _ _ _ d Hp HZR Hd).
Qed.

Lemma div_approx_exact (X Y : bin64) k v1 c : is_finite X = true -> B2R Y = c -> c <> 0%R ->
  approx k (B2R X) v1 -> (k <= 4)%nat -> vrange (v1 / c) ->
  exists Z : bin64, fdiv (B2SF X) (B2SF Y) = B2SF Z /\ is_finite Z = true /\ approx (S k) (B2R Z) (v1 / c).
Proof.
  intros HX HY Hc H1 Hk Hv. pose proof (approx_div_exact _ _ _ c H1) as Hp.
  destruct (range_of_approx k _ _ ltac:(lia) Hp Hv) as [Hr _]. rewrite <- HY in Hr, Hc.
  destruct (div_rel X Y HX Hc Hr) as (Z & d & HZ & HZF & HZR & Hd).
  exists Z. split; [exact HZ|]. split; [exact HZF|]. rewrite HY in HZR. apply (approx_step _ _ _ _ d Hp HZR Hd).
Qed.

(* ---- the arithmetic of ParseFloat: every path ------------------------------------------------------------------------ *)

Lemma pow10_tab_rel k : 0 <= k <= 22 ->
  exists P : bin64, f64pow10 k = Ok (B2SF P) /\ is_finite P = true /\ B2R P = Rp10 k.
Proof.
  intros Hk. exists (BofZ (10 ^ k)). rewrite (f64pow10_exact k Hk), (f_of_Z_B (10 ^ k)).
  destruct (pow10_exact k Hk) as [HR HF]. split; [reflexivity|]. split; [exact HF|]. rewrite HR, Rp10_nonneg by lia. reflexivity.
Qed.

Theorem pf_value_accuracy_proof : forall (neg : bool) (n me ee : Z),
  1 <= n < 2 ^ 64 -> -285 <= me <= 285 -> -285 <= ee <= 285 -> -290 <= ee - me <= 285 ->
  exists v : bin64,
    pf_value (if neg then fneg (f_of_Z n) else f_of_Z n) me ee = Ok (B2SF v) /\ is_finite v = true /\
    approx 5 (B2R v) (dec_real neg n (ee - me)).
Proof.
  intros neg n me ee Hn Hme Hee He.
  rewrite <- signedB_SF. set (X := signedB neg n). rewrite dec_real_Rp10.
  set (a := if neg then (- IZR n)%R else IZR n).
  destruct (signedB_rel neg n Hn) as [HXF HXa]. fold X in HXF, HXa. fold a in HXa.
  assert (Hvr : forall k, -290 <= k <= 285 -> vrange (a * Rp10 k)) by (intros k Hk; apply vrange_dec; assumption).
  unfold pf_value. rewrite (i64_id (ee - me)) by lia. rewrite (i64_id (- me)) by lia. set (e := ee - me) in *.
  (* the general path *)
  assert (Hslow : exists v : bin64,
            (if feq (B2SF X) fzero then Ok (B2SF X)
             else
               let h := fmul (B2SF X) (pow10 (- me)) in
               let h := fmul h (pow10 ee) in
               if feq h fzero || f_is_inf h then
                 let fe := if e <? -308 then (fmul (B2SF X) (pow10 (-308)), i64 (e + 308))
                           else if 308 <? e then (fmul (B2SF X) (pow10 308), i64 (e - 308))
                           else (B2SF X, e) in
                 Ok (fmul (fst fe) (pow10 (snd fe)))
               else Ok h) = Ok (B2SF v) /\ is_finite v = true /\ approx 5 (B2R v) (a * Rp10 e)).
  { assert (Ha0 : vrange (a * Rp10 0)) by (apply Hvr; lia).
    destruct (range_of_approx 1 _ _ ltac:(lia) ltac:(replace a with (a * Rp10 0)%R in HXa by (unfold Rp10; simpl; ring); exact HXa) Ha0) as [_ HX0].
    rewrite (feq_zero_false X HXF HX0).
    destruct (pow10_rel (- me) ltac:(lia)) as (P1 & d1 & HP1 & HP1F & HP1R & Hd1).
    destruct (pow10_rel ee ltac:(lia)) as (P2 & d2 & HP2 & HP2F & HP2R & Hd2).
    assert (HP1a : approx 1 (B2R P1) (Rp10 (- me))) by (exists d1; split; [exact HP1R|simpl; lra]).
    assert (HP2a : approx 1 (B2R P2) (Rp10 ee)) by (exists d2; split; [exact HP2R|simpl; lra]).
    cbv zeta. rewrite HP1, HP2.
    destruct (mul_approx X P1 1 1 _ _ HXF HP1F HXa HP1a ltac:(lia) (Hvr (- me) ltac:(lia))) as (H1 & -> & H1F & H1a).
    assert (Hprod : (a * Rp10 (- me) * Rp10 ee)%R = (a * Rp10 e)%R) by (rewrite Rmult_assoc, <- Rp10_add; f_equal; f_equal; unfold e; lia).
    destruct (mul_approx H1 P2 3 1 _ _ H1F HP2F H1a HP2a ltac:(lia) ltac:(rewrite Hprod; apply Hvr; lia)) as (H2 & -> & H2F & H2a).
    rewrite Hprod in H2a.
    destruct (range_of_approx 5 _ _ ltac:(lia) H2a (Hvr e ltac:(lia))) as [_ H2nz].
    rewrite (feq_zero_false H2 H2F H2nz), (not_inf_finite H2 H2F). cbn [orb].
    exists H2. split; [reflexivity|]. split; [exact H2F|exact H2a]. }
  cbv zeta. destruct (e =? 0) eqn:E0.
  - exists X. split; [reflexivity|]. split; [exact HXF|]. replace e with 0 by lia.
    replace (a * Rp10 0)%R with a by (unfold Rp10; simpl; ring). apply (approx_mono 1 5); [lia|exact HXa].
  - destruct ((0 <? e) && (e <=? 15 + 22)) eqn:E1.
    + (* int * 10^k, with the copy g *)
      assert (Hg : exists (G : bin64) gexp kg, 
                (if 22 <? e then p <-- f64pow10 (e - 22) ;; Ok (fmul (B2SF X) p, 22) else Ok (B2SF X, e)) = Ok (B2SF G, gexp) /\
                is_finite G = true /\ 0 <= gexp <= 22 /\ (kg <= 2)%nat /\ approx kg (B2R G) (a * Rp10 (e - gexp))).
      { destruct (22 <? e) eqn:E2.
        - destruct (pow10_tab_rel (e - 22) ltac:(lia)) as (P & -> & HPF & HPR). cbn [rbind].
          assert (HPa : approx 0 (B2R P) (Rp10 (e - 22))) by (rewrite HPR; apply approx_exact).
          destruct (mul_approx X P 1 0 _ _ HXF HPF HXa HPa ltac:(lia) (Hvr (e - 22) ltac:(lia))) as (G & -> & HGF & HGa).
          exists G, 22, 2%nat. split; [reflexivity|]. split; [exact HGF|]. split; [lia|]. split; [lia|exact HGa].
        - exists X, e, 1%nat. split; [reflexivity|]. split; [exact HXF|]. split; [lia|]. split; [lia|].
          replace (e - e) with 0 by lia. replace (a * Rp10 0)%R with a by (unfold Rp10; simpl; ring). exact HXa. }
      destruct Hg as (G & gexp & kg & -> & HGF & Hgexp & Hkg & HGa). cbn [rbind fst snd].
      destruct (fle (fneg f1e15) (B2SF G) && fle (B2SF G) f1e15); [|exact Hslow].
      destruct (pow10_tab_rel gexp Hgexp) as (P & -> & HPF & HPR). cbn [rbind].
      assert (HPa : approx 0 (B2R P) (Rp10 gexp)) by (rewrite HPR; apply approx_exact).
      assert (Hprod : (a * Rp10 (e - gexp) * Rp10 gexp)%R = (a * Rp10 e)%R) by (rewrite Rmult_assoc, <- Rp10_add; f_equal; f_equal; lia).
      destruct (mul_approx G P kg 0 _ _ HGF HPF HGa HPa ltac:(lia) ltac:(rewrite Hprod; apply Hvr; lia)) as (R & -> & HRF & HRa).
      rewrite Hprod in HRa. exists R. split; [reflexivity|]. split; [exact HRF|]. apply (approx_mono (S (kg + 0)) 5); [lia|exact HRa].
    + destruct ((-22 <=? e) && (e <? 0)) eqn:E2; [|exact Hslow].
      (* int / 10^k *)
      destruct (pow10_tab_rel (- e) ltac:(lia)) as (P & -> & HPF & HPR). cbn [rbind].
      pose proof (Rp10_pos (- e)) as Hpos.
      assert (Hq : (a / Rp10 (- e))%R = (a * Rp10 e)%R).
      { assert (H1 : (Rp10 e * Rp10 (- e) = 1)%R) by (rewrite <- Rp10_add; replace (e + - e) with 0 by lia; reflexivity).
        unfold Rdiv. f_equal. apply Rmult_eq_reg_l with (Rp10 (- e)); [|lra]. rewrite Rinv_r by lra. rewrite Rmult_comm. symmetry. exact H1. }
      destruct (div_approx_exact X P 1 a (Rp10 (- e)) HXF HPR ltac:(lra) HXa ltac:(lia) ltac:(rewrite Hq; apply Hvr; lia)) as (R & -> & HRF & HRa).
      rewrite Hq in HRa. exists R. split; [reflexivity|]. split; [exact HRF|]. apply (approx_mono 2 5); [lia|exact HRa].
Qed.

(* ---- from the bytes to the arithmetic (no digit of the mantissa is dropped: its value fits uint64) ---------- *)

Lemma parse_float_reduce : forall sg ip fp (dot : bool) tail,
  sign_ok sg -> all_digits ip -> all_digits fp -> (dot = false -> fp = []) -> ip ++ fp <> [] ->
  ends_mant dot tail ->
  (sg = [] -> no_sign (ip ++ (if dot then 46 :: fp else []) ++ tail)) ->
  let n := dec_value (ip ++ fp) in
  n <= max_u64 ->
  exists k,
    parse_float (sg ++ ip ++ (if dot then 46 :: fp else []) ++ tail) =
    (v <-- pf_value (if sign_neg sg then fneg (f_of_Z n) else f_of_Z n) (len fp) (fst (pf_exponent tail 0)) ;; Ok (v, k)).
Proof.
  intros sg ip fp dot tail Hsg Hip Hfp Hdotfp Hne Hend Hns n Hn53.
  set (l := ip ++ (if dot then 46 :: fp else []) ++ tail).
  set (start := len sg).
  assert (Hstart : 0 <= start) by apply len_nonneg.
  assert (Hall : all_digits (ip ++ fp)) by (apply Forall_app; split; assumption).
  assert (Hn0 : 0 <= n) by (apply dec_value_nonneg; exact Hall).
  assert (Hnv : n = dec_value_from (dec_value ip) fp) by (unfold n, dec_value; apply dec_value_from_app).
  assert (Hipv : 0 <= dec_value ip <= n).
  { split; [apply dec_value_nonneg; exact Hip|]. rewrite Hnv. apply dec_value_from_ge; [apply dec_value_nonneg; exact Hip|exact Hfp]. }
  (* the scan *)
  assert (Hscan : pf_scan l start 0 (-1) (-1) =
                  (start + len ip + (if dot then 1 + len fp else 0), n, (if dot then start + len ip else -1), -1)).
  { unfold l. rewrite pf_scan_digits by (try assumption; try lia; fold (dec_value ip); lia).
    fold (dec_value ip). destruct dot.
    - cbn [app pf_scan]. change (is_digit 46) with false. change ((-1 =? -1) && (46 =? 46)) with true. cbv iota.
      rewrite pf_scan_digits by (try assumption; lia). rewrite <- Hnv.
      rewrite pf_scan_tail.
      + f_equal. f_equal. f_equal. lia.
      + pose proof (len_nonneg ip). replace (start + len ip =? -1) with false by lia. exact Hend.
    - pose proof (Hdotfp eq_refl) as Hf. subst fp. cbn [app]. rewrite pf_scan_tail by exact Hend.
      cbn [dec_value_from fold_left] in Hnv. rewrite Hnv. change (len (@nil Z)) with 0. f_equal. f_equal. f_equal. lia. }
  (* the sign *)
  assert (Hb : (match sg ++ l with c :: _ => (c =? 43) || (c =? 45) | [] => false end = negb (len sg =? 0)) /\
               (match sg ++ l with c :: _ => c =? 45 | [] => false end = sign_neg sg) /\
               (if negb (len sg =? 0) then tl (sg ++ l) else sg ++ l) = l).
  { destruct Hsg as [->|[->| ->]].
    - specialize (Hns eq_refl). fold l in Hns. cbn [app]. change (len (@nil Z)) with 0. cbn [Z.eqb negb sign_neg].
      destruct l as [|c r]; [repeat split|]. cbn in Hns. unfold is_sign in Hns. repeat split; lia.
    - repeat split. - repeat split. }
  destruct Hb as (Hb1 & Hb2 & Hb3).
  unfold parse_float. fold l. rewrite Hb1, Hb2, Hb3.
  replace (if negb (len sg =? 0) then 1 else 0) with start.
  2:{ unfold start. destruct Hsg as [->|[->| ->]]; reflexivity. }
  rewrite Hscan. cbn [fst snd].
  pose proof (len_nonneg ip) as Hlip. pose proof (len_nonneg fp) as Hlfp.
  assert (Hdig : 0 < len ip + len fp).
  { clear -Hne Hlip Hlfp. destruct ip as [|a ip']; [destruct fp as [|a fp']; [exfalso; apply Hne; reflexivity|]|].
    - rewrite len_cons in *. pose proof (len_nonneg fp'). change (len (@nil Z)) with 0. lia.
    - rewrite len_cons in *. pose proof (len_nonneg ip'). lia. }
  assert (Hfp0 : dot = false -> len fp = 0) by (intros H; rewrite (Hdotfp H); reflexivity).
  replace ((start + len ip + (if dot then 1 + len fp else 0) =? start)
           || ((start + len ip + (if dot then 1 + len fp else 0) =? start + 1) && ((if dot then start + len ip else -1) =? start))) with false.
  2:{ destruct dot; [|specialize (Hfp0 eq_refl)]; lia. }
  (* the exponent and the value *)
  set (i := start + len ip + (if dot then 1 + len fp else 0)).
  set (ex := pf_exponent (skipz i (sg ++ l)) i).
  assert (Hex : fst ex = fst (pf_exponent tail 0)).
  { unfold ex. replace (skipz i (sg ++ l)) with tail; [apply pf_exponent_fst|].
    unfold l. replace (sg ++ ip ++ (if dot then 46 :: fp else []) ++ tail) with ((sg ++ ip ++ (if dot then 46 :: fp else [])) ++ tail) by (rewrite <- !app_assoc; reflexivity).
    replace i with (len (sg ++ ip ++ (if dot then 46 :: fp else []))).
    - symmetry. apply skipz_app_len'.
    - unfold i, start. rewrite !len_app. destruct dot; [rewrite len_cons|change (len (@nil Z)) with 0]; lia. }
  rewrite Hex.
  match goal with |- context [pf_value _ ?me _] => replace me with (len fp) end.
  2:{ change (-1 =? -1) with true. cbv iota. unfold i. destruct dot; [|specialize (Hfp0 eq_refl); cbn; lia].
      replace (start + len ip =? -1) with false by lia. cbn [negb]. replace (start + len ip + (1 + len fp) <? start + len ip) with false by lia. lia. }
  exists (snd ex). reflexivity.
Qed.

(* ---- a zero mantissa gives a zero --------------------------------------------------------------------------------------- *)

Lemma zero_times_tab s k : 0 <= k <= 22 ->
  exists p, f64pow10 k = Ok p /\ fmul (S754_zero s) p = S754_zero s /\ fdiv (S754_zero s) p = S754_zero s.
Proof.
  intros H. assert (Hin : In k (zrange 0 22)) by (apply zrange_in; lia).
  vm_compute in Hin. destruct s; repeat (destruct Hin as [<-|Hin]; [eexists; vm_compute; repeat split; reflexivity|]); destruct Hin.
Qed.

Lemma pf_value_zero s me ee : pf_value (S754_zero s) me ee = Ok (S754_zero s).
Proof.
  unfold pf_value. cbv zeta. set (e := i64 (ee - me)).
  assert (Hfeq : feq (S754_zero s) fzero = true) by (destruct s; reflexivity). rewrite Hfeq.
  destruct (e =? 0); [reflexivity|].
  destruct ((0 <? e) && (e <=? 15 + 22)) eqn:E1.
  - assert (Hg : (if 22 <? e then p <-- f64pow10 (e - 22) ;; Ok (fmul (S754_zero s) p, 22) else Ok (S754_zero s, e)) =
                 Ok (S754_zero s, if 22 <? e then 22 else e)).
    { destruct (22 <? e) eqn:E2; [|reflexivity]. destruct (zero_times_tab s (e - 22) ltac:(lia)) as (p & Hp & Hm & _). rewrite Hp. cbn [rbind]. rewrite Hm. reflexivity. }
    rewrite Hg. cbn [rbind fst snd].
    destruct (fle (fneg f1e15) (S754_zero s) && fle (S754_zero s) f1e15); [|reflexivity].
    destruct (zero_times_tab s (if 22 <? e then 22 else e) ltac:(destruct (22 <? e) eqn:E2; lia)) as (p & Hp & Hm & _). rewrite Hp. cbn [rbind]. rewrite Hm. reflexivity.
  - destruct ((-22 <=? e) && (e <? 0)) eqn:E2; [|reflexivity].
    destruct (zero_times_tab s (- e) ltac:(lia)) as (p & Hp & _ & Hd). rewrite Hp. cbn [rbind]. rewrite Hd. reflexivity.
Qed.

(* ---- ParseFloat: accuracy on the bytes --------------------------------------------------------------------------------- *)

Lemma uu_num : (uu <= / 2000000000000000)%R /\ (u53 <= uu / 4)%R.
Proof.
  unfold uu, u53. split.
  - apply Rinv_le; [lra|apply IZR_le; vm_compute; discriminate].
  - replace (2 ^ 53) with (4 * 2 ^ 51) by reflexivity. rewrite mult_IZR, Rinv_mult. lra.
Qed.

(* within 6 * 2^-51 of the exact value, hence within 1e-14 of the correctly rounded value *)
Lemma approx5_vs_rounded x v : approx 5 x v -> vrange v ->
  (Rabs (x - v) <= 6 * uu * Rabs v)%R /\ (Rabs (x - round64 v) <= / 100000000000000 * Rabs (round64 v))%R.
Proof.
  intros Ha Hv. destruct (approx5_bound x v Ha) as [Hb _]. split; [exact Hb|].
  destruct (range_of_approx 0 v v ltac:(lia) (approx_exact v) Hv) as [[Hlo _] Hv0].
  destruct (round64_rel v Hlo) as (d & Hd & Hr). rewrite Hr.
  destruct Ha as (eps & -> & He). pose proof pow5_bound as P5. destruct uu_num as [N1 N2]. pose proof uu_pos as U.
  replace (v * (1 + eps) - v * (1 + d))%R with (v * (eps - d))%R by ring. rewrite !Rabs_mult.
  assert (H1 : (Rabs (eps - d) <= 6 * uu + u53)%R).
  { eapply Rle_trans; [apply Rabs_triang|]. rewrite Rabs_Ropp. lra. }
  assert (H2 : (1 - u53 <= Rabs (1 + d))%R).
  { apply Rabs_le_inv in Hd. rewrite Rabs_pos_eq by lra. lra. }
  pose proof (Rabs_pos v) as Hv1.
  assert (H3 : (6 * uu + u53 <= / 100000000000000 * (1 - u53))%R) by lra.
  rewrite (Rmult_comm (/ 100000000000000)), Rmult_assoc. apply Rmult_le_compat_l; [exact Hv1|]. nra.
Qed.

Theorem parse_float_accuracy_proof : forall sg ip fp (dot : bool) tail,
  sign_ok sg -> all_digits ip -> all_digits fp -> (dot = false -> fp = []) -> ip ++ fp <> [] ->
  ends_mant dot tail ->
  (sg = [] -> no_sign (ip ++ (if dot then 46 :: fp else []) ++ tail)) ->
  let n := dec_value (ip ++ fp) in
  let E := fst (pf_exponent tail 0) in
  n <= max_u64 -> len fp <= 285 -> -285 <= E <= 285 -> -290 <= E - len fp ->
  exists (v : bin64) k,
    parse_float (sg ++ ip ++ (if dot then 46 :: fp else []) ++ tail) = Ok (B2SF v, k) /\ is_finite v = true /\
    let V := dec_real (sign_neg sg) n (E - len fp) in
    (n = 0 -> B2R v = 0%R) /\
    (1 <= n -> (Rabs (B2R v - V) <= 6 * uu * Rabs V)%R /\
               (Rabs (B2R v - round64 V) <= / 100000000000000 * Rabs (round64 V))%R).
Proof.
  intros sg ip fp dot tail Hsg Hip Hfp Hdotfp Hne Hend Hns n E Hn Hfp285 HE He.
  destruct (parse_float_reduce sg ip fp dot tail Hsg Hip Hfp Hdotfp Hne Hend Hns Hn) as (k & Hred).
  fold n E in Hred. rewrite Hred.
  assert (Hn0 : 0 <= n) by (apply dec_value_nonneg; apply Forall_app; split; assumption).
  pose proof (len_nonneg fp) as Hl.
  destruct (Z.eq_dec n 0) as [Hz|Hnz].
  - rewrite Hz. change (f_of_Z 0) with (S754_zero false).
    assert (Hs : (if sign_neg sg then fneg (S754_zero false) else S754_zero false) = S754_zero (sign_neg sg)) by (destruct (sign_neg sg); reflexivity).
    rewrite Hs, pf_value_zero. cbn [rbind]. exists (B754_zero (sign_neg sg)), k. split; [reflexivity|]. split; [reflexivity|].
    cbv zeta. split; [reflexivity|lia].
  - destruct (pf_value_accuracy_proof (sign_neg sg) n (len fp) E ltac:(unfold max_u64 in Hn; change (2 ^ 64) with 18446744073709551616; lia)
               ltac:(lia) HE ltac:(lia)) as (v & Hv & HvF & Hva).
    rewrite Hv. cbn [rbind]. exists v, k. split; [reflexivity|]. split; [exact HvF|]. cbv zeta. split; [lia|]. intros _.
    apply approx5_vs_rounded; [exact Hva|]. rewrite dec_real_Rp10. apply vrange_dec; [unfold max_u64 in Hn; change (2 ^ 64) with 18446744073709551616; lia|lia].
Qed.

(* ---- mantissas with more digits than fit uint64: the first digits are kept, the rest only counted ---------- *)
From Coq Require Import ZifyBool.

Lemma pf_scan_trunc c t i n dot : is_digit c = true -> 0 <= n <= max_u64 -> max_u64 < n * 10 + (c - 48) ->
  pf_scan (c :: t) i n dot (-1) = pf_scan t (i + 1) n dot i.
Proof.
  intros Hc Hn Hov. cbn [pf_scan]. rewrite Hc. change (-1 =? -1) with true. cbv iota.
  rewrite (byte_digit c Hc). apply is_digit_range in Hc. unfold max_u64 in *.
  change (18446744073709551615 / 10) with 1844674407370955161.
  destruct (1844674407370955161 <? n) eqn:E; [reflexivity|].
  rewrite (u64_small (n * 10)) by (unfold two64; lia). cbn [orb].
  replace (18446744073709551615 - (c - 48) <? n * 10) with true by lia. reflexivity.
Qed.

Lemma pf_scan_skip ds : all_digits ds -> forall rest i n dot trunk, trunk <> -1 ->
  pf_scan (ds ++ rest) i n dot trunk = pf_scan rest (i + len ds) n dot trunk.
Proof.
  intros Hd. induction Hd as [|c r Hc Hr IH]; intros rest i n dot trunk Ht.
  - cbn [app]. change (len (@nil Z)) with 0. rewrite Z.add_0_r. reflexivity.
  - cbn [app pf_scan]. rewrite Hc. replace (trunk =? -1) with false by lia. rewrite IH by exact Ht. rewrite len_cons. f_equal. lia.
Qed.

Lemma pf_scan_tail_any tail i n d tr : ends_mant (negb (d =? -1)) tail -> pf_scan tail i n d tr = (i, n, d, tr).
Proof.
  destruct tail as [|c t]; [reflexivity|]. intros [Hc Hdot]. cbn [pf_scan]. rewrite Hc.
  destruct (d =? -1) eqn:E; cbn [andb negb] in *; [|reflexivity].
  replace (c =? 46) with false by (specialize (Hdot eq_refl); lia). reflexivity.
Qed.

(* the error algebra with dropped digits: D = n * 10^T + R, 0 <= R < 10^T, n at least (2^64 - 10) / 10 *)
Lemma rel_vs_rounded x v eps : x = (v * (1 + eps))%R -> (Rabs eps <= 7 * uu)%R -> in_range v ->
  (Rabs (x - v) <= 7 * uu * Rabs v)%R /\ (Rabs (x - round64 v) <= / 100000000000000 * Rabs (round64 v))%R.
Proof.
  intros -> He [Hlo _]. destruct uu_num as [N1 N2]. pose proof uu_pos as U. pose proof (Rabs_pos v) as Hv1.
  split.
  - replace (v * (1 + eps) - v)%R with (v * eps)%R by ring. rewrite Rabs_mult, (Rmult_comm (7 * uu)).
    apply Rmult_le_compat_l; assumption.
  - destruct (round64_rel v Hlo) as (d & Hd & Hr). rewrite Hr.
    replace (v * (1 + eps) - v * (1 + d))%R with (v * (eps - d))%R by ring. rewrite !Rabs_mult.
    assert (H1 : (Rabs (eps - d) <= 7 * uu + u53)%R) by (eapply Rle_trans; [apply Rabs_triang|]; rewrite Rabs_Ropp; lra).
    assert (H2 : (1 - u53 <= Rabs (1 + d))%R) by (apply Rabs_le_inv in Hd; rewrite Rabs_pos_eq by lra; lra).
    rewrite (Rmult_comm (/ 100000000000000)), Rmult_assoc. apply Rmult_le_compat_l; [exact Hv1|]. nra.
Qed.

Lemma dropped_digits_rel (neg : bool) n T R e x :
  10000000000000000 <= n < 2 ^ 64 -> 0 <= T -> 0 <= R < 10 ^ T -> -290 <= e <= 285 ->
  approx 5 x ((if neg then - IZR n else IZR n) * Rp10 e) ->
  let V := ((if neg then - IZR (n * 10 ^ T + R) else IZR (n * 10 ^ T + R)) * Rp10 (e - T))%R in
  (Rabs (x - V) <= 7 * uu * Rabs V)%R /\ (Rabs (x - round64 V) <= / 100000000000000 * Rabs (round64 V))%R.
Proof.
  intros Hn HT HR He (eps & Hx & Heps). cbv zeta.
  set (a := if neg then (- IZR n)%R else IZR n) in *.
  assert (HpT : (0 < IZR (10 ^ T))%R) by (apply IZR_pow10_pos; exact HT).
  assert (Hn1 : (10000000000000000 <= IZR n)%R) by (apply IZR_le; lia).
  set (rho := (IZR R / (IZR n * IZR (10 ^ T)))%R).
  assert (Hrho : (0 <= rho < / 10000000000000000)%R).
  { unfold rho. assert (0 <= IZR R)%R by (apply IZR_le; lia). assert (IZR R < IZR (10 ^ T))%R by (apply IZR_lt; lia).
    assert (Hden : (0 < IZR n * IZR (10 ^ T))%R) by nra.
    split; [apply Rmult_le_pos; [assumption|apply Rlt_le, Rinv_0_lt_compat; exact Hden]|].
    apply Rmult_lt_reg_r with (IZR n * IZR (10 ^ T))%R; [exact Hden|]. unfold Rdiv. rewrite Rmult_assoc, Rinv_l, Rmult_1_r by lra.
    assert (IZR (10 ^ T) <= / 10000000000000000 * (IZR n * IZR (10 ^ T)))%R by (rewrite <- Rmult_assoc; assert (1 <= / 10000000000000000 * IZR n)%R by (apply Rmult_le_reg_l with 10000000000000000%R; [lra|]; rewrite <- Rmult_assoc, Rinv_r, Rmult_1_l by lra; lra); nra).
    lra. }
  assert (HV : ((if neg then - IZR (n * 10 ^ T + R) else IZR (n * 10 ^ T + R)) * Rp10 (e - T) = a * Rp10 e * (1 + rho))%R).
  { replace e with (e - T + T) at 2 by lia. rewrite Rp10_add, (Rp10_nonneg T HT). rewrite plus_IZR, mult_IZR.
    unfold a, rho. destruct neg; field; lra. }
  rewrite HV. set (Vc := (a * Rp10 e)%R) in *.
  assert (Hx' : x = (Vc * (1 + rho) * (1 + ((1 + eps) / (1 + rho) - 1)))%R) by (rewrite Hx; field; lra).
  pose proof pow5_bound as P5. destruct uu_num as [N1 N2]. pose proof uu_pos as U.
  assert (Heps' : (Rabs ((1 + eps) / (1 + rho) - 1) <= 7 * uu)%R).
  { replace ((1 + eps) / (1 + rho) - 1)%R with ((eps - rho) / (1 + rho))%R by (field; lra).
    unfold Rdiv. rewrite Rabs_mult. assert (He6 : (Rabs eps <= 6 * uu)%R) by lra.
    assert (H1 : (Rabs (eps - rho) <= 6 * uu + / 10000000000000000)%R).
    { eapply Rle_trans; [apply Rabs_triang|]. rewrite Rabs_Ropp, (Rabs_pos_eq rho) by lra. lra. }
    assert (H2 : (Rabs (/ (1 + rho)) <= 1)%R).
    { rewrite Rabs_pos_eq by (apply Rlt_le, Rinv_0_lt_compat; lra). rewrite <- Rinv_1. apply Rinv_le; lra. }
    assert (H3 : (/ 10000000000000000 <= uu)%R).
    { unfold uu. apply Rinv_le; [apply IZR_lt; reflexivity|apply IZR_le; vm_compute; discriminate]. }
    pose proof (Rabs_pos (eps - rho)). pose proof (Rabs_pos (/ (1 + rho))). nra. }
  apply (rel_vs_rounded x _ _ Hx' Heps').
  (* the exact value is in the normal range *)
  assert (Hvc : vrange Vc) by (apply vrange_dec; lia).
  destruct Hvc as [Hlo Hhi]. unfold in_range. rewrite Rabs_mult, (Rabs_pos_eq (1 + rho)) by lra.
  pose proof (Rp10_pos (-290)) as Hp.
  split.
  - apply Rle_trans with (Rp10 (-290) / 2)%R; [|nra].
    rewrite Rp10_neg by lia. change (- (-290)) with 290. rewrite bpow_R2. change (0 <=? -1022) with false. cbv iota. change (- (-1022)) with 1022.
    unfold Rdiv. rewrite <- Rinv_mult. apply Rinv_le; [apply Rmult_lt_0_compat; [apply IZR_lt; reflexivity|lra]|].
    rewrite <- (mult_IZR _ 2). apply IZR_le. vm_compute. discriminate.
  - apply Rle_trans with (2 * (IZR (2 ^ 64) * Rp10 285))%R; [nra|].
    rewrite Rp10_nonneg by lia. rewrite bpow_R2. change (0 <=? 1023) with true. cbv iota.
    rewrite <- !mult_IZR. apply IZR_le. vm_compute. discriminate.
Qed.

Definition mantexp_of (i dot trunk : Z) : Z :=
  if negb (dot =? -1) then
    let trunk := if trunk =? -1 then i else trunk in
    if trunk <? dot then trunk - dot else trunk - dot - 1
  else if negb (trunk =? -1) then trunk - i
  else 0.

Lemma parse_float_of_scan sg M tail n dotv trunkv :
  sign_ok sg -> (sg = [] -> no_sign (M ++ tail)) ->
  pf_scan (M ++ tail) (len sg) 0 (-1) (-1) = (len sg + len M, n, dotv, trunkv) ->
  ((len sg + len M =? len sg) || ((len sg + len M =? len sg + 1) && (dotv =? len sg))) = false ->
  exists k, parse_float (sg ++ M ++ tail) =
    (v <-- pf_value (if sign_neg sg then fneg (f_of_Z n) else f_of_Z n) (mantexp_of (len sg + len M) dotv trunkv)
                    (fst (pf_exponent tail 0)) ;; Ok (v, k)).
Proof.
  intros Hsg Hns Hscan Hnd. set (l := M ++ tail) in *. set (start := len sg) in *.
  assert (Hb : (match sg ++ l with c :: _ => (c =? 43) || (c =? 45) | [] => false end = negb (len sg =? 0)) /\
               (match sg ++ l with c :: _ => c =? 45 | [] => false end = sign_neg sg) /\
               (if negb (len sg =? 0) then tl (sg ++ l) else sg ++ l) = l).
  { destruct Hsg as [->|[->| ->]].
    - specialize (Hns eq_refl). cbn [app]. change (len (@nil Z)) with 0. cbn [Z.eqb negb sign_neg].
      destruct l as [|c r]; [repeat split|]. cbn in Hns. unfold is_sign in Hns. repeat split; lia.
    - repeat split. - repeat split. }
  destruct Hb as (Hb1 & Hb2 & Hb3).
  unfold parse_float. rewrite Hb1, Hb2, Hb3.
  replace (if negb (len sg =? 0) then 1 else 0) with start.
  2:{ unfold start. destruct Hsg as [->|[->| ->]]; reflexivity. }
  rewrite Hscan. cbn [fst snd]. rewrite Hnd.
  set (i := start + len M).
  assert (Hskip : skipz i (sg ++ l) = tail).
  { unfold l. replace (sg ++ M ++ tail) with ((sg ++ M) ++ tail) by (rewrite <- app_assoc; reflexivity).
    replace i with (len (sg ++ M)) by (unfold i, start; rewrite len_app; reflexivity). apply skipz_app_len'. }
  rewrite Hskip. rewrite (pf_exponent_fst tail i 0). fold (mantexp_of i dotv trunkv).
  exists (snd (pf_exponent tail i)). reflexivity.
Qed.

(* the general statement for a kept prefix of n >= (2^64-10)/10 and T dropped digits of value R *)
Lemma parse_float_dropped sg M tail n dotv trunkv T R :
  sign_ok sg -> (sg = [] -> no_sign (M ++ tail)) ->
  pf_scan (M ++ tail) (len sg) 0 (-1) (-1) = (len sg + len M, n, dotv, trunkv) ->
  ((len sg + len M =? len sg) || ((len sg + len M =? len sg + 1) && (dotv =? len sg))) = false ->
  1844674407370955160 <= n < 2 ^ 64 -> 0 <= T -> 0 <= R < 10 ^ T ->
  let me := mantexp_of (len sg + len M) dotv trunkv in
  let E := fst (pf_exponent tail 0) in
  -285 <= me <= 285 -> -285 <= E <= 285 -> -290 <= E - me <= 285 ->
  exists (v : bin64) k,
    parse_float (sg ++ M ++ tail) = Ok (B2SF v, k) /\ is_finite v = true /\
    let V := ((if sign_neg sg then - IZR (n * 10 ^ T + R) else IZR (n * 10 ^ T + R)) * Rp10 (E - me - T))%R in
    (Rabs (B2R v - V) <= 7 * uu * Rabs V)%R /\ (Rabs (B2R v - round64 V) <= / 100000000000000 * Rabs (round64 V))%R.
Proof.
  intros Hsg Hns Hscan Hnd Hn HT HR me E Hme HE He.
  destruct (parse_float_of_scan sg M tail n dotv trunkv Hsg Hns Hscan Hnd) as (k & ->). fold me E.
  destruct (pf_value_accuracy_proof (sign_neg sg) n me E ltac:(lia) Hme HE He) as (v & -> & HvF & Hva). cbn [rbind].
  exists v, k. split; [reflexivity|]. split; [exact HvF|]. rewrite dec_real_Rp10 in Hva.
  apply (dropped_digits_rel (sign_neg sg) n T R (E - me) (B2R v) ltac:(lia) HT HR ltac:(lia) Hva).
Qed.

Lemma dec_value_from_lin ds : all_digits ds -> forall n, dec_value_from n ds = n * 10 ^ len ds + dec_value ds.
Proof.
  intros Hd. induction Hd as [|c r Hc Hr IH]; intros n.
  - cbn. change (len (@nil Z)) with 0. lia.
  - change (dec_value_from n (c :: r)) with (dec_value_from (digit_step n c) r).
    unfold dec_value. change (dec_value_from 0 (c :: r)) with (dec_value_from (digit_step 0 c) r).
    rewrite (IH (digit_step n c)), (IH (digit_step 0 c)). fold (dec_value r). unfold digit_step.
    rewrite len_cons. pose proof (len_nonneg r). replace (1 + len r) with (Z.succ (len r)) by lia. rewrite Z.pow_succ_r by lia. ring.
Qed.

Lemma dec_value_lt_pow ds : all_digits ds -> 0 <= dec_value ds < 10 ^ len ds.
Proof.
  intros Hd. pose proof (dec_value_from_bounds ds Hd 0 ltac:(lia)) as H. fold (dec_value ds) in H. lia.
Qed.

(* the digits are dropped inside the integer part:  sign ip1 c ip2 [. fp] [exponent] *)
Theorem parse_float_accuracy_trunc_int_proof : forall sg ip1 c ip2 fp (dot : bool) tail,
  sign_ok sg -> all_digits ip1 -> is_digit c = true -> all_digits ip2 -> all_digits fp -> (dot = false -> fp = []) ->
  ends_mant dot tail ->
  (sg = [] -> no_sign ((ip1 ++ c :: ip2 ++ (if dot then 46 :: fp else [])) ++ tail)) ->
  let n := dec_value ip1 in
  let E := fst (pf_exponent tail 0) in
  n <= max_u64 -> max_u64 < n * 10 + (c - 48) ->
  len ip2 <= 284 -> -285 <= E <= 285 -> E + 1 + len ip2 <= 285 ->
  exists (v : bin64) k,
    parse_float (sg ++ (ip1 ++ c :: ip2 ++ (if dot then 46 :: fp else [])) ++ tail) = Ok (B2SF v, k) /\ is_finite v = true /\
    let D := dec_value (ip1 ++ c :: ip2 ++ fp) in
    let V := ((if sign_neg sg then - IZR D else IZR D) * Rp10 (E - len fp))%R in
    (Rabs (B2R v - V) <= 7 * uu * Rabs V)%R /\ (Rabs (B2R v - round64 V) <= / 100000000000000 * Rabs (round64 V))%R.
Proof.
  intros sg ip1 c ip2 fp dot tail Hsg Hip1 Hc Hip2 Hfp Hdotfp Hend Hns n E Hn Hov Hl2 HE HE2.
  set (M := ip1 ++ c :: ip2 ++ (if dot then 46 :: fp else [])). set (start := len sg).
  assert (Hstart : 0 <= start) by apply len_nonneg.
  pose proof (len_nonneg ip1) as L1. pose proof (len_nonneg ip2) as L2. pose proof (len_nonneg fp) as L3.
  assert (Hn0 : 0 <= n) by (apply dec_value_nonneg; exact Hip1).
  assert (HlenM : len M = len ip1 + 1 + len ip2 + (if dot then 1 + len fp else 0)).
  { unfold M. rewrite len_app, len_cons, len_app. destruct dot; [rewrite len_cons|change (len (@nil Z)) with 0]; lia. }
  assert (Hscan : pf_scan (M ++ tail) start 0 (-1) (-1) =
                  (start + len M, n, (if dot then start + len ip1 + 1 + len ip2 else -1), start + len ip1)).
  { rewrite HlenM. unfold M. rewrite <- !app_assoc. rewrite pf_scan_digits by (try assumption; try lia; fold (dec_value ip1); fold n; lia).
    fold (dec_value ip1). fold n. cbn [app]. rewrite pf_scan_trunc by (try assumption; lia).
    rewrite <- app_assoc. rewrite pf_scan_skip by (try assumption; lia).
    destruct dot.
    - cbn [app pf_scan]. change (is_digit 46) with false. change ((-1 =? -1) && (46 =? 46)) with true. cbv iota.
      rewrite pf_scan_skip by (try assumption; lia).
      rewrite pf_scan_tail_any by (replace (start + len ip1 + 1 + len ip2 =? -1) with false by lia; exact Hend).
      f_equal. f_equal. f_equal. lia.
    - cbn [app]. rewrite pf_scan_tail_any by exact Hend.
      f_equal. f_equal. f_equal. lia. }
  assert (Hnd : ((start + len M =? start) || ((start + len M =? start + 1) && ((if dot then start + len ip1 + 1 + len ip2 else -1) =? start))) = false).
  { rewrite HlenM. destruct dot; lia. }
  assert (Hme : mantexp_of (start + len M) (if dot then start + len ip1 + 1 + len ip2 else -1) (start + len ip1) = - (1 + len ip2)).
  { unfold mantexp_of. rewrite HlenM. destruct dot.
    - replace (start + len ip1 + 1 + len ip2 =? -1) with false by lia. cbn [negb]. replace (start + len ip1 =? -1) with false by lia.
      replace (start + len ip1 <? start + len ip1 + 1 + len ip2) with true by lia. lia.
    - change (-1 =? -1) with true. cbn [negb]. replace (start + len ip1 =? -1) with false by lia. cbn [negb]. lia. }
  set (T := 1 + len ip2 + len fp). set (R := dec_value (c :: ip2 ++ fp)).
  assert (Hdrop : all_digits (c :: ip2 ++ fp)) by (constructor; [exact Hc|apply Forall_app; split; assumption]).
  assert (HRb : 0 <= R < 10 ^ T).
  { pose proof (dec_value_lt_pow _ Hdrop) as H. rewrite len_cons, len_app in H. unfold R, T. replace (1 + len ip2 + len fp) with (1 + (len ip2 + len fp)) by lia. exact H. }
  assert (HD : dec_value (ip1 ++ c :: ip2 ++ fp) = n * 10 ^ T + R).
  { unfold dec_value at 1. rewrite dec_value_from_app. fold (dec_value ip1). fold n. rewrite (dec_value_from_lin _ Hdrop).
    rewrite len_cons, len_app. unfold T, R. replace (1 + (len ip2 + len fp)) with (1 + len ip2 + len fp) by lia. reflexivity. }
  apply is_digit_range in Hc.
  pose proof (parse_float_dropped sg M tail n _ _ T R Hsg Hns Hscan Hnd
              ltac:(unfold max_u64 in *; change (2 ^ 64) with 18446744073709551616; lia) ltac:(unfold T; lia) HRb) as HD0.
  cbv zeta in HD0. fold start in HD0. rewrite Hme in HD0. fold E in HD0.
  destruct (HD0 ltac:(lia) HE ltac:(lia)) as (v & k & Hv & HvF & Hb1 & Hb2).
  exists v, k. split; [exact Hv|]. split; [exact HvF|]. cbv zeta. rewrite HD.
  replace (E - - (1 + len ip2) - T) with (E - len fp) in Hb1, Hb2 by (unfold T; lia). split; assumption.
Qed.

(* the digits are dropped inside the fraction:  sign ip . fp1 c fp2 [exponent] *)
Theorem parse_float_accuracy_trunc_frac_proof : forall sg ip fp1 c fp2 tail,
  sign_ok sg -> all_digits ip -> all_digits fp1 -> is_digit c = true -> all_digits fp2 ->
  ends_mant true tail ->
  (sg = [] -> no_sign ((ip ++ 46 :: fp1 ++ c :: fp2) ++ tail)) ->
  let n := dec_value (ip ++ fp1) in
  let E := fst (pf_exponent tail 0) in
  n <= max_u64 -> max_u64 < n * 10 + (c - 48) ->
  len fp1 <= 285 -> -285 <= E <= 285 -> -290 <= E - len fp1 ->
  exists (v : bin64) k,
    parse_float (sg ++ (ip ++ 46 :: fp1 ++ c :: fp2) ++ tail) = Ok (B2SF v, k) /\ is_finite v = true /\
    let D := dec_value (ip ++ fp1 ++ c :: fp2) in
    let V := ((if sign_neg sg then - IZR D else IZR D) * Rp10 (E - len (fp1 ++ c :: fp2)))%R in
    (Rabs (B2R v - V) <= 7 * uu * Rabs V)%R /\ (Rabs (B2R v - round64 V) <= / 100000000000000 * Rabs (round64 V))%R.
Proof.
  intros sg ip fp1 c fp2 tail Hsg Hip Hfp1 Hc Hfp2 Hend Hns n E Hn Hov Hl1 HE HE2.
  set (M := ip ++ 46 :: fp1 ++ c :: fp2). set (start := len sg).
  assert (Hstart : 0 <= start) by apply len_nonneg.
  pose proof (len_nonneg ip) as L1. pose proof (len_nonneg fp1) as L2. pose proof (len_nonneg fp2) as L3.
  assert (Hall : all_digits (ip ++ fp1)) by (apply Forall_app; split; assumption).
  assert (Hn0 : 0 <= n) by (apply dec_value_nonneg; exact Hall).
  assert (Hnv : n = dec_value_from (dec_value ip) fp1) by (unfold n, dec_value; apply dec_value_from_app).
  assert (Hipv : 0 <= dec_value ip <= n).
  { split; [apply dec_value_nonneg; exact Hip|]. rewrite Hnv. apply dec_value_from_ge; [apply dec_value_nonneg; exact Hip|exact Hfp1]. }
  assert (HlenM : len M = len ip + 1 + len fp1 + 1 + len fp2).
  { unfold M. rewrite len_app, len_cons, len_app, len_cons. lia. }
  assert (Hscan : pf_scan (M ++ tail) start 0 (-1) (-1) =
                  (start + len M, n, start + len ip, start + len ip + 1 + len fp1)).
  { rewrite HlenM. unfold M. rewrite <- !app_assoc. rewrite pf_scan_digits by (try assumption; try lia; fold (dec_value ip); lia).
    fold (dec_value ip). cbn [app pf_scan]. change (is_digit 46) with false. change ((-1 =? -1) && (46 =? 46)) with true. cbv iota.
    rewrite <- app_assoc. rewrite pf_scan_digits by (try assumption; lia). rewrite <- Hnv.
    cbn [app]. rewrite pf_scan_trunc by (try assumption; lia).
    rewrite pf_scan_skip by (try assumption; lia).
    rewrite pf_scan_tail_any by (replace (start + len ip =? -1) with false by lia; exact Hend).
    f_equal. f_equal. f_equal. lia. }
  assert (Hnd : ((start + len M =? start) || ((start + len M =? start + 1) && (start + len ip =? start))) = false) by (rewrite HlenM; lia).
  assert (Hme : mantexp_of (start + len M) (start + len ip) (start + len ip + 1 + len fp1) = len fp1).
  { unfold mantexp_of. replace (start + len ip =? -1) with false by lia. cbn [negb]. replace (start + len ip + 1 + len fp1 =? -1) with false by lia.
    replace (start + len ip + 1 + len fp1 <? start + len ip) with false by lia. lia. }
  set (T := 1 + len fp2). set (R := dec_value (c :: fp2)).
  assert (Hdrop : all_digits (c :: fp2)) by (constructor; assumption).
  assert (HRb : 0 <= R < 10 ^ T) by (pose proof (dec_value_lt_pow _ Hdrop) as H; rewrite len_cons in H; exact H).
  assert (HD : dec_value (ip ++ fp1 ++ c :: fp2) = n * 10 ^ T + R).
  { rewrite app_assoc. unfold dec_value at 1. rewrite dec_value_from_app. fold (dec_value (ip ++ fp1)). fold n.
    rewrite (dec_value_from_lin _ Hdrop). rewrite len_cons. reflexivity. }
  apply is_digit_range in Hc.
  pose proof (parse_float_dropped sg M tail n _ _ T R Hsg Hns Hscan Hnd
              ltac:(unfold max_u64 in *; change (2 ^ 64) with 18446744073709551616; lia) ltac:(unfold T; lia) HRb) as HD0.
  cbv zeta in HD0. fold start in HD0. rewrite Hme in HD0. fold E in HD0.
  destruct (HD0 ltac:(lia) HE ltac:(lia)) as (v & k & Hv & HvF & Hb1 & Hb2).
  exists v, k. split; [exact Hv|]. split; [exact HvF|]. cbv zeta. rewrite HD. rewrite len_app, len_cons.
  replace (E - len fp1 - T) with (E - (len fp1 + (1 + len fp2))) in Hb1, Hb2 by (unfold T; lia). split; assumption.
Qed.

(* ---- ParseDecimal ------------------------------------------------------------------------------------------------------ *)

(* sign * float64(n), then one multiplication or division by a power of ten *)
Lemma pd_arith_accuracy (neg : bool) n exp (i : Z) : 1 <= n < 2 ^ 64 -> -290 <= exp <= 285 ->
  exists v : bin64,
    (let f := fmul (if neg then fneg fone else fone) (f_of_Z n) in
     if (0 <=? exp) && (exp <? 23) then p <-- f64pow10 exp ;; Ok (fmul f p, i)
     else if (-22 <=? exp) && (exp <? 0) then p <-- f64pow10 (- exp) ;; Ok (fdiv f p, i)
     else Ok (fmul f (pow10 exp), i)) = Ok (B2SF v, i) /\
    is_finite v = true /\ approx 5 (B2R v) (dec_real neg n exp).
Proof.
  intros Hn Hexp. rewrite dec_real_Rp10. set (a := if neg then (- IZR n)%R else IZR n).
  assert (Hvr : forall k, -290 <= k <= 285 -> vrange (a * Rp10 k)) by (intros k Hk; apply vrange_dec; assumption).
  assert (Ha0 : (a * Rp10 0)%R = a) by (unfold Rp10; simpl; ring).
  (* the signed mantissa *)
  assert (HF : exists X : bin64, fmul (if neg then fneg fone else fone) (f_of_Z n) = B2SF X /\ is_finite X = true /\ approx 2 (B2R X) a).
  { change fone with (f_of_Z 1). rewrite (f_of_Z_B 1), (f_of_Z_B n).
    destruct (BofZ_small 1 ltac:(vm_compute; reflexivity)) as [H1R H1F].
    destruct (BofZ_rel n Hn) as (HnF & d & HnR & Hd).
    set (S := if neg then Bopp (BofZ 1) else BofZ 1).
    assert (HS : (if neg then fneg (B2SF (BofZ 1)) else B2SF (BofZ 1)) = B2SF S) by (unfold S; destruct neg; [apply fneg_B|reflexivity]).
    rewrite HS.
    assert (HSF : is_finite S = true) by (unfold S; destruct neg; [rewrite is_finite_Bopp|]; exact H1F).
    assert (HSa : approx 0 (B2R S) (if neg then (-1)%R else 1%R)).
    { unfold S. destruct neg; [rewrite B2R_Bopp, H1R|rewrite H1R]; apply approx_exact. }
    assert (Hna : approx 1 (B2R (BofZ n)) (IZR n)) by (exists d; split; [exact HnR|simpl; lra]).
    assert (Hprod : ((if neg then (-1)%R else 1%R) * IZR n)%R = a) by (unfold a; destruct neg; ring).
    destruct (mul_approx S (BofZ n) 0 1 _ _ HSF HnF HSa Hna ltac:(lia) ltac:(rewrite Hprod, <- Ha0; apply Hvr; lia)) as (X & HX & HXF & HXa).
    rewrite Hprod in HXa. exists X. split; [exact HX|]. split; [exact HXF|exact HXa]. }
  destruct HF as (X & -> & HXF & HXa). cbv zeta.
  destruct ((0 <=? exp) && (exp <? 23)) eqn:E1.
  - destruct (pow10_tab_rel exp ltac:(lia)) as (P & -> & HPF & HPR). cbn [rbind].
    assert (HPa : approx 0 (B2R P) (Rp10 exp)) by (rewrite HPR; apply approx_exact).
    destruct (mul_approx X P 2 0 _ _ HXF HPF HXa HPa ltac:(lia) (Hvr exp Hexp)) as (R & -> & HRF & HRa).
    exists R. split; [reflexivity|]. split; [exact HRF|]. apply (approx_mono 3 5); [lia|exact HRa].
  - destruct ((-22 <=? exp) && (exp <? 0)) eqn:E2.
    + destruct (pow10_tab_rel (- exp) ltac:(lia)) as (P & -> & HPF & HPR). cbn [rbind].
      pose proof (Rp10_pos (- exp)) as Hpos.
      assert (Hq : (a / Rp10 (- exp))%R = (a * Rp10 exp)%R).
      { assert (H1 : (Rp10 exp * Rp10 (- exp) = 1)%R) by (rewrite <- Rp10_add; replace (exp + - exp) with 0 by lia; reflexivity).
        unfold Rdiv. f_equal. apply Rmult_eq_reg_l with (Rp10 (- exp)); [|lra]. rewrite Rinv_r by lra. rewrite Rmult_comm. symmetry. exact H1. }
      destruct (div_approx_exact X P 2 a (Rp10 (- exp)) HXF HPR ltac:(lra) HXa ltac:(lia) ltac:(rewrite Hq; apply Hvr; lia)) as (R & -> & HRF & HRa).
      rewrite Hq in HRa. exists R. split; [reflexivity|]. split; [exact HRF|]. apply (approx_mono 3 5); [lia|exact HRa].
    + destruct (pow10_rel exp ltac:(lia)) as (P & d & -> & HPF & HPR & Hd).
      assert (HPa : approx 1 (B2R P) (Rp10 exp)) by (exists d; split; [exact HPR|simpl; lra]).
      destruct (mul_approx X P 2 1 _ _ HXF HPF HXa HPa ltac:(lia) (Hvr exp Hexp)) as (R & -> & HRF & HRa).
      exists R. split; [reflexivity|]. split; [exact HRF|]. apply (approx_mono 4 5); [lia|exact HRa].
Qed.

(* no digit is dropped (at most 18 characters from the first non-zero digit on) *)
Theorem parse_decimal_accuracy_int_proof : forall sg zs d1 ip' fp (dot : bool) tail,
  (sg = [] \/ sg = [45]) -> all_zeros zs -> nonzero_digit d1 -> all_digits ip' -> all_digits fp ->
  (dot = false -> fp = []) -> ends_mant dot tail ->
  len (d1 :: ip') + (if dot then 1 + len fp else 0) <= 18 ->
  let n := dec_value ((d1 :: ip') ++ fp) in
  exists (v : bin64) k,
    parse_decimal (sg ++ zs ++ (d1 :: ip') ++ (if dot then 46 :: fp else []) ++ tail) = Ok (B2SF v, k) /\
    is_finite v = true /\
    let V := dec_real (sign_neg sg) n (- len fp) in
    (Rabs (B2R v - V) <= 6 * uu * Rabs V)%R /\ (Rabs (B2R v - round64 V) <= / 100000000000000 * Rabs (round64 V))%R.
Proof.
  intros sg zs d1 ip' fp dot tail Hsg Hzs Hd1 Hip' Hfp Hdotfp Hend Hlen n.
  set (l := zs ++ (d1 :: ip') ++ (if dot then 46 :: fp else []) ++ tail).
  set (st := len sg). assert (Hst : 0 <= st) by apply len_nonneg.
  pose proof (len_nonneg zs) as Hlz. pose proof (len_nonneg ip') as Hli. pose proof (len_nonneg fp) as Hlf.
  rewrite len_cons in Hlen.
  assert (Hfp17 : len fp <= 17).
  { destruct dot; [lia|]. rewrite (Hdotfp eq_refl). change (len (@nil Z)) with 0. lia. }
  assert (Hall : all_digits (ip' ++ fp)) by (apply Forall_app; split; assumption).
  destruct (len_uint_dec_value d1 (ip' ++ fp) Hd1 Hall) as [HL Hnpos].
  { rewrite len_cons, len_app. destruct dot; [|rewrite (Hdotfp eq_refl) in *; change (len (@nil Z)) with 0]; lia. }
  change (dec_value (d1 :: ip' ++ fp)) with n in HL, Hnpos. rewrite len_cons, len_app in HL.
  assert (Hnv : n = dec_value_from (dec_value_from (d1 - 48) ip') fp).
  { unfold n, dec_value. cbn [app]. change (dec_value_from 0 (d1 :: ip' ++ fp)) with (dec_value_from (d1 - 48) (ip' ++ fp)).
    apply dec_value_from_app. }
  assert (Hd1' : 1 <= d1 - 48 <= 9) by (unfold nonzero_digit in Hd1; lia).
  assert (Hipv : 0 <= dec_value_from (d1 - 48) ip' <= n).
  { assert (d1 - 48 <= dec_value_from (d1 - 48) ip') by (apply dec_value_from_ge; [lia|exact Hip']).
    rewrite Hnv. split; [lia|]. apply dec_value_from_ge; [lia|exact Hfp]. }
  assert (Hn53 : n < 1000000000000000000).
  { assert (Hl18 : 1 + (len ip' + len fp) <= 18).
    { clear -Hlen Hdotfp Hli Hlf. destruct dot; [lia|]. rewrite (Hdotfp eq_refl) in *. change (len (@nil Z)) with 0 in *. lia. }
    assert (10 ^ (1 + (len ip' + len fp)) <= 10 ^ 18) by (apply Z.pow_le_mono_r; lia). rewrite len_cons, len_app in Hnpos. change (10 ^ 18) with 1000000000000000000 in *. lia. }
  assert (H264 : 1000000000000000000 < two64) by (vm_compute; reflexivity).
  (* the scan *)
  assert (Hscan : pd_scan l st (-1) (-1) 0 =
     (st + len zs + (1 + len ip') + (if dot then 1 + len fp else 0), st + len zs,
      (if dot then st + len zs + (1 + len ip') else -1), n)).
  { unfold l. rewrite pd_zeros by exact Hzs. cbn [app]. rewrite pd_first by exact Hd1.
    rewrite pd_digits by (try assumption; lia).
    destruct dot.
    - cbn [app]. rewrite pd_dot. rewrite pd_digits by (try assumption; try lia).
      rewrite <- Hnv. rewrite pd_tail.
      + f_equal. f_equal. f_equal; lia. lia.
      + replace (st + len zs + 1 + len ip' =? -1) with false by lia. exact Hend.
    - pose proof (Hdotfp eq_refl) as Hf. subst fp. cbn [app]. rewrite pd_tail by exact Hend.
      cbn [dec_value_from fold_left] in Hnv. rewrite <- Hnv. change (len (@nil Z)) with 0. f_equal. f_equal. f_equal. lia. }
  (* the sign *)
  assert (Hneg : match sg ++ l with c :: _ => c =? 45 | [] => false end = sign_neg sg /\
                 (if sign_neg sg then tl (sg ++ l) else sg ++ l) = l /\ (if sign_neg sg then 1 else 0) = st).
  { destruct Hsg as [-> | ->]; [|repeat split].
    cbn [app sign_neg]. split; [|split; reflexivity].
    unfold l. destruct Hzs as [|z zs' Hz _]; cbn [app]; [unfold nonzero_digit in Hd1; lia|subst z; reflexivity]. }
  destruct Hneg as (Hneg1 & Hneg2 & Hneg3).
  unfold parse_decimal. fold l. rewrite Hneg1, Hneg2, Hneg3, Hscan. cbn [fst snd].
  set (i := st + len zs + (1 + len ip') + (if dot then 1 + len fp else 0)).
  replace ((i =? 1) && ((if dot then st + len zs + (1 + len ip') else -1) =? 0)) with false by (unfold i; destruct dot; lia).
  replace (st + len zs =? -1) with false by lia.
  set (dotv := if (if dot then st + len zs + (1 + len ip') else -1) =? -1 then i else (if dot then st + len zs + (1 + len ip') else -1)).
  assert (Hdotv : dotv = st + len zs + (1 + len ip')).
  { unfold dotv, i. destruct dot.
    - replace (st + len zs + (1 + len ip') =? -1) with false by lia. reflexivity.
    - change (-1 =? -1) with true. cbv iota. lia. }
  rewrite Hdotv. cbv zeta.
  replace (st + len zs + (1 + len ip') <? st + len zs) with false by lia.
  rewrite HL.
  replace (st + len zs + (1 + len ip') - (st + len zs) - (1 + (len ip' + len fp))) with (- len fp) by lia.
  replace (1023 <? - len fp) with false by lia. replace (- len fp <? -1022) with false by lia.
  destruct (pd_arith_accuracy (sign_neg sg) n (- len fp) i ltac:(change (2 ^ 64) with 18446744073709551616; lia) ltac:(lia)) as (v & Hv & HvF & Hva).
  cbv zeta in Hv. rewrite Hv. exists v, i. split; [reflexivity|]. split; [exact HvF|]. cbv zeta.
  apply approx5_vs_rounded; [exact Hva|]. rewrite dec_real_Rp10. apply vrange_dec; [change (2 ^ 64) with 18446744073709551616; lia|lia].
Qed.

Theorem parse_decimal_accuracy_frac_proof : forall sg zs1 zs2 d1 sp' tail,
  (sg = [] \/ sg = [45]) -> all_zeros zs1 -> all_zeros zs2 -> nonzero_digit d1 -> all_digits sp' ->
  ends_mant true tail ->
  len (d1 :: sp') <= 18 -> len zs2 + len (d1 :: sp') <= 285 ->
  let n := dec_value (d1 :: sp') in
  exists (v : bin64) k,
    parse_decimal (sg ++ zs1 ++ 46 :: zs2 ++ (d1 :: sp') ++ tail) = Ok (B2SF v, k) /\
    is_finite v = true /\
    let V := dec_real (sign_neg sg) n (- (len zs2 + len (d1 :: sp'))) in
    (Rabs (B2R v - V) <= 6 * uu * Rabs V)%R /\ (Rabs (B2R v - round64 V) <= / 100000000000000 * Rabs (round64 V))%R.
Proof.
  intros sg zs1 zs2 d1 sp' tail Hsg Hz1 Hz2 Hd1 Hsp' Hend Hlen Hlen2 n.
  set (l := zs1 ++ 46 :: zs2 ++ (d1 :: sp') ++ tail).
  set (st := len sg). assert (Hst : 0 <= st) by apply len_nonneg.
  pose proof (len_nonneg zs1) as Hl1. pose proof (len_nonneg zs2) as Hl2. pose proof (len_nonneg sp') as Hls.
  rewrite len_cons in *.
  destruct (len_uint_dec_value d1 sp' Hd1 Hsp' ltac:(rewrite len_cons; lia)) as [HL Hnpos].
  fold n in HL, Hnpos. rewrite len_cons in HL.
  assert (Hnv : n = dec_value_from (d1 - 48) sp') by reflexivity.
  assert (Hd1' : 1 <= d1 - 48 <= 9) by (unfold nonzero_digit in Hd1; lia).
  assert (Hn53 : n < 1000000000000000000).
  { assert (10 ^ (1 + len sp') <= 10 ^ 18) by (apply Z.pow_le_mono_r; lia). rewrite len_cons in Hnpos. change (10 ^ 18) with 1000000000000000000 in *. lia. }
  assert (H264 : 1000000000000000000 < two64) by (vm_compute; reflexivity).
  assert (Hscan : pd_scan l st (-1) (-1) 0 =
     (st + len zs1 + 1 + len zs2 + (1 + len sp'), st + len zs1 + 1 + len zs2, st + len zs1, n)).
  { unfold l. rewrite pd_zeros by exact Hz1. rewrite pd_dot. rewrite pd_zeros by exact Hz2.
    cbn [app]. rewrite pd_first by exact Hd1. rewrite pd_digits by (try assumption; lia).
    rewrite <- Hnv. rewrite pd_tail.
    - f_equal. f_equal. f_equal. lia.
    - replace (st + len zs1 =? -1) with false by lia. exact Hend. }
  assert (Hneg : match sg ++ l with c :: _ => c =? 45 | [] => false end = sign_neg sg /\
                 (if sign_neg sg then tl (sg ++ l) else sg ++ l) = l /\ (if sign_neg sg then 1 else 0) = st).
  { destruct Hsg as [-> | ->]; [|repeat split].
    cbn [app sign_neg]. split; [|split; reflexivity].
    unfold l. destruct Hz1 as [|z zs' Hz _]; cbn [app]; [reflexivity|subst z; reflexivity]. }
  destruct Hneg as (Hneg1 & Hneg2 & Hneg3).
  unfold parse_decimal. fold l. rewrite Hneg1, Hneg2, Hneg3, Hscan. cbn [fst snd].
  set (i := st + len zs1 + 1 + len zs2 + (1 + len sp')).
  replace ((i =? 1) && (st + len zs1 =? 0)) with false by (unfold i; lia).
  replace (st + len zs1 + 1 + len zs2 =? -1) with false by lia.
  replace (st + len zs1 =? -1) with false by lia. cbv zeta.
  replace (st + len zs1 <? st + len zs1 + 1 + len zs2) with true by lia.
  rewrite HL.
  set (k := len zs2 + (1 + len sp')) in *.
  replace (st + len zs1 - (st + len zs1 + 1 + len zs2) - (1 + len sp') + 1) with (- k) by (unfold k; lia).
  assert (Hk : 1 <= k <= 285) by (unfold k; lia).
  replace (1023 <? - k) with false by lia. replace (- k <? -1022) with false by lia.
  destruct (pd_arith_accuracy (sign_neg sg) n (- k) i ltac:(change (2 ^ 64) with 18446744073709551616; lia) ltac:(lia)) as (v & Hv & HvF & Hva).
  cbv zeta in Hv. rewrite Hv. exists v, i. split; [reflexivity|]. split; [exact HvF|]. cbv zeta.
  apply approx5_vs_rounded; [exact Hva|]. rewrite dec_real_Rp10. apply vrange_dec; [change (2 ^ 64) with 18446744073709551616; lia|lia].
Qed.

(* the hypotheses are satisfiable: "18446744073709551616.5e-300" drops '6' and the fraction; "1.25e-280" drops nothing *)
Example accuracy_trunc_ex :
  let ip1 := [49; 56; 52; 52; 54; 55; 52; 52; 48; 55; 51; 55; 48; 57; 53; 53; 49; 54; 49] in
  all_digits ip1 /\ dec_value ip1 <= max_u64 /\ max_u64 < dec_value ip1 * 10 + (54 - 48) /\
  fst (pf_exponent [101; 45; 51; 48; 48] 0) = -300 /\ ends_mant true [101; 45; 51; 48; 48].
Proof.
  cbv zeta. split; [repeat constructor|]. split; [vm_compute; discriminate|]. split; [vm_compute; reflexivity|].
  split; [vm_compute; reflexivity|]. split; [reflexivity|discriminate].
Qed.
Example accuracy_ex :
  dec_value ([49] ++ [50; 53]) = 125 /\ fst (pf_exponent [101; 45; 50; 56; 48] 0) - len [50; 53] = -282.
Proof. split; vm_compute; reflexivity. Qed.

(* ---- ParseDecimal with dropped digits (more than 18 characters from the first non-zero digit on) -------------- *)

Definition pd_exp (i start dotv n : Z) : Z :=
  let dot := if dotv =? -1 then i else dotv in
  let exp := (dot - start) - len_uint n in
  if dot <? start then exp + 1 else exp.

(* from the result of the scanning loop to the value *)
Lemma parse_decimal_of_scan sg l i start dotv n :
  (sg = [] \/ sg = [45]) -> (sg = [] -> match l with c :: _ => c <> 45 | [] => True end) ->
  pd_scan l (len sg) (-1) (-1) 0 = (i, start, dotv, n) ->
  ((i =? 1) && (dotv =? 0)) = false -> start <> -1 ->
  1 <= n < 2 ^ 64 -> -290 <= pd_exp i start dotv n <= 285 ->
  exists v : bin64, parse_decimal (sg ++ l) = Ok (B2SF v, i) /\ is_finite v = true /\
                    approx 5 (B2R v) (dec_real (sign_neg sg) n (pd_exp i start dotv n)).
Proof.
  intros Hsg Hns Hscan Hlone Hstart Hn Hexp.
  assert (Hneg : match sg ++ l with c :: _ => c =? 45 | [] => false end = sign_neg sg /\
                 (if sign_neg sg then tl (sg ++ l) else sg ++ l) = l /\ (if sign_neg sg then 1 else 0) = len sg).
  { destruct Hsg as [-> | ->]; [|repeat split].
    cbn [app sign_neg]. split; [|split; reflexivity]. specialize (Hns eq_refl). destruct l as [|c r]; [reflexivity|]. lia. }
  destruct Hneg as (Hneg1 & Hneg2 & Hneg3).
  unfold parse_decimal. rewrite Hneg1, Hneg2, Hneg3, Hscan. cbn [fst snd]. rewrite Hlone.
  replace (start =? -1) with false by lia. cbv zeta. fold (pd_exp i start dotv n). set (exp := pd_exp i start dotv n) in *.
  replace (1023 <? exp) with false by lia. replace (exp <? -1022) with false by lia.
  destruct (pd_arith_accuracy (sign_neg sg) n exp i Hn Hexp) as (v & Hv & HvF & Hva). cbv zeta in Hv. rewrite Hv.
  exists v. split; [reflexivity|]. split; assumption.
Qed.

Lemma pd_skip ds : all_digits ds -> forall rest i start dot n, start <> -1 -> 18 <= i - start ->
  pd_scan (ds ++ rest) i start dot n = pd_scan rest (i + len ds) start dot n.
Proof.
  intros Hd. induction Hd as [|c r Hc Hr IH]; intros rest i start dot n Hs Hi.
  - cbn [app]. change (len (@nil Z)) with 0. rewrite Z.add_0_r. reflexivity.
  - cbn [app pd_scan]. rewrite Hc. replace (start =? -1) with false by lia. replace (i - start <? 18) with false by lia.
    rewrite IH by lia. rewrite len_cons. f_equal. lia.
Qed.

(* the value of a dropped tail: the shared last step *)
Lemma pd_dropped_finish (neg : bool) n T R e (v : bin64) :
  10000000000000000 <= n < 2 ^ 64 -> 0 <= T -> 0 <= R < 10 ^ T -> -290 <= e <= 285 ->
  approx 5 (B2R v) (dec_real neg n e) ->
  let V := ((if neg then - IZR (n * 10 ^ T + R) else IZR (n * 10 ^ T + R)) * Rp10 (e - T))%R in
  (Rabs (B2R v - V) <= 7 * uu * Rabs V)%R /\ (Rabs (B2R v - round64 V) <= / 100000000000000 * Rabs (round64 V))%R.
Proof.
  intros Hn HT HR He Ha. rewrite dec_real_Rp10 in Ha. apply (dropped_digits_rel neg n T R e (B2R v) Hn HT HR He Ha).
Qed.

Lemma digits18_ge d1 t : nonzero_digit d1 -> all_digits t -> len t = 16 \/ len t = 17 ->
  10000000000000000 <= dec_value (d1 :: t) < 1000000000000000000 /\ len_uint (dec_value (d1 :: t)) = 1 + len t.
Proof.
  intros Hd Ht Hl. destruct (len_uint_dec_value d1 t Hd Ht ltac:(rewrite len_cons; lia)) as [HL Hb]. rewrite len_cons in HL, Hb.
  split; [|exact HL]. unfold nonzero_digit in Hd.
  unfold dec_value in *. change (dec_value_from 0 (d1 :: t)) with (dec_value_from (d1 - 48) t) in *.
  pose proof (dec_value_from_bounds t Ht (d1 - 48) ltac:(lia)) as B.
  destruct Hl as [Hl|Hl]; rewrite Hl in *.
  - change (10 ^ 16) with 10000000000000000 in B. change (10 ^ (1 + 16)) with 100000000000000000 in Hb. lia.
  - change (10 ^ 17) with 100000000000000000 in B. change (10 ^ (1 + 17)) with 1000000000000000000 in Hb. lia.
Qed.

Lemma dec_real_split (neg : bool) D e : ((if neg then - IZR D else IZR D) * Rp10 e)%R = dec_real neg D e.
Proof. symmetry. apply dec_real_Rp10. Qed.

(* 18 or more integer digits:  -? 0..0 d1 ip1 ip2 [. fp]  with |d1 ip1| = 18 kept, ip2 and fp dropped *)
Theorem parse_decimal_accuracy_trunc_int_proof : forall sg zs d1 ip1 ip2 fp (dot : bool) tail,
  (sg = [] \/ sg = [45]) -> all_zeros zs -> nonzero_digit d1 -> all_digits ip1 -> len ip1 = 17 ->
  all_digits ip2 -> all_digits fp -> (dot = false -> fp = []) -> ends_mant dot tail -> len ip2 <= 285 ->
  exists (v : bin64) k,
    parse_decimal (sg ++ zs ++ (d1 :: ip1) ++ ip2 ++ (if dot then 46 :: fp else []) ++ tail) = Ok (B2SF v, k) /\
    is_finite v = true /\
    let V := dec_real (sign_neg sg) (dec_value ((d1 :: ip1) ++ ip2 ++ fp)) (- len fp) in
    (Rabs (B2R v - V) <= 7 * uu * Rabs V)%R /\ (Rabs (B2R v - round64 V) <= / 100000000000000 * Rabs (round64 V))%R.
Proof.
  intros sg zs d1 ip1 ip2 fp dot tail Hsg Hzs Hd1 Hip1 Hl1 Hip2 Hfp Hdotfp Hend Hl2.
  set (st := len sg). assert (Hst : 0 <= st) by apply len_nonneg.
  pose proof (len_nonneg zs) as Lz. pose proof (len_nonneg ip2) as L2. pose proof (len_nonneg fp) as L3.
  destruct (digits18_ge d1 ip1 Hd1 Hip1 ltac:(lia)) as [Hnb HLn]. set (n := dec_value (d1 :: ip1)) in *.
  assert (Hnv : n = dec_value_from (d1 - 48) ip1) by reflexivity.
  assert (Hd1' : 1 <= d1 - 48 <= 9) by (unfold nonzero_digit in Hd1; lia).
  set (l := zs ++ (d1 :: ip1) ++ ip2 ++ (if dot then 46 :: fp else []) ++ tail).
  set (i := st + len zs + 18 + len ip2 + (if dot then 1 + len fp else 0)).
  assert (Hscan : pd_scan l st (-1) (-1) 0 = (i, st + len zs, (if dot then st + len zs + 18 + len ip2 else -1), n)).
  { unfold l, i. rewrite pd_zeros by exact Hzs. cbn [app]. rewrite pd_first by exact Hd1.
    rewrite pd_digits by (try assumption; try lia; rewrite <- Hnv; unfold two64; lia). rewrite <- Hnv.
    rewrite pd_skip by (try assumption; lia).
    destruct dot.
    - cbn [app]. rewrite pd_dot. rewrite pd_skip by (try assumption; lia).
      rewrite pd_tail by (replace (st + len zs + 1 + len ip1 + len ip2 =? -1) with false by lia; exact Hend).
      f_equal. f_equal. f_equal; lia. lia.
    - cbn [app]. rewrite pd_tail by exact Hend. f_equal. f_equal. f_equal. lia. }
  assert (Hexp : pd_exp i (st + len zs) (if dot then st + len zs + 18 + len ip2 else -1) n = len ip2).
  { unfold pd_exp, i. rewrite HLn, Hl1. destruct dot.
    - replace (st + len zs + 18 + len ip2 =? -1) with false by lia. cbv zeta.
      replace (st + len zs + 18 + len ip2 <? st + len zs) with false by lia. lia.
    - change (-1 =? -1) with true. cbv zeta iota.
      replace (st + len zs + 18 + len ip2 + 0 <? st + len zs) with false by lia. lia. }
  destruct (parse_decimal_of_scan sg l i (st + len zs) (if dot then st + len zs + 18 + len ip2 else -1) n Hsg) as (v & Hv & HvF & Hva); try exact Hscan.
  { intros _. unfold l. destruct Hzs as [|z zs' Hz _]; cbn [app]; [unfold nonzero_digit in Hd1; lia|lia]. }
  { unfold i. destruct dot; lia. }
  { lia. }
  { change (2 ^ 64) with 18446744073709551616. lia. }
  { rewrite Hexp. lia. }
  rewrite Hexp in Hva. exists v, i. split; [exact Hv|]. split; [exact HvF|]. cbv zeta.
  set (T := len ip2 + len fp). set (R := dec_value (ip2 ++ fp)).
  assert (Hdrop : all_digits (ip2 ++ fp)) by (apply Forall_app; split; assumption).
  assert (HRb : 0 <= R < 10 ^ T) by (pose proof (dec_value_lt_pow _ Hdrop) as H; rewrite len_app in H; exact H).
  assert (HD : dec_value ((d1 :: ip1) ++ ip2 ++ fp) = n * 10 ^ T + R).
  { unfold dec_value at 1. rewrite dec_value_from_app. fold (dec_value (d1 :: ip1)). fold n.
    rewrite (dec_value_from_lin _ Hdrop). rewrite len_app. reflexivity. }
  rewrite HD. rewrite <- dec_real_split. replace (- len fp) with (len ip2 - T) by (unfold T; lia).
  apply pd_dropped_finish; try assumption; try lia; change (2 ^ 64) with 18446744073709551616; lia.
Qed.

(* the dot among the first 18 characters:  -? 0..0 d1 ip' . fp1 fp2  with |d1 ip' . fp1| = 18 kept (17 digits), fp2 dropped *)
Theorem parse_decimal_accuracy_trunc_dot_proof : forall sg zs d1 ip' fp1 fp2 tail,
  (sg = [] \/ sg = [45]) -> all_zeros zs -> nonzero_digit d1 -> all_digits ip' -> all_digits fp1 ->
  len ip' + len fp1 = 16 -> all_digits fp2 -> ends_mant true tail ->
  exists (v : bin64) k,
    parse_decimal (sg ++ zs ++ (d1 :: ip') ++ 46 :: fp1 ++ fp2 ++ tail) = Ok (B2SF v, k) /\
    is_finite v = true /\
    let V := dec_real (sign_neg sg) (dec_value ((d1 :: ip') ++ fp1 ++ fp2)) (- (len fp1 + len fp2)) in
    (Rabs (B2R v - V) <= 7 * uu * Rabs V)%R /\ (Rabs (B2R v - round64 V) <= / 100000000000000 * Rabs (round64 V))%R.
Proof.
  intros sg zs d1 ip' fp1 fp2 tail Hsg Hzs Hd1 Hip Hfp1 Hl16 Hfp2 Hend.
  set (st := len sg). assert (Hst : 0 <= st) by apply len_nonneg.
  pose proof (len_nonneg zs) as Lz. pose proof (len_nonneg ip') as L1. pose proof (len_nonneg fp1) as L2. pose proof (len_nonneg fp2) as L3.
  assert (Hkept : all_digits (ip' ++ fp1)) by (apply Forall_app; split; assumption).
  destruct (digits18_ge d1 (ip' ++ fp1) Hd1 Hkept ltac:(rewrite len_app; lia)) as [Hnb HLn]. rewrite len_app in HLn.
  set (n := dec_value (d1 :: ip' ++ fp1)) in *.
  assert (Hd1' : 1 <= d1 - 48 <= 9) by (unfold nonzero_digit in Hd1; lia).
  set (m := dec_value_from (d1 - 48) ip').
  assert (Hnv : n = dec_value_from m fp1) by (unfold m; rewrite <- dec_value_from_app; reflexivity).
  assert (Hm : 0 <= m < 100000000000000000).
  { pose proof (dec_value_from_bounds ip' Hip (d1 - 48) ltac:(lia)) as B. fold m in B.
    assert (10 ^ len ip' <= 10 ^ 16) by (apply Z.pow_le_mono_r; lia). change (10 ^ 16) with 10000000000000000 in *.
    assert (0 < 10 ^ len ip') by (apply Z.pow_pos_nonneg; lia). nia. }
  set (l := zs ++ (d1 :: ip') ++ 46 :: fp1 ++ fp2 ++ tail).
  set (i := st + len zs + 18 + len fp2).
  assert (Hscan : pd_scan l st (-1) (-1) 0 = (i, st + len zs, st + len zs + 1 + len ip', n)).
  { unfold l, i. rewrite pd_zeros by exact Hzs. cbn [app]. rewrite pd_first by exact Hd1.
    rewrite pd_digits by (try assumption; try lia; fold m; unfold two64; lia). fold m.
    rewrite pd_dot.
    rewrite pd_digits by (try assumption; try lia; rewrite <- Hnv; unfold two64; lia). rewrite <- Hnv.
    rewrite pd_skip by (try assumption; lia).
    rewrite pd_tail by (replace (st + len zs + 1 + len ip' =? -1) with false by lia; exact Hend).
    f_equal. f_equal. f_equal. lia. }
  assert (Hexp : pd_exp i (st + len zs) (st + len zs + 1 + len ip') n = - len fp1).
  { unfold pd_exp. rewrite HLn.
    replace (st + len zs + 1 + len ip' =? -1) with false by lia. cbv zeta.
    replace (st + len zs + 1 + len ip' <? st + len zs) with false by lia. lia. }
  destruct (parse_decimal_of_scan sg l i (st + len zs) (st + len zs + 1 + len ip') n Hsg) as (v & Hv & HvF & Hva); try exact Hscan.
  { intros _. unfold l. destruct Hzs as [|z zs' Hz _]; cbn [app]; [unfold nonzero_digit in Hd1; lia|lia]. }
  { unfold i. lia. }
  { lia. }
  { change (2 ^ 64) with 18446744073709551616. lia. }
  { rewrite Hexp. lia. }
  rewrite Hexp in Hva. exists v, i. split; [exact Hv|]. split; [exact HvF|]. cbv zeta.
  set (T := len fp2). set (R := dec_value fp2).
  assert (HRb : 0 <= R < 10 ^ T) by exact (dec_value_lt_pow _ Hfp2).
  assert (HD : dec_value ((d1 :: ip') ++ fp1 ++ fp2) = n * 10 ^ T + R).
  { replace ((d1 :: ip') ++ fp1 ++ fp2) with ((d1 :: ip' ++ fp1) ++ fp2) by (cbn [app]; rewrite <- app_assoc; reflexivity).
    unfold dec_value at 1. rewrite dec_value_from_app. fold (dec_value (d1 :: ip' ++ fp1)). fold n.
    rewrite (dec_value_from_lin _ Hfp2). reflexivity. }
  rewrite HD. rewrite <- dec_real_split. replace (- (len fp1 + T)) with (- len fp1 - T) by lia.
  apply pd_dropped_finish; try assumption; try lia; change (2 ^ 64) with 18446744073709551616; lia.
Qed.

(* no integer part and more than 18 significant digits:  -? 0..0 . 0..0 d1 sp1 sp2  with |d1 sp1| = 18 kept, sp2 dropped *)
Theorem parse_decimal_accuracy_trunc_frac_proof : forall sg zs1 zs2 d1 sp1 sp2 tail,
  (sg = [] \/ sg = [45]) -> all_zeros zs1 -> all_zeros zs2 -> nonzero_digit d1 -> all_digits sp1 -> len sp1 = 17 ->
  all_digits sp2 -> ends_mant true tail -> len zs2 + 18 <= 290 ->
  exists (v : bin64) k,
    parse_decimal (sg ++ zs1 ++ 46 :: zs2 ++ (d1 :: sp1) ++ sp2 ++ tail) = Ok (B2SF v, k) /\
    is_finite v = true /\
    let V := dec_real (sign_neg sg) (dec_value ((d1 :: sp1) ++ sp2)) (- (len zs2 + 18 + len sp2)) in
    (Rabs (B2R v - V) <= 7 * uu * Rabs V)%R /\ (Rabs (B2R v - round64 V) <= / 100000000000000 * Rabs (round64 V))%R.
Proof.
  intros sg zs1 zs2 d1 sp1 sp2 tail Hsg Hz1 Hz2 Hd1 Hsp1 Hl1 Hsp2 Hend Hlz.
  set (st := len sg). assert (Hst : 0 <= st) by apply len_nonneg.
  pose proof (len_nonneg zs1) as Lz1. pose proof (len_nonneg zs2) as Lz2. pose proof (len_nonneg sp2) as L2.
  destruct (digits18_ge d1 sp1 Hd1 Hsp1 ltac:(lia)) as [Hnb HLn]. set (n := dec_value (d1 :: sp1)) in *.
  assert (Hnv : n = dec_value_from (d1 - 48) sp1) by reflexivity.
  assert (Hd1' : 1 <= d1 - 48 <= 9) by (unfold nonzero_digit in Hd1; lia).
  set (l := zs1 ++ 46 :: zs2 ++ (d1 :: sp1) ++ sp2 ++ tail).
  set (i := st + len zs1 + 1 + len zs2 + 18 + len sp2).
  assert (Hscan : pd_scan l st (-1) (-1) 0 = (i, st + len zs1 + 1 + len zs2, st + len zs1, n)).
  { unfold l, i. rewrite pd_zeros by exact Hz1. rewrite pd_dot. rewrite pd_zeros by exact Hz2.
    cbn [app]. rewrite pd_first by exact Hd1.
    rewrite pd_digits by (try assumption; try lia; rewrite <- Hnv; unfold two64; lia). rewrite <- Hnv.
    rewrite pd_skip by (try assumption; lia).
    rewrite pd_tail by (replace (st + len zs1 =? -1) with false by lia; exact Hend).
    f_equal. f_equal. f_equal. lia. }
  assert (Hexp : pd_exp i (st + len zs1 + 1 + len zs2) (st + len zs1) n = - (len zs2 + 18)).
  { unfold pd_exp. rewrite HLn, Hl1.
    replace (st + len zs1 =? -1) with false by lia. cbv zeta.
    replace (st + len zs1 <? st + len zs1 + 1 + len zs2) with true by lia. lia. }
  destruct (parse_decimal_of_scan sg l i (st + len zs1 + 1 + len zs2) (st + len zs1) n Hsg) as (v & Hv & HvF & Hva); try exact Hscan.
  { intros _. unfold l. destruct Hz1 as [|z zs' Hz _]; cbn [app]; lia. }
  { unfold i. lia. }
  { lia. }
  { change (2 ^ 64) with 18446744073709551616. lia. }
  { rewrite Hexp. lia. }
  rewrite Hexp in Hva. exists v, i. split; [exact Hv|]. split; [exact HvF|]. cbv zeta.
  set (T := len sp2). set (R := dec_value sp2).
  assert (HRb : 0 <= R < 10 ^ T) by exact (dec_value_lt_pow _ Hsp2).
  assert (HD : dec_value ((d1 :: sp1) ++ sp2) = n * 10 ^ T + R).
  { unfold dec_value at 1. rewrite dec_value_from_app. fold (dec_value (d1 :: sp1)). fold n.
    rewrite (dec_value_from_lin _ Hsp2). reflexivity. }
  rewrite HD. rewrite <- dec_real_split. replace (- (len zs2 + 18 + T)) with (- (len zs2 + 18) - T) by lia.
  apply pd_dropped_finish; try assumption; try lia; change (2 ^ 64) with 18446744073709551616; lia.
Qed.
