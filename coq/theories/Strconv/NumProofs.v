(* Strconv/NumProofs.v — AppendNumber / ParseNumber (strconv/number.go): rendering and round trip. *)
From Coq Require Import ZifyBool.
From Verif Require Import Common.Base Common.Tactics Cursor.Model Strconv.Model Strconv.IntProofs.

(* lia with x / c and x mod c for numeral c *)
Ltac dlia := Z.div_mod_to_equations; lia.

(* ---- UTF-8: EncodeRune followed by DecodeRune ----------------------------------------------------- *)

(* a rune that utf8.RuneLen accepts: a Unicode scalar value (1-4 bytes) *)
Definition valid_rune (r : Z) : Prop := rune_len r <> -1.

Lemma valid_rune_range r : valid_rune r <-> (0 <= r <= 1114111 /\ ~ (55296 <= r <= 57343)).
Proof. unfold valid_rune, rune_len. split; intros H; repeat match goal with |- context [if ?c then _ else _] => destruct c eqn:? | H : context [if ?c then _ else _] |- _ => destruct c eqn:? end; lia. Qed.

Lemma rune_len_cases r : valid_rune r ->
  (rune_len r = 1 /\ 0 <= r <= 127) \/ (rune_len r = 2 /\ 128 <= r <= 2047) \/
  (rune_len r = 3 /\ 2048 <= r <= 65535 /\ ~ (55296 <= r <= 57343)) \/ (rune_len r = 4 /\ 65536 <= r <= 1114111).
Proof.
  intros H. apply valid_rune_range in H. unfold rune_len.
  repeat match goal with |- context [if ?c then _ else _] => destruct c eqn:? end; lia.
Qed.

Lemma len_utf8_encode r : valid_rune r -> len (utf8_encode r) = rune_len r.
Proof.
  intros H. destruct (rune_len_cases r H) as [[E _]|[[E _]|[[E _]|[E _]]]]; unfold utf8_encode; rewrite E; reflexivity.
Qed.

Lemma decode_encode r t : valid_rune r -> utf8_decode (utf8_encode r ++ t) = Some (r, rune_len r).
Proof.
  intros H. destruct (rune_len_cases r H) as [[E B]|[[E B]|[[E B]|[E B]]]]; unfold utf8_encode; rewrite E; cbn [Z.eqb Pos.eqb app].
  - unfold utf8_decode. replace ((0 <=? r) && (r <=? 127)) with true by lia. reflexivity.
  - unfold utf8_decode, cont.
    replace ((0 <=? 192 + r / 64) && (192 + r / 64 <=? 127)) with false by dlia.
    replace ((194 <=? 192 + r / 64) && (192 + r / 64 <=? 223) && ((128 <=? 128 + r mod 64) && (128 + r mod 64 <=? 191))) with true by dlia.
    f_equal. f_equal. dlia.
  - unfold utf8_decode, cont.
    replace ((0 <=? 224 + r / 4096) && (224 + r / 4096 <=? 127)) with false by dlia.
    replace ((194 <=? 224 + r / 4096) && (224 + r / 4096 <=? 223) && ((128 <=? 128 + r / 64 mod 64) && (128 + r / 64 mod 64 <=? 191))) with false by dlia.
    match goal with |- (if ?c then _ else _) = _ => replace c with true by dlia end.
    f_equal. f_equal. dlia.
  - unfold utf8_decode, cont.
    replace ((0 <=? 240 + r / 262144) && (240 + r / 262144 <=? 127)) with false by dlia.
    replace ((194 <=? 240 + r / 262144) && (240 + r / 262144 <=? 223) && ((128 <=? 128 + r / 4096 mod 64) && (128 + r / 4096 mod 64 <=? 191))) with false by dlia.
    match goal with |- (if ?c then _ else _) = _ => replace c with false by dlia end.
    match goal with |- (if ?c then _ else _) = _ => replace c with true by dlia end.
    f_equal. f_equal. dlia.
Qed.

Lemma rune_len_bounds r :
  (rune_len r = 1 -> 0 <= r <= 127) /\ (rune_len r = 2 -> 128 <= r <= 2047) /\
  (rune_len r = 3 -> 2048 <= r <= 65535) /\ (rune_len r = 4 -> 65536 <= r <= 1114111).
Proof.
  unfold rune_len. repeat match goal with |- context [if ?c then _ else _] => destruct c eqn:? end; lia.
Qed.

Lemma utf8_encode_nonempty r : exists c t, utf8_encode r = c :: t /\ (c = r /\ 0 <= r <= 127 \/ 192 <= c).
Proof.
  destruct (rune_len_bounds r) as (B1 & B2 & B3 & B4). unfold utf8_encode.
  destruct (rune_len r =? 1) eqn:E1; [eexists; eexists; split; [reflexivity|left; lia]|].
  destruct (rune_len r =? 2) eqn:E2; [eexists; eexists; split; [reflexivity|right; specialize (B2 ltac:(lia)); dlia]|].
  destruct (rune_len r =? 3) eqn:E3; [eexists; eexists; split; [reflexivity|right; specialize (B3 ltac:(lia)); dlia]|].
  destruct (rune_len r =? 4) eqn:E4; [eexists; eexists; split; [reflexivity|right; specialize (B4 ltac:(lia)); dlia]|].
  eexists; eexists; split; [reflexivity|right; lia].
Qed.

Lemma go_decode_encode r t : valid_rune r -> go_decode_rune (utf8_encode r ++ t) = (r, rune_len r).
Proof.
  intros H. unfold go_decode_rune. rewrite (decode_encode r t H).
  destruct (utf8_encode_nonempty r) as (c & t' & -> & _). reflexivity.
Qed.

Lemma skipz_app_len {A} (a b : list A) : skipz (len a) (a ++ b) = b.
Proof.
  unfold skipz, len. rewrite Nat2Z.id. rewrite skipn_app, skipn_all, Nat.sub_diag. reflexivity.
Qed.

(* ---- ParseNumber: the loop, independent of the fuel ------------------------------------------------ *)

Lemma utf8_decode_size l r k : utf8_decode l = Some (r, k) -> 1 <= k <= 4.
Proof.
  unfold utf8_decode. intros H.
  repeat match type of H with
         | match ?x with _ => _ end = _ => destruct x eqn:?
         | (if ?c then _ else _) = _ => destruct c eqn:?
         end; try discriminate; inversion H; lia.
Qed.

Lemma go_decode_size c t : 1 <= snd (go_decode_rune (c :: t)) <= 4.
Proof.
  unfold go_decode_rune. destruct (utf8_decode (c :: t)) as [[r k]|] eqn:E; cbn [snd]; [|lia].
  apply utf8_decode_size in E. exact E.
Qed.

Lemma length_skipz_lt {A} k (c : A) t : 1 <= k -> (length (skipz k (c :: t)) < length (c :: t))%nat.
Proof.
  intros Hk. unfold skipz. rewrite skipn_length. cbn [length]. lia.
Qed.

Lemma pn_loop_fuel f : forall f' l gs ds sign num dec n hd,
  (length l < f)%nat -> (length l < f')%nat ->
  pn_loop f l gs ds sign num dec n hd = pn_loop f' l gs ds sign num dec n hd.
Proof.
  induction f as [|f IH]; intros f' l gs ds sign num dec n hd H1 H2; [lia|].
  destruct f' as [|f']; [lia|]. cbn [pn_loop]. destruct l as [|c t]; [reflexivity|].
  cbn [length] in H1, H2.
  destruct (is_digit c).
  - repeat match goal with |- (if ?c then _ else _) = (if ?c then _ else _) => destruct c; [reflexivity|] end.
    apply IH; lia.
  - match goal with |- (if ?c then _ else _) = (if ?c then _ else _) => destruct c; [|reflexivity] end.
    pose proof (go_decode_size c t) as Hs.
    pose proof (length_skipz_lt (snd (go_decode_rune (c :: t))) c t ltac:(lia)) as Hl. cbn [length] in Hl.
    apply IH; lia.
Qed.

(* the loop with the fuel ParseNumber gives it *)
Definition pn (l : list Z) (gs ds sign num dec n : Z) (hd : bool) : res (Z * Z * Z) :=
  pn_loop (S (length l)) l gs ds sign num dec n hd.

Lemma pn_nil gs ds sign num dec n hd : pn [] gs ds sign num dec n hd = Ok (num, dec, n).
Proof. reflexivity. Qed.

Lemma pn_loop_cons f c t gs ds sign num dec n hasdec :
  pn_loop (S f) (c :: t) gs ds sign num dec n hasdec =
  if is_digit c then
    let digit := i64 (sign * byte (c - 48)) in
    if (sign =? 1) && ((max_i64 / 10 <? num) || (max_i64 - digit <? i64 (num * 10)))
    then Ok (num, dec, n)
    else if (sign =? -1) && ((num <? Z.quot min_i64 10) || (i64 (num * 10) <? min_i64 - digit))
    then Ok (num, dec, n)
    else pn_loop f t gs ds sign (i64 (i64 (num * 10) + digit))
                 (if hasdec then dec + 1 else dec) (n + 1) hasdec
  else
    let rs := go_decode_rune (c :: t) in
    if negb hasdec && ((fst rs =? gs) || (fst rs =? ds)) then
      pn_loop f (skipz (snd rs) (c :: t)) gs ds sign num dec (n + snd rs)
              (if fst rs =? ds then true else hasdec)
    else Ok (num, dec, n).
Proof. reflexivity. Qed.

(* magnitude bound of the accumulator: MaxInt64 for positive numbers, 2^63 for negative ones *)
Definition mag_bound (sign : Z) : Z := if sign =? 1 then max_i64 else two63.

Lemma pn_digit c t gs ds sign m dec n hd :
  is_digit c = true -> (sign = 1 \/ sign = -1) -> 0 <= m -> m * 10 + (c - 48) <= mag_bound sign ->
  pn (c :: t) gs ds sign (sign * m) dec n hd =
  pn t gs ds sign (sign * (m * 10 + (c - 48))) (if hd then dec + 1 else dec) (n + 1) hd.
Proof.
  intros Hc Hs Hm Hb. unfold pn. cbn [length]. rewrite pn_loop_cons. rewrite Hc. cbn zeta.
  rewrite (byte_digit c Hc). apply is_digit_range in Hc.
  unfold mag_bound, max_i64, min_i64, two63 in *.
  destruct Hs as [-> | ->].
  - replace (1 =? 1) with true in * by reflexivity. replace (1 =? -1) with false by reflexivity.
    rewrite !Z.mul_1_l. rewrite (i64_small (c - 48)) by (unfold min_i64, max_i64; lia).
    rewrite (i64_small (m * 10)) by (unfold min_i64, max_i64; lia).
    cbn [andb].
    replace ((9223372036854775807 / 10 <? m) || (9223372036854775807 - (c - 48) <? m * 10)) with false by dlia.
    rewrite i64_small by (unfold min_i64, max_i64; lia).
    apply pn_loop_fuel; lia.
  - replace (-1 =? 1) with false in * by reflexivity. replace (-1 =? -1) with true by reflexivity.
    cbn [andb].
    rewrite (i64_small (-1 * (c - 48))) by (unfold min_i64, max_i64; lia).
    rewrite (i64_small (-1 * m * 10)) by (unfold min_i64, max_i64; lia).
    replace (Z.quot (-9223372036854775808) 10) with (-922337203685477580) by reflexivity.
    replace ((-1 * m <? -922337203685477580) || (-1 * m * 10 <? -9223372036854775808 - -1 * (c - 48))) with false by lia.
    rewrite i64_small by (unfold min_i64, max_i64; lia).
    replace (-1 * m * 10 + -1 * (c - 48)) with (-1 * (m * 10 + (c - 48))) by lia.
    apply pn_loop_fuel; lia.
Qed.

(* a run of digits *)
Lemma pn_digits ds : all_digits ds -> forall t gs dsym sign m dec n hd,
  (sign = 1 \/ sign = -1) -> 0 <= m -> dec_value_from m ds <= mag_bound sign ->
  pn (ds ++ t) gs dsym sign (sign * m) dec n hd =
  pn t gs dsym sign (sign * dec_value_from m ds) (if hd then dec + len ds else dec) (n + len ds) hd.
Proof.
  intros Hd. induction Hd as [|c r Hc Hr IH]; intros t gs dsym sign m dec n hd Hs Hm Hb.
  - cbn [app dec_value_from fold_left]. rewrite len_nil, !Z.add_0_r. destruct hd; reflexivity.
  - cbn [app]. change (dec_value_from m (c :: r)) with (dec_value_from (digit_step m c) r) in *.
    pose proof Hc as Hc'. apply is_digit_range in Hc'.
    assert (Hmono : digit_step m c <= dec_value_from (digit_step m c) r).
    { apply dec_value_from_ge; [unfold digit_step; lia|exact Hr]. }
    unfold digit_step in *.
    rewrite pn_digit by (try assumption; lia).
    rewrite IH by (try assumption; lia).
    rewrite len_cons. destruct hd; f_equal; lia.
Qed.

(* a group symbol in the integer part is skipped; the decimal symbol switches to the decimals *)
Lemma pn_group_sym r t gs ds sign num dec n :
  valid_rune r -> is_digit r = false -> r = gs -> gs <> ds ->
  pn (utf8_encode r ++ t) gs ds sign num dec n false = pn t gs ds sign num dec (n + rune_len r) false.
Proof.
  intros Hv Hnd -> Hne. unfold pn.
  destruct (utf8_encode_nonempty gs) as (c & t' & E & Hc).
  assert (Hcd : is_digit c = false).
  { destruct Hc as [[-> _]|Hc]; [exact Hnd|unfold is_digit; lia]. }
  pose proof (go_decode_encode gs t Hv) as Hdec. pose proof (len_utf8_encode gs Hv) as Hlen.
  rewrite E in *. cbn [app length]. rewrite pn_loop_cons. rewrite Hcd. cbn [app] in Hdec. cbn zeta. rewrite Hdec. cbn [fst snd negb andb].
  replace ((gs =? gs) || (gs =? ds)) with true by lia.
  replace (gs =? ds) with false by lia.
  replace (skipz (rune_len gs) (c :: t' ++ t)) with t.
  2:{ rewrite <- Hlen. change (c :: t' ++ t) with ((c :: t') ++ t). rewrite skipz_app_len. reflexivity. }
  apply pn_loop_fuel; rewrite ?app_length; lia.
Qed.

Lemma pn_dec_sym r t gs ds sign num dec n :
  valid_rune r -> is_digit r = false -> r = ds ->
  pn (utf8_encode r ++ t) gs ds sign num dec n false = pn t gs ds sign num dec (n + rune_len r) true.
Proof.
  intros Hv Hnd ->. unfold pn.
  destruct (utf8_encode_nonempty ds) as (c & t' & E & Hc).
  assert (Hcd : is_digit c = false).
  { destruct Hc as [[-> _]|Hc]; [exact Hnd|unfold is_digit; lia]. }
  pose proof (go_decode_encode ds t Hv) as Hdec. pose proof (len_utf8_encode ds Hv) as Hlen.
  rewrite E in *. cbn [app length]. rewrite pn_loop_cons. rewrite Hcd. cbn [app] in Hdec. cbn zeta. rewrite Hdec. cbn [fst snd negb andb].
  replace ((ds =? gs) || (ds =? ds)) with true by lia.
  replace (ds =? ds) with true by lia.
  replace (skipz (rune_len ds) (c :: t' ++ t)) with t.
  2:{ rewrite <- Hlen. change (c :: t' ++ t) with ((c :: t') ++ t). rewrite skipz_app_len. reflexivity. }
  apply pn_loop_fuel; rewrite ?app_length; lia.
Qed.

(* ---- the reference rendering of AppendNumber -------------------------------------------------------- *)

(* a group symbol is written before digit number j (counted from the right, from 0) *)
Definition sepcond (gsize gs j : Z) : bool :=
  (0 <? gsize) && negb (gs =? 0) && (0 <? j) && (Z.rem j gsize =? 0).

(* the integer part of m > 0, grouped; digit j of m is followed by a group symbol when sepcond *)
Fixpoint int_out (f : nat) (m gsize gs j : Z) : list Z :=
  if m =? 0 then []
  else match f with
       | O => []
       | S f' => int_out f' (m / 10) gsize gs (j + 1) ++ [48 + m mod 10] ++
                 (if sepcond gsize gs j then utf8_encode gs else [])
       end.

(* the k low digits of m, least significant first *)
Fixpoint frac_rdigits (k : nat) (m : Z) : list Z :=
  match k with
  | O => []
  | S k' => (48 + m mod 10) :: frac_rdigits k' (m / 10)
  end.

Definition render (n dec gsize gs ds : Z) : list Z :=
  let m := Z.abs n in
  let ip := m / 10 ^ dec in
  (if n <? 0 then [45] else []) ++
  (if ip =? 0 then [48] else int_out 20 ip gsize gs 0) ++
  (if 0 <? dec then utf8_encode ds ++ rev (frac_rdigits (Z.to_nat dec) m) else []).

Lemma div10_bound m f : 0 <= m < 10 ^ Z.of_nat (S f) -> 0 <= m / 10 < 10 ^ Z.of_nat f.
Proof.
  intros H. rewrite Nat2Z.inj_succ, Z.pow_succ_r in H by lia.
  split; [apply Z.div_pos; lia|apply Z.div_lt_upper_bound; lia].
Qed.

Lemma int_out_zero f gsize gs j : int_out f 0 gsize gs j = [].
Proof. destruct f; reflexivity. Qed.

Lemma int_out_head f : forall m gsize gs j, 0 < m < 10 ^ Z.of_nat f ->
  exists c t, int_out f m gsize gs j = c :: t /\ is_digit c = true.
Proof.
  induction f as [|f IH]; intros m gsize gs j Hm; [cbn in Hm; lia|].
  cbn [int_out]. replace (m =? 0) with false by lia.
  destruct (Z.eq_dec (m / 10) 0) as [Hz|Hnz].
  - rewrite Hz, int_out_zero. cbn [app]. eexists; eexists; split; [reflexivity|].
    apply is_digit_range. dlia.
  - pose proof (div10_bound m f ltac:(lia)) as Hq.
    destruct (IH (m / 10) gsize gs (j + 1) ltac:(lia)) as (c & t & -> & Hc).
    cbn [app]. eexists; eexists; split; [reflexivity|exact Hc].
Qed.

(* ParseNumber reads the grouped integer part back *)
Lemma pn_int_out f : forall m gsize gs j t ds sign dec n,
  valid_rune gs -> is_digit gs = false -> gs <> ds -> (sign = 1 \/ sign = -1) ->
  0 <= m < 10 ^ Z.of_nat f -> m <= mag_bound sign ->
  pn (int_out f m gsize gs j ++ t) gs ds sign (sign * 0) dec n false =
  pn t gs ds sign (sign * m) dec (n + len (int_out f m gsize gs j)) false.
Proof.
  induction f as [|f IH]; intros m gsize gs j t ds sign dec n Hv Hnd Hne Hs Hm Hb.
  - assert (m = 0) by (cbn in Hm; lia). subst m. rewrite int_out_zero. cbn [app]. change (len (@nil Z)) with 0. rewrite Z.add_0_r. reflexivity.
  - cbn [int_out]. destruct (m =? 0) eqn:E0.
    + assert (m = 0) by lia. subst m. cbn [app]. change (len (@nil Z)) with 0. rewrite Z.add_0_r. reflexivity.
    + pose proof (div10_bound m f Hm) as Hq.
      rewrite <- !app_assoc. rewrite IH by (try assumption; dlia).
      cbn [app]. rewrite pn_digit.
      2:{ apply is_digit_range. dlia. }
      2:{ exact Hs. }
      2:{ lia. }
      2:{ replace (m / 10 * 10 + (48 + m mod 10 - 48)) with m by dlia. exact Hb. }
      replace (m / 10 * 10 + (48 + m mod 10 - 48)) with m by dlia.
      rewrite !len_app, len_cons.
      destruct (sepcond gsize gs j).
      * rewrite pn_group_sym by (try assumption; reflexivity).
        rewrite (len_utf8_encode gs Hv). f_equal. lia.
      * cbn [app]. change (len (@nil Z)) with 0. f_equal. lia.
Qed.

(* ... and the decimals *)
Lemma pn_frac k : forall m t gs ds sign dec n,
  (sign = 1 \/ sign = -1) -> 0 <= m <= mag_bound sign ->
  pn (rev (frac_rdigits k m) ++ t) gs ds sign (sign * (m / 10 ^ Z.of_nat k)) dec n true =
  pn t gs ds sign (sign * m) (dec + Z.of_nat k) (n + Z.of_nat k) true.
Proof.
  induction k as [|k IH]; intros m t gs ds sign dec n Hs Hm.
  - cbn [frac_rdigits rev app]. change (Z.of_nat 0) with 0. rewrite Z.pow_0_r, Z.div_1_r, !Z.add_0_r. reflexivity.
  - cbn [frac_rdigits rev]. rewrite <- app_assoc. cbn [app].
    assert (Hq : 0 <= m / 10 <= mag_bound sign) by dlia.
    replace (m / 10 ^ Z.of_nat (S k)) with (m / 10 / 10 ^ Z.of_nat k).
    2:{ rewrite Nat2Z.inj_succ, Z.pow_succ_r by lia. rewrite Z.div_div by (try lia; apply Z.pow_pos_nonneg; lia). reflexivity. }
    rewrite IH by assumption.
    rewrite pn_digit.
    2:{ apply is_digit_range. dlia. }
    2:{ exact Hs. }
    2:{ lia. }
    2:{ replace (m / 10 * 10 + (48 + m mod 10 - 48)) with m by dlia. lia. }
    replace (m / 10 * 10 + (48 + m mod 10 - 48)) with m by dlia.
    f_equal; lia.
Qed.

Lemma len_frac_rdigits k m : len (frac_rdigits k m) = Z.of_nat k.
Proof.
  revert m. induction k as [|k IH]; intros m; [reflexivity|].
  cbn [frac_rdigits]. rewrite len_cons, IH. lia.
Qed.

Lemma i64_bound_pow : forall m, 0 <= m <= two63 -> m < 10 ^ Z.of_nat 20.
Proof. intros m H. unfold two63 in H. eval_pow10. lia. Qed.

(* symbols allowed by the property: a valid rune that is neither a digit nor '-' *)
Definition sym_ok (r : Z) : Prop := valid_rune r /\ is_digit r = false /\ r <> 45.

Lemma parse_render n dec gsize gs ds :
  min_i64 <= n <= max_i64 -> 0 <= dec -> sym_ok gs -> sym_ok ds -> gs <> ds ->
  parse_number (render n dec gsize gs ds) gs ds = Ok (n, dec, len (render n dec gsize gs ds)).
Proof.
  intros Hn Hdec (Hvg & Hdg & _) (Hvd & Hdd & _) Hne.
  unfold min_i64, max_i64 in Hn.
  set (sign := if n <? 0 then -1 else 1).
  assert (Hs : sign = 1 \/ sign = -1) by (unfold sign; destruct (n <? 0); auto).
  assert (Hm : 0 <= Z.abs n <= mag_bound sign).
  { unfold sign, mag_bound, max_i64, two63. destruct (n <? 0) eqn:E; [change (-1 =? 1) with false|change (1 =? 1) with true]; cbv iota; lia. }
  assert (Hsm : sign * Z.abs n = n) by (unfold sign; destruct (n <? 0) eqn:E; lia).
  set (body := (if Z.abs n / 10 ^ dec =? 0 then [48] else int_out 20 (Z.abs n / 10 ^ dec) gsize gs 0) ++
               (if 0 <? dec then utf8_encode ds ++ rev (frac_rdigits (Z.to_nat dec) (Z.abs n)) else [])).
  assert (Hpow : 0 < 10 ^ dec) by (apply Z.pow_pos_nonneg; lia).
  assert (Hip : 0 <= Z.abs n / 10 ^ dec <= Z.abs n).
  { split; [apply Z.div_pos; lia|]. apply Z.div_le_upper_bound; [lia|]. nia. }
  (* the body is read back from the state after the optional sign *)
  assert (Hbody : forall n0, pn body gs ds sign 0 0 n0 false = Ok (n, dec, n0 + len body)).
  { intros n0. unfold body.
    assert (Hint : forall t, pn ((if Z.abs n / 10 ^ dec =? 0 then [48] else int_out 20 (Z.abs n / 10 ^ dec) gsize gs 0) ++ t) gs ds sign 0 0 n0 false
                   = pn t gs ds sign (sign * (Z.abs n / 10 ^ dec)) 0
                        (n0 + len (if Z.abs n / 10 ^ dec =? 0 then [48] else int_out 20 (Z.abs n / 10 ^ dec) gsize gs 0)) false).
    { intros t. destruct (Z.abs n / 10 ^ dec =? 0) eqn:E0.
      - assert (Hz : Z.abs n / 10 ^ dec = 0) by lia. rewrite Hz. cbn [app].
        pose proof (pn_digit 48 t gs ds sign 0 0 n0 false eq_refl Hs ltac:(lia)) as Hd.
        rewrite Z.mul_0_r in Hd. rewrite Hd by (unfold mag_bound, max_i64, two63; destruct (sign =? 1); lia).
        replace (sign * (0 * 10 + (48 - 48))) with (sign * 0) by lia. reflexivity.
      - pose proof (pn_int_out 20 (Z.abs n / 10 ^ dec) gsize gs 0 t ds sign 0 n0 Hvg Hdg Hne Hs) as Hi.
        rewrite Z.mul_0_r in Hi. apply Hi; [|lia].
        split; [lia|]. apply i64_bound_pow. unfold mag_bound, max_i64, two63 in Hm. destruct (sign =? 1); unfold two63; lia. }
    destruct (0 <? dec) eqn:Ed.
    - rewrite Hint. rewrite pn_dec_sym by (try assumption; reflexivity).
      replace (Z.abs n / 10 ^ dec) with (Z.abs n / 10 ^ Z.of_nat (Z.to_nat dec)) at 1 by (rewrite Z2Nat.id by lia; reflexivity).
      rewrite <- (app_nil_r (rev (frac_rdigits (Z.to_nat dec) (Z.abs n)))).
      rewrite pn_frac by assumption. rewrite pn_nil, Hsm. rewrite Z2Nat.id by lia.
      rewrite app_nil_r. rewrite !len_app, len_rev, len_frac_rdigits, (len_utf8_encode ds Hvd), Z2Nat.id by lia.
      f_equal. f_equal. lia.
    - assert (dec = 0) by lia. subst dec. rewrite Hint. rewrite pn_nil.
      rewrite Z.pow_0_r, Z.div_1_r, Hsm. rewrite app_nil_r. reflexivity. }
  unfold render. fold body. unfold parse_number.
  destruct (n <? 0) eqn:En.
  - cbn [app tl]. replace (45 =? 45) with true by reflexivity. cbn [length].
    rewrite (pn_loop_fuel _ (S (length body))) by lia. fold (pn body gs ds (-1) 0 0 1 false).
    unfold sign in Hbody. rewrite Hbody. rewrite len_cons. reflexivity.
  - cbn [app].
    assert (Hhead : match body with c :: _ => c =? 45 | [] => false end = false).
    { unfold body. destruct (Z.abs n / 10 ^ dec =? 0) eqn:E0; [reflexivity|].
      destruct (int_out_head 20 (Z.abs n / 10 ^ dec) gsize gs 0) as (c & t & -> & Hc).
      - split; [lia|]. apply i64_bound_pow. unfold two63. lia.
      - cbn [app]. apply is_digit_range in Hc. lia. }
    rewrite Hhead. fold (pn body gs ds 1 0 0 0 false). unfold sign in Hbody. rewrite Hbody. reflexivity.
Qed.

(* ---- AppendNumber writes the reference rendering ------------------------------------------------------ *)

Lemma store_list_spec vs : forall pre mid post, len mid = len vs ->
  store_list (pre ++ mid ++ post) (len pre) vs = Ok (pre ++ vs ++ post).
Proof.
  induction vs as [|v vs IH]; intros pre mid post Hl.
  - destruct mid; [reflexivity|]. rewrite len_cons, len_nil in Hl. pose proof (len_nonneg mid). lia.
  - destruct mid as [|x mid]; [rewrite len_cons, len_nil in Hl; pose proof (len_nonneg vs); lia|].
    rewrite !len_cons in Hl. cbn [store_list app]. rewrite store_app_mid. cbn [rbind].
    replace (pre ++ v :: mid ++ post) with ((pre ++ [v]) ++ mid ++ post) by (rewrite <- app_assoc; reflexivity).
    replace (len pre + 1) with (len (pre ++ [v])) by (rewrite len_app, len_cons, len_nil; lia).
    rewrite IH by lia. rewrite <- app_assoc. reflexivity.
Qed.

Lemma split_right {A} (l : list A) a : 0 <= a <= len l -> exists l1 l2, l = l1 ++ l2 /\ len l2 = a.
Proof.
  intros H. exists (firstz (len l - a) l), (skipz (len l - a) l). split.
  - unfold firstz, skipz. symmetry. apply firstn_skipn.
  - rewrite len_skipz by lia. lia.
Qed.

Lemma sign_digit sign m : (sign = 1 \/ sign = -1) -> 0 <= m ->
  byte (byte (sign * Z.rem (sign * m) 10) + 48) = 48 + m mod 10 /\ Z.quot (sign * m) 10 = sign * (m / 10).
Proof.
  intros Hs Hm. destruct (rem_quot_nonneg m Hm) as [Hr Hq].
  assert (H10 : 0 <= m mod 10 < 10) by (apply Z.mod_pos_bound; lia).
  destruct Hs as [-> | ->].
  - rewrite !Z.mul_1_l, Hr, Hq. split; [apply byte_digit_char; exact H10|reflexivity].
  - replace (-1 * m) with (- m) by lia. rewrite Z.rem_opp_l, Z.quot_opp_l, Hr, Hq by lia.
    replace (-1 * - (m mod 10)) with (m mod 10) by lia. split; [apply byte_digit_char; exact H10|lia].
Qed.

Lemma an_frac_spec sign k : (sign = 1 \/ sign = -1) -> forall m pre mid post,
  0 <= m -> len mid = Z.of_nat k ->
  an_frac k (pre ++ mid ++ post) (len pre + len mid - 1) (sign * m) sign
  = Ok (pre ++ rev (frac_rdigits k m) ++ post, len pre - 1, sign * (m / 10 ^ Z.of_nat k)).
Proof.
  intros Hs. induction k as [|k IH]; intros m pre mid post Hm Hl.
  - destruct mid; [|rewrite len_cons in Hl; pose proof (len_nonneg mid); lia].
    cbn [an_frac frac_rdigits rev app]. rewrite len_nil. change (Z.of_nat 0) with 0.
    rewrite Z.pow_0_r, Z.div_1_r. f_equal. f_equal. f_equal. lia.
  - cbn [an_frac frac_rdigits rev].
    destruct (list_snoc mid ltac:(lia)) as (mid' & x & ->).
    rewrite len_app, len_cons, len_nil in Hl.
    destruct (sign_digit sign m Hs Hm) as [-> ->].
    replace (pre ++ (mid' ++ [x]) ++ post) with ((pre ++ mid') ++ x :: post) by (rewrite <- !app_assoc; reflexivity).
    replace (len pre + len (mid' ++ [x]) - 1) with (len (pre ++ mid')) by (rewrite !len_app, len_cons, len_nil; lia).
    rewrite store_app_mid. cbn [rbind].
    replace (len (pre ++ mid') - 1) with (len pre + len mid' - 1) by (rewrite len_app; lia).
    rewrite <- app_assoc. rewrite IH by (try lia; apply Z.div_pos; lia).
    rewrite <- !app_assoc. cbn [app]. f_equal. f_equal.
    rewrite Nat2Z.inj_succ, Z.pow_succ_r by lia.
    rewrite Z.div_div by (try lia; apply Z.pow_pos_nonneg; lia). reflexivity.
Qed.

Lemma an_int_spec sign gsize gs f : (sign = 1 \/ sign = -1) -> valid_rune gs -> forall m j pre mid post,
  0 <= m < 10 ^ Z.of_nat f -> len mid = len (int_out f m gsize gs j) ->
  an_int f (pre ++ mid ++ post) (len pre + len mid - 1) (sign * m) sign gsize gs j
  = Ok (pre ++ int_out f m gsize gs j ++ post, len pre - 1).
Proof.
  intros Hs Hv. induction f as [|f IH]; intros m j pre mid post Hm Hl.
  - assert (m = 0) by (cbn in Hm; lia). subst m. rewrite int_out_zero in *. rewrite len_nil in Hl.
    destruct mid; [|rewrite len_cons in Hl; pose proof (len_nonneg mid); lia].
    cbn [an_int app]. rewrite Z.mul_0_r. cbn [Z.eqb]. rewrite len_nil. f_equal. f_equal. lia.
  - cbn [an_int int_out] in *. destruct (m =? 0) eqn:E0.
    + assert (m = 0) by lia. subst m. rewrite Z.mul_0_r. cbn [Z.eqb]. rewrite len_nil in Hl.
      destruct mid; [|rewrite len_cons in Hl; pose proof (len_nonneg mid); lia].
      cbn [app]. rewrite len_nil. f_equal. f_equal. lia.
    + replace (sign * m =? 0) with false by (destruct Hs as [-> | ->]; lia).
      fold (sepcond gsize gs j).
      rewrite !len_app, len_cons in Hl. change (len (@nil Z)) with 0 in Hl.
      pose proof (len_nonneg (int_out f (m / 10) gsize gs (j + 1))) as Hl0.
      destruct (sign_digit sign m Hs ltac:(lia)) as [-> ->].
      pose proof (div10_bound m f Hm) as Hq.
      destruct (sepcond gsize gs j) eqn:Esep; rewrite ?Esep in Hl; change (len (@nil Z)) with 0 in Hl.
      * pose proof (len_utf8_encode gs Hv) as Hrl. pose proof (len_nonneg (utf8_encode gs)) as Hrl0.
        destruct (split_right mid (len (utf8_encode gs)) ltac:(lia)) as (m1 & m2 & -> & Hm2).
        rewrite len_app in Hl.
        destruct (list_snoc m1 ltac:(lia)) as (m0 & x & ->).
        rewrite len_app, len_cons, len_nil in Hl.
        replace (pre ++ ((m0 ++ [x]) ++ m2) ++ post) with ((pre ++ m0 ++ [x]) ++ m2 ++ post) by (rewrite <- !app_assoc; reflexivity).
        replace (len pre + len ((m0 ++ [x]) ++ m2) - 1 - rune_len gs + 1) with (len (pre ++ m0 ++ [x])).
        2:{ rewrite !len_app, len_cons, len_nil. lia. }
        rewrite store_list_spec by exact Hm2. cbn [rbind fst snd].
        replace ((pre ++ m0 ++ [x]) ++ utf8_encode gs ++ post) with ((pre ++ m0) ++ x :: utf8_encode gs ++ post) by (rewrite <- !app_assoc; reflexivity).
        replace (len pre + len ((m0 ++ [x]) ++ m2) - 1 - rune_len gs) with (len (pre ++ m0)).
        2:{ rewrite !len_app, len_cons, len_nil. lia. }
        rewrite store_app_mid. cbn [rbind].
        replace (len (pre ++ m0) - 1) with (len pre + len m0 - 1) by (rewrite len_app; lia).
        rewrite <- app_assoc. rewrite IH by (try assumption; lia).
        rewrite <- !app_assoc. reflexivity.
      * destruct (list_snoc mid ltac:(lia)) as (m0 & x & ->).
        rewrite len_app, len_cons, len_nil in Hl.
        cbn [rbind fst snd].
        replace (pre ++ (m0 ++ [x]) ++ post) with ((pre ++ m0) ++ x :: post) by (rewrite <- !app_assoc; reflexivity).
        replace (len pre + len (m0 ++ [x]) - 1) with (len (pre ++ m0)) by (rewrite !len_app, len_cons, len_nil; lia).
        rewrite store_app_mid. cbn [rbind].
        replace (len (pre ++ m0) - 1) with (len pre + len m0 - 1) by (rewrite len_app; lia).
        rewrite <- app_assoc. rewrite IH by (try assumption; lia).
        rewrite <- !app_assoc. reflexivity.
Qed.

(* ---- lengths ---------------------------------------------------------------------------------------------- *)

Lemma rdigits_step f m : m <> 0 -> rdigits (S f) m = (48 + m mod 10) :: rdigits f (m / 10).
Proof. intros H. cbn [rdigits]. replace (m =? 0) with false by lia. reflexivity. Qed.

Lemma rdigits_zero f : rdigits f 0 = [].
Proof. destruct f; reflexivity. Qed.

Lemma div_step j g : 1 <= j -> 1 <= g ->
  j / g = (j - 1) / g + (if Z.rem j g =? 0 then 1 else 0).
Proof.
  intros Hj Hg. rewrite Z.rem_mod_nonneg by lia.
  pose proof (Z.div_mod j g ltac:(lia)) as E1. pose proof (Z.mod_pos_bound j g ltac:(lia)) as B1.
  destruct (j mod g =? 0) eqn:E.
  - pose proof (Z.div_unique (j - 1) g (j / g - 1) (g - 1) ltac:(lia) ltac:(nia)). lia.
  - pose proof (Z.div_unique (j - 1) g (j / g) (j mod g - 1) ltac:(lia) ltac:(nia)). lia.
Qed.

(* group symbols are in use *)
Definition grouping (gsize gs : Z) : bool := (0 <? gsize) && negb (gs =? 0).

Lemma sepcond_grouping gsize gs j : sepcond gsize gs j = grouping gsize gs && (0 <? j) && (Z.rem j gsize =? 0).
Proof. reflexivity. Qed.

Lemma len_int_out_plain f gsize gs : grouping gsize gs = false -> forall m j,
  len (int_out f m gsize gs j) = len (rdigits f m).
Proof.
  intros Hg. induction f as [|f IH]; intros m j.
  - cbn. destruct (m =? 0); reflexivity.
  - cbn [int_out rdigits]. destruct (m =? 0); [reflexivity|].
    rewrite sepcond_grouping, Hg. cbn [andb]. rewrite !len_app, !len_cons, IH. change (len (@nil Z)) with 0. lia.
Qed.

Lemma len_int_out_grouped f gsize gs : grouping gsize gs = true -> valid_rune gs -> forall m j, 1 <= j ->
  len (int_out f m gsize gs j) =
  len (rdigits f m) + rune_len gs * ((j + len (rdigits f m) - 1) / gsize - (j - 1) / gsize).
Proof.
  intros Hg Hv. assert (Hgs : 1 <= gsize) by (unfold grouping in Hg; lia).
  induction f as [|f IH]; intros m j Hj.
  - assert (E : forall x, int_out 0 x gsize gs j = []) by (intros x; cbn; destruct (x =? 0); reflexivity).
    assert (E' : forall x, rdigits 0 x = []) by (intros x; cbn; destruct (x =? 0); reflexivity).
    rewrite E, E'. change (len (@nil Z)) with 0. replace (j + 0 - 1) with (j - 1) by lia. lia.
  - cbn [int_out rdigits]. destruct (m =? 0).
    + change (len (@nil Z)) with 0. replace (j + 0 - 1) with (j - 1) by lia. lia.
    + rewrite sepcond_grouping, Hg. replace (0 <? j) with true by lia. cbn [andb].
      rewrite !len_app, !len_cons. change (len (@nil Z)) with 0. rewrite IH by lia.
      set (D := len (rdigits f (m / 10))).
      replace (j + 1 + D - 1) with (j + (1 + D) - 1) by lia.
      replace (j + 1 - 1) with j by lia. rewrite (div_step j gsize Hj Hgs).
      destruct (Z.rem j gsize =? 0).
      * rewrite (len_utf8_encode gs Hv). ring.
      * change (len (@nil Z)) with 0. ring.
Qed.

Lemma int_out_step f m gsize gs j : m <> 0 ->
  int_out (S f) m gsize gs j =
  int_out f (m / 10) gsize gs (j + 1) ++ [48 + m mod 10] ++ (if sepcond gsize gs j then utf8_encode gs else []).
Proof. intros H. cbn [int_out]. replace (m =? 0) with false by lia. reflexivity. Qed.

(* the top-level call starts at j = 0 *)
Lemma len_int_out_top gsize gs m : valid_rune gs -> 0 < m < 10 ^ Z.of_nat 20 ->
  len (int_out 20 m gsize gs 0) =
  len (rdigits 20 m) + (if grouping gsize gs then rune_len gs * ((len (rdigits 20 m) - 1) / gsize) else 0).
Proof.
  intros Hv Hm. destruct (grouping gsize gs) eqn:Hg.
  - assert (Hgs : 1 <= gsize) by (unfold grouping in Hg; lia).
    change 20%nat with (S 19). rewrite int_out_step by lia. rewrite rdigits_step by lia.
    rewrite sepcond_grouping, Hg. change (0 <? 0) with false. cbn [andb]. rewrite !len_app, !len_cons. change (len (@nil Z)) with 0.
    rewrite (len_int_out_grouped 19 gsize gs Hg Hv) by lia.
    set (D := len (rdigits 19 (m / 10))).
    replace (0 + 1 + D - 1) with D by lia. replace (0 + 1 - 1) with 0 by lia.
    rewrite Z.div_0_l by lia. replace (1 + D - 1) with D by lia. ring.
  - rewrite len_int_out_plain by exact Hg. lia.
Qed.

Lemma rdigits_bounds f : forall m, 0 < m < 10 ^ Z.of_nat f ->
  1 <= len (rdigits f m) /\ 10 ^ (len (rdigits f m) - 1) <= m < 10 ^ len (rdigits f m).
Proof.
  induction f as [|f IH]; intros m Hm; [cbn in Hm; lia|].
  rewrite rdigits_step by lia. rewrite len_cons.
  pose proof (len_nonneg (rdigits f (m / 10))) as H0.
  destruct (Z.eq_dec (m / 10) 0) as [Hz|Hnz].
  - rewrite Hz, rdigits_zero. change (len (@nil Z)) with 0. cbn. dlia.
  - pose proof (div10_bound m f ltac:(lia)) as Hq.
    destruct (IH (m / 10) ltac:(lia)) as (H1 & H2 & H3).
    set (L := len (rdigits f (m / 10))) in *.
    replace (1 + L - 1) with (Z.succ (L - 1)) by lia. replace (1 + L) with (Z.succ L) by lia.
    rewrite !Z.pow_succ_r by lia. split; [lia|]. dlia.
Qed.

Lemma rdigits_div_pow m dec : 0 < m < 10 ^ Z.of_nat 20 -> 0 <= dec ->
  let L := len (rdigits 20 m) in
  (dec < L -> 0 < m / 10 ^ dec < 10 ^ Z.of_nat 20 /\ len (rdigits 20 (m / 10 ^ dec)) = L - dec) /\
  (L <= dec -> m / 10 ^ dec = 0).
Proof.
  intros Hm Hdec L. destruct (rdigits_bounds 20 m Hm) as (H1 & H2 & H3). fold L in H1, H2, H3.
  assert (Hp : 0 < 10 ^ dec) by (apply Z.pow_pos_nonneg; lia).
  split.
  - intros Hlt.
    assert (Hlo : 10 ^ (L - dec - 1) <= m / 10 ^ dec).
    { apply Z.div_le_lower_bound; [lia|]. rewrite <- Z.pow_add_r by lia. replace (dec + (L - dec - 1)) with (L - 1) by lia. exact H2. }
    assert (Hhi : m / 10 ^ dec < 10 ^ (L - dec)).
    { apply Z.div_lt_upper_bound; [lia|]. rewrite <- Z.pow_add_r by lia. replace (dec + (L - dec)) with L by lia. exact H3. }
    assert (Hpos : 0 < 10 ^ (L - dec - 1)) by (apply Z.pow_pos_nonneg; lia).
    assert (Hle : m / 10 ^ dec <= m).
    { apply Z.div_le_upper_bound; [lia|]. nia. }
    split; [lia|].
    assert (HL20 : L <= 20).
    { unfold L, len. pose proof (rdigits_len 20) as _. clear -Hm.
      assert (forall f x, (length (rdigits f x) <= f)%nat) as Hlen.
      { induction f as [|f IH]; intros x; cbn [rdigits]; destruct (x =? 0); cbn [length]; try lia. specialize (IH (x / 10)). lia. }
      specialize (Hlen 20%nat m). lia. }
    replace (L - dec) with (Z.of_nat (Z.to_nat (L - dec))) by lia.
    apply rdigits_len; [lia|]. rewrite Z2Nat.id by lia. split; [exact Hlo|exact Hhi].
  - intros Hge. apply Z.div_small. split; [lia|].
    assert (10 ^ L <= 10 ^ dec) by (apply Z.pow_le_mono_r; lia). lia.
Qed.

Lemma len_int_abs num : min_i64 <= num <= max_i64 ->
  (if (if num <? 0 then -1 else 1) =? -1 then len_int num - 1 else len_int num) = len_uint (Z.abs num).
Proof.
  intros Hn. unfold min_i64, max_i64 in Hn. unfold len_int. destruct (num <? 0) eqn:E.
  - change (-1 =? -1) with true. cbv iota. destruct (num =? min_i64) eqn:E2.
    + assert (num = min_i64) by lia. subst num. reflexivity.
    + unfold min_i64 in E2. rewrite u64_small by (unfold two64; lia). replace (Z.abs num) with (- num) by lia. lia.
  - change (1 =? -1) with false. cbv iota. rewrite u64_small by (unfold two64; lia). replace (Z.abs num) with num by lia. reflexivity.
Qed.

(* ---- assembling AppendNumber ---------------------------------------------------------------------------- *)

Lemma an_tail sign gsize gs M b fs fi post :
  (sign = 1 \/ sign = -1) -> valid_rune gs -> 0 <= M < 10 ^ Z.of_nat 20 ->
  len fs = (if sign =? -1 then 1 else 0) ->
  len fi = len (if M =? 0 then [48] else int_out 20 M gsize gs 0) ->
  (if sign * M =? 0 then
     b5 <-- store (b ++ fs ++ fi ++ post) (len b + len fs + len fi - 1) 48 ;;
     if sign =? -1 then store b5 (len b + len fs + len fi - 1 - 1) 45 else Ok b5
   else
     r <-- an_int 20 (b ++ fs ++ fi ++ post) (len b + len fs + len fi - 1) (sign * M) sign gsize gs 0 ;;
     if sign =? -1 then store (fst r) (snd r) 45 else Ok (fst r))
  = Ok (b ++ (if sign =? -1 then [45] else []) ++ (if M =? 0 then [48] else int_out 20 M gsize gs 0) ++ post).
Proof.
  intros Hs Hv HM Hfs Hfi.
  destruct (M =? 0) eqn:E0.
  - assert (M = 0) by lia. subst M. rewrite Z.mul_0_r. cbn [Z.eqb].
    rewrite len_cons in Hfi. change (len (@nil Z)) with 0 in Hfi.
    destruct fi as [|x fi]; [change (len (@nil Z)) with 0 in Hfi; lia|]. rewrite len_cons in Hfi. pose proof (len_nonneg fi).
    destruct fi; [|rewrite len_cons in Hfi; pose proof (len_nonneg fi); lia].
    destruct Hs as [-> | ->].
    + change (1 =? -1) with false in *. cbv iota in *. destruct fs; [|rewrite len_cons in Hfs; pose proof (len_nonneg fs); lia].
      cbn [app]. rewrite len_cons. change (len (@nil Z)) with 0. replace (len b + 0 + (1 + 0) - 1) with (len b) by lia.
      rewrite store_app_mid. reflexivity.
    + change (-1 =? -1) with true in *. cbv iota in *.
      destruct fs as [|y fs]; [change (len (@nil Z)) with 0 in Hfs; lia|]. rewrite len_cons in Hfs. pose proof (len_nonneg fs).
      destruct fs; [|rewrite len_cons in Hfs; pose proof (len_nonneg fs); lia].
      rewrite !len_cons. change (len (@nil Z)) with 0.
      replace (b ++ [y] ++ [x] ++ post) with ((b ++ [y]) ++ x :: post) by (rewrite <- app_assoc; reflexivity).
      replace (len b + (1 + 0) + (1 + 0) - 1) with (len (b ++ [y])) by (rewrite len_app, len_cons; change (len (@nil Z)) with 0; lia).
      rewrite store_app_mid. cbn [rbind].
      replace ((b ++ [y]) ++ 48 :: post) with (b ++ y :: 48 :: post) by (rewrite <- app_assoc; reflexivity).
      replace (len (b ++ [y]) - 1) with (len b) by (rewrite len_app, len_cons; change (len (@nil Z)) with 0; lia).
      rewrite store_app_mid. reflexivity.
  - replace (sign * M =? 0) with false by (destruct Hs as [-> | ->]; lia).
    replace (b ++ fs ++ fi ++ post) with ((b ++ fs) ++ fi ++ post) by (rewrite <- app_assoc; reflexivity).
    replace (len b + len fs + len fi - 1) with (len (b ++ fs) + len fi - 1) by (rewrite len_app; lia).
    rewrite (an_int_spec sign gsize gs 20 Hs Hv) by (try assumption; lia). cbn [rbind fst snd].
    destruct Hs as [-> | ->].
    + change (1 =? -1) with false in *. cbv iota in *. destruct fs; [|rewrite len_cons in Hfs; pose proof (len_nonneg fs); lia].
      rewrite app_nil_r. reflexivity.
    + change (-1 =? -1) with true in *. cbv iota in *.
      destruct fs as [|y fs]; [change (len (@nil Z)) with 0 in Hfs; lia|]. rewrite len_cons in Hfs. pose proof (len_nonneg fs).
      destruct fs; [|rewrite len_cons in Hfs; pose proof (len_nonneg fs); lia].
      replace ((b ++ [y]) ++ int_out 20 M gsize gs 0 ++ post) with (b ++ y :: int_out 20 M gsize gs 0 ++ post) by (rewrite <- app_assoc; reflexivity).
      replace (len (b ++ [y]) - 1) with (len b) by (rewrite len_app, len_cons; change (len (@nil Z)) with 0; lia).
      rewrite store_app_mid. reflexivity.
Qed.

Lemma rune_len_pos r : valid_rune r -> 1 <= rune_len r <= 4.
Proof. intros H. destruct (rune_len_cases r H) as [[E _]|[[E _]|[[E _]|[E _]]]]; lia. Qed.

Lemma split3 {A} (l : list A) a c : 0 <= a -> 0 <= c -> a + c <= len l ->
  exists l1 l2 l3, l = l1 ++ l2 ++ l3 /\ len l1 = a /\ len l3 = c.
Proof.
  intros Ha Hc Hl. destruct (split_right l c ltac:(lia)) as (l12 & l3 & -> & H3).
  rewrite len_app in Hl.
  destruct (split_right l12 (len l12 - a) ltac:(lia)) as (l1 & l2 & -> & H2).
  rewrite len_app in H2. exists l1, l2, l3. split; [rewrite <- app_assoc; reflexivity|]. split; lia.
Qed.

(* the size AppendNumber computes is the length of the rendering *)
Lemma an_size num dec gsize gs ds :
  min_i64 <= num <= max_i64 -> 0 <= dec -> valid_rune gs -> valid_rune ds ->
  let sign := if num <? 0 then -1 else 1 in
  let n := len_int num in
  let n := if sign =? -1 then n - 1 else n in
  let n := if (dec <? n) && (0 <? gsize) && negb (gs =? 0)
           then n + rune_len gs * Z.quot (n - dec - 1) gsize else n in
  let n := if 0 <? dec then (if n <=? dec then 1 + dec else n) + rune_len ds else n in
  let n := if sign =? -1 then n + 1 else n in
  n = len (render num dec gsize gs ds) /\
  len (if Z.abs num / 10 ^ dec =? 0 then [48] else int_out 20 (Z.abs num / 10 ^ dec) gsize gs 0) >= 1.
Proof.
  intros Hn Hdec Hvg Hvd. cbn zeta.
  rewrite (len_int_abs num Hn).
  unfold min_i64, max_i64 in Hn.
  set (m := Z.abs num). assert (Hm : 0 <= m <= two63) by (unfold m, two63; lia).
  pose proof (i64_bound_pow m Hm) as Hm20.
  pose proof (rune_len_pos gs Hvg) as Hrg. pose proof (rune_len_pos ds Hvd) as Hrd.
  unfold render. fold m. rewrite !len_app.
  assert (Hsign : len (if num <? 0 then [45] else []) = (if (if num <? 0 then -1 else 1) =? -1 then 1 else 0)).
  { destruct (num <? 0); reflexivity. }
  assert (Hfrac : len (if 0 <? dec then utf8_encode ds ++ rev (frac_rdigits (Z.to_nat dec) m) else []) =
                  if 0 <? dec then rune_len ds + dec else 0).
  { destruct (0 <? dec) eqn:E; [|reflexivity].
    rewrite len_app, len_rev, len_frac_rdigits, (len_utf8_encode ds Hvd), Z2Nat.id by lia. reflexivity. }
  rewrite Hsign, Hfrac.
  change ((0 <? gsize) && negb (gs =? 0)) with (grouping gsize gs).
  rewrite <- andb_assoc. change ((0 <? gsize) && negb (gs =? 0)) with (grouping gsize gs).
  destruct (Z.eq_dec m 0) as [Hz|Hnz].
  - rewrite Hz. change (len_uint 0) with 1. rewrite Z.div_0_l by (apply Z.pow_nonzero; lia). cbn [Z.eqb].
    rewrite len_cons. change (len (@nil Z)) with 0.
    destruct (0 <? dec) eqn:Ed.
    + replace (dec <? 1) with false by lia. cbn [andb]. replace (1 <=? dec) with true by lia.
      split; [|lia]. destruct ((if num <? 0 then -1 else 1) =? -1); lia.
    + assert (dec = 0) by lia. subst dec. change (0 <? 1) with true. cbn [andb].
      replace (1 - 0 - 1) with 0 by lia. split; [|lia].
      destruct (grouping gsize gs) eqn:G.
      * rewrite Z.quot_0_l by (unfold grouping in G; lia). destruct ((if num <? 0 then -1 else 1) =? -1); lia.
      * destruct ((if num <? 0 then -1 else 1) =? -1); lia.
  - assert (Hm' : 0 < m < 10 ^ Z.of_nat 20) by lia.
    rewrite (len_uint_spec m) by (unfold two64, two63 in *; lia).
    destruct (rdigits_div_pow m dec Hm' Hdec) as [Hlt Hge].
    destruct (rdigits_bounds 20 m Hm') as (HL1 & _).
    set (L := len (rdigits 20 m)) in *.
    destruct (dec <? L) eqn:EL.
    + destruct (Hlt ltac:(lia)) as (HM & HLM).
      replace (m / 10 ^ dec =? 0) with false by lia.
      rewrite (len_int_out_top gsize gs (m / 10 ^ dec) Hvg HM). rewrite HLM.
      cbn [andb].
      destruct (grouping gsize gs) eqn:G.
      * assert (Hgs : 1 <= gsize) by (unfold grouping in G; lia).
        rewrite Z.quot_div_nonneg by lia.
        assert (Hq : 0 <= (L - dec - 1) / gsize) by (apply Z.div_pos; lia).
        assert (Hrq : 0 <= rune_len gs * ((L - dec - 1) / gsize)) by nia.
        split; [|lia].
        destruct (0 <? dec) eqn:Ed.
        -- replace (L + rune_len gs * ((L - dec - 1) / gsize) <=? dec) with false by lia.
           destruct ((if num <? 0 then -1 else 1) =? -1); lia.
        -- destruct ((if num <? 0 then -1 else 1) =? -1); lia.
      * split; [|lia].
        destruct (0 <? dec) eqn:Ed.
        -- replace (L <=? dec) with false by lia. destruct ((if num <? 0 then -1 else 1) =? -1); lia.
        -- destruct ((if num <? 0 then -1 else 1) =? -1); lia.
    + rewrite (Hge ltac:(lia)). cbn [Z.eqb andb]. rewrite len_cons. change (len (@nil Z)) with 0.
      replace (0 <? dec) with true by lia. replace (L <=? dec) with true by lia.
      split; [|lia]. destruct ((if num <? 0 then -1 else 1) =? -1); lia.
Qed.

Lemma append_number_spec_proof : forall b spare num dec gsize gs ds,
  min_i64 <= num <= max_i64 -> 0 <= dec -> valid_rune gs -> valid_rune ds ->
  append_number b spare num dec gsize gs ds = Ok (b ++ render num dec gsize gs ds).
Proof.
  intros b spare num dec gsize gs ds Hn Hdec Hvg Hvd.
  unfold append_number.
  replace (dec <? 0) with false by lia.
  replace (rune_len gs =? -1) with false by (unfold valid_rune in Hvg; lia).
  replace (rune_len ds =? -1) with false by (unfold valid_rune in Hvd; lia).
  cbv zeta.
  destruct (an_size num dec gsize gs ds Hn Hdec Hvg Hvd) as [Hsz Hint]. cbv zeta in Hsz. rewrite Hsz. clear Hsz.
  set (sign := if num <? 0 then -1 else 1).
  assert (Hs : sign = 1 \/ sign = -1) by (unfold sign; destruct (num <? 0); auto).
  set (m := Z.abs num) in *.
  assert (Hnum : num = sign * m) by (unfold sign, m; destruct (num <? 0) eqn:E; lia).
  assert (Hm : 0 <= m <= two63) by (unfold m, two63, min_i64, max_i64 in *; lia).
  pose proof (i64_bound_pow m Hm) as Hm20.
  assert (Hp : 0 < 10 ^ dec) by (apply Z.pow_pos_nonneg; lia).
  assert (HM : 0 <= m / 10 ^ dec < 10 ^ Z.of_nat 20).
  { split; [apply Z.div_pos; lia|]. assert (m / 10 ^ dec <= m) by (apply Z.div_le_upper_bound; [lia|nia]). lia. }
  unfold render in *. fold m in Hint |- *.
  set (S := if num <? 0 then [45] else []).
  set (I := if m / 10 ^ dec =? 0 then [48] else int_out 20 (m / 10 ^ dec) gsize gs 0) in *.
  set (F := if 0 <? dec then utf8_encode ds ++ rev (frac_rdigits (Z.to_nat dec) m) else []).
  assert (HS : len S = if sign =? -1 then 1 else 0) by (unfold S, sign; destruct (num <? 0); reflexivity).
  assert (HS45 : S = if sign =? -1 then [45] else []) by (unfold S, sign; destruct (num <? 0); reflexivity).
  pose proof (len_nonneg S) as HS0. pose proof (len_nonneg I) as HI0. pose proof (len_nonneg F) as HF0.
  destruct (grow_spec b spare (len (S ++ I ++ F)) (len_nonneg _)) as (fill & -> & Hfill). cbn [rbind].
  rewrite !len_app in Hfill.
  destruct (split3 fill (len S) (len F) HS0 HF0 ltac:(lia)) as (fs & fi & ff & -> & Hfs & Hff).
  rewrite !len_app in Hfill. assert (Hfi : len fi = len I) by lia.
  rewrite !len_app.
  destruct (0 <? dec) eqn:Ed.
  - (* decimals *)
    unfold F in Hff. rewrite len_app, len_rev, len_frac_rdigits, (len_utf8_encode ds Hvd), Z2Nat.id in Hff by lia.
    pose proof (rune_len_pos ds Hvd) as Hrd.
    destruct (split_right ff dec ltac:(lia)) as (fd & fq & -> & Hfq). rewrite len_app in Hff.
    assert (Hfd : len fd = rune_len ds) by lia.
    (* the decimals loop *)
    replace (b ++ fs ++ fi ++ fd ++ fq) with ((b ++ fs ++ fi ++ fd) ++ fq ++ []) by (rewrite app_nil_r, <- !app_assoc; reflexivity).
    replace (len b + (len S + (len I + len F)) - 1) with (len (b ++ fs ++ fi ++ fd) + len fq - 1).
    2:{ unfold F. rewrite !len_app, len_rev, len_frac_rdigits, (len_utf8_encode ds Hvd), Z2Nat.id by lia. lia. }
    rewrite Hnum at 1.
    rewrite (an_frac_spec sign (Z.to_nat dec) Hs) by (rewrite ?Z2Nat.id by lia; lia).
    cbn [rbind fst snd]. rewrite Z2Nat.id by lia. rewrite app_nil_r.
    (* the decimal symbol *)
    replace ((b ++ fs ++ fi ++ fd) ++ rev (frac_rdigits (Z.to_nat dec) m))
      with ((b ++ fs ++ fi) ++ fd ++ rev (frac_rdigits (Z.to_nat dec) m)) by (rewrite <- !app_assoc; reflexivity).
    replace (len (b ++ fs ++ fi ++ fd) - 1 - rune_len ds + 1) with (len (b ++ fs ++ fi)).
    2:{ rewrite !len_app. lia. }
    rewrite store_list_spec by (rewrite (len_utf8_encode ds Hvd); exact Hfd).
    cbn [rbind fst snd].
    replace (len (b ++ fs ++ fi ++ fd) - 1 - rune_len ds) with (len b + len fs + len fi - 1) by (rewrite !len_app; lia).
    replace ((b ++ fs ++ fi) ++ utf8_encode ds ++ rev (frac_rdigits (Z.to_nat dec) m))
      with (b ++ fs ++ fi ++ (utf8_encode ds ++ rev (frac_rdigits (Z.to_nat dec) m))) by (rewrite <- !app_assoc; reflexivity).
    rewrite (an_tail sign gsize gs (m / 10 ^ dec) b fs fi _ Hs Hvg HM) by (fold I; lia).
    fold I. rewrite <- HS45. unfold F. reflexivity.
  - (* no decimals *)
    assert (dec = 0) by lia. subst dec. unfold F in *. change (len (@nil Z)) with 0 in Hff.
    destruct ff; [|rewrite len_cons in Hff; pose proof (len_nonneg ff); lia].
    cbn [rbind fst snd].
    assert (HI : I = if m =? 0 then [48] else int_out 20 m gsize gs 0) by (unfold I; rewrite Z.pow_0_r, Z.div_1_r; reflexivity).
    rewrite Z.pow_0_r, Z.div_1_r in HM.
    change (len (@nil Z)) with 0.
    replace (len b + (len S + (len I + 0)) - 1) with (len b + len fs + len fi - 1) by lia.
    rewrite Hnum at 1. rewrite Hnum at 1.
    rewrite (an_tail sign gsize gs m b fs fi [] Hs Hvg HM) by (rewrite <- ?HI; lia).
    rewrite <- HI, <- HS45. reflexivity.
Qed.

(* ---- the round trip ------------------------------------------------------------------------------------------ *)

Lemma number_roundtrip_proof : forall b spare n dec gsize gs ds,
  min_i64 <= n <= max_i64 -> 0 <= dec -> sym_ok gs -> sym_ok ds -> gs <> ds ->
  exists out, append_number b spare n dec gsize gs ds = Ok (b ++ out) /\
              parse_number out gs ds = Ok (n, dec, len out).
Proof.
  intros b spare n dec gsize gs ds Hn Hdec Hg Hd Hne.
  exists (render n dec gsize gs ds). split.
  - apply append_number_spec_proof; try assumption; [apply Hg|apply Hd].
  - apply parse_render; assumption.
Qed.

Example number_roundtrip_ex :
  append_number [] [] (-1234567) 2 3 160 44 = Ok [45; 49; 50; 194; 160; 51; 52; 53; 44; 54; 55] /\
  parse_number [45; 49; 50; 194; 160; 51; 52; 53; 44; 54; 55] 160 44 = Ok (-1234567, 2, 11).
Proof. vm_compute. split; reflexivity. Qed.

Example sym_ok_ex : sym_ok 160 /\ sym_ok 44 /\ sym_ok 128512 /\ sym_ok 0.
Proof. unfold sym_ok, valid_rune. vm_compute. repeat split; discriminate. Qed.

(* ---- ParseNumber is total: no panic, the fuel is never exhausted, the length is within the input ------- *)

Lemma len_skipz_le {A} k (l : list A) : 0 <= k -> len (skipz k l) <= len l /\ (k <= len l -> len (skipz k l) = len l - k).
Proof.
  intros Hk. unfold len, skipz. rewrite skipn_length. lia.
Qed.

Lemma utf8_decode_len l r k : utf8_decode l = Some (r, k) -> k <= len l.
Proof.
  unfold utf8_decode. intros H.
  repeat match type of H with
         | match ?x with _ => _ end = _ => destruct x eqn:?
         | (if ?c then _ else _) = _ => destruct c eqn:?
         end; try discriminate; inversion H; subst; rewrite ?len_cons;
    repeat match goal with |- context [len ?x] => lazymatch x with _ :: _ => fail | _ => pose proof (len_nonneg x); generalize dependent (len x); intros end end; lia.
Qed.

Lemma go_decode_len c t : snd (go_decode_rune (c :: t)) <= len (c :: t).
Proof.
  unfold go_decode_rune. destruct (utf8_decode (c :: t)) as [[r k]|] eqn:E; cbn [snd].
  - apply utf8_decode_len in E. exact E.
  - rewrite len_cons. pose proof (len_nonneg t). lia.
Qed.

Lemma pn_loop_total f : forall l gs ds sign num dec n hd, (length l < f)%nat -> 0 <= dec ->
  exists num' dec' n', pn_loop f l gs ds sign num dec n hd = Ok (num', dec', n') /\ n <= n' <= n + len l /\ 0 <= dec'.
Proof.
  induction f as [|f IH]; intros l gs ds sign num dec n hd Hf Hdec; [lia|].
  destruct l as [|c t]; [cbn; change (len (@nil Z)) with 0; eexists; eexists; eexists; split; [reflexivity|lia]|].
  rewrite pn_loop_cons. cbn [length] in Hf. pose proof (len_nonneg t) as Ht. rewrite len_cons.
  destruct (is_digit c).
  - cbv zeta.
    repeat match goal with |- context [if ?c then Ok _ else _] => destruct c; [eexists; eexists; eexists; split; [reflexivity|lia]|] end.
    destruct (IH t gs ds sign (i64 (i64 (num * 10) + i64 (sign * byte (c - 48)))) (if hd then dec + 1 else dec) (n + 1) hd ltac:(lia) ltac:(destruct hd; lia))
      as (a & b & k & -> & Hk & Hb). eexists; eexists; eexists; split; [reflexivity|lia].
  - cbv zeta. match goal with |- context [if ?c then _ else Ok _] => destruct c; [|eexists; eexists; eexists; split; [reflexivity|lia]] end.
    pose proof (go_decode_size c t) as Hs. pose proof (go_decode_len c t) as Hsl.
    pose proof (length_skipz_lt (snd (go_decode_rune (c :: t))) c t ltac:(lia)) as Hl. cbn [length] in Hl.
    destruct (len_skipz_le (snd (go_decode_rune (c :: t))) (c :: t) ltac:(lia)) as [_ Heq]. specialize (Heq Hsl). rewrite len_cons in Heq, Hsl.
    destruct (IH (skipz (snd (go_decode_rune (c :: t))) (c :: t)) gs ds sign num dec (n + snd (go_decode_rune (c :: t)))
                 (if fst (go_decode_rune (c :: t)) =? ds then true else hd) ltac:(lia) Hdec) as (a & b & k & -> & Hk & Hb).
    eexists; eexists; eexists; split; [reflexivity|]. split; [lia|exact Hb].
Qed.

(* ParseNumber never panics, never runs out of fuel, and reports a length within the input *)
Lemma parse_number_total_proof : forall b gs ds,
  exists num dec n, parse_number b gs ds = Ok (num, dec, n) /\ 0 <= n <= len b /\ 0 <= dec.
Proof.
  intros b gs ds. unfold parse_number.
  destruct b as [|c t]; [cbn; exists 0, 0, 0; split; [reflexivity|change (len (@nil Z)) with 0; lia]|].
  rewrite len_cons. pose proof (len_nonneg t).
  destruct (c =? 45).
  - cbn [tl]. destruct (pn_loop_total (S (length (c :: t))) t gs ds (-1) 0 0 1 false ltac:(cbn [length]; lia) ltac:(lia))
      as (a & d & k & -> & Hk & Hd). exists a, d, k. split; [reflexivity|lia].
  - destruct (pn_loop_total (S (length (c :: t))) (c :: t) gs ds 1 0 0 0 false ltac:(lia) ltac:(lia))
      as (a & d & k & -> & Hk & Hd). rewrite len_cons in Hk. exists a, d, k. split; [reflexivity|lia].
Qed.
