(* Strconv/ScanProofs.v — how many bytes ParseFloat and ParseDecimal consume, for every byte string. *)
From Coq Require Import ZifyBool Floats.SpecFloat.
From Verif Require Import Common.Base Common.Tactics Strconv.Model Strconv.FModel Strconv.IntProofs Gen.Tables.

(* ---- the documented syntax, read greedily ------------------------------------------------------------------ *)

(* mantissa  digits ( '.' digits )?  (digit runs possibly empty) at the front of l: its length and the number of digits in it *)
Definition mant_len (l : list Z) : Z :=
  len (take_digits l) +
  match drop_digits l with
  | c :: t => if c =? 46 then 1 + len (take_digits t) else 0
  | [] => 0
  end.

Definition mant_digits (l : list Z) : Z :=
  len (take_digits l) +
  match drop_digits l with
  | c :: t => if c =? 46 then len (take_digits t) else 0
  | [] => 0
  end.

(* what follows the mantissa *)
Definition mant_rest (l : list Z) : list Z :=
  match drop_digits l with
  | c :: t => if c =? 46 then drop_digits t else c :: t
  | [] => []
  end.

(* exponent  [eE] [+-]? digit+  at the front of l (any number of digits) *)
Definition exp_len (l : list Z) : Z :=
  match l with
  | c :: t =>
      if (c =? 101) || (c =? 69) then
        let sgn := match t with s :: _ => is_sign s | [] => false end in
        let ds := take_digits (if sgn then tl t else t) in
        if len ds =? 0 then 0 else 1 + (if sgn then 1 else 0) + len ds
      else 0
  | [] => 0
  end.

(* ParseFloat:  [+-]? mantissa ( [eE] [+-]? digit+ )?  where the mantissa has at least one digit; 0 otherwise *)
Definition float_prefix_len (b : list Z) : Z :=
  let sgn := match b with c :: _ => is_sign c | [] => false end in
  let l := if sgn then tl b else b in
  if mant_digits l =? 0 then 0
  else (if sgn then 1 else 0) + mant_len l + exp_len (mant_rest l).

(* ParseDecimal:  -? mantissa *)
Definition decimal_prefix_len (b : list Z) : Z :=
  let neg := match b with c :: _ => c =? 45 | [] => false end in
  let l := if neg then tl b else b in
  (if neg then 1 else 0) + mant_len l.

(* ---- the scanning loops ---------------------------------------------------------------------------------------- *)

(* what the loops see: digits, and one dot while it is still allowed *)
Fixpoint scan_len (l : list Z) (dot_ok : bool) : Z :=
  match l with
  | c :: t => if is_digit c then 1 + scan_len t dot_ok
              else if dot_ok && (c =? 46) then 1 + scan_len t false else 0
  | [] => 0
  end.

Fixpoint dot_pos (l : list Z) (i : Z) : Z :=
  match l with
  | c :: t => if is_digit c then dot_pos t (i + 1) else if c =? 46 then i else -1
  | [] => -1
  end.

Lemma scan_len_false l : scan_len l false = len (take_digits l).
Proof.
  induction l as [|c t IH]; [reflexivity|]. cbn [scan_len take_digits].
  destruct (is_digit c); [rewrite len_cons, IH; reflexivity|reflexivity].
Qed.

Lemma scan_len_true l : scan_len l true = mant_len l.
Proof.
  unfold mant_len. induction l as [|c t IH]; [reflexivity|]. cbn [scan_len take_digits drop_digits].
  destruct (is_digit c) eqn:Ec.
  - rewrite len_cons, IH. lia.
  - cbn [andb]. change (len (@nil Z)) with 0. destruct (c =? 46); [rewrite scan_len_false; lia|lia].
Qed.

Lemma dot_pos_ge l : forall i, dot_pos l i = -1 \/ i <= dot_pos l i.
Proof.
  induction l as [|c t IH]; intros i; cbn [dot_pos]; [left; reflexivity|].
  destruct (is_digit c); [destruct (IH (i + 1)); lia|]. destruct (c =? 46); lia.
Qed.

Lemma pf_scan_i l : forall i n dot trunk, 0 <= i ->
  fst (fst (fst (pf_scan l i n dot trunk))) = i + scan_len l (dot =? -1) /\
  snd (fst (pf_scan l i n dot trunk)) = (if dot =? -1 then dot_pos l i else dot).
Proof.
  induction l as [|c t IH]; intros i n dot trunk Hi; cbn [pf_scan scan_len dot_pos].
  - cbn [fst snd]. destruct (dot =? -1) eqn:E; lia.
  - destruct (is_digit c).
    + assert (forall n' trunk', fst (fst (fst (pf_scan t (i + 1) n' dot trunk'))) = i + (1 + scan_len t (dot =? -1)) /\
                                 snd (fst (pf_scan t (i + 1) n' dot trunk')) = (if dot =? -1 then dot_pos t (i + 1) else dot)) as H.
      { intros n' trunk'. destruct (IH (i + 1) n' dot trunk' ltac:(lia)) as [H1 H2]. split; [lia|exact H2]. }
      destruct (trunk =? -1); [|apply H].
      match goal with |- context [if ?c then _ else _] => destruct c end; apply H.
    + destruct (dot =? -1) eqn:Ed; cbn [andb].
      * destruct (c =? 46).
        -- destruct (IH (i + 1) n i trunk ltac:(lia)) as [H1 H2].
           replace (i =? -1) with false in * by lia. split; [lia|exact H2].
        -- cbn [fst snd]. rewrite ?Ed. lia.
      * cbn [fst snd]. rewrite ?Ed. lia.
Qed.

Lemma pd_scan_i l : forall i start dot n, 0 <= i ->
  fst (fst (fst (pd_scan l i start dot n))) = i + scan_len l (dot =? -1) /\
  snd (fst (pd_scan l i start dot n)) = (if dot =? -1 then dot_pos l i else dot) /\
  (start <> -1 -> snd (fst (fst (pd_scan l i start dot n))) <> -1).
Proof.
  induction l as [|c t IH]; intros i start dot n Hi; cbn [pd_scan scan_len dot_pos].
  - cbn [fst snd]. destruct (dot =? -1) eqn:E; repeat split; try lia; auto.
  - destruct (is_digit c).
    + assert (forall st' n', (start <> -1 -> st' <> -1) ->
                fst (fst (fst (pd_scan t (i + 1) st' dot n'))) = i + (1 + scan_len t (dot =? -1)) /\
                snd (fst (pd_scan t (i + 1) st' dot n')) = (if dot =? -1 then dot_pos t (i + 1) else dot) /\
                (start <> -1 -> snd (fst (fst (pd_scan t (i + 1) st' dot n'))) <> -1)) as H.
      { intros st' n' Hst. destruct (IH (i + 1) st' dot n' ltac:(lia)) as (H1 & H2 & H3).
        split; [lia|]. split; [exact H2|]. intros Hs. apply H3. apply Hst. exact Hs. }
      destruct (start =? -1) eqn:Es.
      * destruct ((49 <=? c) && (c <=? 57)); apply H; lia.
      * destruct (i - start <? 18); apply H; auto.
    + destruct (c =? 46).
      * destruct (dot =? -1) eqn:Ed; cbn [negb andb].
        -- destruct (IH (i + 1) start i n ltac:(lia)) as (H1 & H2 & H3).
           replace (i =? -1) with false in * by lia. split; [lia|]. split; [exact H2|exact H3].
        -- cbn [fst snd]. rewrite ?Ed. repeat split; try lia; auto.
      * cbn [fst snd]. rewrite andb_false_r. destruct (dot =? -1) eqn:Ed; repeat split; try lia; auto.
Qed.

(* the test "i == start || i == start+1 && dot == start" says: no digit in the mantissa *)
Lemma no_digit_test l start : 0 <= start ->
  ((start + scan_len l true =? start) || ((start + scan_len l true =? start + 1) && (dot_pos l start =? start)))
  = (mant_digits l =? 0).
Proof.
  intros Hstart. unfold mant_digits. destruct l as [|c t]; [cbn; replace (start + 0 =? start) with true by lia; reflexivity|].
  cbn [scan_len dot_pos take_digits drop_digits]. destruct (is_digit c) eqn:Ec.
  - pose proof (len_nonneg (take_digits t)). rewrite len_cons.
    assert (0 <= scan_len t true).
    { rewrite scan_len_true. unfold mant_len. pose proof (len_nonneg (take_digits t)).
      destruct (drop_digits t) as [|c' t']; [lia|]. pose proof (len_nonneg (take_digits t')). destruct (c' =? 46); lia. }
    destruct (dot_pos_ge t (start + 1)) as [Hd|Hd].
    + rewrite Hd. destruct (drop_digits t) as [|c' t']; [lia|]. pose proof (len_nonneg (take_digits t')). destruct (c' =? 46); lia.
    + destruct (drop_digits t) as [|c' t']; [lia|]. pose proof (len_nonneg (take_digits t')). destruct (c' =? 46); lia.
  - cbn [andb]. change (len (@nil Z)) with 0. destruct (c =? 46).
    + rewrite scan_len_false. pose proof (len_nonneg (take_digits t)). lia.
    + lia.
Qed.

(* ---- float64pow10 is never indexed out of range ------------------------------------------------------------ *)

Lemma f64pow10_ok k : 0 <= k <= 22 -> exists p, f64pow10 k = Ok p.
Proof.
  intros H. assert (Hin : In k (zrange 0 22)) by (apply zrange_in; lia).
  vm_compute in Hin. unfold f64pow10.
  repeat (destruct Hin as [<-|Hin]; [eexists; reflexivity|]). destruct Hin.
Qed.

Lemma pf_value_total f me ee : exists v, pf_value f me ee = Ok v.
Proof.
  unfold pf_value. set (exp := i64 (ee - me)).
  assert (Hslow : exists v, (if feq f fzero then Ok f
    else
      let h := fmul f (pow10 (i64 (- me))) in
      let h := fmul h (pow10 ee) in
      if feq h fzero || f_is_inf h then
        let fe := if exp <? -308 then (fmul f (pow10 (-308)), i64 (exp + 308))
                  else if 308 <? exp then (fmul f (pow10 308), i64 (exp - 308))
                  else (f, exp) in
        Ok (fmul (fst fe) (pow10 (snd fe)))
      else Ok h) = Ok v).
  { destruct (feq f fzero); [eexists; reflexivity|]. cbv zeta.
    match goal with |- context [if ?c then _ else _] => destruct c end; eexists; reflexivity. }
  cbv zeta. destruct (exp =? 0); [eexists; reflexivity|].
  destruct ((0 <? exp) && (exp <=? 15 + 22)) eqn:E1.
  - destruct (22 <? exp) eqn:E2.
    + destruct (f64pow10_ok (exp - 22) ltac:(lia)) as (p & ->). cbn [rbind fst snd].
      destruct (f64pow10_ok 22 ltac:(lia)) as (p2 & ->).
      match goal with |- context [if ?c then _ else _] => destruct c end; [eexists; reflexivity|exact Hslow].
    + cbn [rbind fst snd]. destruct (f64pow10_ok exp ltac:(lia)) as (p2 & ->).
      match goal with |- context [if ?c then _ else _] => destruct c end; [eexists; reflexivity|exact Hslow].
  - destruct ((-22 <=? exp) && (exp <? 0)) eqn:E3.
    + destruct (f64pow10_ok (- exp) ltac:(lia)) as (p & ->). eexists; reflexivity.
    + exact Hslow.
Qed.

(* ---- the exponent --------------------------------------------------------------------------------------------- *)

(* the exponent digit loop consumes every digit, whatever the (saturating) accumulator holds *)
Lemma pf_expdigits_snd l : forall e j, snd (pf_expdigits l e j) = j + len (take_digits l).
Proof.
  induction l as [|c t IH]; intros e j; cbn [pf_expdigits take_digits].
  - change (len (@nil Z)) with 0. cbn [snd]. lia.
  - destruct (is_digit c); [rewrite IH, len_cons; lia|]. change (len (@nil Z)) with 0. cbn [snd]. lia.
Qed.

Lemma pf_expdigits_fst l : forall e j j', fst (pf_expdigits l e j) = fst (pf_expdigits l e j').
Proof.
  induction l as [|c t IH]; intros e j j'; cbn [pf_expdigits]; [reflexivity|].
  destruct (is_digit c); [apply IH|reflexivity].
Qed.

Lemma pf_exponent_len rest i : snd (pf_exponent rest i) = i + exp_len rest.
Proof.
  unfold pf_exponent, exp_len. destruct rest as [|c t]; [cbn [snd]; lia|].
  destruct ((c =? 101) || (c =? 69)); [|cbn [snd]; lia].
  cbv zeta. change (match t with s :: _ => (s =? 43) || (s =? 45) | [] => false end)
    with (match t with s :: _ => is_sign s | [] => false end).
  set (sgn := match t with s :: _ => is_sign s | [] => false end).
  rewrite pf_expdigits_snd.
  set (ds := take_digits (if sgn then tl t else t)).
  pose proof (len_nonneg ds) as Hl.
  destruct (len ds =? 0) eqn:E.
  - replace (i + 1 + (if sgn then 1 else 0) <? i + 1 + (if sgn then 1 else 0) + len ds) with false by lia. cbn [snd]. lia.
  - replace (i + 1 + (if sgn then 1 else 0) <? i + 1 + (if sgn then 1 else 0) + len ds) with true by lia. cbn [snd]. lia.
Qed.

(* below the saturation bound the accumulator is the value of the digits *)
Lemma pf_expdigits_value ds : all_digits ds -> forall rest e j, stops rest -> 0 <= e ->
  dec_value_from e ds < 1000000000000000 ->
  fst (pf_expdigits (ds ++ rest) e j) = dec_value_from e ds.
Proof.
  intros Hd. induction Hd as [|c r Hc Hr IH]; intros rest e j Hs He Hb.
  - cbn [app dec_value_from fold_left]. destruct rest as [|c t]; [reflexivity|]. cbn in Hs. cbn [pf_expdigits]. rewrite Hs. reflexivity.
  - cbn [app pf_expdigits]. rewrite Hc.
    change (dec_value_from e (c :: r)) with (dec_value_from (digit_step e c) r) in *.
    rewrite (byte_digit c Hc). pose proof Hc as Hc'. apply is_digit_range in Hc'.
    assert (Hmono : digit_step e c <= dec_value_from (digit_step e c) r).
    { apply dec_value_from_ge; [unfold digit_step; lia|exact Hr]. }
    unfold digit_step in *. replace (e <? 1000000000000000) with true by lia.
    rewrite (i64_small (e * 10)) by (unfold min_i64, max_i64; lia).
    rewrite i64_small by (unfold min_i64, max_i64; lia).
    apply IH; [exact Hs|lia|exact Hb].
Qed.

(* the exponent ParseFloat uses:  [eE] sign digits  with value below 10^15 *)
Lemma pf_exponent_value_proof : forall c sg ds rest i,
  (c = 101 \/ c = 69) -> sign_ok sg -> all_digits ds -> ds <> [] -> stops rest ->
  dec_value ds < 1000000000000000 ->
  fst (pf_exponent (c :: sg ++ ds ++ rest) i) = if sign_neg sg then - dec_value ds else dec_value ds.
Proof.
  intros c sg ds rest i Hc Hsg Hd Hne Hs Hb. unfold pf_exponent.
  replace ((c =? 101) || (c =? 69)) with true by lia. cbv zeta.
  assert (Hlen : 0 < len ds).
  { destruct ds; [exfalso; apply Hne; reflexivity|]. rewrite len_cons. pose proof (len_nonneg ds). lia. }
  pose proof (dec_value_nonneg ds Hd) as Hv0.
  destruct Hsg as [->|[->| ->]]; cbn [app sign_neg tl].
  - assert (E : match ds ++ rest with s :: _ => (s =? 43) || (s =? 45) | [] => false end = false /\
                match ds ++ rest with s :: _ => s =? 45 | [] => false end = false).
    { destruct ds as [|d ds']; [exfalso; apply Hne; reflexivity|]. cbn [app]. inversion Hd as [|? ? Hd1 _]; subst.
      apply is_digit_range in Hd1. split; lia. }
    destruct E as [-> ->]. rewrite pf_expdigits_snd, take_digits_app by assumption.
    replace (i + 1 + 0 <? i + 1 + 0 + len ds) with true by lia. cbn [fst].
    apply pf_expdigits_value; try assumption; lia.
  - change ((43 =? 43) || (43 =? 45)) with true. change (43 =? 45) with false. cbv iota.
    rewrite pf_expdigits_snd, take_digits_app by assumption.
    replace (i + 1 + 1 <? i + 1 + 1 + len ds) with true by lia. cbn [fst].
    apply pf_expdigits_value; try assumption; lia.
  - change ((45 =? 43) || (45 =? 45)) with true. change (45 =? 45) with true. cbv iota.
    rewrite pf_expdigits_snd, take_digits_app by assumption.
    replace (i + 1 + 1 <? i + 1 + 1 + len ds) with true by lia. cbn [fst].
    rewrite pf_expdigits_value by (try assumption; lia). fold (dec_value ds).
    apply i64_small. unfold min_i64, max_i64. lia.
Qed.

(* ---- ParseFloat ------------------------------------------------------------------------------------------------- *)

Lemma skipz_add_app {A} (x y : list A) a k : len x = a -> 0 <= k -> skipz (a + k) (x ++ y) = skipz k y.
Proof.
  intros Hx Hk. unfold skipz, len in *. replace (Z.to_nat (a + k)) with (length x + Z.to_nat k)%nat by lia.
  rewrite skipn_app. rewrite skipn_all2 by lia. replace (length x + Z.to_nat k - length x)%nat with (Z.to_nat k) by lia.
  reflexivity.
Qed.

Lemma skipz_app_len' {A} (a b : list A) : skipz (len a) (a ++ b) = b.
Proof.
  unfold skipz, len. rewrite Nat2Z.id. rewrite skipn_app, skipn_all, Nat.sub_diag. reflexivity.
Qed.

Lemma mant_len_nonneg l : 0 <= mant_len l.
Proof.
  unfold mant_len. pose proof (len_nonneg (take_digits l)).
  destruct (drop_digits l) as [|c t]; [lia|]. pose proof (len_nonneg (take_digits t)). destruct (c =? 46); lia.
Qed.

Lemma skipz_mant l : skipz (mant_len l) l = mant_rest l.
Proof.
  transitivity (skipz (mant_len l) (take_digits l ++ drop_digits l)); [rewrite <- take_drop_digits; reflexivity|].
  unfold mant_len, mant_rest. set (td := take_digits l).
  destruct (drop_digits l) as [|c t].
  - rewrite app_nil_r. replace (len td + 0) with (len td) by lia. rewrite <- (app_nil_r td) at 2. apply skipz_app_len'.
  - destruct (c =? 46) eqn:Ec.
    + rewrite (skipz_add_app td (c :: t) (len td) (1 + len (take_digits t)) eq_refl)
        by (pose proof (len_nonneg (take_digits t)); lia).
      transitivity (skipz (len (c :: take_digits t)) ((c :: take_digits t) ++ drop_digits t)).
      * rewrite len_cons. cbn [app]. rewrite <- take_drop_digits. reflexivity.
      * apply skipz_app_len'.
    + replace (len td + 0) with (len td) by lia. apply skipz_app_len'.
Qed.

(* ParseFloat never panics and consumes float_prefix_len b bytes, for every byte string b *)
Lemma parse_float_prefix_proof : forall b, exists v, parse_float b = Ok (v, float_prefix_len b).
Proof.
  intros b. unfold parse_float, float_prefix_len.
  assert (Hsgn : match b with c :: _ => (c =? 43) || (c =? 45) | [] => false end =
                 match b with c :: _ => is_sign c | [] => false end) by (destruct b; reflexivity).
  rewrite Hsgn. set (sgn := match b with c :: _ => is_sign c | [] => false end).
  set (start := if sgn then 1 else 0). set (l := if sgn then tl b else b).
  assert (Hst : 0 <= start) by (unfold start; destruct sgn; lia).
  destruct (pf_scan_i l start 0 (-1) (-1) Hst) as [Hi Hdot].
  change (-1 =? -1) with true in Hi, Hdot. cbv iota in Hdot.
  cbv zeta. rewrite Hi, Hdot. rewrite scan_len_true in *.
  pose proof (no_digit_test l start Hst) as Htest. rewrite scan_len_true in Htest. rewrite Htest.
  destruct (mant_digits l =? 0); [eexists; reflexivity|].
  assert (Hb : b = firstz start b ++ l /\ len (firstz start b) = start).
  { unfold start, l, sgn. destruct b as [|c t]; [split; reflexivity|]. destruct (is_sign c); split; reflexivity. }
  destruct Hb as [Hb Hbl].
  assert (Hskip : skipz (start + mant_len l) b = mant_rest l).
  { rewrite Hb at 1. rewrite (skipz_add_app _ _ start (mant_len l) Hbl (mant_len_nonneg l)). apply skipz_mant. }
  rewrite Hskip. rewrite pf_exponent_len.
  match goal with |- context [pf_value ?f ?me ?ee] => destruct (pf_value_total f me ee) as (v & ->) end.
  cbn [rbind]. exists v. reflexivity.
Qed.

(* ---- ParseDecimal ----------------------------------------------------------------------------------------------- *)

(* the input is a lone '.' (not followed by a digit): ParseDecimal reports length 0 *)
Definition lone_dot (b : list Z) : bool :=
  match b with
  | c :: t => (c =? 46) && (len (take_digits t) =? 0)
  | [] => false
  end.

Definition decimal_consumed (b : list Z) : Z := if lone_dot b then 0 else decimal_prefix_len b.

Lemma lone_dot_test l : (0 + scan_len l true =? 1) && (dot_pos l 0 =? 0) = lone_dot l.
Proof.
  destruct l as [|c t]; [reflexivity|]. cbn [scan_len dot_pos lone_dot]. destruct (is_digit c) eqn:Ec.
  - assert (c <> 46) by (apply is_digit_range in Ec; lia). replace (c =? 46) with false by lia. cbn [andb].
    destruct (dot_pos_ge t (0 + 1)) as [Hd|Hd]; [rewrite Hd; apply andb_false_r|].
    replace (dot_pos t (0 + 1) =? 0) with false by lia. apply andb_false_r.
  - cbn [andb]. destruct (c =? 46).
    + rewrite scan_len_false. pose proof (len_nonneg (take_digits t)). cbn [andb]. change (0 =? 0) with true. lia.
    + reflexivity.
Qed.

Lemma parse_decimal_prefix_proof : forall b, exists v, parse_decimal b = Ok (v, decimal_consumed b).
Proof.
  intros b. unfold parse_decimal, decimal_consumed, decimal_prefix_len.
  set (neg := match b with c :: _ => c =? 45 | [] => false end).
  set (st := if neg then 1 else 0). set (l := if neg then tl b else b).
  assert (Hst : 0 <= st) by (unfold st; destruct neg; lia).
  destruct (pd_scan_i l st (-1) (-1) 0 Hst) as (Hi & Hdot & _).
  change (-1 =? -1) with true in Hi, Hdot. cbv iota in Hdot.
  cbv zeta. rewrite Hi, Hdot. clear Hi Hdot.
  assert (Hlone : (st + scan_len l true =? 1) && (dot_pos l st =? 0) = lone_dot b).
  { unfold st, l, neg. destruct b as [|c t]; [reflexivity|]. destruct (c =? 45) eqn:E.
    - assert (c = 45) by lia. subst c. cbn [tl lone_dot]. change (45 =? 46) with false. cbn [andb].
      destruct (dot_pos_ge t 1) as [Hd|Hd]; [rewrite Hd; apply andb_false_r|].
      replace (dot_pos t 1 =? 0) with false by lia. apply andb_false_r.
    - apply lone_dot_test. }
  rewrite Hlone. rewrite scan_len_true.
  destruct (lone_dot b); [eexists; reflexivity|].
  match goal with |- context [if ?c then Ok (fzero, ?i) else _] => destruct c; [eexists; f_equal; f_equal; unfold st; lia|] end.
  match goal with |- context [if 1023 <? ?e then _ else _] => set (exp := e) end.
  destruct (1023 <? exp); [eexists; f_equal; f_equal; unfold st; lia|].
  destruct (exp <? -1022); [eexists; f_equal; f_equal; unfold st; lia|].
  destruct ((0 <=? exp) && (exp <? 23)) eqn:E1.
  - destruct (f64pow10_ok exp ltac:(lia)) as (p & ->). cbn [rbind]. eexists; f_equal; f_equal; unfold st; lia.
  - destruct ((-22 <=? exp) && (exp <? 0)) eqn:E2.
    + destruct (f64pow10_ok (- exp) ltac:(lia)) as (p & ->). cbn [rbind]. eexists; f_equal; f_equal; unfold st; lia.
    + eexists; f_equal; f_equal; unfold st; lia.
Qed.

(* for an input that begins with a decimal number the lone-dot case does not arise *)
Lemma decimal_consumed_number b :
  0 < mant_digits (if match b with c :: _ => c =? 45 | [] => false end then tl b else b) ->
  decimal_consumed b = decimal_prefix_len b.
Proof.
  unfold decimal_consumed, lone_dot, mant_digits. destruct b as [|c t]; [reflexivity|].
  destruct (c =? 45) eqn:E.
  - replace (c =? 46) with false by lia. reflexivity.
  - intros H. cbn [take_digits drop_digits] in H. destruct (is_digit c) eqn:Ec.
    + apply is_digit_range in Ec. replace (c =? 46) with false by lia. reflexivity.
    + change (len (@nil Z)) with 0 in H. destruct (c =? 46); [|reflexivity].
      replace (len (take_digits t) =? 0) with false by lia. reflexivity.
Qed.

Example parse_float_ex :
  match parse_float [45; 49; 46; 53; 101; 43; 49; 48; 120] with
  | Ok (v, n) => n = 8 /\ bits_of_f v = 13982533963730649088
  | _ => False
  end.
Proof. vm_compute. split; reflexivity. Qed.
Example float_prefix_len_ex : float_prefix_len [45; 49; 46; 53; 101; 43; 49; 48; 120] = 8 /\ float_prefix_len [46; 101; 49] = 0 /\ float_prefix_len [49; 101; 120] = 1 /\
  float_prefix_len [49; 101; 57; 50; 50; 51; 51; 55; 50; 48; 51; 54; 56; 53; 52; 55; 55; 53; 56; 48; 56] = 21.
Proof. vm_compute. repeat split; reflexivity. Qed.
Example decimal_consumed_ex : decimal_consumed [45; 49; 46; 53; 46; 50] = 4 /\ decimal_consumed [46; 120] = 0 /\ decimal_consumed [45; 46] = 2.
Proof. vm_compute. repeat split; reflexivity. Qed.
